/-
  Helper lemmas for `Props/C12b.lean` (save then load: note-ons with velocities, signatures in force).
  * per-key projections: through `toRel`, `normalise`, `toAbs`, `sortAbs`, merge and `insort` the note
    events of one key of a single good track stay the same list;
  * the shape of `convert`'s result with the content of the meta sequence;
  * `latest` (signature in force) on sorted lists, under permutation, and through `normalise`'s removal of
    repeated signatures.
-/
import SCoda.Lemmas.MidiE2E
import SCoda.Lemmas.Equals
namespace SCoda.E2E
open SCoda SCoda.MidiL SCoda.MergeL SCoda.C13 SCoda.EQ

/-! ## per-key projections -/

/-- the note events of key `k`, in list order -/
def P (k : Int × Int) (l : List Msg) : List Msg := l.filter (isKN k)

theorem P_append (k : Int × Int) (a b : List Msg) : P k (a ++ b) = P k a ++ P k b := by simp [P]

theorem P_idem (k : Int × Int) (l : List Msg) : P k (P k l) = P k l := by simp [P]

theorem isKN_notInternal (k : Int × Int) (m : Msg) (h : isKN k m = true) : (m.ty != .internal) = true := by
  simp only [isKN, decide_eq_true_eq] at h
  rcases h.2 with h | h <;> simp [h]

theorem P_eventsAbs (k : Int × Int) (l : List Msg) : P k (eventsAbs l) = P k l := by
  simp only [P, eventsAbs, List.filter_filter]
  apply List.filter_congr
  intro m _
  by_cases h : isKN k m = true
  · simp [h, isKN_notInternal k m h]
  · simp [h]

theorem P_nonote (k : Int × Int) (l : List Msg) (h : ∀ m ∈ l, m.ty ≠ .noteOn ∧ m.ty ≠ .noteOff) : P k l = [] := by
  rw [P, List.filter_eq_nil_iff]
  intro m hm
  simp [isKN, (h m hm).1, (h m hm).2]

theorem P_insort (k : Int × Int) (a : List Msg) (m : Msg) (h : m.ty ≠ .noteOn ∧ m.ty ≠ .noteOff) :
    P k (insort a m) = P k a := by
  have hm : isKN k m = false := by simp [isKN, h.1, h.2]
  simp only [insort, P, List.filter_append, List.filter_cons, hm, Bool.false_eq_true, if_false]
  rw [← List.filter_append, List.take_append_drop]

theorem P_sortAbs (k : Int × Int) (l : List Msg) : P k (sortAbs l) = sortAbs (P k l) := filter_sortAbs _ l

theorem fuseK_P (k : Int × Int) (l : List Msg) : ∀ d, fuseK k d (P k l) = fuseK k d l := by
  induction l with
  | nil => intro d; rfl
  | cons m ms ih =>
    intro d
    by_cases hm : isKN k m = true
    · have : P k (m :: ms) = m :: P k ms := by simp [P, hm]
      rw [this]
      rcases cases3 k m with h | h | ⟨h1, h2⟩
      · by_cases hd : d = 0
        · subst hd; rw [fuseK_on0 h, fuseK_on0 h, ih]
        · rw [fuseK_on h _ d hd, fuseK_on h _ d hd, ih]
      · by_cases hd : d = 1
        · subst hd; rw [fuseK_off1 h, fuseK_off1 h, ih]
        · rw [fuseK_off h _ d hd, fuseK_off h _ d hd, ih]
      · rw [fuseK_other h1 h2, fuseK_other h1 h2, ih]
    · have : P k (m :: ms) = P k ms := by simp [P, hm]
      simp only [isKN, decide_eq_true_eq, not_and, not_or] at hm
      have h1 : ¬(m.nkey = k ∧ m.ty = .noteOn) := fun h => (hm h.1).1 h.2
      have h2 : ¬(m.nkey = k ∧ m.ty = .noteOff) := fun h => (hm h.1).2 h.2
      rw [this, fuseK_other h1 h2, ih]

theorem depth_P (k : Int × Int) (l : List Msg) (d : Nat) : depth k (P k l) d = depth k l d :=
  depth_filter_kn k l d

/-- what is needed of the per-key lists `Y k` of a good track -/
structure KeyOK (Y : Int × Int → List Msg) : Prop where
  proj : ∀ k, P k (Y k) = Y k
  fuse : ∀ k, fuseK k 0 (Y k) = Y k
  dep : ∀ k, depth k (Y k) 0 = 0
  kle : ∀ k, (Y k).Pairwise KLe

theorem normQ (Y : Int × Int → List Msg) (hY : KeyOK Y) (r : List Msg) (hr : NonNegWaits r)
    (h : ∀ k, P k (eventsRel r) = Y k) : ∀ k, P k (eventsRel (normalise r)) = Y k := by
  have hd : ∀ k, depth k r 0 = 0 := by
    intro k
    rw [← depth_events k r 0 0, ← depth_P]
    show depth k (P k (eventsRel r)) 0 = 0
    rw [h k]; exact hY.dep k
  intro k
  show (eventsRel (normalise r)).filter (isKN k) = Y k
  rw [normalise_fuse r hr hd k, ← fuseK_P, h k]
  exact hY.fuse k

theorem eventsAbs_toAbs_P (k : Int × Int) (r : List Msg) : P k (toAbs r) = sortAbs (P k (eventsRel r)) := by
  rw [toAbs_eq]
  split
  · exact P_sortAbs k _
  · rw [P_insort k _ _ (by simp [Msg.mkInternal])]
    exact P_sortAbs k _

theorem absQ (Y : Int × Int → List Msg) (hY : KeyOK Y) (r : List Msg)
    (h : ∀ k, P k (eventsRel r) = Y k) : ∀ k, P k (toAbs r) = Y k := by
  intro k
  rw [eventsAbs_toAbs_P, h k]
  exact isort_of_pairwise keyLe _ (hY.kle k)

theorem mergeQ (Y : Int × Int → List Msg) (hY : KeyOK Y) (as : List (List Msg)) (hok : ∀ a ∈ as, OkAbs a)
    (h : ∀ k, P k as.flatten = Y k) : ∀ k, P k (eventsRel (C15.mergeRel as)) = Y k := by
  have hU := C15.okU as hok
  apply normQ Y hY _ (C15.nnR as hok)
  intro k
  rw [C04.toRel_events _ hU, P_eventsAbs, P_sortAbs, h k]
  exact isort_of_pairwise keyLe _ (hY.kle k)

theorem VQ (Y : Int × Int → List Msg) (hY : KeyOK Y) (x : List Msg) (hok : OkAbs x)
    (h : ∀ k, P k x = Y k) : ∀ k, P k (V x) = Y k := by
  apply absQ Y hY
  apply normQ Y hY _ (C04.toRel_ok x hok).1
  intro k
  rw [C04.toRel_events x hok, P_eventsAbs]
  exact h k

/-! ## a good sorted track is `KeyOK` -/

theorem P_cons_kn (k : Int × Int) (m : Msg) (ms : List Msg) (h : m.nkey = k ∧ (m.ty = .noteOn ∨ m.ty = .noteOff)) :
    P k (m :: ms) = m :: P k ms := by
  have : isKN k m = true := by simp [isKN, h.1, h.2]
  simp [P, this]

theorem P_cons_other (k : Int × Int) (m : Msg) (ms : List Msg) (h1 : ¬(m.nkey = k ∧ m.ty = .noteOn))
    (h2 : ¬(m.nkey = k ∧ m.ty = .noteOff)) : P k (m :: ms) = P k ms := by
  have : isKN k m = false := by
    simp only [isKN, decide_eq_false_iff_not, not_and, not_or]
    exact fun hk => ⟨fun h => h1 ⟨hk, h⟩, fun h => h2 ⟨hk, h⟩⟩
  simp [P, this]

theorem fuse_good (k : Int × Int) (l : List Msg) : ∀ o, goodFrom k o l →
    fuseK k (openN o) l = P k l ∧ depth k l (openN o) = 0 := by
  induction l with
  | nil => intro o h; simp only [goodFrom] at h; subst h; exact ⟨rfl, rfl⟩
  | cons m ms ih =>
    intro o hg
    rcases cases3 k m with h | h | ⟨h1, h2⟩
    · simp only [goodFrom, h, and_self, if_true] at hg
      obtain ⟨ho, hg⟩ := hg
      subst ho
      obtain ⟨i1, i2⟩ := ih _ hg
      simp only [openN] at i1 i2 ⊢
      rw [fuseK_on0 h, P_cons_kn k m ms ⟨h.1, Or.inl h.2⟩, i1, depth_cons_on h]
      exact ⟨rfl, i2⟩
    · simp only [goodFrom, h, and_self, if_true] at hg
      obtain ⟨⟨t0, ho, _⟩, hg⟩ := hg
      subst ho
      obtain ⟨i1, i2⟩ := ih _ hg
      simp only [openN] at i1 i2 ⊢
      rw [fuseK_off1 h, P_cons_kn k m ms ⟨h.1, Or.inr h.2⟩, i1, depth_cons_off h]
      exact ⟨rfl, i2⟩
    · simp only [goodFrom, h1, h2, if_false] at hg
      obtain ⟨i1, i2⟩ := ih _ hg
      rw [fuseK_other h1 h2, P_cons_other k m ms h1 h2, depth_cons_other h1 h2]
      exact ⟨i1, i2⟩

theorem off_later (k : Int × Int) (ms : List Msg) (hs : Sorted ms) : ∀ s, goodFrom k (some s) ms →
    ∀ b ∈ ms, (b.nkey = k ∧ b.ty = .noteOff) → s < b.time := by
  induction ms with
  | nil => intro s _ b hb; simp at hb
  | cons x xs ih =>
    intro s hg b hb hboff
    have hs := List.pairwise_cons.1 hs
    rcases cases3 k x with h | h | ⟨h1, h2⟩
    · simp only [goodFrom, h, and_self, if_true] at hg
      simp at hg
    · simp only [goodFrom, h, and_self, if_true] at hg
      obtain ⟨⟨t0, ho, hlt⟩, _⟩ := hg
      simp only [Option.some.injEq] at ho
      subst ho
      rcases List.mem_cons.1 hb with rfl | hb
      · exact hlt
      · have := hs.1 b hb; omega
    · simp only [goodFrom, h1, h2, if_false] at hg
      rcases List.mem_cons.1 hb with rfl | hb
      · exact absurd hboff h2
      · exact ih hs.2 s hg b hb hboff

theorem good_kle (k : Int × Int) (l : List Msg) (hs : Sorted l) : ∀ o, goodFrom k o l → (P k l).Pairwise KLe := by
  induction l with
  | nil => intro o _; simp [P]
  | cons m ms ih =>
    intro o hg
    have hs := List.pairwise_cons.1 hs
    have hmem : ∀ b ∈ P k ms, b ∈ ms ∧ b.nkey = k ∧ (b.ty = .noteOn ∨ b.ty = .noteOff) := by
      intro b hb
      have := List.mem_filter.1 hb
      refine ⟨this.1, ?_⟩
      simpa [isKN] using this.2
    rcases cases3 k m with h | h | ⟨h1, h2⟩
    · simp only [goodFrom, h, and_self, if_true] at hg
      obtain ⟨_, hg⟩ := hg
      rw [P_cons_kn k m ms ⟨h.1, Or.inl h.2⟩]
      refine List.pairwise_cons.2 ⟨?_, ih hs.2 _ hg⟩
      intro b hb
      obtain ⟨hbm, hbk, hbt⟩ := hmem b hb
      have ht := hs.1 b hbm
      have hk : m.ch = b.ch ∧ m.note = b.note := by
        have : m.nkey = b.nkey := h.1.trans hbk.symm
        simpa [Msg.nkey] using this
      show keyLe m b = true
      rw [keyLe_iff]
      have hr1 : m.ty.rank = 7 := by rw [h.2]; rfl
      rcases hbt with hbt | hbt
      · have hr2 : b.ty.rank = 7 := by rw [hbt]; rfl
        omega
      · have := off_later k ms hs.2 m.time hg b hbm ⟨hbk, hbt⟩
        omega
    · simp only [goodFrom, h, and_self, if_true] at hg
      obtain ⟨_, hg⟩ := hg
      rw [P_cons_kn k m ms ⟨h.1, Or.inr h.2⟩]
      refine List.pairwise_cons.2 ⟨?_, ih hs.2 _ hg⟩
      intro b hb
      obtain ⟨hbm, hbk, hbt⟩ := hmem b hb
      have ht := hs.1 b hbm
      have hk : m.ch = b.ch ∧ m.note = b.note := by
        have : m.nkey = b.nkey := h.1.trans hbk.symm
        simpa [Msg.nkey] using this
      show keyLe m b = true
      rw [keyLe_iff]
      have hr1 : m.ty.rank = 6 := by rw [h.2]; rfl
      rcases hbt with hbt | hbt
      · have hr2 : b.ty.rank = 7 := by rw [hbt]; rfl
        omega
      · have hr2 : b.ty.rank = 6 := by rw [hbt]; rfl
        omega
    · simp only [goodFrom, h1, h2, if_false] at hg
      rw [P_cons_other k m ms h1 h2]
      exact ih hs.2 _ hg

theorem keyOK_of_good (x : List Msg) (hs : Sorted x) (hg : ∀ k, goodFrom k none x) :
    KeyOK (fun k => P k x) where
  proj := fun k => P_idem k x
  fuse := fun k => by rw [fuseK_P]; exact (fuse_good k x none (hg k)).1
  dep := fun k => by rw [depth_P]; exact (fuse_good k x none (hg k)).2
  kle := fun k => good_kle k x hs none (hg k)

/-! ## the loaded notes of a saved sequence are good -/

theorem goodFrom_cons_on {k : Int × Int} {m : Msg} (h : m.nkey = k ∧ m.ty = .noteOn) (ms : List Msg) (o : Option Int) :
    goodFrom k o (m :: ms) ↔ o = none ∧ goodFrom k (some m.time) ms := by
  simp only [goodFrom, h, and_self, if_true]

theorem goodFrom_cons_off {k : Int × Int} {m : Msg} (h : m.nkey = k ∧ m.ty = .noteOff) (ms : List Msg) (o : Option Int) :
    goodFrom k o (m :: ms) ↔ (∃ t0, o = some t0 ∧ t0 < m.time) ∧ goodFrom k none ms := by
  simp only [goodFrom, h, and_self, if_true, reduceCtorEq, and_false, if_false]

theorem goodFrom_cons_other {k : Int × Int} {m : Msg} (h1 : ¬(m.nkey = k ∧ m.ty = .noteOn))
    (h2 : ¬(m.nkey = k ∧ m.ty = .noteOff)) (ms : List Msg) (o : Option Int) :
    goodFrom k o (m :: ms) ↔ goodFrom k o ms := by
  simp only [goodFrom, h1, h2, if_false]

theorem goodFrom_N (c0 p : Int) (L : List Msg)
    (hch : ∀ m ∈ L, (m.ty = .noteOn ∨ m.ty = .noteOff) → m.ch = c0) :
    ∀ o, goodFrom (c0, p) o L → goodFrom (0, p) o (L.filterMap noteOf) := by
  induction L with
  | nil => intro o h; exact h
  | cons m ms ih =>
    intro o hg
    have ih' := ih (fun x hx => hch x (List.mem_cons_of_mem _ hx))
    have hm := hch m List.mem_cons_self
    by_cases hon : m.ty = .noteOn
    · have hc := hm (Or.inl hon)
      have e : (m :: ms).filterMap noteOf
          = Msg.mkOn 0 m.note (if m.vel == pyNone then 127 else m.vel) m.time :: ms.filterMap noteOf := by
        simp [noteOf, hon]
      rw [e]
      by_cases hp : m.note = p
      · have h1 : (Msg.mkOn 0 m.note (if m.vel == pyNone then 127 else m.vel) m.time).nkey = (0, p)
            ∧ (Msg.mkOn 0 m.note (if m.vel == pyNone then 127 else m.vel) m.time).ty = .noteOn := by
          simp [Msg.mkOn, Msg.nkey, hp]
        have h2 : m.nkey = (c0, p) ∧ m.ty = .noteOn := by simp [Msg.nkey, hc, hp, hon]
        rw [goodFrom_cons_on h2] at hg
        rw [goodFrom_cons_on h1]
        exact ⟨hg.1, ih' _ hg.2⟩
      · have h1 : ∀ ty, ¬((Msg.mkOn 0 m.note (if m.vel == pyNone then 127 else m.vel) m.time).nkey = (0, p)
            ∧ (Msg.mkOn 0 m.note (if m.vel == pyNone then 127 else m.vel) m.time).ty = ty) := by
          simp [Msg.mkOn, Msg.nkey, hp]
        have h2 : ∀ ty, ¬(m.nkey = (c0, p) ∧ m.ty = ty) := by simp [Msg.nkey, hp]
        rw [goodFrom_cons_other (h2 _) (h2 _)] at hg
        rw [goodFrom_cons_other (h1 _) (h1 _)]
        exact ih' _ hg
    · by_cases hoff : m.ty = .noteOff
      · have hc := hm (Or.inr hoff)
        have e : (m :: ms).filterMap noteOf = Msg.mkOff 0 m.note m.time :: ms.filterMap noteOf := by
          simp [noteOf, hoff]
        rw [e]
        by_cases hp : m.note = p
        · have h1 : (Msg.mkOff 0 m.note m.time).nkey = (0, p) ∧ (Msg.mkOff 0 m.note m.time).ty = .noteOff := by
            simp [Msg.mkOff, Msg.nkey, hp]
          have h2 : m.nkey = (c0, p) ∧ m.ty = .noteOff := by simp [Msg.nkey, hc, hp, hoff]
          rw [goodFrom_cons_off h2] at hg
          rw [goodFrom_cons_off h1]
          exact ⟨hg.1, ih' _ hg.2⟩
        · have h1 : ∀ ty, ¬((Msg.mkOff 0 m.note m.time).nkey = (0, p) ∧ (Msg.mkOff 0 m.note m.time).ty = ty) := by
            simp [Msg.mkOff, Msg.nkey, hp]
          have h2 : ∀ ty, ¬(m.nkey = (c0, p) ∧ m.ty = ty) := by simp [Msg.nkey, hp]
          rw [goodFrom_cons_other (h2 _) (h2 _)] at hg
          rw [goodFrom_cons_other (h1 _) (h1 _)]
          exact ih' _ hg
      · have e : (m :: ms).filterMap noteOf = ms.filterMap noteOf := by
          simp [noteOf, hon, hoff]
        have h2 : ¬(m.nkey = (c0, p) ∧ m.ty = .noteOn) := fun h => hon h.2
        have h3 : ¬(m.nkey = (c0, p) ∧ m.ty = .noteOff) := fun h => hoff h.2
        rw [goodFrom_cons_other h2 h3] at hg
        rw [e]
        exact ih' _ hg

theorem goodFrom_other_channel (c p : Int) (hc : c ≠ 0) (l : List Msg) (h : ∀ x ∈ l, x.ch = 0) :
    goodFrom (c, p) none l := by
  induction l with
  | nil => rfl
  | cons x xs ih =>
    have hx := h x List.mem_cons_self
    have h1 : ∀ ty, ¬(x.nkey = (c, p) ∧ x.ty = ty) := by
      intro ty hh
      have := hh.1
      simp only [Msg.nkey, Prod.mk.injEq] at this
      exact hc (this.1.symm.trans hx)
    rw [goodFrom_cons_other (h1 _) (h1 _)]
    exact ih (fun y hy => h y (List.mem_cons_of_mem _ hy))

/-- the loaded track of a saved sequence is `KeyOK` -/
theorem saved_keyOK (pp : Int) (hp : 0 < pp) (r : List Msg) (hok : OkRel r)
    (hn : ∀ m ∈ r, m.ty ≠ .wait → m.time = pyNone) (hwf : WF r) (hpos : C15.PosDur (eventsRel r))
    (c0 : Int) (hch : ∀ m ∈ r, (m.ty = .noteOn ∨ m.ty = .noteOff) → m.ch = c0) :
    curMsgs pp pp 0 (toMido r) = (eventsRel r).filterMap noteOf ∧
    KeyOK (fun k => P k (curMsgs pp pp 0 (toMido r))) := by
  have heq := curMsgs_toMido pp hp r hn hok.1
  obtain ⟨hd, hga, _⟩ := saved_track pp hp r hok hn hwf hpos c0 hch
  have hchE : ∀ m ∈ eventsRel r, (m.ty = .noteOn ∨ m.ty = .noteOff) → m.ch = c0 := by
    intro e he hty
    obtain ⟨m, hm, h1, h2⟩ := eventsRelGo_mem r 0 e he
    rw [h2]; exact hch m hm (by rw [← h1]; exact hty)
  refine ⟨heq, keyOK_of_good _ (ga_sorted hga) ?_⟩
  rintro ⟨c, p⟩
  rw [heq]
  by_cases hc : c = 0
  · subst hc
    exact goodFrom_N c0 p _ hchE none (good_of_wf _ (wf_events r hwf) hpos (c0, p))
  · apply goodFrom_other_channel c p hc
    intro x hx
    obtain ⟨m, _, hm⟩ := List.mem_filterMap.1 hx
    exact (noteOf_time m x hm).2

/-! ## the shape of `convert`'s result -/

theorem convert_shape (ppqn filePpq : Int) (hp : 0 < ppqn) (hf : 0 < filePpq) (tracks : List (List MidiEv))
    (groups : List (List Nat)) (metaIdx : List Nat) (target : Int) (out : List Seq)
    (hnd : groups.flatten.Nodup) (hd : ∀ evs ∈ tracks, ∀ e ∈ evs, 0 ≤ e.time)
    (h : convert ppqn filePpq tracks groups metaIdx target = .ok out) :
    ∃ s0 M, foldlM' (convTrack ppqn filePpq groups metaIdx)
        { seqs := groups.map (fun g => g.map (fun _ => Seq.new)) } tracks.zipIdx = .ok s0
      ∧ s0.metaSeq = Seq.ofAbs M ∧ MetaOk M ∧ 0 ≤ target ∧ ∃ gt, groups[target.toNat]? = some gt ∧
        out = modifyAt (fun _ => finSeq s0.defCh (gmerge (slotA ppqn filePpq tracks) gt).rel M) target.toNat
              (groups.map (gmerge (slotA ppqn filePpq tracks))) := by
  obtain ⟨hne, ht0, ht1⟩ := convert_conds ppqn filePpq hp hf tracks groups metaIdx target out hnd hd h
  obtain ⟨s, M, hfold, hseqs, hm, hM⟩ := tracks_fold ppqn filePpq hp hf tracks groups metaIdx hnd hd
  have hlt : target.toNat < groups.length := by omega
  refine ⟨s, M, hfold, hm, hM, ht0, groups[target.toNat], List.getElem?_eq_getElem hlt, ?_⟩
  rw [convert_eq] at h
  simp only [bind, Except.bind, hfold] at h
  rw [hseqs, groups_fold groups _ hne] at h
  simp only at h
  rw [finish_eq s _ target M hm (gmerge (slotA ppqn filePpq tracks) groups[target.toNat]) ht0
    (by simp [List.getElem?_eq_getElem hlt]; rfl) rfl rfl] at h
  simp only [Except.ok.injEq] at h
  exact h.symm

theorem finSeq_abs (d : Option Int) (R1 M : List Msg) :
    (finSeq d R1 M).abs =
      if (timesOfType .timeSignature (toAbs (C15.mergeRel [toAbs R1, M]))).any (fun m => m.time == 0)
      then toAbs (C15.mergeRel [toAbs R1, M])
      else insort (toAbs (C15.mergeRel [toAbs R1, M])) (Msg.mkTimeSig (d.getD 0) 4 4 0) := by
  unfold finSeq
  split <;> rfl

/-- the absolute view read from entry `gi` of the shaped result -/
theorem out_abs (A : Nat → List Msg) (groups : List (List Nat)) (target : Int) (d : Option Int) (M : List Msg)
    (gt : List Nat) (hgt : groups[target.toNat]? = some gt)
    (gi : Nat) (g : List Nat) (hg : groups[gi]? = some g) (s s' : Seq) (a : List Msg)
    (hs : (modifyAt (fun _ => finSeq d (gmerge A gt).rel M) target.toNat (groups.map (gmerge A)))[gi]? = some s)
    (ha : s.readAbs = .ok (s', a)) :
    (gi ≠ target.toNat ∧ a = toAbs (gmerge A g).rel)
    ∨ (gi = target.toNat ∧ a = (finSeq d (gmerge A g).rel M).abs) := by
  rw [getElem?_modifyAt] at hs
  by_cases hgi : gi = target.toNat
  · subst hgi
    have hgg : g = gt := Option.some.inj (hg.symm.trans hgt)
    subst hgg
    simp only [if_true, List.getElem?_map, hg, Option.map_some, Option.some.injEq] at hs
    subst hs
    rw [(finSeq_read d (gmerge A g).rel M).1] at ha
    simp only [Except.ok.injEq, Prod.mk.injEq] at ha
    exact Or.inr ⟨rfl, ha.2.symm⟩
  · simp only [hgi, if_false, List.getElem?_map, hg, Option.map_some, Option.some.injEq] at hs
    subst hs
    rw [readAbs_stale _ rfl rfl] at ha
    simp only [Except.ok.injEq, Prod.mk.injEq] at ha
    exact Or.inl ⟨hgi, ha.2.symm⟩

/-- a group of one good track: the per-key note events survive the whole pipeline unchanged -/
theorem single_proj (x M : List Msg) (hga : GA x) (hY : KeyOK (fun k => P k x)) (hM : MetaOk M) (d : Option Int) :
    (∀ k, P k (toAbs (C15.mergeRel [V x])) = P k x)
    ∧ (∀ k, P k (finSeq d (C15.mergeRel [V x]) M).abs = P k x) := by
  have hV := VQ _ hY x hga.1 (fun k => rfl)
  have hVok : OkAbs (V x) := (V_ga x hga).1.1
  have h1 : ∀ k, P k (eventsRel (C15.mergeRel [V x])) = P k x :=
    mergeQ _ hY [V x] (by simpa using hVok) (by intro k; simpa using hV k)
  have hR1ok : OkRel (C15.mergeRel [V x]) := (stage1 [x] (by simpa using hga)).1
  have h2 := absQ _ hY _ h1
  refine ⟨h2, ?_⟩
  have hA1ok : OkAbs (toAbs (C15.mergeRel [V x])) := C04.toAbs_ok _ hR1ok
  have hoks : ∀ a ∈ [toAbs (C15.mergeRel [V x]), M], OkAbs a := by
    intro a ha
    simp only [List.mem_cons, List.not_mem_nil, or_false] at ha
    rcases ha with rfl | rfl
    · exact hA1ok
    · exact hM.1
  have h3 : ∀ k, P k (eventsRel (C15.mergeRel [toAbs (C15.mergeRel [V x]), M])) = P k x :=
    mergeQ _ hY _ hoks (by
      intro k
      simp only [List.flatten_cons, List.flatten_nil, List.append_nil, P_append, h2 k, P_nonote k M hM.2])
  have h4 := absQ _ hY _ h3
  intro k
  rw [finSeq_abs]
  split
  · exact h4 k
  · rw [P_insort k _ _ (by simp [Msg.mkTimeSig])]
    exact h4 k

/-- membership of a note event in a list, through the projection of its key -/
theorem mem_P_iff (l : List Msg) (m : Msg) (h : m.ty = .noteOn ∨ m.ty = .noteOff) : m ∈ P m.nkey l ↔ m ∈ l := by
  simp [P, isKN, h]

theorem noteOn_mem_of_proj (a x : List Msg) (h : ∀ k, P k a = P k x) (m : Msg) (hm : m.ty = .noteOn) :
    m ∈ eventsAbs a ↔ m ∈ x := by
  rw [← mem_P_iff x m (Or.inl hm), ← h, mem_P_iff a m (Or.inl hm)]
  simp [eventsAbs, hm]

theorem eventsRelGo_src (r : List Msg) : ∀ (c : Int), ∀ e ∈ eventsRelGo c r,
    ∃ m ∈ r, ∃ t, e = { m with time := t } := by
  induction r with
  | nil => intro c e he; simp [eventsRelGo] at he
  | cons m ms ih =>
    intro c e he
    by_cases hw : m.ty = .wait
    · simp only [eventsRelGo, hw, beq_self_eq_true, if_true] at he
      obtain ⟨x, hx, h⟩ := ih _ e he
      exact ⟨x, List.mem_cons_of_mem _ hx, h⟩
    · simp [eventsRelGo, hw] at he
      rcases he with rfl | he
      · exact ⟨m, List.mem_cons_self, c, rfl⟩
      · obtain ⟨x, hx, h⟩ := ih _ e he
        exact ⟨x, List.mem_cons_of_mem _ hx, h⟩

theorem groups_range_get (n i : Nat) (hi : i < n) : ((List.range n).map (fun i => [i]))[i]? = some [i] := by
  simp [hi]

/-- the hypotheses on a saved sequence used below (`C13.Saved` of `Props/C12.lean`, as a conjunction) -/
def SavedC (r : List Msg) : Prop :=
  OkRel r ∧ (∀ m ∈ r, m.ty ≠ .wait → m.time = pyNone) ∧ WF r ∧ C15.PosDur (eventsRel r)
    ∧ (∀ m ∈ r, m.ty = .noteOn → m.vel ≠ pyNone) ∧ ∃ c, ∀ m ∈ r, (m.ty = .noteOn ∨ m.ty = .noteOff) → m.ch = c

theorem savedC_tracks (pp : Int) (hp : 0 < pp) (rels : List (List Msg)) (hS : ∀ r ∈ rels, SavedC r) :
    ((List.range rels.length).map (fun i => [i])).flatten.Nodup
    ∧ ∀ evs ∈ rels.map toMido, ∀ e ∈ evs, 0 ≤ e.time := by
  refine ⟨by rw [range_groups_flatten]; exact List.nodup_range, ?_⟩
  intro evs hevs
  obtain ⟨r, hr, rfl⟩ := List.mem_map.1 hevs
  obtain ⟨h1, h2, h3, h4, _, c, h5⟩ := hS r hr
  exact (saved_track pp hp r h1 h2 h3 h4 c h5).1

/-- **velocities**: the note-ons of loaded sequence `i` are those of saved sequence `i` -/
theorem note_ons_core (pp : Int) (hp : 0 < pp) (rels : List (List Msg)) (hS : ∀ r ∈ rels, SavedC r)
    (out : List Seq)
    (h : convert pp pp (rels.map toMido) ((List.range rels.length).map (fun i => [i])) (List.range rels.length) 0
      = .ok out)
    (i : Nat) (r : List Msg) (s s' : Seq) (a : List Msg) (hr : rels[i]? = some r) (ho : out[i]? = some s)
    (ha : s.readAbs = Except.ok (s', a)) (p t v : Int) :
    (∃ m ∈ eventsAbs a, m.ty = .noteOn ∧ m.note = p ∧ m.time = t ∧ m.vel = v) ↔
    (∃ m ∈ eventsRel r, m.ty = .noteOn ∧ m.note = p ∧ m.time = t ∧ m.vel = v) := by
  obtain ⟨hnd, hd⟩ := savedC_tracks pp hp rels hS
  obtain ⟨s0, M, _, _, hM, _, gt, hgt, hout⟩ := convert_shape pp pp hp hp _ _ _ 0 out hnd hd h
  have hi : i < rels.length := by
    rcases Nat.lt_or_ge i rels.length with h | h
    · exact h
    · rw [List.getElem?_eq_none h] at hr; simp at hr
  obtain ⟨h1, h2, h3, h4, hvel, c, h5⟩ := hS r (List.mem_of_getElem? hr)
  have hslot : slotA pp pp (rels.map toMido) i = curMsgs pp pp 0 (toMido r) := by
    have : rels[i] = r := by
      have := List.getElem?_eq_getElem hi
      rw [hr] at this; exact (Option.some.inj this).symm
    simp [slotA, hi, this]
  obtain ⟨heq, hY⟩ := saved_keyOK pp hp r h1 h2 h3 h4 c h5
  have hga := (saved_track pp hp r h1 h2 h3 h4 c h5).2.1
  rw [hout] at ho
  have hrel : (gmerge (slotA pp pp (rels.map toMido)) [i]).rel = C15.mergeRel [V (curMsgs pp pp 0 (toMido r))] := by
    rw [gmerge_rel, ← hslot]; rfl
  have hproj : ∀ k, P k a = P k (curMsgs pp pp 0 (toMido r)) := by
    obtain ⟨q1, q2⟩ := single_proj _ M hga hY hM s0.defCh
    rcases out_abs _ _ 0 s0.defCh M gt hgt i [i] (groups_range_get _ i hi) s s' a ho ha with ⟨_, e⟩ | ⟨_, e⟩
    · rw [e, hrel]; exact q1
    · rw [e, hrel]; exact q2
  have hmem : ∀ m, m.ty = .noteOn → (m ∈ eventsAbs a ↔ m ∈ (eventsRel r).filterMap noteOf) := by
    intro m hm
    rw [noteOn_mem_of_proj a _ hproj m hm, heq]
  constructor
  · rintro ⟨m, hm, hon, hnote, htime, hv⟩
    obtain ⟨m0, hm0, hn0⟩ := List.mem_filterMap.1 ((hmem m hon).1 hm)
    have hon0 : m0.ty = .noteOn := by
      unfold noteOf at hn0
      split at hn0
      · assumption
      · split at hn0
        · simp at hn0; subst hn0; simp [Msg.mkOff] at hon
        · simp at hn0
    obtain ⟨src, hsrc, ts, hts⟩ := eventsRelGo_src r 0 m0 hm0
    have hv0 : m0.vel ≠ pyNone := by
      have := hvel src hsrc (by rw [hts] at hon0; exact hon0)
      rw [hts]; exact this
    simp only [noteOf, hon0, if_true, Option.some.injEq] at hn0
    subst hn0
    refine ⟨m0, hm0, hon0, ?_, ?_, ?_⟩
    · simpa [Msg.mkOn] using hnote
    · simpa [Msg.mkOn] using htime
    · simpa [Msg.mkOn, hv0] using hv
  · rintro ⟨m0, hm0, hon0, hnote, htime, hv⟩
    obtain ⟨src, hsrc, ts, hts⟩ := eventsRelGo_src r 0 m0 hm0
    have hv0 : m0.vel ≠ pyNone := by
      have := hvel src hsrc (by rw [hts] at hon0; exact hon0)
      rw [hts]; exact this
    refine ⟨Msg.mkOn 0 m0.note m0.vel m0.time, ?_, rfl, hnote, htime, hv⟩
    rw [hmem _ rfl]
    exact List.mem_filterMap.2 ⟨m0, hm0, by simp [noteOf, hon0, hv0]⟩

/-! ## `normalise` and the timed signature events -/

/-- remove the events whose value `v` repeats the value in force (`p` at the start): the first of a run stays -/
def dedupBy {β} [DecidableEq β] (v : Msg → β) : β → List Msg → List Msg
  | _, [] => []
  | p, x :: xs => if p = v x then dedupBy v p xs else x :: dedupBy v (v x) xs

theorem dedupBy_append {β} [DecidableEq β] (v : Msg → β) (l l' : List Msg) : ∀ p,
    dedupBy v p (l ++ l') = dedupBy v p l ++ dedupBy v (lastD p (l.map v)) l' := by
  induction l with
  | nil => intro p; rfl
  | cons y ys ih =>
    intro p
    simp only [List.cons_append, dedupBy, List.map_cons, lastD]
    split
    · rename_i h; rw [ih p, ← h]
    · rw [ih (v y)]; rfl

theorem dedupBy_snoc {β} [DecidableEq β] (v : Msg → β) (l : List Msg) (x : Msg) (p : β) :
    dedupBy v p (l ++ [x]) = dedupBy v p l ++ (if lastD p (l.map v) = v x then [] else [x]) := by
  rw [dedupBy_append]
  simp only [dedupBy]

theorem dedupBy_sublist {β} [DecidableEq β] (v : Msg → β) (l : List Msg) : ∀ p, (dedupBy v p l).Sublist l := by
  induction l with
  | nil => intro p; exact List.Sublist.refl _
  | cons y ys ih =>
    intro p
    simp only [dedupBy]
    split
    · exact (ih p).cons _
    · exact (ih _).cons_cons _

theorem lastD_dedupBy {β} [DecidableEq β] (v : Msg → β) (l : List Msg) : ∀ p,
    lastD p ((dedupBy v p l).map v) = lastD p (l.map v) := by
  induction l with
  | nil => intro p; rfl
  | cons y ys ih =>
    intro p
    simp only [dedupBy, List.map_cons, lastD]
    split
    · rename_i h; rw [ih p, ← h]
    · simp only [List.map_cons, lastD]; exact ih _

def isTs (m : Msg) : Bool := m.ty == .timeSignature
def isKs (m : Msg) : Bool := m.ty == .keySignature
def tsv (m : Msg) : Int × Int := (m.num, m.den)
def ksv (m : Msg) : Int := m.key

theorem events_tsVals (l : List Msg) : ∀ c, ((eventsRelGo c l).filter isTs).map tsv = tsVals l := by
  induction l with
  | nil => intro c; rfl
  | cons m ms ih =>
    intro c
    have ih1 := ih (c + m.time)
    have ih2 := ih c
    simp only [tsVals] at ih1 ih2
    by_cases hw : m.ty = .wait
    · simp [eventsRelGo, hw, tsVals, ih1]
    · by_cases hts : m.ty = .timeSignature
      · simp [eventsRelGo, tsVals, isTs, hts, tsv, ih2]
      · simp [eventsRelGo, hw, tsVals, isTs, hts, ih2]

theorem events_ksVals (l : List Msg) : ∀ c, ((eventsRelGo c l).filter isKs).map ksv = ksVals l := by
  induction l with
  | nil => intro c; rfl
  | cons m ms ih =>
    intro c
    have ih1 := ih (c + m.time)
    have ih2 := ih c
    simp only [ksVals] at ih1 ih2
    by_cases hw : m.ty = .wait
    · simp [eventsRelGo, hw, ksVals, ih1]
    · by_cases hts : m.ty = .keySignature
      · simp [eventsRelGo, ksVals, isKs, hts, ksv, ih2]
      · simp [eventsRelGo, hw, ksVals, isKs, hts, ih2]

/-- the kept time / key signature events, with their ticks -/
structure InvX (pre : List Msg) (s : NormSt) : Prop where
  tsx : (eventsRelGo 0 (msgs s.O)).filter isTs = dedupBy tsv (pyNone, pyNone) ((eventsRelGo 0 pre).filter isTs)
  ksx : (eventsRelGo 0 (msgs s.O)).filter isKs = dedupBy ksv pyNone ((eventsRelGo 0 pre).filter isKs)

theorem invX_step (pre : List Msg) (s : NormSt) (m : Msg) (hT : InvT pre s) (hS : InvS pre s) (h : InvX pre s) :
    InvX (pre ++ [m]) (normStep s m) := by
  obtain ⟨tsx, ksx⟩ := h
  have hev := step_events pre s m hT
  have hsn := events_snoc pre m 0
  simp only [Int.zero_add] at hsn
  refine ⟨?_, ?_⟩
  · rw [hev, hsn, List.filter_append, List.filter_append, tsx]
    by_cases hm : m.ty = .timeSignature
    · have hw : m.ty ≠ .wait := by rw [hm]; simp
      have h1 : isTs (stamp m (totalWait pre)) = true := by simp [isTs, stamp, hm]
      have hk : keep s m = (m.num != s.tsNum || m.den != s.tsDen) := by simp [keep, hm]
      simp only [hw, if_false, List.filter_cons, h1, if_true, List.filter_nil]
      rw [dedupBy_snoc, events_tsVals, ← hS.ts]
      congr 1
      by_cases hk' : keep s m = true
      · have : ¬ (s.tsNum, s.tsDen) = tsv (stamp m (totalWait pre)) := by
          intro he; simp only [tsv, stamp, Prod.mk.injEq] at he; simp [hk, he.1, he.2] at hk'
        simp [hk', this, h1]
      · have : (s.tsNum, s.tsDen) = tsv (stamp m (totalWait pre)) := by
          rw [hk] at hk'; simp at hk'; simp [tsv, stamp, hk'.1, hk'.2]
        simp [hk', this]
    · have h1 : isTs (stamp m (totalWait pre)) = false := by simp [isTs, stamp, hm]
      have e1 : (if keep s m = true then [stamp m (totalWait pre)] else []).filter isTs = [] := by
        split <;> simp [h1]
      have e2 : (if m.ty = .wait then [] else [stamp m (totalWait pre)]).filter isTs = [] := by
        split <;> simp [h1]
      rw [e1, e2, List.append_nil, List.append_nil]
  · rw [hev, hsn, List.filter_append, List.filter_append, ksx]
    by_cases hm : m.ty = .keySignature
    · have hw : m.ty ≠ .wait := by rw [hm]; simp
      have h1 : isKs (stamp m (totalWait pre)) = true := by simp [isKs, stamp, hm]
      have hk : keep s m = (m.key != s.key) := by simp [keep, hm]
      simp only [hw, if_false, List.filter_cons, h1, if_true, List.filter_nil]
      rw [dedupBy_snoc, events_ksVals, ← hS.ks]
      congr 1
      by_cases hk' : keep s m = true
      · have : ¬ s.key = ksv (stamp m (totalWait pre)) := by
          intro he; simp only [ksv, stamp] at he; simp [hk, he] at hk'
        simp [hk', this, h1]
      · have : s.key = ksv (stamp m (totalWait pre)) := by
          rw [hk] at hk'; simp at hk'; simp [ksv, stamp, hk']
        simp [hk', this]
    · have h1 : isKs (stamp m (totalWait pre)) = false := by simp [isKs, stamp, hm]
      have e1 : (if keep s m = true then [stamp m (totalWait pre)] else []).filter isKs = [] := by
        split <;> simp [h1]
      have e2 : (if m.ty = .wait then [] else [stamp m (totalWait pre)]).filter isKs = [] := by
        split <;> simp [h1]
      rw [e1, e2, List.append_nil, List.append_nil]

theorem inv_x (r : List Msg) (hr : NonNegWaits r) : InvX r (r.foldl normStep {}) := by
  have := fold_inv (fun pre post s => NonNegWaits (pre ++ post) → InvT pre s ∧ InvS pre s ∧ InvX pre s)
    (fun pre m post s h hnn => by
      have hnn' : NonNegWaits (pre ++ m :: post) := by simpa using hnn
      have ⟨hT, hS, hX⟩ := h hnn'
      have hm : m.ty = .wait → 0 ≤ m.time := hnn' m (by simp)
      exact ⟨invT_step pre s m hm hT, invS_step pre s m hS, invX_step pre s m hT hS hX⟩) r [] {}
      (fun _ => ⟨invT_init, invS_init, ⟨rfl, rfl⟩⟩)
  simp only [List.nil_append, List.append_nil] at this
  exact (this hr).2.2

theorem normalise_ts_events (r : List Msg) (hr : NonNegWaits r) :
    (eventsRel (normalise r)).filter isTs = dedupBy tsv (pyNone, pyNone) ((eventsRel r).filter isTs) := by
  have ⟨hA, _, _⟩ := inv_basic r
  have hX := inv_x r hr
  rw [normalise_eq]
  simp only [eventsRel]
  rw [eventsRelGo_filter_filter isTs (fun _ _ => rfl), events_full]
  · exact hX.tsx
  · intro e he hq
    have := (Q_false hA e he hq).2.1
    simp [isTs, this]

theorem normalise_ks_events (r : List Msg) (hr : NonNegWaits r) :
    (eventsRel (normalise r)).filter isKs = dedupBy ksv pyNone ((eventsRel r).filter isKs) := by
  have ⟨hA, _, _⟩ := inv_basic r
  have hX := inv_x r hr
  rw [normalise_eq]
  simp only [eventsRel]
  rw [eventsRelGo_filter_filter isKs (fun _ _ => rfl), events_full]
  · exact hX.ksx
  · intro e he hq
    have := (Q_false hA e he hq).2.1
    simp [isKs, this]

/-! ## `latest`: the event of a type in force at a tick -/

def cand (ty : MType) (t : Int) (m : Msg) : Bool := m.ty == ty && decide (m.time ≤ t)

def lstep (ty : MType) (t : Int) (best : Option Msg) (m : Msg) : Option Msg :=
  if m.ty == ty && decide (m.time ≤ t) && best.all (fun b => decide (b.time ≤ m.time)) then some m else best

/-- `C13.latest` of `Props/C12b.lean` -/
def latestL (ty : MType) (evs : List Msg) (t : Int) : Option Msg := evs.foldl (lstep ty t) Option.none

theorem lstep_not (ty : MType) (t : Int) (best : Option Msg) (m : Msg) (h : cand ty t m = false) :
    lstep ty t best m = best := by
  unfold cand at h
  simp [lstep, h]

theorem lstep_cand (ty : MType) (t : Int) (best : Option Msg) (m : Msg) (h : cand ty t m = true)
    (hb : ∀ b ∈ best, b.time ≤ m.time) : lstep ty t best m = some m := by
  unfold cand at h
  cases best with
  | none => simp [lstep, h]
  | some b => simp [lstep, h, hb b rfl]

theorem lstep_lt (ty : MType) (t : Int) (b m : Msg) (h : m.time < b.time) : lstep ty t (some b) m = some b := by
  have : ¬ b.time ≤ m.time := by omega
  simp [lstep, this]

theorem foldl_lstep_filter (ty : MType) (t : Int) (L : List Msg) : ∀ best,
    L.foldl (lstep ty t) best = (L.filter (fun m => m.ty == ty)).foldl (lstep ty t) best := by
  induction L with
  | nil => intro best; rfl
  | cons m ms ih =>
    intro best
    by_cases hm : (m.ty == ty) = true
    · simp only [List.filter_cons, hm, if_true, List.foldl_cons, ih]
    · have : cand ty t m = false := by simp [cand, hm]
      simp only [List.filter_cons, hm, List.foldl_cons, lstep_not ty t best m this, ih]
      simp

theorem latestL_filter (ty : MType) (t : Int) (L : List Msg) :
    latestL ty L t = latestL ty (L.filter (fun m => m.ty == ty)) t := foldl_lstep_filter ty t L none

theorem foldl_lstep_some (ty : MType) (t : Int) (L : List Msg) : ∀ b, ∃ x, L.foldl (lstep ty t) (some b) = some x := by
  induction L with
  | nil => intro b; exact ⟨b, rfl⟩
  | cons m ms ih =>
    intro b
    simp only [List.foldl_cons]
    unfold lstep
    split
    · exact ih m
    · exact ih b

/-- an earlier event that is not later than any candidate only matters when there is no candidate -/
theorem foldl_lstep_head (ty : MType) (t : Int) (S : List Msg) : ∀ d,
    (∀ m ∈ S, cand ty t m = true → d.time ≤ m.time) →
    S.foldl (lstep ty t) (some d) = (S.foldl (lstep ty t) none).or (some d) := by
  induction S with
  | nil => intro d _; rfl
  | cons x xs ih =>
    intro d hd
    simp only [List.foldl_cons]
    by_cases hx : cand ty t x = true
    · rw [lstep_cand ty t (some d) x hx (by intro b hb; cases hb; exact hd x List.mem_cons_self hx),
        lstep_cand ty t none x hx (by simp)]
      obtain ⟨y, hy⟩ := foldl_lstep_some ty t xs x
      rw [hy]; rfl
    · have hx' : cand ty t x = false := by simpa using hx
      rw [lstep_not ty t _ x hx', lstep_not ty t _ x hx']
      exact ih d (fun m hm => hd m (List.mem_cons_of_mem _ hm))

theorem latestL_cons (ty : MType) (t : Int) (d : Msg) (S : List Msg) (hd : cand ty t d = true)
    (h : ∀ m ∈ S, cand ty t m = true → d.time ≤ m.time) :
    latestL ty (d :: S) t = (latestL ty S t).or (some d) := by
  unfold latestL
  rw [List.foldl_cons, lstep_cand ty t none d hd (by simp)]
  exact foldl_lstep_head ty t S d h

/-- what `latest` returns, up to the choice among events of the greatest tick -/
def IsMax (ty : MType) (t : Int) (L : List Msg) (m : Msg) : Prop :=
  m ∈ L ∧ cand ty t m = true ∧ ∀ m' ∈ L, cand ty t m' = true → m'.time ≤ m.time

theorem foldl_lstep_spec (ty : MType) (t : Int) (L : List Msg) : ∀ (pre : List Msg) (best : Option Msg),
    (match best with
      | none => ∀ m ∈ pre, cand ty t m = false
      | some b => IsMax ty t pre b) →
    (match L.foldl (lstep ty t) best with
      | none => ∀ m ∈ pre ++ L, cand ty t m = false
      | some b => IsMax ty t (pre ++ L) b) := by
  induction L with
  | nil => intro pre best h; simpa using h
  | cons x xs ih =>
    intro pre best h
    have := ih (pre ++ [x]) (lstep ty t best x) (by
      by_cases hx : cand ty t x = true
      · cases best with
        | none =>
          rw [lstep_cand ty t none x hx (by simp)]
          refine ⟨by simp, hx, ?_⟩
          intro m' hm' hc
          rcases List.mem_append.1 hm' with hm' | hm'
          · rw [h m' hm'] at hc; simp at hc
          · simp at hm'; subst hm'; exact Int.le_refl _
        | some b =>
          obtain ⟨h1, h2, h3⟩ := h
          by_cases hbx : b.time ≤ x.time
          · rw [lstep_cand ty t (some b) x hx (by intro b' hb'; cases hb'; exact hbx)]
            refine ⟨by simp, hx, ?_⟩
            intro m' hm' hc
            rcases List.mem_append.1 hm' with hm' | hm'
            · have := h3 m' hm' hc; omega
            · simp at hm'; subst hm'; exact Int.le_refl _
          · rw [lstep_lt ty t b x (by omega)]
            refine ⟨List.mem_append_left _ h1, h2, ?_⟩
            intro m' hm' hc
            rcases List.mem_append.1 hm' with hm' | hm'
            · exact h3 m' hm' hc
            · simp at hm'; subst hm'; omega
      · have hx' : cand ty t x = false := by simpa using hx
        rw [lstep_not ty t best x hx']
        cases best with
        | none =>
          intro m hm
          rcases List.mem_append.1 hm with hm | hm
          · exact h m hm
          · simp at hm; subst hm; exact hx'
        | some b =>
          obtain ⟨h1, h2, h3⟩ := h
          refine ⟨List.mem_append_left _ h1, h2, ?_⟩
          intro m' hm' hc
          rcases List.mem_append.1 hm' with hm' | hm'
          · exact h3 m' hm' hc
          · simp at hm'; subst hm'; rw [hx'] at hc; simp at hc)
    simpa using this

theorem latestL_spec (ty : MType) (t : Int) (L : List Msg) :
    match latestL ty L t with
    | none => ∀ m ∈ L, cand ty t m = false
    | some b => IsMax ty t L b := by
  have := foldl_lstep_spec ty t L [] none (by simp)
  simpa [latestL] using this

theorem foldl_lstep_sorted (ty : MType) (t : Int) (L : List Msg) : ∀ best, Sorted L →
    (∀ b ∈ best, ∀ m ∈ L, b.time ≤ m.time) →
    L.foldl (lstep ty t) best = ((L.filter (cand ty t)).getLast?).or best := by
  induction L with
  | nil => intro best _ _; simp
  | cons x xs ih =>
    intro best hs hb
    have hs := List.pairwise_cons.1 hs
    simp only [List.foldl_cons]
    by_cases hx : cand ty t x = true
    · rw [lstep_cand ty t best x hx (fun b hb' => hb b hb' x List.mem_cons_self),
        ih (some x) hs.2 (by intro b hb' m hm; cases hb'; exact hs.1 m hm)]
      simp only [List.filter_cons, hx, if_true, List.getLast?_cons]
      cases (xs.filter (cand ty t)).getLast? <;> rfl
    · have hx' : cand ty t x = false := by simpa using hx
      rw [lstep_not ty t best x hx', ih best hs.2 (fun b hb' m hm => hb b hb' m (List.mem_cons_of_mem _ hm))]
      simp only [List.filter_cons, hx', Bool.false_eq_true, if_false]

theorem latestL_sorted (ty : MType) (t : Int) (L : List Msg) (hs : Sorted L) :
    latestL ty L t = (L.filter (cand ty t)).getLast? := by
  unfold latestL
  rw [foldl_lstep_sorted ty t L none hs (by simp)]
  simp

theorem lastD_getLast {β} (l : List β) : ∀ p, lastD p l = l.getLast?.getD p := by
  induction l with
  | nil => intro p; rfl
  | cons x xs ih =>
    intro p
    simp only [lastD, List.getLast?_cons, Option.getD_some]
    rw [ih x]

/-- removing repeated values does not change the value in force -/
theorem dedup_latest {β} [DecidableEq β] (ty : MType) (t : Int) (v : Msg → β) (p0 : β) (T : List Msg)
    (hs : Sorted T) (hty : ∀ x ∈ T, x.ty = ty) (hne : ∀ x ∈ T, v x ≠ p0) :
    (latestL ty (dedupBy v p0 T) t).map v = (latestL ty T t).map v := by
  have hsK : Sorted (dedupBy v p0 T) := List.Pairwise.sublist (dedupBy_sublist v T p0) hs
  rw [latestL_sorted ty t _ hsK, latestL_sorted ty t _ hs]
  obtain ⟨X, Y, hT, hX, hY⟩ := split_sorted T t hs
  have hcX : ∀ x ∈ X, cand ty t x = true := by
    intro x hx
    simp [cand, hty x (by rw [hT]; exact List.mem_append_left _ hx), hX x hx]
  have hcY : ∀ x ∈ Y, cand ty t x = false := by
    intro x hx
    have := hY x hx
    simp [cand]; intro _; omega
  have e1 : T.filter (cand ty t) = X := by
    rw [hT, List.filter_append, List.filter_eq_self.2 hcX, List.filter_eq_nil_iff.2 (by simpa using hcY),
      List.append_nil]
  have e2 : (dedupBy v p0 T).filter (cand ty t) = dedupBy v p0 X := by
    rw [hT, dedupBy_append, List.filter_append,
      List.filter_eq_self.2 (fun x hx => hcX x ((dedupBy_sublist v X p0).subset hx)),
      List.filter_eq_nil_iff.2 (fun x hx => by simpa using hcY x ((dedupBy_sublist v Y _).subset hx)),
      List.append_nil]
  rw [e1, e2]
  have h1 := lastD_dedupBy v X p0
  rw [lastD_getLast, lastD_getLast, List.getLast?_map, List.getLast?_map] at h1
  cases hXl : X.getLast? with
  | none =>
    have : X = [] := List.getLast?_eq_none_iff.1 hXl
    subst this
    rfl
  | some x =>
    have hx : x ∈ X := List.mem_of_getLast? hXl
    have hvx := hne x (by rw [hT]; exact List.mem_append_left _ hx)
    rw [hXl] at h1
    simp only [Option.map_some, Option.getD_some] at h1 ⊢
    cases hD : (dedupBy v p0 X).getLast? with
    | none => rw [hD] at h1; simp at h1; exact absurd h1.symm hvx
    | some y => rw [hD] at h1; simp at h1; simp [h1]

/-! ## the content of the meta sequence -/

theorem addCur_some_meta (s s' : ConvSt) (l : Nat × Nat) (m : Msg) (h : s.addCur (some l) m = .ok s') :
    s'.metaSeq = s.metaSeq := by
  unfold ConvSt.addCur at h
  simp only at h
  split at h
  · simp only [bind, Except.bind] at h
    split at h
    · simp at h
    · simp at h; subst h; rfl
  · simp at h

/-- a grouped track appends its `metMsgs` to the meta sequence (up to the order chosen by `insort`) -/
theorem inner_perm (ppqn filePpq : Int) (l : Nat × Nat) (es : List MidiEv) :
    ∀ (ticks : Int) (s : ConvSt) (r : ConvSt × Int) (M : List Msg), s.metaSeq = Seq.ofAbs M →
      foldlM' (convMsg ppqn filePpq (some l)) (s, ticks) es = .ok r →
      ∃ M', r.1.metaSeq = Seq.ofAbs M' ∧ M'.Perm (M ++ metMsgs ppqn filePpq true ticks es) := by
  induction es with
  | nil =>
    intro ticks s r M hM hr
    simp [foldlM'] at hr; subst hr
    exact ⟨M, hM, by simp [metMsgs]⟩
  | cons e es ih =>
    intro ticks s r M hM hr
    have hw : (withDefCh s e).metaSeq = Seq.ofAbs M := hM
    unfold foldlM' at hr
    split at hr
    · rename_i b' hb'
      obtain ⟨s2, t2⟩ := b'
      rw [convMsg_eq, Option.isSome_some] at hb'
      cases hce : convEvent true e (roundHalfEven (exactPos ppqn filePpq (ticks + e.time))) with
      | none =>
        rw [hce] at hb'
        simp only [Except.ok.injEq, Prod.mk.injEq] at hb'
        obtain ⟨rfl, rfl⟩ := hb'
        obtain ⟨M', h1, h2⟩ := ih _ _ r M hw hr
        exact ⟨M', h1, by simpa only [metMsgs, hce] using h2⟩
      | some dm =>
        obtain ⟨d, msg⟩ := dm
        rw [hce] at hb'
        cases d with
        | true =>
          simp only at hb'
          rw [addMeta_ofAbs _ M hw msg] at hb'
          simp only [Except.ok.injEq, Prod.mk.injEq] at hb'
          obtain ⟨rfl, rfl⟩ := hb'
          obtain ⟨M', h1, h2⟩ := ih _ _ r (insort M msg) rfl hr
          refine ⟨M', h1, ?_⟩
          simp only [metMsgs, hce]
          refine h2.trans ?_
          have := (insort_perm M msg).append_right (metMsgs ppqn filePpq true (ticks + e.time) es)
          refine this.trans ?_
          simp only [List.cons_append]
          exact List.perm_middle.symm
        | false =>
          simp only at hb'
          split at hb'
          · rename_i s3 h3
            simp only [Except.ok.injEq, Prod.mk.injEq] at hb'
            obtain ⟨rfl, rfl⟩ := hb'
            have hm3 : s3.metaSeq = Seq.ofAbs M := (addCur_some_meta _ _ l msg h3).trans hw
            obtain ⟨M', h1, h2⟩ := ih _ _ r M hm3 hr
            exact ⟨M', h1, by simpa only [metMsgs, hce] using h2⟩
          · simp at hb'
    · simp at hr

theorem foldlM'_idx_res {α β} (f : β → α → Except Err β) (l : List α) : ∀ (Inv : Nat → β → Prop)
    (_ : ∀ n (hn : n < l.length) b b', Inv n b → f b l[n] = .ok b' → Inv (n + 1) b') (b0 r : β) (_ : Inv 0 b0)
    (_ : foldlM' f b0 l = .ok r), Inv l.length r := by
  induction l with
  | nil => intro Inv _ b0 r h0 hr; simp [foldlM'] at hr; subst hr; exact h0
  | cons x xs ih =>
    intro Inv hstep b0 r h0 hr
    unfold foldlM' at hr
    split at hr
    · rename_i b' hb'
      exact ih (fun n b => Inv (n + 1) b)
        (fun n hn b b'' hb hf => hstep (n + 1) (by simpa using hn) b b'' hb (by simpa using hf)) b' r
        (hstep 0 (by simp) b0 b' h0 (by simpa using hb')) hr
    · simp at hr

/-- when every track is in a group, the meta sequence holds exactly the tracks' `metMsgs` -/
theorem tracks_perm (ppqn filePpq : Int) (tracks : List (List MidiEv)) (groups : List (List Nat))
    (metaIdx : List Nat) (hall : ∀ i, i < tracks.length → i ∈ groups.flatten) (s : ConvSt)
    (h : foldlM' (convTrack ppqn filePpq groups metaIdx)
        { seqs := groups.map (fun g => g.map (fun _ => Seq.new)) } tracks.zipIdx = .ok s) :
    ∃ M, s.metaSeq = Seq.ofAbs M ∧ M.Perm ((tracks.map (metMsgs ppqn filePpq true 0)).flatten) := by
  have := foldlM'_idx_res (convTrack ppqn filePpq groups metaIdx) tracks.zipIdx
    (fun n s => ∃ M, s.metaSeq = Seq.ofAbs M ∧
      M.Perm (((tracks.take n).map (metMsgs ppqn filePpq true 0)).flatten))
    (by
      intro n hn b b' ⟨M, hM, hperm⟩ hb
      have hn' : n < tracks.length := by simpa using hn
      have hx : tracks.zipIdx[n] = (tracks[n], n) := by simp
      rw [hx] at hb
      unfold convTrack at hb
      simp only at hb
      cases hloc : firstGroupOf groups n with
      | none => exact absurd (hall n hn') (firstGroupOf_none groups n hloc)
      | some l =>
        rw [hloc] at hb
        simp only [Option.isNone_some, Bool.false_and, Bool.false_eq_true, if_false] at hb
        split at hb
        · rename_i r hr
          simp only [Except.ok.injEq] at hb
          subst hb
          obtain ⟨M', h1, h2⟩ := inner_perm ppqn filePpq l tracks[n] 0 b r M hM hr
          refine ⟨M', h1, h2.trans ?_⟩
          rw [List.take_add_one, List.getElem?_eq_getElem hn']
          simp only [Option.toList_some, List.map_append, List.map_cons, List.map_nil, List.flatten_append,
            List.flatten_cons, List.flatten_nil, List.append_nil]
          exact hperm.append_right _
        · simp at hb)
    { seqs := groups.map (fun g => g.map (fun _ => Seq.new)) } s ⟨[], rfl, by simp⟩ h
  simpa using this

/-- what a saved signature / control event becomes on the meta sequence after save and load -/
def sigOf (m : Msg) : Option Msg :=
  if m.ty = .timeSignature then some (Msg.mkTimeSig 0 m.num m.den m.time)
  else if m.ty = .keySignature then some { ty := .keySignature, ch := 0, key := m.key, time := m.time }
  else if m.ty = .controlChange then
    some { ty := .controlChange, ch := 0, vel := m.vel, ctl := m.ctl, time := m.time }
  else none

def convM (pp : Int) (e : MidiEv) : Option Msg :=
  match convEvent true e (roundHalfEven (exactPos pp pp e.time)) with
  | some (true, m) => some m
  | _ => none

theorem metMsgs_cumulate (pp : Int) (evs : List MidiEv) : ∀ ticks,
    metMsgs pp pp true ticks evs = (cumulate ticks evs).filterMap (convM pp) := by
  induction evs with
  | nil => intro ticks; rfl
  | cons e es ih =>
    intro ticks
    simp only [metMsgs, cumulate, List.filterMap_cons, convM, ih]
    have : convEvent true { e with time := ticks + e.time } (roundHalfEven (exactPos pp pp (ticks + e.time)))
        = convEvent true e (roundHalfEven (exactPos pp pp (ticks + e.time))) := rfl
    rw [this]
    split <;> simp_all

theorem convM_shape (pp : Int) (hp : 0 < pp) (m : Msg) :
    (if emitted m then convM pp (midiShape m) else none) = sigOf m := by
  have hr : ∀ e : MidiEv, roundHalfEven (exactPos pp pp e.time) = e.time := fun e => exactPos_same pp hp _
  cases hty : m.ty <;>
    simp [emitted, midiShape, convM, convEvent, sigOf, hty, hr, Msg.mkOn, Msg.mkOff, Msg.mkTimeSig, pyNone]

theorem metMsgs_toMido (pp : Int) (hp : 0 < pp) (r : List Msg) (hn : ∀ m ∈ r, m.ty ≠ .wait → m.time = pyNone)
    (hw : NonNegWaits r) : metMsgs pp pp true 0 (toMido r) = (eventsRel r).filterMap sigOf := by
  rw [metMsgs_cumulate, toMido_ticks_nonneg r hn hw, List.filterMap_map, List.filterMap_filter]
  congr 1
  funext m
  simpa using convM_shape pp hp m

theorem flatten_filterMap (f : Msg → Option Msg) (ls : List (List Msg)) :
    (ls.map (fun l => l.filterMap f)).flatten = ls.flatten.filterMap f := by
  induction ls with
  | nil => rfl
  | cons l ls ih => simp only [List.map_cons, List.flatten_cons, List.filterMap_append, ih]

/-! ## signatures through the last merge -/

theorem filter_insort_not (q : Msg → Bool) (a : List Msg) (m : Msg) (h : q m = false) :
    (insort a m).filter q = a.filter q := by
  simp only [insort, List.filter_append, List.filter_cons, h, Bool.false_eq_true, if_false]
  rw [← List.filter_append, List.take_append_drop]

theorem filt_eventsAbs (q : Msg → Bool) (hq : ∀ m, q m = true → m.ty ≠ .internal) (l : List Msg) :
    (eventsAbs l).filter q = l.filter q := by
  simp only [eventsAbs, List.filter_filter]
  apply List.filter_congr
  intro m _
  by_cases h : q m = true
  · simp [h, hq m h]
  · simp [h]

theorem filt_toAbs (q : Msg → Bool) (hq : ∀ m, q m = true → m.ty ≠ .internal) (r : List Msg) :
    (toAbs r).filter q = sortAbs ((eventsRel r).filter q) := by
  rw [toAbs_eq]
  split
  · exact filter_sortAbs q _
  · rw [filter_insort_not q _ _ (by
      cases h : q (Msg.mkInternal ((r.foldl toAbsStep {}).defCh.getD 0) (totalWait r)) with
      | false => rfl
      | true => exact absurd rfl (hq _ h))]
    exact filter_sortAbs q _

theorem kle_of_lt {a b : Msg} (h : a.time < b.time) : KLe a b := by
  show keyLe a b = true
  rw [keyLe_iff]; exact Or.inl h

theorem strict_of_nodup (l : List Msg) (hs : Sorted l) (hn : (l.map (fun m => m.time)).Nodup) :
    l.Pairwise (fun a b => a.time < b.time) := by
  induction l with
  | nil => exact List.Pairwise.nil
  | cons x xs ih =>
    have hs := List.pairwise_cons.1 hs
    simp only [List.map_cons, List.nodup_cons, List.mem_map, not_exists, not_and] at hn
    refine List.pairwise_cons.2 ⟨?_, ih hs.2 hn.2⟩
    intro b hb
    have h1 := hs.1 b hb
    have h2 := hn.1 b hb
    omega

/-- the last merge of `finish`, seen through a filter `q` that selects one kind of signature -/
theorem sig_pipeline {β} [DecidableEq β] (q : Msg → Bool) (hq : ∀ m, q m = true → m.ty ≠ .internal)
    (v : Msg → β) (p0 : β)
    (hnorm : ∀ r, NonNegWaits r → (eventsRel (normalise r)).filter q = dedupBy v p0 ((eventsRel r).filter q))
    (A1 M : List Msg) (hA1 : OkAbs A1) (hM : OkAbs M) (hA1q : A1.filter q = [])
    (hT : (M.filter q).Pairwise KLe) :
    (toAbs (C15.mergeRel [A1, M])).filter q = dedupBy v p0 (M.filter q) := by
  have hoks : ∀ a ∈ [A1, M], OkAbs a := by
    intro a ha
    simp only [List.mem_cons, List.not_mem_nil, or_false] at ha
    rcases ha with rfl | rfl <;> assumption
  have hU := C15.okU _ hoks
  have hnn := C15.nnR _ hoks
  have e1 : (eventsRel (toRel (sortAbs [A1, M].flatten))).filter q = M.filter q := by
    rw [C04.toRel_events _ hU, filt_eventsAbs q hq, filter_sortAbs]
    simp only [List.flatten_cons, List.flatten_nil, List.append_nil, List.filter_append, hA1q, List.nil_append]
    exact isort_of_pairwise keyLe _ hT
  rw [filt_toAbs q hq]
  unfold C15.mergeRel
  rw [hnorm _ hnn, e1]
  exact isort_of_pairwise keyLe _ (List.Pairwise.sublist (dedupBy_sublist v _ p0) hT)

theorem sigOf_some (m m' : Msg) (h : sigOf m = some m') : m'.ty = m.ty ∧ m'.time = m.time := by
  unfold sigOf at h
  split at h
  · rename_i h1; simp at h; subst h; simp [Msg.mkTimeSig, h1]
  · split at h
    · rename_i h1; simp at h; subst h; simp [h1]
    · split at h
      · rename_i h1; simp at h; subst h; simp [h1]
      · simp at h

theorem sigOf_isSome (m : Msg) (h : m.ty = .timeSignature ∨ m.ty = .keySignature) : ∃ m', sigOf m = some m' := by
  unfold sigOf
  rcases h with h | h <;> simp [h]

theorem sigOf_times (ty : MType) (hty : ty = .timeSignature ∨ ty = .keySignature) (L : List Msg) :
    ((L.filterMap sigOf).filter (fun m => m.ty == ty)).map (fun m => m.time)
      = (L.filter (fun m => m.ty == ty)).map (fun m => m.time) := by
  induction L with
  | nil => rfl
  | cons m ms ih =>
    cases hs : sigOf m with
    | none =>
      have : (m.ty == ty) = false := by
        by_cases hm : m.ty = ty
        · obtain ⟨m', hm'⟩ := sigOf_isSome m (by rw [hm]; exact hty)
          rw [hs] at hm'; simp at hm'
        · simpa using hm
      simp only [List.filterMap_cons, hs, List.filter_cons, this, Bool.false_eq_true, if_false, ih]
    | some m' =>
      obtain ⟨h1, h2⟩ := sigOf_some m m' hs
      simp only [List.filterMap_cons, hs, List.filter_cons, h1]
      split
      · simp only [List.map_cons, h2, ih]
      · exact ih

/-- `C13.sigFields` of `Props/C12b.lean` -/
def sigF (m : Msg) : Int × Int × Int := (m.num, m.den, m.key)

/-- `C13.dfltSig` of `Props/C12b.lean` -/
def dfltL : MType → List Msg
  | .timeSignature => [Msg.mkTimeSig 0 4 4 0]
  | _ => []

theorem latestL_mem (ty : MType) (t : Int) (L : List Msg) (m : Msg) (h : latestL ty L t = some m) : m ∈ L := by
  have := latestL_spec ty t L
  rw [h] at this
  exact this.1

theorem latest_K_T {β : Type} [DecidableEq β] (ty : MType) (t : Int) (v : Msg → β) (p0 : β) (f : β → Int × Int × Int)
    (T : List Msg) (hs : Sorted T) (hty : ∀ x ∈ T, x.ty = ty) (hne : ∀ x ∈ T, v x ≠ p0)
    (hf : ∀ x ∈ T, sigF x = f (v x)) :
    (latestL ty (dedupBy v p0 T) t).map sigF = (latestL ty T t).map sigF := by
  have h := dedup_latest ty t v p0 T hs hty hne
  cases h1 : latestL ty (dedupBy v p0 T) t with
  | none =>
    cases h2 : latestL ty T t with
    | none => rfl
    | some b => rw [h1, h2] at h; simp at h
  | some a =>
    cases h2 : latestL ty T t with
    | none => rw [h1, h2] at h; simp at h
    | some b =>
      rw [h1, h2] at h
      simp only [Option.map_some, Option.some.injEq] at h ⊢
      have ha : a ∈ T := (dedupBy_sublist v T p0).subset (latestL_mem ty t _ a h1)
      have hb : b ∈ T := latestL_mem ty t _ b h2
      rw [hf a ha, hf b hb, h]

theorem latest_T_S (ty : MType) (t : Int) (S T : List Msg)
    (hmem : ∀ m', m' ∈ T ↔ ∃ m ∈ S, m.ty = ty ∧ sigOf m = some m')
    (hsome : ∀ m ∈ S, m.ty = ty → ∃ m', sigOf m = some m')
    (hdist : ((S.filter (fun m => m.ty == ty)).map (fun m => m.time)).Nodup)
    (Hsf : ∀ m ∈ S, m.ty = ty → ∀ m', sigOf m = some m' → sigF m' = sigF m) :
    (latestL ty T t).map sigF = (latestL ty S t).map sigF := by
  have hc : ∀ m m', sigOf m = some m' → cand ty t m' = cand ty t m := by
    intro m m' h
    obtain ⟨h1, h2⟩ := sigOf_some m m' h
    simp [cand, h1, h2]
  have hcty : ∀ m, cand ty t m = true → m.ty = ty := by
    intro m h; simp only [cand, Bool.and_eq_true, beq_iff_eq] at h; exact h.1
  have sT := latestL_spec ty t T
  have sS := latestL_spec ty t S
  cases h1 : latestL ty T t with
  | none =>
    rw [h1] at sT
    cases h2 : latestL ty S t with
    | none => rfl
    | some m2 =>
      rw [h2] at sS
      exfalso
      obtain ⟨hm2, hc2, _⟩ := sS
      obtain ⟨m', hm'⟩ := hsome m2 hm2 (hcty m2 hc2)
      have := sT m' ((hmem m').2 ⟨m2, hm2, hcty m2 hc2, hm'⟩)
      rw [hc m2 m' hm', hc2] at this
      simp at this
  | some m1 =>
    rw [h1] at sT
    obtain ⟨hm1, hc1, hmax1⟩ := sT
    obtain ⟨m, hm, hmty, hsig⟩ := (hmem m1).1 hm1
    have hcm : cand ty t m = true := by rw [← hc m m1 hsig]; exact hc1
    cases h2 : latestL ty S t with
    | none =>
      rw [h2] at sS
      rw [sS m hm] at hcm; simp at hcm
    | some m2 =>
      rw [h2] at sS
      obtain ⟨hm2, hc2, hmax2⟩ := sS
      obtain ⟨m2', hm2'⟩ := hsome m2 hm2 (hcty m2 hc2)
      have hm2T : m2' ∈ T := (hmem m2').2 ⟨m2, hm2, hcty m2 hc2, hm2'⟩
      have e1 := hmax1 m2' hm2T (by rw [hc m2 m2' hm2']; exact hc2)
      have e2 := hmax2 m hm hcm
      have t1 := (sigOf_some m m1 hsig).2
      have t2 := (sigOf_some m2 m2' hm2').2
      have hmm : m = m2 := by
        apply eq_of_nodup_map (fun m => m.time) hdist
        · exact List.mem_filter.2 ⟨hm, by simp [hmty]⟩
        · exact List.mem_filter.2 ⟨hm2, by simp [hcty m2 hc2]⟩
        · show m.time = m2.time
          omega
      subst hmm
      simp only [Option.map_some, Option.some.injEq]
      exact Hsf m hm hmty m1 hsig

/-! ## the signature in force after save and load -/

theorem merged_mi (ppqn filePpq : Int) (hp : 0 < ppqn) (hf : 0 < filePpq) (tracks : List (List MidiEv))
    (groups : List (List Nat)) (metaIdx : List Nat) (target : Int) (out : List Seq)
    (hnd : groups.flatten.Nodup) (hd : ∀ evs ∈ tracks, ∀ e ∈ evs, 0 ≤ e.time)
    (h : convert ppqn filePpq tracks groups metaIdx target = .ok out) :
    ∀ g ∈ groups, MI (gmerge (slotA ppqn filePpq tracks) g) := by
  obtain ⟨hne, _, _⟩ := convert_conds ppqn filePpq hp hf tracks groups metaIdx target out hnd hd h
  obtain ⟨s, M, hfold, hseqs, _, _⟩ := tracks_fold ppqn filePpq hp hf tracks groups metaIdx hnd hd
  have hI := tracks_slotsI ppqn filePpq tracks groups metaIdx s hfold
  have hmi := groups_mi s.seqs hI _ (by rw [hseqs]; exact groups_fold groups _ hne)
  intro g hg
  exact hmi _ (List.mem_map.2 ⟨g, hg, rfl⟩)

/-- the hypotheses of `save_load_signatures_partial` on the fields of saved signatures -/
def SigFieldsOk (r : List Msg) : Prop :=
  ∀ m ∈ r, (m.ty = .timeSignature → m.key = pyNone ∧ (m.num, m.den) ≠ (pyNone, pyNone))
    ∧ (m.ty = .keySignature → m.num = pyNone ∧ m.den = pyNone ∧ m.key ≠ pyNone)

theorem inforce_generic {β : Type} [DecidableEq β] (ty : MType) (hty : ty = .timeSignature ∨ ty = .keySignature)
    (v : Msg → β) (p0 : β) (f : β → Int × Int × Int)
    (hnorm : ∀ r, NonNegWaits r → (eventsRel (normalise r)).filter (fun m => m.ty == ty)
      = dedupBy v p0 ((eventsRel r).filter (fun m => m.ty == ty)))
    (pp : Int) (hp : 0 < pp) (rels : List (List Msg)) (hS : ∀ r ∈ rels, SavedC r)
    (Hv : ∀ m ∈ rels.flatMap eventsRel, m.ty = ty → ∀ m', sigOf m = some m' →
      v m' ≠ p0 ∧ sigF m' = f (v m') ∧ sigF m' = sigF m)
    (hdist : (((rels.flatMap eventsRel).filter (fun m => m.ty == ty)).map (fun m => m.time)).Nodup)
    (out : List Seq)
    (h : convert pp pp (rels.map toMido) ((List.range rels.length).map (fun i => [i])) (List.range rels.length) 0
      = .ok out)
    (s s' : Seq) (a : List Msg) (ho : out[0]? = some s) (ha : s.readAbs = Except.ok (s', a)) :
    ∃ K A2 c, (∀ x ∈ K, 0 ≤ x.time ∧ x.ty = ty) ∧ A2.filter (fun m => m.ty == ty) = K ∧ OkAbs A2
      ∧ (a = if (timesOfType .timeSignature A2).any (fun m => m.time == 0) then A2
              else insort A2 (Msg.mkTimeSig c 4 4 0))
      ∧ ∀ t, (latestL ty K t).map sigF = (latestL ty (rels.flatMap eventsRel) t).map sigF := by
  obtain ⟨hnd, hd⟩ := savedC_tracks pp hp rels hS
  obtain ⟨s0, M, hfold, hmeta, hM, _, gt, hgt, hout⟩ := convert_shape pp pp hp hp _ _ _ 0 out hnd hd h
  have hmi := merged_mi pp pp hp hp _ _ _ 0 out hnd hd h
  have hq : ∀ m : Msg, (m.ty == ty) = true → m.ty ≠ .internal := by
    intro m hm
    have : m.ty = ty := by simpa using hm
    rcases hty with rfl | rfl <;> simp [this]
  -- the meta list
  obtain ⟨M2, hM2, hperm⟩ := tracks_perm pp pp (rels.map toMido) _ (List.range rels.length)
    (by intro i hi; rw [range_groups_flatten, List.mem_range]; simpa using hi) s0 hfold
  have hMM : M2 = M := by
    have := hM2.symm.trans hmeta
    exact congrArg Seq.abs this
  subst hMM
  have hcontent : ((rels.map toMido).map (metMsgs pp pp true 0)).flatten
      = (rels.flatMap eventsRel).filterMap sigOf := by
    rw [List.map_map, List.flatMap_def, ← flatten_filterMap, List.map_map]
    congr 1
    apply List.map_congr_left
    intro r hr
    obtain ⟨h1, h2, _⟩ := hS r hr
    exact metMsgs_toMido pp hp r h2 h1.1
  rw [hcontent] at hperm
  -- the shape of `a`
  have hlen : 0 < rels.length := by
    rcases Nat.eq_zero_or_pos rels.length with h0 | h0
    · rw [hout, getElem?_modifyAt] at ho
      simp [h0] at ho
    · exact h0
  have hg0 : ((List.range rels.length).map (fun i => [i]))[0]? = some [0] := groups_range_get _ 0 hlen
  rw [hout] at ho
  have ha' : a = (finSeq s0.defCh (gmerge (slotA pp pp (rels.map toMido)) [0]).rel M2).abs := by
    rcases out_abs _ _ 0 s0.defCh M2 gt hgt 0 [0] hg0 s s' a ho ha with ⟨hne, _⟩ | ⟨_, e⟩
    · exact absurd rfl hne
    · exact e
  obtain ⟨m1, m2, m3⟩ := hmi [0] (List.mem_of_getElem? hg0)
  generalize (gmerge (slotA pp pp (rels.map toMido)) [0]).rel = R1 at ha' m3
  have hA1ok : OkAbs (toAbs R1) := C04.toAbs_ok _ m3.1
  have hA1q : (toAbs R1).filter (fun m => m.ty == ty) = [] := by
    rw [List.filter_eq_nil_iff]
    intro m hm hmt
    have := (toAbs_absI _ m3 m hm).1
    have hmt' : m.ty = ty := by simpa using hmt
    apply this
    rcases hty with rfl | rfl
    · exact Or.inl hmt'
    · exact Or.inr hmt'
  -- the signatures of kind `ty` on the meta list
  have hTs : Sorted (M2.filter (fun m => m.ty == ty)) :=
    List.Pairwise.sublist List.filter_sublist ((timeSorted_iff_pairwise M2).1 hM.1.1)
  have hTtimes : ((M2.filter (fun m => m.ty == ty)).map (fun m => m.time)).Nodup := by
    have := ((hperm.filter (fun m => m.ty == ty)).map (fun m => m.time))
    rw [sigOf_times ty hty] at this
    exact this.nodup_iff.2 hdist
  have hTkle : (M2.filter (fun m => m.ty == ty)).Pairwise KLe :=
    (strict_of_nodup _ hTs hTtimes).imp (fun h => kle_of_lt h)
  have hTmem : ∀ m', m' ∈ M2.filter (fun m => m.ty == ty) ↔
      ∃ m ∈ rels.flatMap eventsRel, m.ty = ty ∧ sigOf m = some m' := by
    intro m'
    rw [List.mem_filter, hperm.mem_iff, List.mem_filterMap]
    constructor
    · rintro ⟨⟨m, hm, hsig⟩, hty'⟩
      exact ⟨m, hm, by rw [← (sigOf_some m m' hsig).1]; simpa using hty', hsig⟩
    · rintro ⟨m, hm, hmt, hsig⟩
      exact ⟨⟨m, hm, hsig⟩, by rw [(sigOf_some m m' hsig).1, hmt]; simp⟩
  have hpipe := sig_pipeline (fun m => m.ty == ty) hq v p0 hnorm (toAbs R1) M2 hA1ok hM.1 hA1q hTkle
  -- the second merge is legal
  have hoks : ∀ b ∈ [toAbs R1, M2], OkAbs b := by
    intro b hb
    simp only [List.mem_cons, List.not_mem_nil, or_false] at hb
    rcases hb with rfl | rfl
    · exact hA1ok
    · exact hM.1
  have hR2ok : OkRel (C15.mergeRel [toAbs R1, M2]) :=
    (C07.ok_out _ (C04.toRel_ok _ (C15.okU _ hoks))).1
  refine ⟨dedupBy v p0 (M2.filter (fun m => m.ty == ty)), toAbs (C15.mergeRel [toAbs R1, M2]), s0.defCh.getD 0,
    ?_, hpipe, C04.toAbs_ok _ hR2ok, by rw [ha', finSeq_abs], ?_⟩
  · intro x hx
    have hxT := (dedupBy_sublist v _ p0).subset hx
    have := List.mem_filter.1 hxT
    exact ⟨hM.1.2.1 x this.1, by simpa using this.2⟩
  · intro t
    have hTty : ∀ x ∈ M2.filter (fun m => m.ty == ty), x.ty = ty := by
      intro x hx; simpa using (List.mem_filter.1 hx).2
    have hTv : ∀ x ∈ M2.filter (fun m => m.ty == ty), v x ≠ p0 ∧ sigF x = f (v x) := by
      intro x hx
      obtain ⟨m, hm, hmt, hsig⟩ := (hTmem x).1 hx
      exact ⟨(Hv m hm hmt x hsig).1, (Hv m hm hmt x hsig).2.1⟩
    rw [latest_K_T ty t v p0 f _ hTs hTty (fun x hx => (hTv x hx).1) (fun x hx => (hTv x hx).2)]
    exact latest_T_S ty t _ _ hTmem
      (fun m _ hmt => sigOf_isSome m (by rw [hmt]; exact hty)) hdist
      (fun m hm hmt m' hsig => (Hv m hm hmt m' hsig).2.2)

theorem insort_front (q : Msg → Bool) (A : List Msg) (m : Msg) (hA : OkAbs A) (hm : m.time = 0) (hqm : q m = true)
    (h0 : ∀ x ∈ A.filter q, x.time ≠ 0) : (insort A m).filter q = m :: A.filter q := by
  rw [C04.insort_eq_spec A m hA.1]
  simp only [insortSpec, List.filter_append, List.filter_cons, hqm, if_true]
  have h1 : (A.takeWhile (fun y => decide (y.time ≤ m.time))).filter q = [] := by
    rw [List.filter_eq_nil_iff]
    intro x hx hqx
    have hxA : x ∈ A := (List.takeWhile_sublist _).subset hx
    have hle := List.all_eq_true.1 (List.all_takeWhile (l := A) (p := fun y => decide (y.time ≤ m.time))) x hx
    simp only [decide_eq_true_eq] at hle
    have := hA.2.1 x hxA
    exact h0 x (List.mem_filter.2 ⟨hxA, hqx⟩) (by omega)
  have h2 : A.filter q = (A.takeWhile (fun y => decide (y.time ≤ m.time))).filter q
      ++ (A.dropWhile (fun y => decide (y.time ≤ m.time))).filter q := by
    rw [← List.filter_append, List.takeWhile_append_dropWhile]
  rw [h1] at h2 ⊢
  rw [h2]; rfl

theorem map_or_some {α β} (g : α → β) (o : Option α) (d : α) :
    (o.or (some d)).map g = (o.map g).or (some (g d)) := by
  cases o <;> rfl

theorem events_nonneg (rels : List (List Msg)) (h : ∀ r ∈ rels, NonNegWaits r) :
    ∀ m ∈ rels.flatMap eventsRel, 0 ≤ m.time := by
  intro m hm
  obtain ⟨r, hr, hmr⟩ := List.mem_flatMap.1 hm
  exact (eventsRelGo_bounds r 0 (h r hr) m hmr).1

theorem events_fields (rels : List (List Msg)) (hF : ∀ r ∈ rels, SigFieldsOk r) :
    ∀ m ∈ rels.flatMap eventsRel,
      (m.ty = .timeSignature → m.key = pyNone ∧ (m.num, m.den) ≠ (pyNone, pyNone))
      ∧ (m.ty = .keySignature → m.num = pyNone ∧ m.den = pyNone ∧ m.key ≠ pyNone) := by
  intro m hm
  obtain ⟨r, hr, hmr⟩ := List.mem_flatMap.1 hm
  obtain ⟨m0, hm0, t, rfl⟩ := eventsRelGo_src r 0 m hmr
  exact hF r hr m0 hm0

/-- **signatures in force** after save and load, for saved signatures that carry only their own fields -/
theorem inforce_core (pp : Int) (hp : 0 < pp) (rels : List (List Msg)) (hS : ∀ r ∈ rels, SavedC r)
    (hF : ∀ r ∈ rels, SigFieldsOk r) (ty : MType) (hty : ty = .timeSignature ∨ ty = .keySignature)
    (hdist : (((rels.flatMap eventsRel).filter (fun m => m.ty == ty)).map (fun m => m.time)).Nodup)
    (out : List Seq)
    (h : convert pp pp (rels.map toMido) ((List.range rels.length).map (fun i => [i])) (List.range rels.length) 0
      = .ok out)
    (s s' : Seq) (a : List Msg) (ho : out[0]? = some s) (ha : s.readAbs = Except.ok (s', a))
    (t : Int) (ht : 0 ≤ t) :
    (latestL ty (eventsAbs a) t).map sigF = (latestL ty (dfltL ty ++ rels.flatMap eventsRel) t).map sigF := by
  have hS0 := events_nonneg rels (fun r hr => (hS r hr).1.1)
  have hFe := events_fields rels hF
  rcases hty with rfl | rfl
  · -- time signatures
    obtain ⟨K, A2, c, hK, hfilt, hA2, hshape, hlat⟩ :=
      inforce_generic .timeSignature (Or.inl rfl) tsv (pyNone, pyNone) (fun p => (p.1, p.2, pyNone))
        normalise_ts_events pp hp rels hS (by
          intro m hm hmt m' hsig
          obtain ⟨hk, hne⟩ := (hFe m hm).1 hmt
          simp only [sigOf, hmt, if_true, Option.some.injEq] at hsig
          subst hsig
          refine ⟨by simpa [tsv, Msg.mkTimeSig] using hne, by simp [sigF, tsv, Msg.mkTimeSig], ?_⟩
          simp [sigF, Msg.mkTimeSig, hk]) hdist out h s s' a ho ha
    have hq : ∀ m : Msg, (m.ty == MType.timeSignature) = true → m.ty ≠ .internal := by
      intro m hm; have : m.ty = .timeSignature := by simpa using hm
      simp [this]
    have hdq : (Msg.mkTimeSig c 4 4 0).ty == MType.timeSignature := rfl
    have hdc : cand .timeSignature t (Msg.mkTimeSig c 4 4 0) = true := by simp [cand, Msg.mkTimeSig, ht]
    have hd0 : cand .timeSignature t (Msg.mkTimeSig 0 4 4 0) = true := by simp [cand, Msg.mkTimeSig, ht]
    have hL : latestL .timeSignature (eventsAbs a) t = (latestL .timeSignature K t).or (some (Msg.mkTimeSig c 4 4 0)) := by
      rw [latestL_filter, filt_eventsAbs _ hq, hshape]
      split
      · rename_i h0
        rw [hfilt]
        have : timesOfType .timeSignature A2 = K := hfilt
        rw [this] at h0
        obtain ⟨x, hx, hx0⟩ := List.any_eq_true.1 h0
        have hx0' : x.time = 0 := by simpa using hx0
        have hcx : cand .timeSignature t x = true := by simp [cand, (hK x hx).2, hx0', ht]
        have hsp := latestL_spec .timeSignature t K
        cases hl : latestL .timeSignature K t with
        | none => rw [hl] at hsp; rw [hsp x hx] at hcx; simp at hcx
        | some y => rfl
      · rename_i h0
        have : timesOfType .timeSignature A2 = K := hfilt
        rw [this] at h0
        rw [insort_front _ A2 _ hA2 rfl hdq (by
          rw [hfilt]
          intro x hx hx0
          apply h0
          exact List.any_eq_true.2 ⟨x, hx, by simp [hx0]⟩), hfilt]
        exact latestL_cons _ t _ K hdc (fun m hm _ => (hK m hm).1)
    have hR : latestL .timeSignature (dfltL .timeSignature ++ rels.flatMap eventsRel) t
        = (latestL .timeSignature (rels.flatMap eventsRel) t).or (some (Msg.mkTimeSig 0 4 4 0)) :=
      latestL_cons _ t _ _ hd0 (fun m hm _ => hS0 m hm)
    rw [hL, hR, map_or_some, map_or_some, hlat t]
    rfl
  · -- key signatures
    obtain ⟨K, A2, c, hK, hfilt, hA2, hshape, hlat⟩ :=
      inforce_generic .keySignature (Or.inr rfl) ksv pyNone (fun k => (pyNone, pyNone, k))
        normalise_ks_events pp hp rels hS (by
          intro m hm hmt m' hsig
          obtain ⟨hn, hd, hne⟩ := (hFe m hm).2 hmt
          simp only [sigOf, hmt, reduceCtorEq, if_false, if_true, Option.some.injEq] at hsig
          subst hsig
          refine ⟨by simpa [ksv] using hne, by simp [sigF, ksv], ?_⟩
          simp [sigF, hn, hd]) hdist out h s s' a ho ha
    have hq : ∀ m : Msg, (m.ty == MType.keySignature) = true → m.ty ≠ .internal := by
      intro m hm; have : m.ty = .keySignature := by simpa using hm
      simp [this]
    have hL : latestL .keySignature (eventsAbs a) t = latestL .keySignature K t := by
      rw [latestL_filter, filt_eventsAbs _ hq, hshape]
      split
      · rw [hfilt]
      · rw [filter_insort_not _ _ _ (by simp [Msg.mkTimeSig]), hfilt]
    rw [hL, hlat t]
    rfl

end SCoda.E2E
