/-
  Helper lemmas for C01 that only mention the model: the step `applyRest` chooses, the one-step
  unfolding of `applyRest`, failure of `applyRest` on an empty bar, integer arithmetic behind
  `capacity_scaled`.
-/
import SCoda.Lemmas.Tokenise
import SCoda.Lemmas.Detok
namespace SCoda.Sim
open SCoda

/-! ### `largestLe` -/

theorem largestLe_go_le {steps : List Int} {n v : Int} {best : Option Int}
    (h : steps.foldl (fun best s => if n >= s then some s else best) best = some v) :
    best = some v ∨ (v ∈ steps ∧ v ≤ n) := by
  induction steps generalizing best with
  | nil => left; simpa using h
  | cons s ss ih =>
    simp only [List.foldl_cons] at h
    rcases ih h with h' | h'
    · split at h'
      · rename_i hs
        right; simp at h'; subst h'; exact ⟨by simp, hs⟩
      · left; exact h'
    · right; exact ⟨by simp [h'.1], h'.2⟩

theorem largestLe_le {steps : List Int} {n v : Int} (h : largestLe steps n = some v) :
    v ∈ steps ∧ v ≤ n := by
  rcases largestLe_go_le h with h' | h'
  · simp at h'
  · exact h'

/-! ### `applyRest` -/

theorem applyRest_nonpos (c : Cfg) (cap : Int) (fuel : Nat) (buf : Int) (st : Int × Int × Int)
    (acc : List Tok) (h : buf ≤ 0) : applyRest c cap fuel buf st acc = .ok (st, acc) := by
  obtain ⟨cur, bar, rem⟩ := st
  cases fuel with
  | zero => simp only [applyRest]; rw [if_neg (by omega)]
  | succ f => simp only [applyRest]; rw [if_neg (by omega)]

/-- one iteration of `applyRest` with something left to rest: the chosen step and the recursive call -/
theorem applyRest_step (c : Cfg) (hs : ∀ s ∈ c.steps, 0 < s) (cap : Int) (fuel : Nat) (buf cur bar rem : Int)
    (acc : List Tok) (res : (Int × Int × Int) × List Tok) (hb : 0 < buf)
    (h : applyRest c cap (fuel + 1) buf (cur, bar, rem) acc = .ok res) :
    ∃ v, v ∈ c.steps ∧ 0 < v ∧ v ≤ buf ∧ v ≤ rem ∧
      (if rem - v = 0 then applyRest c cap fuel (buf - v) (cur + v, 0, cap) (Tok.bar :: Tok.rest v :: acc)
       else applyRest c cap fuel (buf - v) (cur + v, bar + v, rem - v) (Tok.rest v :: acc)) = .ok res := by
  simp only [applyRest] at h
  rw [if_pos hb] at h
  split at h
  · cases h
  · rename_i last hlast
    split at h
    · cases h
    · split at h
      · cases h
      · rename_i v hv
        have hvb : v ∈ c.steps ∧ v ≤ min buf rem := by
          split at hv
          · rename_i hgt
            cases hv
            exact ⟨List.mem_of_getLast? hlast, by omega⟩
          · exact largestLe_le hv
        refine ⟨v, hvb.1, hs v hvb.1, by omega, by omega, ?_⟩
        by_cases hz : rem - v = 0
        · rw [if_pos hz]
          have : (rem - v == 0) = true := by simp [hz]
          rw [if_pos this] at h
          exact h
        · rw [if_neg hz]
          have : ¬ ((rem - v == 0) = true) := by simp [hz]
          rw [if_neg this] at h
          exact h

/-- with something left to rest and an empty (or negative) bar, `applyRest` fails -/
theorem applyRest_rem_pos (c : Cfg) (hs : ∀ s ∈ c.steps, 0 < s) (cap : Int) (fuel : Nat) (buf cur bar rem : Int)
    (acc : List Tok) (res : (Int × Int × Int) × List Tok) (hb : 0 < buf)
    (h : applyRest c cap fuel buf (cur, bar, rem) acc = .ok res) : 0 < rem := by
  cases fuel with
  | zero =>
    simp only [applyRest] at h
    rw [if_pos hb] at h; cases h
  | succ f =>
    obtain ⟨v, _, h1, _, h2, _⟩ := applyRest_step c hs cap f buf cur bar rem acc res hb h
    omega

/-- if `applyRest` gets past the end of the current bar, the bar capacity is positive -/
theorem applyRest_cap_pos (c : Cfg) (hs : ∀ s ∈ c.steps, 0 < s) (cap : Int) (fuel : Nat) (buf cur bar rem : Int)
    (acc : List Tok) (res : (Int × Int × Int) × List Tok) (hr : 0 < rem) (hb : rem < buf)
    (h : applyRest c cap fuel buf (cur, bar, rem) acc = .ok res) : 0 < cap := by
  induction fuel generalizing buf cur bar rem acc with
  | zero =>
    simp only [applyRest] at h
    rw [if_pos (by omega)] at h; cases h
  | succ f ih =>
    obtain ⟨v, _, h1, h2, h3, h4⟩ := applyRest_step c hs cap f buf cur bar rem acc res (by omega) h
    by_cases hz : rem - v = 0
    · rw [if_pos hz] at h4
      exact applyRest_rem_pos c hs cap f (buf - v) _ _ cap _ res (by omega) h4
    · rw [if_neg hz] at h4
      exact ih (buf - v) _ _ (rem - v) _ (by omega) (by omega) h4

/-! ### the arithmetic behind `capacity_scaled` -/

theorem scaled_div (a num D den : Int) (hD : 0 < D) (hd : 0 < den) (hdiv : (num * D) % den = 0) :
    (a * ((num * D) / den)) / D = (a * num) / den := by
  have hs : (num * D) / den * den = num * D := Int.ediv_mul_cancel (Int.dvd_of_emod_eq_zero hdiv)
  generalize (num * D) / den = s at hs
  have hq : den * ((a * num) / den) + (a * num) % den = a * num := Int.mul_ediv_add_emod _ _
  have hr0 : 0 ≤ (a * num) % den := Int.emod_nonneg _ (by omega)
  have hr1 : (a * num) % den < den := Int.emod_lt_of_pos _ hd
  generalize (a * num) / den = q at hq ⊢
  generalize (a * num) % den = r at hq hr0 hr1
  have key : (a * s - q * D) * den = r * D := by
    have : a * s * den = a * num * D := by rw [Int.mul_assoc, hs]; grind
    rw [← hq] at this
    grind
  have ht0 : 0 ≤ a * s - q * D := by
    refine Decidable.byContradiction fun hneg => ?_
    have : a * s - q * D ≤ -1 := by omega
    have h1 : (a * s - q * D) * den ≤ -1 * den := Int.mul_le_mul_of_nonneg_right this (by omega)
    have h2 : 0 ≤ r * D := Int.mul_nonneg hr0 (by omega)
    omega
  have ht1 : a * s - q * D < D := by
    refine Decidable.byContradiction fun hge => ?_
    have : D ≤ a * s - q * D := by omega
    have h1 : D * den ≤ (a * s - q * D) * den := Int.mul_le_mul_of_nonneg_right this (by omega)
    have h2 : r * D < den * D := Int.mul_lt_mul_of_pos_right hr1 hD
    have h3 : D * den = den * D := Int.mul_comm _ _
    omega
  have : a * s = q * D + (a * s - q * D) := by omega
  rw [this, Int.add_ediv_of_dvd_left (Int.dvd_mul_left q D), Int.mul_ediv_cancel _ (by omega),
    Int.ediv_eq_zero_of_lt ht0 ht1]
  omega

end SCoda.Sim
