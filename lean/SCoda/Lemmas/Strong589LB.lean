/-
  Helper definitions and lemmas for `Props/Strong589B.lean` (audit item A6, parts (b) and (d), property C09), file 1 of 2:
  control side of `sequences_split_bars`.
  * spec definitions: the *input-level* bar grid (`gridStart`), alignment (`AlignedIn`, decidable variant `AlignedInB`),
    `DistinctTicks`, `NonNegBars`, `PosBars`, `sigsOf`, `keysOf`; for the keys `dueCount`, `lagCount`, `valAt`;
  * the queue discipline re-proved against that grid: under alignment and pairwise distinct ticks the schedule of the
    loop (`SB.ctl`) is the grid schedule (`sched_sig`, `sched_key`);
  * the key queue with no hypothesis on the keys: one delivery per bar (`sched_key_lag`);
  * the change events in `Roll` terms, and the one-round lemma for all-empty input.
-/
import SCoda.Props.C09
namespace SCoda.Strong589LB
open SCoda SCoda.SplitL SCoda.SB SCoda.BarL

/-! ### spec definitions (independent of the loop: they read the signature events only) -/

/-- one step along the bar grid: from a bar start to the next one, by the length of the signature in force there -/
def gridStep (ppqn : Int) (sigs : List Msg) (s : Int) : Int :=
  s + barCapacity ppqn (C09.sigInForce sigs s).1 (C09.sigInForce sigs s).2

/-- start tick of bar `k` of the grid induced by the (timed) signature events `sigs` alone; 4/4 before any signature -/
def gridStart (ppqn : Int) (sigs : List Msg) : Nat → Int
  | 0 => 0
  | k + 1 => gridStep ppqn sigs (gridStart ppqn sigs k)

/-- tick `t` is a bar start of the grid induced by `sigs` -/
def OnGrid (ppqn : Int) (sigs : List Msg) (t : Int) : Prop := ∃ k, t = gridStart ppqn sigs k

/-- **input-level alignment**: every signature tick and every key tick is a bar start of the grid induced by the
    signatures.  No bound on the bar index (a change on the final boundary or beyond is allowed) and no
    distinctness (two changes on one bar start are not excluded). -/
def AlignedIn (ppqn : Int) (sigs keys : List Msg) : Prop :=
  (∀ m ∈ sigs, OnGrid ppqn sigs m.time) ∧ (∀ m ∈ keys, OnGrid ppqn sigs m.time)

/-- the ticks of the events are pairwise distinct (the events are time-ordered, so: strictly increasing) -/
def DistinctTicks (q : List Msg) : Prop := q.Pairwise (fun a b => a.time < b.time)

instance (q : List Msg) : Decidable (DistinctTicks q) := by unfold DistinctTicks; infer_instance

/-- no bar of the grid has negative length -/
def NonNegBars (ppqn : Int) (sigs : List Msg) : Prop :=
  0 ≤ barCapacity ppqn 4 4 ∧ ∀ m ∈ sigs, 0 ≤ barCapacity ppqn m.num m.den

instance (ppqn : Int) (sigs : List Msg) : Decidable (NonNegBars ppqn sigs) := by unfold NonNegBars; infer_instance

/-- every bar of the grid has positive length -/
def PosBars (ppqn : Int) (sigs : List Msg) : Prop :=
  0 < barCapacity ppqn 4 4 ∧ ∀ m ∈ sigs, 0 < barCapacity ppqn m.num m.den

instance (ppqn : Int) (sigs : List Msg) : Decidable (PosBars ppqn sigs) := by unfold PosBars; infer_instance

/-- bounded search along the grid: is `t` one of the next `fuel` bar starts from `s` on?  (stops as soon as the
    grid has passed `t`) -/
def onGridB (ppqn : Int) (sigs : List Msg) : Nat → Int → Int → Bool
  | 0, _, _ => false
  | fuel + 1, s, t => if s = t then true else if t < s then false else onGridB ppqn sigs fuel (gridStep ppqn sigs s) t

/-- decidable variant of `AlignedIn`: the search for the bar index of a change at tick `t` is bounded by `t + 1` steps
    (enough whenever all bar lengths are positive) -/
def AlignedInB (ppqn : Int) (sigs keys : List Msg) : Bool :=
  (sigs ++ keys).all (fun m => onGridB ppqn sigs (m.time.toNat + 1) 0 m.time)

/-! ### basic facts about the grid -/

theorem gridStart_succ (ppqn : Int) (sigs : List Msg) (k : Nat) :
    gridStart ppqn sigs (k + 1) = gridStart ppqn sigs k
      + barCapacity ppqn (C09.sigInForce sigs (gridStart ppqn sigs k)).1 (C09.sigInForce sigs (gridStart ppqn sigs k)).2 := rfl

theorem onGridB_sound (ppqn : Int) (sigs : List Msg) : ∀ (fuel k : Nat) (t : Int),
    onGridB ppqn sigs fuel (gridStart ppqn sigs k) t = true → OnGrid ppqn sigs t := by
  intro fuel
  induction fuel with
  | zero => intro k t h; simp [onGridB] at h
  | succ fuel ih =>
    intro k t h
    simp only [onGridB] at h
    split at h
    · rename_i he; exact ⟨k, he.symm⟩
    · split at h
      · cases h
      · exact ih (k + 1) t h

theorem alignedIn_of_B (ppqn : Int) (sigs keys : List Msg) (h : AlignedInB ppqn sigs keys = true) :
    AlignedIn ppqn sigs keys := by
  unfold AlignedInB at h
  rw [List.all_eq_true] at h
  exact ⟨fun m hm => onGridB_sound ppqn sigs _ 0 _ (h m (List.mem_append_left _ hm)),
    fun m hm => onGridB_sound ppqn sigs _ 0 _ (h m (List.mem_append_right _ hm))⟩

theorem sigInForce_cap_nonneg (ppqn : Int) (sigs : List Msg) (h : NonNegBars ppqn sigs) (t : Int) :
    0 ≤ barCapacity ppqn (C09.sigInForce sigs t).1 (C09.sigInForce sigs t).2 := by
  unfold C09.sigInForce
  cases hl : (sigs.filter (fun m => decide (m.time ≤ t))).getLast? with
  | none => exact h.1
  | some m =>
    have hm : m ∈ sigs.filter (fun m => decide (m.time ≤ t)) := List.mem_of_getLast? hl
    exact h.2 m (List.mem_filter.1 hm).1

theorem sigInForce_cap_pos (ppqn : Int) (sigs : List Msg) (h : PosBars ppqn sigs) (t : Int) :
    0 < barCapacity ppqn (C09.sigInForce sigs t).1 (C09.sigInForce sigs t).2 := by
  unfold C09.sigInForce
  cases hl : (sigs.filter (fun m => decide (m.time ≤ t))).getLast? with
  | none => exact h.1
  | some m =>
    have hm : m ∈ sigs.filter (fun m => decide (m.time ≤ t)) := List.mem_of_getLast? hl
    exact h.2 m (List.mem_filter.1 hm).1

theorem PosBars.nonneg {ppqn : Int} {sigs : List Msg} (h : PosBars ppqn sigs) : NonNegBars ppqn sigs :=
  ⟨Int.le_of_lt h.1, fun m hm => Int.le_of_lt (h.2 m hm)⟩

theorem gridStart_step_le (ppqn : Int) (sigs : List Msg) (h : NonNegBars ppqn sigs) (k : Nat) :
    gridStart ppqn sigs k ≤ gridStart ppqn sigs (k + 1) := by
  rw [gridStart_succ]
  have := sigInForce_cap_nonneg ppqn sigs h (gridStart ppqn sigs k)
  omega

theorem mono_of_step (G : Nat → Int) (h : ∀ k, G k ≤ G (k + 1)) : ∀ i j, i ≤ j → G i ≤ G j := by
  intro i j hij
  induction j with
  | zero =>
    have : i = 0 := by omega
    subst this; exact Int.le_refl _
  | succ j ih =>
    rcases Nat.lt_or_ge i (j + 1) with h1 | h1
    · have := ih (by omega)
      have := h j
      omega
    · have : i = j + 1 := by omega
      subst this; exact Int.le_refl _

theorem gridStart_mono (ppqn : Int) (sigs : List Msg) (h : NonNegBars ppqn sigs) (i j : Nat) (hij : i ≤ j) :
    gridStart ppqn sigs i ≤ gridStart ppqn sigs j :=
  mono_of_step _ (gridStart_step_le ppqn sigs h) i j hij

/-- on a monotone grid, a grid point strictly after `G k` is at or after `G (k+1)` -/
theorem grid_next (G : Nat → Int) (h : ∀ k, G k ≤ G (k + 1)) (k j : Nat) (hlt : G k < G j) : G (k + 1) ≤ G j := by
  rcases Nat.lt_or_ge k j with h1 | h1
  · exact mono_of_step G h (k + 1) j h1
  · have := mono_of_step G h j k h1
    omega

/-- with positive bar lengths the bounded search is complete: a grid point `t = gridStart j` at or after the current
    bar `k` is found within `t - gridStart k + 1` steps -/
theorem onGridB_complete (ppqn : Int) (sigs : List Msg) (hpos : PosBars ppqn sigs) : ∀ (fuel k j : Nat),
    k ≤ j → (gridStart ppqn sigs j - gridStart ppqn sigs k).toNat < fuel →
    onGridB ppqn sigs fuel (gridStart ppqn sigs k) (gridStart ppqn sigs j) = true := by
  intro fuel
  induction fuel with
  | zero => intro k j _ h; omega
  | succ fuel ih =>
    intro k j hkj hf
    simp only [onGridB]
    split
    · rfl
    · rename_i hne
      have hkj' : k + 1 ≤ j := by
        rcases Nat.lt_or_ge k j with h | h
        · exact h
        · have : k = j := by omega
          subst this; exact absurd rfl hne
      have hm := gridStart_mono ppqn sigs hpos.nonneg (k + 1) j hkj'
      have hs : gridStart ppqn sigs k < gridStart ppqn sigs (k + 1) := by
        rw [gridStart_succ]
        have := sigInForce_cap_pos ppqn sigs hpos (gridStart ppqn sigs k)
        omega
      rw [if_neg (by omega)]
      exact ih (k + 1) j hkj' (by omega)

/-- with positive bar lengths `AlignedInB` decides `AlignedIn` -/
theorem alignedInB_iff (ppqn : Int) (sigs keys : List Msg) (hpos : PosBars ppqn sigs) :
    AlignedInB ppqn sigs keys = true ↔ AlignedIn ppqn sigs keys := by
  refine ⟨alignedIn_of_B ppqn sigs keys, ?_⟩
  rintro ⟨h1, h2⟩
  unfold AlignedInB
  rw [List.all_eq_true]
  intro m hm
  obtain ⟨j, hj⟩ : OnGrid ppqn sigs m.time := by
    rcases List.mem_append.1 hm with hm | hm
    · exact h1 m hm
    · exact h2 m hm
  rw [hj]
  exact onGridB_complete ppqn sigs hpos _ 0 j (Nat.zero_le _) (by simp [gridStart])

/-! ### the queue discipline against a grid -/

/-- the value in force at tick `t` according to the change events `q`, `cur0` before any -/
def inForce {α} (val : Msg → α) (cur0 : α) (q : List Msg) (t : Int) : α :=
  match (q.filter (fun m => decide (m.time ≤ t))).getLast? with
  | some m => val m
  | Option.none => cur0

theorem sigInForce_eq (sigs : List Msg) (t : Int) :
    C09.sigInForce sigs t = inForce (fun m => (m.num, m.den)) (4, 4) sigs t := rfl

theorem keyInForce_eq (keys : List Msg) (t : Int) :
    C09.keyInForce keys t = inForce (fun m => m.key) pyNone keys t := rfl

/-- state of a change queue before round `k`: the events are split into the consumed ones (all due) and the pending
    queue, the current value is that of the last consumed one, and at most the head of the queue is due -/
structure QInv {α} (val : Msg → α) (cur0 : α) (G : Nat → Int) (q0 : List Msg) (k : Nat) (cur : α) (q : List Msg) : Prop where
  parts : ∃ done, q0 = done ++ q ∧ (∀ m ∈ done, m.time ≤ G k) ∧
    cur = (match done.getLast? with | some m => val m | Option.none => cur0)
  later : ∀ m ∈ q.tail, G k < m.time

theorem filter_le_eq_self (l : List Msg) (t : Int) (h : ∀ m ∈ l, m.time ≤ t) :
    l.filter (fun m => decide (m.time ≤ t)) = l := by
  rw [List.filter_eq_self]
  intro m hm
  simpa using h m hm

theorem filter_le_eq_nil (l : List Msg) (t : Int) (h : ∀ m ∈ l, t < m.time) :
    l.filter (fun m => decide (m.time ≤ t)) = [] := by
  rw [List.filter_eq_nil_iff]
  intro m hm
  have := h m hm
  simp only [decide_eq_true_eq]
  omega

/-- **one look-up on the grid**: the value chosen in round `k` is the one in force at the bar start `G k`, and the
    invariant holds again before round `k + 1` -/
theorem qstep {α} (val : Msg → α) (cur0 : α) (G : Nat → Int) (hG : ∀ k, G k ≤ G (k + 1)) (q0 : List Msg)
    (hd : DistinctTicks q0) (hal : ∀ m ∈ q0, ∃ j, m.time = G j) (k : Nat) (cur : α) (q : List Msg)
    (h : QInv val cur0 G q0 k cur q) :
    (nextQ val (G k) cur q).1 = inForce val cur0 q0 (G k) ∧
      QInv val cur0 G q0 (k + 1) (nextQ val (G k) cur q).1 (nextQ val (G k) cur q).2 := by
  obtain ⟨⟨done, hsplit, hdone, hcur⟩, hlater⟩ := h
  have hstep := hG k
  have hdone' : ∀ m ∈ done, m.time ≤ G (k + 1) := fun m hm => by have := hdone m hm; omega
  cases q with
  | nil =>
    simp only [List.append_nil] at hsplit
    subst hsplit
    refine ⟨?_, ⟨⟨q0, by simp [nextQ], hdone', hcur⟩, by simp [nextQ]⟩⟩
    simp only [nextQ, inForce, filter_le_eq_self q0 (G k) hdone]
    exact hcur
  | cons m rest =>
    have hpw : (m :: rest).Pairwise (fun a b => a.time < b.time) := by
      have : (done ++ m :: rest).Pairwise (fun a b => a.time < b.time) := hsplit ▸ hd
      exact (List.pairwise_append.1 this).2.1
    have hrest : ∀ x ∈ rest, m.time < x.time := (List.pairwise_cons.1 hpw).1
    have hpw' : rest.Pairwise (fun a b => a.time < b.time) := (List.pairwise_cons.1 hpw).2
    simp only [List.tail_cons] at hlater
    by_cases hdue : m.time ≤ G k
    · have hq : nextQ val (G k) cur (m :: rest) = (val m, rest) := by simp [nextQ, hdue]
      rw [hq]
      refine ⟨?_, ⟨⟨done ++ [m], by simp [hsplit], ?_, by simp⟩, ?_⟩⟩
      · simp only [inForce, hsplit, List.filter_append, List.filter_cons]
        rw [filter_le_eq_self done (G k) hdone, filter_le_eq_nil rest (G k) hlater]
        simp [hdue]
      · intro x hx
        rcases List.mem_append.1 hx with hx | hx
        · exact hdone' x hx
        · simp only [List.mem_singleton] at hx
          subst hx; omega
      · -- the next pending event is on a later grid point; whatever follows it is later still
        intro x hx
        cases rest with
        | nil => simp at hx
        | cons r rt =>
          simp only [List.tail_cons] at hx
          have hr : G k < r.time := hlater r List.mem_cons_self
          obtain ⟨j, hj⟩ := hal r (by rw [hsplit]; simp)
          have h1 : G (k + 1) ≤ r.time := by rw [hj] at hr ⊢; exact grid_next G hG k j hr
          have h2 : r.time < x.time := (List.pairwise_cons.1 hpw').1 x hx
          omega
    · have hq : nextQ val (G k) cur (m :: rest) = (cur, m :: rest) := by simp [nextQ, hdue]
      rw [hq]
      have hm1 : G k < m.time := by omega
      obtain ⟨j, hj⟩ := hal m (by rw [hsplit]; simp)
      have h1 : G (k + 1) ≤ m.time := by rw [hj] at hm1 ⊢; exact grid_next G hG k j hm1
      refine ⟨?_, ⟨⟨done, hsplit, hdone', hcur⟩, ?_⟩⟩
      · simp only [inForce, hsplit, List.filter_append]
        rw [filter_le_eq_self done (G k) hdone,
          filter_le_eq_nil (m :: rest) (G k) (by
            intro x hx
            rcases List.mem_cons.1 hx with rfl | hx
            · exact hm1
            · have := hrest x hx; omega)]
        simp only [List.append_nil]
        exact hcur
      · intro x hx
        simp only [List.tail_cons] at hx
        have := hrest x hx
        omega

/-- the invariant holds before round 0 -/
theorem qinv_init {α} (val : Msg → α) (cur0 : α) (G : Nat → Int) (hG : ∀ k, G k ≤ G (k + 1)) (q0 : List Msg)
    (hd : DistinctTicks q0) (hal : ∀ m ∈ q0, ∃ j, m.time = G j) : QInv val cur0 G q0 0 cur0 q0 := by
  refine ⟨⟨[], by simp, by simp, rfl⟩, ?_⟩
  intro x hx
  cases q0 with
  | nil => simp at hx
  | cons m rest =>
    simp only [List.tail_cons] at hx
    obtain ⟨j, hj⟩ := hal m List.mem_cons_self
    have h0 : G 0 ≤ G j := mono_of_step G hG 0 j (Nat.zero_le _)
    have := (List.pairwise_cons.1 hd).1 x hx
    omega

/-! ### the schedule of the loop is the grid schedule -/

/-- **signatures along the grid**: started before round `k` on the bar start `gridStart k` with the signature queue in
    order, the loop's control picks the signature in force at `gridStart (k + i)` in its `i`-th round (whatever the keys do) -/
theorem ctl_sig_grid (ppqn : Int) (sigs : List Msg) (hnn : NonNegBars ppqn sigs) (hd : DistinctTicks sigs)
    (hal : ∀ m ∈ sigs, OnGrid ppqn sigs m.time) : ∀ (r k : Nat) (num den key : Int) (tsQ ksQ : List Msg),
    QInv (fun m : Msg => (m.num, m.den)) (4, 4) (gridStart ppqn sigs) sigs k (num, den) tsQ →
    ∀ (i : Nat) (g : Sg), (ctl ppqn r (gridStart ppqn sigs k) num den key tsQ ksQ)[i]? = some g →
      (g.1, g.2.1) = C09.sigInForce sigs (gridStart ppqn sigs (k + i)) := by
  intro r
  induction r with
  | zero => intro k num den key tsQ ksQ _ i g h; simp [ctl] at h
  | succ r ih =>
    intro k num den key tsQ ksQ hinv i g h
    obtain ⟨hv, hinv'⟩ := qstep (fun m : Msg => (m.num, m.den)) (4, 4) (gridStart ppqn sigs)
      (gridStart_step_le ppqn sigs hnn) sigs hd hal k (num, den) tsQ hinv
    rw [← sigInForce_eq] at hv
    simp only [ctl, nextSig_eq] at h
    cases i with
    | zero =>
      simp only [List.getElem?_cons_zero, Option.some.injEq] at h
      subst h
      simp only [Nat.add_zero]
      exact hv
    | succ i =>
      simp only [List.getElem?_cons_succ] at h
      have hnow : gridStart ppqn sigs k + sgLen ppqn
          ((nextQ (fun m : Msg => (m.num, m.den)) (gridStart ppqn sigs k) (num, den) tsQ).1.1,
           (nextQ (fun m : Msg => (m.num, m.den)) (gridStart ppqn sigs k) (num, den) tsQ).1.2,
           (nextKey (gridStart ppqn sigs k) key ksQ).1) = gridStart ppqn sigs (k + 1) := by
        rw [gridStart_succ, ← hv]; rfl
      rw [hnow] at h
      have := ih (k + 1) _ _ _ _ _ hinv' i g h
      rw [this]
      congr 2
      omega

/-- **keys along the grid**: if moreover the key queue is in order, the key of round `i` is the one in force at
    `gridStart (k + i)` -/
theorem ctl_key_grid (ppqn : Int) (sigs keys : List Msg) (hnn : NonNegBars ppqn sigs) (hd : DistinctTicks sigs)
    (hal : ∀ m ∈ sigs, OnGrid ppqn sigs m.time) (hdk : DistinctTicks keys) (halk : ∀ m ∈ keys, OnGrid ppqn sigs m.time) :
    ∀ (r k : Nat) (num den key : Int) (tsQ ksQ : List Msg),
    QInv (fun m : Msg => (m.num, m.den)) (4, 4) (gridStart ppqn sigs) sigs k (num, den) tsQ →
    QInv (fun m : Msg => m.key) pyNone (gridStart ppqn sigs) keys k key ksQ →
    ∀ (i : Nat) (g : Sg), (ctl ppqn r (gridStart ppqn sigs k) num den key tsQ ksQ)[i]? = some g →
      g.2.2 = C09.keyInForce keys (gridStart ppqn sigs (k + i)) := by
  intro r
  induction r with
  | zero => intro k num den key tsQ ksQ _ _ i g h; simp [ctl] at h
  | succ r ih =>
    intro k num den key tsQ ksQ hinv hinvk i g h
    obtain ⟨hv, hinv'⟩ := qstep (fun m : Msg => (m.num, m.den)) (4, 4) (gridStart ppqn sigs)
      (gridStart_step_le ppqn sigs hnn) sigs hd hal k (num, den) tsQ hinv
    obtain ⟨hvk, hinvk'⟩ := qstep (fun m : Msg => m.key) pyNone (gridStart ppqn sigs)
      (gridStart_step_le ppqn sigs hnn) keys hdk halk k key ksQ hinvk
    rw [← sigInForce_eq] at hv
    rw [← keyInForce_eq] at hvk
    simp only [ctl, nextSig_eq, nextKey_eq] at h
    cases i with
    | zero =>
      simp only [List.getElem?_cons_zero, Option.some.injEq] at h
      subst h
      simp only [Nat.add_zero]
      exact hvk
    | succ i =>
      simp only [List.getElem?_cons_succ] at h
      have hnow : gridStart ppqn sigs k + sgLen ppqn
          ((nextQ (fun m : Msg => (m.num, m.den)) (gridStart ppqn sigs k) (num, den) tsQ).1.1,
           (nextQ (fun m : Msg => (m.num, m.den)) (gridStart ppqn sigs k) (num, den) tsQ).1.2,
           (nextQ (fun m : Msg => m.key) (gridStart ppqn sigs k) key ksQ).1) = gridStart ppqn sigs (k + 1) := by
        rw [gridStart_succ, ← hv]; rfl
      rw [hnow] at h
      have := ih (k + 1) _ _ _ _ _ hinv' hinvk' i g h
      rw [this]
      congr 2
      omega

/-! ### the initial signature queue (`[4/4 @ 0]` when the meta track has no signature) -/

theorem sigInForce_default (t : Int) : C09.sigInForce [Msg.mkTimeSig 0 4 4 0] t = (4, 4) := by
  unfold C09.sigInForce
  rw [List.filter_cons, List.filter_nil]
  generalize decide ((Msg.mkTimeSig 0 4 4 0).time ≤ t) = c
  cases c <;> rfl

theorem sigInForce_initTs (metaTrack : List Msg) (t : Int) :
    C09.sigInForce (initTs metaTrack) t = C09.sigInForce (timesOfType .timeSignature (toAbs metaTrack)) t := by
  unfold initTs
  split
  · rename_i hz
    have hnil : timesOfType .timeSignature (toAbs metaTrack) = [] := by simpa using hz
    rw [hnil, sigInForce_default]
    rfl
  · rfl

theorem gridStart_congr (ppqn : Int) (a b : List Msg) (h : ∀ t, C09.sigInForce a t = C09.sigInForce b t) :
    ∀ k, gridStart ppqn a k = gridStart ppqn b k := by
  intro k
  induction k with
  | zero => rfl
  | succ k ih => rw [gridStart_succ, gridStart_succ, ih, h]

theorem gridStart_initTs (ppqn : Int) (metaTrack : List Msg) (k : Nat) :
    gridStart ppqn (initTs metaTrack) k = gridStart ppqn (timesOfType .timeSignature (toAbs metaTrack)) k :=
  gridStart_congr ppqn _ _ (sigInForce_initTs metaTrack) k

/-- the hypotheses on the meta track's signatures carry over to the queue the loop starts with -/
theorem initTs_hyps (ppqn : Int) (metaTrack : List Msg)
    (hnn : NonNegBars ppqn (timesOfType .timeSignature (toAbs metaTrack)))
    (hd : DistinctTicks (timesOfType .timeSignature (toAbs metaTrack)))
    (hal : ∀ m ∈ timesOfType .timeSignature (toAbs metaTrack),
      OnGrid ppqn (timesOfType .timeSignature (toAbs metaTrack)) m.time) :
    NonNegBars ppqn (initTs metaTrack) ∧ DistinctTicks (initTs metaTrack) ∧
      ∀ m ∈ initTs metaTrack, OnGrid ppqn (initTs metaTrack) m.time := by
  unfold initTs
  split
  · refine ⟨⟨hnn.1, ?_⟩, by simp [DistinctTicks], ?_⟩
    · intro m hm
      simp only [List.mem_singleton] at hm
      subst hm
      exact hnn.1
    · intro m hm
      simp only [List.mem_singleton] at hm
      subst hm
      exact ⟨0, rfl⟩
  · exact ⟨hnn, hd, hal⟩

/-- **the signature schedule of a whole run is the grid schedule** -/
theorem sched_sig (ppqn : Int) (metaTrack : List Msg)
    (hnn : NonNegBars ppqn (timesOfType .timeSignature (toAbs metaTrack)))
    (hd : DistinctTicks (timesOfType .timeSignature (toAbs metaTrack)))
    (hal : ∀ m ∈ timesOfType .timeSignature (toAbs metaTrack),
      OnGrid ppqn (timesOfType .timeSignature (toAbs metaTrack)) m.time)
    (r k : Nat) (g : Sg) (hg : (sched ppqn metaTrack r)[k]? = some g) :
    (g.1, g.2.1) = C09.sigInForce (timesOfType .timeSignature (toAbs metaTrack))
      (gridStart ppqn (timesOfType .timeSignature (toAbs metaTrack)) k) := by
  obtain ⟨h1, h2, h3⟩ := initTs_hyps ppqn metaTrack hnn hd hal
  have hinv := qinv_init (fun m : Msg => (m.num, m.den)) (4, 4) (gridStart ppqn (initTs metaTrack))
    (gridStart_step_le ppqn _ h1) (initTs metaTrack) h2 h3
  have := ctl_sig_grid ppqn (initTs metaTrack) h1 h2 h3 r 0 4 4 pyNone (initTs metaTrack)
    (timesOfType .keySignature (toAbs metaTrack)) hinv k g hg
  rw [Nat.zero_add, sigInForce_initTs, gridStart_initTs] at this
  exact this

/-- **the key schedule of a whole run is the grid schedule** -/
theorem sched_key (ppqn : Int) (metaTrack : List Msg)
    (hnn : NonNegBars ppqn (timesOfType .timeSignature (toAbs metaTrack)))
    (hd : DistinctTicks (timesOfType .timeSignature (toAbs metaTrack)))
    (hal : ∀ m ∈ timesOfType .timeSignature (toAbs metaTrack),
      OnGrid ppqn (timesOfType .timeSignature (toAbs metaTrack)) m.time)
    (hdk : DistinctTicks (timesOfType .keySignature (toAbs metaTrack)))
    (halk : ∀ m ∈ timesOfType .keySignature (toAbs metaTrack),
      OnGrid ppqn (timesOfType .timeSignature (toAbs metaTrack)) m.time)
    (r k : Nat) (g : Sg) (hg : (sched ppqn metaTrack r)[k]? = some g) :
    g.2.2 = C09.keyInForce (timesOfType .keySignature (toAbs metaTrack))
      (gridStart ppqn (timesOfType .timeSignature (toAbs metaTrack)) k) := by
  obtain ⟨h1, h2, h3⟩ := initTs_hyps ppqn metaTrack hnn hd hal
  have hG := gridStart_step_le ppqn _ h1
  have halk' : ∀ m ∈ timesOfType .keySignature (toAbs metaTrack), OnGrid ppqn (initTs metaTrack) m.time := by
    intro m hm
    obtain ⟨j, hj⟩ := halk m hm
    exact ⟨j, by rw [hj, gridStart_initTs]⟩
  have hinv := qinv_init (fun m : Msg => (m.num, m.den)) (4, 4) (gridStart ppqn (initTs metaTrack)) hG
    (initTs metaTrack) h2 h3
  have hinvk := qinv_init (fun m : Msg => m.key) pyNone (gridStart ppqn (initTs metaTrack)) hG
    (timesOfType .keySignature (toAbs metaTrack)) hdk halk'
  have := ctl_key_grid ppqn (initTs metaTrack) (timesOfType .keySignature (toAbs metaTrack)) h1 h2 h3 hdk halk'
    r 0 4 4 pyNone (initTs metaTrack) (timesOfType .keySignature (toAbs metaTrack)) hinv hinvk k g hg
  rw [Nat.zero_add, gridStart_initTs] at this
  exact this

/-- the time-signature events of a track, timed (read through the absolute view, as the implementation does) -/
abbrev sigsOf (metaTrack : List Msg) : List Msg := timesOfType .timeSignature (toAbs metaTrack)

/-- the key-signature events of a track, timed -/
abbrev keysOf (metaTrack : List Msg) : List Msg := timesOfType .keySignature (toAbs metaTrack)

/-- every bar of a successful run sits in the schedule of the meta track -/
theorem bar_in_sched (ppqn : Int) (values : List Int) (tracks : List (List Msg)) (metaIdx : Nat) (requant : Bool)
    (tb : List (List Bar)) (h : splitBars ppqn values tracks metaIdx requant = .ok tb)
    (metaTrack : List Msg) (hm : tracks[metaIdx]? = some metaTrack) (i k : Nat) (b : Bar)
    (hb : C09.barAt tb i k = some b) :
    ∃ r, (sched ppqn metaTrack (r + 1))[k]? = some (b.num, b.den, b.key) := by
  obtain ⟨mT, r, hm', hl, hall, _⟩ := splitBars_run ppqn values tracks metaIdx requant tb h
  rw [hm] at hm'
  cases hm'
  unfold C09.barAt at hb
  cases hbs : tb[i]? with
  | none => simp [hbs] at hb
  | some bs =>
    simp only [hbs, Option.bind_eq_bind, Option.bind_some] at hb
    have hi : i < tracks.length := by rw [← hl]; exact lt_of_getElem?_some hbs
    obtain ⟨tw, t', nb, hrun, htb, _⟩ := hall i _ (getElem?_some_of_lt hi)
    rw [hbs] at htb
    cases htb
    have hs := trackRun_sigs ppqn values requant _ _ _ _ _ hrun
    refine ⟨r, ?_⟩
    rw [← hs, List.getElem?_map, hb]
    rfl

/-! ### evaluation helpers for the kernel-checked witnesses -/

def outOf (e : Except Err (List (List Bar))) : List (List Bar) := match e with | .ok tb => tb | .error _ => []
def isOk (e : Except Err (List (List Bar))) : Bool := match e with | .ok _ => true | .error _ => false
def errOf (e : Except Err (List (List Bar))) : Option Err := match e with | .ok _ => none | .error x => some x
def barOr (o : Option Bar) : Bar := match o with | some b => b | Option.none => ⟨[], 0, 0, 0⟩

theorem eq_ok_outOf (e : Except Err (List (List Bar))) (h : isOk e = true) : e = .ok (outOf e) := by
  cases e with
  | ok tb => rfl
  | error x => simp [isOk] at h

theorem eq_error_of (e : Except Err (List (List Bar))) (x : Err) (h : errOf e = some x) : e = .error x := by
  cases e with
  | ok tb => simp [errOf] at h
  | error y => simp only [errOf, Option.some.injEq] at h; rw [h]


/-! ## Helper lemmas for `Props/Strong589B.lean`, part 5: what the key queue does *without* any hypothesis on the key
    events (audit item A6(d), "two changes on one bar start").
    The queue is popped at most once per bar, so the key carried by bar `k` is the `lagCount k`-th key event, where
    `lagCount k = min (lagCount (k-1) + 1) (number of key events at or before gridStart k)`.
-/

/-! ### spec definitions -/

/-- how many of the change events `q` have happened at or before tick `t` -/
def dueCount (q : List Msg) (t : Int) : Nat := (q.filter (fun m => decide (m.time ≤ t))).length

/-- how many change events have been delivered *before* bar `k` when at most one is delivered per bar, and how many
    once bar `k` has had its turn -/
def lagCount (q : List Msg) (G : Nat → Int) : Nat → Nat
  | 0 => min 1 (dueCount q (G 0))
  | k + 1 => min (lagCount q G k + 1) (dueCount q (G (k + 1)))

def lagBefore (q : List Msg) (G : Nat → Int) : Nat → Nat
  | 0 => 0
  | k + 1 => lagCount q G k

/-- the value after `c` deliveries: that of the `c`-th event, `cur0` before any -/
def valAt {α} (val : Msg → α) (cur0 : α) (q : List Msg) : Nat → α
  | 0 => cur0
  | c + 1 => match q[c]? with | some m => val m | Option.none => cur0

/-- the events are in time order (not necessarily strictly) -/
def TimeOrdered (q : List Msg) : Prop := q.Pairwise (fun a b => a.time ≤ b.time)

theorem lagCount_eq (q : List Msg) (G : Nat → Int) (k : Nat) :
    lagCount q G k = min (lagBefore q G k + 1) (dueCount q (G k)) := by
  cases k <;> rfl

theorem dueCount_cons (x : Msg) (xs : List Msg) (t : Int) :
    dueCount (x :: xs) t = (if x.time ≤ t then 1 else 0) + dueCount xs t := by
  unfold dueCount
  rw [List.filter_cons]
  by_cases h : x.time ≤ t
  · simp [h]; omega
  · simp [h]

theorem dueCount_mono (q : List Msg) (t t' : Int) (h : t ≤ t') : dueCount q t ≤ dueCount q t' := by
  induction q with
  | nil => simp [dueCount]
  | cons x xs ih =>
    rw [dueCount_cons, dueCount_cons]
    by_cases h1 : x.time ≤ t
    · have : x.time ≤ t' := by omega
      simp [h1, this]; exact ih
    · simp only [h1, if_false]
      split <;> omega

theorem dueCount_le_length (q : List Msg) (t : Int) : dueCount q t ≤ q.length := List.length_filter_le _ _

/-- in a time-ordered list the events at or before `t` are exactly the first `dueCount` ones -/
theorem due_iff (l : List Msg) (hs : TimeOrdered l) (t : Int) : ∀ (c : Nat) (m : Msg), l[c]? = some m →
    (m.time ≤ t ↔ c < dueCount l t) := by
  induction l with
  | nil => intro c m h; simp at h
  | cons x xs ih =>
    intro c m h
    have hx : ∀ y ∈ xs, x.time ≤ y.time := (List.pairwise_cons.1 hs).1
    have hs' : TimeOrdered xs := (List.pairwise_cons.1 hs).2
    rw [dueCount_cons]
    by_cases h1 : x.time ≤ t
    · simp only [h1, if_true]
      cases c with
      | zero =>
        simp only [List.getElem?_cons_zero, Option.some.injEq] at h
        subst h
        constructor
        · intro _; omega
        · intro _; exact h1
      | succ c =>
        simp only [List.getElem?_cons_succ] at h
        rw [ih hs' c m h]
        omega
    · have hnil : dueCount xs t = 0 := by
        unfold dueCount
        rw [filter_le_eq_nil xs t (fun y hy => by have := hx y hy; omega)]
        rfl
      simp only [h1, if_false, hnil]
      cases c with
      | zero =>
        simp only [List.getElem?_cons_zero, Option.some.injEq] at h
        subst h
        constructor
        · intro h2; exact absurd h2 h1
        · intro h2; omega
      | succ c =>
        simp only [List.getElem?_cons_succ] at h
        have := hx m (List.mem_of_getElem? h)
        constructor
        · intro h2; omega
        · intro h2; omega

/-! ### the queue, one delivery per bar -/

/-- state of a change queue before round `k`, with no hypothesis on distinctness or alignment -/
structure LInv {α} (val : Msg → α) (cur0 : α) (G : Nat → Int) (q0 : List Msg) (k : Nat) (cur : α) (q : List Msg) : Prop where
  parts : ∃ done, q0 = done ++ q ∧ done.length = lagBefore q0 G k
  cur_eq : cur = valAt val cur0 q0 (lagBefore q0 G k)

theorem lagBefore_le_due (q0 : List Msg) (G : Nat → Int) (hG : ∀ k, G k ≤ G (k + 1)) (k : Nat) :
    lagBefore q0 G k ≤ dueCount q0 (G k) := by
  cases k with
  | zero => exact Nat.zero_le _
  | succ k =>
    show lagCount q0 G k ≤ _
    rw [lagCount_eq]
    have := dueCount_mono q0 (G k) (G (k + 1)) (hG k)
    omega

/-- **one look-up**: round `k` delivers the `lagCount k`-th event -/
theorem lstep {α} (val : Msg → α) (cur0 : α) (G : Nat → Int) (hG : ∀ k, G k ≤ G (k + 1)) (q0 : List Msg)
    (hs : TimeOrdered q0) (k : Nat) (cur : α) (q : List Msg) (h : LInv val cur0 G q0 k cur q) :
    (nextQ val (G k) cur q).1 = valAt val cur0 q0 (lagCount q0 G k) ∧
      LInv val cur0 G q0 (k + 1) (nextQ val (G k) cur q).1 (nextQ val (G k) cur q).2 := by
  obtain ⟨⟨done, hsplit, hlen⟩, hcur⟩ := h
  have hle := lagBefore_le_due q0 G hG k
  have hlag := lagCount_eq q0 G k
  cases q with
  | nil =>
    simp only [List.append_nil] at hsplit
    subst hsplit
    have hdl := dueCount_le_length q0 (G k)
    have hc : lagCount q0 G k = lagBefore q0 G k := by omega
    have hq : nextQ val (G k) cur ([] : List Msg) = (cur, []) := rfl
    rw [hq]
    refine ⟨by rw [hc]; exact hcur, ⟨⟨q0, by simp, ?_⟩, ?_⟩⟩
    · show _ = lagCount q0 G k
      omega
    · show _ = valAt val cur0 q0 (lagCount q0 G k)
      rw [hc]; exact hcur
  | cons m rest =>
    have hm : q0[lagBefore q0 G k]? = some m := by
      have : q0[done.length]? = some m := by
        rw [hsplit, List.getElem?_append_right (Nat.le_refl _)]
        simp
      rw [hlen] at this
      exact this
    have hdue := due_iff q0 hs (G k) _ m hm
    by_cases hd : m.time ≤ G k
    · have hq : nextQ val (G k) cur (m :: rest) = (val m, rest) := by simp [nextQ, hd]
      have hc : lagCount q0 G k = lagBefore q0 G k + 1 := by
        have := hdue.1 hd
        omega
      rw [hq]
      have hv : val m = valAt val cur0 q0 (lagCount q0 G k) := by
        rw [hc]
        simp only [valAt, hm]
      refine ⟨hv, ⟨⟨done ++ [m], by simp [hsplit], ?_⟩, ?_⟩⟩
      · show _ = lagCount q0 G k
        simp [hlen, hc]
      · show _ = valAt val cur0 q0 (lagCount q0 G k)
        exact hv
    · have hq : nextQ val (G k) cur (m :: rest) = (cur, m :: rest) := by simp [nextQ, hd]
      have hc : lagCount q0 G k = lagBefore q0 G k := by
        have : ¬ lagBefore q0 G k < dueCount q0 (G k) := fun h' => hd (hdue.2 h')
        omega
      rw [hq]
      refine ⟨by rw [hc]; exact hcur, ⟨⟨done, hsplit, ?_⟩, ?_⟩⟩
      · show _ = lagCount q0 G k
        omega
      · show _ = valAt val cur0 q0 (lagCount q0 G k)
        rw [hc]; exact hcur

theorem linv_init {α} (val : Msg → α) (cur0 : α) (G : Nat → Int) (q0 : List Msg) : LInv val cur0 G q0 0 cur0 q0 :=
  ⟨⟨[], by simp, rfl⟩, rfl⟩

/-- **keys along the grid, no hypothesis on the keys**: the key of round `i` is the `lagCount`-th key event -/
theorem ctl_key_lag (ppqn : Int) (sigs keys : List Msg) (hnn : NonNegBars ppqn sigs) (hd : DistinctTicks sigs)
    (hal : ∀ m ∈ sigs, OnGrid ppqn sigs m.time) (hs : TimeOrdered keys) :
    ∀ (r k : Nat) (num den key : Int) (tsQ ksQ : List Msg),
    QInv (fun m : Msg => (m.num, m.den)) (4, 4) (gridStart ppqn sigs) sigs k (num, den) tsQ →
    LInv (fun m : Msg => m.key) pyNone (gridStart ppqn sigs) keys k key ksQ →
    ∀ (i : Nat) (g : Sg), (ctl ppqn r (gridStart ppqn sigs k) num den key tsQ ksQ)[i]? = some g →
      g.2.2 = valAt (fun m : Msg => m.key) pyNone keys (lagCount keys (gridStart ppqn sigs) (k + i)) := by
  intro r
  induction r with
  | zero => intro k num den key tsQ ksQ _ _ i g h; simp [ctl] at h
  | succ r ih =>
    intro k num den key tsQ ksQ hinv hinvk i g h
    obtain ⟨hv, hinv'⟩ := qstep (fun m : Msg => (m.num, m.den)) (4, 4) (gridStart ppqn sigs)
      (gridStart_step_le ppqn sigs hnn) sigs hd hal k (num, den) tsQ hinv
    obtain ⟨hvk, hinvk'⟩ := lstep (fun m : Msg => m.key) pyNone (gridStart ppqn sigs)
      (gridStart_step_le ppqn sigs hnn) keys hs k key ksQ hinvk
    rw [← sigInForce_eq] at hv
    simp only [ctl, nextSig_eq, nextKey_eq] at h
    cases i with
    | zero =>
      simp only [List.getElem?_cons_zero, Option.some.injEq] at h
      subst h
      simp only [Nat.add_zero]
      exact hvk
    | succ i =>
      simp only [List.getElem?_cons_succ] at h
      have hnow : gridStart ppqn sigs k + sgLen ppqn
          ((nextQ (fun m : Msg => (m.num, m.den)) (gridStart ppqn sigs k) (num, den) tsQ).1.1,
           (nextQ (fun m : Msg => (m.num, m.den)) (gridStart ppqn sigs k) (num, den) tsQ).1.2,
           (nextQ (fun m : Msg => m.key) (gridStart ppqn sigs k) key ksQ).1) = gridStart ppqn sigs (k + 1) := by
        rw [gridStart_succ, ← hv]; rfl
      rw [hnow] at h
      have := ih (k + 1) _ _ _ _ _ hinv' hinvk' i g h
      rw [this]
      congr 2
      omega

/-- the key events of any track come out of the absolute view in time order -/
theorem keysOf_ordered (metaTrack : List Msg) : TimeOrdered (keysOf metaTrack) := by
  unfold keysOf timesOfType TimeOrdered
  rw [toAbs_eq]
  split
  · exact (sortAbs_pairwise _).filter _
  · rw [filter_insort _ _ _ (by simp [Msg.mkInternal])]
    exact (sortAbs_pairwise _).filter _

/-- **the key schedule of a whole run, no hypothesis on the keys** -/
theorem sched_key_lag (ppqn : Int) (metaTrack : List Msg)
    (hnn : NonNegBars ppqn (sigsOf metaTrack)) (hd : DistinctTicks (sigsOf metaTrack))
    (hal : ∀ m ∈ sigsOf metaTrack, OnGrid ppqn (sigsOf metaTrack) m.time)
    (r k : Nat) (g : Sg) (hg : (sched ppqn metaTrack r)[k]? = some g) :
    g.2.2 = valAt (fun m : Msg => m.key) pyNone (keysOf metaTrack)
      (lagCount (keysOf metaTrack) (gridStart ppqn (sigsOf metaTrack)) k) := by
  obtain ⟨h1, h2, h3⟩ := initTs_hyps ppqn metaTrack hnn hd hal
  have hG := gridStart_step_le ppqn _ h1
  have hinv := qinv_init (fun m : Msg => (m.num, m.den)) (4, 4) (gridStart ppqn (initTs metaTrack)) hG
    (initTs metaTrack) h2 h3
  have hinvk := linv_init (fun m : Msg => m.key) pyNone (gridStart ppqn (initTs metaTrack)) (keysOf metaTrack)
  have := ctl_key_lag ppqn (initTs metaTrack) (keysOf metaTrack) h1 h2 h3 (keysOf_ordered metaTrack)
    r 0 4 4 pyNone (initTs metaTrack) (keysOf metaTrack) hinv hinvk k g hg
  rw [Nat.zero_add] at this
  rw [this]
  have hfun : gridStart ppqn (initTs metaTrack) = gridStart ppqn (sigsOf metaTrack) :=
    funext (gridStart_initTs ppqn metaTrack)
  rw [hfun]

/-! ### no lag = the value in force -/

theorem filter_le_eq_take (l : List Msg) (hs : TimeOrdered l) (t : Int) :
    l.filter (fun m => decide (m.time ≤ t)) = l.take (dueCount l t) := by
  induction l with
  | nil => rfl
  | cons x xs ih =>
    have hx : ∀ y ∈ xs, x.time ≤ y.time := (List.pairwise_cons.1 hs).1
    have hs' : TimeOrdered xs := (List.pairwise_cons.1 hs).2
    rw [dueCount_cons]
    by_cases h1 : x.time ≤ t
    · rw [List.filter_cons, if_pos (by simpa using h1), if_pos h1, Nat.add_comm, List.take_succ_cons, ih hs']
    · have hnil : xs.filter (fun m => decide (m.time ≤ t)) = [] :=
        filter_le_eq_nil xs t (fun y hy => by have := hx y hy; omega)
      have h0 : dueCount xs t = 0 := by unfold dueCount; rw [hnil]; rfl
      rw [List.filter_cons, if_neg (by simpa using h1), if_neg h1, hnil, h0]
      rfl

/-- after as many deliveries as there are due events, the value is the one in force -/
theorem valAt_due (val : Msg → α) (cur0 : α) (q : List Msg) (hs : TimeOrdered q) (t : Int) :
    valAt val cur0 q (dueCount q t) = inForce val cur0 q t := by
  unfold inForce
  rw [filter_le_eq_take q hs t]
  have hle := dueCount_le_length q t
  cases hc : dueCount q t with
  | zero => simp [valAt]
  | succ c =>
    rw [hc] at hle
    simp only [valAt]
    rw [List.getLast?_eq_getElem?, List.length_take, Nat.min_eq_left hle, Nat.add_sub_cancel,
      List.getElem?_take_of_lt (Nat.lt_succ_self c)]
    all_goals (cases q[c]? <;> rfl)

/-! ### the change events in `Roll` terms -/

/-- with non-negative waits and pairwise distinct ticks, the timed change events the implementation reads through the
    absolute view are just the events of that type of the `Roll` semantics, in order -/
theorem timesOfType_roll (ty : MType) (hty : ty ≠ .internal) (r : List Msg)
    (hd : DistinctTicks ((eventsRel r).filter (·.ty == ty))) :
    timesOfType ty (toAbs r) = (eventsRel r).filter (·.ty == ty) := by
  have hks : KSorted ((eventsRel r).filter (·.ty == ty)) :=
    List.Pairwise.imp (fun h => keyLe_of_lt h) hd
  unfold timesOfType
  rw [toAbs_eq]
  split
  · rw [filter_sortAbs, sortAbs_of_ksorted _ hks]
  · rw [filter_insort _ _ _ (by
      simp only [Msg.mkInternal, beq_eq_false_iff_ne, ne_eq]
      exact fun h => hty h.symm),
      filter_sortAbs, sortAbs_of_ksorted _ hks]

/-! ### all tracks empty -/

/-- positive bars along the schedule -/
theorem sched_pos (ppqn : Int) (metaTrack : List Msg) (hpos : PosBars ppqn (sigsOf metaTrack))
    (hd : DistinctTicks (sigsOf metaTrack)) (hal : ∀ m ∈ sigsOf metaTrack, OnGrid ppqn (sigsOf metaTrack) m.time)
    (r : Nat) : ∀ g ∈ sched ppqn metaTrack r, 0 < sgLen ppqn g := by
  intro g hg
  obtain ⟨k, hk, rfl⟩ := List.getElem_of_mem hg
  have := sched_sig ppqn metaTrack hpos.nonneg hd hal r k _ (List.getElem?_eq_getElem hk)
  have hc := sigInForce_cap_pos ppqn _ hpos (gridStart ppqn (sigsOf metaTrack) k)
  rw [← this] at hc
  exact hc

/-- if every track has duration 0 (and bars have positive length), a successful run has exactly one round -/
theorem one_round_of_empty (ppqn : Int) (values : List Int) (tracks : List (List Msg)) (metaIdx : Nat) (requant : Bool)
    (tb : List (List Bar)) (h : splitBars ppqn values tracks metaIdx requant = .ok tb)
    (metaTrack : List Msg) (hm : tracks[metaIdx]? = some metaTrack) (hpos : PosBars ppqn (sigsOf metaTrack))
    (hd : DistinctTicks (sigsOf metaTrack)) (hal : ∀ m ∈ sigsOf metaTrack, OnGrid ppqn (sigsOf metaTrack) m.time)
    (hw : ∀ t ∈ tracks, NonNegWaits t) (h0 : ∀ t ∈ tracks, durRel t = 0) :
    tb.length = tracks.length ∧ ∀ bs ∈ tb, bs.length = 1 := by
  obtain ⟨mT, r, hm', hl, hall, hex⟩ := splitBars_run ppqn values tracks metaIdx requant tb h
  rw [hm] at hm'
  cases hm'
  have hgpos := sched_pos ppqn metaTrack hpos hd hal (r + 1)
  have hr : r = 0 := by
    rcases Nat.eq_zero_or_pos r with h1 | h1
    · exact h1
    · exfalso
      obtain ⟨i, t, tw, t', nb, hit, hrun, hflag⟩ := hex 0 h1
      have ht : t ∈ tracks := List.mem_of_getElem? hit
      have := (trackRun_flags ppqn values requant _ _ _ _ _ hrun hgpos (hw t ht) 0 true hflag).1 rfl
      have hk : 0 < (sched ppqn metaTrack (r + 1)).length := by rw [sched_length]; omega
      have hp : psum ppqn (sched ppqn metaTrack (r + 1)) (0 + 1)
          = psum ppqn (sched ppqn metaTrack (r + 1)) 0 + sgLen ppqn (sched ppqn metaTrack (r + 1))[0] :=
        psum_succ ppqn _ 0 _ (List.getElem?_eq_getElem hk)
      rw [hp, psum_zero, h0 t ht] at this
      have := hgpos _ (List.getElem_mem hk)
      omega
  subst hr
  refine ⟨hl, ?_⟩
  intro bs hbs
  obtain ⟨i, hi, rfl⟩ := List.getElem_of_mem hbs
  have hi' : i < tracks.length := by omega
  obtain ⟨tw, t', nb, hrun, htb, _⟩ := hall i _ (List.getElem?_eq_getElem hi')
  rw [List.getElem?_eq_getElem hi] at htb
  cases htb
  have := (trackRun_shape ppqn values requant _ _ _ _ _ hrun).2.1
  rw [sched_length] at this
  exact this

end SCoda.Strong589LB
