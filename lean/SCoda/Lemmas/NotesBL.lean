/-
  Helper lemmas for `Props/NotesB` (audit items A11, A16 and the last bullet of section C):

  * abstract note lists: `Sep` (per key the intervals are positive and disjoint), `Covers`, and the
    uniqueness lemmas `off_unique` / `perm_of_spec` / `shapes_perm_of_spec`
    (separated + same cover + same onsets ⇒ same notes);
  * the per-key view of a well-formed timed event list (`key_view`): its note events of one key are
    `on₁, off₁, on₂, off₂, …` and its notes of that key are the pairs `(onᵢ, offᵢ)`;
  * `notes_spec`: the notes of a well-formed, time-sorted event list with positive durations are
    separated, cover exactly the sounding set, and start exactly at the note-on messages.
-/
import SCoda.Lemmas.NotesL
import SCoda.Lemmas.Merge
namespace SCoda.NotesBL
open SCoda SCoda.NotesL

/-! ### abstract note lists -/

/-- the `(channel, pitch)` key of a note -/
def nkeyN (n : Note) : Int × Int := (n.ch, n.pitch)

/-- tick `t` lies in the interval of note `n`, which has key `k` -/
def Covers (n : Note) (k : Int × Int) (t : Int) : Prop := nkeyN n = k ∧ n.on ≤ t ∧ t < n.off

/-- what starts a note: channel, pitch, onset, velocity -/
def onAttr (n : Note) : Int × Int × Int × Int := (n.ch, n.pitch, n.on, n.vel)
/-- what ends a note: channel, pitch, end -/
def offAttr (n : Note) : Int × Int × Int := (n.ch, n.pitch, n.off)
/-- a note without its velocity: channel, pitch, onset, end -/
def shape (n : Note) : Int × Int × Int × Int := (n.ch, n.pitch, n.on, n.off)

/-- a list of notes is *separated*: every note lasts at least one tick, two different notes of one
    key never overlap (they may touch), and no note is listed twice -/
structure Sep (S : List Note) : Prop where
  pos : ∀ n ∈ S, n.on < n.off
  disj : ∀ n ∈ S, ∀ n' ∈ S, n ≠ n' → nkeyN n = nkeyN n' → n.off ≤ n'.on ∨ n'.off ≤ n.on
  nodup : S.Nodup

theorem note_ext {n n' : Note} (h1 : n.ch = n'.ch) (h2 : n.pitch = n'.pitch) (h3 : n.on = n'.on)
    (h4 : n.off = n'.off) (h5 : n.vel = n'.vel) : n = n' := by
  cases n; cases n'; simp_all

private theorem off_not_lt (X S : List Note) (hX : Sep X) (hS : Sep S)
    (hcov : ∀ k t, (∃ n ∈ X, Covers n k t) → (∃ n ∈ S, Covers n k t))
    (hon : ∀ k s, (∃ n ∈ S, nkeyN n = k ∧ n.on = s) → (∃ n ∈ X, nkeyN n = k ∧ n.on = s))
    {n n' : Note} (hn : n ∈ X) (hn' : n' ∈ S) (hk : nkeyN n = nkeyN n') (ho : n.on = n'.on) :
    ¬ n'.off < n.off := by
  intro hlt
  have hp' := hS.pos n' hn'
  -- the end of `n'` is still covered in `X`, hence in `S`
  obtain ⟨m, hm, hmk, hm1, hm2⟩ := hcov (nkeyN n) n'.off ⟨n, hn, rfl, by omega, hlt⟩
  have hmn : m ≠ n' := by intro e; subst e; omega
  rcases hS.disj m hm n' hn' hmn (hmk.trans hk) with h | h
  · omega
  · -- so a note of `S` starts there; then one of `X` does too, inside `n`
    have hmo : m.on = n'.off := by omega
    obtain ⟨m', hm', hm'k, hm'o⟩ := hon (nkeyN n) n'.off ⟨m, hm, hmk, hmo⟩
    have hp := hX.pos m' hm'
    have hne : m' ≠ n := by intro e; subst e; omega
    rcases hX.disj m' hm' n hn hne hm'k with h | h <;> omega

/-- **the end of a note is determined** by separation, the covered ticks and the onsets -/
theorem off_unique (X S : List Note) (hX : Sep X) (hS : Sep S)
    (hcov : ∀ k t, (∃ n ∈ X, Covers n k t) ↔ (∃ n ∈ S, Covers n k t))
    (hon : ∀ k s, (∃ n ∈ X, nkeyN n = k ∧ n.on = s) ↔ (∃ n ∈ S, nkeyN n = k ∧ n.on = s))
    {n n' : Note} (hn : n ∈ X) (hn' : n' ∈ S) (hk : nkeyN n = nkeyN n') (ho : n.on = n'.on) :
    n.off = n'.off := by
  have h1 := off_not_lt X S hX hS (fun k t => (hcov k t).1) (fun k s => (hon k s).2) hn hn' hk ho
  have h2 := off_not_lt S X hS hX (fun k t => (hcov k t).2) (fun k s => (hon k s).1) hn' hn hk.symm ho.symm
  omega

/-- separated + same covered ticks + same (key, onset, velocity) triples ⇒ the same notes -/
theorem perm_of_spec (X S : List Note) (hX : Sep X) (hS : Sep S)
    (hcov : ∀ k t, (∃ n ∈ X, Covers n k t) ↔ (∃ n ∈ S, Covers n k t))
    (hattr : ∀ α, α ∈ X.map onAttr ↔ α ∈ S.map onAttr) : X.Perm S := by
  have hon : ∀ k s, (∃ n ∈ X, nkeyN n = k ∧ n.on = s) ↔ (∃ n ∈ S, nkeyN n = k ∧ n.on = s) := by
    intro k s
    constructor
    · rintro ⟨n, hn, h1, h2⟩
      obtain ⟨n', hn', he⟩ := List.mem_map.1 ((hattr _).1 (List.mem_map.2 ⟨n, hn, rfl⟩))
      simp only [onAttr, Prod.mk.injEq] at he
      exact ⟨n', hn', by simp only [nkeyN, he.1, he.2.1]; exact h1, by omega⟩
    · rintro ⟨n, hn, h1, h2⟩
      obtain ⟨n', hn', he⟩ := List.mem_map.1 ((hattr _).2 (List.mem_map.2 ⟨n, hn, rfl⟩))
      simp only [onAttr, Prod.mk.injEq] at he
      exact ⟨n', hn', by simp only [nkeyN, he.1, he.2.1]; exact h1, by omega⟩
  rw [List.perm_ext_iff_of_nodup hX.nodup hS.nodup]
  intro n
  constructor
  · intro hn
    obtain ⟨n', hn', he⟩ := List.mem_map.1 ((hattr _).1 (List.mem_map.2 ⟨n, hn, rfl⟩))
    simp only [onAttr, Prod.mk.injEq] at he
    have hoff := off_unique X S hX hS hcov hon hn hn' (by simp [nkeyN, he.1, he.2.1]) he.2.2.1.symm
    rw [note_ext he.1.symm he.2.1.symm he.2.2.1.symm hoff he.2.2.2.symm]
    exact hn'
  · intro hn
    obtain ⟨n', hn', he⟩ := List.mem_map.1 ((hattr _).2 (List.mem_map.2 ⟨n, hn, rfl⟩))
    simp only [onAttr, Prod.mk.injEq] at he
    have hoff := off_unique X S hX hS hcov hon hn' hn (by simp [nkeyN, he.1, he.2.1]) he.2.2.1
    rw [← note_ext he.1 he.2.1 he.2.2.1 hoff he.2.2.2]
    exact hn'

theorem sep_shape_nodup (X : List Note) (hX : Sep X) : (X.map shape).Nodup := by
  rw [List.nodup_iff_pairwise_ne, List.pairwise_map]
  have h := List.nodup_iff_pairwise_ne.1 hX.nodup
  have hall : X.Pairwise (fun a b => a ∈ X ∧ b ∈ X) := by
    rw [List.pairwise_iff_forall_sublist]
    intro a b hab
    exact ⟨hab.subset (by simp), hab.subset (by simp)⟩
  refine (h.and hall).imp ?_
  rintro a b ⟨hne, ha, hb⟩ he
  simp only [shape, Prod.mk.injEq] at he
  have := hX.pos a ha
  have := hX.pos b hb
  rcases hX.disj a ha b hb hne (by simp [nkeyN, he.1, he.2.1]) with h | h <;> omega

/-- separated + same covered ticks + same (key, onset) pairs ⇒ the same note shapes
    (channel, pitch, onset, end) -/
theorem shapes_perm_of_spec (X S : List Note) (hX : Sep X) (hS : Sep S)
    (hcov : ∀ k t, (∃ n ∈ X, Covers n k t) ↔ (∃ n ∈ S, Covers n k t))
    (hon : ∀ k s, (∃ n ∈ X, nkeyN n = k ∧ n.on = s) ↔ (∃ n ∈ S, nkeyN n = k ∧ n.on = s)) :
    (X.map shape).Perm (S.map shape) := by
  rw [List.perm_ext_iff_of_nodup (sep_shape_nodup X hX) (sep_shape_nodup S hS)]
  intro s
  constructor
  · intro hs
    obtain ⟨n, hn, rfl⟩ := List.mem_map.1 hs
    obtain ⟨n', hn', h1, h2⟩ := (hon _ _).1 ⟨n, hn, rfl, rfl⟩
    have hoff := off_unique X S hX hS hcov hon hn hn' h1.symm h2.symm
    simp only [nkeyN, Prod.mk.injEq] at h1
    exact List.mem_map.2 ⟨n', hn', by simp [shape, h1.1, h1.2, h2, hoff]⟩
  · intro hs
    obtain ⟨n, hn, rfl⟩ := List.mem_map.1 hs
    obtain ⟨n', hn', h1, h2⟩ := (hon _ _).2 ⟨n, hn, rfl, rfl⟩
    have hoff := off_unique X S hX hS hcov hon hn' hn h1 h2
    simp only [nkeyN, Prod.mk.injEq] at h1
    exact List.mem_map.2 ⟨n', hn', by simp [shape, h1.1, h1.2, h2, hoff]⟩

/-! ### the per-key view of a well-formed event list -/

/-- the note events `on₁, off₁, on₂, off₂, …` of a list of (note-on, note-off) pairs -/
def unpair (P : List (Msg × Msg)) : List Msg := P.flatMap (fun p => [p.1, p.2])

theorem unpair_cons (p : Msg × Msg) (P : List (Msg × Msg)) : unpair (p :: P) = p.1 :: p.2 :: unpair P := by
  simp [unpair]

/-- a note-on and a note-off of key `k` -/
structure GoodPair (k : Int × Int) (p : Msg × Msg) : Prop where
  on : p.1.ty = .noteOn
  off : p.2.ty = .noteOff
  k1 : p.1.nkey = k
  k2 : p.2.nkey = k

theorem key_struct (k : Int × Int) : ∀ lk : List Msg, (∀ x ∈ lk, isKN k x = true) → altFrom k false lk →
    ∃ P : List (Msg × Msg), lk = unpair P ∧ ∀ p ∈ P, GoodPair k p := by
  apply NotesL.pair_induction
  · intro _ _
    exact ⟨[], rfl, by simp⟩
  · intro x hk halt
    exfalso
    obtain ⟨hx, hty⟩ := (NotesL.isKN_iff k x).1 (hk x (by simp))
    rcases hty with hty | hty
    · have := NotesL.altFrom_on halt hty
      rw [if_pos hx] at this
      simp [altFrom] at this
    · have := NotesL.altFrom_off halt hty
      rw [if_pos hx] at this
      simp at this
  · intro x y l ih hk halt
    obtain ⟨hx, htx⟩ := (NotesL.isKN_iff k x).1 (hk x (by simp))
    obtain ⟨hy, hty⟩ := (NotesL.isKN_iff k y).1 (hk y (by simp))
    have hxon : x.ty = .noteOn := by
      rcases htx with h | h
      · exact h
      · have := NotesL.altFrom_off halt h
        rw [if_pos hx] at this
        simp at this
    have halt1 : altFrom k true (y :: l) := by
      have := NotesL.altFrom_on halt hxon
      rw [if_pos hx] at this
      exact this.2
    have hyoff : y.ty = .noteOff := by
      rcases hty with h | h
      · have := NotesL.altFrom_on halt1 h
        rw [if_pos hy] at this
        simp at this
      · exact h
    have halt2 : altFrom k false l := by
      have := NotesL.altFrom_off halt1 hyoff
      rw [if_pos hy] at this
      exact this.2
    obtain ⟨P, hP, hg⟩ := ih (fun z hz => hk z (by simp [hz])) halt2
    refine ⟨(x, y) :: P, by rw [unpair_cons, ← hP], ?_⟩
    intro p hp
    rcases List.mem_cons.1 hp with rfl | hp
    · exact ⟨hxon, hyoff, hx, hy⟩
    · exact hg p hp

theorem notesGo_unpair (k : Int × Int) : ∀ P : List (Msg × Msg), (∀ p ∈ P, GoodPair k p) →
    notesGo (unpair P) [] = P.map NotesL.mkNote := by
  intro P
  induction P with
  | nil => intro _; rfl
  | cons p P ih =>
    intro hg
    have g := hg p (by simp)
    have hf : [p.1].find? (fun o => o.nkey == p.2.nkey) = some p.1 := by
      simp [g.k1, g.k2]
    have hfil : [p.1].filter (fun o => o.nkey != p.2.nkey) = [] := by
      simp [g.k1, g.k2]
    rw [unpair_cons, MergeL.notesGo_on g.on, List.filter_nil,
      MergeL.notesGo_off_some g.off _ _ hf, hfil, ih (fun q hq => hg q (List.mem_cons_of_mem _ hq))]
    rfl

/-- **per-key view**: in a well-formed list the note events of key `k` are `on₁, off₁, on₂, off₂, …`
    and the notes of key `k` are the pairs `(onᵢ, offᵢ)` -/
theorem key_view (x : List Msg) (hwf : WF x) (k : Int × Int) :
    ∃ P : List (Msg × Msg), x.filter (isKN k) = unpair P ∧ (∀ p ∈ P, GoodPair k p) ∧
      (notesOf x).filter (fun n => decide ((n.ch, n.pitch) = k)) = P.map NotesL.mkNote := by
  obtain ⟨P, hP, hg⟩ := key_struct k (x.filter (isKN k)) (fun m hm => (List.mem_filter.1 hm).2)
    ((altFrom_filter_kn k x false).2 (hwf k))
  refine ⟨P, hP, hg, ?_⟩
  have := NotesL.notesGo_proj k x []
  simp only [List.filter_nil] at this
  rw [notesOf, this, hP, notesGo_unpair k P hg]

theorem mem_unpair {P : List (Msg × Msg)} {m : Msg} : m ∈ unpair P ↔ ∃ p ∈ P, m = p.1 ∨ m = p.2 := by
  simp only [unpair, List.mem_flatMap, List.mem_cons, List.not_mem_nil, or_false]

/-- what time-sortedness says about the pairs -/
theorem unpair_sorted_cons {p : Msg × Msg} {P : List (Msg × Msg)} (hs : MergeL.Sorted (unpair (p :: P))) :
    p.1.time ≤ p.2.time ∧ (∀ e ∈ unpair P, p.2.time ≤ e.time) ∧ MergeL.Sorted (unpair P) := by
  rw [unpair_cons] at hs
  unfold MergeL.Sorted at hs ⊢
  rw [List.pairwise_cons, List.pairwise_cons] at hs
  exact ⟨hs.1 _ (by simp), hs.2.1, hs.2.2⟩

theorem filter_upTo_nil (t : Int) (l : List Msg) (h : ∀ e ∈ l, t < e.time) :
    l.filter (fun m => decide (m.time ≤ t)) = [] := by
  rw [List.filter_eq_nil_iff]
  intro e he
  have := h e he
  simp; omega

/-- the sounding set of the per-key list is the union of the pairs' intervals -/
theorem sounding_unpair (k : Int × Int) : ∀ P : List (Msg × Msg), (∀ p ∈ P, GoodPair k p) →
    MergeL.Sorted (unpair P) → ∀ t, (SoundingAt (unpair P) k t ↔ ∃ p ∈ P, p.1.time ≤ t ∧ t < p.2.time) := by
  intro P
  induction P with
  | nil => intro _ _ t; simp [SoundingAt, unpair, depth]
  | cons p P ih =>
    intro hg hs t
    have g := hg p (by simp)
    obtain ⟨h12, hrest, hs'⟩ := unpair_sorted_cons hs
    have ih' := ih (fun q hq => hg q (List.mem_cons_of_mem _ hq)) hs' t
    have hmem : ∀ q ∈ P, p.2.time ≤ q.1.time := fun q hq => hrest _ (mem_unpair.2 ⟨q, hq, Or.inl rfl⟩)
    simp only [SoundingAt] at ih' ⊢
    rw [unpair_cons]
    by_cases c1 : p.1.time ≤ t
    · by_cases c2 : p.2.time ≤ t
      · -- both events count; the depth is that of the rest
        simp only [List.filter_cons, c1, c2, decide_true, if_true]
        rw [MergeL.depth_cons_on ⟨g.k1, g.on⟩, MergeL.depth_cons_off ⟨g.k2, g.off⟩]
        simp only [Nat.zero_add, Nat.sub_self]
        rw [ih']
        constructor
        · rintro ⟨q, hq, h⟩
          exact ⟨q, List.mem_cons_of_mem _ hq, h⟩
        · rintro ⟨q, hq, h⟩
          rcases List.mem_cons.1 hq with rfl | hq
          · omega
          · exact ⟨q, hq, h⟩
      · -- only the note-on counts
        have hnil := filter_upTo_nil t (unpair P) (fun e he => by have := hrest e he; omega)
        simp only [List.filter_cons, c1, c2, decide_true, decide_false, if_true, hnil, Bool.false_eq_true, if_false]
        rw [MergeL.depth_cons_on ⟨g.k1, g.on⟩]
        simp only [depth]
        constructor
        · intro _
          exact ⟨p, by simp, c1, by omega⟩
        · intro _; omega
    · have c2 : ¬ p.2.time ≤ t := by omega
      have hnil := filter_upTo_nil t (unpair P) (fun e he => by have := hrest e he; omega)
      simp only [List.filter_cons, c1, c2, decide_false, hnil, Bool.false_eq_true, if_false]
      simp only [depth]
      constructor
      · intro h; omega
      · rintro ⟨q, hq, h⟩
        rcases List.mem_cons.1 hq with rfl | hq
        · omega
        · have := hmem q hq; omega

/-! ### the notes of a well-formed, time-sorted list -/

theorem sounding_key (x : List Msg) (k : Int × Int) (t : Int) :
    SoundingAt x k t ↔ SoundingAt (x.filter (isKN k)) k t := by
  simp only [SoundingAt]
  rw [List.filter_filter]
  have : (fun a => decide (a.time ≤ t) && isKN k a) = (fun a => isKN k a && decide (a.time ≤ t)) := by
    funext a; exact Bool.and_comm _ _
  rw [this, ← List.filter_filter, depth_filter_kn]

theorem mem_notes_key {x : List Msg} {n : Note} {k : Int × Int} :
    n ∈ (notesOf x).filter (fun n => decide ((n.ch, n.pitch) = k)) ↔ n ∈ notesOf x ∧ nkeyN n = k := by
  simp [List.mem_filter, nkeyN]

theorem chain_of_sorted : ∀ P : List (Msg × Msg), MergeL.Sorted (unpair P) →
    P.Pairwise (fun p q => p.2.time ≤ q.1.time) := by
  intro P
  induction P with
  | nil => intro _; exact List.Pairwise.nil
  | cons p P ih =>
    intro hs
    obtain ⟨_, hrest, hs'⟩ := unpair_sorted_cons hs
    exact List.pairwise_cons.2 ⟨fun q hq => hrest _ (mem_unpair.2 ⟨q, hq, Or.inl rfl⟩), ih hs'⟩

theorem pairwise_mem {α} {R : α → α → Prop} {L : List α} (h : L.Pairwise R) {a b : α} (ha : a ∈ L) (hb : b ∈ L) :
    a = b ∨ R a b ∨ R b a := by
  induction L with
  | nil => cases ha
  | cons c L ih =>
    rw [List.pairwise_cons] at h
    rcases List.mem_cons.1 ha with ha' | ha'
    · rcases List.mem_cons.1 hb with hb' | hb'
      · exact Or.inl (ha'.trans hb'.symm)
      · exact Or.inr (Or.inl (ha' ▸ h.1 b hb'))
    · rcases List.mem_cons.1 hb with hb' | hb'
      · exact Or.inr (Or.inr (hb' ▸ h.1 a ha'))
      · exact ih h.2 ha' hb'

/-- the per-key view with what time-sortedness and positive durations add -/
structure KView (x : List Msg) (k : Int × Int) (P : List (Msg × Msg)) : Prop where
  ev : x.filter (isKN k) = unpair P
  good : ∀ p ∈ P, GoodPair k p
  notes : (notesOf x).filter (fun n => decide ((n.ch, n.pitch) = k)) = P.map NotesL.mkNote
  sorted : MergeL.Sorted (unpair P)
  chain : (P.map NotesL.mkNote).Pairwise (fun n n' => n.off ≤ n'.on)

theorem kview (x : List Msg) (hwf : WF x) (hs : MergeL.Sorted x) (k : Int × Int) : ∃ P, KView x k P := by
  obtain ⟨P, h1, h2, h3⟩ := key_view x hwf k
  have hs' : MergeL.Sorted (unpair P) := by rw [← h1]; exact List.Pairwise.filter _ hs
  refine ⟨P, h1, h2, h3, hs', ?_⟩
  rw [List.pairwise_map]
  exact chain_of_sorted P hs'

/-- **the notes of an event list, read as intervals**: in a well-formed, time-sorted list whose notes
    all last at least one tick, the notes are separated -/
theorem notes_sep (x : List Msg) (hwf : WF x) (hs : MergeL.Sorted x) (hpd : ∀ n ∈ notesOf x, n.on < n.off) :
    Sep (notesOf x) := by
  refine ⟨hpd, ?_, ?_⟩
  · intro n hn n' hn' hne hk
    obtain ⟨P, V⟩ := kview x hwf hs (nkeyN n)
    have h1 : n ∈ P.map NotesL.mkNote := by rw [← V.notes]; exact mem_notes_key.2 ⟨hn, rfl⟩
    have h2 : n' ∈ P.map NotesL.mkNote := by rw [← V.notes]; exact mem_notes_key.2 ⟨hn', hk.symm⟩
    rcases pairwise_mem V.chain h1 h2 with h | h | h
    · exact absurd h hne
    · exact Or.inl h
    · exact Or.inr h
  · rw [List.nodup_iff_count]
    intro n
    obtain ⟨P, V⟩ := kview x hwf hs (nkeyN n)
    have hc : (notesOf x).count n = (P.map NotesL.mkNote).count n := by
      rw [← V.notes, List.count_filter]
      simp [nkeyN]
    rw [hc]
    have hnd : (P.map NotesL.mkNote).Nodup := by
      rw [List.nodup_iff_pairwise_ne]
      have hall : (P.map NotesL.mkNote).Pairwise (fun a _ => a ∈ notesOf x) := by
        rw [List.pairwise_iff_forall_sublist]
        intro a b hab
        have : a ∈ P.map NotesL.mkNote := hab.subset (by simp)
        rw [← V.notes] at this
        exact (mem_notes_key.1 this).1
      refine (V.chain.and hall).imp ?_
      rintro a b ⟨hle, ha⟩ he
      subst he
      have := hpd a ha
      omega
    exact (List.nodup_iff_count.1 hnd) n

/-- … they cover exactly the sounding set … -/
theorem notes_cover (x : List Msg) (hwf : WF x) (hs : MergeL.Sorted x) (k : Int × Int) (t : Int) :
    SoundingAt x k t ↔ ∃ n ∈ notesOf x, Covers n k t := by
  obtain ⟨P, V⟩ := kview x hwf hs k
  rw [sounding_key, V.ev, sounding_unpair k P V.good V.sorted t]
  constructor
  · rintro ⟨p, hp, h1, h2⟩
    have : NotesL.mkNote p ∈ (notesOf x).filter (fun n => decide ((n.ch, n.pitch) = k)) := by
      rw [V.notes]; exact List.mem_map.2 ⟨p, hp, rfl⟩
    obtain ⟨hm, hk⟩ := mem_notes_key.1 this
    exact ⟨_, hm, hk, h1, h2⟩
  · rintro ⟨n, hn, hk, h1, h2⟩
    have : n ∈ P.map NotesL.mkNote := by rw [← V.notes]; exact mem_notes_key.2 ⟨hn, hk⟩
    obtain ⟨p, hp, rfl⟩ := List.mem_map.1 this
    exact ⟨p, hp, h1, h2⟩

/-- … and they start exactly at the note-on messages (same channel, pitch, tick, velocity) … -/
theorem notes_ons (x : List Msg) (hwf : WF x) (α : Int × Int × Int × Int) :
    α ∈ (notesOf x).map onAttr ↔ ∃ m ∈ x, m.ty = .noteOn ∧ (m.ch, m.note, m.time, m.vel) = α := by
  constructor
  · intro h
    obtain ⟨n, hn, rfl⟩ := List.mem_map.1 h
    obtain ⟨P, h1, h2, h3⟩ := key_view x hwf (nkeyN n)
    have : n ∈ P.map NotesL.mkNote := by rw [← h3]; exact mem_notes_key.2 ⟨hn, rfl⟩
    obtain ⟨p, hp, rfl⟩ := List.mem_map.1 this
    have hm : p.1 ∈ x.filter (isKN (nkeyN (NotesL.mkNote p))) := by
      rw [h1]; exact mem_unpair.2 ⟨p, hp, Or.inl rfl⟩
    exact ⟨p.1, (List.mem_filter.1 hm).1, (h2 p hp).on, rfl⟩
  · rintro ⟨m, hm, hty, rfl⟩
    obtain ⟨P, h1, h2, h3⟩ := key_view x hwf m.nkey
    have hm' : m ∈ unpair P := by
      rw [← h1]; exact List.mem_filter.2 ⟨hm, by simp [isKN, hty]⟩
    obtain ⟨p, hp, he⟩ := mem_unpair.1 hm'
    rcases he with rfl | rfl
    · have : NotesL.mkNote p ∈ (notesOf x).filter (fun n => decide ((n.ch, n.pitch) = p.1.nkey)) := by
        rw [h3]; exact List.mem_map.2 ⟨p, hp, rfl⟩
      exact List.mem_map.2 ⟨_, (mem_notes_key.1 this).1, rfl⟩
    · have := (h2 p hp).off
      rw [hty] at this
      cases this

/-- … and end exactly at the note-off messages -/
theorem notes_offs (x : List Msg) (hwf : WF x) (β : Int × Int × Int) :
    β ∈ (notesOf x).map offAttr ↔ ∃ m ∈ x, m.ty = .noteOff ∧ (m.ch, m.note, m.time) = β := by
  constructor
  · intro h
    obtain ⟨n, hn, rfl⟩ := List.mem_map.1 h
    obtain ⟨P, h1, h2, h3⟩ := key_view x hwf (nkeyN n)
    have : n ∈ P.map NotesL.mkNote := by rw [← h3]; exact mem_notes_key.2 ⟨hn, rfl⟩
    obtain ⟨p, hp, rfl⟩ := List.mem_map.1 this
    have hm : p.2 ∈ x.filter (isKN (nkeyN (NotesL.mkNote p))) := by
      rw [h1]; exact mem_unpair.2 ⟨p, hp, Or.inr rfl⟩
    have g := h2 p hp
    have hk : p.2.nkey = p.1.nkey := g.k2.trans g.k1.symm
    simp only [Msg.nkey, Prod.mk.injEq] at hk
    exact ⟨p.2, (List.mem_filter.1 hm).1, g.off, by simp [offAttr, NotesL.mkNote, hk.1, hk.2]⟩
  · rintro ⟨m, hm, hty, rfl⟩
    obtain ⟨P, h1, h2, h3⟩ := key_view x hwf m.nkey
    have hm' : m ∈ unpair P := by
      rw [← h1]; exact List.mem_filter.2 ⟨hm, by simp [isKN, hty]⟩
    obtain ⟨p, hp, he⟩ := mem_unpair.1 hm'
    rcases he with rfl | rfl
    · have := (h2 p hp).on
      rw [hty] at this
      cases this
    · have g := h2 p hp
      have hk : p.2.nkey = p.1.nkey := g.k2.trans g.k1.symm
      have : NotesL.mkNote p ∈ (notesOf x).filter (fun n => decide ((n.ch, n.pitch) = p.2.nkey)) := by
        rw [h3]; exact List.mem_map.2 ⟨p, hp, rfl⟩
      simp only [Msg.nkey, Prod.mk.injEq] at hk
      exact List.mem_map.2 ⟨_, (mem_notes_key.1 this).1, by simp [offAttr, NotesL.mkNote, hk.1, hk.2]⟩

/-! ### positive durations come for free under the canonical sort -/

theorem pair_rel_of_pairwise {R : Msg → Msg → Prop} : ∀ P : List (Msg × Msg), (unpair P).Pairwise R →
    ∀ p ∈ P, R p.1 p.2 := by
  intro P
  induction P with
  | nil => intro _ p hp; cases hp
  | cons q P ih =>
    intro h p hp
    rw [unpair_cons, List.pairwise_cons, List.pairwise_cons] at h
    rcases List.mem_cons.1 hp with rfl | hp
    · exact h.1 _ (by simp)
    · exact ih h.2.2 p hp

/-- if the note events of every key are in canonical order (note-off before note-on on one tick),
    a well-formed list has no zero-length note -/
theorem posDur_of_kle (x : List Msg) (hwf : WF x) (hk : ∀ k, (x.filter (isKN k)).Pairwise EQ.KLe) :
    ∀ n ∈ notesOf x, n.on < n.off := by
  intro n hn
  obtain ⟨P, h1, h2, h3⟩ := key_view x hwf (nkeyN n)
  have : n ∈ P.map NotesL.mkNote := by rw [← h3]; exact mem_notes_key.2 ⟨hn, rfl⟩
  obtain ⟨p, hp, rfl⟩ := List.mem_map.1 this
  have hkle : EQ.KLe p.1 p.2 := pair_rel_of_pairwise P (by rw [← h1]; exact hk _) p hp
  have g := h2 p hp
  have hkk : p.1.nkey = p.2.nkey := g.k1.trans g.k2.symm
  simp only [Msg.nkey, Prod.mk.injEq] at hkk
  have := (EQ.keyLe_iff p.1 p.2).1 hkle
  simp only [g.on, g.off, MType.rank] at this
  simp only [NotesL.mkNote]
  omega

theorem posDur_of_sorted (x : List Msg) (hwf : WF x) (hk : x.Pairwise EQ.KLe) : ∀ n ∈ notesOf x, n.on < n.off :=
  posDur_of_kle x hwf (fun _ => hk.filter _)

theorem sorted_of_kle {x : List Msg} (hk : x.Pairwise EQ.KLe) : MergeL.Sorted x :=
  hk.imp (fun h => keyLe_time h)

/-! ## C17: the content that `equals` compares -/

/-- a note as `equals` sees it under the flags: the channel flag erases the channel, the velocity flag
    the velocity -/
def eraseN (f : EqFlags) (n : Note) : Note :=
  { n with ch := if f.ignoreCh then 0 else n.ch, vel := if f.ignoreVel then 0 else n.vel }

/-- a time signature as (channel, tick, numerator, denominator) -/
def tsAttr (f : EqFlags) (m : Msg) : Int × Int × Int × Int := (if f.ignoreCh then 0 else m.ch, m.time, m.num, m.den)
/-- a key signature as (channel, tick, key) -/
def ksAttr (f : EqFlags) (m : Msg) : Int × Int × Int := (if f.ignoreCh then 0 else m.ch, m.time, m.key)

def tsValF (f : EqFlags) (m : Msg) : Option (Int × Int × Int × Int) :=
  if m.ty = .timeSignature then some (tsAttr f m) else none
def ksValF (f : EqFlags) (m : Msg) : Option (Int × Int × Int) :=
  if m.ty = .keySignature then some (ksAttr f m) else none

def noteRF (f : EqFlags) (p : Pairing) : Option Note := (toPair p).map (fun q => eraseN f (mkNote q))
def tsRF (f : EqFlags) (p : Pairing) : Option (Int × Int × Int × Int) := (toSingle p).bind (tsValF f)
def ksRF (f : EqFlags) (p : Pairing) : Option (Int × Int × Int) := (toSingle p).bind (ksValF f)

theorem pairEq_closed_f (f : EqFlags) (la lb : List Msg) (x y : Int × Pairing) (h : pairEq f x y = true)
    (hx : Closed la x.1 x.2) (hy : Closed lb y.1 y.2) :
    noteRF f x.2 = noteRF f y.2 ∧ tsRF f x.2 = tsRF f y.2 ∧ ksRF f x.2 = ksRF f y.2 := by
  obtain ⟨c, p⟩ := x
  obtain ⟨c', q⟩ := y
  simp only at hx hy ⊢
  have hch : (if f.ignoreCh = true then (0 : Int) else c) = (if f.ignoreCh = true then 0 else c') := by
    unfold pairEq at h
    cases hf : f.ignoreCh
    · simp only [hf] at h ⊢
      by_cases hc : c = c'
      · simp [hc]
      · simp [hc] at h
    · simp
  rcases hx with ⟨on, off, rfl, a1, a2, a3, a4, _, _⟩ | ⟨m, rfl, a1, a2, a3, _⟩ <;>
  rcases hy with ⟨on', off', rfl, b1, b2, b3, b4, _, _⟩ | ⟨m', rfl, b1, b2, b3, _⟩
  · refine ⟨?_, by simp [tsRF, toSingle], by simp [ksRF, toSingle]⟩
    simp only [noteRF, toPair, Option.map_some, mkNote, eraseN, Option.some.injEq, Note.mk.injEq]
    rw [a4, b4]
    simp [pairEq, a1, b1] at h
    obtain ⟨_, h1, h2, h3⟩ := h
    refine ⟨hch, h2.1, h1, by omega, ?_⟩
    cases hv : f.ignoreVel
    · simp only [hv] at h3 ⊢
      simpa using h3
    · simp
  · simp [pairEq, a1] at h
  · simp [pairEq, a1, b1] at h
  · refine ⟨by simp [noteRF, toPair], ?_, ?_⟩
    · simp only [tsRF, toSingle, a1, b1, if_false, Option.bind_some, tsValF, tsAttr, a3, b3]
      simp [pairEq] at h
      obtain ⟨_, h1, h2, h3⟩ := h
      by_cases ht : m.ty = .timeSignature
      · have ht' : m'.ty = .timeSignature := by rw [← h1]; exact ht
        simp [ht] at h3
        simp [ht, ht', h2, h3, hch]
      · have ht' : ¬ m'.ty = .timeSignature := by rw [← h1]; exact ht
        simp [ht, ht']
    · simp only [ksRF, toSingle, a1, b1, if_false, Option.bind_some, ksValF, ksAttr, a3, b3]
      simp [pairEq] at h
      obtain ⟨_, h1, h2, h3⟩ := h
      by_cases ht : m.ty = .keySignature
      · have ht' : m'.ty = .keySignature := by rw [← h1]; exact ht
        simp [ht] at h3
        simp [ht, ht', h2, h3, hch]
      · have ht' : ¬ m'.ty = .keySignature := by rw [← h1]; exact ht
        simp [ht, ht']

theorem typesOf_on (f : EqFlags) : (EQ.typesOf f).contains .noteOn = true := by
  cases f.ignoreTs <;> cases f.ignoreKs <;> rfl
theorem typesOf_off (f : EqFlags) : (EQ.typesOf f).contains .noteOff = true := by
  cases f.ignoreTs <;> cases f.ignoreKs <;> rfl

/-- `equals = true` ⇒ the same notes and signatures, under any flags (multiset level) -/
theorem sound_core_f (ppqn : Int) (f : EqFlags) (a b : List Msg) (ha : WF (sortAbs a)) (hb : WF (sortAbs b))
    (h : zipAll (pairEq f) (interleaved (EQ.typesOf f) ppqn true a) (interleaved (EQ.typesOf f) ppqn true b) = true) :
    ((pairsGo (sortAbs a) []).map (fun q => eraseN f (mkNote q))).Perm
        ((pairsGo (sortAbs b) []).map (fun q => eraseN f (mkNote q)))
    ∧ ((others (EQ.typesOf f) (sortAbs a)).filterMap (tsValF f)).Perm
        ((others (EQ.typesOf f) (sortAbs b)).filterMap (tsValF f))
    ∧ ((others (EQ.typesOf f) (sortAbs a)).filterMap (ksValF f)).Perm
        ((others (EQ.typesOf f) (sortAbs b)).filterMap (ksValF f)) := by
  generalize hT : EQ.typesOf f = T at h ⊢
  have hon : T.contains .noteOn = true := by rw [← hT]; exact typesOf_on f
  have hoff : T.contains .noteOff = true := by rw [← hT]; exact typesOf_off f
  obtain ⟨a1, a2, a3⟩ := pairingsSorted_sim T hon hoff ppqn (sortAbs a) ha
  obtain ⟨b1, b2, b3⟩ := pairingsSorted_sim T hon hoff ppqn (sortAbs b) hb
  have pa := interleaved_perm T ppqn a
  have pb := interleaved_perm T ppqn b
  have ca : ∀ x ∈ interleaved T ppqn true a, Closed (sortAbs a) x.1 x.2 := by
    intro x hx
    obtain ⟨c, hc, e1, e2⟩ := mem_flat (pa.mem_iff.1 hx)
    rw [e1]; exact a3 c hc _ e2
  have cb : ∀ x ∈ interleaved T ppqn true b, Closed (sortAbs b) x.1 x.2 := by
    intro x hx
    obtain ⟨c, hc, e1, e2⟩ := mem_flat (pb.mem_iff.1 hx)
    rw [e1]; exact b3 c hc _ e2
  have chain : ∀ {β : Type} (g : Pairing → Option β),
      (∀ x ∈ interleaved T ppqn true a, ∀ y ∈ interleaved T ppqn true b,
        pairEq f x y = true → g x.2 = g y.2) →
      ((allP (pairingsSorted T ppqn true (sortAbs a))).filterMap g).Perm
        ((allP (pairingsSorted T ppqn true (sortAbs b))).filterMap g) := by
    intro β g hg
    have e := zipAll_filterMap (pairEq f) (fun x => g x.2) (fun x => g x.2) _ _ h hg
    rw [← filterMap_flat, ← filterMap_flat]
    refine ((pa.filterMap _).symm.trans ?_).trans (pb.filterMap _)
    rw [e]
  have pe := fun x hx y hy hxy => pairEq_closed_f f (sortAbs a) (sortAbs b) x y hxy (ca x hx) (cb y hy)
  refine ⟨?_, ?_, ?_⟩
  · have := chain (noteRF f) (fun x hx y hy hxy => (pe x hx y hy hxy).1)
    have e : ∀ l : List Pairing, l.filterMap (noteRF f) = (l.filterMap toPair).map (fun q => eraseN f (mkNote q)) := by
      intro l; rw [List.map_filterMap]; rfl
    rw [e, e] at this
    exact ((a1.map _).symm.trans this).trans (b1.map _)
  · have := chain (tsRF f) (fun x hx y hy hxy => (pe x hx y hy hxy).2.1)
    have e : ∀ l : List Pairing, l.filterMap (tsRF f) = (l.filterMap toSingle).filterMap (tsValF f) := by
      intro l; rw [List.filterMap_filterMap]; rfl
    rw [e, e] at this
    exact ((a2.filterMap _).symm.trans this).trans (b2.filterMap _)
  · have := chain (ksRF f) (fun x hx y hy hxy => (pe x hx y hy hxy).2.2)
    have e : ∀ l : List Pairing, l.filterMap (ksRF f) = (l.filterMap toSingle).filterMap (ksValF f) := by
      intro l; rw [List.filterMap_filterMap]; rfl
    rw [e, e] at this
    exact ((a2.filterMap _).symm.trans this).trans (b2.filterMap _)

theorem contains_typesOf (f : EqFlags) (t : MType) : (EQ.typesOf f).contains t = (t == .noteOn || t == .noteOff
    || (!f.ignoreTs && t == .timeSignature) || (!f.ignoreKs && t == .keySignature)) := by
  obtain ⟨ic, its, iks, iv⟩ := f
  cases its <;> cases iks <;> cases t <;> rfl

theorem others_cons (T : List MType) (m : Msg) (ms : List Msg) : others T (m :: ms) =
    if (T.contains m.ty && m.ty != .noteOn && m.ty != .noteOff) = true
    then m :: others T ms else others T ms := by simp only [others, List.filter_cons]

theorem others_tsF (f : EqFlags) (l : List Msg) :
    (others (EQ.typesOf f) l).filterMap (tsValF f)
      = if f.ignoreTs then [] else (l.filter (·.ty == .timeSignature)).map (tsAttr f) := by
  induction l with
  | nil => cases f.ignoreTs <;> rfl
  | cons m ms ih =>
    rw [others_cons, contains_typesOf]
    cases hts : f.ignoreTs <;> cases hks : f.ignoreKs <;> cases hty : m.ty <;> simp_all [tsValF]

theorem others_ksF (f : EqFlags) (l : List Msg) :
    (others (EQ.typesOf f) l).filterMap (ksValF f)
      = if f.ignoreKs then [] else (l.filter (·.ty == .keySignature)).map (ksAttr f) := by
  induction l with
  | nil => cases f.ignoreKs <;> rfl
  | cons m ms ih =>
    rw [others_cons, contains_typesOf]
    cases hts : f.ignoreTs <;> cases hks : f.ignoreKs <;> cases hty : m.ty <;> simp_all [ksValF]

/-! ### completeness: the normal form of a compared message -/

/-- a compared message with everything `equals` does not look at erased -/
def normM (f : EqFlags) (m : Msg) : Msg :=
  match m.ty with
  | .noteOn => { ty := .noteOn, ch := m.ch, time := m.time, note := m.note, vel := if f.ignoreVel then 0 else m.vel }
  | .noteOff => { ty := .noteOff, ch := m.ch, time := m.time, note := m.note }
  | .timeSignature => { ty := .timeSignature, ch := m.ch, time := m.time, note := m.note, num := m.num, den := m.den }
  | .keySignature => { ty := .keySignature, ch := m.ch, time := m.time, note := m.note, key := m.key }
  | _ => m

theorem normM_ty (f : EqFlags) (m : Msg) : (normM f m).ty = m.ty := by unfold normM; split <;> simp_all
theorem normM_ch (f : EqFlags) (m : Msg) : (normM f m).ch = m.ch := by unfold normM; split <;> rfl
theorem normM_time (f : EqFlags) (m : Msg) : (normM f m).time = m.time := by unfold normM; split <;> rfl
theorem normM_note (f : EqFlags) (m : Msg) : (normM f m).note = m.note := by unfold normM; split <;> rfl
theorem normM_vel (f : EqFlags) (m : Msg) (h : m.ty = .noteOn) (hv : f.ignoreVel = false) :
    (normM f m).vel = m.vel := by simp [normM, h, hv]
theorem normM_num (f : EqFlags) (m : Msg) (h : m.ty = .timeSignature) : (normM f m).num = m.num := by simp [normM, h]
theorem normM_den (f : EqFlags) (m : Msg) (h : m.ty = .timeSignature) : (normM f m).den = m.den := by simp [normM, h]
theorem normM_key (f : EqFlags) (m : Msg) (h : m.ty = .keySignature) : (normM f m).key = m.key := by simp [normM, h]

theorem relab_normM (f : EqFlags) : EQ.Relab (normM f) id where
  ty := normM_ty f
  ch := normM_ch f
  time := normM_time f
  note := normM_note f
  off := by intro c n t; rfl
  inj := fun _ _ h => h

theorem keyLe_normM (f : EqFlags) (x y : Msg) : keyLe (normM f x) (normM f y) = keyLe x y := by
  apply EQ.keyLe_congr <;> simp only [normM_time, normM_ch, normM_ty, normM_note]

theorem sortAbs_normM (f : EqFlags) (a : List Msg) : sortAbs (a.map (normM f)) = (sortAbs a).map (normM f) := by
  apply EQ.isort_map
  intro x _ y _
  exact keyLe_normM f x y

theorem pairEq_normM (f : EqFlags) (x y : Int × Pairing) :
    pairEq f (EQ.mapOut (normM f) id x) (EQ.mapOut (normM f) id y) = pairEq f x y := by
  obtain ⟨cx, px⟩ := x
  obtain ⟨cy, py⟩ := y
  cases px with
  | nil => simp [pairEq, EQ.mapOut]
  | cons sm srest =>
    cases py with
    | nil => simp [pairEq, EQ.mapOut]
    | cons om orest =>
      simp only [pairEq, EQ.mapOut, id, List.map_cons, normM_ty, normM_time, normM_note]
      by_cases hc : (cx != cy && !f.ignoreCh) = true
      · rw [if_pos hc, if_pos hc]
      · rw [if_neg hc, if_neg hc]
        by_cases hty : (sm.ty != om.ty) = true
        · rw [if_pos hty, if_pos hty]
        · rw [if_neg hty, if_neg hty]
          have hty' : sm.ty = om.ty := by simpa using hty
          by_cases htm : (sm.time != om.time) = true
          · rw [if_pos htm, if_pos htm]
          · rw [if_neg htm, if_neg htm]
            cases hsm : sm.ty <;> simp only []
            · rw [normM_key f sm hsm, normM_key f om (hty' ▸ hsm)]
            · rw [normM_num f sm hsm, normM_num f om (hty' ▸ hsm), normM_den f sm hsm, normM_den f om (hty' ▸ hsm)]
            · cases srest with
              | nil => rfl
              | cons s1 _ =>
                cases orest with
                | nil => rfl
                | cons o1 _ =>
                  simp only [List.map_cons, normM_time]
                  cases hv : f.ignoreVel
                  · rw [normM_vel f sm hsm hv, normM_vel f om (hty' ▸ hsm) hv]
                  · simp

/-! ### a canonically sorted list is determined by its sub-lists of each message type -/

theorem eq_of_sorted_types : ∀ (l l' : List Msg), l.Pairwise EQ.KLe → l'.Pairwise EQ.KLe →
    (∀ τ : MType, l.filter (fun m => m.ty == τ) = l'.filter (fun m => m.ty == τ)) → l = l' := by
  intro l
  induction l with
  | nil =>
    intro l' _ _ h
    cases l' with
    | nil => rfl
    | cons y ys => have := h y.ty; simp at this
  | cons x xs ih =>
    intro l' hs hs' h
    cases l' with
    | nil => have := h x.ty; simp at this
    | cons y ys =>
      rw [List.pairwise_cons] at hs hs'
      have hxy : x = y := by
        by_cases ht : x.ty = y.ty
        · have := h x.ty
          simp only [List.filter_cons, beq_self_eq_true, if_true, ht] at this
          exact (List.cons.inj this).1
        · exfalso
          have hx : x ∈ (y :: ys).filter (fun m => m.ty == x.ty) := by rw [← h x.ty]; simp
          have hy : y ∈ (x :: xs).filter (fun m => m.ty == y.ty) := by rw [h y.ty]; simp
          have hx' : x ∈ ys := by
            rcases List.mem_cons.1 (List.mem_filter.1 hx).1 with e | e
            · exact absurd (e ▸ rfl) ht
            · exact e
          have hy' : y ∈ xs := by
            rcases List.mem_cons.1 (List.mem_filter.1 hy).1 with e | e
            · exact absurd (e ▸ rfl) ht
            · exact e
          have := EQ.keyLe_antisymm (hs.1 y hy') (hs'.1 x hx')
          exact ht (MType.rank_injective this.2.2.1)
      subst hxy
      congr 1
      apply ih ys hs.2 hs'.2
      intro τ
      have := h τ
      by_cases hτ : x.ty = τ
      · simp only [List.filter_cons, hτ, beq_self_eq_true, if_true] at this
        exact (List.cons.inj this).2
      · have hb : (x.ty == τ) = false := by simpa using hτ
        simpa only [List.filter_cons, hb, Bool.false_eq_true, if_false] using this

/-- two lists sorted by a relation whose ties never occur inside a list, with the same members, are equal -/
theorem eq_of_strict_sorted (l l' : List Msg) (hs : l.Pairwise (fun x y => EQ.KLe x y ∧ ¬ EQ.KLe y x))
    (hs' : l'.Pairwise (fun x y => EQ.KLe x y ∧ ¬ EQ.KLe y x)) (hm : ∀ z, z ∈ l ↔ z ∈ l') : l = l' := by
  have refl : ∀ z : Msg, EQ.KLe z z := fun z => by
    rcases EQ.keyLe_total z z with h | h <;> exact h
  have nd : ∀ {L : List Msg}, L.Pairwise (fun x y => EQ.KLe x y ∧ ¬ EQ.KLe y x) → L.Nodup := by
    intro L h
    rw [List.nodup_iff_pairwise_ne]
    refine h.imp ?_
    rintro a b ⟨_, h2⟩ e
    subst e
    exact h2 (refl a)
  apply List.Perm.eq_of_pairwise (le := EQ.KLe) _ (hs.imp (fun h => h.1)) (hs'.imp (fun h => h.1))
  · exact (List.perm_ext_iff_of_nodup (nd hs) (nd hs')).2 hm
  · intro a b ha hb h1 h2
    rcases pairwise_mem hs ha ((hm b).2 hb) with e | e | e
    · exact e
    · exact absurd h2 e.2
    · exact absurd h1 e.2

/-! ### under the canonical sort, note-ons (note-offs) of one key never share a tick -/

theorem kle_on_off_lt {k : Int × Int} {p : Msg × Msg} (g : GoodPair k p) (h : EQ.KLe p.1 p.2) :
    p.1.time < p.2.time := by
  have hkk : p.1.nkey = p.2.nkey := g.k1.trans g.k2.symm
  simp only [Msg.nkey, Prod.mk.injEq] at hkk
  have := (EQ.keyLe_iff p.1 p.2).1 h
  simp only [g.on, g.off, MType.rank] at this
  omega

theorem key_times (l : List Msg) (hwf : WF l) (hs : l.Pairwise EQ.KLe) (k : Int × Int) :
    ∃ P : List (Msg × Msg), l.filter (isKN k) = unpair P ∧ (∀ p ∈ P, GoodPair k p)
      ∧ P.Pairwise (fun p q => p.1.time < q.1.time ∧ p.2.time < q.2.time) := by
  obtain ⟨P, h1, h2, _⟩ := key_view l hwf k
  have hk : (unpair P).Pairwise EQ.KLe := by rw [← h1]; exact hs.filter _
  have hpos : ∀ p ∈ P, p.1.time < p.2.time :=
    fun p hp => kle_on_off_lt (h2 p hp) (pair_rel_of_pairwise P hk p hp)
  have hch := chain_of_sorted P (sorted_of_kle hk)
  refine ⟨P, h1, h2, ?_⟩
  have hall : P.Pairwise (fun a b => a ∈ P ∧ b ∈ P) := by
    rw [List.pairwise_iff_forall_sublist]
    intro a b hab
    exact ⟨hab.subset (by simp), hab.subset (by simp)⟩
  refine (hch.and hall).imp ?_
  rintro a b ⟨h, ha, hb⟩
  have := hpos a ha
  have := hpos b hb
  omega

theorem unpair_filter_on (k : Int × Int) : ∀ P : List (Msg × Msg), (∀ p ∈ P, GoodPair k p) →
    (unpair P).filter (fun m => m.ty == .noteOn) = P.map (·.1) := by
  intro P
  induction P with
  | nil => intro _; rfl
  | cons p P ih =>
    intro hg
    have g := hg p (by simp)
    rw [unpair_cons]
    simp [g.on, g.off, ih (fun q hq => hg q (List.mem_cons_of_mem _ hq))]

theorem unpair_filter_off (k : Int × Int) : ∀ P : List (Msg × Msg), (∀ p ∈ P, GoodPair k p) →
    (unpair P).filter (fun m => m.ty == .noteOff) = P.map (·.2) := by
  intro P
  induction P with
  | nil => intro _; rfl
  | cons p P ih =>
    intro hg
    have g := hg p (by simp)
    rw [unpair_cons]
    simp [g.on, g.off, ih (fun q hq => hg q (List.mem_cons_of_mem _ hq))]

theorem filter_type_key (l : List Msg) (τ : MType) (k : Int × Int) :
    (l.filter (fun m => m.ty == τ)).filter (isKN k) = (l.filter (isKN k)).filter (fun m => m.ty == τ) := by
  rw [List.filter_filter, List.filter_filter]
  congr 1; funext a; exact Bool.and_comm _ _

/-- in a canonically sorted well-formed list, two note-ons (resp. note-offs) never tie in the sort key -/
theorem notes_strict (l : List Msg) (hwf : WF l) (hs : l.Pairwise EQ.KLe) (τ : MType)
    (hτ : τ = .noteOn ∨ τ = .noteOff) :
    (l.filter (fun m => m.ty == τ)).Pairwise (fun x y => EQ.KLe x y ∧ ¬ EQ.KLe y x) := by
  refine (hs.filter _).and ?_
  rw [List.pairwise_iff_forall_sublist]
  intro x y hxy hyx
  have hx : x ∈ l.filter (fun m => m.ty == τ) := hxy.subset (by simp)
  have hy : y ∈ l.filter (fun m => m.ty == τ) := hxy.subset (by simp)
  have hxt : x.ty = τ := by simpa using (List.mem_filter.1 hx).2
  have hyt : y.ty = τ := by simpa using (List.mem_filter.1 hy).2
  have hxle : EQ.KLe x y := (List.pairwise_iff_forall_sublist.1 (hs.filter _)) hxy
  obtain ⟨e1, e2, _, e4⟩ := EQ.keyLe_antisymm hxle hyx
  obtain ⟨P, h1, h2, h3⟩ := key_times l hwf hs x.nkey
  have kx : isKN x.nkey x = true := by
    rcases hτ with h | h <;> simp [isKN, hxt, h]
  have ky : isKN x.nkey y = true := by
    have : y.nkey = x.nkey := by simp [Msg.nkey, e2, e4]
    rcases hτ with h | h <;> simp [isKN, hyt, h, this]
  have hsub : [x, y].Sublist ((l.filter (isKN x.nkey)).filter (fun m => m.ty == τ)) := by
    rw [← filter_type_key]
    have := hxy.filter (isKN x.nkey)
    simpa [List.filter_cons, kx, ky] using this
  rw [h1] at hsub
  rcases hτ with h | h
  · subst h
    rw [unpair_filter_on _ P h2] at hsub
    have hp : (P.map (·.1)).Pairwise (fun a b => a.time < b.time) := by
      rw [List.pairwise_map]; exact h3.imp (fun h => h.1)
    have := (List.pairwise_iff_forall_sublist.1 hp) hsub
    omega
  · subst h
    rw [unpair_filter_off _ P h2] at hsub
    have hp : (P.map (·.2)).Pairwise (fun a b => a.time < b.time) := by
      rw [List.pairwise_map]; exact h3.imp (fun h => h.2)
    have := (List.pairwise_iff_forall_sublist.1 hp) hsub
    omega

/-! ### the content and the completeness of `equals` (channel compared) -/

/-- the notes `equals` compares: the notes of the sorted list with the flagged attributes erased -/
def notesC (f : EqFlags) (a : List Msg) : List Note := (notesOf (sortAbs a)).map (eraseN f)
/-- the time signatures `equals` compares, (channel, tick, numerator, denominator) in canonical order -/
def tsC (f : EqFlags) (a : List Msg) : List (Int × Int × Int × Int) :=
  if f.ignoreTs then [] else ((sortAbs a).filter (fun m => m.ty == .timeSignature)).map (tsAttr f)
/-- the key signatures `equals` compares, (channel, tick, key) in canonical order -/
def ksC (f : EqFlags) (a : List Msg) : List (Int × Int × Int) :=
  if f.ignoreKs then [] else ((sortAbs a).filter (fun m => m.ty == .keySignature)).map (ksAttr f)

/-- signature messages carry no pitch (true of every `Message` built by the library) -/
def SigPlain (a : List Msg) : Prop :=
  ∀ m ∈ a, (m.ty = .timeSignature ∨ m.ty = .keySignature) → m.note = pyNone

instance (a : List Msg) : Decidable (SigPlain a) := by unfold SigPlain; infer_instance

def onMsgN (n : Note) : Msg := { ty := .noteOn, ch := n.ch, time := n.on, note := n.pitch, vel := n.vel }
def offMsgN (n : Note) : Msg := { ty := .noteOff, ch := n.ch, time := n.off, note := n.pitch }
def tsMsgA (x : Int × Int × Int × Int) : Msg := { ty := .timeSignature, ch := x.1, time := x.2.1, num := x.2.2.1, den := x.2.2.2 }
def ksMsgA (x : Int × Int × Int) : Msg := { ty := .keySignature, ch := x.1, time := x.2.1, key := x.2.2 }

theorem filter_cmp_type (T : List MType) (l : List Msg) (τ : MType) :
    (l.filter (fun m => T.contains m.ty)).filter (fun m => m.ty == τ)
      = if T.contains τ then l.filter (fun m => m.ty == τ) else [] := by
  rw [List.filter_filter]
  split
  · rename_i h
    congr 1; funext m
    by_cases hm : m.ty = τ
    · simp only [hm, h, beq_self_eq_true, Bool.and_self]
    · simp [hm]
  · rename_i h
    rw [List.filter_eq_nil_iff]
    intro m _
    by_cases hm : m.ty = τ
    · subst hm; simp only [h, beq_self_eq_true, Bool.and_false]; simp
    · simp [hm]

/-- the normal form with the channel erased when the channel flag is set -/
def normC (f : EqFlags) (m : Msg) : Msg := if f.ignoreCh then { normM f m with ch := 0 } else normM f m

theorem normC_ty (f : EqFlags) (m : Msg) : (normC f m).ty = m.ty := by
  unfold normC; split <;> simp [normM_ty]

theorem normC_of_false (f : EqFlags) (hf : f.ignoreCh = false) : normC f = normM f := by
  funext m; simp [normC, hf]

/-- the compared messages of `a` (those `equals` looks at under the flags) -/
def cmpOf (f : EqFlags) (m : Msg) : Bool := (EQ.typesOf f).contains m.ty

/-- erasing does not disturb the canonical order of the list -/
def KeyPres (f : EqFlags) (l : List Msg) : Prop :=
  ∀ x ∈ l, ∀ y ∈ l, keyLe (normC f x) (normC f y) = keyLe x y

theorem keyPres_of_false (f : EqFlags) (hf : f.ignoreCh = false) (l : List Msg) : KeyPres f l := by
  intro x _ y _
  rw [normC_of_false f hf]
  exact keyLe_normM f x y

theorem keyPres_of_one (f : EqFlags) (l : List Msg) (c : Int) (h : ∀ m ∈ l, m.ch = c) : KeyPres f l := by
  intro x hx y hy
  unfold normC
  split
  · apply EQ.keyLe_congr <;> simp [normM_time, normM_ty, normM_note, h x hx, h y hy]
  · exact keyLe_normM f x y

theorem mem_Lon (f : EqFlags) (a : List Msg) (ha : WF (sortAbs a)) (z : Msg) :
    z ∈ ((sortAbs a).filter (fun m => m.ty == .noteOn)).map (normC f) ↔ ∃ n ∈ notesC f a, onMsgN n = z := by
  constructor
  · intro h
    obtain ⟨m, hm, rfl⟩ := List.mem_map.1 h
    obtain ⟨hm1, hm2⟩ := List.mem_filter.1 hm
    have hty : m.ty = .noteOn := by simpa using hm2
    obtain ⟨n, hn, he⟩ := List.mem_map.1 ((notes_ons (sortAbs a) ha _).2 ⟨m, hm1, hty, rfl⟩)
    simp only [onAttr, Prod.mk.injEq] at he
    refine ⟨eraseN f n, List.mem_map.2 ⟨n, hn, rfl⟩, ?_⟩
    cases hf : f.ignoreCh <;> simp [normC, onMsgN, eraseN, normM, hty, hf, he.1, he.2.1, he.2.2.1, he.2.2.2]
  · rintro ⟨n', hn', rfl⟩
    obtain ⟨n, hn, rfl⟩ := List.mem_map.1 hn'
    obtain ⟨m, hm, hty, he⟩ := (notes_ons (sortAbs a) ha _).1 (List.mem_map.2 ⟨n, hn, rfl⟩)
    simp only [onAttr, Prod.mk.injEq] at he
    refine List.mem_map.2 ⟨m, List.mem_filter.2 ⟨hm, by simp [hty]⟩, ?_⟩
    cases hf : f.ignoreCh <;> simp [normC, onMsgN, eraseN, normM, hty, hf, he.1, he.2.1, he.2.2.1, he.2.2.2]

theorem mem_Loff (f : EqFlags) (a : List Msg) (ha : WF (sortAbs a)) (z : Msg) :
    z ∈ ((sortAbs a).filter (fun m => m.ty == .noteOff)).map (normC f) ↔ ∃ n ∈ notesC f a, offMsgN n = z := by
  constructor
  · intro h
    obtain ⟨m, hm, rfl⟩ := List.mem_map.1 h
    obtain ⟨hm1, hm2⟩ := List.mem_filter.1 hm
    have hty : m.ty = .noteOff := by simpa using hm2
    obtain ⟨n, hn, he⟩ := List.mem_map.1 ((notes_offs (sortAbs a) ha _).2 ⟨m, hm1, hty, rfl⟩)
    simp only [offAttr, Prod.mk.injEq] at he
    refine ⟨eraseN f n, List.mem_map.2 ⟨n, hn, rfl⟩, ?_⟩
    cases hf : f.ignoreCh <;> simp [normC, offMsgN, eraseN, normM, hty, hf, he.1, he.2.1, he.2.2]
  · rintro ⟨n', hn', rfl⟩
    obtain ⟨n, hn, rfl⟩ := List.mem_map.1 hn'
    obtain ⟨m, hm, hty, he⟩ := (notes_offs (sortAbs a) ha _).1 (List.mem_map.2 ⟨n, hn, rfl⟩)
    simp only [offAttr, Prod.mk.injEq] at he
    refine List.mem_map.2 ⟨m, List.mem_filter.2 ⟨hm, by simp [hty]⟩, ?_⟩
    cases hf : f.ignoreCh <;> simp [normC, offMsgN, eraseN, normM, hty, hf, he.1, he.2.1, he.2.2]

theorem strict_map_normC (f : EqFlags) {l : List Msg} (kp : KeyPres f l)
    (h : l.Pairwise (fun x y => EQ.KLe x y ∧ ¬ EQ.KLe y x)) :
    (l.map (normC f)).Pairwise (fun x y => EQ.KLe x y ∧ ¬ EQ.KLe y x) := by
  rw [List.pairwise_map]
  refine h.imp_of_mem ?_
  intro x y hx hy hxy
  simp only [EQ.KLe, kp x hx y hy, kp y hy x hx]
  exact hxy

theorem keyPres_sub (f : EqFlags) {l l' : List Msg} (h : ∀ m ∈ l', m ∈ l) (kp : KeyPres f l) : KeyPres f l' :=
  fun x hx y hy => kp x (h x hx) y (h y hy)

/-- the normal forms of the compared messages, in canonical order, are determined by the content -/
theorem normal_form_eq (f : EqFlags) (a b : List Msg)
    (ha : WF (sortAbs a)) (hb : WF (sortAbs b)) (pa : SigPlain a) (pb : SigPlain b)
    (ka : KeyPres f ((sortAbs a).filter (cmpOf f))) (kb : KeyPres f ((sortAbs b).filter (cmpOf f)))
    (hn : (notesC f a).Perm (notesC f b)) (hts : tsC f a = tsC f b) (hks : ksC f a = ksC f b) :
    ((sortAbs a).filter (cmpOf f)).map (normC f) = ((sortAbs b).filter (cmpOf f)).map (normC f) := by
  have srt : ∀ c : List Msg, KeyPres f ((sortAbs c).filter (cmpOf f)) →
      (((sortAbs c).filter (cmpOf f)).map (normC f)).Pairwise EQ.KLe := by
    intro c kc
    rw [List.pairwise_map]
    refine ((EQ.sortAbs_sorted c).filter _).imp_of_mem ?_
    intro x y hx hy hxy
    simp only [EQ.KLe, kc x hx y hy]
    exact hxy
  apply eq_of_sorted_types _ _ (srt a ka) (srt b kb)
  intro τ
  have e : ∀ c : List Msg, (((sortAbs c).filter (cmpOf f)).map (normC f)).filter (fun m => m.ty == τ)
      = if (EQ.typesOf f).contains τ then ((sortAbs c).filter (fun m => m.ty == τ)).map (normC f) else [] := by
    intro c
    rw [List.filter_map]
    have : ((fun m : Msg => m.ty == τ) ∘ normC f) = (fun m : Msg => m.ty == τ) := by
      funext m; simp [normC_ty]
    rw [this]
    unfold cmpOf
    rw [filter_cmp_type]
    split <;> rfl
  have sub : ∀ (c : List Msg) (σ : MType), (EQ.typesOf f).contains σ = true →
      ∀ m ∈ (sortAbs c).filter (fun m => m.ty == σ), m ∈ (sortAbs c).filter (cmpOf f) := by
    intro c σ hσ m hm
    obtain ⟨h1, h2⟩ := List.mem_filter.1 hm
    have : m.ty = σ := by simpa using h2
    exact List.mem_filter.2 ⟨h1, by simp only [cmpOf, this, hσ]⟩
  rw [e a, e b]
  split
  · rename_i hτ
    have hτ' := hτ
    rw [contains_typesOf] at hτ
    by_cases h1 : τ = .noteOn
    · subst h1
      apply eq_of_strict_sorted
      · exact strict_map_normC f (keyPres_sub f (sub a _ hτ') ka) (notes_strict _ ha (EQ.sortAbs_sorted a) _ (Or.inl rfl))
      · exact strict_map_normC f (keyPres_sub f (sub b _ hτ') kb) (notes_strict _ hb (EQ.sortAbs_sorted b) _ (Or.inl rfl))
      · intro z
        rw [mem_Lon f a ha, mem_Lon f b hb]
        constructor
        · rintro ⟨n, hn', e⟩; exact ⟨n, hn.mem_iff.1 hn', e⟩
        · rintro ⟨n, hn', e⟩; exact ⟨n, hn.mem_iff.2 hn', e⟩
    · by_cases h2 : τ = .noteOff
      · subst h2
        apply eq_of_strict_sorted
        · exact strict_map_normC f (keyPres_sub f (sub a _ hτ') ka) (notes_strict _ ha (EQ.sortAbs_sorted a) _ (Or.inr rfl))
        · exact strict_map_normC f (keyPres_sub f (sub b _ hτ') kb) (notes_strict _ hb (EQ.sortAbs_sorted b) _ (Or.inr rfl))
        · intro z
          rw [mem_Loff f a ha, mem_Loff f b hb]
          constructor
          · rintro ⟨n, hn', e⟩; exact ⟨n, hn.mem_iff.1 hn', e⟩
          · rintro ⟨n, hn', e⟩; exact ⟨n, hn.mem_iff.2 hn', e⟩
      · by_cases h3 : τ = .timeSignature
        · subst h3
          have hi : f.ignoreTs = false := by
            cases h : f.ignoreTs
            · rfl
            · simp [h] at hτ
          have e2 : ∀ c : List Msg, SigPlain c →
              ((sortAbs c).filter (fun m => m.ty == .timeSignature)).map (normC f) = (tsC f c).map tsMsgA := by
            intro c pc
            simp only [tsC, hi, Bool.false_eq_true, if_false, List.map_map]
            apply List.map_congr_left
            intro m hm
            obtain ⟨hm1, hm2⟩ := List.mem_filter.1 hm
            have hty : m.ty = .timeSignature := by simpa using hm2
            have hnote := pc m ((mem_sortAbs c m).1 hm1) (Or.inl hty)
            cases hf : f.ignoreCh <;> simp [normC, normM, hty, tsMsgA, tsAttr, hf, hnote, pyNone]
          rw [e2 a pa, e2 b pb, hts]
        · have h4 : τ = .keySignature := by
            cases τ <;> simp_all
          subst h4
          have hi : f.ignoreKs = false := by
            cases h : f.ignoreKs
            · rfl
            · simp [h] at hτ
          have e2 : ∀ c : List Msg, SigPlain c →
              ((sortAbs c).filter (fun m => m.ty == .keySignature)).map (normC f) = (ksC f c).map ksMsgA := by
            intro c pc
            simp only [ksC, hi, Bool.false_eq_true, if_false, List.map_map]
            apply List.map_congr_left
            intro m hm
            obtain ⟨hm1, hm2⟩ := List.mem_filter.1 hm
            have hty : m.ty = .keySignature := by simpa using hm2
            have hnote := pc m ((mem_sortAbs c m).1 hm1) (Or.inr hty)
            cases hf : f.ignoreCh <;> simp [normC, normM, hty, ksMsgA, ksAttr, hf, hnote, pyNone]
          rw [e2 a pa, e2 b pb, hks]
  · rfl

theorem interleaved_of_sort_eq (T : List MType) (ppqn : Int) (x y : List Msg) (h : sortAbs x = sortAbs y) :
    interleaved T ppqn true x = interleaved T ppqn true y := by
  simp only [interleaved, pairings, h]

theorem interleaved_normM (ppqn : Int) (f : EqFlags) (c : List Msg) :
    (interleaved (EQ.typesOf f) ppqn true c).map (EQ.mapOut (normM f) id)
      = interleaved (EQ.typesOf f) ppqn true ((c.filter (cmpOf f)).map (normM f)) := by
  unfold cmpOf
  rw [EQ.interleaved_restrict (EQ.typesOf f) ppqn c,
    ← EQ.interleaved_map (relab_normM f) (EQ.typesOf f) ppqn true _ (sortAbs_normM f _)]

/-- `equals` only depends on the normal forms of the compared messages in canonical order -/
theorem equals_of_normal_form (ppqn : Int) (f : EqFlags) (a b : List Msg)
    (key : ((sortAbs a).filter (cmpOf f)).map (normM f) = ((sortAbs b).filter (cmpOf f)).map (normM f)) :
    equalsAbs ppqn f a b = true := by
  have hI : interleaved (EQ.typesOf f) ppqn true ((a.filter (cmpOf f)).map (normM f))
      = interleaved (EQ.typesOf f) ppqn true ((b.filter (cmpOf f)).map (normM f)) := by
    apply interleaved_of_sort_eq
    rw [sortAbs_normM, sortAbs_normM, ← EQ.filter_sortAbs, ← EQ.filter_sortAbs]
    exact key
  have hlen : (interleaved (EQ.typesOf f) ppqn true a).length = (interleaved (EQ.typesOf f) ppqn true b).length := by
    have h1 := congrArg List.length (interleaved_normM ppqn f a)
    have h2 := congrArg List.length (interleaved_normM ppqn f b)
    rw [List.length_map] at h1 h2
    rw [h1, h2, hI]
  rw [EQ.equalsAbs_def, hlen, beq_self_eq_true, Bool.true_and,
    ← EQ.zipAll_map_map (pairEq f) (pairEq f) (EQ.mapOut (normM f) id) (pairEq_normM f),
    interleaved_normM, interleaved_normM, hI]
  apply EQ.zipAll_refl
  intro x hx
  exact EQ.pairEq_refl f (EQ.inv_interleaved (fun _ => True) _ _ _ (fun _ _ => trivial) x hx).2

/-- **completeness** (channel compared): equal content ⇒ `equals = true` -/
theorem complete_core (ppqn : Int) (f : EqFlags) (hf : f.ignoreCh = false) (a b : List Msg)
    (ha : WF (sortAbs a)) (hb : WF (sortAbs b)) (pa : SigPlain a) (pb : SigPlain b)
    (hn : (notesC f a).Perm (notesC f b)) (hts : tsC f a = tsC f b) (hks : ksC f a = ksC f b) :
    equalsAbs ppqn f a b = true := by
  apply equals_of_normal_form
  have := normal_form_eq f a b ha hb pa pb (keyPres_of_false f hf _) (keyPres_of_false f hf _) hn hts hks
  rwa [normC_of_false f hf] at this

/-! ### completeness with the channel flag, for single-channel sequences -/

theorem zipAll_map_map2 {α} (p p' : α → α → Bool) (h h' : α → α)
    (hp : ∀ x y, p' (h x) (h' y) = p x y) (l l' : List α) :
    zipAll p' (l.map h) (l'.map h') = zipAll p l l' := by
  induction l generalizing l' with
  | nil => cases l' <;> simp [zipAll]
  | cons x xs ih => cases l' with
    | nil => simp [zipAll]
    | cons y ys => simp [zipAll, hp x y, ih ys]

theorem pairEq_gCh_ign (f : EqFlags) (hf : f.ignoreCh = true) (c d c' d' : Int) (x y : Int × Pairing) :
    pairEq f (EQ.mapOut (EQ.gCh c d) (EQ.swapCh c d) x) (EQ.mapOut (EQ.gCh c' d') (EQ.swapCh c' d') y)
      = pairEq f x y := by
  obtain ⟨cx, px⟩ := x
  obtain ⟨cy, py⟩ := y
  cases px with
  | nil => simp [pairEq, EQ.mapOut, hf]
  | cons sm srest =>
    cases py with
    | nil => simp [pairEq, EQ.mapOut, hf]
    | cons om orest =>
      cases srest with
      | nil => cases orest <;> simp [pairEq, EQ.mapOut, hf, EQ.gCh]
      | cons s1 sr => cases orest <;> simp [pairEq, EQ.mapOut, hf, EQ.gCh]

/-- **completeness** (channel ignored): for sequences whose compared events sit on one channel each -/
theorem complete_core_ch (ppqn : Int) (f : EqFlags) (hf : f.ignoreCh = true) (a b : List Msg)
    (ha : WF (sortAbs a)) (hb : WF (sortAbs b)) (pa : SigPlain a) (pb : SigPlain b) (c c' : Int)
    (oa : ∀ m ∈ a, cmpOf f m = true → m.ch = c) (ob : ∀ m ∈ b, cmpOf f m = true → m.ch = c')
    (hn : (notesC f a).Perm (notesC f b)) (hts : tsC f a = tsC f b) (hks : ksC f a = ksC f b) :
    equalsAbs ppqn f a b = true := by
  have one : ∀ (x : List Msg) (d : Int), (∀ m ∈ x, cmpOf f m = true → m.ch = d) →
      ∀ m ∈ (sortAbs x).filter (cmpOf f), m.ch = d := by
    intro x d ox m hm
    obtain ⟨h1, h2⟩ := List.mem_filter.1 hm
    exact ox m ((mem_sortAbs x m).1 h1) h2
  have key := normal_form_eq f a b ha hb pa pb (keyPres_of_one f _ c (one a c oa)) (keyPres_of_one f _ c' (one b c' ob))
    hn hts hks
  have h1 : ∀ (x : List Msg) (d : Int), (∀ m ∈ x, cmpOf f m = true → m.ch = d) →
      ∀ m ∈ (x.filter (cmpOf f)).map (normM f), m.ch = d := by
    intro x d ox m hm
    obtain ⟨m0, hm0, rfl⟩ := List.mem_map.1 hm
    obtain ⟨g1, g2⟩ := List.mem_filter.1 hm0
    rw [normM_ch]; exact ox m0 g1 g2
  have hsort : ∀ (x : List Msg) (d : Int), (∀ m ∈ x, cmpOf f m = true → m.ch = d) →
      sortAbs (((x.filter (cmpOf f)).map (normM f)).map (EQ.gCh d 0)) = ((sortAbs x).filter (cmpOf f)).map (normC f) := by
    intro x d ox
    rw [EQ.sortAbs_gCh d 0 _ (h1 x d ox), sortAbs_normM, ← EQ.filter_sortAbs, List.map_map]
    apply List.map_congr_left
    intro m hm
    have hd := one x d ox m hm
    simp only [Function.comp, normC, hf, if_true]
    rw [EQ.gCh_eq d 0 _ (by rw [normM_ch]; exact hd)]
  have hI : interleaved (EQ.typesOf f) ppqn true (((a.filter (cmpOf f)).map (normM f)).map (EQ.gCh c 0))
      = interleaved (EQ.typesOf f) ppqn true (((b.filter (cmpOf f)).map (normM f)).map (EQ.gCh c' 0)) := by
    apply interleaved_of_sort_eq
    rw [hsort a c oa, hsort b c' ob, key]
  have ea := EQ.interleaved_gCh (EQ.typesOf f) ppqn c 0 _ (h1 a c oa)
  have eb := EQ.interleaved_gCh (EQ.typesOf f) ppqn c' 0 _ (h1 b c' ob)
  have hlen : (interleaved (EQ.typesOf f) ppqn true a).length = (interleaved (EQ.typesOf f) ppqn true b).length := by
    have g1 := congrArg List.length (interleaved_normM ppqn f a)
    have g2 := congrArg List.length (interleaved_normM ppqn f b)
    have g3 := congrArg List.length ea
    have g4 := congrArg List.length eb
    rw [List.length_map] at g1 g2 g3 g4
    rw [g1, g2, ← g3, ← g4, hI]
  rw [EQ.equalsAbs_def, hlen, beq_self_eq_true, Bool.true_and,
    ← EQ.zipAll_map_map (pairEq f) (pairEq f) (EQ.mapOut (normM f) id) (pairEq_normM f),
    interleaved_normM, interleaved_normM,
    ← zipAll_map_map2 (pairEq f) (pairEq f) (EQ.mapOut (EQ.gCh c 0) (EQ.swapCh c 0))
      (EQ.mapOut (EQ.gCh c' 0) (EQ.swapCh c' 0)) (pairEq_gCh_ign f hf c 0 c' 0),
    ← ea, ← eb, hI]
  apply EQ.zipAll_refl
  intro x hx
  exact EQ.pairEq_refl f (EQ.inv_interleaved (fun _ => True) _ _ _ (fun _ _ => trivial) x hx).2

/-! ### soundness in terms of the content, and from multisets to lists for the signatures -/

theorem notesC_eq (f : EqFlags) (a : List Msg) :
    notesC f a = (pairsGo (sortAbs a) []).map (fun q => eraseN f (mkNote q)) := by
  simp [notesC, notesOf, notesGo_eq, List.map_map, Function.comp_def]

/-- **soundness**, every flag setting: `equals = true` ⇒ same notes, time and key signatures (as multisets) -/
theorem sound_content (ppqn : Int) (f : EqFlags) (a b : List Msg) (ha : WF (sortAbs a)) (hb : WF (sortAbs b))
    (h : equalsAbs ppqn f a b = true) :
    (notesC f a).Perm (notesC f b) ∧ (tsC f a).Perm (tsC f b) ∧ (ksC f a).Perm (ksC f b) := by
  rw [EQ.equalsAbs_def, Bool.and_eq_true] at h
  obtain ⟨h1, h2, h3⟩ := sound_core_f ppqn f a b ha hb h.2
  refine ⟨?_, ?_, ?_⟩
  · rw [notesC_eq, notesC_eq]; exact h1
  · rw [others_tsF, others_tsF] at h2; exact h2
  · rw [others_ksF, others_ksF] at h3; exact h3

/-- no two different time signatures share (channel, tick) — with the channel erased under the channel flag -/
def TsFun (f : EqFlags) (a : List Msg) : Prop :=
  ∀ x ∈ tsC f a, ∀ y ∈ tsC f a, x.1 = y.1 → x.2.1 = y.2.1 → x = y
/-- no two different key signatures share (channel, tick) -/
def KsFun (f : EqFlags) (a : List Msg) : Prop :=
  ∀ x ∈ ksC f a, ∀ y ∈ ksC f a, x.1 = y.1 → x.2.1 = y.2.1 → x = y

instance (f : EqFlags) (a : List Msg) : Decidable (TsFun f a) := by unfold TsFun; infer_instance
instance (f : EqFlags) (a : List Msg) : Decidable (KsFun f a) := by unfold KsFun; infer_instance

theorem tsC_sorted (f : EqFlags) (a : List Msg) :
    (tsC f a).Pairwise (fun x y => x.2.1 < y.2.1 ∨ (x.2.1 = y.2.1 ∧ x.1 ≤ y.1)) := by
  unfold tsC
  split
  · exact List.Pairwise.nil
  · rw [List.pairwise_map]
    refine ((EQ.sortAbs_sorted a).filter _).imp ?_
    intro x y hxy
    have := (EQ.keyLe_iff x y).1 hxy
    simp only [tsAttr]
    split <;> omega

theorem ksC_sorted (f : EqFlags) (a : List Msg) :
    (ksC f a).Pairwise (fun x y => x.2.1 < y.2.1 ∨ (x.2.1 = y.2.1 ∧ x.1 ≤ y.1)) := by
  unfold ksC
  split
  · exact List.Pairwise.nil
  · rw [List.pairwise_map]
    refine ((EQ.sortAbs_sorted a).filter _).imp ?_
    intro x y hxy
    have := (EQ.keyLe_iff x y).1 hxy
    simp only [ksAttr]
    split <;> omega

theorem tsC_eq_of_perm (f : EqFlags) (a b : List Msg) (ha : TsFun f a) (h : (tsC f a).Perm (tsC f b)) :
    tsC f a = tsC f b := by
  apply List.Perm.eq_of_pairwise _ (tsC_sorted f a) (tsC_sorted f b) h
  intro x y hx hy h1 h2
  exact ha x hx y (h.mem_iff.2 hy) (by omega) (by omega)

theorem ksC_eq_of_perm (f : EqFlags) (a b : List Msg) (ha : KsFun f a) (h : (ksC f a).Perm (ksC f b)) :
    ksC f a = ksC f b := by
  apply List.Perm.eq_of_pairwise _ (ksC_sorted f a) (ksC_sorted f b) h
  intro x y hx hy h1 h2
  exact ha x hx y (h.mem_iff.2 hy) (by omega) (by omega)

/-! ### re-representation and insertion order -/

theorem cmpOf_internal (f : EqFlags) (m : Msg) (h : m.ty = .internal) : cmpOf f m = false := by
  simp only [cmpOf, contains_typesOf, h]
  simp

/-- `equals` looks at the sorted compared messages only -/
theorem equals_congr_left (ppqn : Int) (f : EqFlags) (x y b : List Msg)
    (h : sortAbs (x.filter (cmpOf f)) = sortAbs (y.filter (cmpOf f))) :
    equalsAbs ppqn f x b = equalsAbs ppqn f y b := by
  have e : interleaved (EQ.typesOf f) ppqn true x = interleaved (EQ.typesOf f) ppqn true y := by
    rw [EQ.interleaved_restrict (EQ.typesOf f) ppqn x, EQ.interleaved_restrict (EQ.typesOf f) ppqn y]
    exact interleaved_of_sort_eq _ _ _ _ h
  rw [EQ.equalsAbs_def, EQ.equalsAbs_def, e]

theorem insort_filter (p : Msg → Bool) (l : List Msg) (m : Msg) (hm : p m = false) :
    (insort l m).filter p = l.filter p := by
  unfold insort
  simp only [List.filter_append, List.filter_cons, hm, Bool.false_eq_true, if_false]
  rw [← List.filter_append, List.take_append_drop]

theorem toAbs_filter (f : EqFlags) (r : List Msg) :
    sortAbs ((toAbs r).filter (cmpOf f)) = sortAbs ((eventsRel r).filter (cmpOf f)) := by
  have h : (toAbs r).filter (cmpOf f) = (sortAbs (eventsRel r)).filter (cmpOf f) := by
    rw [toAbs_eq]
    split
    · rfl
    · exact insort_filter _ _ _ (cmpOf_internal f _ rfl)
  rw [h, EQ.filter_sortAbs, EQ.sortAbs_idem]

theorem eventsAbs_filter (f : EqFlags) (a : List Msg) : (eventsAbs a).filter (cmpOf f) = a.filter (cmpOf f) := by
  simp only [eventsAbs, List.filter_filter]
  congr 1; funext m
  by_cases h : m.ty = .internal
  · simp [cmpOf_internal f m h]
  · simp [h]

/-- compared messages that tie in the sort key agree on everything `equals` looks at -/
def TieAgree (f : EqFlags) (a : List Msg) : Prop :=
  ∀ m ∈ a, ∀ m' ∈ a, cmpOf f m = true → cmpOf f m' = true → EQ.key4 m = EQ.key4 m' → normM f m = normM f m'

instance (f : EqFlags) (a : List Msg) : Decidable (TieAgree f a) := by unfold TieAgree; infer_instance

theorem key4_normM (f : EqFlags) (m : Msg) : EQ.key4 (normM f m) = EQ.key4 m := by
  simp [EQ.key4, normM_time, normM_ch, normM_ty, normM_note]

theorem normal_form_of_perm (f : EqFlags) (a a' : List Msg) (hp : a.Perm a') (ht : TieAgree f a) :
    ((sortAbs a).filter (cmpOf f)).map (normM f) = ((sortAbs a').filter (cmpOf f)).map (normM f) := by
  have srt : ∀ c : List Msg, (((sortAbs c).filter (cmpOf f)).map (normM f)).Pairwise EQ.KLe := by
    intro c
    rw [List.pairwise_map]
    refine ((EQ.sortAbs_sorted c).filter _).imp ?_
    intro x y hxy
    simp only [EQ.KLe, keyLe_normM]
    exact hxy
  have hperm : (((sortAbs a).filter (cmpOf f)).map (normM f)).Perm (((sortAbs a').filter (cmpOf f)).map (normM f)) :=
    ((((sortAbs_perm a).trans hp).trans (sortAbs_perm a').symm).filter _).map _
  apply List.Perm.eq_of_pairwise _ (srt a) (srt a') hperm
  intro x y hx hy h1 h2
  have hy' := hperm.mem_iff.2 hy
  obtain ⟨m, hm, rfl⟩ := List.mem_map.1 hx
  obtain ⟨m', hm', rfl⟩ := List.mem_map.1 hy'
  obtain ⟨g1, g2⟩ := List.mem_filter.1 hm
  obtain ⟨g1', g2'⟩ := List.mem_filter.1 hm'
  have hk := EQ.keyLe_antisymm h1 h2
  have hk4 : EQ.key4 m = EQ.key4 m' := by
    rw [← key4_normM f m, ← key4_normM f m']
    simp [EQ.key4, hk.1, hk.2.1, hk.2.2.1, hk.2.2.2]
  exact ht m ((mem_sortAbs a m).1 g1) m' ((mem_sortAbs a m').1 g1') g2 g2' hk4

/-! ## C15: which note-ons survive the fusion -/

open MergeL in
theorem fuseK_filter (k : Int × Int) : ∀ (l : List Msg) (d : Nat), fuseK k d (l.filter (isKN k)) = fuseK k d l := by
  intro l
  induction l with
  | nil => intro d; rfl
  | cons x xs ih =>
    intro d
    by_cases hx : isKN k x = true
    · rw [List.filter_cons_of_pos hx]
      simp only [fuseK, ih]
    · rw [List.filter_cons_of_neg hx, ih]
      simp only [isKN, decide_eq_true_eq, not_and, not_or] at hx
      simp only [fuseK]
      split
      · rename_i hk
        simp [(hx hk).1, (hx hk).2]
      · rfl

theorem fuseK_all_ons (k : Int × Int) : ∀ (A : List Msg) (d : Nat), (∀ m ∈ A, m.nkey = k ∧ m.ty = .noteOn) →
    fuseK k d A = if d = 0 then A.take 1 else [] := by
  intro A
  induction A with
  | nil => intro d _; simp [fuseK]
  | cons m A ih =>
    intro d h
    have hm := h m (by simp)
    have ih' := fun d => ih d (fun x hx => h x (List.mem_cons_of_mem _ hx))
    simp only [fuseK, hm.1, hm.2, if_true]
    by_cases hd : d = 0
    · simp [hd, ih' 1]
    · simp [hd, ih' (d + 1)]

theorem split_of_downclosed {α} (p : α → Bool) : ∀ l : List α, l.Pairwise (fun a b => p b = true → p a = true) →
    l = l.filter p ++ l.filter (fun a => !p a) := by
  intro l
  induction l with
  | nil => intro _; rfl
  | cons x xs ih =>
    intro h
    rw [List.pairwise_cons] at h
    by_cases hx : p x = true
    · simp only [List.filter_cons, hx, if_true, Bool.not_true, Bool.false_eq_true, if_false, List.cons_append]
      congr 1
      exact ih h.2
    · have hnone : xs.filter p = [] := by
        rw [List.filter_eq_nil_iff]
        intro b hb hpb
        exact hx (h.1 b hb hpb)
      have hall : xs.filter (fun a => !p a) = xs := by
        rw [List.filter_eq_self]
        intro b hb
        have : ¬ p b = true := fun hpb => hx (h.1 b hb hpb)
        simpa using this
      have hx' : p x = false := by simpa using hx
      simp [hx', hnone, hall]

/-- the part of a per-key list that lies before the note-ons of tick `s` -/
def preOn (s : Int) (m : Msg) : Bool := decide (m.time < s) || (decide (m.time = s) && m.ty == .noteOff)

open MergeL in
/-- **which note-ons survive**: in the canonically sorted note events `Ek` of one key, fused by the depth
    counter, a note-on on tick `s` is kept iff there is one and, counting everything before it, as many
    notes have ended (by `s`) as have started (before `s`) -/
theorem fused_onset (k : Int × Int) (s : Int) (Ek : List Msg) (hk : ∀ m ∈ Ek, isKN k m = true)
    (hs : Ek.Pairwise EQ.KLe) (hnu : ∀ q, q <+: Ek → offs k q ≤ 0 + ons k q) :
    (∃ m ∈ fuseK k 0 Ek, m.ty = .noteOn ∧ m.time = s) ↔
      ((∃ m ∈ Ek, m.ty = .noteOn ∧ m.time = s) ∧ ons k (before s Ek) = offs k (upTo s Ek)) := by
  have hsplit : Ek = Ek.filter (preOn s) ++ Ek.filter (fun a => !preOn s a) := by
    apply split_of_downclosed
    refine hs.imp_of_mem ?_
    intro a b ha hb hab hpb
    obtain ⟨ka, ta⟩ := (isKN_iff k a).1 (hk a ha)
    obtain ⟨kb, tb⟩ := (isKN_iff k b).1 (hk b hb)
    have hkk : a.nkey = b.nkey := ka.trans kb.symm
    simp only [Msg.nkey, Prod.mk.injEq] at hkk
    have hle := (EQ.keyLe_iff a b).1 hab
    simp only [preOn, Bool.or_eq_true, decide_eq_true_eq, Bool.and_eq_true, beq_iff_eq] at hpb ⊢
    rcases hpb with h | ⟨h1, h2⟩
    · left; omega
    · by_cases hlt : a.time < s
      · exact Or.inl hlt
      · right
        refine ⟨by omega, ?_⟩
        rcases ta with ta | ta
        · exfalso
          rw [ta, h2] at hle
          simp only [MType.rank] at hle
          omega
        · exact ta
  generalize hP : Ek.filter (preOn s) = P at hsplit
  generalize hR : Ek.filter (fun a => !preOn s a) = R at hsplit
  have hPpre : P <+: Ek := ⟨R, hsplit.symm⟩
  have hd : depth k P 0 + offs k P = ons k P := by
    have := depth_exact k P 0 (fun q hq => hnu q (hq.trans hPpre))
    omega
  have hons : ons k P = ons k (before s Ek) := by
    rw [← hP]
    simp only [ons, before, List.countP_filter]
    apply List.countP_congr
    intro a _
    simp only [isOnK, preOn, Bool.and_eq_true, decide_eq_true_eq, Bool.or_eq_true, beq_iff_eq]
    constructor
    · rintro ⟨⟨h1, h2⟩, h | ⟨_, h⟩⟩
      · exact ⟨⟨h1, h2⟩, h⟩
      · rw [h2] at h; cases h
    · rintro ⟨h1, h2⟩
      exact ⟨h1, Or.inl h2⟩
  have hoffs : offs k P = offs k (upTo s Ek) := by
    rw [← hP]
    simp only [offs, upTo, List.countP_filter]
    apply List.countP_congr
    intro a _
    simp only [isOffK, preOn, Bool.and_eq_true, decide_eq_true_eq, Bool.or_eq_true, beq_iff_eq]
    constructor
    · rintro ⟨⟨h1, h2⟩, h | ⟨h, _⟩⟩
      · exact ⟨⟨h1, h2⟩, by omega⟩
      · exact ⟨⟨h1, h2⟩, by omega⟩
    · rintro ⟨⟨h1, h2⟩, h3⟩
      refine ⟨⟨h1, h2⟩, ?_⟩
      by_cases hlt : a.time < s
      · exact Or.inl hlt
      · exact Or.inr ⟨by omega, h2⟩
  have hRs : R.Pairwise (fun a b => a.time ≤ b.time) := by
    rw [← hR]; exact (sorted_of_kle hs).filter _
  obtain ⟨A1, A2, hRA, hA1, hA2⟩ := split_sorted R s hRs
  have hRmem : ∀ m ∈ R, m ∈ Ek ∧ preOn s m = false := by
    intro m hm
    rw [← hR] at hm
    obtain ⟨h1, h2⟩ := List.mem_filter.1 hm
    exact ⟨h1, by simpa using h2⟩
  have hA1ons : ∀ m ∈ A1, (m.nkey = k ∧ m.ty = .noteOn) ∧ m.time = s := by
    intro m hm
    obtain ⟨h1, h2⟩ := hRmem m (by rw [hRA]; exact List.mem_append_left _ hm)
    obtain ⟨km, tm⟩ := (isKN_iff k m).1 (hk m h1)
    have hle := hA1 m hm
    simp only [preOn, Bool.or_eq_false_iff, decide_eq_false_iff_not, Bool.and_eq_false_iff, beq_eq_false_iff_ne] at h2
    have hts : m.time = s := by omega
    refine ⟨⟨km, ?_⟩, hts⟩
    rcases tm with tm | tm
    · exact tm
    · rcases h2.2 with h | h
      · exact absurd hts h
      · exact absurd tm h
  have hfuse : fuseK k 0 Ek = fuseK k 0 P ++ (fuseK k (depth k P 0) A1 ++ fuseK k (depth k A1 (depth k P 0)) A2) := by
    conv => lhs; rw [hsplit, hRA]
    rw [fuseK_append, fuseK_append]
  have hA1f := fuseK_all_ons k A1 (depth k P 0) (fun m hm => (hA1ons m hm).1)
  constructor
  · rintro ⟨m, hm, hty, htm⟩
    rw [hfuse] at hm
    rcases List.mem_append.1 hm with hm | hm
    · exfalso
      have : m ∈ P := (fuseK_sublist k P 0).subset hm
      rw [← hP] at this
      have hp := (List.mem_filter.1 this).2
      simp only [preOn, Bool.or_eq_true, decide_eq_true_eq, Bool.and_eq_true, beq_iff_eq] at hp
      rcases hp with h | ⟨_, h⟩
      · omega
      · rw [hty] at h; cases h
    · rcases List.mem_append.1 hm with hm | hm
      · rw [hA1f] at hm
        by_cases hd0 : depth k P 0 = 0
        · rw [if_pos hd0] at hm
          have hmA : m ∈ A1 := List.mem_of_mem_take hm
          have hmE : m ∈ Ek := (hRmem m (by rw [hRA]; exact List.mem_append_left _ hmA)).1
          exact ⟨⟨m, hmE, hty, htm⟩, by omega⟩
        · rw [if_neg hd0] at hm; cases hm
      · exfalso
        have := hA2 m ((fuseK_sublist k A2 _).subset hm)
        omega
  · rintro ⟨⟨m0, hm0, hty0, htm0⟩, heq⟩
    have hd0 : depth k P 0 = 0 := by omega
    have hm0R : m0 ∈ R := by
      rw [← hR]
      refine List.mem_filter.2 ⟨hm0, ?_⟩
      simp [preOn, hty0, htm0]
    have hm0A : m0 ∈ A1 := by
      rw [hRA] at hm0R
      rcases List.mem_append.1 hm0R with h | h
      · exact h
      · have := hA2 m0 h; omega
    cases hA : A1 with
    | nil => rw [hA] at hm0A; cases hm0A
    | cons a A1' =>
      have ha := hA1ons a (by rw [hA]; simp)
      refine ⟨a, ?_, ha.1.2, ha.2⟩
      rw [hfuse, hA1f, if_pos hd0, hA]
      simp

/-! ### the merge at the level of timed events -/

/-- the timed events of the merge of the absolute views `as` (receiver first) -/
def mergeEv (as : List (List Msg)) : List Msg := eventsRel (normalise (toRel (sortAbs as.flatten)))

/-- what C15 assumes of every input: a fresh absolute view, well-formed, no zero-length note -/
def GoodIn (a : List Msg) : Prop := OkAbs a ∧ WF a ∧ ∀ n ∈ notesOf a, n.on < n.off

theorem altFrom_events (k : Int × Int) (r : List Msg) : ∀ (b : Bool) (c : Int),
    altFrom k b (eventsRelGo c r) ↔ altFrom k b r := by
  induction r with
  | nil => intro b c; simp [eventsRelGo]
  | cons m ms ih =>
    intro b c
    by_cases hw : m.ty = .wait
    · simp only [eventsRelGo, hw, beq_self_eq_true, if_true, altFrom, reduceCtorEq, and_false, if_false]
      exact ih b _
    · simp only [eventsRelGo, beq_iff_eq, hw, if_false, altFrom, Msg.nkey]
      rw [ih true c, ih false c, ih b c]
      exact Iff.rfl

theorem merge_wf (as : List (List Msg)) : WF (mergeEv as) :=
  fun k => (altFrom_events k _ false 0).2 (normalise_wf _ k)

open MergeL in
theorem goodFrom_filter (k : Int × Int) : ∀ (l : List Msg) (o : Option Int), goodFrom k o l →
    goodFrom k o (l.filter (isKN k)) := by
  intro l
  induction l with
  | nil => intro o h; exact h
  | cons m ms ih =>
    intro o hg
    rcases cases3 k m with h | h | ⟨h1, h2⟩
    · have hp : isKN k m = true := by simp [isKN, h.1, h.2]
      rw [List.filter_cons_of_pos hp]
      simp only [goodFrom, h, and_self, if_true] at hg ⊢
      exact ⟨hg.1, ih _ hg.2⟩
    · have hp : isKN k m = true := by simp [isKN, h.1, h.2]
      rw [List.filter_cons_of_pos hp]
      simp only [goodFrom, h, and_self, if_true] at hg ⊢
      exact ⟨hg.1, ih _ hg.2⟩
    · have hp : ¬ isKN k m = true := by
        simp only [isKN, decide_eq_true_eq, not_and, not_or]
        intro hk
        exact ⟨fun h => h1 ⟨hk, h⟩, fun h => h2 ⟨hk, h⟩⟩
      rw [List.filter_cons_of_neg hp]
      simp only [goodFrom, h1, h2, if_false] at hg
      exact ih _ hg

open MergeL in
theorem ons_filter_kn (k : Int × Int) (l : List Msg) : ons k (l.filter (isKN k)) = ons k l := by
  simp only [ons, List.countP_filter]
  apply List.countP_congr
  intro a _
  simp only [isOnK, isKN, Bool.and_eq_true, decide_eq_true_eq]
  constructor
  · rintro ⟨h, _⟩; exact h
  · intro h; exact ⟨h, h.1, Or.inl h.2⟩

open MergeL in
theorem offs_filter_kn (k : Int × Int) (l : List Msg) : offs k (l.filter (isKN k)) = offs k l := by
  simp only [offs, List.countP_filter]
  apply List.countP_congr
  intro a _
  simp only [isOffK, isKN, Bool.and_eq_true, decide_eq_true_eq]
  constructor
  · rintro ⟨h, _⟩; exact h
  · intro h; exact ⟨h, h.1, Or.inr h.2⟩

theorem filter_comm' (p q : Msg → Bool) (l : List Msg) : (l.filter p).filter q = (l.filter q).filter p := by
  rw [List.filter_filter, List.filter_filter]
  congr 1; funext a; exact Bool.and_comm _ _

open MergeL in
/-- per key, the note events of the merge are the canonically sorted union, fused by the depth counter -/
theorem merge_key_events (as : List (List Msg)) (h : ∀ a ∈ as, GoodIn a) (k : Int × Int) :
    (mergeEv as).filter (isKN k) = fuseK k 0 ((sortAbs as.flatten).filter (isKN k)) := by
  have hok : ∀ a ∈ as, OkAbs a := fun a ha => (h a ha).1
  have hU := okAbs_sort as hok
  obtain ⟨hUs, hUn, hUw⟩ := hU
  have hev : eventsRel (toRel (sortAbs as.flatten)) = eventsAbs (sortAbs as.flatten) :=
    eventsRelGo_toRelGo _ 0 ((timeSorted_iff_pairwise _).1 hUs) hUn hUw
  have hnn : NonNegWaits (toRel (sortAbs as.flatten)) := fun m hm => (toRelGo_ok _ 0 hUw m hm).1
  have hgood : ∀ k', ∀ a ∈ as, goodFrom k' none a :=
    fun k' a ha => good_of_wf a (h a ha).2.1 (h a ha).2.2 k'
  have hd : ∀ k', depth k' (toRel (sortAbs as.flatten)) 0 = 0 := by
    intro k'
    rw [← depth_events k' (toRel (sortAbs as.flatten)) 0 0]
    have : eventsRelGo 0 (toRel (sortAbs as.flatten)) = eventsAbs (sortAbs as.flatten) := hev
    rw [this, depth_eventsAbs]
    exact depth_union_zero k' as _ (sortAbs_perm _) (sortAbs_pairwise _) (hgood k')
  rw [mergeEv, normalise_fuse _ hnn hd k, hev, ← fuseK_filter]
  congr 1
  simp only [eventsAbs, List.filter_filter]
  congr 1; funext m
  by_cases hi : m.ty = .internal
  · simp [isKN, hi]
  · simp [hi]

open MergeL in
theorem merge_sorted (as : List (List Msg)) (h : ∀ a ∈ as, OkAbs a) : MergeL.Sorted (mergeEv as) := by
  obtain ⟨hUs, hUn, hUw⟩ := okAbs_sort as h
  have hnn : NonNegWaits (toRel (sortAbs as.flatten)) := fun m hm => (toRelGo_ok _ 0 hUw m hm).1
  exact (events_sorted _ 0 hnn).sublist (normalise_events_sublist _ hnn)

theorem merge_key_kle (as : List (List Msg)) (h : ∀ a ∈ as, GoodIn a) (k : Int × Int) :
    ((mergeEv as).filter (isKN k)).Pairwise EQ.KLe := by
  rw [merge_key_events as h k]
  exact ((EQ.sortAbs_sorted _).filter _).sublist (fuseK_sublist k _ 0)

/-- the merge has no zero-length note -/
theorem merge_posDur (as : List (List Msg)) (h : ∀ a ∈ as, GoodIn a) : ∀ n ∈ notesOf (mergeEv as), n.on < n.off :=
  posDur_of_kle _ (merge_wf as) (merge_key_kle as h)

theorem merge_sep (as : List (List Msg)) (h : ∀ a ∈ as, GoodIn a) : Sep (notesOf (mergeEv as)) :=
  notes_sep _ (merge_wf as) (merge_sorted as (fun a ha => (h a ha).1)) (merge_posDur as h)

open MergeL in
/-- **where the notes of the merge start**: on tick `s` with key `k` iff some input note-on is there and,
    over all inputs, as many notes of that key have ended by `s` as have started before `s` -/
theorem merge_onset (as : List (List Msg)) (h : ∀ a ∈ as, GoodIn a) (k : Int × Int) (s : Int) :
    (∃ m ∈ mergeEv as, m.ty = .noteOn ∧ m.nkey = k ∧ m.time = s) ↔
      ((∃ m ∈ as.flatten, m.ty = .noteOn ∧ m.nkey = k ∧ m.time = s)
        ∧ ons k (before s as.flatten) = offs k (upTo s as.flatten)) := by
  have hperm : ((sortAbs as.flatten).filter (isKN k)).Perm (as.map (fun a => a.filter (isKN k))).flatten := by
    have : (as.map (fun a => a.filter (isKN k))).flatten = as.flatten.filter (isKN k) := by
      rw [List.filter_flatten]
    rw [this]
    exact (sortAbs_perm _).filter _
  have hnu := no_underflow k (as.map (fun a => a.filter (isKN k))) _ hperm
    (sorted_of_kle ((EQ.sortAbs_sorted _).filter _)) (by
      intro a' ha'
      obtain ⟨a, ha, rfl⟩ := List.mem_map.1 ha'
      exact goodFrom_filter k a none (good_of_wf a (h a ha).2.1 (h a ha).2.2 k))
  have key := fused_onset k s _ (fun m hm => (List.mem_filter.1 hm).2) ((EQ.sortAbs_sorted as.flatten).filter _) hnu
  rw [← merge_key_events as h k] at key
  have e1 : ons k (before s ((sortAbs as.flatten).filter (isKN k))) = ons k (before s as.flatten) := by
    rw [before, filter_comm', ons_filter_kn]
    exact ons_perm k ((sortAbs_perm _).filter _)
  have e2 : offs k (upTo s ((sortAbs as.flatten).filter (isKN k))) = offs k (upTo s as.flatten) := by
    rw [upTo, filter_comm', offs_filter_kn]
    exact offs_perm k ((sortAbs_perm _).filter _)
  rw [e1, e2] at key
  constructor
  · rintro ⟨m, hm, hty, hk, htm⟩
    obtain ⟨⟨m0, hm0, g1, g2⟩, g3⟩ := key.1 ⟨m, List.mem_filter.2 ⟨hm, by simp [isKN, hk, hty]⟩, hty, htm⟩
    obtain ⟨h1, h2⟩ := List.mem_filter.1 hm0
    exact ⟨⟨m0, (mem_sortAbs _ _).1 h1, g1, ((isKN_iff k m0).1 h2).1, g2⟩, g3⟩
  · rintro ⟨⟨m0, hm0, g1, g2, g3⟩, g4⟩
    obtain ⟨m, hm, hty, htm⟩ := key.2 ⟨⟨m0, List.mem_filter.2 ⟨(mem_sortAbs _ _).2 hm0, by simp [isKN, g1, g2]⟩, g1, g3⟩, g4⟩
    obtain ⟨h1, h2⟩ := List.mem_filter.1 hm
    exact ⟨m, h1, hty, ((isKN_iff k m).1 h2).1, htm⟩

/-- a note of key `k` starts on tick `s` iff a note-on message of key `k` sits there -/
theorem notes_onset (x : List Msg) (hwf : WF x) (k : Int × Int) (s : Int) :
    (∃ n ∈ notesOf x, nkeyN n = k ∧ n.on = s) ↔ (∃ m ∈ x, m.ty = .noteOn ∧ m.nkey = k ∧ m.time = s) := by
  constructor
  · rintro ⟨n, hn, hk, hs⟩
    obtain ⟨m, hm, hty, he⟩ := (notes_ons x hwf _).1 (List.mem_map.2 ⟨n, hn, rfl⟩)
    simp only [onAttr, Prod.mk.injEq] at he
    refine ⟨m, hm, hty, ?_, by omega⟩
    rw [← hk]; simp [Msg.nkey, nkeyN, he.1, he.2.1]
  · rintro ⟨m, hm, hty, hk, hs⟩
    obtain ⟨n, hn, he⟩ := List.mem_map.1 ((notes_ons x hwf _).2 ⟨m, hm, hty, rfl⟩)
    simp only [onAttr, Prod.mk.injEq] at he
    refine ⟨n, hn, ?_, by omega⟩
    rw [← hk]; simp [Msg.nkey, nkeyN, he.1, he.2.1]

/-! ### the count condition in terms of the inputs' notes -/

theorem countP_le_iff {α} (p q : α → Bool) : ∀ l : List α, (∀ x ∈ l, q x = true → p x = true) →
    l.countP q ≤ l.countP p ∧ (l.countP p = l.countP q ↔ ∀ x ∈ l, p x = true → q x = true) := by
  intro l
  induction l with
  | nil => intro _; simp
  | cons x xs ih =>
    intro h
    obtain ⟨ih1, ih2⟩ := ih (fun y hy => h y (List.mem_cons_of_mem _ hy))
    have hx := h x (by simp)
    simp only [List.countP_cons, List.mem_cons, forall_eq_or_imp]
    cases hp : p x <;> cases hq : q x
    · simp only [Bool.false_eq_true, if_false, Nat.add_zero, false_implies, true_and]
      exact ⟨ih1, ih2⟩
    · rw [hq] at hx; exact absurd (hx rfl) (by simp [hp])
    · simp only [Bool.false_eq_true, if_false, if_true, Nat.add_zero, true_implies, false_and, iff_false]
      exact ⟨by omega, by omega⟩
    · simp only [if_true, true_implies, true_and]
      exact ⟨by omega, by rw [← ih2]; omega⟩

open MergeL in
theorem ons_before_unpair (k : Int × Int) (s : Int) : ∀ P : List (Msg × Msg), (∀ p ∈ P, GoodPair k p) →
    ons k (before s (unpair P)) = P.countP (fun p => decide (p.1.time < s)) := by
  intro P
  induction P with
  | nil => intro _; rfl
  | cons p P ih =>
    intro hg
    have g := hg p (by simp)
    have ih' := ih (fun q hq => hg q (List.mem_cons_of_mem _ hq))
    have hoff : ¬ (p.2.nkey = k ∧ p.2.ty = .noteOn) := by rw [g.off]; simp
    rw [unpair_cons, before_cons, List.countP_cons]
    by_cases c1 : p.1.time < s
    · rw [if_pos c1, ons_cons_on ⟨g.k1, g.on⟩, before_cons]
      by_cases c2 : p.2.time < s
      · rw [if_pos c2, ons_cons_other hoff, ih']; simp [c1]
      · rw [if_neg c2, ih']; simp [c1]
    · rw [if_neg c1, before_cons]
      by_cases c2 : p.2.time < s
      · rw [if_pos c2, ons_cons_other hoff, ih']; simp [c1]
      · rw [if_neg c2, ih']; simp [c1]

open MergeL in
theorem offs_upTo_unpair (k : Int × Int) (s : Int) : ∀ P : List (Msg × Msg), (∀ p ∈ P, GoodPair k p) →
    offs k (upTo s (unpair P)) = P.countP (fun p => decide (p.2.time ≤ s)) := by
  intro P
  induction P with
  | nil => intro _; rfl
  | cons p P ih =>
    intro hg
    have g := hg p (by simp)
    have ih' := ih (fun q hq => hg q (List.mem_cons_of_mem _ hq))
    have hon : ¬ (p.1.nkey = k ∧ p.1.ty = .noteOff) := by rw [g.on]; simp
    rw [unpair_cons, upTo_cons, List.countP_cons]
    by_cases c1 : p.1.time ≤ s
    · rw [if_pos c1, offs_cons_other hon, upTo_cons]
      by_cases c2 : p.2.time ≤ s
      · rw [if_pos c2, offs_cons_off ⟨g.k2, g.off⟩, ih']; simp [c2]
      · rw [if_neg c2, ih']; simp [c2]
    · rw [if_neg c1, upTo_cons]
      by_cases c2 : p.2.time ≤ s
      · rw [if_pos c2, offs_cons_off ⟨g.k2, g.off⟩, ih']; simp [c2]
      · rw [if_neg c2, ih']; simp [c2]

open MergeL in
/-- for one good input: never more ends (by `s`) than starts (before `s`); as many iff no note of the key
    has `s` strictly inside -/
theorem input_count (a : List Msg) (h : GoodIn a) (k : Int × Int) (s : Int) :
    offs k (upTo s a) ≤ ons k (before s a) ∧
      (ons k (before s a) = offs k (upTo s a) ↔ ¬ ∃ n ∈ notesOf a, nkeyN n = k ∧ n.on < s ∧ s < n.off) := by
  obtain ⟨hok, hwf, hpd⟩ := h
  obtain ⟨P, h1, h2, h3⟩ := key_view a hwf k
  have e1 : ons k (before s a) = P.countP (fun p => decide (p.1.time < s)) := by
    rw [← ons_filter_kn, before, filter_comm', h1]
    exact ons_before_unpair k s P h2
  have e2 : offs k (upTo s a) = P.countP (fun p => decide (p.2.time ≤ s)) := by
    rw [← offs_filter_kn, upTo, filter_comm', h1]
    exact offs_upTo_unpair k s P h2
  have hpos : ∀ p ∈ P, p.1.time < p.2.time := by
    intro p hp
    have : mkNote p ∈ (notesOf a).filter (fun n => decide ((n.ch, n.pitch) = k)) := by
      rw [h3]; exact List.mem_map.2 ⟨p, hp, rfl⟩
    exact hpd _ (mem_notes_key.1 this).1
  obtain ⟨c1, c2⟩ := countP_le_iff (fun p : Msg × Msg => decide (p.1.time < s)) (fun p => decide (p.2.time ≤ s)) P (by
    intro p hp hq
    have := hpos p hp
    simp only [decide_eq_true_eq] at hq ⊢
    omega)
  rw [e1, e2]
  refine ⟨c1, ?_⟩
  rw [c2]
  constructor
  · rintro hall ⟨n, hn, hk, g1, g2⟩
    have : n ∈ P.map mkNote := by rw [← h3]; exact mem_notes_key.2 ⟨hn, hk⟩
    obtain ⟨p, hp, rfl⟩ := List.mem_map.1 this
    have := hall p hp (by simpa [mkNote] using g1)
    simp only [decide_eq_true_eq, mkNote] at this g2
    omega
  · intro hno p hp hlt
    simp only [decide_eq_true_eq] at hlt ⊢
    by_cases c : p.2.time ≤ s
    · exact c
    · exfalso
      apply hno
      have : mkNote p ∈ (notesOf a).filter (fun n => decide ((n.ch, n.pitch) = k)) := by
        rw [h3]; exact List.mem_map.2 ⟨p, hp, rfl⟩
      obtain ⟨g1, g2⟩ := mem_notes_key.1 this
      exact ⟨_, g1, g2, by simpa [mkNote] using hlt, by simp only [mkNote]; omega⟩

/-- all notes of all inputs -/
def inNotes (as : List (List Msg)) : List Note := as.flatMap notesOf

open MergeL in
theorem family_count (as : List (List Msg)) (h : ∀ a ∈ as, GoodIn a) (k : Int × Int) (s : Int) :
    offs k (upTo s as.flatten) ≤ ons k (before s as.flatten) ∧
    (ons k (before s as.flatten) = offs k (upTo s as.flatten) ↔
      ¬ ∃ n ∈ inNotes as, nkeyN n = k ∧ n.on < s ∧ s < n.off) := by
  induction as with
  | nil => simp [inNotes, before, upTo, ons, offs]
  | cons a as ih =>
    obtain ⟨i1, i2⟩ := ih (fun b hb => h b (List.mem_cons_of_mem _ hb))
    obtain ⟨a1, a2⟩ := input_count a (h a (by simp)) k s
    rw [List.flatten_cons, before_append, upTo_append, ons_append, offs_append]
    refine ⟨by omega, ?_⟩
    have : (ons k (before s a) + ons k (before s as.flatten) = offs k (upTo s a) + offs k (upTo s as.flatten))
        ↔ (ons k (before s a) = offs k (upTo s a) ∧ ons k (before s as.flatten) = offs k (upTo s as.flatten)) := by
      constructor
      · intro e; constructor <;> omega
      · rintro ⟨e1, e2⟩; omega
    rw [this, a2, i2]
    simp only [inNotes, List.flatMap_cons, List.mem_append]
    constructor
    · rintro ⟨g1, g2⟩ ⟨n, hn | hn, g⟩
      · exact g1 ⟨n, hn, g⟩
      · exact g2 ⟨n, hn, g⟩
    · intro g
      exact ⟨fun ⟨n, hn, g'⟩ => g ⟨n, Or.inl hn, g'⟩, fun ⟨n, hn, g'⟩ => g ⟨n, Or.inr hn, g'⟩⟩

theorem family_onset (as : List (List Msg)) (h : ∀ a ∈ as, GoodIn a) (k : Int × Int) (s : Int) :
    (∃ m ∈ as.flatten, m.ty = .noteOn ∧ m.nkey = k ∧ m.time = s) ↔ ∃ n ∈ inNotes as, nkeyN n = k ∧ n.on = s := by
  simp only [inNotes, List.mem_flatten, List.mem_flatMap]
  constructor
  · rintro ⟨m, ⟨a, ha, hm⟩, g⟩
    obtain ⟨n, hn, g'⟩ := (notes_onset a (h a ha).2.1 k s).2 ⟨m, hm, g⟩
    exact ⟨n, ⟨a, ha, hn⟩, g'⟩
  · rintro ⟨n, ⟨a, ha, hn⟩, g⟩
    obtain ⟨m, hm, g'⟩ := (notes_onset a (h a ha).2.1 k s).1 ⟨n, hn, g⟩
    exact ⟨m, ⟨a, ha, hm⟩, g'⟩

/-! ## C15: timed signature lists through `normalise` -/

/-- drop every entry whose value repeats the value in force (`p` to start with) -/
def dedupBy {α β} [DecidableEq β] (val : α → β) : β → List α → List α
  | _, [] => []
  | p, x :: xs => if p = val x then dedupBy val p xs else x :: dedupBy val (val x) xs

theorem dedupBy_snoc {α β} [DecidableEq β] (val : α → β) (l : List α) (x : α) : ∀ p,
    dedupBy val p (l ++ [x]) = dedupBy val p l ++ (if lastD p (l.map val) = val x then [] else [x]) := by
  induction l with
  | nil => intro p; by_cases h : p = val x <;> simp [dedupBy, lastD, h]
  | cons y ys ih =>
    intro p
    simp only [List.cons_append, dedupBy, List.map_cons, lastD]
    split
    · rename_i h
      rw [ih p, ← h]
    · rw [ih (val y)]; rfl

/-- the time signatures of a timed event list as (tick, numerator, denominator) -/
def tsT (E : List Msg) : List (Int × Int × Int) :=
  (E.filter (fun m => m.ty == .timeSignature)).map (fun m => (m.time, m.num, m.den))
/-- the key signatures of a timed event list as (tick, key) -/
def ksT (E : List Msg) : List (Int × Int) :=
  (E.filter (fun m => m.ty == .keySignature)).map (fun m => (m.time, m.key))

def tsV (x : Int × Int × Int) : Int × Int := (x.2.1, x.2.2)
def ksV (x : Int × Int) : Int := x.2

theorem tsT_append (a b : List Msg) : tsT (a ++ b) = tsT a ++ tsT b := by simp [tsT]
theorem ksT_append (a b : List Msg) : ksT (a ++ b) = ksT a ++ ksT b := by simp [ksT]

theorem tsT_vals (r : List Msg) : ∀ c : Int, (tsT (eventsRelGo c r)).map tsV = tsVals r := by
  induction r with
  | nil => intro c; rfl
  | cons m ms ih =>
    intro c
    by_cases hw : m.ty = .wait
    · simp only [eventsRelGo, hw, beq_self_eq_true, if_true, ih]
      simp [tsVals, hw]
    · by_cases ht : m.ty = .timeSignature
      · simp only [eventsRelGo, beq_iff_eq, hw, if_false]
        have := ih c
        simp only [tsT, tsVals, List.filter_cons, ht, beq_self_eq_true, if_true, List.map_cons, tsV] at this ⊢
        rw [this]
      · simp only [eventsRelGo, beq_iff_eq, hw, if_false]
        have := ih c
        simp only [tsT, tsVals, List.filter_cons, ht, beq_iff_eq, if_false] at this ⊢
        exact this

theorem ksT_vals (r : List Msg) : ∀ c : Int, (ksT (eventsRelGo c r)).map ksV = ksVals r := by
  induction r with
  | nil => intro c; rfl
  | cons m ms ih =>
    intro c
    by_cases hw : m.ty = .wait
    · simp only [eventsRelGo, hw, beq_self_eq_true, if_true, ih]
      simp [ksVals, hw]
    · by_cases ht : m.ty = .keySignature
      · simp only [eventsRelGo, beq_iff_eq, hw, if_false]
        have := ih c
        simp only [ksT, ksVals, List.filter_cons, ht, beq_self_eq_true, if_true, List.map_cons, ksV] at this ⊢
        rw [this]
      · simp only [eventsRelGo, beq_iff_eq, hw, if_false]
        have := ih c
        simp only [ksT, ksVals, List.filter_cons, ht, beq_iff_eq, if_false] at this ⊢
        exact this

structure InvTS (pre : List Msg) (s : NormSt) : Prop where
  ts : tsT (eventsRelGo 0 (msgs s.O)) = dedupBy tsV (pyNone, pyNone) (tsT (eventsRelGo 0 pre))
  ks : ksT (eventsRelGo 0 (msgs s.O)) = dedupBy ksV pyNone (ksT (eventsRelGo 0 pre))

theorem invTS_init : InvTS [] {} := ⟨rfl, rfl⟩

theorem invTS_step (pre : List Msg) (s : NormSt) (m : Msg) (hT : InvT pre s) (hS : InvS pre s)
    (h : InvTS pre s) : InvTS (pre ++ [m]) (normStep s m) := by
  have hev := step_events pre s m hT
  have hsn := events_snoc pre m 0
  simp only [Int.zero_add] at hsn
  constructor
  · rw [hev, hsn, tsT_append, tsT_append, h.ts]
    by_cases hm : m.ty = .timeSignature
    · have hw : m.ty ≠ .wait := by rw [hm]; simp
      have h1 : tsT [stamp m (totalWait pre)] = [(totalWait pre, m.num, m.den)] := by simp [tsT, stamp, hm]
      rw [if_neg hw, h1, dedupBy_snoc, tsT_vals, ← hS.ts]
      congr 1
      have hk : keep s m = (m.num != s.tsNum || m.den != s.tsDen) := by simp [keep, hm]
      by_cases hk' : keep s m = true
      · have : ¬ (s.tsNum, s.tsDen) = (m.num, m.den) := by
          intro he; rw [Prod.mk.injEq] at he; simp [hk, he.1, he.2] at hk'
        simp [hk', h1, tsV, this]
      · have : (s.tsNum, s.tsDen) = (m.num, m.den) := by
          rw [hk] at hk'; simp at hk'; rw [hk'.1, hk'.2]
        simp [hk', tsV, this, tsT]
    · have h1 : ∀ t, tsT [stamp m t] = [] := by intro t; simp [tsT, stamp, hm]
      have h2 : tsT (if keep s m = true then [stamp m (totalWait pre)] else []) = [] := by
        split
        · exact h1 _
        · rfl
      have h3 : tsT (if m.ty = .wait then [] else [stamp m (totalWait pre)]) = [] := by
        split
        · rfl
        · exact h1 _
      rw [h2, h3, List.append_nil, List.append_nil]
  · rw [hev, hsn, ksT_append, ksT_append, h.ks]
    by_cases hm : m.ty = .keySignature
    · have hw : m.ty ≠ .wait := by rw [hm]; simp
      have h1 : ksT [stamp m (totalWait pre)] = [(totalWait pre, m.key)] := by simp [ksT, stamp, hm]
      rw [if_neg hw, h1, dedupBy_snoc, ksT_vals, ← hS.ks]
      congr 1
      have hk : keep s m = (m.key != s.key) := by simp [keep, hm]
      by_cases hk' : keep s m = true
      · have : ¬ s.key = m.key := by
          intro he; simp [hk, he] at hk'
        simp [hk', h1, ksV, this]
      · have : s.key = m.key := by
          rw [hk] at hk'; simp at hk'; rw [hk']
        simp [hk', ksV, this, ksT]
    · have h1 : ∀ t, ksT [stamp m t] = [] := by intro t; simp [ksT, stamp, hm]
      have h2 : ksT (if keep s m = true then [stamp m (totalWait pre)] else []) = [] := by
        split
        · exact h1 _
        · rfl
      have h3 : ksT (if m.ty = .wait then [] else [stamp m (totalWait pre)]) = [] := by
        split
        · rfl
        · exact h1 _
      rw [h2, h3, List.append_nil, List.append_nil]

theorem inv_ts (r : List Msg) (hr : NonNegWaits r) : InvTS r (r.foldl normStep {}) := by
  have := fold_inv (fun pre post s => NonNegWaits (pre ++ post) → InvT pre s ∧ InvS pre s ∧ InvTS pre s)
    (fun pre m post s h hnn => by
      have hnn' : NonNegWaits (pre ++ m :: post) := by simpa using hnn
      have ⟨hT, hS, hTS⟩ := h hnn'
      have hm : m.ty = .wait → 0 ≤ m.time := hnn' m (by simp)
      exact ⟨invT_step pre s m hm hT, invS_step pre s m hS, invTS_step pre s m hT hS hTS⟩) r [] {}
      (fun _ => ⟨invT_init, invS_init, invTS_init⟩)
  simp only [List.nil_append, List.append_nil] at this
  exact (this hr).2.2

/-- **timed time signatures through `normalise`**: exactly the input's time-signature events, at their
    ticks, minus those that repeat the signature in force -/
theorem normalise_tsT (r : List Msg) (hr : NonNegWaits r) :
    tsT (eventsRel (normalise r)) = dedupBy tsV (pyNone, pyNone) (tsT (eventsRel r)) := by
  have ⟨hA, _, _⟩ := inv_basic r
  have hTS := inv_ts r hr
  rw [normalise_eq]
  simp only [eventsRel, tsT]
  rw [eventsRelGo_filter_filter (fun m => m.ty == .timeSignature) (fun _ _ => rfl), events_full]
  · exact hTS.ts
  · intro e he hq
    have := (Q_false hA e he hq).2.1
    simp [this]

theorem normalise_ksT (r : List Msg) (hr : NonNegWaits r) :
    ksT (eventsRel (normalise r)) = dedupBy ksV pyNone (ksT (eventsRel r)) := by
  have ⟨hA, _, _⟩ := inv_basic r
  have hTS := inv_ts r hr
  rw [normalise_eq]
  simp only [eventsRel, ksT]
  rw [eventsRelGo_filter_filter (fun m => m.ty == .keySignature) (fun _ _ => rfl), events_full]
  · exact hTS.ks
  · intro e he hq
    have := (Q_false hA e he hq).2.1
    simp [this]

/-- **the timed signature lists of the merge** -/
theorem merge_tsT (as : List (List Msg)) (h : ∀ a ∈ as, OkAbs a) :
    tsT (mergeEv as) = dedupBy tsV (pyNone, pyNone) (tsT (sortAbs as.flatten))
    ∧ ksT (mergeEv as) = dedupBy ksV pyNone (ksT (sortAbs as.flatten)) := by
  obtain ⟨hUs, hUn, hUw⟩ := MergeL.okAbs_sort as h
  have hev : eventsRel (toRel (sortAbs as.flatten)) = eventsAbs (sortAbs as.flatten) :=
    eventsRelGo_toRelGo _ 0 ((timeSorted_iff_pairwise _).1 hUs) hUn hUw
  have hnn : NonNegWaits (toRel (sortAbs as.flatten)) := fun m hm => (toRelGo_ok _ 0 hUw m hm).1
  have e1 : tsT (eventsAbs (sortAbs as.flatten)) = tsT (sortAbs as.flatten) := by
    simp only [tsT, eventsAbs, List.filter_filter]
    congr 2; funext m
    by_cases hm : m.ty = .timeSignature <;> simp [hm]
  have e2 : ksT (eventsAbs (sortAbs as.flatten)) = ksT (sortAbs as.flatten) := by
    simp only [ksT, eventsAbs, List.filter_filter]
    congr 2; funext m
    by_cases hm : m.ty = .keySignature <;> simp [hm]
  exact ⟨by rw [mergeEv, normalise_tsT _ hnn, hev, e1], by rw [mergeEv, normalise_ksT _ hnn, hev, e2]⟩

/-! ## C15: a concrete fusion function -/

/-- notes ordered by channel, then pitch, then onset -/
def leN (n n' : Note) : Prop :=
  n.ch < n'.ch ∨ (n.ch = n'.ch ∧ (n.pitch < n'.pitch ∨ (n.pitch = n'.pitch ∧ n.on ≤ n'.on)))

instance (n n' : Note) : Decidable (leN n n') := by unfold leN; infer_instance

def leNb (n n' : Note) : Bool := decide (leN n n')

/-- one sweep over the notes sorted by (channel, pitch, onset): a note that starts before the current
    one of its key has ended extends it, any other note closes it -/
def sweep : Note → List Note → List Note
  | cur, [] => [cur]
  | cur, n :: ns =>
    if n.ch = cur.ch ∧ n.pitch = cur.pitch ∧ n.on < cur.off then
      sweep { cur with off := max cur.off n.off } ns
    else cur :: sweep n ns

/-- **the fusion of a list of notes**: sort by (channel, pitch, onset), sweep once.  The fused note keeps
    the velocity of the first note of its chain. -/
def fuse (N : List Note) : List Note :=
  match isort leNb N with
  | [] => []
  | n :: ns => sweep n ns

theorem leN_total (a b : Note) : leN a b ∨ leN b a := by unfold leN; omega
theorem leN_trans {a b c : Note} (h1 : leN a b) (h2 : leN b c) : leN a c := by unfold leN at *; omega

theorem insN_sorted (x : Note) (l : List Note) (h : l.Pairwise leN) : (ins leNb x l).Pairwise leN := by
  induction l with
  | nil => simp [ins]
  | cons y ys ih =>
    rw [List.pairwise_cons] at h
    simp only [ins]
    split
    · rename_i hle
      have hle' : leN x y := by simpa [leNb] using hle
      refine List.pairwise_cons.2 ⟨?_, List.pairwise_cons.2 h⟩
      intro z hz
      rcases List.mem_cons.1 hz with rfl | hz
      · exact hle'
      · exact leN_trans hle' (h.1 z hz)
    · rename_i hle
      have hle' : ¬ leN x y := by simpa [leNb] using hle
      refine List.pairwise_cons.2 ⟨?_, ih h.2⟩
      intro z hz
      rcases List.mem_cons.1 ((ins_perm leNb x ys).mem_iff.1 hz) with rfl | hz
      · rcases leN_total z y with h' | h'
        · exact absurd h' hle'
        · exact h'
      · exact h.1 z hz

theorem isortN_sorted (l : List Note) : (isort leNb l).Pairwise leN := by
  induction l with
  | nil => simp [isort]
  | cons x xs ih => exact insN_sorted x _ ih

/-- the order of the output of the sweep: by key, and within a key separated in time -/
def sepN (m m' : Note) : Prop :=
  m.ch < m'.ch ∨ (m.ch = m'.ch ∧ (m.pitch < m'.pitch ∨ (m.pitch = m'.pitch ∧ m.off ≤ m'.on)))

/-- what the sweep is run on: sorted, bounded below by the current note, every note positive -/
structure SweepIn (cur : Note) (L : List Note) : Prop where
  sorted : L.Pairwise leN
  lb : ∀ n ∈ L, leN cur n
  pos : cur.on < cur.off
  posL : ∀ n ∈ L, n.on < n.off

theorem SweepIn.fuse_step {cur n : Note} {ns : List Note} (h : SweepIn cur (n :: ns))
    (_hc : n.ch = cur.ch ∧ n.pitch = cur.pitch ∧ n.on < cur.off) :
    SweepIn { cur with off := max cur.off n.off } ns := by
  obtain ⟨hs, hl, hp, hpl⟩ := h
  rw [List.pairwise_cons] at hs
  refine ⟨hs.2, ?_, by simp only; omega, fun x hx => hpl x (List.mem_cons_of_mem _ hx)⟩
  intro x hx
  have := hl x (List.mem_cons_of_mem _ hx)
  unfold leN at *
  simpa using this

theorem SweepIn.next_step {cur n : Note} {ns : List Note} (h : SweepIn cur (n :: ns)) : SweepIn n ns := by
  obtain ⟨hs, hl, hp, hpl⟩ := h
  rw [List.pairwise_cons] at hs
  exact ⟨hs.2, hs.1, hpl n (by simp), fun x hx => hpl x (List.mem_cons_of_mem _ hx)⟩

theorem sweep_struct : ∀ (L : List Note) (cur : Note), SweepIn cur L →
    (sweep cur L).Pairwise sepN ∧ (∀ m ∈ sweep cur L, m.on < m.off ∧ leN cur m) := by
  intro L
  induction L with
  | nil =>
    intro cur h
    simp only [sweep, List.pairwise_cons, List.not_mem_nil, false_implies, implies_true, List.Pairwise.nil,
      and_self, List.mem_cons, or_false, forall_eq, true_and]
    exact ⟨h.pos, by unfold leN; omega⟩
  | cons n ns ih =>
    intro cur h
    have hn := h.lb n (by simp)
    simp only [sweep]
    split
    · rename_i hc
      obtain ⟨r1, r2⟩ := ih _ (h.fuse_step hc)
      refine ⟨r1, fun m hm => ⟨(r2 m hm).1, ?_⟩⟩
      have := (r2 m hm).2
      unfold leN at *
      simpa using this
    · rename_i hc
      obtain ⟨r1, r2⟩ := ih n h.next_step
      refine ⟨List.pairwise_cons.2 ⟨?_, r1⟩, ?_⟩
      · intro m hm
        have := (r2 m hm).2
        unfold leN sepN at *
        omega
      · intro m hm
        rcases List.mem_cons.1 hm with rfl | hm
        · exact ⟨h.pos, by unfold leN; omega⟩
        · exact ⟨(r2 m hm).1, leN_trans hn (r2 m hm).2⟩

theorem sweep_cover : ∀ (L : List Note) (cur : Note) (k : Int × Int) (t : Int), SweepIn cur L →
    ((∃ m ∈ sweep cur L, Covers m k t) ↔ (∃ n ∈ cur :: L, Covers n k t)) := by
  intro L
  induction L with
  | nil => intro cur k t _; simp [sweep]
  | cons n ns ih =>
    intro cur k t h
    have hn := h.lb n (by simp)
    obtain ⟨k1, k2⟩ := k
    simp only [sweep]
    split
    · rename_i hc
      rw [ih _ (k1, k2) t (h.fuse_step hc)]
      simp only [List.mem_cons, exists_eq_or_imp, Covers, nkeyN, Prod.mk.injEq]
      unfold leN at hn
      constructor
      · rintro (⟨h1, h2, h3⟩ | hx)
        · by_cases c : t < cur.off
          · exact Or.inl ⟨h1, h2, c⟩
          · exact Or.inr (Or.inl ⟨⟨by omega, by omega⟩, by omega, by omega⟩)
        · exact Or.inr (Or.inr hx)
      · rintro (⟨h1, h2, h3⟩ | ⟨h1, h2, h3⟩ | hx)
        · exact Or.inl ⟨h1, h2, by omega⟩
        · exact Or.inl ⟨⟨by omega, by omega⟩, by omega, by omega⟩
        · exact Or.inr hx
    · simp only [List.mem_cons, exists_eq_or_imp]
      rw [ih n (k1, k2) t h.next_step]
      simp only [List.mem_cons, exists_eq_or_imp]

theorem sweep_onset : ∀ (L : List Note) (cur : Note) (k : Int × Int) (s : Int), SweepIn cur L →
    ((∃ m ∈ sweep cur L, nkeyN m = k ∧ m.on = s) ↔
      ((∃ n ∈ cur :: L, nkeyN n = k ∧ n.on = s) ∧ ¬ ∃ n' ∈ cur :: L, nkeyN n' = k ∧ n'.on < s ∧ s < n'.off)) := by
  intro L
  induction L with
  | nil =>
    intro cur k s _
    simp only [sweep, List.mem_cons, List.not_mem_nil, or_false, exists_eq_left]
    constructor
    · rintro ⟨h1, h2⟩; exact ⟨⟨h1, h2⟩, by rintro ⟨_, h3, _⟩; omega⟩
    · rintro ⟨h, _⟩; exact h
  | cons n ns ih =>
    intro cur k s h
    have hn := h.lb n (by simp)
    have hp := h.pos
    have hpn := h.posL n (by simp)
    obtain ⟨k1, k2⟩ := k
    simp only [sweep]
    split
    · rename_i hc
      rw [ih _ (k1, k2) s (h.fuse_step hc)]
      simp only [List.mem_cons, exists_eq_or_imp, nkeyN, Prod.mk.injEq]
      unfold leN at hn
      constructor
      · rintro ⟨h1, h2⟩
        refine ⟨?_, ?_⟩
        · rcases h1 with h1 | h1
          · exact Or.inl h1
          · exact Or.inr (Or.inr h1)
        · rintro (⟨g1, g2, g3⟩ | ⟨g1, g2, g3⟩ | g)
          · exact h2 (Or.inl ⟨g1, g2, by omega⟩)
          · exact h2 (Or.inl ⟨⟨by omega, by omega⟩, by omega, by omega⟩)
          · exact h2 (Or.inr g)
      · rintro ⟨h1, h2⟩
        refine ⟨?_, ?_⟩
        · rcases h1 with h1 | ⟨g1, g2⟩ | h1
          · exact Or.inl h1
          · by_cases c : cur.on = n.on
            · exact Or.inl ⟨⟨by omega, by omega⟩, by omega⟩
            · exact absurd (Or.inl ⟨⟨by omega, by omega⟩, by omega, by omega⟩) h2
          · exact Or.inr h1
        · rintro (⟨g1, g2, g3⟩ | g)
          · by_cases c : s < cur.off
            · exact h2 (Or.inl ⟨g1, g2, c⟩)
            · exact h2 (Or.inr (Or.inl ⟨⟨by omega, by omega⟩, by omega, by omega⟩))
          · exact h2 (Or.inr (Or.inr g))
    · rename_i hc
      simp only [List.mem_cons, exists_eq_or_imp]
      rw [ih n (k1, k2) s h.next_step]
      simp only [List.mem_cons, exists_eq_or_imp, nkeyN, Prod.mk.injEq]
      have hsorted := h.sorted
      rw [List.pairwise_cons] at hsorted
      have hlb := h.lb
      unfold leN at hn
      constructor
      · rintro (⟨g1, g2⟩ | ⟨h1, h2⟩)
        · refine ⟨Or.inl ⟨g1, g2⟩, ?_⟩
          rintro (⟨_, g3, _⟩ | ⟨g3, g4, _⟩ | ⟨x, hx, g3, g4, _⟩)
          · omega
          · omega
          · have := hlb x (List.mem_cons_of_mem _ hx)
            unfold leN at this
            omega
        · refine ⟨Or.inr h1, ?_⟩
          rintro (⟨g1, g2, g3⟩ | g)
          · rcases h1 with ⟨e1, e2⟩ | ⟨x, hx, e1, e2⟩
            · exact hc ⟨by omega, by omega, by omega⟩
            · have h3 := hsorted.1 x hx
              unfold leN at h3
              exact hc ⟨by omega, by omega, by omega⟩
          · exact h2 g
      · rintro ⟨h1, h2⟩
        rcases h1 with h1 | h1
        · exact Or.inl h1
        · exact Or.inr ⟨h1, fun g => h2 (Or.inr g)⟩

/-- the sweep computes a fusion: separated output, same cover, onsets = input onsets not strictly inside
    an input note of the key -/
theorem fuse_spec (N : List Note) (hpos : ∀ n ∈ N, n.on < n.off) :
    Sep (fuse N)
    ∧ (∀ k t, (∃ m ∈ fuse N, Covers m k t) ↔ (∃ n ∈ N, Covers n k t))
    ∧ (∀ k s, (∃ m ∈ fuse N, nkeyN m = k ∧ m.on = s) ↔
        ((∃ n ∈ N, nkeyN n = k ∧ n.on = s) ∧ ¬ ∃ n' ∈ N, nkeyN n' = k ∧ n'.on < s ∧ s < n'.off)) := by
  have hperm := isort_perm leNb N
  have hsorted := isortN_sorted N
  unfold fuse
  cases hL : isort leNb N with
  | nil =>
    rw [hL] at hperm
    have : N = [] := List.Perm.eq_nil hperm.symm
    subst this
    simp only []
    exact ⟨⟨by simp, by simp, List.nodup_nil⟩, by simp, by simp⟩
  | cons n ns =>
    rw [hL] at hperm hsorted
    simp only []
    have hin : SweepIn n ns := by
      rw [List.pairwise_cons] at hsorted
      exact ⟨hsorted.2, hsorted.1, hpos n (hperm.mem_iff.1 (by simp)),
        fun x hx => hpos x (hperm.mem_iff.1 (List.mem_cons_of_mem _ hx))⟩
    obtain ⟨r1, r2⟩ := sweep_struct ns n hin
    have ex : ∀ P : Note → Prop, (∃ x ∈ n :: ns, P x) ↔ (∃ x ∈ N, P x) := by
      intro P
      constructor
      · rintro ⟨x, hx, hp⟩; exact ⟨x, hperm.mem_iff.1 hx, hp⟩
      · rintro ⟨x, hx, hp⟩; exact ⟨x, hperm.mem_iff.2 hx, hp⟩
    refine ⟨⟨fun m hm => (r2 m hm).1, ?_, ?_⟩, ?_, ?_⟩
    · intro m hm m' hm' hne hk
      simp only [nkeyN, Prod.mk.injEq] at hk
      rcases pairwise_mem r1 hm hm' with e | e | e
      · exact absurd e hne
      · unfold sepN at e; omega
      · unfold sepN at e; omega
    · rw [List.nodup_iff_pairwise_ne]
      have hall : (sweep n ns).Pairwise (fun a _ => a ∈ sweep n ns) := by
        rw [List.pairwise_iff_forall_sublist]
        intro a b hab
        exact hab.subset (by simp)
      refine (r1.and hall).imp ?_
      rintro a b ⟨hs, ha⟩ e
      subst e
      have := (r2 a ha).1
      unfold sepN at hs
      omega
    · intro k t
      rw [sweep_cover ns n k t hin, ex]
    · intro k s
      rw [sweep_onset ns n k s hin, ex, ex]

/-! ## C15: the merge only sees the canonically sorted inputs -/

/-- a canonically sorted list is determined by its sub-lists of each sort key -/
theorem eq_of_sorted_keys : ∀ (l l' : List Msg), l.Pairwise EQ.KLe → l'.Pairwise EQ.KLe →
    (∀ v, l.filter (fun m => decide (EQ.key4 m = v)) = l'.filter (fun m => decide (EQ.key4 m = v))) → l = l' := by
  intro l
  induction l with
  | nil =>
    intro l' _ _ h
    cases l' with
    | nil => rfl
    | cons y ys => have := h (EQ.key4 y); simp at this
  | cons x xs ih =>
    intro l' hs hs' h
    cases l' with
    | nil => have := h (EQ.key4 x); simp at this
    | cons y ys =>
      rw [List.pairwise_cons] at hs hs'
      have hxy : x = y := by
        by_cases ht : EQ.key4 x = EQ.key4 y
        · have := h (EQ.key4 x)
          simp only [List.filter_cons, decide_true, if_true, ← ht] at this
          exact (List.cons.inj this).1
        · exfalso
          have hx : x ∈ (y :: ys).filter (fun m => decide (EQ.key4 m = EQ.key4 x)) := by rw [← h (EQ.key4 x)]; simp
          have hy : y ∈ (x :: xs).filter (fun m => decide (EQ.key4 m = EQ.key4 y)) := by rw [h (EQ.key4 y)]; simp
          have hx' : x ∈ ys := by
            rcases List.mem_cons.1 (List.mem_filter.1 hx).1 with e | e
            · exact absurd (e ▸ rfl) ht
            · exact e
          have hy' : y ∈ xs := by
            rcases List.mem_cons.1 (List.mem_filter.1 hy).1 with e | e
            · exact absurd (e ▸ rfl) ht
            · exact e
          have := EQ.keyLe_antisymm (hs.1 y hy') (hs'.1 x hx')
          exact ht (by simp [EQ.key4, this.1, this.2.1, this.2.2.1, this.2.2.2])
      subst hxy
      congr 1
      apply ih ys hs.2 hs'.2
      intro v
      have := h v
      by_cases hv : EQ.key4 x = v
      · simp only [List.filter_cons, hv, decide_true, if_true] at this
        exact (List.cons.inj this).2
      · simpa only [List.filter_cons, hv, decide_false, Bool.false_eq_true, if_false] using this

theorem sortAbs_filter_key (l : List Msg) (v : Int × Int × Nat × Int) :
    (sortAbs l).filter (fun m => decide (EQ.key4 m = v)) = l.filter (fun m => decide (EQ.key4 m = v)) := by
  rw [EQ.filter_sortAbs, sortAbs]
  apply EQ.isort_of_pairwise
  rw [List.pairwise_iff_forall_sublist]
  intro a b hab
  have ha : a ∈ l.filter (fun m => decide (EQ.key4 m = v)) := hab.subset (by simp)
  have hb : b ∈ l.filter (fun m => decide (EQ.key4 m = v)) := hab.subset (by simp)
  have ea : EQ.key4 a = v := by simpa using (List.mem_filter.1 ha).2
  have eb : EQ.key4 b = v := by simpa using (List.mem_filter.1 hb).2
  have : EQ.key4 a = EQ.key4 b := ea.trans eb.symm
  simp only [EQ.key4, Prod.mk.injEq] at this
  rw [EQ.keyLe_iff]
  omega

/-- sorting the inputs first does not change the sorted union (the sort is stable) -/
theorem sortAbs_flatten_map (as : List (List Msg)) : sortAbs (as.map sortAbs).flatten = sortAbs as.flatten := by
  apply eq_of_sorted_keys _ _ (EQ.sortAbs_sorted _) (EQ.sortAbs_sorted _)
  intro v
  rw [sortAbs_filter_key, sortAbs_filter_key, List.filter_flatten, List.filter_flatten, List.map_map]
  congr 1
  apply List.map_congr_left
  intro a _
  exact sortAbs_filter_key a v

theorem mergeEv_sort (as : List (List Msg)) : mergeEv (as.map sortAbs) = mergeEv as := by
  simp only [mergeEv, sortAbs_flatten_map]

/-- an absolute view whose canonical sort is well-formed is a good input once sorted — in particular it
    has no zero-length note -/
theorem goodIn_sort (a : List Msg) (h : OkAbs a) (hwf : WF (sortAbs a)) : GoodIn (sortAbs a) := by
  refine ⟨⟨sortAbs_timeSorted a, ?_, ?_⟩, hwf, posDur_of_sorted _ hwf (EQ.sortAbs_sorted a)⟩
  · intro m hm; exact h.2.1 m ((mem_sortAbs a m).1 hm)
  · intro m hm; exact h.2.2 m ((mem_sortAbs a m).1 hm)

end SCoda.NotesBL
