/-
  Helper lemmas for `Props/HeapTie3.lean`: the `Sat` reading (Lemmas/HeapTie2L.lean) of the primitives of `Model/HeapLib3.lean` and of the
  callees of the four translated view-level methods (`Gen/HeapFns3.lean`), the invariants `Inv` / `Ctx` of HeapTie2L extended by stores
  into cells allocated since the call began, the invariant `InvM` of the two methods that re-bind / extend the receiver's list, and the
  `Sat` statements of the four methods.
-/
import SCoda.Gen.HeapFns3
import SCoda.Lemmas.HeapTie2L
namespace SCoda.HeapTie3L
open SCoda SCoda.HeapOps SCoda.HeapLib SCoda.Gen.HeapFns SCoda.Gen.HeapFns3 SCoda.HeapTieL SCoda.HeapTie2L

/-! ## `Sat` of the primitives of HeapLib3 -/

@[simp] theorem sat_needInt (x : Int) (h : Heap) (Q : Unit → Heap → Prop) (E : Heap → Prop) :
    Sat (HeapLib3.needInt x) h Q E ↔ (x ≠ pyNone → Q () h) ∧ (x = pyNone → E h) := by
  unfold HeapLib3.needInt
  by_cases hx : x = pyNone <;> simp [hx, Sat, HM.fail, pure]

@[simp] theorem sat_liftSort {α : Type} (r : Except SortLib.SortErr α) (h : Heap) (Q : α → Heap → Prop) (E : Heap → Prop) :
    Sat (HeapLib3.liftSort r) h Q E ↔ (∀ a, r = .ok a → Q a h) ∧ ((∃ e, r = .error e) → E h) := by
  cases r with
  | ok a => simp [HeapLib3.liftSort, Sat, pure]
  | error e => simp [HeapLib3.liftSort, Sat, HM.fail]

/-- `xs[i]` as a pure function (`none` = `IndexError`) -/
def pyIndex? {α : Type} (xs : List α) (i : Int) : Option α :=
  let j : Int := if i < 0 then i + xs.length else i
  if j < 0 then none else xs[j.toNat]?

theorem pyIndex_eq {α : Type} (xs : List α) (i : Int) :
    HeapLib3.pyIndex xs i = (match pyIndex? xs i with | some a => pure a | none => HM.fail .index) := by
  unfold HeapLib3.pyIndex pyIndex?
  by_cases hneg : (if i < 0 then i + ↑xs.length else i) < 0
  · simp only [hneg, if_true]
  · simp only [hneg, if_false]; rfl

theorem pyIndex?_mem {α : Type} {xs : List α} {i : Int} {a : α} (h : pyIndex? xs i = some a) : a ∈ xs := by
  unfold pyIndex? at h
  by_cases hneg : (if i < 0 then i + ↑xs.length else i) < 0
  · simp [hneg] at h
  · simp only [hneg, if_false] at h
    exact List.mem_of_getElem? h

@[simp] theorem sat_pyIndex {α : Type} (xs : List α) (i : Int) (h : Heap) (Q : α → Heap → Prop) (E : Heap → Prop) :
    Sat (HeapLib3.pyIndex xs i) h Q E ↔ (∀ a, pyIndex? xs i = some a → Q a h) ∧ (pyIndex? xs i = none → E h) := by
  rw [pyIndex_eq]
  cases pyIndex? xs i <;> simp [Sat, HM.fail, pure]

@[simp] theorem sat_dictGet {κ ν : Type} [DecidableEq κ] (d : List (κ × ν)) (k : κ) (h : Heap) (Q : ν → Heap → Prop) (E : Heap → Prop) :
    Sat (HeapLib3.dictGet d k) h Q E ↔ (∀ v, HeapLib3.dictGet? d k = some v → Q v h) ∧ (HeapLib3.dictGet? d k = none → E h) := by
  unfold HeapLib3.dictGet
  cases HeapLib3.dictGet? d k <;> simp [Sat, HM.fail, pure]

@[simp] theorem sat_dropLastM {α : Type} (xs : List α) (h : Heap) (Q : List α → Heap → Prop) (E : Heap → Prop) :
    Sat (HeapLib3.dropLastM xs) h Q E ↔ (xs ≠ [] → Q xs.dropLast h) ∧ (xs = [] → E h) := by
  cases xs <;> simp [HeapLib3.dropLastM, Sat, HM.fail, pure]

@[simp] theorem sat_messageCopy (g : GOrc) (tag i : Nat) (h : Heap) (Q : Nat → Heap → Prop) (E : Heap → Prop) :
    Sat (messageCopy g tag i) h Q E ↔ Q h.nMsg (h.newMsg (normCh (h.msg i))).1 :=
  sat_of_run (messageCopy_run g tag i h) Q E

@[simp] theorem sat_absoluteSequenceInit_none (g : GOrc) (tag i : Nat) (h : Heap) (Q : Unit → Heap → Prop) (E : Heap → Prop) :
    Sat (absoluteSequenceInit g tag i none) h Q E ↔ Q () (h.setLst i []) :=
  sat_of_run (by unfold absoluteSequenceInit; exact abstractSequenceInit_none g tag i h) Q E

@[simp] theorem sat_addMessageUnsorted (g : GOrc) (tag l i : Nat) (h : Heap) (Q : Unit → Heap → Prop) (E : Heap → Prop) :
    Sat (absoluteSequenceAddMessageUnsorted g tag l i) h Q E ↔ Q () (h.setLst l (h.lst l ++ [i])) := Iff.rfl

@[simp] theorem msg_newMsg_self (h : Heap) (m : Msg) : (h.newMsg m).1.msg h.nMsg = m := by simp [Heap.newMsg]
@[simp] theorem lst_newMsg (h : Heap) (m : Msg) : (h.newMsg m).1.lst = h.lst := rfl
@[simp] theorem nLst_newMsg (h : Heap) (m : Msg) : (h.newMsg m).1.nLst = h.nLst := rfl
@[simp] theorem nMsg_newMsg (h : Heap) (m : Msg) : (h.newMsg m).1.nMsg = h.nMsg + 1 := rfl
@[simp] theorem nMsg_setLst (h : Heap) (l : Nat) (ids : List Nat) : (h.setLst l ids).nMsg = h.nMsg := rfl
@[simp] theorem nLst_setLst (h : Heap) (l : Nat) (ids : List Nat) : (h.setLst l ids).nLst = h.nLst := rfl
@[simp] theorem msg_setLst' (h : Heap) (l : Nat) (ids : List Nat) : (h.setLst l ids).msg = h.msg := rfl

theorem normCh_ch (m : Msg) : (normCh m).ch ≠ pyNone := by
  simp only [normCh]
  split <;> simp_all [pyNone]

/-! ## the invariant of HeapTie2L, for arbitrary new messages, stores into new message cells and re-bound lists of new views -/

/-- a new message cell with any value that has a channel -/
theorem _root_.SCoda.HeapTie2L.Inv.newMsgV {h0 : Heap} {src : List Nat} {h : Heap} (hi : Inv h0 src h) (m : Msg) (hch : m.ch ≠ pyNone) :
    Inv h0 src (h.newMsg m).1 := by
  have hm := hi.nMsg_le
  refine ⟨⟨?_, ?_⟩, hi.kinds, ?_, ?_⟩
  · intro k; have := hi.ext.1 k; cases k <;> simp_all [Heap.newMsg, Heap.next] <;> omega
  · rintro ⟨k, i⟩ hc
    have := hi.ext.2 (k, i) hc
    cases k <;> simp_all [Heap.newMsg, Heap.get, Heap.alloc, Heap.next]
    omega
  · intro p hp i hmem
    exact (hi.views p hp i hmem).mono (by simp [Heap.newMsg])
  · intro i h1 h2
    by_cases he : i = h.nMsg
    · subst he; simp only [Heap.newMsg, if_true]; exact hch
    · have : i < h.nMsg := by simp [Heap.newMsg] at h2; omega
      simp only [Heap.newMsg, he, if_false]; exact hi.chan i h1 this

/-- the list of a view allocated since the call began is re-bound to references the call may hold -/
theorem _root_.SCoda.HeapTie2L.Inv.setLstV {h0 : Heap} {src : List Nat} {h : Heap} (hi : Inv h0 src h) {p : Nat} (hp : OkV h0 h p) {is : List Nat}
    (his : ∀ i ∈ is, OkId h0 src h i) : Inv h0 src (h.setLst p is) := by
  refine ⟨⟨?_, ?_⟩, hi.kinds, ?_, hi.chan⟩
  · intro k; have := hi.ext.1 k; cases k <;> simp_all [Heap.setLst, Heap.next]
  · rintro ⟨k, i⟩ hc
    have := hi.ext.2 (k, i) hc
    unfold OkV at hp
    cases k <;> simp_all [Heap.setLst, Heap.get, Heap.alloc, Heap.next]
    omega
  · intro q hq i hmem
    have hq' : OkV h0 h q := hq
    by_cases he : q = p
    · subst he
      simp only [Heap.setLst, if_true] at hmem
      exact his i hmem
    · simp only [Heap.setLst, he, if_false] at hmem
      exact hi.views q hq' i hmem

theorem _root_.SCoda.HeapTie2L.Ctx.newMsgV {h0 : Heap} {src : List Nat} {h : Heap} {vs ids : List Nat} (hc : Ctx h0 src h vs ids) (m : Msg)
    (hch : m.ch ≠ pyNone) : Ctx h0 src (h.newMsg m).1 vs (h.nMsg :: ids) := by
  refine ⟨hc.1.newMsgV m hch, fun p hp => (hc.2.1 p hp).mono (by simp [Heap.newMsg]), fun i hi => ?_⟩
  rcases List.mem_cons.1 hi with hi | hi
  · subst hi; exact Or.inr ⟨hc.1.nMsg_le, by simp [Heap.newMsg]⟩
  · exact (hc.2.2 i hi).mono (by simp [Heap.newMsg])

theorem _root_.SCoda.HeapTie2L.Ctx.setLstV {h0 : Heap} {src : List Nat} {h : Heap} {vs ids : List Nat} (hc : Ctx h0 src h vs ids) {p : Nat} {is : List Nat}
    (hp : p ∈ vs) (his : ∀ i ∈ is, i ∈ ids ∨ i ∈ h.lst p) : Ctx h0 src (h.setLst p is) vs ids :=
  ⟨hc.1.setLstV (hc.2.1 p hp) (fun i hi => by
      rcases his i hi with h1 | h1
      · exact hc.2.2 i h1
      · exact hc.1.views p (hc.2.1 p hp) i h1), fun q hq => hc.2.1 q hq, fun i hi => hc.2.2 i hi⟩

theorem _root_.SCoda.HeapTie2L.Ctx.inv {h0 : Heap} {src : List Nat} {h : Heap} {vs ids : List Nat} (hc : Ctx h0 src h vs ids) : Inv h0 src h := hc.1

/-- a view allocated since the call began gets a list made of its own references and of references the call may hold -/
theorem _root_.SCoda.HeapTie2L.Inv.setLstApp {h0 : Heap} {src : List Nat} {h : Heap} (hi : Inv h0 src h) {p : Nat} (hp : OkV h0 h p) {is : List Nat}
    (his : ∀ i ∈ is, i ∈ h.lst p ∨ OkId h0 src h i) : Inv h0 src (h.setLst p is) :=
  hi.setLstV hp (fun i hm => by
    rcases his i hm with h1 | h1
    · exact hi.views p hp i h1
    · exact h1)

/-- side goals of the invariant steps: bounds of allocation pointers, membership, channels -/
macro "side_tac" : tactic => `(tactic| first
  | assumption
  | exact normCh_ch _
  | exact initVal_ch _ _ _ _ _ _ _ _ _ _
  | (simp only [OkV, OkId, nLst_newMsg, nLst_setLst, nMsg_newMsg, nMsg_setLst, lst_newMsg, lst_setLst, List.mem_append, List.mem_singleton,
      List.mem_cons, ne_eq] at *; first | omega | grind)
  | (simp [normCh_ch, initVal_ch]; done)
  | grind)

/-- an invariant goal, by the steps that built the heap -/
macro "inv_tac" : tactic => `(tactic| (
  repeat' (first
    | assumption
    | (apply Inv.setLstApp)
    | (apply Inv.newMsgV)
    | (apply Inv.newLst))
  all_goals side_tac))

/-- split a `Sat` goal that `simp` turned into a tree of conjunctions and implications -/
macro "sat_tree" : tactic => `(tactic| repeat' (first | (apply And.intro) | (intro (_ : _))))

/-! ## `AbsoluteSequence.to_relative_sequence` -/

theorem toRel_sat (g : GOrc) (tag l : Nat) (h0 : Heap) :
    Sat (absoluteSequenceToRelativeSequence g tag l) h0
      (fun p h => Inv h0 [] h ∧ OkV h0 h p) (fun h => Inv h0 [] h) := by
  unfold absoluteSequenceToRelativeSequence
  simp only [sat_bind, sat_get, sat_newView, sat_relativeSequenceInit_none, setLst_newLst]
  have hinit : Inv h0 [] (h0.newLst []).1 ∧ OkV h0 (h0.newLst []).1 h0.nLst :=
    ⟨(Inv.refl h0 []).newLst, by simp [OkV, Heap.newLst]⟩
  generalize (h0.newLst []).1 = h1 at hinit ⊢
  generalize h0.nLst = p at hinit ⊢
  refine Sat.mono (Q := fun (_ : Int) h => Inv h0 [] h ∧ OkV h0 h p) ?loop ?cont (fun _ he => he)
  case cont =>
    intro _ h hc
    simp only [sat_pure]
    exact hc
  case loop =>
    refine sat_forIn _ (fun _ (_ : Int) h => Inv h0 [] h ∧ OkV h0 h p) _ _ ?step (fun _ _ hi => hi) _ _ _ hinit
    rintro m _ cur h ⟨hinv, hp⟩
    have hle := hinv.nMsg_le
    simp only [sat_bind, sat_get, sat_needInt, sat_ite, sat_pure, sat_newMessage, sat_messageInit, setMsg_newMsg, sat_addMessage_none,
      sat_messageCopy, sat_modify, msg_newMsg_self, lst_newMsg, lst_setLst, nMsg_setLst, nMsg_newMsg]
    sat_tree
    all_goals inv_tac

/-! ## `AbsoluteSequence.sort` / `normalise_absolute` and `binary_insort` / `AbsoluteSequence.add_message` -/

theorem insM_perm {α ε : Type} (lt : α → α → Except ε Bool) (x : α) : ∀ (l r : List α), SortLib.insM lt x l = .ok r → r.Perm (x :: l) := by
  intro l
  induction l with
  | nil => intro r hr; simp [SortLib.insM, pure, Except.pure] at hr; subst hr; exact List.Perm.refl _
  | cons y ys ih =>
    intro r hr
    simp only [SortLib.insM, bind, Except.bind] at hr
    cases hlt : lt y x with
    | error e => simp [hlt] at hr
    | ok b =>
      simp only [hlt] at hr
      cases b with
      | false => simp [pure, Except.pure] at hr; subst hr; exact List.Perm.refl _
      | true =>
        simp only [if_true] at hr
        cases hrec : SortLib.insM lt x ys with
        | error e => simp [hrec] at hr
        | ok r' =>
          simp [hrec, pure, Except.pure] at hr
          subst hr
          exact ((ih r' hrec).cons y).trans (List.Perm.swap x y ys)

theorem isortM_perm {α ε : Type} (lt : α → α → Except ε Bool) : ∀ (l r : List α), SortLib.isortM lt l = .ok r → r.Perm l := by
  intro l
  induction l with
  | nil => intro r hr; simp [SortLib.isortM, pure, Except.pure] at hr; subst hr; exact List.Perm.refl _
  | cons x xs ih =>
    intro r hr
    simp only [SortLib.isortM, bind, Except.bind] at hr
    cases hrec : SortLib.isortM lt xs with
    | error e => simp [hrec] at hr
    | ok r' =>
      simp only [hrec] at hr
      exact (insM_perm lt x r' r hr).trans ((ih r' hrec).cons x)

theorem sortOf_perm {α : Type} (msgOf : α → Msg) (l r : List α) (h : Gen.Sort.sortOf msgOf l = .ok r) : r.Perm l := by
  unfold Gen.Sort.sortOf at h
  simp only [SortLib.pyListSort, Bool.false_eq_true, if_false, bind, Except.bind, pure, Except.pure] at h
  cases hs : SortLib.isortM (fun a b => Gen.Sort.keyLt (Gen.Sort.sortKey (msgOf a)) (Gen.Sort.sortKey (msgOf b))) l with
  | error e => simp [hs] at h
  | ok r' =>
    simp [hs] at h
    subst h
    exact isortM_perm _ l r' hs

/-- `AbsoluteSequence.sort`: the list cell of the receiver gets a permutation of its references; nothing else happens.
    When the key comparison raises, nothing is written (the model; CPython leaves the list in an unspecified order). -/
theorem sort_spec (g : GOrc) (tag p : Nat) (h : Heap) :
    Sat (absoluteSequenceSort g tag p) h (fun _ h' => ∃ r, r.Perm (h.lst p) ∧ h' = h.setLst p r) (fun h' => h' = h) := by
  unfold absoluteSequenceSort
  simp only [sat_bind, sat_get, sat_liftSort, sat_modify]
  exact ⟨fun r hr => ⟨r, sortOf_perm _ _ _ hr, rfl⟩, fun _ => trivial⟩

theorem mem_pyInsert {α : Type} {x y : α} {i : Int} {l : List α} (h : y ∈ HM.pyInsert x i l) : y = x ∨ y ∈ l := by
  unfold HM.pyInsert at h
  split at h <;> exact HeapL.mem_insertAt h

/-- `binary_insort(view._messages, msg)`: the message reference is inserted somewhere into the view's list; nothing else happens -/
theorem binaryInsort_spec (g : GOrc) (tag p m : Nat) (h : Heap) :
    Sat (binaryInsort g tag p m) h (fun _ h' => ∃ lo, h' = h.setLst p (HM.pyInsert m lo (h.lst p))) (fun h' => h' = h) := by
  unfold binaryInsort
  simp only [sat_bind, sat_get]
  refine Sat.mono (Q := fun _ h' => h' = h) ?loop ?cont (fun _ he => he)
  case cont =>
    rintro ⟨a, b, c⟩ h' rfl
    cases c <;> simp only [sat_bind, sat_fail, sat_ite, sat_pure, sat_modify, Bool.not_true, Bool.not_false]
    all_goals first | (simp; done) | exact ⟨_, rfl⟩ | (simp; exact ⟨_, rfl⟩)
  case loop =>
    refine sat_forIn _ (fun _ _ h' => h' = h) _ _ ?step (fun _ _ hi => hi) _ _ _ rfl
    rintro x _ ⟨a, b, c⟩ h' rfl
    simp only [sat_bind, sat_get, sat_needInt, sat_ite, sat_pure, sat_pyIndex]
    sat_tree
    all_goals first | rfl | trivial

theorem sat_normaliseAbsolute_of (g : GOrc) (tag p : Nat) (h : Heap) (Q : Unit → Heap → Prop) (E : Heap → Prop)
    (hq : ∀ r, r.Perm (h.lst p) → Q () (h.setLst p r)) (he : E h) : Sat (absoluteSequenceNormaliseAbsolute g tag p) h Q E := by
  unfold absoluteSequenceNormaliseAbsolute
  exact (sort_spec g tag p h).mono (fun _ h' ⟨r, hr, e⟩ => e ▸ hq r hr) (fun h' e => e ▸ he)

theorem sat_absAddMessage_of (g : GOrc) (tag p m : Nat) (h : Heap) (Q : Unit → Heap → Prop) (E : Heap → Prop)
    (hq : ∀ lo, Q () (h.setLst p (HM.pyInsert m lo (h.lst p)))) (he : E h) : Sat (absoluteSequenceAddMessage g tag p m) h Q E := by
  unfold absoluteSequenceAddMessage
  exact (binaryInsort_spec g tag p m h).mono (fun _ h' ⟨lo, e⟩ => e ▸ hq lo) (fun h' e => e ▸ he)

/-! ## `RelativeSequence.to_absolute_sequence` -/

theorem toAbs_sat (g : GOrc) (tag l : Nat) (h0 : Heap) :
    Sat (relativeSequenceToAbsoluteSequence g tag l) h0
      (fun p h => Inv h0 [] h ∧ OkV h0 h p) (fun h => Inv h0 [] h) := by
  unfold relativeSequenceToAbsoluteSequence
  simp only [sat_bind, sat_get, sat_newView, sat_absoluteSequenceInit_none, setLst_newLst]
  have hinit : Inv h0 [] (h0.newLst []).1 ∧ OkV h0 (h0.newLst []).1 h0.nLst :=
    ⟨(Inv.refl h0 []).newLst, by simp [OkV, Heap.newLst]⟩
  generalize (h0.newLst []).1 = h1 at hinit ⊢
  generalize h0.nLst = p at hinit ⊢
  refine Sat.mono (Q := fun _ h => Inv h0 [] h ∧ OkV h0 h p) ?loop ?cont (fun _ he => he)
  case cont =>
    rintro ⟨a, b, c⟩ h ⟨hinv, hp⟩
    have hle := hinv.nMsg_le
    simp only [sat_bind]
    apply sat_normaliseAbsolute_of _ _ _ _ _ _ ?_ hinv
    intro r hr
    have hinv2 : Inv h0 [] (h.setLst p r) := hinv.setLstApp hp (fun i hi => Or.inl ((hr.mem_iff).1 hi))
    simp only [sat_ite, sat_bind, sat_newMessage, sat_messageInit, setMsg_newMsg, sat_pure]
    refine ⟨fun _ => ?_, fun _ => ⟨hinv2, hp⟩⟩
    have hinv3 := hinv2.newMsgV (initVal MType.internal a b pyNone pyNone pyNone pyNone pyNone pyNone pyNone) (initVal_ch _ _ _ _ _ _ _ _ _ _)
    apply sat_absAddMessage_of _ _ _ _ _ _ _ ?_ hinv3
    intro lo
    refine ⟨hinv3.setLstApp (by simpa [OkV] using hp) (fun i hi => ?_), by simpa [OkV] using hp⟩
    rcases mem_pyInsert hi with rfl | hi
    · right; right; simp; omega
    · exact Or.inl hi
  case loop =>
    refine sat_forIn _ (fun _ _ h => Inv h0 [] h ∧ OkV h0 h p) _ _ ?step (fun _ _ hi => hi) _ _ _ hinit
    rintro m _ ⟨a, b, c⟩ h ⟨hinv, hp⟩
    have hle := hinv.nMsg_le
    simp only [sat_bind, sat_get, sat_needInt, sat_ite, sat_pure, sat_newMessage, sat_messageInit, setMsg_newMsg, sat_addMessageUnsorted,
      sat_messageCopy, sat_modify, msg_newMsg_self, lst_newMsg, lst_setLst, nMsg_setLst, nMsg_newMsg]
    sat_tree
    all_goals inv_tac

/-! ## the two methods that write the receiver's list cell: `pad`, `normalise_relative` -/

/-- since the call began only message cells were allocated and no cell was written -/
structure MsgOnly (h0 h : Heap) : Prop where
  ext : Ext h0 h
  kinds : h.nLst = h0.nLst ∧ h.nSeq = h0.nSeq ∧ h.nBar = h0.nBar ∧ h.nTrk = h0.nTrk ∧ h.nCmp = h0.nCmp
  lstf : h.lst = h0.lst
  chan : ∀ i, h0.nMsg ≤ i → i < h.nMsg → (h.msg i).ch ≠ pyNone ∧ (h.msg i).ty = .wait

theorem MsgOnly.refl (h0 : Heap) : MsgOnly h0 h0 :=
  ⟨Ext.refl h0, ⟨rfl, rfl, rfl, rfl, rfl⟩, rfl, fun i h1 h2 => by omega⟩

theorem MsgOnly.nMsg_le {h0 h : Heap} (hm : MsgOnly h0 h) : h0.nMsg ≤ h.nMsg := hm.ext.1 .msg

theorem MsgOnly.newMsgV {h0 h : Heap} (hm : MsgOnly h0 h) (m : Msg) (hch : m.ch ≠ pyNone ∧ m.ty = .wait) : MsgOnly h0 (h.newMsg m).1 := by
  have hle := hm.nMsg_le
  refine ⟨⟨?_, ?_⟩, hm.kinds, hm.lstf, ?_⟩
  · intro k; have := hm.ext.1 k; cases k <;> simp_all [Heap.newMsg, Heap.next] <;> omega
  · rintro ⟨k, i⟩ hc
    have := hm.ext.2 (k, i) hc
    cases k <;> simp_all [Heap.newMsg, Heap.get, Heap.alloc, Heap.next]
    omega
  · intro i h1 h2
    by_cases he : i = h.nMsg
    · subst he; simp only [Heap.newMsg, if_true]; exact hch
    · have : i < h.nMsg := by simp [Heap.newMsg] at h2; omega
      simp only [Heap.newMsg, he, if_false]; exact hm.chan i h1 this

/-- what `pad` / `normalise_relative` may have done to the heap `h0` when called on the view `l`: allocated WAIT messages (with a channel), and
    written the list cell of `l` — with references that were in the list or are new.  NO other cell that existed is written: in particular no
    message of the receiver, and no other view. -/
structure InvM (h0 : Heap) (l : Nat) (h : Heap) : Prop where
  le : ∀ k, h0.next k ≤ h.next k
  same : ∀ c, h0.alloc c → c ≠ (.lst, l) → h.get c = h0.get c
  kinds : h.nLst = h0.nLst ∧ h.nSeq = h0.nSeq ∧ h.nBar = h0.nBar ∧ h.nTrk = h0.nTrk ∧ h.nCmp = h0.nCmp
  lst : ∀ i ∈ h.lst l, i ∈ h0.lst l ∨ (h0.nMsg ≤ i ∧ i < h.nMsg)
  chan : ∀ i, h0.nMsg ≤ i → i < h.nMsg → (h.msg i).ch ≠ pyNone ∧ (h.msg i).ty = .wait

theorem InvM.of_msgOnly {h0 h : Heap} (l : Nat) (hm : MsgOnly h0 h) : InvM h0 l h :=
  ⟨hm.ext.1, fun c hc _ => hm.ext.2 c hc, hm.kinds, fun i hi => Or.inl (by rw [hm.lstf] at hi; exact hi), hm.chan⟩

theorem InvM.of_set {h0 h : Heap} {l : Nat} (hm : MsgOnly h0 h) {ids : List Nat}
    (hids : ∀ i ∈ ids, i ∈ h0.lst l ∨ (h0.nMsg ≤ i ∧ i < h.nMsg)) : InvM h0 l (h.setLst l ids) := by
  refine ⟨?_, ?_, hm.kinds, ?_, hm.chan⟩
  · intro k; have := hm.ext.1 k; cases k <;> simpa [Heap.setLst, Heap.next] using this
  · rintro ⟨k, i⟩ hc hne
    have := hm.ext.2 (k, i) hc
    cases k <;> simp_all [Heap.setLst, Heap.get]
  · intro i hi
    simp only [lst_setLst] at hi
    exact hids i hi

/-! ### `RelativeSequence.pad` -/

theorem pad_sat (g : GOrc) (tag l : Nat) (n : Int) (h0 : Heap) :
    Sat (relativeSequencePad g tag l n) h0 (fun _ h => InvM h0 l h) (fun h => InvM h0 l h) := by
  unfold relativeSequencePad
  simp only [sat_bind, sat_get]
  refine Sat.mono (Q := fun _ h => h = h0) ?loop ?cont (fun _ he => he)
  case cont =>
    rintro ⟨a, b⟩ h rfl
    simp only [sat_bind, sat_ite, sat_newMessage, sat_messageInit, setMsg_newMsg, sat_modify, sat_pure, lst_newMsg]
    refine ⟨fun _ => ?_, fun _ => InvM.of_msgOnly l (MsgOnly.refl h)⟩
    refine InvM.of_set ((MsgOnly.refl h).newMsgV _ ⟨initVal_ch _ _ _ _ _ _ _ _ _ _, rfl⟩) (fun i hi => ?_)
    simp only [List.mem_append, List.mem_singleton] at hi
    rcases hi with hi | rfl
    · exact Or.inl hi
    · right; simp
  case loop =>
    refine sat_forIn _ (fun _ _ h => h = h0) _ _ ?step (fun _ _ hi => hi) _ _ _ rfl
    rintro m _ ⟨a, b⟩ h rfl
    simp only [sat_bind, sat_get, sat_needInt, sat_ite, sat_pure]
    sat_tree
    all_goals first | trivial | exact InvM.of_msgOnly l (MsgOnly.refl _)

/-! ### `RelativeSequence.normalise_relative` -/

/-- a reference `normalise_relative` may put into the new list: a message object of the receiver's list, or a message allocated by the call -/
def OkN (h0 : Heap) (l : Nat) (h : Heap) (i : Nat) : Prop := i ∈ h0.lst l ∨ (h0.nMsg ≤ i ∧ i < h.nMsg)

/-- the post-condition of one round of a loop whose invariant `J` does not distinguish `continue` from `break` -/
def StepPost {β : Type} (J : β → Heap → Prop) : ForInStep β → Heap → Prop
  | .yield b, h => J b h
  | .done b, h => J b h

@[simp] theorem stepPost_yield {β : Type} (J : β → Heap → Prop) (b : β) (h : Heap) : StepPost J (.yield b) h = J b h := rfl
@[simp] theorem stepPost_done {β : Type} (J : β → Heap → Prop) (b : β) (h : Heap) : StepPost J (.done b) h = J b h := rfl

/-- invariant rule for a `for` loop whose invariant does not mention the elements still to come -/
theorem sat_forIn_inv {α β : Type} (f : α → β → HM (ForInStep β)) (J : β → Heap → Prop) (E : Heap → Prop)
    (hstep : ∀ a b h, J b h → Sat (f a b) h (StepPost J) E) :
    ∀ (xs : List α) (b : β) (h : Heap), J b h → Sat (forIn xs b f) h J E :=
  fun xs b h hj => sat_forIn f (fun _ b h => J b h) J E
    (fun a _ b h hi => (hstep a b h hi).mono (fun r _ hr => by cases r <;> exact hr) (fun _ he => he)) (fun _ _ hi => hi) xs b h hj

/-- leaves of the `normalise_relative` proof -/
macro "norm_leaf" : tactic => `(tactic| first
  | trivial
  | assumption
  | exact InvM.of_msgOnly _ ‹_›
  | exact MsgOnly.newMsgV ‹_› _ ⟨initVal_ch _ _ _ _ _ _ _ _ _ _, rfl⟩
  | exact InvM.of_msgOnly _ (MsgOnly.newMsgV ‹_› _ ⟨initVal_ch _ _ _ _ _ _ _ _ _ _, rfl⟩)
  | (simp only [OkN, List.mem_append, List.mem_singleton, List.mem_cons, nMsg_newMsg] at *; grind))

abbrev NSt := Int × Int × Int × Int × List (Int × List (Int × List Nat)) × List Nat × Int

theorem normalise_sat (g : GOrc) (tag l : Nat) (h0 : Heap) :
    Sat (relativeSequenceNormaliseRelative g tag l) h0 (fun _ h => InvM h0 l h) (fun h => InvM h0 l h) := by
  unfold relativeSequenceNormaliseRelative
  simp only [sat_bind, sat_get]
  refine Sat.mono (Q := fun (s : NSt) h => MsgOnly h0 h ∧ ∀ i ∈ s.2.2.2.2.2.1, OkN h0 l h i) ?loop ?cont (fun _ he => he)
  case cont =>
    rintro ⟨a, b, c, d, e, f, k⟩ h ⟨hm, hn⟩
    have hle := hm.nMsg_le
    -- the three nested clean-up loops only shrink `messages_normalized`; the heap is not touched
    have tail : ∀ (norm : List Nat) (hh : Heap), (MsgOnly h0 hh ∧ ∀ i ∈ norm, OkN h0 l hh i) →
        ∀ (body : Int → List Nat → HM (ForInStep (List Nat))),
          (∀ ch s h', (MsgOnly h0 h' ∧ ∀ i ∈ s, OkN h0 l h' i) →
            Sat (body ch s) h' (StepPost fun s' h'' => MsgOnly h0 h'' ∧ ∀ i ∈ s', OkN h0 l h'' i) (fun h'' => InvM h0 l h'')) →
          Sat (forIn (HeapLib3.dictKeys e) norm body) hh
            (fun s h' => Sat (HM.modify fun h => h.setLst l s) h' (fun _ h => InvM h0 l h) (fun h => InvM h0 l h)) (fun h => InvM h0 l h) := by
      intro norm hh hj body hbody
      refine Sat.mono (sat_forIn_inv body (fun s h' => MsgOnly h0 h' ∧ ∀ i ∈ s, OkN h0 l h' i) _ hbody _ _ _ hj) ?_ (fun _ he => he)
      rintro s h' ⟨hm', hs'⟩
      simp only [sat_modify]
      exact InvM.of_set hm' hs'
    have hbody : ∀ (ch : Int) (s : List Nat) (h' : Heap), (MsgOnly h0 h' ∧ ∀ i ∈ s, OkN h0 l h' i) →
        Sat (do
            let t25 ← HeapLib3.dictGet e ch
            let __s ← forIn (HeapLib3.dictKeys t25) s fun key_ __s => do
                  let t26 ← HeapLib3.dictGet e ch
                  let __s ← forIn (HeapLib3.dictGetD t26 key_ []) __s fun msg_ __s =>
                        if decide (msg_ ∈ __s) = true then pure (ForInStep.yield (__s.erase msg_)) else pure (ForInStep.yield __s)
                  pure (ForInStep.yield __s)
            pure (ForInStep.yield __s) : HM (ForInStep (List Nat))) h'
          (StepPost fun s' h'' => MsgOnly h0 h'' ∧ ∀ i ∈ s', OkN h0 l h'' i) (fun h'' => InvM h0 l h'') := by
      intro ch s h' hj
      simp only [sat_bind, sat_dictGet, sat_pure, stepPost_yield]
      refine ⟨fun t25 _ => ?_, fun _ => InvM.of_msgOnly l hj.1⟩
      refine Sat.mono (sat_forIn_inv _ (fun s h'' => MsgOnly h0 h'' ∧ ∀ i ∈ s, OkN h0 l h'' i) _ ?_ _ _ _ hj) (fun _ _ hq => hq) (fun _ he => he)
      intro key s2 h2 hj2
      simp only [sat_bind, sat_dictGet, sat_pure, stepPost_yield]
      refine ⟨fun t26 _ => ?_, fun _ => InvM.of_msgOnly l hj2.1⟩
      refine Sat.mono (sat_forIn_inv _ (fun s h'' => MsgOnly h0 h'' ∧ ∀ i ∈ s, OkN h0 l h'' i) _ ?_ _ _ _ hj2) (fun _ _ hq => hq) (fun _ he => he)
      intro m s3 h3 hj3
      simp only [sat_ite, sat_pure, stepPost_yield]
      exact ⟨fun _ => ⟨hj3.1, fun i hi => hj3.2 i (List.mem_of_mem_erase hi)⟩, fun _ => hj3⟩
    simp only [sat_ite, sat_bind, sat_newMessage, sat_messageInit, setMsg_newMsg]
    refine ⟨fun _ => ?_, fun _ => ?_⟩
    · refine tail _ _ ⟨hm.newMsgV _ ⟨initVal_ch _ _ _ _ _ _ _ _ _ _, rfl⟩, fun i hi => ?_⟩ _ hbody
      simp only [OkN, List.mem_append, List.mem_singleton, nMsg_newMsg] at *
      rcases hi with hi | rfl
      · rcases hn i hi with h1 | h1
        · exact Or.inl h1
        · exact Or.inr ⟨h1.1, by omega⟩
      · exact Or.inr ⟨hle, by omega⟩
    · exact tail _ _ ⟨hm, hn⟩ _ hbody
  case loop =>
    refine sat_forIn _ (fun rest (s : NSt) h => (∀ x ∈ rest, x ∈ h0.lst l) ∧ MsgOnly h0 h ∧ ∀ i ∈ s.2.2.2.2.2.1, OkN h0 l h i) _ _ ?step
      (fun _ _ hi => hi.2) _ _ _ ⟨fun x hx => hx, MsgOnly.refl h0, by simp⟩
    rintro m rest ⟨a, b, c, d, e, f, k⟩ h ⟨hrest, hm, hn⟩
    have hle := hm.nMsg_le
    have hmem : m ∈ h0.lst l := hrest m (by simp)
    have hrest' : ∀ x ∈ rest, x ∈ h0.lst l := fun x hx => hrest x (by simp [hx])
    simp only [sat_bind, sat_get, sat_needInt, sat_ite, sat_pure, sat_newMessage, sat_messageInit, setMsg_newMsg, sat_dictGet, sat_dropLastM,
      lst_newMsg, nMsg_newMsg]
    sat_tree
    all_goals norm_leaf

/-! ## no exception -/

theorem mem_lst_newLst {h : Heap} {l x : Nat} (hx : x ∈ (h.newLst []).1.lst l) : x ∈ h.lst l := by
  simp only [Heap.newLst] at hx
  split at hx
  · simp at hx
  · exact hx

/-- leaves of the "returns normally" proofs: arithmetic, reads of message cells below the allocation pointer through allocations and list
    stores, contradictions -/
macro "ok_leaf" : tactic => `(tactic| first
  | trivial
  | omega
  | (simp_all; done)
  | (simp only [Heap.newMsg, Heap.setLst, Heap.setMsg, List.mem_cons, pyNone] at *; grind))

/-- `to_relative_sequence` returns normally when every message of the receiver exists and has a `time` (with a `None` time Python
    raises `TypeError` at `time > current_point_in_time`) -/
theorem toRel_sat_ok (g : GOrc) (tag l : Nat) (h0 : Heap) (hin : ∀ i ∈ h0.lst l, i < h0.nMsg ∧ (h0.msg i).time ≠ pyNone) :
    Sat (absoluteSequenceToRelativeSequence g tag l) h0 (fun _ _ => True) (fun _ => False) := by
  unfold absoluteSequenceToRelativeSequence
  simp only [sat_bind, sat_get, sat_newView, sat_relativeSequenceInit_none, setLst_newLst]
  refine Sat.mono (Q := fun (_ : Int) _ => True) ?loop (fun _ _ _ => trivial) (fun _ he => he)
  refine sat_forIn _ (fun rest (cur : Int) h => 0 ≤ cur ∧ h0.nMsg ≤ h.nMsg ∧ ∀ x ∈ rest, x < h0.nMsg ∧ (h.msg x).time ≠ pyNone) _ _ ?step
    (fun _ _ _ => trivial) _ _ _ ⟨by omega, by simp [Heap.newLst], fun x hx => by simpa [Heap.newLst] using hin x (mem_lst_newLst hx)⟩
  rintro m rest cur h ⟨hcur, hle, hrest⟩
  have hm := hrest m (by simp)
  have hrest' : ∀ x ∈ rest, x < h0.nMsg ∧ (h.msg x).time ≠ pyNone := fun x hx => hrest x (by simp [hx])
  have hc : cur ≠ pyNone := by simp [pyNone]; omega
  simp only [sat_bind, sat_get, sat_needInt, sat_ite, sat_pure, sat_newMessage, sat_messageInit, setMsg_newMsg, sat_addMessage_none,
    sat_messageCopy, sat_modify, msg_newMsg_self, lst_newMsg, lst_setLst, nMsg_setLst, nMsg_newMsg, decide_eq_true_eq]
  sat_tree
  all_goals ok_leaf

/-- `pad` returns normally when every WAIT of the receiver has a `time` -/
theorem pad_sat_ok (g : GOrc) (tag l : Nat) (n : Int) (h0 : Heap)
    (hin : ∀ i ∈ h0.lst l, (h0.msg i).ty = .wait → (h0.msg i).time ≠ pyNone) :
    Sat (relativeSequencePad g tag l n) h0 (fun _ _ => True) (fun _ => False) := by
  unfold relativeSequencePad
  simp only [sat_bind, sat_get]
  refine Sat.mono (Q := fun _ _ => True) ?loop ?cont (fun _ he => he)
  case cont =>
    rintro ⟨a, b⟩ h _
    simp only [sat_bind, sat_ite, sat_newMessage, sat_messageInit, setMsg_newMsg, sat_modify, sat_pure]
    simp
  case loop =>
    refine sat_forIn _ (fun rest _ h => h = h0 ∧ ∀ x ∈ rest, (h0.msg x).ty = .wait → (h0.msg x).time ≠ pyNone) _ _ ?step
      (fun _ _ _ => trivial) _ _ _ ⟨rfl, hin⟩
    rintro m rest ⟨a, b⟩ h ⟨rfl, hrest⟩
    have hm := hrest m (by simp)
    have hrest' : ∀ x ∈ rest, (h.msg x).ty = .wait → (h.msg x).time ≠ pyNone := fun x hx => hrest x (by simp [hx])
    simp only [sat_bind, sat_get, sat_needInt, sat_ite, sat_pure, beq_iff_eq]
    sat_tree
    all_goals first | trivial | rfl | grind

/-- the shape of the receiver's list after `pad`: unchanged, or ONE message allocated by the call appended (an existing trailing wait is
    never lengthened in place), on both exits -/
theorem pad_sat_shape (g : GOrc) (tag l : Nat) (n : Int) (h0 : Heap) :
    Sat (relativeSequencePad g tag l n) h0
      (fun _ h => (h.lst l = h0.lst l ∧ h.nMsg = h0.nMsg) ∨ (h.lst l = h0.lst l ++ [h0.nMsg] ∧ h.nMsg = h0.nMsg + 1 ∧ (h.msg h0.nMsg).ty = .wait))
      (fun h => h = h0) := by
  unfold relativeSequencePad
  simp only [sat_bind, sat_get]
  refine Sat.mono (Q := fun _ h => h = h0) ?loop ?cont (fun _ he => he)
  case cont =>
    rintro ⟨a, b⟩ h rfl
    simp only [sat_bind, sat_ite, sat_newMessage, sat_messageInit, setMsg_newMsg, sat_modify, sat_pure, lst_newMsg, lst_setLst, nMsg_setLst,
      nMsg_newMsg, msg_setLst', msg_newMsg_self]
    refine ⟨fun _ => Or.inr ?_, fun _ => Or.inl ?_⟩ <;> simp [initVal]
  case loop =>
    refine sat_forIn _ (fun _ _ h => h = h0) _ _ ?step (fun _ _ hi => hi) _ _ _ rfl
    rintro m _ ⟨a, b⟩ h rfl
    simp only [sat_bind, sat_get, sat_needInt, sat_ite, sat_pure]
    sat_tree
    all_goals first | trivial | rfl

theorem dictGet?_of_mem_keys {κ ν : Type} [DecidableEq κ] {d : List (κ × ν)} {k : κ} (h : k ∈ HeapLib3.dictKeys d) :
    HeapLib3.dictGet? d k ≠ none := by
  induction d with
  | nil => simp [HeapLib3.dictKeys] at h
  | cons e d ih =>
    obtain ⟨k', v'⟩ := e
    simp only [HeapLib3.dictGet?]
    split
    · simp
    · rename_i hne
      apply ih
      simp only [HeapLib3.dictKeys, List.map_cons, List.mem_cons] at h
      rcases h with h | h
      · exact absurd h.symm hne
      · exact h

theorem dictGet?_setDefault_self {κ ν : Type} [DecidableEq κ] (d : List (κ × ν)) (k : κ) (v : ν) :
    HeapLib3.dictGet? (HeapLib3.dictSetDefault d k v) k ≠ none := by
  unfold HeapLib3.dictSetDefault
  cases h : HeapLib3.dictGet? d k with
  | some x => simp [h]
  | none => exact dictGet?_of_mem_keys (by simp [HeapLib3.dictKeys])

/-- `normalise_relative` returns normally when every message of the receiver exists and every WAIT has a `time`: the dict lookups
    `open_messages[msg.channel]` follow a `setdefault`, `note_list.pop(-1)` and `messages_normalized.remove(msg)` are guarded -/
theorem normalise_sat_ok (g : GOrc) (tag l : Nat) (h0 : Heap)
    (hin : ∀ i ∈ h0.lst l, i < h0.nMsg ∧ ((h0.msg i).ty = .wait → (h0.msg i).time ≠ pyNone)) :
    Sat (relativeSequenceNormaliseRelative g tag l) h0 (fun _ _ => True) (fun _ => False) := by
  unfold relativeSequenceNormaliseRelative
  simp only [sat_bind, sat_get]
  refine Sat.mono (Q := fun (_ : NSt) _ => True) ?loop ?cont (fun _ he => he)
  case cont =>
    rintro ⟨a, b, c, d, e, f, k⟩ h _
    simp only [sat_ite, sat_bind, sat_newMessage, sat_messageInit, setMsg_newMsg]
    refine ⟨fun _ => ?_, fun _ => ?_⟩ <;>
    · refine Sat.mono (Q := fun _ _ => True) ?_ (fun _ _ _ => by simp) (fun _ he => he)
      refine sat_forIn _ (fun rest _ _ => ∀ ch ∈ rest, ch ∈ HeapLib3.dictKeys e) _ _ ?_ (fun _ _ _ => trivial) _ _ _ (fun _ hx => hx)
      intro ch rest s hh hrest
      have hch := dictGet?_of_mem_keys (hrest ch (by simp))
      have hrest' : ∀ x ∈ rest, x ∈ HeapLib3.dictKeys e := fun x hx => hrest x (by simp [hx])
      simp only [sat_bind, sat_dictGet, sat_pure]
      refine ⟨fun t25 _ => ?_, fun hn => hch hn⟩
      refine Sat.mono (Q := fun _ _ => True) ?_ (fun _ _ _ => hrest') (fun _ he => he)
      refine sat_true_forIn _ ?_ _ _ _
      intro key s2 h2
      simp only [sat_bind, sat_dictGet, sat_pure]
      refine ⟨fun t26 _ => ?_, fun hn => hch hn⟩
      refine Sat.mono (Q := fun _ _ => True) ?_ (fun _ _ _ => trivial) (fun _ he => he)
      refine sat_true_forIn _ ?_ _ _ _
      intro m s3 h3
      simp only [sat_ite, sat_pure]
      simp
  case loop =>
    refine sat_forIn _ (fun rest (_ : NSt) h => h0.nMsg ≤ h.nMsg ∧ ∀ x ∈ rest, x < h0.nMsg ∧ ((h.msg x).ty = .wait → (h.msg x).time ≠ pyNone))
      _ _ ?step (fun _ _ _ => trivial) _ _ _ ⟨Nat.le_refl _, hin⟩
    rintro m rest ⟨a, b, c, d, e, f, k⟩ h ⟨hle, hrest⟩
    have hm := hrest m (by simp)
    have hrest' : ∀ x ∈ rest, x < h0.nMsg ∧ ((h.msg x).ty = .wait → (h.msg x).time ≠ pyNone) := fun x hx => hrest x (by simp [hx])
    have hsd := dictGet?_setDefault_self e (h.msg m).ch ([] : List (Int × List Nat))
    simp only [sat_bind, sat_get, sat_needInt, sat_ite, sat_pure, sat_newMessage, sat_messageInit, setMsg_newMsg, sat_dictGet, sat_dropLastM,
      lst_newMsg, nMsg_newMsg, beq_iff_eq]
    sat_tree
    all_goals first | trivial | omega | exact absurd ‹_› hsd | (simp_all; done) | (simp only [Heap.newMsg, List.mem_cons, pyNone] at *; grind)

