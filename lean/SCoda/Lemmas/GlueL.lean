/-
  Helper definitions and lemmas for Props/C03e (audit item A1 (ii), the glue between the bars of the real pipeline and
  the whole-bar chunks of Props/C03c).

  Part 1 (this file, no pipeline code involved): cutting a time-ordered event list at cumulative bar lengths.
  * `cutAt c A sigs evs`: the events `evs` (absolute ticks, the first bar starting at `A`) cut into one `BarEv` per
    signature of `sigs`, bar-relative ticks; the last bar takes everything that is left (so the cap message at the
    very end stays in it);
  * `layBars_cutAt`: laying the cut bars end to end gives the events back — for *any* event list;
  * `GoodAt`: what an event list must satisfy for the cut to be a well-formed whole-bar chunk (`BarsOk`), written
    without the cut: time order, onsets inside the run, signatures only on the bar lines of the grid and equal to the
    bar's own (`SigAt`), note onsets before the end of the run, and a signature event on every line at which the bar
    length changes (`Announced`);
  * `cutAt_barsOk`: `GoodAt → BarsOk`.
-/
import SCoda.Lemmas.ChunksL
namespace SCoda.GlueL
open SCoda SCoda.C01 SCoda.ChunksL

/-! ## cutting at cumulative bar lengths -/

/-- events in onset order (the relation of `BarOk.ordered`) -/
abbrev HeadLe (a b : Int × Pairing) : Prop := ∀ x ∈ a.2.head?, ∀ y ∈ b.2.head?, x.time ≤ y.time

/-- the event starts before tick `B` -/
def before (B : Int) (ev : Int × Pairing) : Bool :=
  match ev.2.head? with
  | some m => decide (m.time < B)
  | none => true

/-- summed bar lengths of a list of signatures -/
def total (c : Cfg) : List (Int × Int) → Int
  | [] => 0
  | s :: rest => c.capacity s.1 s.2 + total c rest

/-- cut the events (absolute ticks; the first bar starts at `A`) into one bar per signature, bar-relative ticks -/
def cutAt (c : Cfg) : Int → List (Int × Int) → List (Int × Pairing) → List BarEv
  | _, [], _ => []
  | A, [s], evs => [{ num := s.1, den := s.2, evs := shiftEvs (-A) evs }]
  | A, s :: s2 :: rest, evs =>
    { num := s.1, den := s.2, evs := shiftEvs (-A) (evs.takeWhile (before (A + c.capacity s.1 s.2))) }
      :: cutAt c (A + c.capacity s.1 s.2) (s2 :: rest) (evs.dropWhile (before (A + c.capacity s.1 s.2)))

theorem cutAt_sigs (c : Cfg) : ∀ (sigs : List (Int × Int)) (A : Int) (evs : List (Int × Pairing)),
    (cutAt c A sigs evs).map (fun b => (b.num, b.den)) = sigs := by
  intro sigs
  induction sigs with
  | nil => intro A evs; rfl
  | cons s rest ih =>
    intro A evs
    cases rest with
    | nil => rfl
    | cons s2 rest =>
      simp only [cutAt, List.map_cons, List.cons.injEq, true_and]
      exact ih _ _

theorem cutAt_length (c : Cfg) (sigs : List (Int × Int)) (A : Int) (evs : List (Int × Pairing)) :
    (cutAt c A sigs evs).length = sigs.length := by
  have := congrArg List.length (cutAt_sigs c sigs A evs)
  simpa using this

/-- laying the cut bars end to end gives the events back (whatever the events are) -/
theorem layBars_cutAt (c : Cfg) : ∀ (sigs : List (Int × Int)) (A : Int) (evs : List (Int × Pairing)), sigs ≠ [] →
    layBars c (cutAt c A sigs evs) = shiftEvs (-A) evs := by
  intro sigs
  induction sigs with
  | nil => intro A evs h; exact absurd rfl h
  | cons s rest ih =>
    intro A evs _
    cases rest with
    | nil => simp [cutAt, layBars, shiftEvs_nil]
    | cons s2 rest =>
      simp only [cutAt, layBars, barLen]
      have e : -(A + c.capacity s.1 s.2) + c.capacity s.1 s.2 = -A := by omega
      rw [ih _ _ (by simp), shiftEvs_shiftEvs, e, ← shiftEvs_append, List.takeWhile_append_dropWhile]

/-! ## when the cut is a well-formed whole-bar chunk -/

/-- `m` sits on a bar line of the grid `sigs` laid from `A` and carries that bar's signature -/
def SigAt (c : Cfg) : Int → List (Int × Int) → Msg → Prop
  | _, [], _ => False
  | A, s :: rest, m => (m.time = A ∧ m.num = s.1 ∧ m.den = s.2) ∨ SigAt c (A + c.capacity s.1 s.2) rest m

/-- every bar whose length differs from the running one (`C` before the first) has property `P` on its line -/
def AnnP (c : Cfg) (P : Int → Prop) : Int → Int → List (Int × Int) → Prop
  | _, _, [] => True
  | A, C, s :: rest => (c.capacity s.1 s.2 = C ∨ P A) ∧ AnnP c P (A + c.capacity s.1 s.2) (c.capacity s.1 s.2) rest

/-- there is a time-signature event at tick `t` -/
def HasSig (evs : List (Int × Pairing)) (t : Int) : Prop :=
  ∃ ev ∈ evs, ∃ m ∈ ev.2.head?, m.ty = .timeSignature ∧ m.time = t

/-- every bar whose length differs from the running one (`C` before the first) has a signature event on its line -/
abbrev Announced (c : Cfg) (evs : List (Int × Pairing)) : Int → Int → List (Int × Int) → Prop := AnnP c (HasSig evs)

theorem annP_mono (c : Cfg) (P P' : Int → Prop) : ∀ (sigs : List (Int × Int)) (A C : Int),
    (∀ s ∈ sigs, 0 < s.1 ∧ 0 < s.2 ∧ 0 < c.capacity s.1 s.2) → (∀ t, A ≤ t → P t → P' t) →
    AnnP c P A C sigs → AnnP c P' A C sigs := by
  intro sigs
  induction sigs with
  | nil => intro _ _ _ _ _; trivial
  | cons s rest ih =>
    intro A C hp hsub h
    obtain ⟨h1, h2⟩ := h
    have hc := (hp s List.mem_cons_self).2.2
    refine ⟨?_, ih _ _ (fun x hx => hp x (List.mem_cons_of_mem _ hx)) (fun t ht => hsub t (by omega)) h2⟩
    rcases h1 with h1 | h1
    · exact Or.inl h1
    · exact Or.inr (hsub A (Int.le_refl _) h1)

/-- what makes `cutAt c A sigs evs` a well-formed chunk after a bar of length `C` -/
structure GoodAt (c : Cfg) (A C : Int) (sigs : List (Int × Int)) (evs : List (Int × Pairing)) : Prop where
  pos : ∀ s ∈ sigs, 0 < s.1 ∧ 0 < s.2 ∧ 0 < c.capacity s.1 s.2
  nonempty : ∀ ev ∈ evs, ev.2 ≠ []
  chans : ∀ ev ∈ evs, ∀ m ∈ ev.2.head?, 0 ≤ m.ch ∧ m.ch < (c.numTracks : Int)
  range : ∀ ev ∈ evs, ∀ m ∈ ev.2.head?, A ≤ m.time ∧ m.time ≤ A + total c sigs
  ordered : evs.Pairwise HeadLe
  sigOk : ∀ ev ∈ evs, ∀ m ∈ ev.2.head?, m.ty = .timeSignature → SigAt c A sigs m
  noteOk : ∀ ev ∈ evs, ∀ m ∈ ev.2.head?, m.ty = .noteOn → m.time < A + total c sigs
  ann : Announced c evs A C sigs

theorem total_nonneg (c : Cfg) (sigs : List (Int × Int)) (h : ∀ s ∈ sigs, 0 < s.1 ∧ 0 < s.2 ∧ 0 < c.capacity s.1 s.2) :
    0 ≤ total c sigs := by
  induction sigs with
  | nil => simp [total]
  | cons s rest ih =>
    have h1 := (h s List.mem_cons_self).2.2
    have h2 := ih (fun x hx => h x (List.mem_cons_of_mem _ hx))
    simp only [total]; omega

theorem sigAt_ge (c : Cfg) : ∀ (sigs : List (Int × Int)) (A : Int) (m : Msg),
    (∀ s ∈ sigs, 0 < s.1 ∧ 0 < s.2 ∧ 0 < c.capacity s.1 s.2) → SigAt c A sigs m → A ≤ m.time := by
  intro sigs
  induction sigs with
  | nil => intro A m _ h; exact absurd h (fun h => h)
  | cons s rest ih =>
    intro A m hp h
    rcases h with ⟨h, _⟩ | h
    · omega
    · have := ih _ m (fun x hx => hp x (List.mem_cons_of_mem _ hx)) h
      have := (hp s List.mem_cons_self).2.2
      omega

/-- in a time-ordered list, what `dropWhile (before B)` keeps starts at or after `B` -/
theorem dropWhile_not_before (B : Int) : ∀ (evs : List (Int × Pairing)), evs.Pairwise HeadLe → (∀ ev ∈ evs, ev.2 ≠ []) →
    ∀ ev ∈ evs.dropWhile (before B), ∀ m ∈ ev.2.head?, B ≤ m.time := by
  intro evs
  induction evs with
  | nil => intro _ _ ev h; simp at h
  | cons e es ih =>
    intro hp hne ev hev m hm
    rw [List.pairwise_cons] at hp
    by_cases hb : before B e = true
    · rw [List.dropWhile_cons_of_pos hb] at hev
      exact ih hp.2 (fun x hx => hne x (List.mem_cons_of_mem _ hx)) ev hev m hm
    · rw [List.dropWhile_cons_of_neg hb] at hev
      have hne' := hne e List.mem_cons_self
      cases hh : e.2.head? with
      | none => rw [List.head?_eq_none_iff] at hh; exact absurd hh hne'
      | some m0 =>
        have h0 : B ≤ m0.time := by
          simp only [before, hh, decide_eq_true_eq] at hb
          omega
        rcases List.mem_cons.1 hev with rfl | hev
        · rw [hh] at hm; cases hm; exact h0
        · have := hp.1 ev hev m0 hh m hm
          omega

theorem takeWhile_holds {α} (p : α → Bool) : ∀ (l : List α) (x : α), x ∈ l.takeWhile p → p x = true := by
  intro l
  induction l with
  | nil => intro x h; simp at h
  | cons a l ih =>
    intro x h
    by_cases ha : p a = true
    · rw [List.takeWhile_cons_of_pos ha] at h
      rcases List.mem_cons.1 h with rfl | h
      · exact ha
      · exact ih x h
    · rw [List.takeWhile_cons_of_neg ha] at h
      simp at h

theorem mem_takeWhile_before (B : Int) (evs : List (Int × Pairing)) (ev : Int × Pairing)
    (h : ev ∈ evs.takeWhile (before B)) : ev ∈ evs ∧ ∀ m ∈ ev.2.head?, m.time < B := by
  refine ⟨(List.takeWhile_sublist _).subset h, ?_⟩
  intro m hm
  have := takeWhile_holds _ _ _ h
  simp only [Option.mem_def] at hm
  simpa [before, hm] using this

/-- in a time-ordered list an event that starts before `B` is in `takeWhile (before B)` -/
theorem mem_takeWhile_of_before (B : Int) (evs : List (Int × Pairing)) (hp : evs.Pairwise HeadLe)
    (hne : ∀ ev ∈ evs, ev.2 ≠ []) (ev : Int × Pairing) (hev : ev ∈ evs) (m : Msg) (hm : m ∈ ev.2.head?) (hlt : m.time < B) :
    ev ∈ evs.takeWhile (before B) := by
  rw [← List.takeWhile_append_dropWhile (p := before B) (l := evs)] at hev
  rcases List.mem_append.1 hev with h | h
  · exact h
  · have := dropWhile_not_before B evs hp hne ev h m hm
    omega

theorem announced_mono (c : Cfg) (evs evs' : List (Int × Pairing)) (sigs : List (Int × Int)) (A C : Int)
    (hp : ∀ s ∈ sigs, 0 < s.1 ∧ 0 < s.2 ∧ 0 < c.capacity s.1 s.2)
    (hsub : ∀ ev ∈ evs, ∀ m ∈ ev.2.head?, A ≤ m.time → ev ∈ evs')
    (h : Announced c evs A C sigs) : Announced c evs' A C sigs := by
  refine annP_mono c _ _ sigs A C hp ?_ h
  rintro t ht ⟨ev, hev, m, hm, hty, rfl⟩
  exact ⟨ev, hsub ev hev m hm ht, m, hm, hty, rfl⟩

/-- a statement about the head messages of events shifted by `-A`, read on the unshifted ones -/
theorem mem_shift_head (s : Int) (evs : List (Int × Pairing)) (ev : Int × Pairing) (hev : ev ∈ shiftEvs s evs)
    (m : Msg) (hm : m ∈ ev.2.head?) :
    ∃ ev0 ∈ evs, ∃ m0 ∈ ev0.2.head?, m = { m0 with time := m0.time + s } ∧ (ev.2 = [] ↔ ev0.2 = []) := by
  unfold shiftEvs at hev
  rw [List.mem_map] at hev
  obtain ⟨ev0, hev0, rfl⟩ := hev
  simp only [List.head?_map, Option.mem_def, Option.map_eq_some_iff] at hm
  obtain ⟨m0, hm0, rfl⟩ := hm
  exact ⟨ev0, hev0, m0, hm0, rfl, by simp⟩

theorem shift_nonempty (s : Int) (evs : List (Int × Pairing)) (h : ∀ ev ∈ evs, ev.2 ≠ []) :
    ∀ ev ∈ shiftEvs s evs, ev.2 ≠ [] := by
  intro ev hev
  unfold shiftEvs at hev
  rw [List.mem_map] at hev
  obtain ⟨ev0, hev0, rfl⟩ := hev
  simpa using h ev0 hev0

theorem mem_shift_of_mem (s : Int) (evs : List (Int × Pairing)) (ev : Int × Pairing) (hev : ev ∈ evs) (m : Msg)
    (hm : m ∈ ev.2.head?) :
    ∃ ev' ∈ shiftEvs s evs, ∃ m' ∈ ev'.2.head?, m' = { m with time := m.time + s } := by
  refine ⟨(ev.1, ev.2.map (fun m => { m with time := m.time + s })), ?_, { m with time := m.time + s }, ?_, rfl⟩
  · unfold shiftEvs
    exact List.mem_map.2 ⟨ev, hev, rfl⟩
  · simp only [Option.mem_def] at hm
    simp [hm]

/-- the first bar of a cut: events of a good list that start before the next bar line -/
theorem barOk_first (c : Cfg) (A C : Int) (s : Int × Int) (rest : List (Int × Int)) (evs part : List (Int × Pairing))
    (hg : GoodAt c A C (s :: rest) evs)
    (hsub : ∀ ev ∈ part, ev ∈ evs) (hord : part.Pairwise HeadLe)
    (hin : rest ≠ [] → ∀ ev ∈ part, ∀ m ∈ ev.2.head?, m.time < A + c.capacity s.1 s.2)
    (hall : ∀ ev ∈ evs, ∀ m ∈ ev.2.head?, m.time < A + c.capacity s.1 s.2 → ev ∈ part) :
    BarOk c C { num := s.1, den := s.2, evs := shiftEvs (-A) part } := by
  obtain ⟨hs1, hs2, hs3⟩ := hg.pos s List.mem_cons_self
  have htot : 0 ≤ total c rest := total_nonneg c rest (fun x hx => hg.pos x (List.mem_cons_of_mem _ hx))
  have hlen : barLen c { num := s.1, den := s.2, evs := shiftEvs (-A) part } = c.capacity s.1 s.2 := rfl
  have hrest : rest = [] → total c (s :: rest) = c.capacity s.1 s.2 := by
    intro h; subst h; simp [total]
  refine ⟨hs1, hs2, hs3, shift_nonempty _ _ (fun ev hev => hg.nonempty ev (hsub ev hev)), ?_, ?_, ?_, ?_, ?_, ?_⟩
  · intro ev hev m hm
    obtain ⟨ev0, hev0, m0, hm0, rfl, _⟩ := mem_shift_head _ _ ev hev m hm
    exact hg.chans ev0 (hsub ev0 hev0) m0 hm0
  · intro ev hev m hm
    obtain ⟨ev0, hev0, m0, hm0, rfl, _⟩ := mem_shift_head _ _ ev hev m hm
    have h1 := hg.range ev0 (hsub ev0 hev0) m0 hm0
    rw [hlen]
    simp only
    by_cases hr : rest = []
    · rw [hrest hr] at h1; omega
    · have := hin hr ev0 hev0 m0 hm0; omega
  · exact shift_pairwise _ _ hord
  · intro ev hev m hm hty
    obtain ⟨ev0, hev0, m0, hm0, rfl, _⟩ := mem_shift_head _ _ ev hev m hm
    have h1 := hg.sigOk ev0 (hsub ev0 hev0) m0 hm0 hty
    rcases h1 with ⟨h1, h2, h3⟩ | h1
    · exact ⟨by simp only; omega, h2, h3⟩
    · have h2 := sigAt_ge c rest _ m0 (fun x hx => hg.pos x (List.mem_cons_of_mem _ hx)) h1
      by_cases hr : rest = []
      · subst hr; exact absurd h1 (fun h => h)
      · have := hin hr ev0 hev0 m0 hm0; omega
  · intro ev hev m hm hty
    obtain ⟨ev0, hev0, m0, hm0, rfl, _⟩ := mem_shift_head _ _ ev hev m hm
    have h1 := hg.noteOk ev0 (hsub ev0 hev0) m0 hm0 hty
    rw [hlen]
    simp only
    by_cases hr : rest = []
    · rw [hrest hr] at h1; omega
    · have := hin hr ev0 hev0 m0 hm0; omega
  · rcases hg.ann.1 with h | ⟨ev, hev, m, hm, hty, ht⟩
    · exact Or.inl h
    · right
      have hp := hall ev hev m hm (by omega)
      obtain ⟨ev', hev', m', hm', rfl⟩ := mem_shift_of_mem (-A) part ev hp m hm
      exact ⟨ev', hev', _, hm', hty⟩

/-- **the cut of a good event list is a well-formed whole-bar chunk** -/
theorem cutAt_barsOk (c : Cfg) : ∀ (sigs : List (Int × Int)) (A C : Int) (evs : List (Int × Pairing)),
    GoodAt c A C sigs evs → BarsOk c C (cutAt c A sigs evs) := by
  intro sigs
  induction sigs with
  | nil => intro _ _ _ _; trivial
  | cons s rest ih =>
    intro A C evs hg
    cases rest with
    | nil =>
      refine ⟨barOk_first c A C s [] evs evs hg (fun _ h => h) hg.ordered (fun h => absurd rfl h) (fun ev h _ _ _ => h), trivial⟩
    | cons s2 rest =>
      obtain ⟨hs1, hs2, hs3⟩ := hg.pos s List.mem_cons_self
      have hposR : ∀ x ∈ s2 :: rest, 0 < x.1 ∧ 0 < x.2 ∧ 0 < c.capacity x.1 x.2 :=
        fun x hx => hg.pos x (List.mem_cons_of_mem _ hx)
      have hdw := dropWhile_not_before (A + c.capacity s.1 s.2) evs hg.ordered hg.nonempty
      have hdsub : ∀ ev ∈ evs.dropWhile (before (A + c.capacity s.1 s.2)), ev ∈ evs :=
        fun ev h => (List.dropWhile_sublist _).subset h
      refine ⟨?_, ?_⟩
      · exact barOk_first c A C s (s2 :: rest) evs _ hg
          (fun ev h => (mem_takeWhile_before _ _ ev h).1)
          (hg.ordered.sublist (List.takeWhile_sublist _))
          (fun _ ev h => (mem_takeWhile_before _ _ ev h).2)
          (fun ev hev m hm hlt => mem_takeWhile_of_before _ evs hg.ordered hg.nonempty ev hev m hm hlt)
      · apply ih
        refine ⟨hposR, fun ev h => hg.nonempty ev (hdsub ev h), fun ev h => hg.chans ev (hdsub ev h), ?_,
          hg.ordered.sublist (List.dropWhile_sublist _), ?_, ?_, ?_⟩
        · intro ev hev m hm
          have h1 := hg.range ev (hdsub ev hev) m hm
          have h2 := hdw ev hev m hm
          have ht : total c (s :: s2 :: rest) = c.capacity s.1 s.2 + total c (s2 :: rest) := rfl
          rw [ht] at h1
          constructor <;> omega
        · intro ev hev m hm hty
          have h2 := hdw ev hev m hm
          rcases hg.sigOk ev (hdsub ev hev) m hm hty with ⟨h1, _⟩ | h1
          · omega
          · exact h1
        · intro ev hev m hm hty
          have h1 := hg.noteOk ev (hdsub ev hev) m hm hty
          have ht : total c (s :: s2 :: rest) = c.capacity s.1 s.2 + total c (s2 :: rest) := rfl
          rw [ht] at h1
          omega
        · refine announced_mono c evs _ _ _ _ hposR ?_ hg.ann.2
          intro ev hev m hm hge
          rw [← List.takeWhile_append_dropWhile (p := before (A + c.capacity s.1 s.2)) (l := evs)] at hev
          rcases List.mem_append.1 hev with h | h
          · have := (mem_takeWhile_before _ _ ev h).2 m hm
            omega
          · exact h

end SCoda.GlueL
