/-
  Helper lemmas for the `cutoff` theorem of Props/AbsTie2.lean: the stores through aliases of the generated `cutoff`
  (row-wise over the pairings) against the model's sequential `cutoffGo`.
-/
import SCoda.Lemmas.AbsTie2L
namespace SCoda.AbsTie2L
open SCoda SCoda.Gen.Abs2

/-! ### heap stores -/

theorem length_hUpd (h : Heap) (r : Nat) (f : Msg → Msg) : (hUpd h r f).length = h.length := by simp [hUpd]

theorem hGet_hUpd (h : Heap) (r : Nat) (f : Msg → Msg) (x : Nat) :
    hGet (hUpd h r f) x = if x = r ∧ r < h.length then f (hGet h r) else hGet h x := by
  simp only [hGet, hUpd, List.getD, List.getElem?_set]
  by_cases hx : r = x
  · subst hx
    by_cases hr : r < h.length
    · simp [hr]
    · simp [hr]
  · have : ¬ x = r := fun e => hx e.symm
    simp [hx, this]

/-- the new value of a note-off paired with a note-on at time `t` -/
def updT (mx rd : Int) (m : Msg) (t : Int) : Msg := if m.time - t > mx then { m with time := t + rd } else m

/-- the store of `cutoff` for one pairing -/
def storeP (mx rd : Int) (h : Heap) (p : List Nat) : Heap :=
  match p with
  | [a, b] => if (hGet h b).time - (hGet h a).time > mx then hUpd h b (fun o => { o with time := (hGet h a).time + rd }) else h
  | _ => h

theorem length_storeP (mx rd : Int) (h : Heap) (p : List Nat) : (storeP mx rd h p).length = h.length := by
  unfold storeP
  split
  · split
    · exact length_hUpd _ _ _
    · rfl
  · rfl

theorem hGet_storeP_pair (mx rd : Int) (h : Heap) (a b x : Nat) (hb : b < h.length) :
    hGet (storeP mx rd h [a, b]) x = if x = b then updT mx rd (hGet h b) (hGet h a).time else hGet h x := by
  simp only [storeP, updT]
  by_cases hc : (hGet h b).time - (hGet h a).time > mx
  · simp only [hc, if_true, hGet_hUpd, hb, and_true]
  · simp only [hc, if_false]
    by_cases hx : x = b
    · simp [hx]
    · simp [hx]

theorem length_storeAll (mx rd : Int) (PS : List (List Nat)) (h : Heap) : (PS.foldl (storeP mx rd) h).length = h.length := by
  induction PS generalizing h with
  | nil => rfl
  | cons p ps ih => simp only [List.foldl_cons, ih, length_storeP]

/-- a cell that is not the second element of any pairing is not changed -/
theorem hGet_storeAll_other (mx rd : Int) : ∀ (PS : List (List Nat)) (h : Heap) (x : Nat),
    (∀ p ∈ PS, ∃ a b, p = [a, b] ∧ b < h.length ∧ b ≠ x) → hGet (PS.foldl (storeP mx rd) h) x = hGet h x := by
  intro PS
  induction PS with
  | nil => intro h x _; rfl
  | cons p ps ih =>
    intro h x hp
    obtain ⟨a, b, rfl, hb, hne⟩ := hp p (by simp)
    simp only [List.foldl_cons]
    rw [ih _ x (by
      intro q hq
      obtain ⟨a', b', rfl, hb', hne'⟩ := hp q (by simp [hq])
      exact ⟨a', b', rfl, by rw [length_storeP]; exact hb', hne'⟩)]
    rw [hGet_storeP_pair _ _ _ _ _ _ hb]
    simp [Ne.symm hne]

/-- a cell that is the second element of the pairing `[a, x]` gets the new value computed from the ORIGINAL heap
    (all references in the pairings are distinct) -/
theorem hGet_storeAll_pair (mx rd : Int) : ∀ (PS : List (List Nat)) (h : Heap) (a x : Nat),
    (∀ p ∈ PS, ∃ a b, p = [a, b] ∧ b < h.length) → PS.flatten.Nodup → [a, x] ∈ PS →
    hGet (PS.foldl (storeP mx rd) h) x = updT mx rd (hGet h x) (hGet h a).time := by
  intro PS
  induction PS with
  | nil => intro h a x _ _ hm; simp at hm
  | cons p ps ih =>
    intro h a x hp hnd hm
    obtain ⟨a0, b0, rfl, hb0⟩ := hp p (by simp)
    simp only [List.flatten_cons, List.nodup_append] at hnd
    obtain ⟨hnd0, hndps, hdisj⟩ := hnd
    have hps : ∀ q ∈ ps, ∃ a b, q = [a, b] ∧ b < (storeP mx rd h [a0, b0]).length := by
      intro q hq
      obtain ⟨a', b', rfl, hb'⟩ := hp q (by simp [hq])
      exact ⟨a', b', rfl, by rw [length_storeP]; exact hb'⟩
    simp only [List.foldl_cons]
    rcases List.mem_cons.1 hm with hm | hm
    · -- this pairing: nothing later touches `x`
      obtain ⟨rfl, rfl⟩ : a = a0 ∧ x = b0 := by simpa using hm
      rw [hGet_storeAll_other _ _ _ _ x (by
        intro q hq
        obtain ⟨a', b', rfl, hb'⟩ := hps q hq
        refine ⟨a', b', rfl, hb', ?_⟩
        intro e
        exact hdisj x (by simp) x (List.mem_flatten.2 ⟨_, hq, by simp [e]⟩) rfl)]
      rw [hGet_storeP_pair _ _ _ _ _ _ hb0]
      simp
    · -- a later pairing: this store changes neither `x` nor `a`
      rw [ih _ a x hps hndps hm]
      have hxin : x ∈ ps.flatten := List.mem_flatten.2 ⟨_, hm, by simp⟩
      have hain : a ∈ ps.flatten := List.mem_flatten.2 ⟨_, hm, by simp⟩
      have hx : x ≠ b0 := fun e => hdisj b0 (by simp) x hxin e.symm
      have ha : a ≠ b0 := fun e => hdisj b0 (by simp) a hain e.symm
      rw [hGet_storeP_pair _ _ _ _ _ _ hb0, hGet_storeP_pair _ _ _ _ _ _ hb0]
      simp [hx, ha]

/-! ### sequential pairing on references and `cutoffGo` -/

/-- the note-on reference a note-off closes -/
def partnerOf (h : Heap) (o : Assoc (Int × Int) Nat) (r : Nat) : Option Nat :=
  if (hGet h r).ty = .noteOff then o.get? (hGet h r).nkey else none

/-- open note-on references after `r` -/
def openStep (h : Heap) (o : Assoc (Int × Int) Nat) (r : Nat) : Assoc (Int × Int) Nat :=
  if (hGet h r).ty = .noteOn then o.set (hGet h r).nkey r
  else if (hGet h r).ty = .noteOff then o.erase (hGet h r).nkey else o

def partnersGo (h : Heap) : List Nat → Assoc (Int × Int) Nat → List (Option Nat)
  | [], _ => []
  | r :: rs, o => partnerOf h o r :: partnersGo h rs (openStep h o r)

theorem partnersGo_length (h : Heap) : ∀ (l : List Nat) (o : Assoc (Int × Int) Nat), (partnersGo h l o).length = l.length := by
  intro l; induction l with
  | nil => intro o; rfl
  | cons r rs ih => intro o; simp [partnersGo, ih]

theorem partnersGo_snoc (h : Heap) : ∀ (l : List Nat) (o : Assoc (Int × Int) Nat) (r : Nat),
    partnersGo h (l ++ [r]) o = partnersGo h l o ++ [partnerOf h (l.foldl (openStep h) o) r] := by
  intro l; induction l with
  | nil => intro o r; rfl
  | cons x xs ih => intro o r; simp [partnersGo, ih]

theorem erase_absent {κ ν : Type} [DecidableEq κ] (d : Assoc κ ν) (k : κ) (h : d.get? k = none) : d.erase k = d := by
  induction d with
  | nil => rfl
  | cons a rest ih =>
    obtain ⟨k0, v⟩ := a
    by_cases h0 : k0 = k
    · simp [Assoc.get?, h0] at h
    · simp only [Assoc.get?, h0, if_false] at h
      simp only [Assoc.erase, h0, if_false, ih h]

/-- what a reference of the sequence becomes under `cutoff` -/
def cutVal (mx rd : Int) (h : Heap) (sp : Nat × Option Nat) : Msg :=
  match sp.2 with
  | some a => updT mx rd (hGet h sp.1) (hGet h a).time
  | none => hGet h sp.1

/-- the model's `cutoffGo`, position by position, in terms of the sequential partners -/
theorem cutoffGo_partners (mx rd : Int) (h : Heap) : ∀ (l : List Nat) (oc : Assoc (Int × Int) Int) (oR : Assoc (Int × Int) Nat),
    GluePair.KeysNodup oc → GluePair.KeysNodup oR → (∀ k, oc.get? k = (oR.get? k).map (fun a => (hGet h a).time)) →
    cutoffGo mx rd (deref h l) oc = (l.zip (partnersGo h l oR)).map (cutVal mx rd h) := by
  intro l
  induction l with
  | nil => intro oc oR _ _ _; rfl
  | cons r rs ih =>
    intro oc oR hkc hkr hrel
    simp only [deref, List.map_cons, partnersGo, List.zip_cons_cons]
    by_cases hon : (hGet h r).ty = .noteOn
    · have e : cutoffGo mx rd (hGet h r :: deref h rs) oc
          = hGet h r :: cutoffGo mx rd (deref h rs) (oc.set (hGet h r).nkey (hGet h r).time) := by
        rw [cutoffGo]; simp only [hon]
      have e' := ih (oc.set (hGet h r).nkey (hGet h r).time) (oR.set (hGet h r).nkey r) (hkc.set _ _) (hkr.set _ _) (by
        intro k
        rw [GluePair.get?_set, GluePair.get?_set]
        split
        · rfl
        · exact hrel k)
      simp only [deref] at e e'
      rw [e, e']
      simp [cutVal, partnerOf, openStep, hon]
    · by_cases hoff : (hGet h r).ty = .noteOff
      · cases hg : oR.get? (hGet h r).nkey with
        | none =>
          have hgc : oc.get? (hGet h r).nkey = none := by rw [hrel, hg]; rfl
          have e : cutoffGo mx rd (hGet h r :: deref h rs) oc = hGet h r :: cutoffGo mx rd (deref h rs) oc := by
            rw [cutoffGo]; simp only [hoff, hgc]
          have e' := ih oc oR hkc hkr hrel
          simp only [deref] at e e'
          rw [e, e']
          simp [cutVal, partnerOf, openStep, hon, hoff, hg, erase_absent _ _ hg]
        | some a =>
          have hgc : oc.get? (hGet h r).nkey = some (hGet h a).time := by rw [hrel, hg]; rfl
          have e : cutoffGo mx rd (hGet h r :: deref h rs) oc
              = (if (hGet h r).time - (hGet h a).time > mx then { hGet h r with time := (hGet h a).time + rd } else hGet h r)
                :: cutoffGo mx rd (deref h rs) (oc.erase (hGet h r).nkey) := by
            rw [cutoffGo]; simp only [hoff, hgc]
          have e' := ih (oc.erase (hGet h r).nkey) (oR.erase (hGet h r).nkey) (hkc.erase _) (hkr.erase _) (by
            intro k
            by_cases hk : (hGet h r).nkey = k
            · subst hk
              rw [GluePair.get?_erase_self _ _ hkc, GluePair.get?_erase_self _ _ hkr]; rfl
            · rw [GluePair.get?_erase_ne _ _ _ hk, GluePair.get?_erase_ne _ _ _ hk]; exact hrel k)
          simp only [deref] at e e'
          rw [e, e']
          simp [cutVal, partnerOf, openStep, hon, hoff, hg, updT]
      · have e : cutoffGo mx rd (hGet h r :: deref h rs) oc = hGet h r :: cutoffGo mx rd (deref h rs) oc := by
          rw [cutoffGo]
          cases hty : (hGet h r).ty <;> simp_all
        have e' := ih oc oR hkc hkr hrel
        simp only [deref] at e e'
        rw [e, e']
        simp [cutVal, partnerOf, openStep, hon, hoff]

/-! ### rows, open table and all references of the pairing state -/

def rowOf (mp : MP) (ch : Int) : List (List Nat) := (mp.get? ch).getD []
def allRefs (mp : MP) : List Nat := (mp.flatMap (·.2)).flatten

theorem rowOf_set (mp : MP) (ch ch' : Int) (v : List (List Nat)) :
    rowOf (mp.set ch v) ch' = if ch = ch' then v else rowOf mp ch' := by
  simp only [rowOf, GluePair.get?_set]; split <;> rfl

theorem rowOf_setDefault (mp : MP) (ch ch' : Int) : rowOf (dictSetDefault mp ch []) ch' = rowOf mp ch' := by
  simp only [rowOf, get?_setDefault]
  split
  · rename_i h; subst h; cases mp.get? ch <;> rfl
  · rfl

theorem flatGet_setDefault (om : OM) (ch ch' note : Int) : flatGet (dictSetDefault om ch []) ch' note = flatGet om ch' note := by
  simp only [flatGet, get?_setDefault]
  split
  · rename_i h; subst h; cases om.get? ch <;> simp [Assoc.get?]
  · rfl

theorem allRefs_setDefault (mp : MP) (ch : Int) : allRefs (dictSetDefault mp ch []) = allRefs mp := by
  unfold dictSetDefault
  split
  · rfl
  · rename_i hc
    have hg : mp.get? ch = none := by
      rw [contains_eq] at hc; cases h : mp.get? ch <;> simp [h] at hc ⊢
    clear hc
    induction mp with
    | nil => simp [Assoc.set, allRefs]
    | cons a rest ih =>
      obtain ⟨k, v⟩ := a
      by_cases hk : k = ch
      · simp [Assoc.get?, hk] at hg
      · simp only [Assoc.get?, hk, if_false] at hg
        have := ih hg
        simp only [allRefs, Assoc.set, hk, if_false, List.flatMap_cons, List.flatten_append] at this ⊢
        rw [this]

/-- replacing the row of `ch` by a row whose references are those of the old row plus `extra` -/
theorem allRefs_set_perm (mp : MP) (ch : Int) (v : List (List Nat)) (extra : List Nat)
    (hv : v.flatten.Perm ((rowOf mp ch).flatten ++ extra)) : (allRefs (mp.set ch v)).Perm (allRefs mp ++ extra) := by
  induction mp with
  | nil =>
    simp only [rowOf, Assoc.get?, Option.getD_none, List.flatten_nil, List.nil_append] at hv
    simpa [allRefs, Assoc.set] using hv
  | cons a rest ih =>
    obtain ⟨k, w⟩ := a
    by_cases hk : k = ch
    · subst hk
      simp only [rowOf, Assoc.get?, if_true, Option.getD_some] at hv
      simp only [allRefs, Assoc.set, if_true, List.flatMap_cons, List.flatten_append]
      refine List.Perm.trans (List.Perm.append_right _ hv) ?_
      rw [List.append_assoc, List.append_assoc]
      exact List.Perm.append_left _ List.perm_append_comm
    · have hv' : v.flatten.Perm ((rowOf rest ch).flatten ++ extra) := by
        simpa [rowOf, Assoc.get?, hk] using hv
      have := ih hv'
      simp only [allRefs, Assoc.set, hk, if_false, List.flatMap_cons, List.flatten_append] at this ⊢
      rw [List.append_assoc]
      exact List.Perm.append_left _ this

theorem flatGet_inner (om : OM) (ch note : Int) : flatGet om ch note = ((om.get? ch).getD []).get? note := by
  unfold flatGet; cases om.get? ch <;> simp [Assoc.get?]

/-- the index `open_messages[ch][note]` as used by `closeAt` -/
theorem idx_eq (om : OM) (ch note : Int) (i : Nat) (h : flatGet om ch note = some (i : Int)) :
    ((((om.get? ch).getD []).get? note).getD 0).toNat = i := by
  rw [← flatGet_inner, h]; simp

theorem rowOf_closeAt (mp : MP) (om : OM) (ch note : Int) (x : Nat) (i : Nat) (h : flatGet om ch note = some (i : Int)) (ch' : Int) :
    rowOf (closeAt mp om ch note x).1 ch' = if ch = ch' then (rowOf mp ch).set i ((rowOf mp ch).getD i [] ++ [x]) else rowOf mp ch' := by
  simp only [closeAt, idx_eq om ch note i h, rowOf_set]; rfl

theorem flatGet_closeAt (mp : MP) (om : OM) (ch note : Int) (x : Nat) (hkn : GluePair.KeysNodup ((om.get? ch).getD [])) (ch' note' : Int) :
    flatGet (closeAt mp om ch note x).2 ch' note' = if ch = ch' ∧ note = note' then none else flatGet om ch' note' := by
  simp only [closeAt, flatGet, GluePair.get?_set]
  by_cases hc : ch = ch'
  · subst hc
    simp only [if_true, Option.bind_some, true_and]
    by_cases hn : note = note'
    · subst hn; simp [GluePair.get?_erase_self _ _ hkn]
    · rw [GluePair.get?_erase_ne _ _ _ hn]; simp only [hn, if_false]
      cases om.get? ch <;> simp [Assoc.get?]
  · simp [hc]

theorem flatten_set_append {α : Type} (x : α) : ∀ (l : List (List α)) (i : Nat) (h : i < l.length),
    (l.set i (l.getD i [] ++ [x])).flatten.Perm (l.flatten ++ [x]) := by
  intro l
  induction l with
  | nil => intro i h; simp at h
  | cons y ys ih =>
    intro i h
    cases i with
    | zero =>
      simp only [List.set_cons_zero, List.getD_cons_zero, List.flatten_cons, List.append_assoc]
      exact List.Perm.append_left _ List.perm_append_comm
    | succ n =>
      simp only [List.set_cons_succ, List.getD_cons_succ, List.flatten_cons, List.append_assoc]
      exact List.Perm.append_left _ (ih n (by simpa using h))

theorem allRefs_closeAt (mp : MP) (om : OM) (ch note : Int) (x : Nat) (i : Nat) (h : flatGet om ch note = some (i : Int))
    (hi : i < (rowOf mp ch).length) : (allRefs (closeAt mp om ch note x).1).Perm (allRefs mp ++ [x]) := by
  simp only [closeAt, idx_eq om ch note i h]
  exact allRefs_set_perm mp ch _ [x] (flatten_set_append x _ i hi)

theorem rowOf_openNew (mp : MP) (om : OM) (ch note : Int) (r : Nat) (ch' : Int) :
    rowOf (openNew mp om ch note r).1 ch' = if ch = ch' then rowOf mp ch ++ [[r]] else rowOf mp ch' := by
  simp only [openNew, rowOf_set]; rfl

theorem flatGet_openNew (mp : MP) (om : OM) (ch note : Int) (r : Nat) (ch' note' : Int) :
    flatGet (openNew mp om ch note r).2 ch' note'
      = if ch = ch' ∧ note = note' then some (((rowOf mp ch).length : Nat) : Int) else flatGet om ch' note' := by
  simp only [openNew, flatGet, GluePair.get?_set]
  by_cases hc : ch = ch'
  · subst hc
    simp only [if_true, Option.bind_some, true_and, Option.getD_some, List.length_append, List.length_cons, List.length_nil]
    rw [GluePair.get?_set]
    by_cases hn : note = note'
    · subst hn
      simp only [if_true, rowOf, Option.some.injEq]
      omega
    · simp only [hn, if_false]
      cases om.get? ch <;> simp [Assoc.get?]
  · simp [hc]

theorem allRefs_openNew (mp : MP) (om : OM) (ch note : Int) (r : Nat) :
    (allRefs (openNew mp om ch note r).1).Perm (allRefs mp ++ [r]) := by
  simp only [openNew]
  exact allRefs_set_perm mp ch _ [r] (by simp [rowOf])

/-! ### invariants of the pairing loop that `cutoff` needs -/

/-- index structure of the pairing state relative to the open note-on references `og` (a lookup function) -/
structure IdxInv (h0 : Heap) (D : Nat → Prop) (og : Int × Int → Option Nat) (mp : MP) (om : OM) : Prop where
  c1 : ∀ ch note, flatGet om ch note = none ↔ og (ch, note) = none
  c2 : ∀ ch note a, og (ch, note) = some a →
        (hGet h0 a).nkey = (ch, note) ∧ (hGet h0 a).ty = .noteOn ∧ D a ∧
        ∃ i : Nat, flatGet om ch note = some (i : Int) ∧ (rowOf mp ch)[i]? = some [a]
  c3 : ∀ ch i p, (rowOf mp ch)[i]? = some p →
        (∃ a, p = [a] ∧ (hGet h0 a).ch = ch ∧ og (hGet h0 a).nkey = some a ∧
              flatGet om ch (hGet h0 a).note = some ((i : Nat) : Int)) ∨ (∃ a b, p = [a, b])
  knom : ∀ c ∈ om, GluePair.KeysNodup c.2

theorem idx_nil (h0 : Heap) (D : Nat → Prop) : IdxInv h0 D (fun _ => none) [] [] :=
  ⟨fun _ _ => by simp [flatGet, Assoc.get?], fun _ _ _ h => by simp at h, fun _ _ _ h => by simp [rowOf, Assoc.get?] at h,
   fun _ h => by simp at h⟩

theorem idx_setDefault {h0 D og mp om} (hI : IdxInv h0 D og mp om) (ch : Int) :
    IdxInv h0 D og (dictSetDefault mp ch []) (dictSetDefault om ch []) := by
  refine ⟨?_, ?_, ?_, ?_⟩
  · intro ch' note; rw [flatGet_setDefault]; exact hI.c1 ch' note
  · intro ch' note a h; simp only [flatGet_setDefault, rowOf_setDefault]; exact hI.c2 ch' note a h
  · intro ch' i p h; simp only [flatGet_setDefault, rowOf_setDefault] at h ⊢; exact hI.c3 ch' i p h
  · intro c hc
    rcases mem_setDefault _ _ _ _ hc with hc | rfl
    · exact hI.knom c hc
    · exact List.Pairwise.nil

theorem knom_inner {h0 D og mp om} (hI : IdxInv h0 D og mp om) (ch : Int) : GluePair.KeysNodup ((om.get? ch).getD []) := by
  cases hg : om.get? ch with
  | none => exact List.Pairwise.nil
  | some d => exact hI.knom (ch, d) (GluePair.mem_of_get? _ _ _ hg)

theorem idx_mono {h0 D D' og mp om} (hI : IdxInv h0 D og mp om) (hD : ∀ a, D a → D' a) : IdxInv h0 D' og mp om :=
  ⟨hI.c1, fun ch note a h => by obtain ⟨h1, h2, h3, h4⟩ := hI.c2 ch note a h; exact ⟨h1, h2, hD a h3, h4⟩, hI.c3, hI.knom⟩

/-- closing the open note `(ch, note)` (held by `a`) with the reference `x` -/
theorem idx_close {h0 D og mp om} (hI : IdxInv h0 D og mp om) (ch note : Int) (a : Nat) (ha : og (ch, note) = some a) (x : Nat) :
    IdxInv h0 D (fun k => if k = (ch, note) then none else og k) (closeAt mp om ch note x).1 (closeAt mp om ch note x).2 := by
  obtain ⟨hk, hty, hD, i, hfl, hrow⟩ := hI.c2 ch note a ha
  have hkn := knom_inner hI ch
  have hi : i < (rowOf mp ch).length := by
    rcases List.getElem?_eq_some_iff.1 hrow with ⟨h, _⟩; exact h
  have hgetD : (rowOf mp ch).getD i [] = [a] := by simp [List.getD, hrow]
  refine ⟨?_, ?_, ?_, ?_⟩
  · intro ch' note'
    rw [flatGet_closeAt _ _ _ _ _ hkn]
    by_cases hc : ch = ch' ∧ note = note'
    · obtain ⟨rfl, rfl⟩ := hc; simp
    · have : ¬ (ch', note') = (ch, note) := by
        intro e; obtain ⟨rfl, rfl⟩ := Prod.mk.inj e; exact hc ⟨rfl, rfl⟩
      simp only [hc, this, if_false]; exact hI.c1 ch' note'
  · intro ch' note' a' h'
    by_cases hc : (ch', note') = (ch, note)
    · simp [hc] at h'
    · simp only [hc, if_false] at h'
      obtain ⟨h1, h2, h3, i', h4, h5⟩ := hI.c2 ch' note' a' h'
      refine ⟨h1, h2, h3, i', ?_, ?_⟩
      · rw [flatGet_closeAt _ _ _ _ _ hkn]
        have : ¬ (ch = ch' ∧ note = note') := by
          rintro ⟨rfl, rfl⟩; exact hc rfl
        simp only [this, if_false]; exact h4
      · rw [rowOf_closeAt _ _ _ _ _ i hfl]
        by_cases hcc : ch = ch'
        · subst hcc
          simp only [if_true]
          have hne : i ≠ i' := by
            intro e; subst e
            rw [hrow] at h5
            have : a = a' := by simpa using h5
            subst this
            apply hc
            rw [← h1, ← hk]
          rw [List.getElem?_set_ne hne]; exact h5
        · simp only [hcc, if_false]; exact h5
  · intro ch' j p hp
    rw [rowOf_closeAt _ _ _ _ _ i hfl] at hp
    by_cases hcc : ch = ch'
    · subst hcc
      simp only [if_true] at hp
      by_cases hj : i = j
      · subst hj
        rw [List.getElem?_set_self hi] at hp
        right
        refine ⟨a, x, ?_⟩
        rw [hgetD] at hp
        simpa using hp.symm
      · rw [List.getElem?_set_ne hj] at hp
        rcases hI.c3 ch j p hp with ⟨a', rfl, h1, h2, h3⟩ | h
        · left
          have hne : ¬ (hGet h0 a').nkey = (ch, note) := by
            intro e
            rw [e, ha] at h2
            have : a = a' := by simpa using h2
            subst this
            have e2 : (hGet h0 a).note = note := by
              have := congrArg Prod.snd hk; simpa [Msg.nkey] using this
            rw [e2, hfl] at h3
            have : (i : Int) = (j : Int) := by simpa using h3
            exact hj (by omega)
          refine ⟨a', rfl, h1, by simp only [hne, if_false]; exact h2, ?_⟩
          rw [flatGet_closeAt _ _ _ _ _ hkn]
          have : ¬ (note = (hGet h0 a').note) := by
            intro e
            apply hne
            simp only [Msg.nkey, h1, ← e]
          simp only [true_and, this, if_false]; exact h3
        · right; exact h
    · simp only [hcc, if_false] at hp
      rcases hI.c3 ch' j p hp with ⟨a', rfl, h1, h2, h3⟩ | h
      · left
        have hne : ¬ (hGet h0 a').nkey = (ch, note) := by
          intro e
          have := congrArg Prod.fst e
          simp only [Msg.nkey] at this
          exact hcc (by rw [← this, h1])
        refine ⟨a', rfl, h1, by simp only [hne, if_false]; exact h2, ?_⟩
        rw [flatGet_closeAt _ _ _ _ _ hkn]
        have : ¬ (ch = ch' ∧ note = (hGet h0 a').note) := fun h => hcc h.1
        simp only [this, if_false]; exact h3
      · right; exact h
  · intro c hc
    simp only [closeAt] at hc
    rcases GluePair.mem_set _ _ _ _ hc with hc | rfl
    · exact hI.knom c hc
    · exact hkn.erase _

/-- starting the pairing `[r]` for the note `(ch, note)`, which is not open -/
theorem idx_open {h0 D og mp om} (hI : IdxInv h0 D og mp om) (ch note : Int) (r : Nat)
    (hk : (hGet h0 r).nkey = (ch, note)) (hty : (hGet h0 r).ty = .noteOn) (hD : D r) (hnone : og (ch, note) = none) :
    IdxInv h0 D (fun k => if k = (ch, note) then some r else og k) (openNew mp om ch note r).1 (openNew mp om ch note r).2 := by
  have hkn := knom_inner hI ch
  have hchr : (hGet h0 r).ch = ch := by have := congrArg Prod.fst hk; simpa [Msg.nkey] using this
  have hnr : (hGet h0 r).note = note := by have := congrArg Prod.snd hk; simpa [Msg.nkey] using this
  refine ⟨?_, ?_, ?_, ?_⟩
  · intro ch' note'
    rw [flatGet_openNew]
    by_cases hc : ch = ch' ∧ note = note'
    · obtain ⟨rfl, rfl⟩ := hc; simp
    · have : ¬ (ch', note') = (ch, note) := by
        intro e; obtain ⟨rfl, rfl⟩ := Prod.mk.inj e; exact hc ⟨rfl, rfl⟩
      simp only [hc, this, if_false]; exact hI.c1 ch' note'
  · intro ch' note' a' h'
    by_cases hc : (ch', note') = (ch, note)
    · obtain ⟨rfl, rfl⟩ := Prod.mk.inj hc
      simp only [if_true, Option.some.injEq] at h'
      subst h'
      refine ⟨hk, hty, hD, (rowOf mp ch').length, ?_, ?_⟩
      · rw [flatGet_openNew]; simp
      · rw [rowOf_openNew]; simp
    · simp only [hc, if_false] at h'
      obtain ⟨h1, h2, h3, i', h4, h5⟩ := hI.c2 ch' note' a' h'
      refine ⟨h1, h2, h3, i', ?_, ?_⟩
      · rw [flatGet_openNew]
        have : ¬ (ch = ch' ∧ note = note') := by
          rintro ⟨rfl, rfl⟩; exact hc rfl
        simp only [this, if_false]; exact h4
      · rw [rowOf_openNew]
        by_cases hcc : ch = ch'
        · subst hcc
          simp only [if_true]
          have hi' : i' < (rowOf mp ch).length := by
            rcases List.getElem?_eq_some_iff.1 h5 with ⟨h, _⟩; exact h
          rw [List.getElem?_append_left hi']; exact h5
        · simp only [hcc, if_false]; exact h5
  · intro ch' j p hp
    rw [rowOf_openNew] at hp
    have old : ∀ a', (hGet h0 a').ch = ch' → og (hGet h0 a').nkey = some a' → flatGet om ch' (hGet h0 a').note = some (j : Int) →
        (∃ a, [a'] = [a] ∧ (hGet h0 a).ch = ch' ∧ (if (hGet h0 a).nkey = (ch, note) then some r else og (hGet h0 a).nkey) = some a ∧
          flatGet (openNew mp om ch note r).2 ch' (hGet h0 a).note = some (j : Int)) := by
      intro a' h1 h2 h3
      have hne : ¬ (hGet h0 a').nkey = (ch, note) := by
        intro e; rw [e, hnone] at h2; cases h2
      refine ⟨a', rfl, h1, by simp only [hne, if_false]; exact h2, ?_⟩
      rw [flatGet_openNew]
      have : ¬ (ch = ch' ∧ note = (hGet h0 a').note) := by
        rintro ⟨e1, e2⟩
        apply hne
        simp only [Msg.nkey, h1, ← e1, ← e2]
      simp only [this, if_false]; exact h3
    by_cases hcc : ch = ch'
    · subst hcc
      simp only [if_true] at hp
      by_cases hj : j < (rowOf mp ch).length
      · rw [List.getElem?_append_left hj] at hp
        rcases hI.c3 ch j p hp with ⟨a', rfl, h1, h2, h3⟩ | h
        · left; exact old a' h1 h2 h3
        · right; exact h
      · have hj' : j = (rowOf mp ch).length := by
          rcases List.getElem?_eq_some_iff.1 hp with ⟨h, _⟩
          simp only [List.length_append, List.length_cons, List.length_nil] at h
          omega
        subst hj'
        simp only [List.getElem?_concat_length, Option.some.injEq] at hp
        subst hp
        left
        refine ⟨r, rfl, hchr, by simp [hk], ?_⟩
        rw [flatGet_openNew]; simp [hnr]
    · simp only [hcc, if_false] at hp
      rcases hI.c3 ch' j p hp with ⟨a', rfl, h1, h2, h3⟩ | h
      · left; exact old a' h1 h2 h3
      · right; exact h
  · intro c hc
    simp only [openNew] at hc
    rcases GluePair.mem_set _ _ _ _ hc with hc | rfl
    · exact hI.knom c hc
    · exact hkn.set _ _

/-- which references occur in the pairings, and which processed references are paired with which note-on -/
structure RefInv (h0 : Heap) (done : List Nat) (Z : List (Nat × Option Nat)) (h : Heap) (mp : MP) : Prop where
  ext : ∃ x, h = h0 ++ x
  c4 : (allRefs mp).Nodup
  c5 : ∀ x ∈ allRefs mp, (x ∈ done ∨ h0.length ≤ x) ∧ x < h.length
  c6a : ∀ s a, (s, some a) ∈ Z → a ∈ done ∧ ∃ ch, [a, s] ∈ rowOf mp ch
  c6b : ∀ s, (s, none) ∈ Z → ∀ a ch, [a, s] ∉ rowOf mp ch
  zd : ∀ s o, (s, o) ∈ Z → s ∈ done

theorem ref_nil (h0 : Heap) : RefInv h0 [] [] h0 [] :=
  ⟨⟨[], by simp⟩, by simp [allRefs], fun x hx => by simp [allRefs] at hx, fun _ _ h => by simp at h, fun _ h => by simp at h,
   fun _ _ h => by simp at h⟩

theorem ref_trans {h0 done Z h mp} (hI : RefInv h0 done Z h mp) (done' : List Nat) (Z' ZE : List (Nat × Option Nat))
    (h' : Heap) (mp' : MP) (E : List Nat) (NP : List (Nat × Nat))
    (hh : ∃ y, h' = h ++ y) (hperm : (allRefs mp').Perm (allRefs mp ++ E)) (hE : E.Nodup)
    (hEn : ∀ e ∈ E, e ∉ allRefs mp ∧ (e ∈ done' ∨ h0.length ≤ e) ∧ e < h'.length)
    (hd : ∀ x ∈ done, x ∈ done') (hmono : ∀ ch a b, [a, b] ∈ rowOf mp ch → [a, b] ∈ rowOf mp' ch)
    (hnew : ∀ ch a b, [a, b] ∈ rowOf mp' ch → [a, b] ∈ rowOf mp ch ∨ (a, b) ∈ NP)
    (hZ : Z' = Z ++ ZE) (hZa : ∀ s a, (s, some a) ∈ ZE → a ∈ done' ∧ ∃ ch, [a, s] ∈ rowOf mp' ch)
    (hZb : ∀ s, (s, none) ∈ ZE → ∀ a ch, [a, s] ∉ rowOf mp' ch)
    (hZd : ∀ s o, (s, o) ∈ ZE → s ∈ done') (hNP : ∀ a b, (a, b) ∈ NP → b ∉ done) : RefInv h0 done' Z' h' mp' := by
  obtain ⟨y, hy⟩ := hh
  obtain ⟨x, hx⟩ := hI.ext
  refine ⟨⟨x ++ y, by rw [hy, hx, List.append_assoc]⟩, ?_, ?_, ?_, ?_, ?_⟩
  · rw [hperm.nodup_iff, List.nodup_append]
    refine ⟨hI.c4, hE, ?_⟩
    intro a ha b hb e
    subst e
    exact (hEn a hb).1 ha
  · intro z hz
    rcases List.mem_append.1 (hperm.mem_iff.1 hz) with hz | hz
    · obtain ⟨h1, h2⟩ := hI.c5 z hz
      refine ⟨?_, by rw [hy, List.length_append]; omega⟩
      rcases h1 with h1 | h1
      · exact Or.inl (hd z h1)
      · exact Or.inr h1
    · exact (hEn z hz).2
  · intro s a hs
    rw [hZ] at hs
    rcases List.mem_append.1 hs with hs | hs
    · obtain ⟨hda, ch, hc⟩ := hI.c6a s a hs
      exact ⟨hd a hda, ch, hmono ch a s hc⟩
    · exact hZa s a hs
  · intro s hs a ch hc
    rw [hZ] at hs
    rcases List.mem_append.1 hs with hs | hs
    · rcases hnew ch a s hc with hc | hc
      · exact hI.c6b s hs a ch hc
      · exact hNP a s hc (hI.zd s none hs)
    · exact hZb s hs a ch hc
  · intro s o hs
    rw [hZ] at hs
    rcases List.mem_append.1 hs with hs | hs
    · exact hd s (hI.zd s o hs)
    · exact hZd s o hs

theorem knO_step (h0 : Heap) (o : Assoc (Int × Int) Nat) (r : Nat) (h : GluePair.KeysNodup o) : GluePair.KeysNodup (openStep h0 o r) := by
  unfold openStep
  split
  · exact h.set _ _
  · split
    · exact h.erase _
    · exact h

theorem knO_fold (h0 : Heap) (l : List Nat) : ∀ o, GluePair.KeysNodup o → GluePair.KeysNodup (l.foldl (openStep h0) o) := by
  induction l with
  | nil => intro o h; exact h
  | cons x xs ih => intro o h; exact ih _ (knO_step h0 o x h)

theorem mem_allRefs_of_row (mp : MP) (ch : Int) (p : List Nat) (x : Nat) (hp : p ∈ rowOf mp ch) (hx : x ∈ p) : x ∈ allRefs mp := by
  unfold rowOf at hp
  cases hg : mp.get? ch with
  | none => simp [hg] at hp
  | some v =>
    simp only [hg, Option.getD_some] at hp
    have := GluePair.mem_of_get? _ _ _ hg
    simp only [allRefs, List.mem_flatten, List.mem_flatMap]
    exact ⟨p, ⟨(ch, v), this, hp⟩, hx⟩

theorem zip_snoc {α β : Type} (l : List α) (m : List β) (a : α) (b : β) (h : l.length = m.length) :
    (l ++ [a]).zip (m ++ [b]) = l.zip m ++ [(a, b)] := by
  rw [List.zip_append h]; rfl

theorem mem_set_of_ne {α : Type} (l : List α) (i : Nat) (v y z : α) (hy : y ∈ l) (hz : l[i]? = some z) (hne : y ≠ z) :
    y ∈ l.set i v := by
  obtain ⟨j, hj⟩ := List.getElem?_of_mem hy
  have hji : i ≠ j := by
    intro e; subst e; rw [hz] at hj; exact hne (by simpa using hj.symm)
  have : (l.set i v)[j]? = some y := by rw [List.getElem?_set_ne hji]; exact hj
  exact List.mem_of_getElem? this

/-- the types `cutoff` pairs -/
abbrev T2 : List MType := [.noteOn, .noteOff]

/-- everything `cutoff` needs to know about the state of the pairing loop after the references `done` -/
structure CInv (h0 : Heap) (done : List Nat) (s : Heap × MP × OM) : Prop where
  idx : IdxInv h0 (· ∈ done) (fun k => (done.foldl (openStep h0) []).get? k) s.2.1 s.2.2
  ref : RefInv h0 done (done.zip (partnersGo h0 done [])) s.1 s.2.1

theorem cinv_nil (h0 : Heap) : CInv h0 [] (h0, [], []) :=
  ⟨by simpa [Assoc.get?] using idx_nil h0 (· ∈ ([] : List Nat)), by simpa [partnersGo] using ref_nil h0⟩

theorem cinv_step (h0 : Heap) (done : List Nat) (s : Heap × MP × OM) (r : Nat) (hI : CInv h0 done s)
    (hr : r < h0.length) (hnd : r ∉ done) (hdlt : ∀ x ∈ done, x < h0.length) :
    CInv h0 (done ++ [r]) (stepR T2 true s r) := by
  obtain ⟨h, mp, om⟩ := s
  obtain ⟨hidx, href⟩ := hI
  simp only at hidx href
  obtain ⟨hx, hext⟩ := href.ext
  have hg : hGet h r = hGet h0 r := by rw [hext]; exact hGet_append_lt _ _ _ hr
  have hn0 : h0.length ≤ h.length := by rw [hext, List.length_append]; omega
  have hknO := knO_fold h0 done [] List.Pairwise.nil
  have hrnot : r ∉ allRefs mp := by
    intro hm
    rcases (href.c5 r hm).1 with h1 | h1
    · exact hnd h1
    · omega
  have hmonoD : ∀ a, a ∈ done → a ∈ done ++ [r] := fun a ha => by simp [ha]
  have hzip : (done ++ [r]).zip (partnersGo h0 (done ++ [r]) [])
      = done.zip (partnersGo h0 done []) ++ [(r, partnerOf h0 (done.foldl (openStep h0) []) r)] := by
    rw [partnersGo_snoc, zip_snoc _ _ _ _ (partnersGo_length h0 done []).symm]
  have hfold : (done ++ [r]).foldl (openStep h0) [] = openStep h0 (done.foldl (openStep h0) []) r := by
    rw [List.foldl_append]; rfl
  generalize hO : done.foldl (openStep h0) [] = O at hidx hknO hzip hfold
  have hsd := idx_setDefault hidx (hGet h0 r).ch
  have hopen : isOpen (dictSetDefault om (hGet h0 r).ch []) (hGet h0 r).ch (hGet h0 r).note = (O.get? (hGet h0 r).nkey).isSome := by
    rw [isOpen, ← flatGet_inner, flatGet_setDefault]
    cases hq : O.get? (hGet h0 r).nkey with
    | none => rw [(hidx.c1 _ _).2 hq]; rfl
    | some a =>
      cases hf : flatGet om (hGet h0 r).ch (hGet h0 r).note with
      | none => have := (hidx.c1 _ _).1 hf; simp only [Msg.nkey] at hq; rw [this] at hq; cases hq
      | some v => rfl
  by_cases hon : (hGet h0 r).ty = .noteOn
  · -- NOTE_ON
    have hstep : openStep h0 O r = O.set (hGet h0 r).nkey r := by simp [openStep, hon]
    have hpart : partnerOf h0 O r = none := by simp [partnerOf, hon]
    have hcT : T2.contains MType.noteOn = true := rfl
    have hogset : (fun k => (O.set (hGet h0 r).nkey r).get? k)
        = (fun k => if k = ((hGet h0 r).ch, (hGet h0 r).note) then some r else O.get? k) := by
      funext k
      rw [GluePair.get?_set]
      by_cases hk' : k = ((hGet h0 r).ch, (hGet h0 r).note)
      · subst hk'; simp [Msg.nkey]
      · have : ¬ (hGet h0 r).nkey = k := fun e => hk' e.symm
        simp only [hk', this, if_false]
    cases hq : O.get? (hGet h0 r).nkey with
    | none =>
      have hsR : stepR T2 true (h, mp, om) r = (h, openNew (dictSetDefault mp (hGet h0 r).ch []) (dictSetDefault om (hGet h0 r).ch [])
          (hGet h0 r).ch (hGet h0 r).note r) := by
        simp only [stepR, hg, hon, hcT, Bool.not_true, Bool.false_eq_true, if_false, beq_self_eq_true, if_true, hopen, hq,
          Option.isSome_none, Bool.false_and]
      rw [hsR]
      refine ⟨?_, ?_⟩
      · simp only [hfold, hstep]
        rw [hogset]
        exact idx_open (idx_mono hsd hmonoD) _ _ r rfl hon (by simp) hq
      · simp only [hzip, hpart]
        refine ref_trans href _ _ [(r, none)] h _ [r] [] ⟨[], by simp⟩ ?_ (by simp) ?_ hmonoD ?_ ?_ rfl (by simp) ?_ (by simp) (by simp)
        · have := allRefs_openNew (dictSetDefault mp (hGet h0 r).ch []) (dictSetDefault om (hGet h0 r).ch []) (hGet h0 r).ch (hGet h0 r).note r
          rwa [allRefs_setDefault] at this
        · intro e he
          simp only [List.mem_singleton] at he
          subst he
          exact ⟨hrnot, Or.inl (by simp), by omega⟩
        · intro ch' a' b' hh
          rw [rowOf_openNew]
          split
          · rename_i hcc; subst hcc; rw [rowOf_setDefault]; exact List.mem_append_left _ hh
          · rw [rowOf_setDefault]; exact hh
        · intro ch' a' b' hh
          rw [rowOf_openNew] at hh
          split at hh
          · rename_i hcc; subst hcc
            rw [rowOf_setDefault] at hh
            rcases List.mem_append.1 hh with hh | hh
            · exact Or.inl hh
            · simp at hh
          · rw [rowOf_setDefault] at hh; exact Or.inl hh
        · intro s hs a' ch' hc'
          simp only [List.mem_singleton, Prod.mk.injEq, and_true] at hs
          subst hs
          rw [rowOf_openNew] at hc'
          split at hc'
          · rename_i hcc; subst hcc
            rw [rowOf_setDefault] at hc'
            rcases List.mem_append.1 hc' with hc' | hc'
            · exact hrnot (mem_allRefs_of_row mp _ _ s hc' (by simp))
            · simp at hc'
          · rw [rowOf_setDefault] at hc'
            exact hrnot (mem_allRefs_of_row mp _ _ s hc' (by simp))
    | some a =>
      have hsR : stepR T2 true (h, mp, om) r =
          (h ++ [{ ty := .noteOff, ch := chanOfInt (hGet h0 r).ch, time := (hGet h0 r).time, note := (hGet h0 r).note }],
           openNew (closeAt (dictSetDefault mp (hGet h0 r).ch []) (dictSetDefault om (hGet h0 r).ch []) (hGet h0 r).ch (hGet h0 r).note h.length).1
             (closeAt (dictSetDefault mp (hGet h0 r).ch []) (dictSetDefault om (hGet h0 r).ch []) (hGet h0 r).ch (hGet h0 r).note h.length).2
             (hGet h0 r).ch (hGet h0 r).note r) := by
        simp only [stepR, hg, hon, hcT, Bool.not_true, Bool.false_eq_true, if_false, beq_self_eq_true, if_true, hopen, hq,
          Option.isSome_some, Bool.and_self]
      rw [hsR]
      have hq' : (fun k => O.get? k) ((hGet h0 r).ch, (hGet h0 r).note) = some a := hq
      obtain ⟨hk, hty, hD, i, hfl, hrow⟩ := hsd.c2 _ _ a hq'
      have hi : i < (rowOf (dictSetDefault mp (hGet h0 r).ch []) (hGet h0 r).ch).length := by
        rcases List.getElem?_eq_some_iff.1 hrow with ⟨hh, _⟩; exact hh
      have hgetD : (rowOf (dictSetDefault mp (hGet h0 r).ch []) (hGet h0 r).ch).getD i [] = [a] := by simp [List.getD, hrow]
      have hlnot : h.length ∉ allRefs mp := fun hm => Nat.lt_irrefl _ (href.c5 _ hm).2
      -- the state after closing the open note with the new note-off
      have hR1 : RefInv h0 done (done.zip (partnersGo h0 done []))
          (h ++ [{ ty := .noteOff, ch := chanOfInt (hGet h0 r).ch, time := (hGet h0 r).time, note := (hGet h0 r).note }])
          (closeAt (dictSetDefault mp (hGet h0 r).ch []) (dictSetDefault om (hGet h0 r).ch []) (hGet h0 r).ch (hGet h0 r).note h.length).1 := by
        refine ref_trans href _ _ [] _ _ [h.length] [(a, h.length)] ⟨_, rfl⟩ ?_ (by simp) ?_ (fun _ hh => hh) ?_ ?_ (by simp) (by simp) (by simp) (by simp) ?_
        · have := allRefs_closeAt _ _ _ _ h.length i hfl hi
          rwa [allRefs_setDefault] at this
        · intro e he
          simp only [List.mem_singleton] at he
          subst he
          exact ⟨hlnot, Or.inr hn0, by simp⟩
        · intro ch' a' b' hh
          rw [rowOf_closeAt _ _ _ _ _ i hfl]
          by_cases hcc : (hGet h0 r).ch = ch'
          · subst hcc
            simp only [if_true]
            rw [rowOf_setDefault] at hrow ⊢
            exact mem_set_of_ne _ _ _ _ _ hh hrow (by simp)
          · simp only [hcc, if_false]; rw [rowOf_setDefault]; exact hh
        · intro ch' a' b' hh
          rw [rowOf_closeAt _ _ _ _ _ i hfl] at hh
          by_cases hcc : (hGet h0 r).ch = ch'
          · subst hcc
            simp only [if_true] at hh
            rcases List.mem_or_eq_of_mem_set hh with hh | hh
            · rw [rowOf_setDefault] at hh; exact Or.inl hh
            · rw [hgetD] at hh
              right
              simp only [List.cons_append, List.nil_append, List.cons.injEq, and_true] at hh
              simp [hh.1, hh.2]
          · simp only [hcc, if_false] at hh; rw [rowOf_setDefault] at hh; exact Or.inl hh
        · intro a' b' hab
          simp only [List.mem_singleton, Prod.mk.injEq] at hab
          rw [hab.2]
          intro hm
          have := hdlt _ hm
          omega
      have hrnot1 : r ∉ allRefs (closeAt (dictSetDefault mp (hGet h0 r).ch []) (dictSetDefault om (hGet h0 r).ch [])
          (hGet h0 r).ch (hGet h0 r).note h.length).1 := by
        intro hm
        have := allRefs_closeAt _ _ (hGet h0 r).ch (hGet h0 r).note h.length i hfl hi
        rw [allRefs_setDefault] at this
        rcases List.mem_append.1 (this.mem_iff.1 hm) with hm | hm
        · exact hrnot hm
        · simp only [List.mem_singleton] at hm; omega
      refine ⟨?_, ?_⟩
      · simp only [hfold, hstep]
        rw [hogset]
        have h1 := idx_mono (idx_close hsd _ _ a hq' h.length) hmonoD
        have h2 := idx_open h1 (hGet h0 r).ch (hGet h0 r).note r rfl hon (by simp) (by simp)
        have hfun : (fun k => if k = ((hGet h0 r).ch, (hGet h0 r).note) then some r else
              (if k = ((hGet h0 r).ch, (hGet h0 r).note) then none else O.get? k))
            = (fun k => if k = ((hGet h0 r).ch, (hGet h0 r).note) then some r else O.get? k) := by
          funext k; split <;> simp_all
        rw [hfun] at h2
        exact h2
      · simp only [hzip, hpart]
        refine ref_trans hR1 _ _ [(r, none)] _ _ [r] [] ⟨[], by simp⟩ (allRefs_openNew _ _ _ _ r) (by simp) ?_ hmonoD ?_ ?_ rfl (by simp) ?_ (by simp) (by simp)
        · intro e he
          simp only [List.mem_singleton] at he
          subst he
          exact ⟨hrnot1, Or.inl (by simp), by simp; omega⟩
        · intro ch' a' b' hh
          rw [rowOf_openNew]
          split
          · rename_i hcc; subst hcc; exact List.mem_append_left _ hh
          · exact hh
        · intro ch' a' b' hh
          rw [rowOf_openNew] at hh
          split at hh
          · rename_i hcc; subst hcc
            rcases List.mem_append.1 hh with hh | hh
            · exact Or.inl hh
            · simp at hh
          · exact Or.inl hh
        · intro s hs a' ch' hc'
          simp only [List.mem_singleton, Prod.mk.injEq, and_true] at hs
          subst hs
          rw [rowOf_openNew] at hc'
          split at hc'
          · rename_i hcc; subst hcc
            rcases List.mem_append.1 hc' with hc' | hc'
            · exact hrnot1 (mem_allRefs_of_row _ _ _ s hc' (by simp))
            · simp at hc'
          · exact hrnot1 (mem_allRefs_of_row _ _ _ s hc' (by simp))
  · by_cases hoff : (hGet h0 r).ty = .noteOff
    · have hstep : openStep h0 O r = O.erase (hGet h0 r).nkey := by simp [openStep, hoff]
      have hpart : partnerOf h0 O r = O.get? (hGet h0 r).nkey := by simp [partnerOf, hoff]
      have hcT : T2.contains MType.noteOff = true := rfl
      cases hq : O.get? (hGet h0 r).nkey with
      | none =>
        have hsR : stepR T2 true (h, mp, om) r = (h, dictSetDefault mp (hGet h0 r).ch [], dictSetDefault om (hGet h0 r).ch []) := by
          simp only [stepR, hg, hoff, hcT, Bool.not_true, Bool.false_eq_true, if_false, beq_self_eq_true, if_true, hopen, hq,
            Option.isSome_none, show (MType.noteOff == MType.noteOn) = false from rfl]
        rw [hsR]
        refine ⟨?_, ?_⟩
        · simp only [hfold, hstep, erase_absent _ _ hq]
          exact idx_mono hsd hmonoD
        · simp only [hzip, hpart, hq]
          refine ref_trans href _ _ [(r, none)] h _ [] [] ⟨[], by simp⟩ (by simp [allRefs_setDefault]) List.nodup_nil (by simp) hmonoD
            (fun ch a b hh => by rw [rowOf_setDefault]; exact hh) (fun ch a b hh => by rw [rowOf_setDefault] at hh; exact Or.inl hh)
            rfl (by simp) ?_ (by simp) (by simp)
          intro s hs a ch hc'
          simp only [List.mem_singleton, Prod.mk.injEq, and_true] at hs
          subst hs
          rw [rowOf_setDefault] at hc'
          exact hrnot (mem_allRefs_of_row mp ch _ s hc' (by simp))
      | some a =>
        have hsR : stepR T2 true (h, mp, om) r = (h, closeAt (dictSetDefault mp (hGet h0 r).ch []) (dictSetDefault om (hGet h0 r).ch [])
            (hGet h0 r).ch (hGet h0 r).note r) := by
          simp only [stepR, hg, hoff, hcT, Bool.not_true, Bool.false_eq_true, if_false, beq_self_eq_true, if_true, hopen, hq,
            Option.isSome_some, show (MType.noteOff == MType.noteOn) = false from rfl]
        rw [hsR]
        have hq' : (fun k => O.get? k) ((hGet h0 r).ch, (hGet h0 r).note) = some a := hq
        obtain ⟨hk, hty, hD, i, hfl, hrow⟩ := hsd.c2 _ _ a hq'
        have hi : i < (rowOf (dictSetDefault mp (hGet h0 r).ch []) (hGet h0 r).ch).length := by
          rcases List.getElem?_eq_some_iff.1 hrow with ⟨hh, _⟩; exact hh
        have hgetD : (rowOf (dictSetDefault mp (hGet h0 r).ch []) (hGet h0 r).ch).getD i [] = [a] := by simp [List.getD, hrow]
        refine ⟨?_, ?_⟩
        · simp only [hfold, hstep]
          have hog : (fun k => (O.erase (hGet h0 r).nkey).get? k)
              = (fun k => if k = ((hGet h0 r).ch, (hGet h0 r).note) then none else O.get? k) := by
            funext k
            by_cases hk' : k = ((hGet h0 r).ch, (hGet h0 r).note)
            · subst hk'; simp only [if_true]; exact GluePair.get?_erase_self _ _ hknO
            · simp only [hk', if_false]; exact GluePair.get?_erase_ne _ _ _ (fun e => hk' e.symm)
          rw [hog]
          exact idx_mono (idx_close hsd _ _ a hq' r) hmonoD
        · simp only [hzip, hpart, hq]
          refine ref_trans href _ _ [(r, some a)] h _ [r] [(a, r)] ⟨[], by simp⟩ ?_ (by simp) ?_ hmonoD ?_ ?_ rfl ?_ (by simp) (by simp) ?_
          · have := allRefs_closeAt _ _ _ _ r i hfl hi
            rwa [allRefs_setDefault] at this
          · intro e he
            simp only [List.mem_singleton] at he
            subst he
            exact ⟨hrnot, Or.inl (by simp), by omega⟩
          · intro ch' a' b' hh
            rw [rowOf_closeAt _ _ _ _ _ i hfl]
            by_cases hcc : (hGet h0 r).ch = ch'
            · subst hcc
              simp only [if_true]
              rw [rowOf_setDefault] at hrow ⊢
              exact mem_set_of_ne _ _ _ _ _ hh hrow (by simp)
            · simp only [hcc, if_false]; rw [rowOf_setDefault]; exact hh
          · intro ch' a' b' hh
            rw [rowOf_closeAt _ _ _ _ _ i hfl] at hh
            by_cases hcc : (hGet h0 r).ch = ch'
            · subst hcc
              simp only [if_true] at hh
              rcases List.mem_or_eq_of_mem_set hh with hh | hh
              · rw [rowOf_setDefault] at hh; exact Or.inl hh
              · rw [hgetD] at hh
                right
                simp only [List.cons_append, List.nil_append, List.cons.injEq, and_true] at hh
                simp [hh.1, hh.2]
            · simp only [hcc, if_false] at hh; rw [rowOf_setDefault] at hh; exact Or.inl hh
          · intro s a' hs
            simp only [List.mem_singleton, Prod.mk.injEq, Option.some.injEq] at hs
            obtain ⟨rfl, rfl⟩ := hs
            refine ⟨hmonoD _ hD, (hGet h0 s).ch, ?_⟩
            rw [rowOf_closeAt _ _ _ _ _ i hfl]
            simp only [if_true, hgetD]
            exact List.mem_of_getElem? (List.getElem?_set_self hi)
          · intro a' b' hab
            simp only [List.mem_singleton, Prod.mk.injEq] at hab
            rw [hab.2]; exact hnd
    · -- any other type: skipped
      have hc : T2.contains (hGet h0 r).ty = false := by
        cases hty : (hGet h0 r).ty <;> simp_all [T2]
      have hsR : stepR T2 true (h, mp, om) r = (h, mp, om) := by
        simp only [stepR, hg, hc, Bool.not_false, if_true]
      have hstep : openStep h0 O r = O := by simp [openStep, hon, hoff]
      have hpart : partnerOf h0 O r = none := by simp [partnerOf, hoff]
      rw [hsR]
      refine ⟨?_, ?_⟩
      · simp only [hfold, hstep]
        exact idx_mono hidx hmonoD
      · simp only [hzip, hpart]
        refine ref_trans href _ _ [(r, none)] h mp [] [] ⟨[], by simp⟩ (by simp) List.nodup_nil (by simp) hmonoD
          (fun _ _ _ hh => hh) (fun _ _ _ hh => Or.inl hh) rfl (by simp) ?_ (by simp) (by simp)
        intro s hs a ch hc'
        simp only [List.mem_singleton, Prod.mk.injEq, and_true] at hs
        subst hs
        exact hrnot (mem_allRefs_of_row mp ch _ s hc' (by simp))

/-! ### the second loop of `get_message_pairings`, for `cutoff` -/

/-- shape of a row before the second loop: singletons are open note-ons; all references are older than `B` -/
def RowOk (h : Heap) (B : Nat) (row : List (List Nat)) : Prop :=
  ∀ p ∈ row, ((∃ a, p = [a] ∧ (hGet h a).ty = .noteOn) ∨ (∃ a b, p = [a, b])) ∧ ∀ x ∈ p, x < B

theorem closeRow_fold (std : Int) (B : Nat) : ∀ (row : List (List Nat)) (hp : Heap) (acc : List (List Nat)),
    B ≤ hp.length → RowOk hp B row →
    ∃ y new, row.foldl (closeRowR std true) (hp, acc) = (hp ++ y, acc ++ new) ∧
      (∀ p ∈ new, ∃ a b, p = [a, b]) ∧
      (∀ a b, b < B → ([a, b] ∈ new ↔ [a, b] ∈ row)) ∧
      ∃ F, new.flatten.Perm (row.flatten ++ F) ∧ F.Nodup ∧ ∀ f ∈ F, hp.length ≤ f ∧ f < (hp ++ y).length := by
  intro row
  induction row with
  | nil => intro hp acc _ _; exact ⟨[], [], by simp, by simp, by simp, [], by simp, by simp, by simp⟩
  | cons p rest ih =>
    intro hp acc hB hrow
    have hp0 := hrow p (by simp)
    have hrest : ∀ hp', (∀ x, x < B → hGet hp' x = hGet hp x) → RowOk hp' B rest := by
      intro hp' hst q hq
      obtain ⟨h1, h2⟩ := hrow q (by simp [hq])
      refine ⟨?_, h2⟩
      rcases h1 with ⟨a, rfl, hty⟩ | h1
      · left; exact ⟨a, rfl, by rw [hst a (h2 a (by simp))]; exact hty⟩
      · right; exact h1
    rcases hp0.1 with ⟨a, rfl, hty⟩ | ⟨a, b, rfl⟩
    · -- an open note-on: closed with a new note-off
      have hstep : closeRowR std true (hp, acc) [a] =
          (hp ++ [{ ty := .noteOff, ch := chanOfInt (hGet hp a).ch, time := (hGet hp a).time + std, note := (hGet hp a).note }],
           acc ++ [[a] ++ [hp.length]]) := by
        simp [closeRowR, hty]
      obtain ⟨y, new, he, h1, h2, F, h3, h4, h5⟩ := ih (hp ++ [{ ty := .noteOff, ch := chanOfInt (hGet hp a).ch, time := (hGet hp a).time + std, note := (hGet hp a).note }])
        (acc ++ [[a] ++ [hp.length]]) (by simp; omega) (hrest _ (fun x hx => hGet_append_lt _ _ _ (by omega)))
      refine ⟨({ ty := .noteOff, ch := chanOfInt (hGet hp a).ch, time := (hGet hp a).time + std, note := (hGet hp a).note } : Msg) :: y, [a, hp.length] :: new, ?_, ?_, ?_, hp.length :: F, ?_, ?_, ?_⟩
      · simp only [List.foldl_cons, hstep, he]; simp
      · intro q hq
        rcases List.mem_cons.1 hq with rfl | hq
        · exact ⟨a, hp.length, rfl⟩
        · exact h1 q hq
      · intro a' b' hb'
        simp only [List.mem_cons, List.cons.injEq, and_true]
        rw [h2 a' b' hb']
        constructor
        · rintro (⟨_, e⟩ | h)
          · omega
          · exact Or.inr h
        · rintro (h | h)
          · simp at h
          · exact Or.inr h
      · simp only [List.flatten_cons, List.cons_append, List.nil_append]
        refine List.Perm.cons a ?_
        refine List.Perm.trans (List.Perm.cons _ h3) ?_
        exact (List.perm_middle).symm
      · refine List.nodup_cons.2 ⟨?_, h4⟩
        intro hm
        have := (h5 _ hm).1
        simp only [List.length_append, List.length_cons, List.length_nil] at this
        omega
      · intro f hf
        rcases List.mem_cons.1 hf with rfl | hf
        · simp
        · have := h5 f hf
          simp only [List.length_append, List.length_cons, List.length_nil] at this ⊢
          omega
    · -- a closed pairing: kept
      have hstep : closeRowR std true (hp, acc) [a, b] = (hp, acc ++ [[a, b]]) := by
        simp [closeRowR]
      obtain ⟨y, new, he, h1, h2, F, h3, h4, h5⟩ := ih hp (acc ++ [[a, b]]) hB (hrest _ (fun _ _ => rfl))
      refine ⟨y, [a, b] :: new, ?_, ?_, ?_, F, ?_, h4, h5⟩
      · simp only [List.foldl_cons, hstep, he]; simp
      · intro q hq
        rcases List.mem_cons.1 hq with rfl | hq
        · exact ⟨a, b, rfl⟩
        · exact h1 q hq
      · intro a' b' hb'
        simp only [List.mem_cons]
        rw [h2 a' b' hb']
      · simp only [List.flatten_cons, List.cons_append, List.nil_append]
        exact List.Perm.cons a (List.Perm.cons b h3)

/-- state of the second loop after the channels `proc` -/
structure CloseInv (h1 : Heap) (mp1 : MP) (proc : List Int) (h : Heap) (mp : MP) : Prop where
  ext : ∃ y, h = h1 ++ y
  keys : mp.map (·.1) = mp1.map (·.1)
  nd : (allRefs mp).Nodup
  lt : ∀ x ∈ allRefs mp, x < h.length
  old : ∀ ch a b, b < h1.length → ([a, b] ∈ rowOf mp ch ↔ [a, b] ∈ rowOf mp1 ch)
  pr : ∀ ch ∈ proc, ∀ p ∈ rowOf mp ch, ∃ a b, p = [a, b]
  un : ∀ ch, ch ∉ proc → rowOf mp ch = rowOf mp1 ch

theorem closeChan_inv (std : Int) {h1 : Heap} {mp1 : MP} {proc : List Int} {h : Heap} {mp : MP}
    (hI : CloseInv h1 mp1 proc h mp) (hshape : ∀ ch, RowOk h1 h1.length (rowOf mp1 ch)) (ch : Int)
    (hk : ch ∈ mp1.map (·.1)) (hn : ch ∉ proc) :
    CloseInv h1 mp1 (proc ++ [ch]) (closeChanR std true (h, mp) ch).1 (closeChanR std true (h, mp) ch).2 := by
  obtain ⟨y0, hy0⟩ := hI.ext
  have hB : h1.length ≤ h.length := by rw [hy0, List.length_append]; omega
  have hrow : rowOf mp ch = rowOf mp1 ch := hI.un ch hn
  have hok : RowOk h h1.length (rowOf mp ch) := by
    rw [hrow]
    intro p hp
    obtain ⟨h1', h2'⟩ := hshape ch p hp
    refine ⟨?_, h2'⟩
    rcases h1' with ⟨a, rfl, hty⟩ | h1'
    · left; refine ⟨a, rfl, ?_⟩
      rw [hy0, hGet_append_lt _ _ _ (h2' a (by simp))]; exact hty
    · right; exact h1'
  obtain ⟨y, new, he, g1, g2, F, g3, g4, g5⟩ := closeRow_fold std h1.length (rowOf mp ch) h [] hB hok
  have hres : closeChanR std true (h, mp) ch = (h ++ y, mp.set ch new) := by
    simp only [closeChanR]
    have : ((mp.get? ch).getD []) = rowOf mp ch := rfl
    rw [this, he]; simp
  rw [hres]
  have hperm := allRefs_set_perm mp ch new F g3
  refine ⟨⟨y0 ++ y, by rw [hy0, List.append_assoc]⟩, ?_, ?_, ?_, ?_, ?_, ?_⟩
  · simp only; rw [keys_set_of_key _ _ _ (by rw [hI.keys]; exact hk), hI.keys]
  · simp only
    rw [hperm.nodup_iff, List.nodup_append]
    refine ⟨hI.nd, g4, ?_⟩
    intro a ha b hb e
    subst e
    have := hI.lt a ha
    have := (g5 a hb).1
    omega
  · intro x hx
    simp only at hx ⊢
    rcases List.mem_append.1 (hperm.mem_iff.1 hx) with hx | hx
    · have := hI.lt x hx; rw [List.length_append]; omega
    · exact (g5 x hx).2
  · intro ch' a b hb
    simp only
    rw [rowOf_set]
    split
    · rename_i e; subst e
      rw [g2 a b hb, hrow]
    · exact hI.old ch' a b hb
  · intro ch' hc' p hp
    simp only at hp
    rw [rowOf_set] at hp
    split at hp
    · exact g1 p hp
    · rename_i e
      rcases List.mem_append.1 hc' with hc' | hc'
      · exact hI.pr ch' hc' p hp
      · simp only [List.mem_singleton] at hc'; exact absurd hc'.symm e
  · intro ch' hc'
    simp only
    rw [rowOf_set]
    have : ch ≠ ch' := by
      intro e; apply hc'; simp [e]
    simp only [this, if_false]
    exact hI.un ch' (fun hm => hc' (by simp [hm]))

theorem closeAll_fold (std : Int) {h1 : Heap} {mp1 : MP} (hshape : ∀ ch, RowOk h1 h1.length (rowOf mp1 ch)) :
    ∀ (ks proc : List Int) (s : Heap × MP), CloseInv h1 mp1 proc s.1 s.2 → ks.Nodup → (∀ k ∈ ks, k ∈ mp1.map (·.1) ∧ k ∉ proc) →
      CloseInv h1 mp1 (proc ++ ks) (ks.foldl (closeChanR std true) s).1 (ks.foldl (closeChanR std true) s).2 := by
  intro ks
  induction ks with
  | nil => intro proc s hI _ _; simpa using hI
  | cons k ks ih =>
    intro proc s hI hnd hks
    obtain ⟨h, mp⟩ := s
    have h1' := closeChan_inv std hI hshape k (hks k (by simp)).1 (hks k (by simp)).2
    have := ih (proc ++ [k]) (closeChanR std true (h, mp) k) h1' (List.nodup_cons.1 hnd).2 (by
      intro k' hk'
      refine ⟨(hks k' (by simp [hk'])).1, ?_⟩
      intro hm
      rcases List.mem_append.1 hm with hm | hm
      · exact (hks k' (by simp [hk'])).2 hm
      · simp only [List.mem_singleton] at hm
        subst hm
        exact (List.nodup_cons.1 hnd).1 hk')
    simpa [List.append_assoc] using this

theorem get?_of_mem_kn {κ ν : Type} [DecidableEq κ] (d : Assoc κ ν) (hkn : GluePair.KeysNodup d) (k : κ) (v : ν)
    (hm : (k, v) ∈ d) : d.get? k = some v := by
  induction d with
  | nil => simp at hm
  | cons a rest ih =>
    obtain ⟨k0, w⟩ := a
    have h' := List.pairwise_cons.1 hkn
    rcases List.mem_cons.1 hm with hm | hm
    · obtain ⟨rfl, rfl⟩ := Prod.mk.inj hm; simp [Assoc.get?]
    · have : k0 ≠ k := h'.1 (k, v) hm
      simp only [Assoc.get?, this, if_false]
      exact ih h'.2 hm

theorem mem_row_of_entry (mp : MP) (hkn : GluePair.KeysNodup mp) (c : Int × List (List Nat)) (hc : c ∈ mp) : rowOf mp c.1 = c.2 := by
  simp [rowOf, get?_of_mem_kn mp hkn c.1 c.2 hc]

theorem entry_of_row (mp : MP) (ch : Int) (p : List Nat) (hp : p ∈ rowOf mp ch) : p ∈ mp.flatMap (·.2) := by
  unfold rowOf at hp
  cases hg : mp.get? ch with
  | none => simp [hg] at hp
  | some v =>
    simp only [hg, Option.getD_some] at hp
    exact List.mem_flatMap.2 ⟨(ch, v), GluePair.mem_of_get? _ _ _ hg, hp⟩

/-- what `cutoff` needs to know about the table after the second loop -/
theorem closeAll_facts (std : Int) (h1 : Heap) (mp1 : MP) (hkn : GluePair.KeysNodup mp1)
    (hshape : ∀ ch, RowOk h1 h1.length (rowOf mp1 ch)) (hnd : (allRefs mp1).Nodup) (hlt : ∀ x ∈ allRefs mp1, x < h1.length) :
    (∃ y, (closeAllR std true (h1, mp1)).1 = h1 ++ y) ∧
    (∀ p ∈ (closeAllR std true (h1, mp1)).2.flatMap (·.2), ∃ a b, p = [a, b] ∧ b < (closeAllR std true (h1, mp1)).1.length) ∧
    ((closeAllR std true (h1, mp1)).2.flatMap (·.2)).flatten.Nodup ∧
    (∀ a b, b < h1.length → ([a, b] ∈ (closeAllR std true (h1, mp1)).2.flatMap (·.2) ↔ ∃ ch, [a, b] ∈ rowOf mp1 ch)) := by
  have h0 : CloseInv h1 mp1 [] h1 mp1 :=
    ⟨⟨[], by simp⟩, rfl, hnd, hlt, fun _ _ _ _ => Iff.rfl, fun _ h => by simp at h, fun _ _ => rfl⟩
  have hI := closeAll_fold std hshape (mp1.map (·.1)) [] (h1, mp1) h0 ((keysNodup_iff mp1).1 hkn) (by
    intro k hk; exact ⟨hk, by simp⟩)
  simp only [List.nil_append] at hI
  rw [← closeAllR] at hI
  generalize closeAllR std true (h1, mp1) = s2 at hI
  obtain ⟨h2, mp2⟩ := s2
  simp only at hI ⊢
  have hkn2 : GluePair.KeysNodup mp2 := by rw [keysNodup_iff, hI.keys, ← keysNodup_iff]; exact hkn
  refine ⟨hI.ext, ?_, hI.nd, ?_⟩
  · intro p hp
    obtain ⟨c, hc, hpc⟩ := List.mem_flatMap.1 hp
    have hrow := mem_row_of_entry mp2 hkn2 c hc
    have hck : c.1 ∈ mp1.map (·.1) := by rw [← hI.keys]; exact List.mem_map.2 ⟨c, hc, rfl⟩
    obtain ⟨a, b, rfl⟩ := hI.pr c.1 hck p (by rw [hrow]; exact hpc)
    refine ⟨a, b, rfl, ?_⟩
    apply hI.lt
    exact List.mem_flatten.2 ⟨[a, b], hp, by simp⟩
  · intro a b hb
    constructor
    · intro hp
      obtain ⟨c, hc, hpc⟩ := List.mem_flatMap.1 hp
      have hrow := mem_row_of_entry mp2 hkn2 c hc
      exact ⟨c.1, (hI.old c.1 a b hb).1 (by rw [hrow]; exact hpc)⟩
    · rintro ⟨ch, hch⟩
      exact entry_of_row mp2 ch _ ((hI.old ch a b hb).2 hch)

/-! ### putting it together -/

theorem cinv_fold (h0 : Heap) : ∀ (todo done : List Nat) (s : Heap × MP × OM), CInv h0 done s → (done ++ todo).Nodup →
    (∀ x ∈ done ++ todo, x < h0.length) → CInv h0 (done ++ todo) (todo.foldl (stepR T2 true) s) := by
  intro todo
  induction todo with
  | nil => intro done s hI _ _; simpa using hI
  | cons r rs ih =>
    intro done s hI hnd hlt
    have hr : r ∉ done := by
      intro hm
      rw [List.nodup_append] at hnd
      exact hnd.2.2 r hm r (by simp) rfl
    have h1 := cinv_step h0 done s r hI (hlt r (by simp)) hr (fun x hx => hlt x (by simp [hx]))
    have := ih (done ++ [r]) (stepR T2 true s r) h1 (by simpa using hnd) (by simpa using hlt)
    simpa using this

theorem knmp_setDefault {κ ν : Type} [DecidableEq κ] (d : Assoc κ ν) (k : κ) (v : ν) (h : GluePair.KeysNodup d) :
    GluePair.KeysNodup (dictSetDefault d k v) := by
  unfold dictSetDefault; split
  · exact h
  · exact h.set _ _

theorem knmp_stepR (types : List MType) (impute : Bool) (s : Heap × MP × OM) (r : Nat) (h : GluePair.KeysNodup s.2.1) :
    GluePair.KeysNodup (stepR types impute s r).2.1 := by
  have hsd := knmp_setDefault s.2.1 (hGet s.1 r).ch [] h
  unfold stepR
  split
  · exact h
  · split
    · split
      · simp only [openNew, closeAt]; exact (hsd.set _ _).set _ _
      · simp only [openNew]; exact hsd.set _ _
    · split
      · split
        · simp only [closeAt]; exact hsd.set _ _
        · exact hsd
      · exact hsd.set _ _

theorem knmp_fold (types : List MType) (impute : Bool) : ∀ (l : List Nat) (s : Heap × MP × OM), GluePair.KeysNodup s.2.1 →
    GluePair.KeysNodup (l.foldl (stepR types impute) s).2.1 := by
  intro l
  induction l with
  | nil => intro s h; exact h
  | cons r rs ih => intro s h; exact ih _ (knmp_stepR types impute s r h)

theorem foldl_flatMap_rows {α β : Type} (f : α → β → α) (rows : List (List β)) (a : α) :
    rows.foldl (fun acc row => row.foldl f acc) a = rows.flatten.foldl f a := by
  induction rows generalizing a with
  | nil => rfl
  | cons x xs ih => simp [ih]

theorem map_eq_zip_map {α β γ : Type} (f : α → γ) (g : α × β → γ) (l : List α) (m : List β) (hlen : l.length = m.length)
    (h : ∀ p ∈ l.zip m, f p.1 = g p) : l.map f = (l.zip m).map g := by
  induction l generalizing m with
  | nil => simp
  | cons x xs ih =>
    cases m with
    | nil => simp at hlen
    | cons y ys =>
      simp only [List.zip_cons_cons, List.map_cons, List.cons.injEq]
      refine ⟨h (x, y) (by simp), ih ys (by simpa using hlen) (fun p hp => h p (by simp [hp]))⟩

/-- the pure content of `cutoff`: after the pairing (`gmpR`) and the row-wise stores through the pairings, the sequence reads as
    the model's sequential `cutoffGo` -/
theorem cutoff_pure (h0 : Heap) (refs : List Nat) (std mx rd : Int) (hrefs : ∀ r ∈ refs, r < h0.length) (hnd : refs.Nodup) :
    (∀ p ∈ (gmpR h0 refs T2 std true).2.flatMap (·.2), ∃ a b, p = [a, b] ∧ b < (gmpR h0 refs T2 std true).1.length) ∧
    deref (((gmpR h0 refs T2 std true).2.flatMap (·.2)).foldl (storeP mx rd) (gmpR h0 refs T2 std true).1) (sortRefs h0 refs)
      = cutoffGo mx rd (deref h0 (sortRefs h0 refs)) [] := by
  have hSnd : (sortRefs h0 refs).Nodup := ((isort_perm _ refs).nodup_iff).2 hnd
  have hSlt : ∀ x ∈ sortRefs h0 refs, x < h0.length := fun x hx => hrefs x ((mem_isort _ _ _).1 hx)
  generalize hS : sortRefs h0 refs = S at hSnd hSlt
  have hC := cinv_fold h0 S [] (h0, [], []) (cinv_nil h0) (by simpa using hSnd) (by simpa using hSlt)
  have hK := knmp_fold T2 true S (h0, [], []) List.Pairwise.nil
  simp only [List.nil_append] at hC
  unfold gmpR
  rw [hS]
  generalize S.foldl (stepR T2 true) (h0, [], []) = s1 at hC hK
  obtain ⟨h1, mp1, om1⟩ := s1
  obtain ⟨hidx, href⟩ := hC
  simp only at hidx href hK ⊢
  obtain ⟨x1, hx1⟩ := href.ext
  have hn1 : h0.length ≤ h1.length := by rw [hx1, List.length_append]; omega
  have hshape : ∀ ch, RowOk h1 h1.length (rowOf mp1 ch) := by
    intro ch p hp
    obtain ⟨i, hi⟩ := List.getElem?_of_mem hp
    refine ⟨?_, fun x hx => (href.c5 x (mem_allRefs_of_row mp1 ch p x hp hx)).2⟩
    rcases hidx.c3 ch i p hi with ⟨a, rfl, _, hog, _⟩ | h
    · left
      obtain ⟨_, hty, hda, _⟩ := hidx.c2 _ _ a (by simpa [Msg.nkey] using hog)
      refine ⟨a, rfl, ?_⟩
      rw [hx1, hGet_append_lt _ _ _ (hSlt a hda)]; exact hty
    · right; exact h
  obtain ⟨⟨y2, hy2⟩, hF2, hF3, hF4⟩ := closeAll_facts std h1 mp1 hK hshape href.c4 (fun x hx => (href.c5 x hx).2)
  generalize closeAllR std true (h1, mp1) = s2 at hy2 hF2 hF3 hF4
  obtain ⟨h2, mp2⟩ := s2
  simp only at hy2 hF2 hF3 hF4 ⊢
  refine ⟨hF2, ?_⟩
  have hg2 : ∀ x, x < h0.length → hGet h2 x = hGet h0 x := by
    intro x hx
    rw [hy2, hx1, List.append_assoc]; exact hGet_append_lt _ _ _ hx
  have hF2' : ∀ p ∈ mp2.flatMap (·.2), ∃ a b, p = [a, b] ∧ b < h2.length := hF2
  rw [cutoffGo_partners mx rd h0 S [] [] List.Pairwise.nil List.Pairwise.nil (fun _ => rfl)]
  unfold deref
  apply map_eq_zip_map _ _ _ _ (partnersGo_length h0 S []).symm
  rintro ⟨s, o⟩ hz
  have hs : s ∈ S := href.zd s o hz
  have hslt := hSlt s hs
  simp only [cutVal]
  cases o with
  | none =>
    simp only
    rw [hGet_storeAll_other mx rd _ _ s, hg2 s hslt]
    intro p hp
    obtain ⟨a, b, rfl, hb⟩ := hF2' p hp
    refine ⟨a, b, rfl, hb, ?_⟩
    intro e
    subst e
    obtain ⟨ch, hch⟩ := (hF4 a b (by omega)).1 hp
    exact href.c6b b hz a ch hch
  | some a =>
    simp only
    obtain ⟨hda, ch, hch⟩ := href.c6a s a hz
    have hin : [a, s] ∈ mp2.flatMap (·.2) := (hF4 a s (by omega)).2 ⟨ch, hch⟩
    rw [hGet_storeAll_pair mx rd _ _ a s (fun p hp => by obtain ⟨a', b', e, hb⟩ := hF2' p hp; exact ⟨a', b', e, hb⟩) hF3 hin,
      hg2 s hslt, hg2 a (hSlt a hda)]

/-- the generated `cutoff`: pairing, then the stores through the pairings (`storeP`), then the linked sort -/
theorem cutoff_spec (h0 : Heap) (refs : List Nat) (mx rd : Int) (hrefs : ∀ r ∈ refs, r < h0.length) (hok : ∀ m ∈ h0, m.ch ≠ pyNone)
    (hnd : refs.Nodup) :
    ∃ h', Gen.Abs2.cutoff h0 refs mx rd = .ok (h', sortRefs h' (sortRefs h0 refs)) ∧
      deref h' (sortRefs h0 refs) = cutoffGo mx rd (deref h0 (sortRefs h0 refs)) [] := by
  obtain ⟨hg, mp, hgmp, _, _, hR, _⟩ := gmp_spec h0 refs T2 Gen.ppqn true hrefs hok
  obtain ⟨hshape, hpure⟩ := cutoff_pure h0 refs Gen.ppqn mx rd hrefs hnd
  rw [← hR] at hshape hpure
  simp only at hshape hpure
  unfold Gen.Abs2.cutoff
  simp only []
  rw [gmp_none, hgmp]
  simp only [ViewTieL.ok_bind]
  apply forIn_rel_bind
    (R := fun (b : Heap × List Nat) (c : Heap) => b = (c, sortRefs h0 refs))
    (P := fun row => ∀ p ∈ row, ∃ a b, p = [a, b])
    (g := fun c row => row.foldl (storeP mx rd) c)
    (Q := fun x => ∃ h', x = .ok (h', sortRefs h' (sortRefs h0 refs)) ∧
      deref h' (sortRefs h0 refs) = cutoffGo mx rd (deref h0 (sortRefs h0 refs)) [])
    (c := hg)
  · intro row b c hP hR'
    subst hR'
    simp only
    apply forIn_rel_bind
      (R := fun (b : Heap × List Nat) (c' : Heap) => b = (c', sortRefs h0 refs))
      (P := fun p => ∃ a b, p = [a, b])
      (g := fun c' p => storeP mx rd c' p)
      (Q := fun (x : Except PyErr (ForInStep (Heap × List Nat))) => ∃ b' : Heap × List Nat, x = .ok (ForInStep.yield b') ∧
        b' = (row.foldl (storeP mx rd) c, sortRefs h0 refs))
      (c := c)
    · intro p b c' hPp hRp
      subst hRp
      obtain ⟨a, b, rfl⟩ := hPp
      have hl : ((([a, b] : List Nat).length : Int) == 1) = false := rfl
      have hg1 : pyGet [a, b] 1 = .ok b := rfl
      have hg0 : pyGet [a, b] 0 = .ok a := rfl
      simp only [hl, Bool.false_eq_true, if_false, hg1, hg0, ViewTieL.ok_bind, storeP]
      by_cases hc : (hGet c' b).time - (hGet c' a).time > mx
      · simp only [hc, decide_true, if_true]
        exact ⟨_, rfl, rfl⟩
      · simp only [hc, decide_false, Bool.false_eq_true, if_false]
        exact ⟨_, rfl, rfl⟩
    · exact hP
    · rfl
    · intro b' hb'
      subst hb'
      exact ⟨_, rfl, rfl⟩
  · intro row hrow
    obtain ⟨c, hc, rfl⟩ := List.mem_map.1 hrow
    intro p hp
    obtain ⟨a, b, e, _⟩ := hshape p (List.mem_flatMap.2 ⟨c, hc, hp⟩)
    exact ⟨a, b, e⟩
  · rfl
  · intro b' hb'
    subst hb'
    simp only [normaliseAbsolute_eq, ViewTieL.ok_bind]
    refine ⟨_, rfl, ?_⟩
    rw [foldl_flatMap_rows, ← hpure]
    simp [List.flatMap]

end SCoda.AbsTie2L
