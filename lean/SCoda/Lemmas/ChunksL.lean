/-
  Helper definitions and lemmas for Props/C03c (audit item A1).
  * whole-bar chunks as an *input-level* notion: bars with their signatures and bar-relative events (`BarEv`,
    `BarOk`, `BarsOk`), laid end to end at cumulative bar lengths (`layBars`, `joinChunks`), the D19 class `Stalls`,
    the closed form `gridLog` of a piece (notes at bar start + tick, bar ends at cumulative bar lengths);
    none of these definitions mentions `tokeniseCore`, `specLog` or a state they return;
  * the specification clock: `advance` is additive (`adv_add`); where it stands, and what the log is, after one bar
    (`bar_fold`), after a sequence of bars (`bars_fold`), after a call (`chunk_specLog`, `call_end`);
  * token level: a call resumed where the previous one stopped emits the same tokens as a second call from the
    returned state (`applyRest_resume`, `resume`, `core_append`), hence `run_single`: the threaded calls on whole-bar
    chunks and the single call on the joined events return the same tokens and state.
-/
import SCoda.Props.C01
import SCoda.Props.C01b
import SCoda.Props.C03b
namespace SCoda.ChunksL
open SCoda SCoda.C01

/-! ## whole-bar chunks -/

/-- a bar as the caller hands it over: its time signature and its events (pairings headed by the
    message whose `time` is the onset) at *bar-relative* ticks -/
structure BarEv where
  num : Int
  den : Int
  evs : List (Int × Pairing)
  deriving DecidableEq, Repr

/-- length of a bar in ticks: the capacity of its signature -/
def barLen (c : Cfg) (b : BarEv) : Int := c.capacity b.num b.den

/-- total length of a sequence of bars: the sum of the bar capacities -/
def chunkLen (c : Cfg) : List BarEv → Int
  | [] => 0
  | b :: bs => barLen c b + chunkLen c bs

/-- the events of a sequence of bars laid end to end: bar `i` is shifted by the summed lengths of the bars before it -/
def layBars (c : Cfg) : List BarEv → List (Int × Pairing)
  | [] => []
  | b :: bs => b.evs ++ shiftEvs (barLen c b) (layBars c bs)

/-- the chunks of a piece laid end to end: chunk `i` is shifted by the summed lengths of the chunks before it -/
def joinChunks (c : Cfg) : List (List BarEv) → List (Int × Pairing)
  | [] => []
  | ch :: rest => layBars c ch ++ shiftEvs (chunkLen c ch) (joinChunks c rest)

/-- the bar length in force after the bars (`C` before them) -/
def lastCap (c : Cfg) (C : Int) : List BarEv → Int
  | [] => C
  | b :: bs => lastCap c (barLen c b) bs

/-- a bar is well formed after a bar of length `prevCap`: positive signature and length, non-empty pairings on
    existing tracks with onsets inside the bar (its end included: the cap message of a trailing rest) in time
    order, time signatures only on the bar line and equal to the bar's own, notes starting before the bar's end,
    and the bar announces its signature unless its length is the running one -/
structure BarOk (c : Cfg) (prevCap : Int) (b : BarEv) : Prop where
  numPos : 0 < b.num
  denPos : 0 < b.den
  lenPos : 0 < barLen c b
  nonempty : ∀ ev ∈ b.evs, ev.2 ≠ []
  chans : ∀ ev ∈ b.evs, ∀ m ∈ ev.2.head?, 0 ≤ m.ch ∧ m.ch < (c.numTracks : Int)
  range : ∀ ev ∈ b.evs, ∀ m ∈ ev.2.head?, 0 ≤ m.time ∧ m.time ≤ barLen c b
  ordered : List.Pairwise (fun a b => ∀ x ∈ a.2.head?, ∀ y ∈ b.2.head?, x.time ≤ y.time) b.evs
  sigs : ∀ ev ∈ b.evs, ∀ m ∈ ev.2.head?, m.ty = .timeSignature → m.time = 0 ∧ m.num = b.num ∧ m.den = b.den
  notesInside : ∀ ev ∈ b.evs, ∀ m ∈ ev.2.head?, m.ty = .noteOn → m.time < barLen c b
  announced : barLen c b = prevCap ∨ ∃ ev ∈ b.evs, ∃ m ∈ ev.2.head?, m.ty = .timeSignature

instance (c : Cfg) (prevCap : Int) (b : BarEv) : Decidable (BarOk c prevCap b) :=
  decidable_of_iff
    (0 < b.num ∧ 0 < b.den ∧ 0 < barLen c b ∧ (∀ ev ∈ b.evs, ev.2 ≠ [])
      ∧ (∀ ev ∈ b.evs, ∀ m ∈ ev.2.head?, 0 ≤ m.ch ∧ m.ch < (c.numTracks : Int))
      ∧ (∀ ev ∈ b.evs, ∀ m ∈ ev.2.head?, 0 ≤ m.time ∧ m.time ≤ barLen c b)
      ∧ List.Pairwise (fun a b => ∀ x ∈ a.2.head?, ∀ y ∈ b.2.head?, x.time ≤ y.time) b.evs
      ∧ (∀ ev ∈ b.evs, ∀ m ∈ ev.2.head?, m.ty = .timeSignature → m.time = 0 ∧ m.num = b.num ∧ m.den = b.den)
      ∧ (∀ ev ∈ b.evs, ∀ m ∈ ev.2.head?, m.ty = .noteOn → m.time < barLen c b)
      ∧ (barLen c b = prevCap ∨ ∃ ev ∈ b.evs, ∃ m ∈ ev.2.head?, m.ty = .timeSignature))
    ⟨fun ⟨a, b, c, d, e, f, g, h, i, j⟩ => ⟨a, b, c, d, e, f, g, h, i, j⟩,
     fun h => ⟨h.numPos, h.denPos, h.lenPos, h.nonempty, h.chans, h.range, h.ordered, h.sigs, h.notesInside, h.announced⟩⟩

/-- a sequence of whole bars, well formed after a bar of length `prevCap` -/
def BarsOk (c : Cfg) : Int → List BarEv → Prop
  | _, [] => True
  | C, b :: bs => BarOk c C b ∧ BarsOk c (barLen c b) bs

instance (c : Cfg) : ∀ (C : Int) (bs : List BarEv), Decidable (BarsOk c C bs)
  | _, [] => isTrue trivial
  | C, b :: bs =>
    have := instDecidableBarsOk c (barLen c b) bs
    inferInstanceAs (Decidable (BarOk c C b ∧ BarsOk c (barLen c b) bs))

/-- onset of an event (0 for the impossible empty pairing) -/
def onsetOf (ev : Int × Pairing) : Int :=
  match ev.2 with
  | m :: _ => m.time
  | [] => 0

/-- onset of the last event of a list (0 if there is none) -/
def lastOnset (evs : List (Int × Pairing)) : Int :=
  match evs.getLast? with
  | some ev => onsetOf ev
  | none => 0

/-- **the D19 class**, on the input: the chunk has a last bar, and nothing in the chunk moves the clock past
    the bar line on which that last bar starts — no onset strictly inside the last bar and no message (cap of
    a trailing rest) at its end -/
def Stalls (c : Cfg) (bars : List BarEv) : Prop :=
  bars ≠ [] ∧ lastOnset (layBars c bars) ≤ chunkLen c bars.dropLast

instance (c : Cfg) (bars : List BarEv) : Decidable (Stalls c bars) := by
  unfold Stalls; infer_instance

/-! ## `advance`: normal form, additivity, the bar-fill invariant -/

/-- `advance` with the fuel the specification gives it -/
def adv (r : Int) (k : Clock) : Clock × List Int := advance (r.toNat + 1) r k

/-- the clock on the bar line `a` of a grid of bars of length `C` -/
def lineClock (a C : Int) : Clock := { cur := a, bar := 0, capTotal := C, capRem := C }

theorem adv_zero (k : Clock) : adv 0 k = (k, []) := adv_nonpos _ _ _ (Int.le_refl 0)

/-- advancing by `r1 + r2` is advancing by `r1` and then by `r2` -/
theorem adv_add (n : Nat) (r1 r2 : Int) (k : Clock) (hs : Sane k) (h1 : 0 ≤ r1) (h2 : 0 ≤ r2) (hn : r1.toNat ≤ n) :
    adv (r1 + r2) k = ((adv r2 (adv r1 k).1).1, (adv r1 k).2 ++ (adv r2 (adv r1 k).1).2) := by
  induction n generalizing r1 k with
  | zero =>
    have : r1 = 0 := by omega
    subst this
    rw [adv_zero, Int.zero_add]; rfl
  | succ n ih =>
    by_cases h0 : r1 = 0
    · subst h0
      rw [adv_zero, Int.zero_add]; rfl
    · obtain ⟨s1, s2, s3⟩ := hs
      by_cases hlt : r1 < k.capRem
      · have e1 : adv r1 k = ({ k with cur := k.cur + r1, bar := k.bar + r1, capRem := k.capRem - r1 }, []) := by
          unfold adv
          simp only [advance]
          rw [if_neg (by omega), if_pos hlt]
        have e2 := adv_split_in (r1 + r2) k r1 (by omega) (by omega) hlt (fun _ => s3)
        have e3 : r1 + r2 - r1 = r2 := by omega
        rw [e3] at e2
        unfold adv at e1 ⊢
        rw [e2, e1]
        rfl
      · have e1 := adv_split_close r1 k k.capRem s1 (by omega) rfl (fun _ => s3)
        have e2 := adv_split_close (r1 + r2) k k.capRem s1 (by omega) rfl (fun _ => s3)
        have e3 : r1 + r2 - k.capRem = (r1 - k.capRem) + r2 := by omega
        rw [e3] at e2
        have hi := ih (r1 - k.capRem) { k with cur := k.cur + k.capRem, bar := 0, capRem := k.capTotal }
          ⟨s3, Int.le_refl 0, s3⟩ (by omega) (by omega)
        unfold adv at hi e1 ⊢
        rw [e2, e1, hi]
        simp

/-- a sane clock whose bar position and remaining capacity add up to the bar length -/
def Good (k : Clock) : Prop := Sane k ∧ k.bar + k.capRem = k.capTotal

theorem advance_full (f : Nat) (rest : Int) (k : Clock) (hf : k.bar + k.capRem = k.capTotal) :
    (advance f rest k).1.bar + (advance f rest k).1.capRem = (advance f rest k).1.capTotal := by
  induction f generalizing rest k with
  | zero => exact hf
  | succ f ih =>
    simp only [advance]
    split
    · exact hf
    · split
      · simp only; omega
      · exact ih _ _ (by simp)

theorem adv_good (r : Int) (k : Clock) (hg : Good k) (hr : 0 ≤ r) :
    Good (adv r k).1 ∧ (adv r k).1.capTotal = k.capTotal ∧ (adv r k).1.cur = k.cur + r := by
  obtain ⟨a1, a2, a3, _, _⟩ := adv_inv (r.toNat + 1) r k hg.1 (by omega)
  exact ⟨⟨a1, advance_full _ _ _ hg.2⟩, a2, by unfold adv; omega⟩

theorem lineClock_good (a C : Int) (hC : 0 < C) : Good (lineClock a C) :=
  ⟨⟨hC, Int.le_refl 0, hC⟩, by simp [lineClock]⟩

/-- one whole bar from a bar line -/
theorem adv_line (a C : Int) (hC : 0 < C) : (adv C (lineClock a C)).1 = lineClock (a + C) C := by
  unfold adv lineClock
  simp only [advance]
  rw [if_neg (by omega), if_neg (by omega), adv_nonpos _ _ _ (by omega)]

/-- a clock that reaches a bar line after at most one bar length stood exactly that far from the line -/
theorem adv_line_inv (r : Int) (k : Clock) (hg : Good k) (h0 : 0 < r) (hr : r ≤ k.capTotal)
    (hb : (adv r k).1.bar = 0) : k.capRem = r := by
  obtain ⟨⟨s1, s2, s3⟩, hf⟩ := hg
  by_cases hlt : r < k.capRem
  · exfalso
    unfold adv at hb
    simp only [advance] at hb
    rw [if_neg (by omega), if_pos hlt] at hb
    simp only at hb
    omega
  · have e1 := adv_split_close r k k.capRem s1 (by omega) rfl (fun _ => s3)
    by_cases hz : r - k.capRem = 0
    · omega
    · exfalso
      unfold adv at hb
      rw [e1] at hb
      simp only [advance] at hb
      rw [if_neg (by omega), if_pos (by show r - k.capRem < k.capTotal; omega)] at hb
      simp only at hb
      omega

/-! ## the clock part of `specTail` -/

theorem specTail_clock (c : Cfg) (m : Msg) (restP : List Msg) (k : Clock) :
    (specTail c m restP k).1 =
      if m.ty = .timeSignature ∧ ¬ k.bar > 0 then { k with capTotal := c.capacity m.num m.den, capRem := c.capacity m.num m.den }
      else k := by
  unfold specTail
  split
  · rename_i h
    rw [if_neg (by simp [h])]
    split <;> rfl
  · rename_i h
    split
    · rename_i hb
      rw [if_neg (by simp [hb])]
    · rename_i hb
      rw [if_pos ⟨h, hb⟩]
  · rename_i h1 h2
    rw [if_neg (fun h => h2 h.1)]


theorem specTail_step (c : Cfg) (m : Msg) (restP : List Msg) (k : Clock) (ℓ : Int) (hg : Good k)
    (hsig : m.ty = .timeSignature → c.capacity m.num m.den = ℓ) :
    ((specTail c m restP k).1 = k ∧ (m.ty = .timeSignature → 0 < k.bar))
      ∨ (m.ty = .timeSignature ∧ k.bar = 0 ∧ (specTail c m restP k).1 = lineClock k.cur ℓ) := by
  rw [specTail_clock]
  by_cases h : m.ty = .timeSignature ∧ ¬ k.bar > 0
  · rw [if_pos h]
    right
    have hb : k.bar = 0 := by have := hg.1.2.1; omega
    refine ⟨h.1, hb, ?_⟩
    rw [hsig h.1]
    unfold lineClock
    rw [← hb]
  · rw [if_neg h]
    left
    refine ⟨rfl, fun hty => ?_⟩
    refine Decidable.byContradiction fun hn => h ⟨hty, by omega⟩

/-! ## the specification clock and log over one bar -/

/-- ends of the single bar a clock passes when it reaches a bar line within one bar length -/
theorem adv_line_ends (r : Int) (k : Clock) (hg : Good k) (h0 : 0 < r) (hr : r ≤ k.capTotal)
    (hb : (adv r k).1.bar = 0) : (adv r k).2 = [k.cur + r] := by
  have hrem := adv_line_inv r k hg h0 hr hb
  obtain ⟨⟨s1, s2, s3⟩, hf⟩ := hg
  have e1 := adv_split_close r k k.capRem s1 (by omega) rfl (fun _ => s3)
  unfold adv
  rw [e1, hrem]
  simp only [Int.sub_self]
  rw [adv_nonpos _ _ _ (Int.le_refl 0)]

theorem adv_line2 (a C : Int) (hC : 0 < C) : (adv C (lineClock a C)).2 = [a + C] := by
  unfold adv lineClock
  simp only [advance]
  rw [if_neg (by omega), if_neg (by omega), adv_nonpos _ _ _ (by omega)]

/-- what a note event emits when the tick 0 of its times is the absolute tick `A`: the note on its track with its binned
    velocity, from its onset to its end -/
def noteEmit (c : Cfg) (A : Int) (ev : Int × Pairing) : List Emit :=
  match ev.2 with
  | m :: off :: _ =>
    if m.ty = .noteOn then
      [Emit.note m.ch m.note ((c.bins[binIndex c.bins m.vel]?).getD 0) (A + m.time) (A + m.time + (off.time - m.time))]
    else []
  | _ => []

theorem specTail_log (c : Cfg) (a e1 : Int) (m : Msg) (restP : List Msg) (k : Clock) (hk : k.cur = a + m.time) :
    (specTail c m restP k).2 = noteEmit c a (e1, m :: restP) := by
  unfold specTail noteEmit
  split
  · rename_i hty
    cases restP with
    | nil => rfl
    | cons off r => simp only [hty, if_true, hk]
  · rename_i hty
    have hne : ¬ m.ty = .noteOn := by rw [hty]; decide
    cases restP with
    | nil => split <;> rfl
    | cons off r => simp only [hne, if_false]; split <;> rfl
  · rename_i h1 h2
    cases restP with
    | nil => rfl
    | cons off r => simp only; rw [if_neg (fun h => h1 h)]

theorem noteEmit_other (c : Cfg) (A : Int) (ev : Int × Pairing) (h : ∀ m ∈ ev.2.head?, m.ty ≠ .noteOn) :
    noteEmit c A ev = [] := by
  unfold noteEmit
  split
  · rename_i m off r hev
    rw [if_neg (h m (by simp [hev]))]
  · rfl

/-- **one bar.**  The clock `k` either lags behind the bar line `a` on which the bar starts (it would reach
    it as the line clock of the previous bar length, and the bar still has its signature to announce) or it
    is already on the way to the bar's end.  After the events of the bar it is on the way to the bar's end:
    advancing it to `a + ℓ` gives the line clock of the bar's own length.  The log, completed by the bar ends still
    to be passed on that way, grows by the bar's notes and the bar's end. -/
theorem bar_fold (c : Cfg) (a ℓ Cprev : Int) (hℓ : 0 < ℓ) (evs : List (Int × Pairing))
    (hrange : ∀ ev ∈ evs, ∀ m ∈ ev.2.head?, 0 ≤ m.time ∧ m.time ≤ ℓ)
    (hord : List.Pairwise (fun a b => ∀ x ∈ a.2.head?, ∀ y ∈ b.2.head?, x.time ≤ y.time) evs)
    (hsig : ∀ ev ∈ evs, ∀ m ∈ ev.2.head?, m.ty = .timeSignature → m.time = 0 ∧ c.capacity m.num m.den = ℓ)
    (hnote : ∀ ev ∈ evs, ∀ m ∈ ev.2.head?, m.ty = .noteOn → m.time < ℓ)
    (k : Clock) (Lg G : List Emit) (hg : Good k)
    (htime : ∀ ev ∈ evs, ∀ m ∈ ev.2.head?, k.cur ≤ m.time + a)
    (hle : k.cur ≤ a + ℓ)
    (hW : ((adv (a + ℓ - k.cur) k).1 = lineClock (a + ℓ) ℓ
            ∧ Lg ++ (adv (a + ℓ - k.cur) k).2.map Emit.barEnd = G ++ [Emit.barEnd (a + ℓ)])
        ∨ (k.cur ≤ a ∧ (adv (a - k.cur) k).1 = lineClock a Cprev
            ∧ Lg ++ (adv (a - k.cur) k).2.map Emit.barEnd = G
            ∧ ∃ ev ∈ evs, ∃ m ∈ ev.2.head?, m.ty = .timeSignature)) :
    Good (evs.foldl (specEvent c a) (k, Lg)).1 ∧ (evs.foldl (specEvent c a) (k, Lg)).1.cur ≤ a + ℓ
      ∧ (adv (a + ℓ - (evs.foldl (specEvent c a) (k, Lg)).1.cur) (evs.foldl (specEvent c a) (k, Lg)).1).1
          = lineClock (a + ℓ) ℓ
      ∧ (evs.foldl (specEvent c a) (k, Lg)).2
          ++ (adv (a + ℓ - (evs.foldl (specEvent c a) (k, Lg)).1.cur) (evs.foldl (specEvent c a) (k, Lg)).1).2.map Emit.barEnd
          = G ++ evs.flatMap (noteEmit c a) ++ [Emit.barEnd (a + ℓ)] := by
  induction evs generalizing k Lg G with
  | nil =>
    rcases hW with h | ⟨_, _, _, ev, hev, _⟩
    · exact ⟨hg, hle, h.1, by simpa using h.2⟩
    · simp at hev
  | cons ev evs ih =>
    rw [List.pairwise_cons] at hord
    obtain ⟨e1, e2⟩ := ev
    cases e2 with
    | nil =>
      have hid : specEvent c a (k, Lg) (e1, []) = (k, Lg) := by simp [specEvent]
      have hne : noteEmit c a (e1, []) = [] := rfl
      rw [List.foldl_cons, hid, List.flatMap_cons, hne, List.nil_append]
      refine ih (fun e he => hrange e (List.mem_cons_of_mem _ he)) hord.2
        (fun e he => hsig e (List.mem_cons_of_mem _ he)) (fun e he => hnote e (List.mem_cons_of_mem _ he)) k Lg G hg
        (fun e he => htime e (List.mem_cons_of_mem _ he)) hle ?_
      rcases hW with h | ⟨h1, h2, h3, ev, hev, m, hm, hty⟩
      · exact Or.inl h
      · refine Or.inr ⟨h1, h2, h3, ev, ?_, m, hm, hty⟩
        rcases List.mem_cons.1 hev with rfl | h
        · simp at hm
        · exact h
    | cons m restP =>
      have ht := hrange (e1, m :: restP) (by simp) m (by simp)
      have hk := htime (e1, m :: restP) (by simp) m (by simp)
      have hs := hsig (e1, m :: restP) (by simp) m (by simp)
      have hn := hnote (e1, m :: restP) (by simp) m (by simp)
      obtain ⟨g1, g2, g3⟩ := adv_good (m.time + a - k.cur) k hg (by omega)
      rw [List.foldl_cons, specEvent_cons, List.flatMap_cons]
      have hadv : advance ((m.time + a - k.cur).toNat + 1) (m.time + a - k.cur) k = adv (m.time + a - k.cur) k := rfl
      simp only [hadv]
      generalize hr1 : adv (m.time + a - k.cur) k = r1 at g1 g2 g3
      have hcur1 : r1.1.cur = a + m.time := by omega
      have htl := specTail_log c a e1 m restP r1.1 hcur1
      rw [htl]
      -- the state of the hypothesis `hW` carried to `r1.1`
      have hW1 : ((adv (a + ℓ - r1.1.cur) r1.1).1 = lineClock (a + ℓ) ℓ
            ∧ Lg ++ r1.2.map Emit.barEnd ++ (adv (a + ℓ - r1.1.cur) r1.1).2.map Emit.barEnd = G ++ [Emit.barEnd (a + ℓ)])
          ∨ (m.time = 0 ∧ r1.1 = lineClock a Cprev ∧ Lg ++ r1.2.map Emit.barEnd = G
              ∧ ∃ ev ∈ (e1, m :: restP) :: evs, ∃ m ∈ ev.2.head?, m.ty = .timeSignature) := by
        rcases hW with ⟨h, hL⟩ | ⟨h1, h2, h3, ev, hev, m', hm', hty'⟩
        · left
          have := adv_add (m.time + a - k.cur).toNat (m.time + a - k.cur) (a + ℓ - r1.1.cur) k hg.1 (by omega) (by omega)
            (Nat.le_refl _)
          have e : m.time + a - k.cur + (a + ℓ - r1.1.cur) = a + ℓ - k.cur := by omega
          rw [e, hr1] at this
          rw [this] at h hL
          refine ⟨h, ?_⟩
          simpa [List.map_append, List.append_assoc] using hL
        · right
          have hm0 : m.time = 0 := by
            have h0 := (hsig ev hev m' hm' hty').1
            rcases List.mem_cons.1 hev with rfl | hin
            · simp only [List.head?_cons, Option.mem_def, Option.some.injEq] at hm'
              subst hm'; exact h0
            · have := hord.1 ev hin m (by simp) m' hm'
              omega
          have e : m.time + a - k.cur = a - k.cur := by omega
          rw [e] at hr1
          rw [hr1] at h2 h3
          exact ⟨hm0, h2, h3, ev, hev, m', hm', hty'⟩
      -- before the bar's end nothing but the bar's end is pending
      have hGleft : (adv (a + ℓ - r1.1.cur) r1.1).1 = lineClock (a + ℓ) ℓ →
          Lg ++ r1.2.map Emit.barEnd ++ (adv (a + ℓ - r1.1.cur) r1.1).2.map Emit.barEnd = G ++ [Emit.barEnd (a + ℓ)] →
          m.time < ℓ → (adv (a + ℓ - r1.1.cur) r1.1).2 = [a + ℓ] ∧ Lg ++ r1.2.map Emit.barEnd = G := by
        intro hN hL hlt
        obtain ⟨_, q2, _⟩ := adv_good (a + ℓ - r1.1.cur) r1.1 g1 (by omega)
        rw [hN] at q2
        have hct : r1.1.capTotal = ℓ := by simpa [lineClock] using q2.symm
        have hends := adv_line_ends (a + ℓ - r1.1.cur) r1.1 g1 (by omega) (by omega) (by rw [hN]; rfl)
        have e : r1.1.cur + (a + ℓ - r1.1.cur) = a + ℓ := by omega
        rw [e] at hends
        refine ⟨hends, ?_⟩
        rw [hends] at hL
        exact List.append_cancel_right hL
      rcases specTail_step c m restP r1.1 ℓ g1 (fun h => (hs h).2) with ⟨t1, t2⟩ | ⟨t1, t2, t3⟩
      · -- the clock is left alone
        simp only [t1]
        obtain ⟨i1, i2, i3, i4⟩ := ih (fun e he => hrange e (List.mem_cons_of_mem _ he)) hord.2
          (fun e he => hsig e (List.mem_cons_of_mem _ he)) (fun e he => hnote e (List.mem_cons_of_mem _ he))
          r1.1 (Lg ++ r1.2.map Emit.barEnd ++ noteEmit c a (e1, m :: restP)) (G ++ noteEmit c a (e1, m :: restP)) g1
          (fun e he m' hm' => by
            have := hord.1 e he m (by simp) m' hm'
            omega) (by omega)
          (by
            rcases hW1 with ⟨h, hL⟩ | ⟨h1, h2, h3, ev, hev, m', hm', hty'⟩
            · refine Or.inl ⟨h, ?_⟩
              by_cases hlt : m.time < ℓ
              · obtain ⟨q1, q2⟩ := hGleft h hL hlt
                rw [q1, q2]
                rfl
              · have hno : noteEmit c a (e1, m :: restP) = [] :=
                  noteEmit_other c a _ (fun m' hm' hty' => by
                    simp only [List.head?_cons, Option.mem_def, Option.some.injEq] at hm'
                    subst hm'
                    exact hlt (hn hty'))
                rw [hno, List.append_nil, List.append_nil]
                exact hL
            · refine Or.inr ⟨by omega, ?_, ?_, ev, ?_, m', hm', hty'⟩
              · have : a - r1.1.cur = 0 := by omega
                rw [this, adv_zero]; exact h2
              · have : a - r1.1.cur = 0 := by omega
                rw [this, adv_zero, h3]
                simp
              · rcases List.mem_cons.1 hev with rfl | hin
                · simp only [List.head?_cons, Option.mem_def, Option.some.injEq] at hm'
                  subst hm'
                  have := t2 hty'
                  rw [h2] at this
                  simp [lineClock] at this
                · exact hin)
        refine ⟨i1, i2, i3, ?_⟩
        rw [i4]
        simp [List.append_assoc]
      · -- a time signature on the bar line re-sizes the bar
        simp only [t3]
        have hm0 : m.time = 0 := (hs t1).1
        have hno : noteEmit c a (e1, m :: restP) = [] :=
          noteEmit_other c a _ (fun m' hm' hty' => by
            simp only [List.head?_cons, Option.mem_def, Option.some.injEq] at hm'
            subst hm'
            rw [t1] at hty'
            cases hty')
        rw [hno, List.append_nil, List.nil_append]
        have hG : Lg ++ r1.2.map Emit.barEnd = G := by
          rcases hW1 with ⟨h, hL⟩ | ⟨_, _, h3, _⟩
          · exact (hGleft h hL (by omega)).2
          · exact h3
        refine ih (fun e he => hrange e (List.mem_cons_of_mem _ he)) hord.2
          (fun e he => hsig e (List.mem_cons_of_mem _ he)) (fun e he => hnote e (List.mem_cons_of_mem _ he))
          (lineClock r1.1.cur ℓ) _ G (lineClock_good _ _ hℓ) ?_
          (by simp only [lineClock]; omega) ?_
        · intro e he m' hm'
          have := hord.1 e he m (by simp) m' hm'
          simp only [lineClock]; omega
        · left
          have e : a + ℓ - (lineClock r1.1.cur ℓ).cur = ℓ := by simp only [lineClock]; omega
          rw [e, adv_line _ _ hℓ, adv_line2 _ _ hℓ, hcur1, hm0, Int.add_zero, hG]
          exact ⟨rfl, rfl⟩

/-! ## the specification clock over a sequence of bars -/

theorem BarOk.sigCap {c : Cfg} {C : Int} {b : BarEv} (h : BarOk c C b) :
    ∀ ev ∈ b.evs, ∀ m ∈ ev.2.head?, m.ty = .timeSignature → m.time = 0 ∧ c.capacity m.num m.den = barLen c b := by
  intro ev hev m hm hty
  obtain ⟨h1, h2, h3⟩ := h.sigs ev hev m hm hty
  exact ⟨h1, by unfold barLen; rw [h2, h3]⟩

theorem chunkLen_nonneg (c : Cfg) (C : Int) (bars : List BarEv) (h : BarsOk c C bars) : 0 ≤ chunkLen c bars := by
  induction bars generalizing C with
  | nil => exact Int.le_refl 0
  | cons b bs ih =>
    have := ih _ h.2
    have := h.1.lenPos
    simp only [chunkLen]; omega

/-- the piece as the bars say it: every note of every bar at the bar's start plus its tick, and after the notes of
    each bar the bar's end, at the summed bar lengths (`A` is the absolute tick of the first bar line).  Independent of
    `specLog`, of tokens, and of every event that is not a note. -/
def gridLog (c : Cfg) (A : Int) : List BarEv → List Emit
  | [] => []
  | b :: bs => b.evs.flatMap (noteEmit c A) ++ [Emit.barEnd (A + barLen c b)] ++ gridLog c (A + barLen c b) bs

/-- **a sequence of whole bars.**  From a clock that reaches the bar line `a` as the line clock of bars of length `C`,
    the events of the bars laid end to end leave a clock that reaches the end `a + Σ barLen` of the last bar as
    the line clock of the last bar's length; and the log, completed by the bar ends still to be passed on the way there,
    grows by exactly `gridLog`. -/
theorem bars_fold (c : Cfg) (bars : List BarEv) (C : Int) (hok : BarsOk c C bars) (a : Int)
    (k : Clock) (Lg : List Emit) (hg : Good k) (hle : k.cur ≤ a) (hlag : (adv (a - k.cur) k).1 = lineClock a C) :
    Good ((layBars c bars).foldl (specEvent c a) (k, Lg)).1
      ∧ ((layBars c bars).foldl (specEvent c a) (k, Lg)).1.cur ≤ a + chunkLen c bars
      ∧ (adv (a + chunkLen c bars - ((layBars c bars).foldl (specEvent c a) (k, Lg)).1.cur)
            ((layBars c bars).foldl (specEvent c a) (k, Lg)).1).1
          = lineClock (a + chunkLen c bars) (lastCap c C bars)
      ∧ ((layBars c bars).foldl (specEvent c a) (k, Lg)).2
          ++ (adv (a + chunkLen c bars - ((layBars c bars).foldl (specEvent c a) (k, Lg)).1.cur)
                ((layBars c bars).foldl (specEvent c a) (k, Lg)).1).2.map Emit.barEnd
          = Lg ++ (adv (a - k.cur) k).2.map Emit.barEnd ++ gridLog c a bars := by
  induction bars generalizing C a k Lg with
  | nil =>
    simp only [layBars, List.foldl_nil, chunkLen, Int.add_zero, lastCap, gridLog, List.append_nil]
    exact ⟨hg, hle, hlag, trivial⟩
  | cons b bs ih =>
    obtain ⟨hb, hbs⟩ := hok
    have hℓ := hb.lenPos
    simp only [layBars, List.foldl_append, fold_shift, chunkLen, lastCap, gridLog]
    have hW : ((adv (a + barLen c b - k.cur) k).1 = lineClock (a + barLen c b) (barLen c b)
          ∧ Lg ++ (adv (a + barLen c b - k.cur) k).2.map Emit.barEnd
              = (Lg ++ (adv (a - k.cur) k).2.map Emit.barEnd) ++ [Emit.barEnd (a + barLen c b)])
        ∨ (k.cur ≤ a ∧ (adv (a - k.cur) k).1 = lineClock a C
            ∧ Lg ++ (adv (a - k.cur) k).2.map Emit.barEnd = Lg ++ (adv (a - k.cur) k).2.map Emit.barEnd
            ∧ ∃ ev ∈ b.evs, ∃ m ∈ ev.2.head?, m.ty = .timeSignature) := by
      rcases hb.announced with h | h
      · left
        have := adv_add (a - k.cur).toNat (a - k.cur) (barLen c b) k hg.1 (by omega) (by omega) (Nat.le_refl _)
        have e : a - k.cur + barLen c b = a + barLen c b - k.cur := by omega
        rw [e] at this
        rw [this, hlag, ← h, adv_line _ _ hℓ, adv_line2 _ _ hℓ]
        exact ⟨rfl, by simp⟩
      · exact Or.inr ⟨hle, hlag, rfl, h⟩
    obtain ⟨r1, r2, r3, r4⟩ := bar_fold c a (barLen c b) C hℓ b.evs hb.range hb.ordered hb.sigCap hb.notesInside k Lg
      (Lg ++ (adv (a - k.cur) k).2.map Emit.barEnd) hg
      (fun e he m hm => by have := (hb.range e he m hm).1; omega) (by omega) hW
    generalize b.evs.foldl (specEvent c a) (k, Lg) = kl1 at r1 r2 r3 r4
    obtain ⟨k1, L1⟩ := kl1
    obtain ⟨i1, i2, i3, i4⟩ := ih (barLen c b) hbs (a + barLen c b) k1 L1 r1 r2 r3
    have e : a + (barLen c b + chunkLen c bs) = a + barLen c b + chunkLen c bs := by omega
    rw [e]
    refine ⟨i1, i2, i3, ?_⟩
    rw [i4, r4]
    simp [List.append_assoc]

/-! ## the laid-out events satisfy the simulation's input conditions -/

/-- a statement about the head messages of shifted events, read on the unshifted ones -/
theorem shift_heads (s : Int) (evs : List (Int × Pairing)) (P : Msg → Prop)
    (h : ∀ ev ∈ evs, ∀ m ∈ ev.2.head?, P { m with time := m.time + s }) :
    ∀ ev ∈ shiftEvs s evs, ∀ m ∈ ev.2.head?, P m := by
  intro ev hev m hm
  unfold shiftEvs at hev
  rw [List.mem_map] at hev
  obtain ⟨ev0, hev0, rfl⟩ := hev
  simp only [List.head?_map, Option.mem_def, Option.map_eq_some_iff] at hm
  obtain ⟨m0, hm0, rfl⟩ := hm
  exact h ev0 hev0 m0 hm0

theorem shift_pairwise (s : Int) (evs : List (Int × Pairing))
    (h : List.Pairwise (fun a b => ∀ x ∈ a.2.head?, ∀ y ∈ b.2.head?, x.time ≤ y.time) evs) :
    List.Pairwise (fun a b => ∀ x ∈ a.2.head?, ∀ y ∈ b.2.head?, x.time ≤ y.time) (shiftEvs s evs) := by
  unfold shiftEvs
  rw [List.pairwise_map]
  refine h.imp ?_
  intro a b hab x hx y hy
  simp only [List.head?_map, Option.mem_def, Option.map_eq_some_iff] at hx hy
  obtain ⟨x0, hx0, rfl⟩ := hx
  obtain ⟨y0, hy0, rfl⟩ := hy
  have := hab x0 hx0 y0 hy0
  simp only; omega

/-- what the laid-out bars satisfy -/
structure LaidOk (c : Cfg) (L : Int) (evs : List (Int × Pairing)) : Prop where
  nonempty : ∀ ev ∈ evs, ev.2 ≠ []
  chans : ∀ ev ∈ evs, ∀ m ∈ ev.2.head?, 0 ≤ m.ch ∧ m.ch < (c.numTracks : Int)
  range : ∀ ev ∈ evs, ∀ m ∈ ev.2.head?, 0 ≤ m.time ∧ m.time ≤ L
  ordered : List.Pairwise (fun a b => ∀ x ∈ a.2.head?, ∀ y ∈ b.2.head?, x.time ≤ y.time) evs
  sigPos : ∀ ev ∈ evs, ∀ m ∈ ev.2.head?, m.ty = .timeSignature → 0 < m.den ∧ 0 < m.num ∧ 0 < c.capacity m.num m.den

theorem layBars_ok (c : Cfg) (C : Int) (bars : List BarEv) (hok : BarsOk c C bars) :
    LaidOk c (chunkLen c bars) (layBars c bars) := by
  induction bars generalizing C with
  | nil => constructor <;> simp [layBars]
  | cons b bs ih =>
    obtain ⟨hb, hbs⟩ := hok
    have h2 := ih _ hbs
    have hL := chunkLen_nonneg c _ bs hbs
    have hℓ := hb.lenPos
    simp only [layBars, chunkLen]
    refine ⟨?_, ?_, ?_, ?_, ?_⟩
    · intro ev hev
      rcases List.mem_append.1 hev with h | h
      · exact hb.nonempty ev h
      · unfold shiftEvs at h
        rw [List.mem_map] at h
        obtain ⟨ev0, hev0, rfl⟩ := h
        have := h2.nonempty ev0 hev0
        simpa using this
    · intro ev hev
      rcases List.mem_append.1 hev with h | h
      · exact hb.chans ev h
      · exact shift_heads _ _ (fun m => 0 ≤ m.ch ∧ m.ch < (c.numTracks : Int)) h2.chans ev h
    · intro ev hev
      rcases List.mem_append.1 hev with h | h
      · intro m hm; have := hb.range ev h m hm; omega
      · refine shift_heads _ _ (fun m => 0 ≤ m.time ∧ m.time ≤ barLen c b + chunkLen c bs) ?_ ev h
        intro e he m hm; have := h2.range e he m hm; simp only; omega
    · rw [List.pairwise_append]
      refine ⟨hb.ordered, shift_pairwise _ _ h2.ordered, ?_⟩
      intro x hx y hy mx hmx
      have h1 := (hb.range x hx mx hmx).2
      revert y
      refine shift_heads _ _ (fun m => mx.time ≤ m.time) ?_
      intro e he m hm; have := (h2.range e he m hm).1; simp only; omega
    · intro ev hev
      rcases List.mem_append.1 hev with h | h
      · intro m hm hty
        obtain ⟨_, e2, e3⟩ := hb.sigs ev h m hm hty
        refine ⟨by rw [e3]; exact hb.denPos, by rw [e2]; exact hb.numPos, ?_⟩
        rw [e2, e3]; exact hℓ
      · exact shift_heads _ _ (fun m => m.ty = .timeSignature → 0 < m.den ∧ 0 < m.num ∧ 0 < c.capacity m.num m.den)
          h2.sigPos ev h

theorem LaidOk.evsOk {c : Cfg} {L : Int} {evs : List (Int × Pairing)} (h : LaidOk c L evs) (s : Int) :
    EvsOk c s s evs :=
  ⟨h.chans, h.ordered, fun ev hev m hm => by have := (h.range ev hev m hm).1; omega,
    fun ev hev m hm hty => by have := h.sigPos ev hev m hm hty; exact ⟨this.1, this.2.1⟩⟩


/-! ## where the specification clock of a call on whole bars ends -/

theorem lastCap_pos (c : Cfg) (C : Int) (bars : List BarEv) (hC : 0 < C) (hok : BarsOk c C bars) :
    0 < lastCap c C bars := by
  induction bars generalizing C with
  | nil => exact hC
  | cons b bs ih => exact ih _ hok.1.lenPos hok.2

/-- the length of a non-empty sequence of bars is the length up to the last bar plus the last bar's length,
    which is the bar length in force after the sequence -/
theorem chunkLen_dropLast (c : Cfg) (C : Int) (bars : List BarEv) (hne : bars ≠ []) :
    chunkLen c bars = chunkLen c bars.dropLast + lastCap c C bars := by
  induction bars generalizing C with
  | nil => exact absurd rfl hne
  | cons b bs ih =>
    cases bs with
    | nil => simp [chunkLen, lastCap]
    | cons b2 bs2 =>
      have := ih (barLen c b) (by simp)
      simp only [List.dropLast_cons_cons, chunkLen, lastCap] at this ⊢
      omega

theorem fold_pos (c : Cfg) (a : Int) (evs : List (Int × Pairing)) (L : Int) (h : LaidOk c L evs)
    (k : Clock) (Lg : List Emit) (hs : Sane k) (hk : k.cur = a) :
    (evs.foldl (specEvent c a) (k, Lg)).1.cur = a + lastOnset evs := by
  unfold lastOnset
  cases hl : evs.getLast? with
  | none =>
    rw [List.getLast?_eq_none_iff] at hl
    subst hl
    simp [hk]
  | some last =>
    have hmem : last ∈ evs := List.mem_of_getLast? hl
    have hne := h.nonempty last hmem
    rcases h2 : last.2 with _ | ⟨m, restP⟩
    · exact absurd h2 hne
    · simp only [onsetOf, h2]
      rw [fold_cur c a evs (k, Lg) last m hs h.ordered
        (fun e he m' hm' => by have := (h.range e he m' hm').1; simp only; omega) h.nonempty
        (fun e he m' hm' hty => (h.sigPos e he m' hm' hty).2.2) hl (by simp [h2])]
      omega

/-- **the end of a call on whole bars, on the specification clock**: from a bar line of bars of length `C`,
    the clock ends on a bar line of the last bar's length; it ends at `start + Σ barLen` exactly when the chunk
    is not in the D19 class; and in the D19 class proper (last onset on the last bar's line) it ends on that line -/
theorem chunk_specLog (c : Cfg) (st : TokSt) (bars : List BarEv)
    (hbar : st.curTimeBar = 0) (hrem : st.capRem = c.capacity st.tsNum st.tsDen) (hC : 0 < c.capacity st.tsNum st.tsDen)
    (hok : BarsOk c (c.capacity st.tsNum st.tsDen) bars) :
    (specLog c st (layBars c bars)).1.bar = 0
      ∧ (specLog c st (layBars c bars)).1.capRem = lastCap c (c.capacity st.tsNum st.tsDen) bars
      ∧ (specLog c st (layBars c bars)).1.capTotal = lastCap c (c.capacity st.tsNum st.tsDen) bars
      ∧ (¬ Stalls c bars → (specLog c st (layBars c bars)).1.cur = st.curTime + chunkLen c bars)
      ∧ (Stalls c bars → (specLog c st (layBars c bars)).1.cur < st.curTime + chunkLen c bars)
      ∧ (bars ≠ [] → lastOnset (layBars c bars) = chunkLen c bars.dropLast →
          (specLog c st (layBars c bars)).1.cur = st.curTime + chunkLen c bars.dropLast)
      ∧ (specLog c st (layBars c bars)).2
          ++ (adv (st.curTime + chunkLen c bars - (specLog c st (layBars c bars)).1.cur) (specLog c st (layBars c bars)).1).2.map
              Emit.barEnd
          = gridLog c st.curTime bars := by
  have hk0 : clockOf st (c.capacity st.tsNum st.tsDen) = lineClock st.curTime (c.capacity st.tsNum st.tsDen) := by
    simp only [clockOf, lineClock, hbar, hrem]
  have hlaid := layBars_ok c _ bars hok
  have hg0 := lineClock_good st.curTime _ hC
  obtain ⟨f1, f2, f3, f5⟩ := bars_fold c bars _ hok st.curTime (lineClock st.curTime _) [] hg0 (Int.le_refl _)
    (by simp only [lineClock, Int.sub_self, adv_zero])
  have e0 : st.curTime - (lineClock st.curTime (c.capacity st.tsNum st.tsDen)).cur = 0 := by simp only [lineClock]; omega
  rw [e0, adv_zero] at f5
  simp only [List.map_nil, List.append_nil, List.nil_append] at f5
  have f4 := fold_pos c st.curTime (layBars c bars) _ hlaid (lineClock st.curTime (c.capacity st.tsNum st.tsDen)) [] hg0.1 rfl
  have hℓ := lastCap_pos c _ bars hC hok
  rw [specLog_eq, hk0]
  generalize (layBars c bars).foldl (specEvent c st.curTime) (lineClock st.curTime (c.capacity st.tsNum st.tsDen), []) = kl
    at f1 f2 f3 f4 f5
  obtain ⟨k, Lg⟩ := kl
  simp only at f1 f2 f3 f4 f5
  have hgk : Good k := f1
  generalize hℓdef : lastCap c (c.capacity st.tsNum st.tsDen) bars = ℓ at f3 hℓ ⊢
  generalize hq : lastOnset (layBars c bars) = q at *
  have hr0 : 0 ≤ chunkLen c bars - q := by omega
  obtain ⟨g1, g2, g3⟩ := adv_good (st.curTime + chunkLen c bars - k.cur) k f1 (by omega)
  rw [f3] at g2
  have hT : k.capTotal = ℓ := by simpa [lineClock] using g2.symm
  obtain ⟨⟨s1, s2, s3⟩, hfull⟩ := f1
  have hline : ∀ r, 0 < r → r ≤ ℓ → r = chunkLen c bars - q → k.capRem = r := by
    intro r h0 h1 h2
    refine adv_line_inv r k ⟨⟨s1, s2, s3⟩, hfull⟩ h0 (by omega) ?_
    have : st.curTime + chunkLen c bars - k.cur = r := by omega
    rw [this] at f3
    rw [f3]; rfl
  have hzero : chunkLen c bars - q = 0 → k.bar = 0 := by
    intro h
    have : st.curTime + chunkLen c bars - k.cur = 0 := by omega
    rw [this, adv_zero] at f3
    simp only at f3
    rw [f3]; rfl
  have hnil : bars = [] → chunkLen c bars = 0 ∧ q = 0 := by
    intro h; subst h; exact ⟨rfl, by rw [← hq]; rfl⟩
  by_cases hfire : k.bar > 0
  · rw [closeBar_fire k Lg hfire s1]
    refine ⟨rfl, by simp only; omega, by simp only; omega, ?_, ?_, ?_, ?_⟩
    rotate_right
    · -- the log: the bar end just emitted was the first pending one
      have hRge : k.capRem ≤ st.curTime + chunkLen c bars - k.cur := by
        refine Decidable.byContradiction fun hn => ?_
        have hb : (adv (st.curTime + chunkLen c bars - k.cur) k).1.bar = 0 := by rw [f3]; rfl
        unfold adv at hb
        simp only [advance] at hb
        by_cases h0 : st.curTime + chunkLen c bars - k.cur ≤ 0
        · rw [if_pos h0] at hb; omega
        · rw [if_neg h0, if_pos (by omega)] at hb
          simp only at hb; omega
      have e1 := adv_split_close (st.curTime + chunkLen c bars - k.cur) k k.capRem s1 hRge rfl (fun _ => s3)
      have e2 : st.curTime + chunkLen c bars - (k.cur + k.capRem) = st.curTime + chunkLen c bars - k.cur - k.capRem := by omega
      simp only
      rw [e2]
      unfold adv at f5 ⊢
      rw [e1] at f5
      simpa [List.append_assoc] using f5
    · intro hns
      simp only
      by_cases hne : bars = []
      · obtain ⟨hL0, hq0⟩ := hnil hne
        have := hzero (by omega)
        omega
      · have hS := chunkLen_dropLast c (c.capacity st.tsNum st.tsDen) bars hne
        have hq2 : chunkLen c bars.dropLast < q := by
          refine Decidable.byContradiction fun hn => hns ⟨hne, by omega⟩
        by_cases hz : chunkLen c bars - q = 0
        · have := hzero hz; omega
        · have := hline (chunkLen c bars - q) (by omega) (by omega) rfl
          omega
    · intro hst
      have hS := chunkLen_dropLast c (c.capacity st.tsNum st.tsDen) bars hst.1
      have := hst.2
      simp only; omega
    · intro hne hS0
      have hS := chunkLen_dropLast c (c.capacity st.tsNum st.tsDen) bars hne
      have := hline ℓ hℓ (Int.le_refl _) (by omega)
      omega
  · have hcb : closeBar (k, Lg) = (k, Lg) := by unfold closeBar; simp only; rw [if_neg (by omega)]
    rw [hcb]
    have hb0 : k.bar = 0 := by omega
    refine ⟨hb0, by simp only; omega, hT, ?_, ?_, ?_, f5⟩
    · intro hns
      simp only
      by_cases hne : bars = []
      · obtain ⟨hL0, hq0⟩ := hnil hne
        omega
      · have hS := chunkLen_dropLast c (c.capacity st.tsNum st.tsDen) bars hne
        have hq2 : chunkLen c bars.dropLast < q := by
          refine Decidable.byContradiction fun hn => hns ⟨hne, by omega⟩
        by_cases hz : chunkLen c bars - q = 0
        · omega
        · have := hline (chunkLen c bars - q) (by omega) (by omega) rfl
          omega
    · intro hst
      have hS := chunkLen_dropLast c (c.capacity st.tsNum st.tsDen) bars hst.1
      have := hst.2
      simp only; omega
    · intro hne hS0
      simp only; omega


/-! ## the grid log sees only notes and bar lengths -/

/-- an event headed by a note-on -/
def isNoteEv (ev : Int × Pairing) : Bool :=
  match ev.2.head? with
  | some m => m.ty == .noteOn
  | none => false

theorem flatMap_noteEmit_filter (c : Cfg) (A : Int) (evs : List (Int × Pairing)) :
    evs.flatMap (noteEmit c A) = (evs.filter isNoteEv).flatMap (noteEmit c A) := by
  induction evs with
  | nil => rfl
  | cons ev evs ih =>
    by_cases h : isNoteEv ev = true
    · rw [List.filter_cons_of_pos h, List.flatMap_cons, List.flatMap_cons, ih]
    · rw [List.filter_cons_of_neg h, List.flatMap_cons, ih]
      have : noteEmit c A ev = [] := by
        apply noteEmit_other
        intro m hm hty
        apply h
        simp only [Option.mem_def] at hm
        simp [isNoteEv, hm, hty]
      rw [this, List.nil_append]

/-- two sequences of bars with the same bar lengths and, bar by bar, the same note events up to their order (the
    merge orders simultaneous events of different tracks by the order in which the tracks first speak, which
    depends on the run of bars merged); they may differ in time signatures that repeat the running one, cap
    messages, and any other event that is not a note -/
def SameNotes (c : Cfg) : List BarEv → List BarEv → Prop
  | [], [] => True
  | b :: bs, b' :: bs' =>
    barLen c b = barLen c b' ∧ (b.evs.filter isNoteEv).Perm (b'.evs.filter isNoteEv) ∧ SameNotes c bs bs'
  | _, _ => False

instance (c : Cfg) : ∀ (x y : List BarEv), Decidable (SameNotes c x y)
  | [], [] => isTrue trivial
  | [], _ :: _ => isFalse (fun h => h)
  | _ :: _, [] => isFalse (fun h => h)
  | b :: bs, b' :: bs' =>
    have := instDecidableSameNotes c bs bs'
    inferInstanceAs (Decidable (barLen c b = barLen c b' ∧ (b.evs.filter isNoteEv).Perm (b'.evs.filter isNoteEv)
      ∧ SameNotes c bs bs'))

/-- the grid logs of two presentations with the same notes are the same collection of notes and bar ends -/
theorem gridLog_perm (c : Cfg) (A : Int) (x y : List BarEv) (h : SameNotes c x y) : (gridLog c A x).Perm (gridLog c A y) := by
  induction x generalizing A y with
  | nil =>
    cases y with
    | nil => exact List.Perm.refl _
    | cons _ _ => exact absurd h (fun h => h)
  | cons b bs ih =>
    cases y with
    | nil => exact absurd h (fun h => h)
    | cons b' bs' =>
      obtain ⟨h1, h2, h3⟩ := h
      simp only [gridLog]
      rw [flatMap_noteEmit_filter c A b.evs, flatMap_noteEmit_filter c A b'.evs, h1]
      exact ((h2.flatMap_right _).append (List.Perm.refl _)).append (ih _ _ h3)

/-! ## the tokeniser's state after a call on whole bars -/

/-- a state on a bar line: nothing of the bar is used, and the bar has a positive length -/
structure OnLine (c : Cfg) (st : TokSt) : Prop where
  bar : st.curTimeBar = 0
  rem : st.capRem = c.capacity st.tsNum st.tsDen
  cap : 0 < c.capacity st.tsNum st.tsDen

instance (c : Cfg) (st : TokSt) : Decidable (OnLine c st) :=
  decidable_of_iff (st.curTimeBar = 0 ∧ st.capRem = c.capacity st.tsNum st.tsDen ∧ 0 < c.capacity st.tsNum st.tsDen)
    ⟨fun ⟨a, b, c⟩ => ⟨a, b, c⟩, fun h => ⟨h.bar, h.rem, h.cap⟩⟩

theorem call_end (c : Cfg) (hc : CfgOk c) (st st' : TokSt) (bars : List BarEv) (toks : List Tok)
    (hst : OnLine c st) (hok : BarsOk c (c.capacity st.tsNum st.tsDen) bars)
    (h : tokeniseCore c st (layBars c bars) = .ok (toks, st')) :
    OnLine c st' ∧ c.capacity st'.tsNum st'.tsDen = lastCap c (c.capacity st.tsNum st.tsDen) bars
      ∧ (¬ Stalls c bars → st'.curTime = st.curTime + chunkLen c bars)
      ∧ (Stalls c bars → st'.curTime < st.curTime + chunkLen c bars)
      ∧ (bars ≠ [] → lastOnset (layBars c bars) = chunkLen c bars.dropLast →
          st'.curTime = st.curTime + chunkLen c bars.dropLast) := by
  have hlaid := layBars_ok c _ bars hok
  obtain ⟨E, a1, _, _, _, _⟩ := core_sim c hc st st' (layBars c bars) toks (by rw [hst.bar]; exact Int.le_refl 0)
    (Or.inr ⟨hst.bar, hst.rem⟩) (hlaid.evsOk st.curTime) h
  obtain ⟨s1, s2, s3, s4, s5, s6, _⟩ := chunk_specLog c st bars hst.bar hst.rem hst.cap hok
  rw [a1] at s1 s2 s3 s4 s5 s6
  simp only [clockOf] at s1 s2 s3 s4 s5 s6
  have hℓ := lastCap_pos c _ bars hst.cap hok
  exact ⟨⟨s1, by omega, by omega⟩, s3, s4, s5, s6⟩

/-! ## token level: a call resumed where the previous one stopped -/

/-- the step size `_apply_rest` takes when `nxt` ticks are next -/
def chooseStep (c : Cfg) (nxt : Int) : Except Err Int :=
  match c.steps.getLast? with
  | Option.none => .error .indexError
  | some last =>
    if !(nxt > last || c.steps.any (fun s => nxt >= s)) then .error .tokenisationError else
    match (if nxt > last then some last else largestLe c.steps nxt) with
    | Option.none => .error .tokenisationError
    | some v => .ok v

theorem applyRest_pos (c : Cfg) (cap : Int) (fuel : Nat) (buf cur bar rem : Int) (acc : List Tok) (hb : 0 < buf) :
    applyRest c cap (fuel + 1) buf (cur, bar, rem) acc =
      match chooseStep c (min buf rem) with
      | .error e => .error e
      | .ok v =>
        if rem - v == 0 then applyRest c cap fuel (buf - v) (cur + v, 0, cap) (Tok.bar :: Tok.rest v :: acc)
        else applyRest c cap fuel (buf - v) (cur + v, bar + v, rem - v) (Tok.rest v :: acc) := by
  simp only [applyRest, chooseStep]
  rw [if_pos hb]
  split
  · rename_i h; simp only [h]
  · rename_i last h
    simp only [h]
    split
    · rename_i h2; rfl
    · rename_i h2
      split
      · rename_i h3; simp only [h3]
      · rename_i h3; simp only [h3]

theorem chooseStep_spec (c : Cfg) (n v : Int) (h : chooseStep c n = .ok v) : v ∈ c.steps ∧ v ≤ n := by
  unfold chooseStep at h
  split at h
  · cases h
  · rename_i last hlast
    split at h
    · cases h
    · split at h
      · cases h
      · rename_i v' hv
        cases h
        split at hv
        · rename_i hgt
          cases hv
          exact ⟨List.mem_of_getLast? hlast, by omega⟩
        · exact Sim.largestLe_le hv

/-- `applyRest` only pushes onto its token accumulator -/
theorem applyRest_acc (c : Cfg) (cap : Int) (fuel : Nat) (buf : Int) (s : Int × Int × Int) (acc X : List Tok)
    (r : (Int × Int × Int) × List Tok) (h : applyRest c cap fuel buf s acc = .ok r) :
    applyRest c cap fuel buf s (acc ++ X) = .ok (r.1, r.2 ++ X) := by
  induction fuel generalizing buf s acc with
  | zero =>
    by_cases hb : buf ≤ 0
    · rw [Sim.applyRest_nonpos _ _ _ _ _ _ hb] at h ⊢
      cases h; rfl
    · simp only [applyRest] at h
      rw [if_pos (by omega)] at h; cases h
  | succ fuel ih =>
    by_cases hb : buf ≤ 0
    · rw [Sim.applyRest_nonpos _ _ _ _ _ _ hb] at h ⊢
      cases h; rfl
    · obtain ⟨cur, bar, rem⟩ := s
      rw [applyRest_pos _ _ _ _ _ _ _ _ (by omega)] at h ⊢
      split at h
      · cases h
      · rename_i v hv
        split at h
        · rename_i hz
          rw [if_pos hz]
          exact ih _ _ _ h
        · rename_i hz
          rw [if_neg hz]
          exact ih _ _ _ h

/-- a successful `applyRest` does not depend on its fuel, as long as there is more fuel than ticks to rest -/
theorem applyRest_fuel (c : Cfg) (hs : ∀ s ∈ c.steps, 0 < s) (cap : Int) (f f' : Nat) (buf : Int) (s : Int × Int × Int)
    (acc : List Tok) (r : (Int × Int × Int) × List Tok) (h : applyRest c cap f buf s acc = .ok r)
    (hf : buf.toNat < f') : applyRest c cap f' buf s acc = .ok r := by
  induction f generalizing f' buf s acc with
  | zero =>
    by_cases hb : buf ≤ 0
    · rw [Sim.applyRest_nonpos _ _ _ _ _ _ hb] at h ⊢
      exact h
    · simp only [applyRest] at h
      rw [if_pos (by omega)] at h; cases h
  | succ f ih =>
    by_cases hb : buf ≤ 0
    · rw [Sim.applyRest_nonpos _ _ _ _ _ _ hb] at h ⊢
      exact h
    · obtain ⟨cur, bar, rem⟩ := s
      cases f' with
      | zero => omega
      | succ f' =>
        rw [applyRest_pos _ _ _ _ _ _ _ _ (by omega)] at h ⊢
        split at h
        · cases h
        · rename_i v hv
          have hv0 := hs v (chooseStep_spec c _ v hv).1
          split at h
          · rename_i hz
            rw [if_pos hz]
            exact ih _ _ _ _ h (by omega)
          · rename_i hz
            rw [if_neg hz]
            exact ih _ _ _ _ h (by omega)

/-- a rest that first fills the bar in progress exactly and then goes on is the rest that fills the bar followed
    by the rest that goes on -/
theorem applyRest_resume (c : Cfg) (hs : ∀ s ∈ c.steps, 0 < s) (cap : Int) (f1 f2 f : Nat) (cur bar rem r2 : Int)
    (acc acc1 : List Tok) (s1 : Int × Int × Int) (res : (Int × Int × Int) × List Tok)
    (h1 : applyRest c cap f1 rem (cur, bar, rem) acc = .ok (s1, acc1)) (hrem : 0 < rem) (hr2 : 0 ≤ r2)
    (h2 : applyRest c cap f2 r2 s1 acc1 = .ok res) (hf : (rem + r2).toNat < f) :
    applyRest c cap f (rem + r2) (cur, bar, rem) acc = .ok res := by
  induction f1 generalizing f cur bar rem acc with
  | zero =>
    simp only [applyRest] at h1
    rw [if_pos (by omega)] at h1; cases h1
  | succ f1 ih =>
    cases f with
    | zero => omega
    | succ f =>
      rw [applyRest_pos _ _ _ _ _ _ _ _ (by omega)] at h1 ⊢
      have e1 : min rem rem = rem := by omega
      have e2 : min (rem + r2) rem = rem := by omega
      rw [e1] at h1
      rw [e2]
      split at h1
      · cases h1
      · rename_i v hv
        obtain ⟨hvm, hvle⟩ := chooseStep_spec c _ v hv
        have hv0 := hs v hvm
        split at h1
        · rename_i hz
          rw [if_pos hz]
          have hz' : rem - v = 0 := by simpa using hz
          rw [Sim.applyRest_nonpos _ _ _ _ _ _ (by omega)] at h1
          cases h1
          have e : rem + r2 - v = r2 := by omega
          rw [e]
          exact applyRest_fuel c hs cap f2 f r2 _ _ res h2 (by omega)
        · rename_i hz
          rw [if_neg hz]
          have hz' : rem - v ≠ 0 := by simpa using hz
          have e : rem + r2 - v = (rem - v) + r2 := by omega
          rw [e]
          exact ih f _ _ (rem - v) _ h1 (by omega) (by omega)

/-- add `X` below the tokens emitted so far -/
def pushToks (X : List Tok) (l : TkLoop) : TkLoop := { l with toks := l.toks ++ X }

/-- `tail` reads the loop state only through the bar size and the non-clock part of the carried state -/
theorem tail_congr (c : Cfg) (l l0 : TkLoop) (m : Msg) (restP : List Msg) (a b d : Int) (T : List Tok)
    (hc : l.capTotal = l0.capTotal)
    (h1 : l.st.tsNum = l0.st.tsNum) (h2 : l.st.tsDen = l0.st.tsDen) (h3 : l.st.prvTrack = l0.st.prvTrack)
    (h4 : l.st.prvValue = l0.st.prvValue) (h5 : l.st.prvVel = l0.st.prvVel) :
    Tokenise.tail c l m restP a b d T = Tokenise.tail c l0 m restP a b d T := by
  unfold Tokenise.tail
  simp only [hc, h1, h2, h3, h4, h5]

theorem tail_acc (c : Cfg) (l l' : TkLoop) (m : Msg) (restP : List Msg) (a b d : Int) (T X : List Tok)
    (h : Tokenise.tail c l m restP a b d T = .ok l') :
    Tokenise.tail c l m restP a b d (T ++ X) = .ok (pushToks X l') := by
  unfold Tokenise.tail at h ⊢
  simp only at h ⊢
  split at h
  · split at h
    · cases h
    · split at h
      · cases h
      · split at h
        · cases h
        · rename_i hp
          split at h
          · cases h
          · rename_i hv
            cases h
            rw [if_neg hp, if_neg hv]
            simp [pushToks]
  · split at h
    · rename_i hb
      cases h; rw [if_pos hb]; rfl
    · rename_i hb
      rw [if_neg hb]
      split at h
      · cases h
      · rename_i hd
        split at h
        · cases h
        · rename_i hr
          cases h
          rw [if_neg hd, if_neg hr]; rfl
  · cases h; rfl

theorem tail_shift (c : Cfg) (l : TkLoop) (m : Msg) (restP : List Msg) (a b d s : Int) (T : List Tok) :
    Tokenise.tail c l { m with time := m.time + s } (restP.map (fun m => { m with time := m.time + s })) a b d T
      = Tokenise.tail c l m restP a b d T := by
  unfold Tokenise.tail
  cases restP with
  | nil => rfl
  | cons off r =>
    have : off.time + s - (m.time + s) = off.time - m.time := by omega
    simp only [List.map_cons, this]


theorem tokEvent_acc (c : Cfg) (sh : Int) (l l' : TkLoop) (ev : Int × Pairing) (X : List Tok)
    (h : tokEvent c sh l ev = .ok l') : tokEvent c sh (pushToks X l) ev = .ok (pushToks X l') := by
  rw [Tokenise.tokEvent_eq] at h ⊢
  split at h
  · cases h
  · rename_i m restP hev
    have hst : (pushToks X l).st = l.st := rfl
    have hcp : (pushToks X l).capTotal = l.capTotal := rfl
    have htk : (pushToks X l).toks = l.toks ++ X := rfl
    rw [hst, hcp, htk]
    split at h
    · rename_i hne
      rw [if_pos hne]
      split at h
      · cases h
      · rename_i v hv
        rw [applyRest_acc _ _ _ _ _ _ X v hv]
        simp only
        rw [tail_congr c (pushToks X l) l m restP _ _ _ _ rfl rfl rfl rfl rfl rfl]
        exact tail_acc c l l' m restP _ _ _ _ X h
    · rename_i hne
      rw [if_neg hne]
      rw [tail_congr c (pushToks X l) l m restP _ _ _ _ rfl rfl rfl rfl rfl rfl]
      exact tail_acc c l l' m restP _ _ _ _ X h

theorem fold_acc (c : Cfg) (sh : Int) (evs : List (Int × Pairing)) (l l' : TkLoop) (X : List Tok)
    (h : tokeniseCore.foldlM'' (tokEvent c sh) l evs = .ok l') :
    tokeniseCore.foldlM'' (tokEvent c sh) (pushToks X l) evs = .ok (pushToks X l') := by
  induction evs generalizing l with
  | nil => simp only [tokeniseCore.foldlM''] at h ⊢; cases h; rfl
  | cons ev evs ih =>
    simp only [tokeniseCore.foldlM''] at h ⊢
    split at h
    · rename_i l1 h1
      rw [tokEvent_acc c sh l l1 ev X h1]
      exact ih l1 h
    · cases h

theorem tokEvent_shift (c : Cfg) (sh s : Int) (l : TkLoop) (ev : Int × Pairing) :
    tokEvent c sh l (ev.1, ev.2.map (fun m => { m with time := m.time + s })) = tokEvent c (sh + s) l ev := by
  rw [Tokenise.tokEvent_eq, Tokenise.tokEvent_eq]
  obtain ⟨e1, e2⟩ := ev
  cases e2 with
  | nil => rfl
  | cons m restP =>
    simp only [List.map_cons]
    have e : m.time + s + sh = m.time + (sh + s) := by omega
    simp only [e, tail_shift]

theorem fold_tok_shift (c : Cfg) (sh s : Int) (evs : List (Int × Pairing)) (l : TkLoop) :
    tokeniseCore.foldlM'' (tokEvent c sh) l (shiftEvs s evs) = tokeniseCore.foldlM'' (tokEvent c (sh + s)) l evs := by
  induction evs generalizing l with
  | nil => rfl
  | cons ev evs ih =>
    simp only [shiftEvs, List.map_cons, tokeniseCore.foldlM''] at ih ⊢
    rw [tokEvent_shift]
    split
    · exact ih _
    · rfl

theorem foldlM_append (c : Cfg) (sh : Int) (x y : List (Int × Pairing)) (l l1 : TkLoop)
    (h : tokeniseCore.foldlM'' (tokEvent c sh) l x = .ok l1) :
    tokeniseCore.foldlM'' (tokEvent c sh) l (x ++ y) = tokeniseCore.foldlM'' (tokEvent c sh) l1 y := by
  induction x generalizing l with
  | nil => simp only [tokeniseCore.foldlM''] at h; cases h; rfl
  | cons ev x ih =>
    simp only [List.cons_append, tokeniseCore.foldlM''] at h ⊢
    split at h
    · exact ih _ h
    · cases h

/-- the end of `tokenise`: close the bar in progress, return tokens and state -/
def finish (c : Cfg) (l : TkLoop) : Except Err (List Tok × TokSt) :=
  if l.st.curTimeBar > 0 && l.st.capRem > 0 then
    match applyRest c l.capTotal (l.st.capRem.toNat + 1) l.st.capRem (l.st.curTime, l.st.curTimeBar, l.st.capRem) l.toks with
    | .error e => .error e
    | .ok v => .ok (v.2.reverse, { l.st with curTime := v.1.1, curTimeBar := v.1.2.1, capRem := v.1.2.2 })
  else .ok (l.toks.reverse, l.st)

theorem tokeniseCore_eq (c : Cfg) (st : TokSt) (evs : List (Int × Pairing)) :
    tokeniseCore c st evs =
      match tokeniseCore.foldlM'' (tokEvent c st.curTime) { st := st, capTotal := c.capacity st.tsNum st.tsDen } evs with
      | .error e => .error e
      | .ok l => finish c l := by
  unfold tokeniseCore finish
  simp only [bind, Except.bind]
  generalize tokeniseCore.foldlM'' (tokEvent c st.curTime) { st := st, capTotal := c.capacity st.tsNum st.tsDen } evs = R
  cases R with
  | error e => rfl
  | ok l =>
    simp only
    by_cases hc : (decide (l.st.curTimeBar > 0) && decide (l.st.capRem > 0)) = true
    · rw [if_pos hc, if_pos hc]
      split <;> simp only [*]
    · rw [if_neg hc, if_neg hc]

theorem finish_acc (c : Cfg) (l : TkLoop) (X : List Tok) (r : List Tok × TokSt) (h : finish c l = .ok r) :
    finish c (pushToks X l) = .ok (X.reverse ++ r.1, r.2) := by
  unfold finish at h ⊢
  have hst : (pushToks X l).st = l.st := rfl
  have hcp : (pushToks X l).capTotal = l.capTotal := rfl
  have htk : (pushToks X l).toks = l.toks ++ X := rfl
  rw [hst, hcp, htk]
  split at h
  · rename_i hc
    rw [if_pos hc]
    split at h
    · cases h
    · rename_i v hv
      rw [applyRest_acc _ _ _ _ _ _ X v hv]
      cases h
      simp
  · rename_i hc
    rw [if_neg hc]
    cases h
    simp

theorem applyRest_cur (c : Cfg) (cap : Int) (fuel : Nat) (buf : Int) (s : Int × Int × Int) (acc : List Tok)
    (r : (Int × Int × Int) × List Tok) (h : applyRest c cap fuel buf s acc = .ok r) (hb : 0 ≤ buf) :
    r.1.1 = s.1 + buf := by
  induction fuel generalizing buf s acc with
  | zero =>
    by_cases hb0 : buf ≤ 0
    · rw [Sim.applyRest_nonpos _ _ _ _ _ _ hb0] at h
      cases h; simp only; omega
    · simp only [applyRest] at h
      rw [if_pos (by omega)] at h; cases h
  | succ fuel ih =>
    by_cases hb0 : buf ≤ 0
    · rw [Sim.applyRest_nonpos _ _ _ _ _ _ hb0] at h
      cases h; simp only; omega
    · obtain ⟨cur, bar, rem⟩ := s
      rw [applyRest_pos _ _ _ _ _ _ _ _ (by omega)] at h
      split at h
      · cases h
      · rename_i v hv
        have := (chooseStep_spec c _ v hv).2
        split at h
        · have := ih _ _ _ h (by omega); simp only at this ⊢; omega
        · have := ih _ _ _ h (by omega); simp only at this ⊢; omega

theorem tail_cap (c : Cfg) (l l' : TkLoop) (m : Msg) (restP : List Msg) (a b d : Int) (T : List Tok)
    (h : Tokenise.tail c l m restP a b d T = .ok l') (hc : l.capTotal = c.capacity l.st.tsNum l.st.tsDen) :
    l'.capTotal = c.capacity l'.st.tsNum l'.st.tsDen := by
  unfold Tokenise.tail at h
  simp only at h
  split at h
  · split at h
    · cases h
    · split at h
      · cases h
      · split at h
        · cases h
        · split at h
          · cases h
          · cases h; exact hc
  · split at h
    · cases h; exact hc
    · split at h
      · cases h
      · split at h
        · cases h
        · cases h; rfl
  · cases h; exact hc

theorem fold_cap (c : Cfg) (sh : Int) (evs : List (Int × Pairing)) (l l' : TkLoop)
    (h : tokeniseCore.foldlM'' (tokEvent c sh) l evs = .ok l') (hc : l.capTotal = c.capacity l.st.tsNum l.st.tsDen) :
    l'.capTotal = c.capacity l'.st.tsNum l'.st.tsDen := by
  induction evs generalizing l with
  | nil => simp only [tokeniseCore.foldlM''] at h; cases h; exact hc
  | cons ev evs ih =>
    simp only [tokeniseCore.foldlM''] at h
    split at h
    · rename_i l1 h1
      refine ih l1 h ?_
      rw [Tokenise.tokEvent_eq] at h1
      split at h1
      · cases h1
      · split at h1
        · split at h1
          · cases h1
          · exact tail_cap c l l1 _ _ _ _ _ _ h1 hc
        · exact tail_cap c l l1 _ _ _ _ _ _ h1 hc
    · cases h

/-- **resuming.**  Going on with the loop from the state in which a call stopped gives what a second call from the
    returned state gives, with the first call's tokens in front. -/
theorem resume (c : Cfg) (hs : ∀ s ∈ c.steps, 0 < s) (l1 : TkLoop) (toks1 : List Tok) (st1 : TokSt)
    (hcap : l1.capTotal = c.capacity l1.st.tsNum l1.st.tsDen)
    (hfin : finish c l1 = .ok (toks1, st1)) (hbar1 : st1.curTimeBar = 0)
    (evs2 : List (Int × Pairing)) (hnb : ∀ ev ∈ evs2, ∀ m ∈ ev.2.head?, 0 ≤ m.time)
    (l2 : TkLoop) (r2 : List Tok × TokSt)
    (hfold : tokeniseCore.foldlM'' (tokEvent c st1.curTime) { st := st1, capTotal := c.capacity st1.tsNum st1.tsDen } evs2 = .ok l2)
    (hfin2 : finish c l2 = .ok r2) :
    ∃ l2', tokeniseCore.foldlM'' (tokEvent c st1.curTime) l1 evs2 = .ok l2' ∧ finish c l2' = .ok (toks1 ++ r2.1, r2.2) := by
  have hfin0 := hfin
  unfold finish at hfin
  split at hfin
  · rename_i hcnd
    split at hfin
    · cases hfin
    · rename_i v hv
      simp only [Except.ok.injEq, Prod.mk.injEq] at hfin
      obtain ⟨ht1, hst1⟩ := hfin
      subst ht1
      have hcnd' : l1.st.curTimeBar > 0 ∧ l1.st.capRem > 0 := by simpa using hcnd
      have hcur := applyRest_cur _ _ _ _ _ _ _ hv (by omega)
      simp only at hcur
      have hst1c : st1.curTime = v.1.1 := by rw [← hst1]
      have hst1b : st1.curTimeBar = v.1.2.1 := by rw [← hst1]
      have hst1r : st1.capRem = v.1.2.2 := by rw [← hst1]
      have hclk : (st1.curTime, st1.curTimeBar, st1.capRem) = v.1 := by rw [hst1c, hst1b, hst1r]
      have hcap2 : c.capacity st1.tsNum st1.tsDen = l1.capTotal := by rw [hcap, ← hst1]
      cases evs2 with
      | nil =>
        simp only [tokeniseCore.foldlM''] at hfold
        cases hfold
        unfold finish at hfin2
        rw [if_neg (by simp [hbar1])] at hfin2
        cases hfin2
        exact ⟨l1, rfl, by simpa using hfin0⟩
      | cons ev rest =>
        simp only [tokeniseCore.foldlM''] at hfold
        split at hfold
        · rename_i l2a h2a
          have hclaim : tokEvent c st1.curTime l1 ev = .ok (pushToks v.2 l2a) := by
            rw [Tokenise.tokEvent_eq] at h2a ⊢
            split at h2a
            · cases h2a
            · rename_i m restP hev
              have hm0 := hnb ev (by simp) m (by simp [hev])
              simp only at h2a ⊢
              have hne1 : (l1.st.curTime != m.time + st1.curTime) = true := by
                simp only [bne_iff_ne, ne_eq]; omega
              rw [if_pos hne1]
              have hL2 : ∀ (a b d : Int) (T : List Tok),
                  Tokenise.tail c l1 m restP a b d T
                    = Tokenise.tail c { st := st1, capTotal := c.capacity st1.tsNum st1.tsDen } m restP a b d T := by
                intro a b d T
                refine tail_congr c _ _ m restP a b d T hcap2.symm ?_ ?_ ?_ ?_ ?_ <;> rw [← hst1]
              split at h2a
              · -- the second call rests before its first event
                split at h2a
                · cases h2a
                · rename_i w hw
                  have e1 : m.time + st1.curTime - st1.curTime = m.time := by omega
                  rw [e1, hclk, hcap2] at hw
                  have hw' := applyRest_acc _ _ _ _ _ [] v.2 w hw
                  rw [List.nil_append] at hw'
                  have e2 : m.time + st1.curTime - l1.st.curTime = l1.st.capRem + m.time := by omega
                  rw [e2]
                  rw [applyRest_resume c hs l1.capTotal _ _ _ _ _ _ m.time _ _ _ _ hv hcnd'.2 hm0 hw' (by omega)]
                  simp only
                  rw [hL2]
                  exact tail_acc c _ l2a m restP _ _ _ _ v.2 h2a
              · -- its first event is on the bar line
                rename_i heq
                have hm00 : m.time = 0 := by
                  have : ¬ (st1.curTime ≠ m.time + st1.curTime) := by simpa using heq
                  omega
                have e2 : m.time + st1.curTime - l1.st.curTime = l1.st.capRem := by omega
                rw [e2, hv]
                simp only
                rw [hL2, ← hclk]
                have := tail_acc c _ l2a m restP _ _ _ [] v.2 h2a
                rw [List.nil_append] at this
                exact this
          obtain ⟨r2a, r2b⟩ := r2
          refine ⟨pushToks v.2 l2, ?_, ?_⟩
          · simp only [tokeniseCore.foldlM'', hclaim]
            exact fold_acc c _ rest l2a l2 v.2 hfold
          · exact finish_acc c l2 v.2 _ hfin2
        · cases hfold
  · rename_i hcnd
    simp only [Except.ok.injEq, Prod.mk.injEq] at hfin
    obtain ⟨ht1, hst1⟩ := hfin
    subst ht1 hst1
    have hl1 : l1 = pushToks l1.toks { st := l1.st, capTotal := c.capacity l1.st.tsNum l1.st.tsDen } := by
      obtain ⟨s, ct, tk⟩ := l1
      simp only [pushToks, List.nil_append] at hcap ⊢
      rw [hcap]
    have h1 := fold_acc c _ evs2 _ l2 l1.toks hfold
    rw [← hl1] at h1
    obtain ⟨r2a, r2b⟩ := r2
    exact ⟨pushToks l1.toks l2, h1, finish_acc c l2 l1.toks _ hfin2⟩

/-- **two calls, one call, the same tokens.**  If a call returns on a bar line and a second call from the returned
    state is accepted, then the single call on the first events followed by the second events — shifted by the
    time the first call advanced the clock — is accepted, returns the concatenation of the two token lists, and
    ends in the second call's state. -/
theorem core_append (c : Cfg) (hs : ∀ s ∈ c.steps, 0 < s) (st st1 st2 : TokSt) (evs1 evs2 : List (Int × Pairing))
    (toks1 toks2 : List Tok)
    (h1 : tokeniseCore c st evs1 = .ok (toks1, st1)) (hbar1 : st1.curTimeBar = 0)
    (hnb : ∀ ev ∈ evs2, ∀ m ∈ ev.2.head?, 0 ≤ m.time)
    (h2 : tokeniseCore c st1 evs2 = .ok (toks2, st2)) :
    tokeniseCore c st (evs1 ++ shiftEvs (st1.curTime - st.curTime) evs2) = .ok (toks1 ++ toks2, st2) := by
  rw [tokeniseCore_eq] at h1 h2 ⊢
  split at h1
  · cases h1
  · rename_i l1 hl1
    split at h2
    · cases h2
    · rename_i l2 hl2
      have hcap := fold_cap c _ evs1 _ l1 hl1 rfl
      obtain ⟨l2', a, b⟩ := resume c hs l1 toks1 st1 hcap h1 hbar1 evs2 hnb l2 _ hl2 h2
      rw [foldlM_append c _ evs1 _ _ l1 hl1, fold_tok_shift]
      have e : st.curTime + (st1.curTime - st.curTime) = st1.curTime := by omega
      rw [e, a]
      exact b

/-! ## any number of chunks -/

theorem shiftEvs_nil (s : Int) : shiftEvs s [] = [] := rfl

theorem layBars_append (c : Cfg) (x y : List BarEv) :
    layBars c (x ++ y) = layBars c x ++ shiftEvs (chunkLen c x) (layBars c y) := by
  induction x with
  | nil => simp [layBars, chunkLen, shiftEvs_zero]
  | cons b xs ih =>
    simp only [List.cons_append, layBars, chunkLen, ih, shiftEvs_append, shiftEvs_shiftEvs, List.append_assoc]
    rw [Int.add_comm]

/-- laying the chunks at the cumulative chunk lengths is laying all bars at the cumulative bar lengths -/
theorem joinChunks_flatten (c : Cfg) (chunks : List (List BarEv)) :
    joinChunks c chunks = layBars c chunks.flatten := by
  induction chunks with
  | nil => rfl
  | cons ch rest ih => simp only [joinChunks, List.flatten_cons, layBars_append, ih]

theorem barsOk_append (c : Cfg) (C : Int) (x y : List BarEv) (h : BarsOk c C (x ++ y)) :
    BarsOk c C x ∧ BarsOk c (lastCap c C x) y := by
  induction x generalizing C with
  | nil => exact ⟨trivial, h⟩
  | cons b xs ih =>
    obtain ⟨h1, h2⟩ := h
    obtain ⟨i1, i2⟩ := ih _ h2
    exact ⟨⟨h1, i1⟩, i2⟩

theorem tokeniseCore_nil (c : Cfg) (st : TokSt) (hbar : st.curTimeBar = 0) : tokeniseCore c st [] = .ok ([], st) := by
  rw [tokeniseCore_eq]
  simp only [tokeniseCore.foldlM'', finish]
  rw [if_neg (by simp [hbar])]
  rfl

/-- **threading the state through whole-bar chunks.**  If no chunk but the last is in the D19 class, the events
    `runChunks` lays out with the implementation's clock are the chunks laid at their cumulative lengths, and the
    single call on them is accepted and returns the concatenated tokens and the last call's state. -/
theorem run_single (c : Cfg) (hc : CfgOk c) (st0 : TokSt) (chunks : List (List BarEv)) :
    ∀ (st st' : TokSt) (toks : List Tok) (whole : List (Int × Pairing)),
      OnLine c st → BarsOk c (c.capacity st.tsNum st.tsDen) chunks.flatten →
      (∀ ch ∈ chunks.dropLast, ¬ Stalls c ch) →
      runChunks c st0 st (chunks.map (layBars c)) = .ok (toks, st', whole) →
      whole = shiftEvs (st.curTime - st0.curTime) (joinChunks c chunks)
        ∧ tokeniseCore c st (joinChunks c chunks) = .ok (toks, st') ∧ OnLine c st' := by
  induction chunks with
  | nil =>
    intro st st' toks whole hst _ _ hrun
    simp only [List.map_nil, runChunks, Except.ok.injEq, Prod.mk.injEq] at hrun
    obtain ⟨rfl, rfl, rfl⟩ := hrun
    exact ⟨rfl, tokeniseCore_nil c _ hst.bar, hst⟩
  | cons ch rest ih =>
    intro st st' toks whole hst hok hns hrun
    simp only [List.map_cons, runChunks] at hrun
    split at hrun
    · cases hrun
    · rename_i toks1 st1 h1
      split at hrun
      · cases hrun
      · rename_i toks' st2 evs' h2
        simp only [Except.ok.injEq, Prod.mk.injEq] at hrun
        obtain ⟨rfl, rfl, rfl⟩ := hrun
        rw [List.flatten_cons] at hok
        obtain ⟨hok1, hok2⟩ := barsOk_append c _ ch rest.flatten hok
        obtain ⟨e1, e2, e3, _, _⟩ := call_end c hc st st1 ch toks1 hst hok1 h1
        rw [← e2] at hok2
        have hns' : ∀ ch' ∈ rest.dropLast, ¬ Stalls c ch' := by
          intro ch' hch'
          cases rest with
          | nil => simp at hch'
          | cons r rs => exact hns ch' (by rw [List.dropLast_cons_cons]; exact List.mem_cons_of_mem _ hch')
        obtain ⟨i1, i2, i3⟩ := ih st1 st2 toks' evs' e1 hok2 hns' h2
        have hlaid := layBars_ok c _ rest.flatten hok2
        rw [← joinChunks_flatten] at hlaid
        have happ := core_append c hc.steps_pos st st1 st2 (layBars c ch) (joinChunks c rest) toks1 toks' h1 e1.bar
          (fun ev hev m hm => (hlaid.range ev hev m hm).1) i2
        -- the shift by the implementation's clock is the shift by the chunk's length
        have hshift : shiftEvs (st1.curTime - st.curTime) (joinChunks c rest) = shiftEvs (chunkLen c ch) (joinChunks c rest) := by
          cases rest with
          | nil => rfl
          | cons r rs =>
            have := e3 (hns ch (by rw [List.dropLast_cons_cons]; exact List.mem_cons_self))
            rw [this]
            have : st.curTime + chunkLen c ch - st.curTime = chunkLen c ch := by omega
            rw [this]
        rw [hshift] at happ
        refine ⟨?_, happ, i3⟩
        rw [i1]
        simp only [joinChunks, shiftEvs_append]
        rw [← hshift, shiftEvs_shiftEvs]
        have : st1.curTime - st.curTime + (st.curTime - st0.curTime) = st1.curTime - st0.curTime := by omega
        rw [this]

end SCoda.ChunksL
