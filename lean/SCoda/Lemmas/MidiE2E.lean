/-
  Helper lemmas for `Props/C12.lean` (the MIDI loader end to end):
  * rounding is monotone; the per-track message lists; `insort` appends on sorted input;
  * `CG` / `CS`: a permutation-invariant, counting reading of "WF + positive durations" and of the
    sounding relation, stable under `toRel`, `normalise`, `toAbs`, `sortAbs`, merge and `insort`;
  * `convert` in closed form (slots, groups, meta target) when every track index is listed once;
  * save then load at the library's resolution; where signatures can be and where they come from.
-/
import SCoda.Props.C13
import SCoda.Props.C15
import SCoda.Props.C07
import SCoda.Props.C04
import SCoda.Props.C04b
namespace SCoda.E2E
open SCoda SCoda.MidiL SCoda.MergeL SCoda.C13

/-! ## rounding -/

theorem round_mono {q q' : Rat} (h : q ≤ q') : roundHalfEven q ≤ roundHalfEven q' := by
  have h1 := Rat.floor_le q
  have h2 := Rat.lt_floor_add_one q
  have h1' := Rat.floor_le q'
  have h2' := Rat.lt_floor_add_one q'
  have h3 : ((q.floor + 1 : Int) : Rat) = (q.floor : Rat) + 1 := by simp [Rat.intCast_add]
  have h3' : ((q'.floor + 1 : Int) : Rat) = (q'.floor : Rat) + 1 := by simp [Rat.intCast_add]
  rw [h3] at h2
  rw [h3'] at h2'
  have hm := Rat.floor_monotone h
  rcases Int.lt_or_eq_of_le hm with hlt | heq
  · -- different floors
    have ha : roundHalfEven q ≤ q.floor + 1 := by
      unfold roundHalfEven; simp only; repeat' split
      all_goals omega
    have hb : q'.floor ≤ roundHalfEven q' := by
      unfold roundHalfEven; simp only; repeat' split
      all_goals omega
    omega
  · unfold roundHalfEven
    simp only
    rw [← heq]
    have hd : q - (q.floor : Rat) ≤ q' - (q.floor : Rat) := by grind
    repeat' split
    all_goals first | omega | (exfalso; grind)

theorem round_nonneg {q : Rat} (h : 0 ≤ q) : 0 ≤ roundHalfEven q := by
  have := round_mono h
  rw [show (0 : Rat) = ((0 : Int) : Rat) by rfl, round_int] at this
  exact this

theorem exactPos_mono (ppqn filePpq : Int) (hp : 0 < ppqn) (hf : 0 < filePpq) {t t' : Int} (h : t ≤ t') :
    exactPos ppqn filePpq t ≤ exactPos ppqn filePpq t' := by
  unfold exactPos
  have h1 : (0 : Rat) < (ppqn : Rat) := by exact_mod_cast hp
  have h2 : (0 : Rat) < (filePpq : Rat) := by exact_mod_cast hf
  have h3 : (t : Rat) ≤ (t' : Rat) := by exact_mod_cast h
  rw [Rat.div_def, Rat.div_def]
  apply Rat.mul_le_mul_of_nonneg_right
  · exact Rat.mul_le_mul_of_nonneg_right h3 (Rat.le_of_lt h1)
  · exact Rat.le_of_lt (Rat.inv_pos.2 h2)


/-! ## the messages of one track -/

/-- the note / program-change messages of a grouped track (`C13.trackMsgs` of `Props/C12.lean`) -/
def curMsgs (ppqn filePpq : Int) : Int → List MidiEv → List Msg
  | _, [] => []
  | ticks, e :: es =>
    let t := ticks + e.time
    match convEvent true e (roundHalfEven (exactPos ppqn filePpq t)) with
    | some (false, m) => m :: curMsgs ppqn filePpq t es
    | _ => curMsgs ppqn filePpq t es

/-- the messages a considered track sends to the meta sequence (`C13.metaMsgs`) -/
def metMsgs (ppqn filePpq : Int) (inGroup : Bool) : Int → List MidiEv → List Msg
  | _, [] => []
  | ticks, e :: es =>
    let t := ticks + e.time
    match convEvent inGroup e (roundHalfEven (exactPos ppqn filePpq t)) with
    | some (true, m) => m :: metMsgs ppqn filePpq inGroup t es
    | _ => metMsgs ppqn filePpq inGroup t es

theorem convEvent_cur (b : Bool) (e : MidiEv) (rt : Int) (m : Msg) (h : convEvent b e rt = some (false, m)) :
    m.time = rt ∧ (m.ty = .noteOn ∨ m.ty = .noteOff ∨ m.ty = .programChange) := by
  refine ⟨convEvent_time _ _ _ _ _ h, ?_⟩
  unfold convEvent at h
  cases hty : e.ty <;> simp only [hty] at h <;> (try cases b) <;>
    simp [Msg.mkOn, Msg.mkOff, Msg.mkTimeSig] at h <;> (subst h; simp)

theorem convEvent_meta (b : Bool) (e : MidiEv) (rt : Int) (m : Msg) (h : convEvent b e rt = some (true, m)) :
    m.time = rt ∧ (m.ty = .timeSignature ∨ m.ty = .keySignature ∨ m.ty = .controlChange) := by
  refine ⟨convEvent_time _ _ _ _ _ h, ?_⟩
  unfold convEvent at h
  cases hty : e.ty <;> simp only [hty] at h <;> (try cases b) <;>
    simp [Msg.mkOn, Msg.mkOff, Msg.mkTimeSig] at h <;> (subst h; simp)

theorem curMsgs_bounds (ppqn filePpq : Int) (hp : 0 < ppqn) (hf : 0 < filePpq) (evs : List MidiEv) :
    ∀ ticks, (∀ e ∈ evs, 0 ≤ e.time) →
      Sorted (curMsgs ppqn filePpq ticks evs) ∧
      ∀ m ∈ curMsgs ppqn filePpq ticks evs, roundHalfEven (exactPos ppqn filePpq ticks) ≤ m.time
        ∧ (m.ty = .noteOn ∨ m.ty = .noteOff ∨ m.ty = .programChange) := by
  induction evs with
  | nil => intro ticks _; simp [curMsgs]
  | cons e es ih =>
    intro ticks hd
    have he := hd e List.mem_cons_self
    obtain ⟨ih1, ih2⟩ := ih (ticks + e.time) (fun x hx => hd x (List.mem_cons_of_mem _ hx))
    have hmono : roundHalfEven (exactPos ppqn filePpq ticks) ≤ roundHalfEven (exactPos ppqn filePpq (ticks + e.time)) :=
      round_mono (exactPos_mono ppqn filePpq hp hf (by omega))
    simp only [curMsgs]
    split
    · rename_i m hm
      obtain ⟨hm1, hm2⟩ := convEvent_cur _ _ _ _ hm
      refine ⟨List.pairwise_cons.2 ⟨?_, ih1⟩, ?_⟩
      · intro x hx; have := (ih2 x hx).1; omega
      · intro x hx
        rcases List.mem_cons.1 hx with rfl | hx
        · exact ⟨by omega, hm2⟩
        · exact ⟨by have := (ih2 x hx).1; omega, (ih2 x hx).2⟩
    · exact ⟨ih1, fun x hx => ⟨by have := (ih2 x hx).1; omega, (ih2 x hx).2⟩⟩

theorem foldl_insort_sorted (l : List Msg) : ∀ acc, Sorted (acc ++ l) → l.foldl insort acc = acc ++ l := by
  induction l with
  | nil => intro acc _; simp
  | cons m ms ih =>
    intro acc hs
    have h1 : insort acc m = acc ++ [m] := by
      apply insort_of_ge
      intro y hy
      exact (List.pairwise_append.1 hs).2.2 y hy m List.mem_cons_self
    rw [List.foldl_cons, h1, ih _ (by simpa using hs)]
    simp

theorem curMsgs_okAbs (ppqn filePpq : Int) (hp : 0 < ppqn) (hf : 0 < filePpq) (ticks : Int) (ht : 0 ≤ ticks)
    (evs : List MidiEv) (hd : ∀ e ∈ evs, 0 ≤ e.time) :
    OkAbs (curMsgs ppqn filePpq ticks evs)
      ∧ (curMsgs ppqn filePpq ticks evs).foldl insort [] = curMsgs ppqn filePpq ticks evs := by
  obtain ⟨h1, h2⟩ := curMsgs_bounds ppqn filePpq hp hf evs ticks hd
  have h0 : 0 ≤ roundHalfEven (exactPos ppqn filePpq ticks) := by
    apply round_nonneg
    have := exactPos_mono ppqn filePpq hp hf ht
    simpa [exactPos, Rat.div_def] using this
  refine ⟨⟨(timeSorted_iff_pairwise _).2 h1, ?_, ?_⟩, ?_⟩
  · intro m hm; have := (h2 m hm).1; omega
  · intro m hm hw; have := (h2 m hm).2; simp [hw] at this
  · simpa using foldl_insort_sorted _ [] (by simpa using h1)


/-! ## counting: a permutation-invariant reading of "every note-off closes an earlier note-on" -/

/-- per key: up to every tick there are at most as many note-offs as note-ons strictly before it,
    and the totals agree.  Invariant under permutation and under removing non-note messages. -/
def CG (k : Int × Int) (E : List Msg) : Prop :=
  (∀ s, offs k (upTo s E) ≤ ons k (before s E)) ∧ ons k E = offs k E

/-- sounding, by counting -/
def CS (k : Int × Int) (t : Int) (E : List Msg) : Prop := offs k (upTo t E) < ons k (upTo t E)

theorem cg_perm {k : Int × Int} {E E' : List Msg} (hp : E.Perm E') (h : CG k E) : CG k E' := by
  refine ⟨fun s => ?_, ?_⟩
  · have e1 : offs k (upTo s E) = offs k (upTo s E') := offs_perm k (hp.filter _)
    have e2 : ons k (before s E) = ons k (before s E') := ons_perm k (hp.filter _)
    rw [← e1, ← e2]; exact h.1 s
  · rw [← offs_perm k hp, ← ons_perm k hp]; exact h.2

theorem cs_perm {k : Int × Int} {t : Int} {E E' : List Msg} (hp : E.Perm E') : CS k t E ↔ CS k t E' := by
  have e1 : offs k (upTo t E) = offs k (upTo t E') := offs_perm k (hp.filter _)
  have e2 : ons k (upTo t E) = ons k (upTo t E') := ons_perm k (hp.filter _)
  unfold CS
  rw [e1, e2]

theorem ons_filter (k : Int × Int) (q : Msg → Bool)
    (hq : ∀ m : Msg, m.nkey = k → m.ty = .noteOn ∨ m.ty = .noteOff → q m = true)
    (l : List Msg) : ons k (l.filter q) = ons k l := by
  induction l with
  | nil => rfl
  | cons m ms ih =>
    by_cases hm : q m = true
    · rw [List.filter_cons_of_pos hm]
      by_cases h : m.nkey = k ∧ m.ty = .noteOn
      · rw [ons_cons_on h, ons_cons_on h, ih]
      · rw [ons_cons_other h, ons_cons_other h, ih]
    · rw [List.filter_cons_of_neg hm]
      have h : ¬(m.nkey = k ∧ m.ty = .noteOn) := fun h => hm (hq m h.1 (Or.inl h.2))
      rw [ons_cons_other h, ih]

theorem offs_filter (k : Int × Int) (q : Msg → Bool)
    (hq : ∀ m : Msg, m.nkey = k → m.ty = .noteOn ∨ m.ty = .noteOff → q m = true)
    (l : List Msg) : offs k (l.filter q) = offs k l := by
  induction l with
  | nil => rfl
  | cons m ms ih =>
    by_cases hm : q m = true
    · rw [List.filter_cons_of_pos hm]
      by_cases h : m.nkey = k ∧ m.ty = .noteOff
      · rw [offs_cons_off h, offs_cons_off h, ih]
      · rw [offs_cons_other h, offs_cons_other h, ih]
    · rw [List.filter_cons_of_neg hm]
      have h : ¬(m.nkey = k ∧ m.ty = .noteOff) := fun h => hm (hq m h.1 (Or.inr h.2))
      rw [offs_cons_other h, ih]

theorem upTo_filter (t : Int) (q : Msg → Bool) (l : List Msg) : upTo t (l.filter q) = (upTo t l).filter q := by
  simp only [upTo, List.filter_filter]
  congr 1; funext m; exact Bool.and_comm _ _

theorem before_filter (t : Int) (q : Msg → Bool) (l : List Msg) : before t (l.filter q) = (before t l).filter q := by
  simp only [before, List.filter_filter]
  congr 1; funext m; exact Bool.and_comm _ _

theorem cg_filter (k : Int × Int) (q : Msg → Bool)
    (hq : ∀ m : Msg, m.nkey = k → m.ty = .noteOn ∨ m.ty = .noteOff → q m = true)
    (l : List Msg) : CG k (l.filter q) ↔ CG k l := by
  unfold CG
  simp only [upTo_filter, before_filter, ons_filter k q hq, offs_filter k q hq]

theorem cs_filter (k : Int × Int) (t : Int) (q : Msg → Bool)
    (hq : ∀ m : Msg, m.nkey = k → m.ty = .noteOn ∨ m.ty = .noteOff → q m = true) (l : List Msg) :
    CS k t (l.filter q) ↔ CS k t l := by
  unfold CS
  simp only [upTo_filter, ons_filter k q hq, offs_filter k q hq]

theorem notInternal_notes (m : Msg) (h : m.ty = .noteOn ∨ m.ty = .noteOff) : (m.ty != .internal) = true := by
  rcases h with h | h <;> simp [h]

theorem cg_eventsAbs (k : Int × Int) (l : List Msg) : CG k (eventsAbs l) ↔ CG k l :=
  cg_filter k _ (fun m _ => notInternal_notes m) l

theorem cs_eventsAbs (k : Int × Int) (t : Int) (l : List Msg) : CS k t (eventsAbs l) ↔ CS k t l :=
  cs_filter k t _ (fun m _ => notInternal_notes m) l

theorem cg_of_good (k : Int × Int) (E : List Msg) (h : goodFrom k none E) : CG k E := by
  refine ⟨fun s => ?_, ?_⟩
  · have := good_count k s E none h
    simpa [openBefore] using this
  · have := good_total k E none h
    simpa [openN] using this

theorem cg_of_wf (E : List Msg) (hwf : WF E) (hpos : C15.PosDur E) (k : Int × Int) : CG k E :=
  cg_of_good k E (good_of_wf E hwf hpos k)

theorem ons_before_le (k : Int × Int) (s : Int) (E : List Msg) : ons k (before s E) ≤ ons k (upTo s E) := by
  induction E with
  | nil => simp [before, upTo]
  | cons m ms ih =>
    rw [before_cons, upTo_cons]
    by_cases h : m.nkey = k ∧ m.ty = .noteOn
    · by_cases c1 : m.time < s
      · have c2 : m.time ≤ s := by omega
        simp only [c1, c2, if_true, ons_cons_on h]; omega
      · by_cases c2 : m.time ≤ s
        · simp only [c1, c2, if_true, if_false, ons_cons_on h]; omega
        · simp only [c1, c2, if_false]; exact ih
    · by_cases c1 : m.time < s
      · have c2 : m.time ≤ s := by omega
        simp only [c1, c2, if_true, ons_cons_other h]; exact ih
      · by_cases c2 : m.time ≤ s
        · simp only [c1, c2, if_true, if_false, ons_cons_other h]; exact ih
        · simp only [c1, c2, if_false]; exact ih

theorem cg_le (k : Int × Int) (E : List Msg) (h : CG k E) (s : Int) : offs k (upTo s E) ≤ ons k (upTo s E) :=
  Nat.le_trans (h.1 s) (ons_before_le k s E)

theorem cg_flatten (k : Int × Int) (as : List (List Msg)) (h : ∀ a ∈ as, CG k a) : CG k as.flatten := by
  induction as with
  | nil => exact ⟨fun s => by simp [upTo, before, ons, offs], rfl⟩
  | cons a as ih =>
    have h1 := h a (by simp)
    have h2 := ih (fun b hb => h b (List.mem_cons_of_mem _ hb))
    refine ⟨fun s => ?_, ?_⟩
    · rw [List.flatten_cons, upTo_append, before_append, ons_append, offs_append]
      have := h1.1 s; have := h2.1 s; omega
    · rw [List.flatten_cons, ons_append, offs_append]
      have := h1.2; have := h2.2; omega

theorem cs_flatten (k : Int × Int) (t : Int) (as : List (List Msg)) (h : ∀ a ∈ as, CG k a) :
    CS k t as.flatten ↔ ∃ a ∈ as, CS k t a := by
  induction as with
  | nil => simp [CS, upTo, ons, offs]
  | cons a as ih =>
    have h1 := cg_le k a (h a (by simp)) t
    have h2 := cg_le k _ (cg_flatten k as (fun b hb => h b (List.mem_cons_of_mem _ hb))) t
    have ih' := ih (fun b hb => h b (List.mem_cons_of_mem _ hb))
    simp only [List.mem_cons, exists_eq_or_imp]
    rw [← ih']
    unfold CS
    rw [List.flatten_cons, upTo_append, ons_append, offs_append]
    omega

/-- no prefix of a sorted `CG` list has more note-offs than note-ons -/
theorem no_underflow_cg (k : Int × Int) (U : List Msg) (hs : Sorted U) (h : CG k U) :
    ∀ q, q <+: U → offs k q ≤ 0 + ons k q := by
  intro q hq
  obtain ⟨r, hr⟩ := hq
  rcases List.eq_nil_or_concat q with hnil | ⟨q', x, hx⟩
  · subst hnil; simp [ons, offs]
  · rw [List.concat_eq_append] at hx
    subst hx
    subst hr
    obtain ⟨h1, h2⟩ := prefix_between k q' r x hs
    have h3 := h.1 x.time
    omega

theorem depth_zero_cg (k : Int × Int) (U : List Msg) (hs : Sorted U) (h : CG k U) : depth k U 0 = 0 := by
  have h1 := depth_exact k U 0 (no_underflow_cg k U hs h)
  have := h.2
  omega

theorem depth_upTo_cg (k : Int × Int) (t : Int) (U : List Msg) (hs : Sorted U) (h : CG k U) :
    depth k (upTo t U) 0 + offs k (upTo t U) = ons k (upTo t U) := by
  obtain ⟨A2, hA⟩ := upTo_split t U hs
  have hpre : upTo t U <+: U := ⟨A2, hA.symm⟩
  have h1 := depth_exact k (upTo t U) 0 (fun q hq => no_underflow_cg k U hs h q (hq.trans hpre))
  omega

theorem sounding_cs (k : Int × Int) (t : Int) (U : List Msg) (hs : Sorted U) (h : CG k U) :
    SoundingAt U k t ↔ CS k t U := by
  have := depth_upTo_cg k t U hs h
  unfold SoundingAt CS
  unfold upTo at this ⊢
  omega


/-! ## what `normalise` lets through, by counting -/

theorem fuseK_on0 {k : Int × Int} {m : Msg} (h : m.nkey = k ∧ m.ty = .noteOn) (ms : List Msg) :
    fuseK k 0 (m :: ms) = m :: fuseK k 1 ms := by
  simp [fuseK, h.1, h.2]

theorem fuseK_on {k : Int × Int} {m : Msg} (h : m.nkey = k ∧ m.ty = .noteOn) (ms : List Msg) (d : Nat) (hd : d ≠ 0) :
    fuseK k d (m :: ms) = fuseK k (d + 1) ms := by
  simp [fuseK, h.1, h.2, hd]

theorem fuseK_off1 {k : Int × Int} {m : Msg} (h : m.nkey = k ∧ m.ty = .noteOff) (ms : List Msg) :
    fuseK k 1 (m :: ms) = m :: fuseK k 0 ms := by
  simp [fuseK, h.1, h.2]

theorem fuseK_off {k : Int × Int} {m : Msg} (h : m.nkey = k ∧ m.ty = .noteOff) (ms : List Msg) (d : Nat) (hd : d ≠ 1) :
    fuseK k d (m :: ms) = fuseK k (d - 1) ms := by
  simp [fuseK, h.1, h.2, hd]

theorem fuseK_other {k : Int × Int} {m : Msg} (h1 : ¬(m.nkey = k ∧ m.ty = .noteOn))
    (h2 : ¬(m.nkey = k ∧ m.ty = .noteOff)) (ms : List Msg) (d : Nat) :
    fuseK k d (m :: ms) = fuseK k d ms := by
  by_cases hk : m.nkey = k
  · have h1' : ¬ m.ty = .noteOn := fun h => h1 ⟨hk, h⟩
    have h2' : ¬ m.ty = .noteOff := fun h => h2 ⟨hk, h⟩
    simp [fuseK, hk, h1', h2']
  · simp [fuseK, hk]

theorem fuse_count (k : Int × Int) (l : List Msg) : ∀ d, (∀ p, p <+: l → offs k p ≤ d + ons k p) →
    ons k (fuseK k d l) + min d 1 = offs k (fuseK k d l) + min (depth k l d) 1 := by
  induction l with
  | nil => intro d _; simp [fuseK, depth, ons, offs]
  | cons m ms ih =>
    intro d hp
    rcases cases3 k m with h | h | ⟨h1, h2⟩
    · have hp' : ∀ p, p <+: ms → offs k p ≤ (d + 1) + ons k p := by
        intro p hpp
        have := hp (m :: p) ((List.prefix_cons_inj m).2 hpp)
        rw [ons_cons_on h, offs_cons_on h] at this; omega
      rw [depth_cons_on h]
      by_cases hd : d = 0
      · subst hd
        rw [fuseK_on0 h, ons_cons_on h, offs_cons_on h]
        have := ih 1 hp'; simp only [Nat.zero_add] at this ⊢; omega
      · rw [fuseK_on h ms d hd]
        have := ih (d + 1) hp'; omega
    · have h0 := hp [m] (by simp)
      rw [ons_cons_off h, offs_cons_off h] at h0
      simp only [ons_nil, offs_nil] at h0
      have hp' : ∀ p, p <+: ms → offs k p ≤ (d - 1) + ons k p := by
        intro p hpp
        have := hp (m :: p) ((List.prefix_cons_inj m).2 hpp)
        rw [ons_cons_off h, offs_cons_off h] at this; omega
      rw [depth_cons_off h]
      by_cases hd : d = 1
      · subst hd
        rw [fuseK_off1 h, ons_cons_off h, offs_cons_off h]
        have := ih 0 hp'; simp only [Nat.sub_self] at this ⊢; omega
      · rw [fuseK_off h ms d hd]
        have := ih (d - 1) hp'; omega
    · have hp' : ∀ p, p <+: ms → offs k p ≤ d + ons k p := by
        intro p hpp
        have := hp (m :: p) ((List.prefix_cons_inj m).2 hpp)
        rw [ons_cons_other h1, offs_cons_other h2] at this; exact this
      rw [depth_cons_other h1 h2, fuseK_other h1 h2]
      exact ih d hp'

theorem fuse_offs_bound (k : Int × Int) (C : List Msg) : ∀ d r, r ≤ d → (∀ C', C' <+: C → offs k C' ≤ r) →
    offs k (fuseK k d C) ≤ min r 1 := by
  induction C with
  | nil => intro d r _ _; simp [fuseK, offs]
  | cons m ms ih =>
    intro d r hrd hp
    rcases cases3 k m with h | h | ⟨h1, h2⟩
    · have hp' : ∀ C', C' <+: ms → offs k C' ≤ r := by
        intro p hpp
        have := hp (m :: p) ((List.prefix_cons_inj m).2 hpp)
        rw [offs_cons_on h] at this; exact this
      by_cases hd : d = 0
      · subst hd
        rw [fuseK_on0 h, offs_cons_on h]
        exact ih 1 r (by omega) hp'
      · rw [fuseK_on h ms d hd]
        exact ih (d + 1) r (by omega) hp'
    · have h0 := hp [m] (by simp)
      rw [offs_cons_off h] at h0
      simp only [offs_nil] at h0
      have hp' : ∀ C', C' <+: ms → offs k C' ≤ r - 1 := by
        intro p hpp
        have := hp (m :: p) ((List.prefix_cons_inj m).2 hpp)
        rw [offs_cons_off h] at this; omega
      by_cases hd : d = 1
      · subst hd
        rw [fuseK_off1 h, offs_cons_off h]
        have := ih 0 (r - 1) (by omega) hp'; omega
      · rw [fuseK_off h ms d hd]
        have := ih (d - 1) (r - 1) (by omega) hp'; omega
    · have hp' : ∀ C', C' <+: ms → offs k C' ≤ r := by
        intro p hpp
        have := hp (m :: p) ((List.prefix_cons_inj m).2 hpp)
        rw [offs_cons_other h2] at this; exact this
      rw [fuseK_other h1 h2]
      exact ih d r hrd hp'


theorem split3 (E : List Msg) (s : Int) (hs : Sorted E) :
    ∃ B C A, E = B ++ (C ++ A) ∧ (∀ a ∈ B, a.time < s) ∧ (∀ a ∈ C, a.time = s) ∧ (∀ a ∈ A, s < a.time) := by
  obtain ⟨B, R, h1, h2, h3⟩ := split_sorted E (s - 1) hs
  have hR : Sorted R := by rw [h1] at hs; exact (List.pairwise_append.1 hs).2.1
  obtain ⟨C, A, h4, h5, h6⟩ := split_sorted R s hR
  refine ⟨B, C, A, by rw [h1, h4], fun a ha => by have := h2 a ha; omega, ?_, h6⟩
  intro a ha
  have := h5 a ha
  have := h3 a (by rw [h4]; exact List.mem_append_left _ ha)
  omega

theorem upTo_all (s : Int) (L : List Msg) (h : ∀ a ∈ L, a.time ≤ s) : upTo s L = L := by
  rw [upTo, List.filter_eq_self]; simpa using h

theorem upTo_none (s : Int) (L : List Msg) (h : ∀ a ∈ L, s < a.time) : upTo s L = [] := by
  rw [upTo, List.filter_eq_nil_iff]; intro a ha; have := h a ha; simp; omega

theorem before_all (s : Int) (L : List Msg) (h : ∀ a ∈ L, a.time < s) : before s L = L := by
  rw [before, List.filter_eq_self]; simpa using h

theorem before_none (s : Int) (L : List Msg) (h : ∀ a ∈ L, s ≤ a.time) : before s L = [] := by
  rw [before, List.filter_eq_nil_iff]; intro a ha; have := h a ha; simp; omega

/-- the fused note events of a sorted `CG` list are `CG` again -/
theorem cg_fuse (k : Int × Int) (E : List Msg) (hs : Sorted E) (h : CG k E) : CG k (fuseK k 0 E) := by
  have hnu := no_underflow_cg k E hs h
  refine ⟨fun s => ?_, ?_⟩
  · obtain ⟨B, C, A, hE, hB, hC, hA⟩ := split3 E s hs
    have hF : fuseK k 0 E = fuseK k 0 B ++ (fuseK k (depth k B 0) C ++ fuseK k (depth k C (depth k B 0)) A) := by
      rw [hE, fuseK_append, fuseK_append]
    have sB := fuseK_sublist k B 0
    have sC := fuseK_sublist k C (depth k B 0)
    have sA := fuseK_sublist k A (depth k C (depth k B 0))
    have e1 : upTo s (fuseK k 0 E) = fuseK k 0 B ++ fuseK k (depth k B 0) C := by
      rw [hF, upTo_append, upTo_append,
        upTo_all s _ (fun a ha => by have := hB a (sB.subset ha); omega),
        upTo_all s _ (fun a ha => by have := hC a (sC.subset ha); omega),
        upTo_none s _ (fun a ha => hA a (sA.subset ha)), List.append_nil]
    have e2 : before s (fuseK k 0 E) = fuseK k 0 B := by
      rw [hF, before_append, before_append,
        before_all s _ (fun a ha => hB a (sB.subset ha)),
        before_none s _ (fun a ha => by have := hC a (sC.subset ha); omega),
        before_none s _ (fun a ha => by have := hA a (sA.subset ha); omega), List.append_nil, List.append_nil]
    have e3 : upTo s E = B ++ C := by
      rw [hE, upTo_append, upTo_append, upTo_all s _ (fun a ha => by have := hB a ha; omega),
        upTo_all s _ (fun a ha => by have := hC a ha; omega), upTo_none s _ hA, List.append_nil]
    have e4 : before s E = B := by
      rw [hE, before_append, before_append, before_all s _ hB,
        before_none s _ (fun a ha => by have := hC a ha; omega),
        before_none s _ (fun a ha => by have := hA a ha; omega), List.append_nil, List.append_nil]
    have hpB : B <+: E := ⟨C ++ A, hE.symm⟩
    have i1 := depth_exact k B 0 (fun q hq => hnu q (hq.trans hpB))
    have i2 := fuse_count k B 0 (fun q hq => hnu q (hq.trans hpB))
    have hcg := h.1 s
    rw [e3, e4] at hcg
    have i3 := fuse_offs_bound k C (depth k B 0) (depth k B 0) (Nat.le_refl _) (by
      intro C' hC'
      have hsub : (B ++ C').Sublist (B ++ C) := (List.Sublist.refl B).append hC'.sublist
      have := offs_sublist k hsub
      rw [offs_append] at this
      omega)
    rw [e1, e2, offs_append]
    omega
  · have i2 := fuse_count k E 0 (fun q hq => hnu q hq)
    rw [depth_zero_cg k E hs h] at i2
    omega


/-! ## the stages, on `CG` lists -/

theorem isKN_key (k : Int × Int) (m : Msg) (hk : m.nkey = k) (h : m.ty = .noteOn ∨ m.ty = .noteOff) :
    isKN k m = true := by
  simp [isKN, hk, h]

/-- `normalise` on a relative view whose events are `CG`: the events stay `CG`, the sound is unchanged -/
theorem norm_cg (r : List Msg) (hr : NonNegWaits r) (hcg : ∀ k, CG k (eventsRel r)) :
    (∀ k, CG k (eventsRel (normalise r))) ∧
    ∀ k t, SoundingAt (eventsRel (normalise r)) k t ↔ SoundingAt (eventsRel r) k t := by
  have hs : Sorted (eventsRel r) := events_sorted r 0 hr
  have hd : ∀ k, depth k r 0 = 0 := by
    intro k
    rw [← depth_events k r 0 0]
    exact depth_zero_cg k _ hs (hcg k)
  refine ⟨fun k => ?_, fun k t => sounding_fuse _ _ k t hs (normalise_fuse r hr hd k)⟩
  rw [← cg_filter k (isKN k) (isKN_key k), normalise_fuse r hr hd k]
  exact cg_fuse k _ hs (hcg k)

/-- a good absolute view: legal, and `CG` for every key -/
def GA (a : List Msg) : Prop := OkAbs a ∧ ∀ k, CG k a

theorem ga_sorted {a : List Msg} (h : GA a) : Sorted a := (timeSorted_iff_pairwise a).1 h.1.1

theorem ga_sounding {a : List Msg} (h : GA a) (k : Int × Int) (t : Int) :
    SoundingAt (eventsAbs a) k t ↔ CS k t a := by
  rw [sounding_abs]
  exact sounding_cs k t a (ga_sorted h) (h.2 k)

theorem toAbs_ga (r : List Msg) (hr : OkRel r) (hcg : ∀ k, CG k (eventsRel r)) :
    GA (toAbs r) ∧ ∀ k t, CS k t (toAbs r) ↔ SoundingAt (eventsRel r) k t := by
  have hperm := C04.toAbs_events r hr
  have hs : Sorted (eventsRel r) := events_sorted r 0 hr.1
  refine ⟨⟨C04.toAbs_ok r hr, fun k => ?_⟩, fun k t => ?_⟩
  · rw [← cg_eventsAbs]
    exact cg_perm hperm.symm (hcg k)
  · rw [← cs_eventsAbs, cs_perm hperm, sounding_cs k t _ hs (hcg k)]

theorem merge_ga (as : List (List Msg)) (h : ∀ a ∈ as, GA a) :
    OkRel (C15.mergeRel as) ∧ (∀ k, CG k (eventsRel (C15.mergeRel as))) ∧
    ∀ k t, SoundingAt (eventsRel (C15.mergeRel as)) k t ↔ ∃ a ∈ as, CS k t a := by
  have hok : ∀ a ∈ as, OkAbs a := fun a ha => (h a ha).1
  have hU := C15.okU as hok
  have hnn := C15.nnR as hok
  have hperm := sortAbs_perm as.flatten
  have hcgU : ∀ k, CG k (sortAbs as.flatten) := fun k =>
    cg_perm hperm.symm (cg_flatten k as (fun a ha => (h a ha).2 k))
  have hev : eventsRel (toRel (sortAbs as.flatten)) = eventsAbs (sortAbs as.flatten) := C04.toRel_events _ hU
  have hcgE : ∀ k, CG k (eventsRel (toRel (sortAbs as.flatten))) := by
    intro k; rw [hev, cg_eventsAbs]; exact hcgU k
  obtain ⟨n1, n2⟩ := norm_cg _ hnn hcgE
  refine ⟨(C07.ok_out _ (C04.toRel_ok _ hU)).1, n1, fun k t => ?_⟩
  unfold C15.mergeRel
  rw [n2, hev, ga_sounding ⟨hU, hcgU⟩, cs_perm hperm]
  exact cs_flatten k t as (fun a ha => (h a ha).2 k)

/-- what `normalise` then `abs` makes of an absolute view -/
def V (a : List Msg) : List Msg := toAbs (normalise (toRel a))

theorem V_ga (a : List Msg) (h : GA a) : GA (V a) ∧ ∀ k t, CS k t (V a) ↔ CS k t a := by
  have hok := C04.toRel_ok a h.1
  have hev : eventsRel (toRel a) = eventsAbs a := C04.toRel_events a h.1
  have hcgE : ∀ k, CG k (eventsRel (toRel a)) := by
    intro k; rw [hev, cg_eventsAbs]; exact h.2 k
  obtain ⟨n1, n2⟩ := norm_cg _ hok.1 hcgE
  obtain ⟨t1, t2⟩ := toAbs_ga _ (C07.ok_out _ hok).1 n1
  refine ⟨t1, fun k t => ?_⟩
  unfold V
  rw [t2, n2, hev, ga_sounding h]

theorem ons_nonotes (k : Int × Int) (l : List Msg) (h : ∀ m ∈ l, m.ty ≠ .noteOn) : ons k l = 0 := by
  unfold ons
  rw [List.countP_eq_zero]
  intro m hm
  simp [isOnK, h m hm]

theorem offs_nonotes (k : Int × Int) (l : List Msg) (h : ∀ m ∈ l, m.ty ≠ .noteOff) : offs k l = 0 := by
  unfold offs
  rw [List.countP_eq_zero]
  intro m hm
  simp [isOffK, h m hm]

theorem nonotes_cg (k : Int × Int) (l : List Msg) (h : ∀ m ∈ l, m.ty ≠ .noteOn ∧ m.ty ≠ .noteOff) :
    CG k l ∧ ∀ t, ¬ CS k t l := by
  refine ⟨⟨fun s => ?_, ?_⟩, fun t => ?_⟩
  · have : offs k (upTo s l) = 0 := offs_nonotes k _ (fun m hm => (h m (List.mem_filter.1 hm).1).2)
    omega
  · rw [ons_nonotes k l (fun m hm => (h m hm).1), offs_nonotes k l (fun m hm => (h m hm).2)]
  · have : ons k (upTo t l) = 0 := ons_nonotes k _ (fun m hm => (h m (List.mem_filter.1 hm).1).1)
    unfold CS
    omega

theorem ga_insort (a : List Msg) (m : Msg) (h : GA a) (hm : 0 ≤ m.time ∧ m.ty ≠ .wait)
    (hn : m.ty ≠ .noteOn ∧ m.ty ≠ .noteOff) :
    GA (insort a m) ∧ ∀ k t, CS k t (insort a m) ↔ CS k t a := by
  have hperm : (insort a m).Perm ([[m], a].flatten) := by simpa using insort_perm a m
  have h1 : ∀ k, ∀ b ∈ [[m], a], CG k b := by
    intro k b hb
    simp only [List.mem_cons, List.not_mem_nil, or_false] at hb
    rcases hb with rfl | rfl
    · exact (nonotes_cg k [m] (by simpa using hn)).1
    · exact h.2 k
  refine ⟨⟨C04.insort_okA a m h.1 hm, fun k => cg_perm hperm.symm (cg_flatten k _ (h1 k))⟩, fun k t => ?_⟩
  rw [cs_perm hperm, cs_flatten k t _ (h1 k)]
  have := (nonotes_cg k [m] (by simpa using hn)).2 t
  simp [this]


/-! ## generic folds -/

theorem foldlM'_idx {α β} (f : β → α → Except Err β) (l : List α) : ∀ (Inv : Nat → β → Prop)
    (_ : ∀ n (hn : n < l.length) b, Inv n b → ∃ b', f b l[n] = .ok b' ∧ Inv (n + 1) b') (b0 : β) (_ : Inv 0 b0),
    ∃ r, foldlM' f b0 l = .ok r ∧ Inv l.length r := by
  induction l with
  | nil => intro Inv _ b0 h0; exact ⟨b0, rfl, h0⟩
  | cons x xs ih =>
    intro Inv hstep b0 h0
    obtain ⟨b', hb', hi'⟩ := hstep 0 (by simp) b0 h0
    obtain ⟨r, hr, hir⟩ := ih (fun n b => Inv (n + 1) b)
      (fun n hn b hb => hstep (n + 1) (by simpa using hn) b hb) b' hi'
    refine ⟨r, ?_, hir⟩
    simp only [List.getElem_cons_zero] at hb'
    simp only [foldlM', hb', hr]

/-- a fold whose steps each append one element computed from the input alone -/
theorem foldlM'_map {α γ} (f : List γ → α → Except Err (List γ)) (g : α → γ) (l : List α) :
    ∀ acc, (∀ acc, ∀ x ∈ l, f acc x = .ok (acc ++ [g x])) → foldlM' f acc l = .ok (acc ++ l.map g) := by
  induction l with
  | nil => intro acc _; simp [foldlM']
  | cons x xs ih =>
    intro acc hf
    simp only [foldlM', hf acc x List.mem_cons_self]
    rw [ih _ (fun acc y hy => hf acc y (List.mem_cons_of_mem _ hy))]
    simp

theorem foldlM'_ok_all {α β} (f : β → α → Except Err β) (l : List α) :
    ∀ b r, foldlM' f b l = .ok r → ∀ x ∈ l, ∃ b1 b2, f b1 x = .ok b2 := by
  induction l with
  | nil => intro _ _ _ x hx; simp at hx
  | cons y ys ih =>
    intro b r h x hx
    unfold foldlM' at h
    split at h
    · rename_i b' hb'
      rcases List.mem_cons.1 hx with rfl | hx
      · exact ⟨b, b', hb'⟩
      · exact ih _ _ h x hx
    · simp at h

/-! ## the wrapper operations used by `convert` -/

/-- a sequence whose relative view is the normalised conversion of `a` (absolute view stale) -/
def nz (a : List Msg) : Seq := { abs := a, rel := normalise (toRel a), absStale := true, relStale := false }

theorem addAbsMsg_ofAbs (a : List Msg) (m : Msg) : (Seq.ofAbs a).addAbsMsg m = .ok (Seq.ofAbs (insort a m)) := by
  rw [addAbsMsg_fresh _ _ rfl]; rfl

theorem normaliseSeq_ofAbs (a : List Msg) : (Seq.ofAbs a).normaliseSeq = .ok (nz a) := by
  simp [Seq.normaliseSeq, Seq.onRel, Seq.readRel, Seq.ofAbs, nz, bind, Except.bind]

theorem readAbs_stale (s : Seq) (h1 : s.absStale = true) (h2 : s.relStale = false) :
    s.readAbs = .ok ({ s with abs := toAbs s.rel, absStale := false }, toAbs s.rel) := by
  simp [Seq.readAbs, h1, h2]

theorem mergeSeq_stale (s : Seq) (o : List (List Msg)) (h1 : s.absStale = true) (h2 : s.relStale = false) :
    s.mergeSeq o = .ok (nz (mergeAbs (toAbs s.rel) o)) := by
  simp [Seq.mergeSeq, Seq.onAbs, readAbs_stale s h1 h2, Seq.normaliseSeq, Seq.onRel, Seq.readRel, nz,
    bind, Except.bind]

theorem mergeAbs_rel (a : List Msg) (o : List (List Msg)) :
    (nz (mergeAbs a o)).rel = C15.mergeRel (a :: o) := by
  simp [nz, mergeAbs, C15.mergeRel]


theorem normFold (xs : List (List Msg)) :
    foldlM' (fun (a : List Seq) q => do let q' ← q.normaliseSeq; .ok (a ++ [q'])) [] (xs.map Seq.ofAbs)
      = .ok (xs.map nz) := by
  have := foldlM'_map (fun (a : List Seq) q => do let q' ← q.normaliseSeq; .ok (a ++ [q']))
    (fun q => nz q.abs) (xs.map Seq.ofAbs) [] (by
      intro acc q hq
      obtain ⟨a, _, rfl⟩ := List.mem_map.1 hq
      simp only [normaliseSeq_ofAbs, bind, Except.bind]; rfl)
  rw [this]
  simp [Seq.ofAbs]

theorem readFold (xs : List (List Msg)) :
    foldlM' (fun (a : List (List Msg)) (q : Seq) => do let (_, x) ← q.readAbs; .ok (a ++ [x])) [] (xs.map nz)
      = .ok (xs.map V) := by
  have := foldlM'_map (fun (a : List (List Msg)) (q : Seq) => do let (_, x) ← q.readAbs; .ok (a ++ [x]))
    (fun q => toAbs q.rel) (xs.map nz) [] (by
      intro acc q hq
      obtain ⟨a, _, rfl⟩ := List.mem_map.1 hq
      simp [readAbs_stale (nz a) rfl rfl, bind, Except.bind])
  rw [this]
  simp [nz, V]

theorem groupStep_ofAbs (acc : List Seq) (x0 : List Msg) (rest : List (List Msg)) :
    groupStep acc ((x0 :: rest).map Seq.ofAbs) = .ok (acc ++ [nz (mergeAbs (V x0) (rest.map V))]) := by
  have h1 := normFold (x0 :: rest)
  have h2 := readFold rest
  have h3 : (nz x0).mergeSeq (rest.map V) = .ok (nz (mergeAbs (V x0) (rest.map V))) :=
    mergeSeq_stale (nz x0) _ rfl rfl
  unfold groupStep
  simp only [bind, Except.bind] at h1 h2 ⊢
  rw [h1]
  simp only [List.map_cons]
  rw [h2]
  dsimp only
  rw [h3]

theorem groupStep_nil (acc : List Seq) : groupStep acc [] = .error .indexError := by
  simp [groupStep, foldlM', bind, Except.bind]


/-! ## slots -/

theorem getElem?_modifyAt {α} (f : α → α) (l : List α) : ∀ (n m : Nat),
    (modifyAt f n l)[m]? = if m = n then l[m]?.map f else l[m]? := by
  induction l with
  | nil => intro n m; simp [modifyAt]
  | cons x xs ih =>
    intro n m
    cases n with
    | zero => cases m <;> simp [modifyAt]
    | succ n => cases m <;> simp [modifyAt, ih]

/-- with every track index listed at most once, an index determines its slot -/
theorem nodup_idx (groups : List (List Nat)) (hnd : groups.flatten.Nodup) :
    ∀ (a b : Nat) (g g' : List Nat) (pa pb i : Nat), groups[a]? = some g → groups[b]? = some g' →
      g[pa]? = some i → g'[pb]? = some i → a = b ∧ pa = pb := by
  induction groups with
  | nil => intro a b g g' pa pb i h; simp at h
  | cons G rest ih =>
    intro a b g g' pa pb i h1 h2 h3 h4
    rw [List.flatten_cons, List.nodup_append] at hnd
    obtain ⟨hG, hrest, hdis⟩ := hnd
    cases a with
    | zero =>
      cases b with
      | zero =>
        simp at h1 h2; subst h1; subst h2
        refine ⟨rfl, ?_⟩
        have hlt : pa < G.length := by
          rcases Nat.lt_or_ge pa G.length with h | h
          · exact h
          · rw [List.getElem?_eq_none h] at h3; simp at h3
        exact (List.getElem?_inj hlt hG).1 (h3.trans h4.symm)
      | succ b =>
        simp at h1 h2; subst h1
        exfalso
        exact hdis i (List.mem_of_getElem? h3) i
          (List.mem_flatten.2 ⟨g', List.mem_of_getElem? h2, List.mem_of_getElem? h4⟩) rfl
    | succ a =>
      cases b with
      | zero =>
        simp at h1 h2; subst h2
        exfalso
        exact hdis i (List.mem_of_getElem? h4) i
          (List.mem_flatten.2 ⟨g, List.mem_of_getElem? h1, List.mem_of_getElem? h3⟩) rfl
      | succ b =>
        simp at h1 h2
        obtain ⟨e1, e2⟩ := ih hrest a b g g' pa pb i h1 h2 h3 h4
        exact ⟨by omega, e2⟩

def slotsOf (groups : List (List Nat)) (A : Nat → List Msg) : List (List Seq) :=
  groups.map (fun g => g.map (fun i => Seq.ofAbs (A i)))

def upd (A : Nat → List Msg) (i : Nat) (v : List Msg) : Nat → List Msg := fun j => if j = i then v else A j

theorem slots_modify (groups : List (List Nat)) (hnd : groups.flatten.Nodup) (A : Nat → List Msg)
    (gi pos i : Nat) (g : List Nat) (hg : groups[gi]? = some g) (hpos : g[pos]? = some i) (v : List Msg) :
    modifyAt (fun g' => modifyAt (fun _ => Seq.ofAbs v) pos g') gi (slotsOf groups A)
      = slotsOf groups (upd A i v) := by
  apply List.ext_getElem?
  intro a
  rw [getElem?_modifyAt]
  simp only [slotsOf, List.getElem?_map]
  cases hga : groups[a]? with
  | none => simp
  | some g' =>
    simp only [Option.map_some]
    by_cases hag : a = gi
    · subst hag
      rw [hg] at hga; cases hga
      simp only [if_true, Option.some.injEq]
      apply List.ext_getElem?
      intro b
      rw [getElem?_modifyAt]
      simp only [List.getElem?_map]
      by_cases hb : b = pos
      · subst hb
        simp [hpos, upd]
      · simp only [hb, if_false]
        cases hgb : g[b]? with
        | none => rfl
        | some j =>
          have : j ≠ i := by
            intro e; subst e
            exact hb (nodup_idx groups hnd a a g g b pos j hg hg hgb hpos).2
          simp [upd, this]
    · simp only [hag, if_false, Option.some.injEq]
      apply List.map_congr_left
      intro j hj
      obtain ⟨b, hb⟩ := List.getElem?_of_mem hj
      have : j ≠ i := by
        intro e; subst e
        exact hag (nodup_idx groups hnd a gi g' g b pos j hga hg hb hpos).1
      simp [upd, this]

theorem firstGroupOf_some (groups : List (List Nat)) (i gi pos : Nat) (h : firstGroupOf groups i = some (gi, pos)) :
    ∃ g, groups[gi]? = some g ∧ g[pos]? = some i := by
  unfold firstGroupOf at h
  split at h
  · rename_i g gi' hf
    simp only [Option.some.injEq, Prod.mk.injEq] at h
    obtain ⟨rfl, rfl⟩ := h
    have hmem := List.mem_of_find?_eq_some hf
    have hp := List.find?_some hf
    simp only [List.contains_iff_mem] at hp
    refine ⟨g, List.mem_zipIdx_iff_getElem?.1 hmem, ?_⟩
    have hlt : g.idxOf i < g.length := List.idxOf_lt_length_of_mem hp
    rw [List.getElem?_eq_getElem hlt, List.getElem_idxOf hlt]
  · simp at h

theorem firstGroupOf_none (groups : List (List Nat)) (i : Nat) (h : firstGroupOf groups i = Option.none) :
    i ∉ groups.flatten := by
  unfold firstGroupOf at h
  split at h
  · simp at h
  · rename_i hf
    intro hi
    obtain ⟨g, hg, hig⟩ := List.mem_flatten.1 hi
    obtain ⟨gi, hgi⟩ := List.getElem?_of_mem hg
    have := List.find?_eq_none.1 hf (g, gi) (List.mem_zipIdx_iff_getElem?.2 hgi)
    simp [hig] at this


/-! ## one track -/

/-- the meta sequence's list: legal and without notes -/
def MetaOk (M : List Msg) : Prop := OkAbs M ∧ ∀ m ∈ M, m.ty ≠ .noteOn ∧ m.ty ≠ .noteOff

theorem metaOk_insort (M : List Msg) (m : Msg) (h : MetaOk M) (h0 : 0 ≤ m.time) (hw : m.ty ≠ .wait)
    (hn : m.ty ≠ .noteOn ∧ m.ty ≠ .noteOff) : MetaOk (insort M m) := by
  refine ⟨C04.insort_okA M m h.1 ⟨h0, hw⟩, ?_⟩
  intro x hx
  rcases List.mem_cons.1 ((insort_perm M m).mem_iff.1 hx) with rfl | hx
  · exact hn
  · exact h.2 x hx

theorem addMeta_ofAbs (s : ConvSt) (M : List Msg) (hm : s.metaSeq = Seq.ofAbs M) (m : Msg) :
    s.addMeta m = .ok { s with metaSeq := Seq.ofAbs (insort M m) } := by
  simp [ConvSt.addMeta, hm, addAbsMsg_ofAbs, bind, Except.bind]

theorem addCur_slots (groups : List (List Nat)) (hnd : groups.flatten.Nodup) (s : ConvSt) (A : Nat → List Msg)
    (hs : s.seqs = slotsOf groups A) (gi pos i : Nat) (g : List Nat) (hg : groups[gi]? = some g)
    (hpos : g[pos]? = some i) (m : Msg) :
    s.addCur (some (gi, pos)) m = .ok { s with seqs := slotsOf groups (upd A i (insort (A i) m)) } := by
  have hl : (s.seqs[gi]?.bind (·[pos]?)) = some (Seq.ofAbs (A i)) := by
    simp [hs, slotsOf, hg, hpos]
  unfold ConvSt.addCur
  simp only [hl, addAbsMsg_ofAbs, bind, Except.bind]
  rw [hs, slots_modify groups hnd A gi pos i g hg hpos]

theorem exactPos_nonneg (ppqn filePpq : Int) (hp : 0 < ppqn) (hf : 0 < filePpq) (t : Int) (ht : 0 ≤ t) :
    0 ≤ roundHalfEven (exactPos ppqn filePpq t) := by
  apply round_nonneg
  have := exactPos_mono ppqn filePpq hp hf ht
  simpa [exactPos, Rat.div_def] using this

theorem convEvent_false_notes (e : MidiEv) (rt : Int) (d : Bool) (m : Msg) (h : convEvent false e rt = some (d, m)) :
    m.time = rt ∧ m.ty ≠ .wait ∧ m.ty ≠ .noteOn ∧ m.ty ≠ .noteOff := by
  refine ⟨convEvent_time _ _ _ _ _ h, ?_⟩
  unfold convEvent at h
  cases hty : e.ty <;> simp only [hty] at h <;>
    simp [Msg.mkTimeSig] at h <;> (obtain ⟨_, rfl⟩ := h; simp)

/-- the default-channel bookkeeping of `convMsg` -/
def withDefCh (s : ConvSt) (m : MidiEv) : ConvSt :=
  { s with defCh := match s.defCh with
                    | some c => some c
                    | Option.none => if m.ch != pyNone then some m.ch else Option.none }

theorem convMsg_eq (ppqn filePpq : Int) (loc : Option (Nat × Nat)) (s : ConvSt) (ticks : Int) (m : MidiEv) :
    convMsg ppqn filePpq loc (s, ticks) m =
      (match convEvent loc.isSome m (roundHalfEven (exactPos ppqn filePpq (ticks + m.time))) with
       | some (true, msg) =>
         match (withDefCh s m).addMeta msg with | .ok s => .ok (s, ticks + m.time) | .error e => .error e
       | some (false, msg) =>
         match (withDefCh s m).addCur loc msg with | .ok s => .ok (s, ticks + m.time) | .error e => .error e
       | Option.none => .ok (withDefCh s m, ticks + m.time)) := rfl

/-- a grouped track: its note messages go to its own slot, in order; the rest to the meta sequence -/
theorem inner_some (ppqn filePpq : Int) (hp : 0 < ppqn) (hf : 0 < filePpq) (groups : List (List Nat))
    (hnd : groups.flatten.Nodup) (gi pos i : Nat) (g : List Nat) (hg : groups[gi]? = some g)
    (hpos : g[pos]? = some i) (evs : List MidiEv) :
    ∀ (ticks : Int) (s : ConvSt) (A : Nat → List Msg) (M : List Msg), 0 ≤ ticks → (∀ e ∈ evs, 0 ≤ e.time) →
      s.seqs = slotsOf groups A → s.metaSeq = Seq.ofAbs M → MetaOk M →
      ∃ s' t' A' M', foldlM' (convMsg ppqn filePpq (some (gi, pos))) (s, ticks) evs = .ok (s', t')
        ∧ s'.seqs = slotsOf groups A' ∧ A' i = (curMsgs ppqn filePpq ticks evs).foldl insort (A i)
        ∧ (∀ j, j ≠ i → A' j = A j) ∧ s'.metaSeq = Seq.ofAbs M' ∧ MetaOk M' := by
  induction evs with
  | nil =>
    intro ticks s A M _ _ hs hm hM
    exact ⟨s, ticks, A, M, rfl, hs, rfl, fun _ _ => rfl, hm, hM⟩
  | cons e es ih =>
    intro ticks s A M ht hd hs hm hM
    have he := hd e List.mem_cons_self
    have hd' : ∀ x ∈ es, 0 ≤ x.time := fun x hx => hd x (List.mem_cons_of_mem _ hx)
    have ht' : 0 ≤ ticks + e.time := by omega
    generalize hs1 : withDefCh s e = s1
    have hs1s : s1.seqs = slotsOf groups A := by subst hs1; exact hs
    have hs1m : s1.metaSeq = Seq.ofAbs M := by subst hs1; exact hm
    cases hce : convEvent true e (roundHalfEven (exactPos ppqn filePpq (ticks + e.time))) with
    | none =>
      have hstep : convMsg ppqn filePpq (some (gi, pos)) (s, ticks) e = .ok (s1, ticks + e.time) := by
        rw [convMsg_eq, Option.isSome_some, hce, hs1]
      obtain ⟨s', t', A', M', h1, h2, h3, h4, h5, h6⟩ := ih (ticks + e.time) s1 A M ht' hd' hs1s hs1m hM
      refine ⟨s', t', A', M', ?_, h2, ?_, h4, h5, h6⟩
      · simp only [foldlM', hstep, h1]
      · rw [h3]; simp only [curMsgs, hce]
    | some dm =>
      obtain ⟨d, msg⟩ := dm
      cases d with
      | true =>
        obtain ⟨hmt, hmty⟩ := convEvent_meta _ _ _ _ hce
        have hadd := addMeta_ofAbs s1 M hs1m msg
        have hstep : convMsg ppqn filePpq (some (gi, pos)) (s, ticks) e
            = .ok ({ s1 with metaSeq := Seq.ofAbs (insort M msg) }, ticks + e.time) := by
          rw [convMsg_eq, Option.isSome_some, hce]
          simp only [hs1, hadd]
        have hM' : MetaOk (insort M msg) := by
          apply metaOk_insort M msg hM
          · rw [hmt]; exact exactPos_nonneg ppqn filePpq hp hf _ ht'
          · rcases hmty with h | h | h <;> simp [h]
          · rcases hmty with h | h | h <;> simp [h]
        obtain ⟨s', t', A', M', h1, h2, h3, h4, h5, h6⟩ :=
          ih (ticks + e.time) { s1 with metaSeq := Seq.ofAbs (insort M msg) } A (insort M msg) ht' hd' hs1s rfl hM'
        refine ⟨s', t', A', M', ?_, h2, ?_, h4, h5, h6⟩
        · simp only [foldlM', hstep, h1]
        · rw [h3]; simp only [curMsgs, hce]
      | false =>
        have hadd := addCur_slots groups hnd s1 A hs1s gi pos i g hg hpos msg
        have hstep : convMsg ppqn filePpq (some (gi, pos)) (s, ticks) e
            = .ok ({ s1 with seqs := slotsOf groups (upd A i (insort (A i) msg)) }, ticks + e.time) := by
          rw [convMsg_eq, Option.isSome_some, hce]
          simp only [hs1, hadd]
        obtain ⟨s', t', A', M', h1, h2, h3, h4, h5, h6⟩ :=
          ih (ticks + e.time) { s1 with seqs := slotsOf groups (upd A i (insort (A i) msg)) }
            (upd A i (insort (A i) msg)) M ht' hd' rfl hs1m hM
        refine ⟨s', t', A', M', ?_, h2, ?_, ?_, h5, h6⟩
        · simp only [foldlM', hstep, h1]
        · rw [h3]; simp only [curMsgs, hce, List.foldl_cons, upd, if_true]
        · intro j hj; rw [h4 j hj]; simp [upd, hj]

/-- a meta-only track: every message goes to the meta sequence -/
theorem inner_none (ppqn filePpq : Int) (hp : 0 < ppqn) (hf : 0 < filePpq) (evs : List MidiEv) :
    ∀ (ticks : Int) (s : ConvSt) (M : List Msg), 0 ≤ ticks → (∀ e ∈ evs, 0 ≤ e.time) →
      s.metaSeq = Seq.ofAbs M → MetaOk M →
      ∃ s' t' M', foldlM' (convMsg ppqn filePpq Option.none) (s, ticks) evs = .ok (s', t')
        ∧ s'.seqs = s.seqs ∧ s'.metaSeq = Seq.ofAbs M' ∧ MetaOk M' := by
  induction evs with
  | nil =>
    intro ticks s M _ _ hm hM
    exact ⟨s, ticks, M, rfl, rfl, hm, hM⟩
  | cons e es ih =>
    intro ticks s M ht hd hm hM
    have he := hd e List.mem_cons_self
    have hd' : ∀ x ∈ es, 0 ≤ x.time := fun x hx => hd x (List.mem_cons_of_mem _ hx)
    have ht' : 0 ≤ ticks + e.time := by omega
    generalize hs1 : withDefCh s e = s1
    have hs1s : s1.seqs = s.seqs := by subst hs1; rfl
    have hs1m : s1.metaSeq = Seq.ofAbs M := by subst hs1; exact hm
    cases hce : convEvent false e (roundHalfEven (exactPos ppqn filePpq (ticks + e.time))) with
    | none =>
      have hstep : convMsg ppqn filePpq Option.none (s, ticks) e = .ok (s1, ticks + e.time) := by
        rw [convMsg_eq, Option.isSome_none, hce, hs1]
      obtain ⟨s', t', M', h1, h2, h3, h4⟩ := ih (ticks + e.time) s1 M ht' hd' hs1m hM
      exact ⟨s', t', M', by simp only [foldlM', hstep, h1], h2.trans hs1s, h3, h4⟩
    | some dm =>
      obtain ⟨d, msg⟩ := dm
      obtain ⟨hmt, hw, hn⟩ := convEvent_false_notes _ _ _ _ hce
      have hadd := addMeta_ofAbs s1 M hs1m msg
      have hstep : convMsg ppqn filePpq Option.none (s, ticks) e
          = .ok ({ s1 with metaSeq := Seq.ofAbs (insort M msg) }, ticks + e.time) := by
        rw [convMsg_eq, Option.isSome_none, hce]
        cases d <;> simp only [hs1, hadd, ConvSt.addCur]
      have hM' : MetaOk (insort M msg) := by
        apply metaOk_insort M msg hM _ hw hn
        rw [hmt]; exact exactPos_nonneg ppqn filePpq hp hf _ ht'
      obtain ⟨s', t', M', h1, h2, h3, h4⟩ :=
        ih (ticks + e.time) { s1 with metaSeq := Seq.ofAbs (insort M msg) } (insort M msg) ht' hd' rfl hM'
      exact ⟨s', t', M', by simp only [foldlM', hstep, h1], h2.trans hs1s, h3, h4⟩


/-! ## all tracks -/

theorem slotsOf_congr (groups : List (List Nat)) (A B : Nat → List Msg) (h : ∀ i ∈ groups.flatten, A i = B i) :
    slotsOf groups A = slotsOf groups B := by
  unfold slotsOf
  apply List.map_congr_left
  intro g hg
  apply List.map_congr_left
  intro i hi
  rw [h i (List.mem_flatten.2 ⟨g, hg, hi⟩)]

theorem metaOk_nil : MetaOk [] :=
  ⟨⟨by simp [TimeSorted], by simp [NonNegTimes], by simp⟩, by simp⟩

/-- the state after all tracks: slot `i` holds the messages of track `i`; the meta sequence is legal
    and holds no notes -/
theorem tracks_fold (ppqn filePpq : Int) (hp : 0 < ppqn) (hf : 0 < filePpq) (tracks : List (List MidiEv))
    (groups : List (List Nat)) (metaIdx : List Nat) (hnd : groups.flatten.Nodup)
    (hd : ∀ evs ∈ tracks, ∀ e ∈ evs, 0 ≤ e.time) :
    ∃ s M, foldlM' (convTrack ppqn filePpq groups metaIdx)
        { seqs := groups.map (fun g => g.map (fun _ => Seq.new)) } tracks.zipIdx = .ok s
      ∧ s.seqs = slotsOf groups (fun i => curMsgs ppqn filePpq 0 (tracks[i]?.getD []))
      ∧ s.metaSeq = Seq.ofAbs M ∧ MetaOk M := by
  let full : Nat → List Msg := fun i => curMsgs ppqn filePpq 0 (tracks[i]?.getD [])
  have hfull : ∀ i, (full i).foldl insort [] = full i := by
    intro i
    apply (curMsgs_okAbs ppqn filePpq hp hf 0 (Int.le_refl _) _ _).2
    intro e he
    cases hti : tracks[i]? with
    | none => simp [hti] at he
    | some evs =>
      simp only [hti, Option.getD_some] at he
      exact hd evs (List.mem_of_getElem? hti) e he
  have := foldlM'_idx (convTrack ppqn filePpq groups metaIdx) tracks.zipIdx
    (fun n s => ∃ A M, s.seqs = slotsOf groups A ∧ s.metaSeq = Seq.ofAbs M ∧ MetaOk M
      ∧ ∀ i ∈ groups.flatten, A i = if i < n then full i else [])
    (by
      intro n hn s ⟨A, M, hs, hm, hM, hA⟩
      have hn' : n < tracks.length := by simpa using hn
      have hx : tracks.zipIdx[n] = (tracks[n], n) := by simp
      have hde : ∀ e ∈ tracks[n], 0 ≤ e.time := hd _ (List.getElem_mem hn')
      rw [hx]
      unfold convTrack
      simp only
      cases hloc : firstGroupOf groups n with
      | none =>
        have hnf := firstGroupOf_none groups n hloc
        have hA' : ∀ i ∈ groups.flatten, A i = if i < n + 1 then full i else [] := by
          intro i hi
          have hne : i ≠ n := fun e => hnf (e ▸ hi)
          rw [hA i hi]
          by_cases h1 : i < n
          · simp [h1, show i < n + 1 by omega]
          · simp [h1, show ¬ i < n + 1 by omega]
        by_cases hmeta : n ∈ metaIdx
        · obtain ⟨s', t', M', h1, h2, h3, h4⟩ := inner_none ppqn filePpq hp hf tracks[n] 0 s M (Int.le_refl _) hde hm hM
          refine ⟨s', ?_, A, M', by rw [h2, hs], h3, h4, hA'⟩
          simp [hmeta, h1]
        · refine ⟨s, ?_, A, M, hs, hm, hM, hA'⟩
          simp [hmeta]
      | some loc =>
        obtain ⟨gi, pos⟩ := loc
        obtain ⟨g, hg, hpos⟩ := firstGroupOf_some groups n gi pos hloc
        have hnin : n ∈ groups.flatten := List.mem_flatten.2 ⟨g, List.mem_of_getElem? hg, List.mem_of_getElem? hpos⟩
        obtain ⟨s', t', A', M', h1, h2, h3, h4, h5, h6⟩ :=
          inner_some ppqn filePpq hp hf groups hnd gi pos n g hg hpos tracks[n] 0 s A M (Int.le_refl _) hde hs hm hM
        refine ⟨s', ?_, A', M', h2, h5, h6, ?_⟩
        · simp [h1]
        · intro i hi
          by_cases hin : i = n
          · subst hin
            have hfi : full i = curMsgs ppqn filePpq 0 tracks[i] := by simp [full, hn']
            rw [h3, hA i hi]
            simp only [Nat.lt_irrefl, if_false, Nat.lt_succ_self, if_true]
            rw [← hfi, hfull i]
          · rw [h4 i hin, hA i hi]
            by_cases h1 : i < n
            · simp [h1, show i < n + 1 by omega]
            · simp [h1, show ¬ i < n + 1 by omega])
    { seqs := groups.map (fun g => g.map (fun _ => Seq.new)) }
    ⟨fun _ => [], [], rfl, rfl, metaOk_nil, fun i _ => by simp⟩
  obtain ⟨r, hr, A, M, hs, hm, hM, hA⟩ := this
  refine ⟨r, M, hr, ?_, hm, hM⟩
  rw [hs]
  apply slotsOf_congr
  intro i hi
  rw [hA i hi]
  simp only [List.length_zipIdx]
  by_cases h1 : i < tracks.length
  · simp [h1, full]
  · have : tracks[i]? = none := List.getElem?_eq_none (by omega)
    simp [h1, curMsgs]


/-! ## the groups and the meta target -/

/-- the merged sequence of one group -/
def gmerge (A : Nat → List Msg) (g : List Nat) : Seq := nz (sortAbs ((g.map (fun i => V (A i))).flatten))

theorem gmerge_rel (A : Nat → List Msg) (g : List Nat) :
    (gmerge A g).rel = C15.mergeRel (g.map (fun i => V (A i))) := rfl

theorem groups_fold (groups : List (List Nat)) (A : Nat → List Msg) (hne : ∀ g ∈ groups, g ≠ []) :
    foldlM' groupStep [] (slotsOf groups A) = .ok (groups.map (gmerge A)) := by
  have := foldlM'_map groupStep (fun sl => nz (sortAbs ((sl.map (fun q => V q.abs)).flatten)))
    (slotsOf groups A) [] (by
      intro acc sl hsl
      obtain ⟨gr, hgr, rfl⟩ := List.mem_map.1 hsl
      cases gr with
      | nil => exact absurd rfl (hne _ hgr)
      | cons i0 rest =>
        have e : (i0 :: rest).map (fun i => Seq.ofAbs (A i)) = (A i0 :: rest.map A).map Seq.ofAbs := by
          simp [List.map_map]
        rw [e, groupStep_ofAbs]
        simp [mergeAbs, List.map_map]
        rfl)
  rw [this]
  simp [slotsOf, List.map_map, gmerge, Seq.ofAbs, Function.comp_def]

theorem groups_nonempty (groups : List (List Nat)) (A : Nat → List Msg) (r : List Seq)
    (h : foldlM' groupStep [] (slotsOf groups A) = .ok r) : ∀ g ∈ groups, g ≠ [] := by
  intro g hg hnil
  subst hnil
  obtain ⟨b1, b2, hb⟩ := foldlM'_ok_all groupStep _ _ _ h [] (by
    simp only [slotsOf, List.mem_map]
    exact ⟨[], hg, rfl⟩)
  rw [groupStep_nil] at hb
  simp at hb

/-- the sequence at the meta target after `finish` -/
def finSeq (defCh : Option Int) (R1 M : List Msg) : Seq :=
  if (timesOfType .timeSignature (toAbs (C15.mergeRel [toAbs R1, M]))).any (fun m => m.time == 0) then
    { abs := toAbs (C15.mergeRel [toAbs R1, M]), rel := C15.mergeRel [toAbs R1, M], absStale := false, relStale := false }
  else
    { abs := insort (toAbs (C15.mergeRel [toAbs R1, M])) (Msg.mkTimeSig (defCh.getD 0) 4 4 0),
      rel := C15.mergeRel [toAbs R1, M], absStale := false, relStale := true }

theorem finSeq_read (d : Option Int) (R1 M : List Msg) :
    (finSeq d R1 M).readAbs = .ok (finSeq d R1 M, (finSeq d R1 M).abs)
    ∧ ((finSeq d R1 M).abs = toAbs (C15.mergeRel [toAbs R1, M])
        ∨ (finSeq d R1 M).abs = insort (toAbs (C15.mergeRel [toAbs R1, M])) (Msg.mkTimeSig (d.getD 0) 4 4 0)) := by
  unfold finSeq
  split
  · exact ⟨readAbs_fresh _ rfl, Or.inl rfl⟩
  · exact ⟨readAbs_fresh _ rfl, Or.inr rfl⟩

theorem finish_eq (s : ConvSt) (merged : List Seq) (target : Int) (M : List Msg) (hm : s.metaSeq = Seq.ofAbs M)
    (mt : Seq) (ht0 : 0 ≤ target) (hmt : merged[target.toNat]? = some mt)
    (h1 : mt.absStale = true) (h2 : mt.relStale = false) :
    finish s merged target = .ok (modifyAt (fun _ => finSeq s.defCh mt.rel M) target.toNat merged) := by
  have hlt : target.toNat < merged.length := by
    rcases Nat.lt_or_ge target.toNat merged.length with h | h
    · exact h
    · rw [List.getElem?_eq_none h] at hmt; simp at hmt
  have hc' : (decide (target < 0) || decide (target ≥ (merged.length : Int))) = false := by
    have : ¬ target < 0 := by omega
    have : ¬ target ≥ (merged.length : Int) := by omega
    simp [*]
  have hr1 : s.metaSeq.readAbs = .ok (Seq.ofAbs M, M) := by rw [hm]; exact readAbs_fresh _ rfl
  have hr2 := mergeSeq_stale mt [M] h1 h2
  have hr3 := readAbs_stale (nz (mergeAbs (toAbs mt.rel) [M])) rfl rfl
  unfold finish
  simp only [bind, Except.bind, hc', Bool.false_eq_true, if_false, hmt, hr1, hr2, hr3]
  unfold finSeq
  have e : (nz (mergeAbs (toAbs mt.rel) [M])).rel = C15.mergeRel [toAbs mt.rel, M] := mergeAbs_rel _ _
  rw [e]
  split
  · rfl
  · rw [addAbsMsg_fresh _ _ rfl]


/-! ## `convert` in closed form -/

/-- the messages of track `i` at their rounded positions -/
def slotA (ppqn filePpq : Int) (tracks : List (List MidiEv)) (i : Nat) : List Msg :=
  curMsgs ppqn filePpq 0 (tracks[i]?.getD [])

theorem convert_conds (ppqn filePpq : Int) (hp : 0 < ppqn) (hf : 0 < filePpq) (tracks : List (List MidiEv))
    (groups : List (List Nat)) (metaIdx : List Nat) (target : Int) (out : List Seq)
    (hnd : groups.flatten.Nodup) (hd : ∀ evs ∈ tracks, ∀ e ∈ evs, 0 ≤ e.time)
    (h : convert ppqn filePpq tracks groups metaIdx target = .ok out) :
    (∀ g ∈ groups, g ≠ []) ∧ 0 ≤ target ∧ target < (groups.length : Int) := by
  obtain ⟨s, M, hfold, hseqs, hm, hM⟩ := tracks_fold ppqn filePpq hp hf tracks groups metaIdx hnd hd
  rw [convert_eq] at h
  simp only [bind, Except.bind, hfold] at h
  split at h
  · simp at h
  · rename_i merged hmerged
    rw [hseqs] at hmerged
    have hne := groups_nonempty groups _ merged hmerged
    rw [groups_fold groups _ hne] at hmerged
    simp only [Except.ok.injEq] at hmerged
    subst hmerged
    refine ⟨hne, ?_⟩
    by_cases hc : target < 0 ∨ ((groups.map (gmerge (fun i => curMsgs ppqn filePpq 0 (tracks[i]?.getD [])))).length : Int) ≤ target
    · rw [finish_bad _ _ _ hc] at h; simp at h
    · simp only [List.length_map] at hc; omega

theorem convert_closed (ppqn filePpq : Int) (hp : 0 < ppqn) (hf : 0 < filePpq) (tracks : List (List MidiEv))
    (groups : List (List Nat)) (metaIdx : List Nat) (target : Int)
    (hnd : groups.flatten.Nodup) (hd : ∀ evs ∈ tracks, ∀ e ∈ evs, 0 ≤ e.time)
    (hne : ∀ g ∈ groups, g ≠ []) (ht0 : 0 ≤ target) (ht1 : target < (groups.length : Int)) :
    ∃ M d gt, MetaOk M ∧ groups[target.toNat]? = some gt ∧
      convert ppqn filePpq tracks groups metaIdx target =
        .ok (modifyAt (fun _ => finSeq d (gmerge (slotA ppqn filePpq tracks) gt).rel M) target.toNat
              (groups.map (gmerge (slotA ppqn filePpq tracks)))) := by
  obtain ⟨s, M, hfold, hseqs, hm, hM⟩ := tracks_fold ppqn filePpq hp hf tracks groups metaIdx hnd hd
  have hlt : target.toNat < groups.length := by omega
  refine ⟨M, s.defCh, groups[target.toNat], hM, List.getElem?_eq_getElem hlt, ?_⟩
  rw [convert_eq]
  simp only [bind, Except.bind, hfold]
  rw [hseqs, groups_fold groups _ hne]
  simp only
  exact finish_eq s _ target M hm (gmerge (slotA ppqn filePpq tracks) groups[target.toNat]) ht0
    (by simp [List.getElem?_map, List.getElem?_eq_getElem hlt]; rfl) rfl rfl


/-! ## the sound of the loaded sequences -/

theorem stage1 (xs : List (List Msg)) (h : ∀ x ∈ xs, GA x) :
    OkRel (C15.mergeRel (xs.map V)) ∧ (∀ k, CG k (eventsRel (C15.mergeRel (xs.map V)))) ∧
    ∀ k t, SoundingAt (eventsRel (C15.mergeRel (xs.map V))) k t ↔ ∃ x ∈ xs, CS k t x := by
  obtain ⟨m1, m2, m3⟩ := merge_ga (xs.map V) (by
    intro a ha
    obtain ⟨x, hx, rfl⟩ := List.mem_map.1 ha
    exact (V_ga x (h x hx)).1)
  refine ⟨m1, m2, fun k t => ?_⟩
  rw [m3]
  constructor
  · rintro ⟨a, ha, hcs⟩
    obtain ⟨x, hx, rfl⟩ := List.mem_map.1 ha
    exact ⟨x, hx, ((V_ga x (h x hx)).2 k t).1 hcs⟩
  · rintro ⟨x, hx, hcs⟩
    exact ⟨V x, List.mem_map.2 ⟨x, hx, rfl⟩, ((V_ga x (h x hx)).2 k t).2 hcs⟩

theorem readout (R : List Msg) (hok : OkRel R) (hcg : ∀ k, CG k (eventsRel R)) :
    GA (toAbs R) ∧ ∀ k t, SoundingAt (eventsAbs (toAbs R)) k t ↔ SoundingAt (eventsRel R) k t := by
  obtain ⟨t1, t2⟩ := toAbs_ga R hok hcg
  exact ⟨t1, fun k t => by rw [ga_sounding t1, t2]⟩

theorem metaOk_ga (M : List Msg) (h : MetaOk M) : GA M ∧ ∀ k t, ¬ CS k t M :=
  ⟨⟨h.1, fun k => (nonotes_cg k M h.2).1⟩, fun k t => (nonotes_cg k M h.2).2 t⟩

theorem stage2 (R1 M : List Msg) (hok : OkRel R1) (hcg : ∀ k, CG k (eventsRel R1)) (hM : MetaOk M) :
    OkRel (C15.mergeRel [toAbs R1, M]) ∧ (∀ k, CG k (eventsRel (C15.mergeRel [toAbs R1, M]))) ∧
    ∀ k t, SoundingAt (eventsRel (C15.mergeRel [toAbs R1, M])) k t ↔ SoundingAt (eventsRel R1) k t := by
  obtain ⟨t1, t2⟩ := toAbs_ga R1 hok hcg
  obtain ⟨g1, g2⟩ := metaOk_ga M hM
  obtain ⟨m1, m2, m3⟩ := merge_ga [toAbs R1, M] (by
    intro a ha
    simp only [List.mem_cons, List.not_mem_nil, or_false] at ha
    rcases ha with rfl | rfl
    · exact t1
    · exact g1)
  refine ⟨m1, m2, fun k t => ?_⟩
  rw [m3, ← t2]
  simp [g2 k t]

/-- a loaded sequence that is not the meta target -/
theorem out_sounding (xs : List (List Msg)) (h : ∀ x ∈ xs, GA x) (k : Int × Int) (t : Int) :
    SoundingAt (eventsAbs (toAbs (C15.mergeRel (xs.map V)))) k t ↔ ∃ x ∈ xs, CS k t x := by
  obtain ⟨s1, s2, s3⟩ := stage1 xs h
  rw [(readout _ s1 s2).2, s3]


/-- the meta target: merging the meta sequence in and inserting a signature changes no sound -/
theorem out_sounding_target (xs : List (List Msg)) (h : ∀ x ∈ xs, GA x) (M : List Msg) (hM : MetaOk M)
    (c : Int) (a : List Msg)
    (ha : a = toAbs (C15.mergeRel [toAbs (C15.mergeRel (xs.map V)), M])
      ∨ a = insort (toAbs (C15.mergeRel [toAbs (C15.mergeRel (xs.map V)), M])) (Msg.mkTimeSig c 4 4 0))
    (k : Int × Int) (t : Int) :
    SoundingAt (eventsAbs a) k t ↔ ∃ x ∈ xs, CS k t x := by
  obtain ⟨s1, s2, s3⟩ := stage1 xs h
  obtain ⟨u1, u2, u3⟩ := stage2 _ M s1 s2 hM
  obtain ⟨r1, r2⟩ := readout _ u1 u2
  generalize hR : C15.mergeRel [toAbs (C15.mergeRel (xs.map V)), M] = R2 at *
  rcases ha with rfl | rfl
  · rw [r2, u3, s3]
  · have hsig1 : 0 ≤ (Msg.mkTimeSig c 4 4 0).time ∧ (Msg.mkTimeSig c 4 4 0).ty ≠ .wait :=
      ⟨Int.le_refl _, by simp [Msg.mkTimeSig]⟩
    have hsig2 : (Msg.mkTimeSig c 4 4 0).ty ≠ .noteOn ∧ (Msg.mkTimeSig c 4 4 0).ty ≠ .noteOff := by
      simp [Msg.mkTimeSig]
    obtain ⟨i1, i2⟩ := ga_insort (toAbs R2) (Msg.mkTimeSig c 4 4 0) r1 hsig1 hsig2
    rw [ga_sounding i1, i2, ← ga_sounding r1, r2, u3, s3]

/-- **routing / union**, on the closed form: the sounding set of loaded sequence `gi` is the union of
    the (counted) sounding sets of the tracks of group `gi` -/
theorem load_core (ppqn filePpq : Int) (hp : 0 < ppqn) (hf : 0 < filePpq)
    (tracks : List (List MidiEv)) (groups : List (List Nat)) (metaIdx : List Nat) (target : Int) (out : List Seq)
    (h : convert ppqn filePpq tracks groups metaIdx target = .ok out)
    (hnd : groups.flatten.Nodup) (hd : ∀ evs ∈ tracks, ∀ e ∈ evs, 0 ≤ e.time)
    (hga : ∀ i ∈ groups.flatten, GA (slotA ppqn filePpq tracks i))
    (gi : Nat) (g : List Nat) (hg : groups[gi]? = some g) (s s' : Seq) (a : List Msg)
    (hs : out[gi]? = some s) (ha : s.readAbs = .ok (s', a)) (k : Int × Int) (t : Int) :
    SoundingAt (eventsAbs a) k t ↔ ∃ i ∈ g, CS k t (slotA ppqn filePpq tracks i) := by
  obtain ⟨hne, ht0, ht1⟩ := convert_conds ppqn filePpq hp hf tracks groups metaIdx target out hnd hd h
  obtain ⟨M, d, gt, hM, hgt, hconv⟩ := convert_closed ppqn filePpq hp hf tracks groups metaIdx target hnd hd hne ht0 ht1
  rw [hconv] at h
  simp only [Except.ok.injEq] at h
  subst h
  have hxs : ∀ x ∈ g.map (slotA ppqn filePpq tracks), GA x := by
    intro x hx
    obtain ⟨i, hi, rfl⟩ := List.mem_map.1 hx
    exact hga i (List.mem_flatten.2 ⟨g, List.mem_of_getElem? hg, hi⟩)
  have hrel : (gmerge (slotA ppqn filePpq tracks) g).rel = C15.mergeRel ((g.map (slotA ppqn filePpq tracks)).map V) := by
    rw [gmerge_rel, List.map_map]; rfl
  have hfin : (∃ x ∈ g.map (slotA ppqn filePpq tracks), CS k t x) ↔ ∃ i ∈ g, CS k t (slotA ppqn filePpq tracks i) := by
    constructor
    · rintro ⟨x, hx, hcs⟩
      obtain ⟨i, hi, rfl⟩ := List.mem_map.1 hx
      exact ⟨i, hi, hcs⟩
    · rintro ⟨i, hi, hcs⟩
      exact ⟨_, List.mem_map.2 ⟨i, hi, rfl⟩, hcs⟩
  rw [← hfin]
  clear hfin
  generalize g.map (slotA ppqn filePpq tracks) = xs at hxs hrel ⊢
  generalize hR1 : (gmerge (slotA ppqn filePpq tracks) g).rel = R1 at hrel
  rw [getElem?_modifyAt] at hs
  by_cases hgi : gi = target.toNat
  · subst hgi
    rw [hg] at hgt; cases hgt
    simp only [if_true, List.getElem?_map, hg, Option.map_some, Option.some.injEq] at hs
    subst hs
    rw [hR1] at ha
    obtain ⟨f1, f2⟩ := finSeq_read d R1 M
    rw [f1] at ha
    simp only [Except.ok.injEq, Prod.mk.injEq] at ha
    obtain ⟨_, ha2⟩ := ha
    subst hrel
    rw [← ha2]
    exact out_sounding_target xs hxs M hM (d.getD 0) _ f2 k t
  · simp only [hgi, if_false, List.getElem?_map, hg, Option.map_some, Option.some.injEq] at hs
    subst hs
    rw [readAbs_stale _ rfl rfl] at ha
    simp only [Except.ok.injEq, Prod.mk.injEq] at ha
    obtain ⟨_, ha2⟩ := ha
    rw [← ha2, hR1, hrel]
    exact out_sounding xs hxs k t

/-! ## save then load -/

theorem altFrom_events (k : Int × Int) (r : List Msg) : ∀ (b : Bool) (c : Int),
    altFrom k b (eventsRelGo c r) ↔ altFrom k b r := by
  induction r with
  | nil => intro b c; simp [eventsRelGo]
  | cons m ms ih =>
    intro b c
    by_cases hw : m.ty = .wait
    · simp only [eventsRelGo, hw, beq_self_eq_true, if_true, altFrom, reduceCtorEq, and_false, if_false]
      exact ih b _
    · simp only [eventsRelGo, beq_iff_eq, hw, if_false, altFrom, Msg.nkey]
      rw [ih true c, ih false c, ih b c]
      exact Iff.rfl

theorem wf_events (r : List Msg) (h : WF r) : WF (eventsRel r) :=
  fun k => (altFrom_events k r false 0).2 (h k)

theorem toMidoGo_nonneg (r : List Msg) (hw : NonNegWaits r) (hn : ∀ m ∈ r, m.ty ≠ .wait → m.time = pyNone) :
    ∀ buf, 0 ≤ buf → ∀ e ∈ toMidoGo buf r, 0 ≤ e.time := by
  induction r with
  | nil => intro buf _ e he; simp [toMidoGo] at he
  | cons m ms ih =>
    intro buf hb e he
    have ih' := ih (fun x hx => hw x (List.mem_cons_of_mem _ hx)) (fun x hx => hn x (List.mem_cons_of_mem _ hx))
    have h1 := hw m List.mem_cons_self
    have h2 := hn m List.mem_cons_self
    have hbuf : 0 ≤ (if m.time != pyNone then buf + m.time else buf) := by
      by_cases hty : m.ty = .wait
      · have := h1 hty; split <;> omega
      · rw [h2 hty]; simp; exact hb
    cases hty : m.ty <;> simp only [toMidoGo, hty, List.mem_cons] at he
    all_goals first
      | exact ih' _ hbuf e he
      | (rcases he with rfl | he
         · exact hbuf
         · exact ih' 0 (Int.le_refl _) e he)

/-- what a relative-view event becomes after save and load at the same resolution -/
def noteOf (m : Msg) : Option Msg :=
  if m.ty = .noteOn then some (Msg.mkOn 0 m.note (if m.vel == pyNone then 127 else m.vel) m.time)
  else if m.ty = .noteOff then some (Msg.mkOff 0 m.note m.time) else none

/-- the loader's view of one event (its `time` is the absolute file tick) -/
def conv (pp : Int) (e : MidiEv) : Option Msg :=
  match convEvent true e (roundHalfEven (exactPos pp pp e.time)) with
  | some (false, m) => some m
  | _ => none

theorem curMsgs_cumulate (pp : Int) (evs : List MidiEv) : ∀ ticks,
    curMsgs pp pp ticks evs = (cumulate ticks evs).filterMap (conv pp) := by
  induction evs with
  | nil => intro ticks; rfl
  | cons e es ih =>
    intro ticks
    simp only [curMsgs, cumulate, List.filterMap_cons, conv, ih]
    have : convEvent true { e with time := ticks + e.time } (roundHalfEven (exactPos pp pp (ticks + e.time)))
        = convEvent true e (roundHalfEven (exactPos pp pp (ticks + e.time))) := rfl
    rw [this]
    split <;> simp_all

theorem exactPos_same (pp : Int) (hp : 0 < pp) (t : Int) : roundHalfEven (exactPos pp pp t) = t := by
  unfold exactPos
  have : (pp : Rat) ≠ 0 := by
    intro h
    have := Rat.intCast_eq_zero_iff.1 h
    omega
  rw [Rat.mul_div_cancel this, round_int]

theorem conv_shape (pp : Int) (hp : 0 < pp) (m : Msg) :
    (if emitted m then conv pp (midiShape m) else none) = noteOf m := by
  have hr : ∀ e : MidiEv, roundHalfEven (exactPos pp pp e.time) = e.time := fun e => exactPos_same pp hp _
  cases hty : m.ty <;>
    simp [emitted, midiShape, conv, convEvent, noteOf, hty, hr, Msg.mkOn, Msg.mkOff, Msg.mkTimeSig, pyNone]

theorem curMsgs_toMido (pp : Int) (hp : 0 < pp) (r : List Msg) (hn : ∀ m ∈ r, m.ty ≠ .wait → m.time = pyNone)
    (hw : NonNegWaits r) : curMsgs pp pp 0 (toMido r) = (eventsRel r).filterMap noteOf := by
  rw [curMsgs_cumulate, toMido_ticks_nonneg r hn hw, List.filterMap_map, List.filterMap_filter]
  congr 1
  funext m
  simpa using conv_shape pp hp m

theorem N_counts (c0 p : Int) (L : List Msg)
    (hch : ∀ m ∈ L, (m.ty = .noteOn ∨ m.ty = .noteOff) → m.ch = c0) :
    ons (0, p) (L.filterMap noteOf) = ons (c0, p) L ∧ offs (0, p) (L.filterMap noteOf) = offs (c0, p) L := by
  induction L with
  | nil => exact ⟨rfl, rfl⟩
  | cons m ms ih =>
    obtain ⟨ih1, ih2⟩ := ih (fun x hx => hch x (List.mem_cons_of_mem _ hx))
    have hm := hch m List.mem_cons_self
    by_cases hon : m.ty = .noteOn
    · have hc := hm (Or.inl hon)
      have e : (m :: ms).filterMap noteOf
          = Msg.mkOn 0 m.note (if m.vel == pyNone then 127 else m.vel) m.time :: ms.filterMap noteOf := by
        simp [noteOf, hon]
      rw [e]
      by_cases hp : m.note = p
      · have h1 : (Msg.mkOn 0 m.note (if m.vel == pyNone then 127 else m.vel) m.time).nkey = (0, p)
            ∧ (Msg.mkOn 0 m.note (if m.vel == pyNone then 127 else m.vel) m.time).ty = .noteOn := by
          simp [Msg.mkOn, Msg.nkey, hp]
        have h2 : m.nkey = (c0, p) ∧ m.ty = .noteOn := by simp [Msg.nkey, hc, hp, hon]
        rw [ons_cons_on h1, ons_cons_on h2, offs_cons_on h1, offs_cons_on h2, ih1, ih2]
        exact ⟨rfl, rfl⟩
      · have h1 : ∀ ty, ¬((Msg.mkOn 0 m.note (if m.vel == pyNone then 127 else m.vel) m.time).nkey = (0, p)
            ∧ (Msg.mkOn 0 m.note (if m.vel == pyNone then 127 else m.vel) m.time).ty = ty) := by
          simp [Msg.mkOn, Msg.nkey, hp]
        have h2 : ∀ ty, ¬(m.nkey = (c0, p) ∧ m.ty = ty) := by simp [Msg.nkey, hp]
        rw [ons_cons_other (h1 _), ons_cons_other (h2 _), offs_cons_other (h1 _), offs_cons_other (h2 _), ih1, ih2]
        exact ⟨rfl, rfl⟩
    · by_cases hoff : m.ty = .noteOff
      · have hc := hm (Or.inr hoff)
        have e : (m :: ms).filterMap noteOf = Msg.mkOff 0 m.note m.time :: ms.filterMap noteOf := by
          simp [noteOf, hoff]
        rw [e]
        by_cases hp : m.note = p
        · have h1 : (Msg.mkOff 0 m.note m.time).nkey = (0, p) ∧ (Msg.mkOff 0 m.note m.time).ty = .noteOff := by
            simp [Msg.mkOff, Msg.nkey, hp]
          have h2 : m.nkey = (c0, p) ∧ m.ty = .noteOff := by simp [Msg.nkey, hc, hp, hoff]
          rw [ons_cons_off h1, ons_cons_off h2, offs_cons_off h1, offs_cons_off h2, ih1, ih2]
          exact ⟨rfl, rfl⟩
        · have h1 : ∀ ty, ¬((Msg.mkOff 0 m.note m.time).nkey = (0, p) ∧ (Msg.mkOff 0 m.note m.time).ty = ty) := by
            simp [Msg.mkOff, Msg.nkey, hp]
          have h2 : ∀ ty, ¬(m.nkey = (c0, p) ∧ m.ty = ty) := by simp [Msg.nkey, hp]
          rw [ons_cons_other (h1 _), ons_cons_other (h2 _), offs_cons_other (h1 _), offs_cons_other (h2 _), ih1, ih2]
          exact ⟨rfl, rfl⟩
      · have e : (m :: ms).filterMap noteOf = ms.filterMap noteOf := by
          simp [noteOf, hon, hoff]
        have h2 : ¬(m.nkey = (c0, p) ∧ m.ty = .noteOn) := fun h => hon h.2
        have h3 : ¬(m.nkey = (c0, p) ∧ m.ty = .noteOff) := fun h => hoff h.2
        rw [e, ons_cons_other h2, offs_cons_other h3]
        exact ⟨ih1, ih2⟩

theorem noteOf_time (m x : Msg) (h : noteOf m = some x) : x.time = m.time ∧ x.ch = 0 := by
  unfold noteOf at h
  split at h
  · simp at h; subst h; simp [Msg.mkOn]
  · split at h
    · simp at h; subst h; simp [Msg.mkOff]
    · simp at h

theorem N_filter (q : Int → Bool) (L : List Msg) :
    (L.filterMap noteOf).filter (fun m => q m.time) = (L.filter (fun m => q m.time)).filterMap noteOf := by
  induction L with
  | nil => rfl
  | cons m ms ih =>
    cases hn : noteOf m with
    | none =>
      by_cases hq : q m.time = true <;> simp [hn, hq, ih]
    | some x =>
      have := (noteOf_time m x hn).1
      by_cases hq : q m.time = true <;> simp [hn, hq, ih, this]

theorem N_upTo (s : Int) (L : List Msg) : upTo s (L.filterMap noteOf) = (upTo s L).filterMap noteOf :=
  N_filter (fun x => decide (x ≤ s)) L

theorem N_before (s : Int) (L : List Msg) : before s (L.filterMap noteOf) = (before s L).filterMap noteOf :=
  N_filter (fun x => decide (x < s)) L

theorem N_other (c p : Int) (hc : c ≠ 0) (L : List Msg) (l : List Msg) (hl : l.Sublist (L.filterMap noteOf)) :
    ons (c, p) l = 0 ∧ offs (c, p) l = 0 := by
  have hch : ∀ x ∈ l, x.ch = 0 := by
    intro x hx
    obtain ⟨m, _, hm⟩ := List.mem_filterMap.1 (hl.subset hx)
    exact (noteOf_time m x hm).2
  constructor
  · unfold ons
    rw [List.countP_eq_zero]
    intro x hx
    have := hch x hx
    simp [isOnK, Msg.nkey, this]
    intro h; exact absurd h.symm hc
  · unfold offs
    rw [List.countP_eq_zero]
    intro x hx
    have := hch x hx
    simp [isOffK, Msg.nkey, this]
    intro h; exact absurd h.symm hc

/-- the loaded notes of a single-channel saved sequence: `CG` on every key, sounding like the original -/
theorem N_cg (c0 : Int) (E : List Msg) (hch : ∀ m ∈ E, (m.ty = .noteOn ∨ m.ty = .noteOff) → m.ch = c0)
    (hcg : ∀ p, CG (c0, p) E) :
    (∀ k, CG k (E.filterMap noteOf)) ∧ ∀ p t, CS (0, p) t (E.filterMap noteOf) ↔ CS (c0, p) t E := by
  have hU : ∀ s, ∀ m ∈ upTo s E, (m.ty = .noteOn ∨ m.ty = .noteOff) → m.ch = c0 :=
    fun s m hm => hch m (List.mem_filter.1 hm).1
  have hB : ∀ s, ∀ m ∈ before s E, (m.ty = .noteOn ∨ m.ty = .noteOff) → m.ch = c0 :=
    fun s m hm => hch m (List.mem_filter.1 hm).1
  constructor
  · rintro ⟨c, p⟩
    by_cases hc : c = 0
    · subst hc
      refine ⟨fun s => ?_, ?_⟩
      · rw [N_upTo, N_before, (N_counts c0 p _ (hU s)).2, (N_counts c0 p _ (hB s)).1]
        exact (hcg p).1 s
      · rw [(N_counts c0 p E hch).1, (N_counts c0 p E hch).2]
        exact (hcg p).2
    · refine ⟨fun s => ?_, ?_⟩
      · have := (N_other c p hc E (upTo s (E.filterMap noteOf)) List.filter_sublist).2
        omega
      · rw [(N_other c p hc E _ (List.Sublist.refl _)).1, (N_other c p hc E _ (List.Sublist.refl _)).2]
  · intro p t
    unfold CS
    rw [N_upTo, (N_counts c0 p _ (hU t)).2, (N_counts c0 p _ (hU t)).1]

theorem eventsRelGo_mem (r : List Msg) : ∀ (c : Int), ∀ e ∈ eventsRelGo c r,
    ∃ m ∈ r, e.ty = m.ty ∧ e.ch = m.ch := by
  induction r with
  | nil => intro c e he; simp [eventsRelGo] at he
  | cons m ms ih =>
    intro c e he
    by_cases hw : m.ty = .wait
    · simp only [eventsRelGo, hw, beq_self_eq_true, if_true] at he
      obtain ⟨x, hx, h⟩ := ih _ e he
      exact ⟨x, List.mem_cons_of_mem _ hx, h⟩
    · simp [eventsRelGo, hw] at he
      rcases he with rfl | he
      · exact ⟨m, List.mem_cons_self, rfl, rfl⟩
      · obtain ⟨x, hx, h⟩ := ih _ e he
        exact ⟨x, List.mem_cons_of_mem _ hx, h⟩

theorem counts_other_channel (c0 c p : Int) (hc : c ≠ c0) (L : List Msg)
    (hch : ∀ m ∈ L, (m.ty = .noteOn ∨ m.ty = .noteOff) → m.ch = c0) : ons (c, p) L = 0 := by
  unfold ons
  rw [List.countP_eq_zero]
  intro x hx
  simp only [isOnK, Msg.nkey]
  intro hk
  simp only [decide_eq_true_eq, Prod.mk.injEq] at hk
  have := hch x hx (Or.inl hk.2)
  exact hc (hk.1.1.symm.trans this)

/-- one saved sequence, as a loaded track at the same resolution -/
theorem saved_track (pp : Int) (hp : 0 < pp) (r : List Msg) (hok : OkRel r)
    (hn : ∀ m ∈ r, m.ty ≠ .wait → m.time = pyNone) (hwf : WF r) (hpos : C15.PosDur (eventsRel r))
    (c0 : Int) (hch : ∀ m ∈ r, (m.ty = .noteOn ∨ m.ty = .noteOff) → m.ch = c0) :
    (∀ e ∈ toMido r, 0 ≤ e.time) ∧ GA (curMsgs pp pp 0 (toMido r)) ∧
    ∀ p t, CS (0, p) t (curMsgs pp pp 0 (toMido r)) ↔ ∃ c, SoundingAt (eventsRel r) (c, p) t := by
  have hd : ∀ e ∈ toMido r, 0 ≤ e.time := toMidoGo_nonneg r hok.1 hn 0 (Int.le_refl _)
  have hchE : ∀ m ∈ eventsRel r, (m.ty = .noteOn ∨ m.ty = .noteOff) → m.ch = c0 := by
    intro e he hty
    obtain ⟨m, hm, h1, h2⟩ := eventsRelGo_mem r 0 e he
    rw [h2]; exact hch m hm (by rw [← h1]; exact hty)
  have hcgE : ∀ k, CG k (eventsRel r) := fun k => cg_of_wf _ (wf_events r hwf) hpos k
  have hsE : Sorted (eventsRel r) := events_sorted r 0 hok.1
  obtain ⟨n1, n2⟩ := N_cg c0 (eventsRel r) hchE (fun p => hcgE (c0, p))
  have heq := curMsgs_toMido pp hp r hn hok.1
  refine ⟨hd, ⟨(curMsgs_okAbs pp pp hp hp 0 (Int.le_refl _) _ hd).1, by rw [heq]; exact n1⟩, fun p t => ?_⟩
  rw [heq, n2]
  constructor
  · intro h
    exact ⟨c0, (sounding_cs _ t _ hsE (hcgE _)).2 h⟩
  · rintro ⟨c, h⟩
    have hcs := (sounding_cs _ t _ hsE (hcgE _)).1 h
    by_cases hc : c = c0
    · subst hc; exact hcs
    · exfalso
      unfold CS at hcs
      have := counts_other_channel c0 c p hc (upTo t (eventsRel r))
        (fun m hm => hchE m (List.mem_filter.1 hm).1)
      omega

theorem range_groups_flatten (n : Nat) : ((List.range n).map (fun i => [i])).flatten = List.range n := by
  induction n with
  | zero => rfl
  | succ n ih => simp [List.range_succ, ih]

theorem save_load_core (pp : Int) (hp : 0 < pp) (rels : List (List Msg)) (hne : rels ≠ [])
    (hS : ∀ r ∈ rels, OkRel r ∧ (∀ m ∈ r, m.ty ≠ .wait → m.time = pyNone) ∧ WF r ∧ C15.PosDur (eventsRel r)
      ∧ ∃ c, ∀ m ∈ r, (m.ty = .noteOn ∨ m.ty = .noteOff) → m.ch = c) :
    ∃ out, convert pp pp (rels.map toMido) ((List.range rels.length).map (fun i => [i])) (List.range rels.length) 0
        = .ok out ∧ out.length = rels.length ∧
      ∀ (i : Nat) (r : List Msg) (s s' : Seq) (a : List Msg), rels[i]? = some r → out[i]? = some s →
        s.readAbs = Except.ok (s', a) →
        ∀ p t, SoundingAt (eventsAbs a) (0, p) t ↔ ∃ c, SoundingAt (eventsRel r) (c, p) t := by
  have hnd : ((List.range rels.length).map (fun i => [i])).flatten.Nodup := by
    rw [range_groups_flatten]; exact List.nodup_range
  have hd : ∀ evs ∈ rels.map toMido, ∀ e ∈ evs, 0 ≤ e.time := by
    intro evs hevs
    obtain ⟨r, hr, rfl⟩ := List.mem_map.1 hevs
    obtain ⟨h1, h2, h3, h4, c, h5⟩ := hS r hr
    exact (saved_track pp hp r h1 h2 h3 h4 c h5).1
  have hlen : 0 < rels.length := List.length_pos_iff.2 hne
  obtain ⟨M, d, gt, hM, hgt, hconv⟩ := convert_closed pp pp hp hp (rels.map toMido)
    ((List.range rels.length).map (fun i => [i])) (List.range rels.length) 0 hnd hd
    (by intro g hg; obtain ⟨i, _, rfl⟩ := List.mem_map.1 hg; simp)
    (Int.le_refl _) (by simp; omega)
  refine ⟨_, hconv, by simp [length_modifyAt], ?_⟩
  intro i r s s' a hr hs ha p t
  have hi : i < rels.length := by
    rcases Nat.lt_or_ge i rels.length with h | h
    · exact h
    · rw [List.getElem?_eq_none h] at hr; simp at hr
  have hg : ((List.range rels.length).map (fun i => [i]))[i]? = some [i] := by
    simp [hi]
  have hslot : ∀ j ∈ ((List.range rels.length).map (fun i => [i])).flatten, ∃ r', rels[j]? = some r' ∧
      slotA pp pp (rels.map toMido) j = curMsgs pp pp 0 (toMido r') := by
    intro j hj
    rw [range_groups_flatten, List.mem_range] at hj
    exact ⟨rels[j], List.getElem?_eq_getElem hj, by simp [slotA, hj]⟩
  have hga : ∀ j ∈ ((List.range rels.length).map (fun i => [i])).flatten, GA (slotA pp pp (rels.map toMido) j) := by
    intro j hj
    obtain ⟨r', hr', e⟩ := hslot j hj
    obtain ⟨h1, h2, h3, h4, c, h5⟩ := hS r' (List.mem_of_getElem? hr')
    rw [e]; exact (saved_track pp hp r' h1 h2 h3 h4 c h5).2.1
  rw [load_core pp pp hp hp _ _ _ 0 _ hconv hnd hd hga i [i] hg s s' a hs ha (0, p) t]
  obtain ⟨r', hr', e⟩ := hslot i (by rw [range_groups_flatten, List.mem_range]; exact hi)
  rw [hr] at hr'; cases hr'
  obtain ⟨h1, h2, h3, h4, c, h5⟩ := hS r (List.mem_of_getElem? hr)
  simp only [List.mem_singleton, exists_eq_left, e]
  exact (saved_track pp hp r h1 h2 h3 h4 c h5).2.2 p t

/-! ## signatures: where they can be -/

def isSig (m : Msg) : Prop := m.ty = .timeSignature ∨ m.ty = .keySignature

/-- an absolute list without signatures (and without waits) -/
def AbsI (a : List Msg) : Prop := ∀ m ∈ a, ¬ isSig m ∧ m.ty ≠ .wait
/-- a legal relative list without signatures -/
def RelI (r : List Msg) : Prop := OkRel r ∧ ∀ m ∈ r, ¬ isSig m
/-- a sequence whose fresh views carry no signature -/
def SeqI (q : Seq) : Prop := Good q ∧ (q.absStale = false → AbsI q.abs) ∧ (q.relStale = false → RelI q.rel)
/-- a merged sequence: relative view fresh and without signatures, absolute view stale -/
def MI (q : Seq) : Prop := q.absStale = true ∧ q.relStale = false ∧ RelI q.rel

theorem toRelGo_ty (a : List Msg) : ∀ (c : Int), ∀ x ∈ toRelGo c a, x.ty = .wait ∨ ∃ m ∈ a, x.ty = m.ty := by
  induction a with
  | nil => intro c x hx; simp [toRelGo] at hx
  | cons m ms ih =>
    intro c x hx
    simp only [toRelGo, List.mem_append] at hx
    rcases hx with (hx | hx) | hx
    · split at hx
      · simp at hx; subst hx; left; rfl
      · simp at hx
    · split at hx
      · simp at hx; subst hx; right; exact ⟨m, List.mem_cons_self, rfl⟩
      · simp at hx
    · rcases ih _ x hx with h | ⟨y, hy, h⟩
      · exact Or.inl h
      · exact Or.inr ⟨y, List.mem_cons_of_mem _ hy, h⟩

theorem toRel_relI (a : List Msg) (h : AbsI a) : RelI (toRel a) := by
  have hw : ∀ m ∈ a, m.ty ≠ .wait := fun m hm => (h m hm).2
  refine ⟨⟨fun m hm => (toRelGo_ok a 0 hw m hm).1, fun m hm => (toRelGo_ok a 0 hw m hm).2⟩, ?_⟩
  intro x hx
  rcases toRelGo_ty a 0 x hx with hty | ⟨m, hm, hty⟩
  · simp [isSig, hty]
  · have := (h m hm).1
    simpa [isSig, hty] using this

theorem normalise_relI (r : List Msg) (h : RelI r) : RelI (normalise r) := by
  refine ⟨(C07.ok_out r h.1).1, ?_⟩
  intro m hm
  rcases normalise_entries r m hm with h1 | h1
  · simp [isSig, h1.1]
  · exact h.2 m h1.2

theorem mem_toAbs (r : List Msg) (x : Msg) (hx : x ∈ toAbs r) : x.ty = .internal ∨ x ∈ eventsRel r := by
  rw [toAbs_eq] at hx
  split at hx
  · exact Or.inr ((mem_sortAbs _ _).1 hx)
  · rcases List.mem_cons.1 ((insort_perm _ _).mem_iff.1 hx) with rfl | hx
    · exact Or.inl rfl
    · exact Or.inr ((mem_sortAbs _ _).1 hx)

theorem toAbs_absI (r : List Msg) (h : RelI r) : AbsI (toAbs r) := by
  intro x hx
  refine ⟨?_, ((toAbs_struct r h.1).2.1 x hx).2.2⟩
  rcases mem_toAbs r x hx with hty | he
  · simp [isSig, hty]
  · obtain ⟨_, m, hm, hty⟩ := eventsRelGo_ty r 0 x he
    have := h.2 m hm
    simpa [isSig, hty] using this

theorem mergeAbs_absI (a : List Msg) (o : List (List Msg)) (ha : AbsI a) (ho : ∀ x ∈ o, AbsI x) :
    AbsI (mergeAbs a o) := by
  intro m hm
  rcases List.mem_append.1 ((mem_sortAbs _ _).1 hm) with hm | hm
  · exact ha m hm
  · obtain ⟨x, hx, hmx⟩ := List.mem_flatten.1 hm
    exact ho x hx m hmx

theorem nz_mi (a : List Msg) (h : AbsI a) : MI (nz a) :=
  ⟨rfl, rfl, normalise_relI _ (toRel_relI a h)⟩

theorem seqI_new : SeqI Seq.new := ⟨good_new, fun _ => by simp [AbsI, Seq.new], fun h => by simp [Seq.new] at h⟩

theorem addAbsMsg_seqI (q q' : Seq) (m : Msg) (h : SeqI q) (hm : ¬ isSig m ∧ m.ty ≠ .wait)
    (hq : q.addAbsMsg m = .ok q') : SeqI q' := by
  obtain ⟨hg, ha, hr⟩ := h
  have key : ∀ a : List Msg, AbsI a → AbsI (insort a m) := by
    intro a haI x hx
    rcases List.mem_cons.1 ((insort_perm a m).mem_iff.1 hx) with rfl | hx
    · exact hm
    · exact haI x hx
  unfold Seq.addAbsMsg Seq.onAbs Seq.readAbs at hq
  cases h1 : q.absStale <;> cases h2 : q.relStale <;> simp [h1, h2, bind, Except.bind] at hq
  all_goals subst hq
  · exact ⟨Or.inl rfl, fun _ => key _ (ha h1), fun h => by simp at h⟩
  · exact ⟨Or.inl rfl, fun _ => key _ (ha h1), fun h => by simp at h⟩
  · exact ⟨Or.inl rfl, fun _ => key _ (toAbs_absI _ (hr h2)), fun h => by simp at h⟩

theorem normaliseSeq_mi (q q' : Seq) (h : SeqI q) (hq : q.normaliseSeq = .ok q') : MI q' := by
  obtain ⟨hg, ha, hr⟩ := h
  unfold Seq.normaliseSeq Seq.onRel Seq.readRel at hq
  cases h1 : q.absStale <;> cases h2 : q.relStale <;> simp [h1, h2, bind, Except.bind] at hq
  all_goals subst hq
  · exact ⟨rfl, rfl, normalise_relI _ (hr h2)⟩
  · exact ⟨rfl, rfl, normalise_relI _ (toRel_relI _ (ha h1))⟩
  · exact ⟨rfl, rfl, normalise_relI _ (hr h2)⟩

def SlotsI (s : ConvSt) : Prop := ∀ g ∈ s.seqs, ∀ q ∈ g, SeqI q

theorem addMeta_seqs (s s' : ConvSt) (m : Msg) (h : s.addMeta m = .ok s') : s'.seqs = s.seqs := by
  unfold ConvSt.addMeta at h
  simp only [bind, Except.bind] at h
  split at h
  · simp at h
  · simp at h; subst h; rfl

theorem addCur_slotsI (s s' : ConvSt) (loc : Option (Nat × Nat)) (m : Msg) (h : SlotsI s)
    (hm : ¬ isSig m ∧ m.ty ≠ .wait) (hs : s.addCur loc m = .ok s') : SlotsI s' := by
  unfold ConvSt.addCur at hs
  split at hs
  · rename_i gi pos
    split at hs
    · rename_i q hq
      have hqI : SeqI q := by
        cases hg : s.seqs[gi]? with
        | none => simp [hg] at hq
        | some g =>
          simp [hg] at hq
          exact h g (List.mem_of_getElem? hg) q (List.mem_of_getElem? hq)
      simp only [bind, Except.bind] at hs
      split at hs
      · simp at hs
      · rename_i q' hq'
        simp at hs; subst hs
        have hq'I := addAbsMsg_seqI q q' m hqI hm hq'
        intro g hg x hx
        rcases mem_modifyAt _ _ _ _ hg with hg | ⟨g0, hg0, rfl⟩
        · exact h g hg x hx
        · rcases mem_modifyAt _ _ _ _ hx with hx | ⟨_, _, rfl⟩
          · exact h g0 hg0 x hx
          · exact hq'I
    · simp at hs
  · intro g hg; rw [addMeta_seqs s s' m hs] at hg; exact h g hg

theorem convMsg_slotsI (ppqn filePpq : Int) (loc : Option (Nat × Nat)) (acc r : ConvSt × Int) (m : MidiEv)
    (h : SlotsI acc.1) (hr : convMsg ppqn filePpq loc acc m = .ok r) : SlotsI r.1 := by
  obtain ⟨s, ticks⟩ := acc
  rw [convMsg_eq] at hr
  have hw : SlotsI (withDefCh s m) := h
  split at hr
  · split at hr
    · rename_i s2 h2
      simp at hr; subst hr
      intro g hg; rw [addMeta_seqs _ _ _ h2] at hg; exact hw g hg
    · simp at hr
  · rename_i msg hce
    obtain ⟨_, hty⟩ := convEvent_cur _ _ _ _ hce
    split at hr
    · rename_i s2 h2
      simp at hr; subst hr
      exact addCur_slotsI _ _ loc msg hw (by rcases hty with h | h | h <;> simp [isSig, h]) h2
    · simp at hr
  · simp at hr; subst hr; exact hw

theorem convTrack_slotsI (ppqn filePpq : Int) (groups : List (List Nat)) (metaIdx : List Nat)
    (s : ConvSt) (it : List MidiEv × Nat) (h : SlotsI s) :
    Res (fun _ => True) SlotsI (convTrack ppqn filePpq groups metaIdx s it) := by
  unfold convTrack
  simp only
  split
  · exact h
  · have := foldlM'_res (convMsg ppqn filePpq (firstGroupOf groups it.2)) (fun _ => True) (fun r => SlotsI r.1) it.1
      (fun b x _ hb => by
        cases hc : convMsg ppqn filePpq (firstGroupOf groups it.2) b x with
        | error e => trivial
        | ok r => exact convMsg_slotsI _ _ _ b r x hb hc) (s, 0) h
    split
    · rename_i r hr; exact this.of_ok hr
    · trivial

theorem tracks_slotsI (ppqn filePpq : Int) (tracks : List (List MidiEv)) (groups : List (List Nat))
    (metaIdx : List Nat) (s : ConvSt)
    (h : foldlM' (convTrack ppqn filePpq groups metaIdx)
        { seqs := groups.map (fun g => g.map (fun _ => Seq.new)) } tracks.zipIdx = .ok s) : SlotsI s := by
  have := foldlM'_res (convTrack ppqn filePpq groups metaIdx) (fun _ => True) SlotsI tracks.zipIdx
    (fun b x _ hb => convTrack_slotsI _ _ _ _ b x hb)
    { seqs := groups.map (fun g => g.map (fun _ => Seq.new)) } (by
      intro g hg q hq
      simp only [List.mem_map] at hg
      obtain ⟨g0, _, rfl⟩ := hg
      simp only [List.mem_map] at hq
      obtain ⟨_, _, rfl⟩ := hq
      exact seqI_new)
  exact this.of_ok h

/-- every merged sequence has a fresh signature-free relative view -/
theorem groupStep_mi (acc acc' : List Seq) (g : List Seq) (hg : ∀ q ∈ g, SeqI q) (hacc : ∀ q ∈ acc, MI q)
    (h : groupStep acc g = .ok acc') : ∀ q ∈ acc', MI q := by
  unfold groupStep at h
  simp only [bind, Except.bind] at h
  have h1 := foldlM'_res (fun (a : List Seq) q => do let q' ← q.normaliseSeq; .ok (a ++ [q']))
    (fun _ => True) (fun a => ∀ q ∈ a, MI q) g
    (fun b x hx hb => by
      simp only [bind, Except.bind]
      cases hn : x.normaliseSeq with
      | error e => trivial
      | ok q' =>
        intro y hy
        simp at hy
        rcases hy with hy | rfl
        · exact hb y hy
        · exact normaliseSeq_mi x _ (hg x hx) hn) [] (by simp)
  simp only [bind, Except.bind] at h1
  split at h
  · simp at h
  · rename_i g' hg'
    have h2 := h1.of_ok hg'
    split at h
    · simp at h
    · rename_i t rest
      have h3 := foldlM'_res (fun (a : List (List Msg)) (q : Seq) => do let (_, x) ← q.readAbs; .ok (a ++ [x]))
        (fun _ => True) (fun a => ∀ x ∈ a, AbsI x) rest
        (fun b x hx hb => by
          obtain ⟨m1, m2, m3⟩ := h2 x (List.mem_cons_of_mem _ hx)
          simp only [bind, Except.bind, readAbs_stale x m1 m2]
          intro y hy
          simp at hy
          rcases hy with hy | rfl
          · exact hb y hy
          · exact toAbs_absI _ m3) [] (by simp)
      simp only [bind, Except.bind] at h3
      split at h
      · simp at h
      · rename_i ra hra
        have h4 := h3.of_ok hra
        obtain ⟨m1, m2, m3⟩ := h2 t List.mem_cons_self
        rw [mergeSeq_stale t ra m1 m2] at h
        simp at h; subst h
        intro q hq
        simp at hq
        rcases hq with hq | rfl
        · exact hacc q hq
        · exact nz_mi _ (mergeAbs_absI _ _ (toAbs_absI _ m3) h4)

theorem groups_mi (l : List (List Seq)) (hl : ∀ g ∈ l, ∀ q ∈ g, SeqI q) (r : List Seq)
    (h : foldlM' groupStep [] l = .ok r) : ∀ q ∈ r, MI q := by
  have := foldlM'_res groupStep (fun _ => True) (fun a => ∀ q ∈ a, MI q) l
    (fun b x hx hb => by
      cases hc : groupStep b x with
      | error e => trivial
      | ok b' => exact groupStep_mi b b' x (hl x hx) hb hc) [] (by simp)
  exact this.of_ok h

theorem finish_shape (s : ConvSt) (merged : List Seq) (target : Int) (out : List Seq)
    (h : finish s merged target = .ok out) :
    0 ≤ target ∧ ∃ x, out = modifyAt (fun _ => x) target.toNat merged := by
  by_cases hc : target < 0 ∨ (merged.length : Int) ≤ target
  · rw [finish_bad s merged target hc] at h; simp at h
  have hc' : (decide (target < 0) || decide (target ≥ (merged.length : Int))) = false := by
    simp only [not_or] at hc
    simp [hc.1, hc.2]
  refine ⟨by omega, ?_⟩
  unfold finish at h
  simp only [bind, Except.bind, hc', Bool.false_eq_true, if_false] at h
  split at h
  · simp at h
  · split at h
    · simp at h
    · split at h
      · simp at h
      · split at h
        · simp at h
        · split at h
          · simp only [Except.ok.injEq] at h
            exact ⟨_, h.symm⟩
          · split at h
            · simp at h
            · simp only [Except.ok.injEq] at h
              exact ⟨_, h.symm⟩

/-- sequences other than the meta target carry no signature -/
theorem sig_only_core (ppqn filePpq : Int) (tracks : List (List MidiEv)) (groups : List (List Nat))
    (metaIdx : List Nat) (target : Int) (out : List Seq)
    (h : convert ppqn filePpq tracks groups metaIdx target = .ok out)
    (gi : Nat) (hne : (gi : Int) ≠ target) (s s' : Seq) (a : List Msg)
    (hs : out[gi]? = some s) (ha : s.readAbs = .ok (s', a)) :
    ∀ m ∈ a, m.ty ≠ .timeSignature ∧ m.ty ≠ .keySignature := by
  rw [convert_eq] at h
  simp only [bind, Except.bind] at h
  split at h
  · simp at h
  · rename_i s0 hs0
    have hI := tracks_slotsI ppqn filePpq tracks groups metaIdx s0 hs0
    split at h
    · simp at h
    · rename_i merged hm
      have hMI := groups_mi s0.seqs hI merged hm
      obtain ⟨ht0, x, hout⟩ := finish_shape s0 merged target out h
      subst hout
      rw [getElem?_modifyAt] at hs
      have hgi : gi ≠ target.toNat := by omega
      simp only [hgi, if_false] at hs
      obtain ⟨m1, m2, m3⟩ := hMI s (List.mem_of_getElem? hs)
      rw [readAbs_stale s m1 m2] at ha
      simp only [Except.ok.injEq, Prod.mk.injEq] at ha
      obtain ⟨_, rfl⟩ := ha
      intro m hm
      have := (toAbs_absI _ m3 m hm).1
      simp only [isSig, not_or] at this
      exact this

/-! ## signatures: where they come from -/

/-- the meta sequence is a legal absolute list whose signatures all satisfy `prov` -/
def MetaI (prov : Msg → Prop) (s : ConvSt) : Prop :=
  ∃ M, s.metaSeq = Seq.ofAbs M ∧ OkAbs M ∧ ∀ m ∈ M, isSig m → prov m

theorem addMeta_metaI (prov : Msg → Prop) (s s' : ConvSt) (m : Msg) (h : MetaI prov s)
    (hp : isSig m → prov m) (h0 : 0 ≤ m.time) (hw : m.ty ≠ .wait) (hs : s.addMeta m = .ok s') : MetaI prov s' := by
  obtain ⟨M, hM, hok, hprov⟩ := h
  rw [addMeta_ofAbs s M hM m] at hs
  simp only [Except.ok.injEq] at hs
  subst hs
  refine ⟨insort M m, rfl, C04.insort_okA M m hok ⟨h0, hw⟩, ?_⟩
  intro x hx hsig
  rcases List.mem_cons.1 ((insort_perm M m).mem_iff.1 hx) with rfl | hx
  · exact hp hsig
  · exact hprov x hx hsig

theorem addCur_metaI (prov : Msg → Prop) (s s' : ConvSt) (loc : Option (Nat × Nat)) (m : Msg) (h : MetaI prov s)
    (hn : ¬ isSig m) (h0 : 0 ≤ m.time) (hw : m.ty ≠ .wait) (hs : s.addCur loc m = .ok s') : MetaI prov s' := by
  unfold ConvSt.addCur at hs
  split at hs
  · split at hs
    · simp only [bind, Except.bind] at hs
      split at hs
      · simp at hs
      · simp at hs; subst hs; exact h
    · simp at hs
  · exact addMeta_metaI prov s s' m h (fun hsig => absurd hsig hn) h0 hw hs

theorem inner_metaI (ppqn filePpq : Int) (hp : 0 < ppqn) (hf : 0 < filePpq) (prov : Msg → Prop)
    (loc : Option (Nat × Nat)) (es : List MidiEv) :
    ∀ (ticks : Int) (s : ConvSt) (r : ConvSt × Int), 0 ≤ ticks → (∀ e ∈ es, 0 ≤ e.time) → MetaI prov s →
      (∀ m ∈ metMsgs ppqn filePpq loc.isSome ticks es, isSig m → prov m) →
      foldlM' (convMsg ppqn filePpq loc) (s, ticks) es = .ok r → MetaI prov r.1 := by
  induction es with
  | nil => intro ticks s r _ _ h _ hr; simp [foldlM'] at hr; subst hr; exact h
  | cons e es ih =>
    intro ticks s r ht hd h hprov hr
    have he := hd e List.mem_cons_self
    have hd' : ∀ x ∈ es, 0 ≤ x.time := fun x hx => hd x (List.mem_cons_of_mem _ hx)
    have ht' : 0 ≤ ticks + e.time := by omega
    have hrt := exactPos_nonneg ppqn filePpq hp hf _ ht'
    have hw : MetaI prov (withDefCh s e) := h
    unfold foldlM' at hr
    split at hr
    · rename_i b' hb'
      obtain ⟨s2, t2⟩ := b'
      rw [convMsg_eq] at hb'
      cases hce : convEvent loc.isSome e (roundHalfEven (exactPos ppqn filePpq (ticks + e.time))) with
      | none =>
        rw [hce] at hb'
        simp only [Except.ok.injEq, Prod.mk.injEq] at hb'
        obtain ⟨rfl, rfl⟩ := hb'
        apply ih _ _ r ht' hd' hw _ hr
        intro m hm
        apply hprov m
        simp only [metMsgs, hce]; exact hm
      | some dm =>
        obtain ⟨d, msg⟩ := dm
        rw [hce] at hb'
        cases d with
        | true =>
          obtain ⟨hmt, hmty⟩ := convEvent_meta _ _ _ _ hce
          simp only at hb'
          split at hb'
          · rename_i s3 h3
            simp only [Except.ok.injEq, Prod.mk.injEq] at hb'
            obtain ⟨rfl, rfl⟩ := hb'
            have hmem : ∀ m ∈ msg :: metMsgs ppqn filePpq loc.isSome (ticks + e.time) es, isSig m → prov m := by
              intro m hm
              apply hprov m
              simp only [metMsgs, hce]; exact hm
            apply ih _ _ r ht' hd' _ (fun m hm => hmem m (List.mem_cons_of_mem _ hm)) hr
            exact addMeta_metaI prov _ _ msg hw (hmem msg List.mem_cons_self) (by rw [hmt]; exact hrt)
              (by rcases hmty with h | h | h <;> simp [h]) h3
          · simp at hb'
        | false =>
          obtain ⟨hmt, hmty⟩ := convEvent_cur _ _ _ _ hce
          simp only at hb'
          split at hb'
          · rename_i s3 h3
            simp only [Except.ok.injEq, Prod.mk.injEq] at hb'
            obtain ⟨rfl, rfl⟩ := hb'
            apply ih _ _ r ht' hd' _ _ hr
            · exact addCur_metaI prov _ _ loc msg hw (by rcases hmty with h | h | h <;> simp [isSig, h])
                (by rw [hmt]; exact hrt) (by rcases hmty with h | h | h <;> simp [h]) h3
            · intro m hm
              apply hprov m
              simp only [metMsgs, hce]; exact hm
          · simp at hb'
    · simp at hr

theorem firstGroupOf_isSome (groups : List (List Nat)) (i : Nat) :
    (firstGroupOf groups i).isSome = groups.flatten.contains i := by
  cases h : firstGroupOf groups i with
  | none =>
    have := firstGroupOf_none groups i h
    simp [this]
  | some loc =>
    obtain ⟨gi, pos⟩ := loc
    obtain ⟨g, hg, hpos⟩ := firstGroupOf_some groups i gi pos h
    have : i ∈ groups.flatten := List.mem_flatten.2 ⟨g, List.mem_of_getElem? hg, List.mem_of_getElem? hpos⟩
    simp [this]

/-- where a signature on the meta sequence comes from -/
def Prov (ppqn filePpq : Int) (tracks : List (List MidiEv)) (groups : List (List Nat)) (metaIdx : List Nat)
    (m : Msg) : Prop :=
  ∃ i evs, tracks[i]? = some evs ∧ (groups.flatten.contains i ∨ metaIdx.contains i)
    ∧ m ∈ metMsgs ppqn filePpq (groups.flatten.contains i) 0 evs

theorem tracks_metaI (ppqn filePpq : Int) (hp : 0 < ppqn) (hf : 0 < filePpq) (tracks : List (List MidiEv))
    (groups : List (List Nat)) (metaIdx : List Nat) (hd : ∀ evs ∈ tracks, ∀ e ∈ evs, 0 ≤ e.time) (s : ConvSt)
    (h : foldlM' (convTrack ppqn filePpq groups metaIdx)
        { seqs := groups.map (fun g => g.map (fun _ => Seq.new)) } tracks.zipIdx = .ok s) :
    MetaI (Prov ppqn filePpq tracks groups metaIdx) s := by
  have := foldlM'_res (convTrack ppqn filePpq groups metaIdx) (fun _ => True)
    (MetaI (Prov ppqn filePpq tracks groups metaIdx)) tracks.zipIdx
    (fun b x hx hb => by
      obtain ⟨evs, i⟩ := x
      have hti : tracks[i]? = some evs := List.mem_zipIdx_iff_getElem?.1 hx
      unfold convTrack
      simp only
      split
      · exact hb
      · rename_i hskip
        cases hf' : foldlM' (convMsg ppqn filePpq (firstGroupOf groups i)) (b, 0) evs with
        | error e => trivial
        | ok r =>
          simp only [Res]
          apply inner_metaI ppqn filePpq hp hf _ (firstGroupOf groups i) evs 0 b r (Int.le_refl _)
            (hd evs (List.mem_of_getElem? hti)) hb _ hf'
          intro m hm _
          rw [firstGroupOf_isSome] at hm
          refine ⟨i, evs, hti, ?_, hm⟩
          simp only [Bool.and_eq_true, Option.isNone_iff_eq_none, Bool.not_eq_true', not_and,
            Bool.not_eq_false] at hskip
          by_cases hc : groups.flatten.contains i = true
          · exact Or.inl hc
          · right
            apply hskip
            have := firstGroupOf_isSome groups i
            rw [Bool.eq_false_iff.2 hc] at this
            simpa using this)
    { seqs := groups.map (fun g => g.map (fun _ => Seq.new)) }
    ⟨[], rfl, ⟨by simp [TimeSorted], by simp [NonNegTimes], by simp⟩, by simp⟩
  exact this.of_ok h

/-- every signature on the meta target is the default one or comes from a considered track -/
theorem sig_core (ppqn filePpq : Int) (hp : 0 < ppqn) (hf : 0 < filePpq)
    (tracks : List (List MidiEv)) (groups : List (List Nat)) (metaIdx : List Nat) (target : Int) (out : List Seq)
    (h : convert ppqn filePpq tracks groups metaIdx target = .ok out)
    (hd : ∀ evs ∈ tracks, ∀ e ∈ evs, 0 ≤ e.time)
    (s s' : Seq) (a : List Msg) (hs : out[target.toNat]? = some s) (ha : s.readAbs = .ok (s', a)) :
    ∀ m ∈ a, isSig m → (∃ c, m = Msg.mkTimeSig c 4 4 0) ∨ Prov ppqn filePpq tracks groups metaIdx m := by
  rw [convert_eq] at h
  simp only [bind, Except.bind] at h
  split at h
  · simp at h
  · rename_i s0 hs0
    have hI := tracks_slotsI ppqn filePpq tracks groups metaIdx s0 hs0
    obtain ⟨M, hM, hMok, hprov⟩ := tracks_metaI ppqn filePpq hp hf tracks groups metaIdx hd s0 hs0
    split at h
    · simp at h
    · rename_i merged hm
      have hMI := groups_mi s0.seqs hI merged hm
      obtain ⟨ht0, x, hout⟩ := finish_shape s0 merged target out h
      have hmt : ∃ mt, merged[target.toNat]? = some mt := by
        rw [hout, getElem?_modifyAt] at hs
        simp only [if_true] at hs
        cases hc : merged[target.toNat]? with
        | none => rw [hc] at hs; simp at hs
        | some mt => exact ⟨mt, rfl⟩
      obtain ⟨mt, hmt⟩ := hmt
      obtain ⟨m1, m2, m3⟩ := hMI mt (List.mem_of_getElem? hmt)
      rw [finish_eq s0 merged target M hM mt ht0 hmt m1 m2] at h
      simp only [Except.ok.injEq] at h
      subst h
      rw [getElem?_modifyAt] at hs
      simp only [if_true, hmt, Option.map_some, Option.some.injEq] at hs
      subst hs
      obtain ⟨f1, f2⟩ := finSeq_read s0.defCh mt.rel M
      rw [f1] at ha
      simp only [Except.ok.injEq, Prod.mk.injEq] at ha
      obtain ⟨_, ha2⟩ := ha
      have hokA : ∀ b ∈ [toAbs mt.rel, M], OkAbs b := by
        intro b hb
        simp only [List.mem_cons, List.not_mem_nil, or_false] at hb
        rcases hb with rfl | rfl
        · exact C04.toAbs_ok _ m3.1
        · exact hMok
      have hsub := C15.events_sublist [toAbs mt.rel, M] hokA
      have key : ∀ m ∈ toAbs (C15.mergeRel [toAbs mt.rel, M]), isSig m →
          Prov ppqn filePpq tracks groups metaIdx m := by
        intro m hm hsig
        rcases mem_toAbs _ m hm with hty | he
        · rcases hsig with h | h <;> simp [hty] at h
        · have h1 := hsub.subset he
          have h2 := (mem_sortAbs _ _).1 (List.mem_filter.1 h1).1
          simp only [List.flatten_cons, List.flatten_nil, List.append_nil, List.mem_append] at h2
          rcases h2 with h2 | h2
          · exact absurd hsig (toAbs_absI _ m3 m h2).1
          · exact hprov m h2 hsig
      intro m hma hsig
      rw [← ha2] at hma
      rcases f2 with f2 | f2
      · rw [f2] at hma
        exact Or.inr (key m hma hsig)
      · rw [f2] at hma
        rcases List.mem_cons.1 ((insort_perm _ _).mem_iff.1 hma) with rfl | hma
        · exact Or.inl ⟨_, rfl⟩
        · exact Or.inr (key m hma hsig)

end SCoda.E2E
