/-
  Helper lemmas for C09 (`splitBars`): the loop is decomposed into a *schedule* (the signature / key
  chosen in every round — a function of the control part of the state only) and independent
  per-track runs along that schedule.
-/
import SCoda.Model.Bar
import SCoda.Model.Roll
import SCoda.Props.C08
import SCoda.Props.C10
import SCoda.Props.C07
import SCoda.Props.C06
namespace SCoda.SB
open SCoda SCoda.SplitL SCoda.BarL

/-- signature, key: what a round decides -/
abbrev Sg := Int × Int × Int

def sgLen (ppqn : Int) (g : Sg) : Int := barCapacity ppqn g.1 g.2.1

/-- the signature lookup of one round -/
def nextSig (now num den : Int) (tsQ : List Msg) : Int × Int × List Msg :=
  match tsQ with
  | m :: rest => if m.time <= now then (m.num, m.den, rest) else (num, den, tsQ)
  | [] => (num, den, tsQ)

/-- the key lookup of one round -/
def nextKey (now key : Int) (ksQ : List Msg) : Int × List Msg :=
  match ksQ with
  | m :: rest => if m.time <= now then (m.key, rest) else (key, ksQ)
  | [] => (key, ksQ)

/-- what one round does to one track: `(two pieces?, remainder, bar)` -/
def trackStep (ppqn : Int) (values : List Int) (requant : Bool) (g : Sg) (t : List Msg) :
    Except Err (Bool × List Msg × Bar) := do
  let pieces ← split t [sgLen ppqn g]
  let (two, rest, first) := match pieces with
    | p :: q :: _ => (true, q, p)
    | [p] => (false, [], p)
    | [] => (false, [], [])
  let piece ← requantPiece values ppqn requant first
  let bar ← mkBar ppqn piece g.1 g.2.1 g.2.2
  .ok (two, rest, bar)

/-- the body of the fold inside `splitBarsGo` -/
def foldBody (ppqn : Int) (values : List Int) (requant : Bool) (g : Sg)
    (acc : Bool × List (List Msg) × List (List Bar)) (tb : List Msg × List Bar) :
    Except Err (Bool × List (List Msg) × List (List Bar)) := do
  let pieces ← split tb.1 [sgLen ppqn g]
  let (sync, rest, first) := match pieces with
    | p :: q :: _ => (false, q, p)
    | [p] => (acc.1, [], p)
    | [] => (acc.1, [], [])
  let piece ← requantPiece values ppqn requant first
  let bar ← mkBar ppqn piece g.1 g.2.1 g.2.2
  .ok (sync, acc.2.1 ++ [rest], acc.2.2 ++ [bar :: tb.2])

theorem splitBarsGo_succ (ppqn : Int) (values : List Int) (requant : Bool) (fuel : Nat) (s : SBSt) :
    splitBarsGo ppqn values requant (fuel + 1) s =
      (let sg := nextSig s.now s.num s.den s.tsQ
       let kk := nextKey s.now s.key s.ksQ
       let g : Sg := (sg.1, sg.2.1, kk.1)
       (foldlM' (foldBody ppqn values requant g) (true, [], []) (s.tracks.zip s.bars)).bind fun step =>
         if step.1 then .ok (step.2.2.map List.reverse)
         else splitBarsGo ppqn values requant fuel
           { now := s.now + sgLen ppqn g, num := sg.1, den := sg.2.1, key := kk.1, tsQ := sg.2.2, ksQ := kk.2,
             tracks := step.2.1, bars := step.2.2 }) := by
  rw [splitBarsGo]
  rfl

/-! ### the fold over the tracks, position-wise -/

theorem foldBody_eq (ppqn : Int) (values : List Int) (requant : Bool) (g : Sg)
    (acc : Bool × List (List Msg) × List (List Bar)) (tb : List Msg × List Bar) :
    foldBody ppqn values requant g acc tb =
      (trackStep ppqn values requant g tb.1).bind fun o =>
        .ok (!o.1 && acc.1, acc.2.1 ++ [o.2.1], acc.2.2 ++ [o.2.2 :: tb.2]) := by
  unfold foldBody trackStep
  simp only [bind, Except.bind]
  cases split tb.1 [sgLen ppqn g] with
  | error e => rfl
  | ok pieces =>
    simp only
    rcases pieces with _ | ⟨p, _ | ⟨q, tl⟩⟩
    all_goals
      simp only
      cases requantPiece values ppqn requant _ with
      | error e => rfl
      | ok piece =>
        simp only
        cases mkBar ppqn piece g.1 g.2.1 g.2.2 with
        | error e => rfl
        | ok bar => simp

theorem fold_ok (ppqn : Int) (values : List Int) (requant : Bool) (g : Sg)
    (zs : List (List Msg × List Bar)) :
    ∀ (acc acc' : Bool × List (List Msg) × List (List Bar)),
    foldlM' (foldBody ppqn values requant g) acc zs = .ok acc' →
    ∃ outs : List (Bool × List Msg × Bar), outs.length = zs.length ∧
      (∀ (i : Nat) (z : List Msg × List Bar) (o : Bool × List Msg × Bar), zs[i]? = some z → outs[i]? = some o →
        trackStep ppqn values requant g z.1 = .ok o) ∧
      acc'.1 = (acc.1 && outs.all (fun o => !o.1)) ∧
      acc'.2.1 = acc.2.1 ++ outs.map (·.2.1) ∧
      acc'.2.2 = acc.2.2 ++ List.zipWith (fun (z : List Msg × List Bar) (o : Bool × List Msg × Bar) => o.2.2 :: z.2) zs outs := by
  induction zs with
  | nil =>
    intro acc acc' h
    simp only [foldlM', Except.ok.injEq] at h
    subst h
    exact ⟨[], rfl, by simp, by simp, by simp, by simp⟩
  | cons z zs ih =>
    intro acc acc' h
    simp only [foldlM'] at h
    rw [foldBody_eq] at h
    cases hts : trackStep ppqn values requant g z.1 with
    | error e => simp [hts, Except.bind] at h
    | ok o =>
      simp only [hts, Except.bind] at h
      obtain ⟨outs, hl, hst, h1, h2, h3⟩ := ih _ _ h
      refine ⟨o :: outs, by simp [hl], ?_, ?_, ?_, ?_⟩
      · intro i z' o' hz ho
        cases i with
        | zero =>
          simp only [List.getElem?_cons_zero, Option.some.injEq] at hz ho
          subst hz ho
          exact hts
        | succ i =>
          simp only [List.getElem?_cons_succ] at hz ho
          exact hst i z' o' hz ho
      · rw [h1]
        simp only [List.all_cons]
        cases o.1 <;> cases acc.1 <;> simp
      · rw [h2]; simp
      · rw [h3]; simp

/-! ### schedule and per-track runs -/

/-- the signatures / keys chosen in the first `r` rounds from a given control state -/
def ctl (ppqn : Int) : Nat → Int → Int → Int → Int → List Msg → List Msg → List Sg
  | 0, _, _, _, _, _, _ => []
  | r + 1, now, num, den, key, tsQ, ksQ =>
    let sg := nextSig now num den tsQ
    let kk := nextKey now key ksQ
    let g : Sg := (sg.1, sg.2.1, kk.1)
    g :: ctl ppqn r (now + sgLen ppqn g) sg.1 sg.2.1 kk.1 sg.2.2 kk.2

/-- one track along a schedule: `(two-piece flags, remainder, bars in order)` -/
def trackRun (ppqn : Int) (values : List Int) (requant : Bool) :
    List Sg → List Msg → Except Err (List Bool × List Msg × List Bar)
  | [], t => .ok ([], t, [])
  | g :: gs, t => (trackStep ppqn values requant g t).bind fun o =>
      (trackRun ppqn values requant gs o.2.1).bind fun r => .ok (o.1 :: r.1, r.2.1, o.2.2 :: r.2.2)

theorem trackRun_cons {ppqn : Int} {values : List Int} {requant : Bool} {g : Sg} {gs : List Sg} {t : List Msg}
    {o : Bool × List Msg × Bar} {r : List Bool × List Msg × List Bar}
    (h1 : trackStep ppqn values requant g t = .ok o) (h2 : trackRun ppqn values requant gs o.2.1 = .ok r) :
    trackRun ppqn values requant (g :: gs) t = .ok (o.1 :: r.1, r.2.1, o.2.2 :: r.2.2) := by
  simp only [trackRun, h1, h2, Except.bind]

theorem trackRun_cons_inv {ppqn : Int} {values : List Int} {requant : Bool} {g : Sg} {gs : List Sg} {t : List Msg}
    {res : List Bool × List Msg × List Bar}
    (h : trackRun ppqn values requant (g :: gs) t = .ok res) :
    ∃ o r, trackStep ppqn values requant g t = .ok o ∧ trackRun ppqn values requant gs o.2.1 = .ok r ∧
      res = (o.1 :: r.1, r.2.1, o.2.2 :: r.2.2) := by
  simp only [trackRun] at h
  cases h1 : trackStep ppqn values requant g t with
  | error e => simp [h1, Except.bind] at h
  | ok o =>
    simp only [h1, Except.bind] at h
    cases h2 : trackRun ppqn values requant gs o.2.1 with
    | error e => simp [h2] at h
    | ok r =>
      simp only [h2, Except.ok.injEq] at h
      exact ⟨o, r, rfl, h2, h.symm⟩

theorem getElem?_of_length_eq {α β} {l : List α} {l' : List β} (h : l'.length = l.length) {i : Nat} {a : α}
    (ha : l[i]? = some a) : ∃ b, l'[i]? = some b := by
  have hi : i < l.length := by
    rcases Nat.lt_or_ge i l.length with h1 | h1
    · exact h1
    · rw [List.getElem?_eq_none h1] at ha; cases ha
  exact ⟨l'[i]'(by omega), List.getElem?_eq_getElem (by omega)⟩

/-- **decomposition**: a successful run is `r + 1` rounds along the schedule of the control state;
    every track runs independently; in the last round no track yields two pieces, in every earlier
    round some track does -/
theorem splitBarsGo_run (ppqn : Int) (values : List Int) (requant : Bool) : ∀ (fuel : Nat) (s : SBSt)
    (tb : List (List Bar)), s.tracks.length = s.bars.length → splitBarsGo ppqn values requant fuel s = .ok tb →
    ∃ r, r < fuel ∧ tb.length = s.tracks.length ∧
      (∀ (i : Nat) (t : List Msg) (bs : List Bar), s.tracks[i]? = some t → s.bars[i]? = some bs →
        ∃ tw t' nb, trackRun ppqn values requant (ctl ppqn (r + 1) s.now s.num s.den s.key s.tsQ s.ksQ) t
            = .ok (tw, t', nb) ∧ tb[i]? = some (bs.reverse ++ nb) ∧ tw[r]? = some false) ∧
      (∀ j, j < r → ∃ (i : Nat) (t : List Msg) (tw : List Bool) (t' : List Msg) (nb : List Bar),
        s.tracks[i]? = some t ∧
        trackRun ppqn values requant (ctl ppqn (r + 1) s.now s.num s.den s.key s.tsQ s.ksQ) t = .ok (tw, t', nb) ∧
        tw[j]? = some true) := by
  intro fuel
  induction fuel with
  | zero => intro s tb _ h; simp [splitBarsGo] at h
  | succ fuel ih =>
    intro s tb hlen h
    rw [splitBarsGo_succ] at h
    simp only at h
    generalize hg : ((nextSig s.now s.num s.den s.tsQ).1, (nextSig s.now s.num s.den s.tsQ).2.1,
      (nextKey s.now s.key s.ksQ).1) = g at h
    cases hf : foldlM' (foldBody ppqn values requant g) (true, [], []) (s.tracks.zip s.bars) with
    | error e => simp [hf, Except.bind] at h
    | ok step =>
      simp only [hf, Except.bind] at h
      obtain ⟨outs, hl, hst, h1, h2, h3⟩ := fold_ok ppqn values requant g _ _ _ hf
      simp only [List.nil_append, Bool.true_and] at h1 h2 h3
      have hzl : (s.tracks.zip s.bars).length = s.tracks.length := by simp [hlen]
      -- position-wise access
      have hpos : ∀ (i : Nat) (t : List Msg) (bs : List Bar), s.tracks[i]? = some t → s.bars[i]? = some bs →
          ∃ o, outs[i]? = some o ∧ trackStep ppqn values requant g t = .ok o ∧
            step.2.1[i]? = some o.2.1 ∧ step.2.2[i]? = some (o.2.2 :: bs) := by
        intro i t bs ht hbs
        have hz : (s.tracks.zip s.bars)[i]? = some (t, bs) := List.getElem?_zip_eq_some.2 ⟨ht, hbs⟩
        obtain ⟨o, ho⟩ := getElem?_of_length_eq hl hz
        refine ⟨o, ho, hst i _ o hz ho, ?_, ?_⟩
        · rw [h2, List.getElem?_map, ho]; rfl
        · rw [h3, List.getElem?_zipWith, hz, ho]
      split at h
      · -- the final round
        rename_i hsync
        simp only [Except.ok.injEq] at h
        refine ⟨0, by omega, ?_, ?_, ?_⟩
        · rw [← h, List.length_map, h3, List.length_zipWith, hl, hzl]; simp
        · intro i t bs ht hbs
          obtain ⟨o, ho, hts, _, hb⟩ := hpos i t bs ht hbs
          refine ⟨[o.1], o.2.1, [o.2.2], ?_, ?_, ?_⟩
          · simp only [ctl, hg]
            exact trackRun_cons (gs := []) (r := ([], o.2.1, [])) hts (by simp [trackRun])
          · rw [← h, List.getElem?_map, hb]; simp
          · rw [hsync] at h1
            have := (List.all_eq_true.1 h1.symm) o (List.mem_of_getElem? ho)
            simp only [Bool.not_eq_true'] at this
            simp [this]
        · intro j hj; omega
      · -- another round follows
        rename_i hsync
        have hlen' : step.2.1.length = step.2.2.length := by
          rw [h2, h3, List.length_map, List.length_zipWith, hl]; simp
        obtain ⟨r, hr, htl, hall, hex⟩ := ih _ tb hlen' h
        simp only at htl hall hex
        have hctl : ctl ppqn (r + 1 + 1) s.now s.num s.den s.key s.tsQ s.ksQ
            = g :: ctl ppqn (r + 1) (s.now + sgLen ppqn g) (nextSig s.now s.num s.den s.tsQ).1
                (nextSig s.now s.num s.den s.tsQ).2.1 (nextKey s.now s.key s.ksQ).1
                (nextSig s.now s.num s.den s.tsQ).2.2 (nextKey s.now s.key s.ksQ).2 := by
          rw [ctl]; simp only [hg]
        have hallS : ∀ (i : Nat) (t : List Msg) (bs : List Bar), s.tracks[i]? = some t → s.bars[i]? = some bs →
            ∃ o tw t' nb, outs[i]? = some o ∧
              trackRun ppqn values requant (ctl ppqn (r + 1 + 1) s.now s.num s.den s.key s.tsQ s.ksQ) t
                = .ok (o.1 :: tw, t', o.2.2 :: nb) ∧ tb[i]? = some (bs.reverse ++ o.2.2 :: nb) ∧ tw[r]? = some false
              ∧ trackRun ppqn values requant (ctl ppqn (r + 1) (s.now + sgLen ppqn g) (nextSig s.now s.num s.den s.tsQ).1
                (nextSig s.now s.num s.den s.tsQ).2.1 (nextKey s.now s.key s.ksQ).1
                (nextSig s.now s.num s.den s.tsQ).2.2 (nextKey s.now s.key s.ksQ).2) o.2.1 = .ok (tw, t', nb) := by
          intro i t bs ht hbs
          obtain ⟨o, ho, hts, htr, hb⟩ := hpos i t bs ht hbs
          obtain ⟨tw, t', nb, hrun, htb, hlast⟩ := hall i _ _ htr hb
          refine ⟨o, tw, t', nb, ho, ?_, ?_, hlast, hrun⟩
          · rw [hctl]; exact trackRun_cons hts hrun
          · rw [htb]; simp
        refine ⟨r + 1, by omega, ?_, ?_, ?_⟩
        · rw [htl, h2, List.length_map, hl, hzl]
        · intro i t bs ht hbs
          obtain ⟨o, tw, t', nb, _, hrun, htb, hlast, _⟩ := hallS i t bs ht hbs
          exact ⟨o.1 :: tw, t', o.2.2 :: nb, hrun, htb, by simpa using hlast⟩
        · intro j hj
          cases j with
          | zero =>
            have hfalse : outs.all (fun o => !o.1) = false := by
              rw [← h1]; simpa using hsync
            rw [List.all_eq_false] at hfalse
            obtain ⟨o, hom, ho1⟩ := hfalse
            obtain ⟨i, hi, hio⟩ := List.getElem_of_mem hom
            have hio' : outs[i]? = some o := by rw [List.getElem?_eq_getElem hi, hio]
            have hit : i < s.tracks.length := by omega
            have hib : i < s.bars.length := by omega
            obtain ⟨o', tw, t', nb, ho', hrun, _, _, _⟩ :=
              hallS i s.tracks[i] s.bars[i] (List.getElem?_eq_getElem hit) (List.getElem?_eq_getElem hib)
            rw [hio'] at ho'
            cases ho'
            refine ⟨i, s.tracks[i], o.1 :: tw, t', o.2.2 :: nb, List.getElem?_eq_getElem hit, hrun, ?_⟩
            simpa using ho1
          | succ j =>
            obtain ⟨i, rt, tw, t', nb, hrt, hrun, hj'⟩ := hex j (by omega)
            have hit : i < s.tracks.length := by
              rcases Nat.lt_or_ge i step.2.1.length with h4 | h4
              · rw [h2, List.length_map, hl, hzl] at h4; exact h4
              · rw [List.getElem?_eq_none h4] at hrt; cases hrt
            have hib : i < s.bars.length := by omega
            obtain ⟨o', tw', t'', nb', ho', hrun', _, _, hrun''⟩ :=
              hallS i s.tracks[i] s.bars[i] (List.getElem?_eq_getElem hit) (List.getElem?_eq_getElem hib)
            have : rt = o'.2.1 := by
              rw [h2, List.getElem?_map, ho'] at hrt
              simpa using hrt.symm
            subst this
            rw [hrun] at hrun''
            cases hrun''
            exact ⟨i, s.tracks[i], o'.1 :: tw, t', o'.2.2 :: nb, List.getElem?_eq_getElem hit, hrun', by simpa using hj'⟩

/-! ### the top-level call -/

/-- the initial signature queue -/
def initTs (metaTrack : List Msg) : List Msg :=
  if (timesOfType .timeSignature (toAbs metaTrack)).length == 0 then [Msg.mkTimeSig 0 4 4 0]
  else timesOfType .timeSignature (toAbs metaTrack)

/-- the schedule of a whole run of `r` rounds -/
def sched (ppqn : Int) (metaTrack : List Msg) (r : Nat) : List Sg :=
  ctl ppqn r 0 4 4 pyNone (initTs metaTrack) (timesOfType .keySignature (toAbs metaTrack))

def fuelOf (tracks : List (List Msg)) : Nat :=
  ((tracks.map (fun t => (totalWait t).toNat)).foldl max 0) + tracks.length + 2

theorem splitBars_eq (ppqn : Int) (values : List Int) (tracks : List (List Msg)) (metaIdx : Nat) (requant : Bool)
    (metaTrack : List Msg) (hm : tracks[metaIdx]? = some metaTrack) :
    splitBars ppqn values tracks metaIdx requant =
      splitBarsGo ppqn values requant (fuelOf tracks)
        { tsQ := initTs metaTrack, ksQ := timesOfType .keySignature (toAbs metaTrack), tracks := tracks,
          bars := tracks.map (fun _ => []) } := by
  simp only [splitBars, hm]
  rfl

theorem splitBars_run (ppqn : Int) (values : List Int) (tracks : List (List Msg)) (metaIdx : Nat) (requant : Bool)
    (tb : List (List Bar)) (h : splitBars ppqn values tracks metaIdx requant = .ok tb) :
    ∃ metaTrack r, tracks[metaIdx]? = some metaTrack ∧ tb.length = tracks.length ∧
      (∀ (i : Nat) (t : List Msg), tracks[i]? = some t →
        ∃ tw t' nb, trackRun ppqn values requant (sched ppqn metaTrack (r + 1)) t = .ok (tw, t', nb) ∧
          tb[i]? = some nb ∧ tw[r]? = some false) ∧
      (∀ j, j < r → ∃ (i : Nat) (t : List Msg) (tw : List Bool) (t' : List Msg) (nb : List Bar),
        tracks[i]? = some t ∧
        trackRun ppqn values requant (sched ppqn metaTrack (r + 1)) t = .ok (tw, t', nb) ∧ tw[j]? = some true) := by
  cases hm : tracks[metaIdx]? with
  | none => simp [splitBars, hm] at h
  | some metaTrack =>
    rw [splitBars_eq ppqn values tracks metaIdx requant metaTrack hm] at h
    obtain ⟨r, _, hl, hall, hex⟩ := splitBarsGo_run ppqn values requant _ _ tb (by simp) h
    refine ⟨metaTrack, r, rfl, hl, ?_, hex⟩
    intro i t ht
    have hb : (tracks.map (fun _ => ([] : List Bar)))[i]? = some [] := by
      rw [List.getElem?_map, ht]; rfl
    obtain ⟨tw, t', nb, h1, h2, h3⟩ := hall i t [] ht hb
    exact ⟨tw, t', nb, h1, by simpa using h2, h3⟩

/-! ### what one round does to a track -/

theorem trackStep_spec {ppqn : Int} {values : List Int} {requant : Bool} {g : Sg} {t : List Msg}
    {o : Bool × List Msg × Bar} (h : trackStep ppqn values requant g t = .ok o) :
    ∃ pieces first piece, split t [sgLen ppqn g] = .ok pieces ∧ requantPiece values ppqn requant first = .ok piece ∧
      mkBar ppqn piece g.1 g.2.1 g.2.2 = .ok o.2.2 ∧
      ((pieces = [] ∧ first = [] ∧ o.1 = false ∧ o.2.1 = []) ∨ (pieces = [first] ∧ o.1 = false ∧ o.2.1 = []) ∨
        (∃ tl, pieces = first :: o.2.1 :: tl ∧ o.1 = true)) := by
  unfold trackStep at h
  simp only [bind, Except.bind] at h
  cases hs : split t [sgLen ppqn g] with
  | error e => simp [hs] at h
  | ok pieces =>
    simp only [hs] at h
    rcases pieces with _ | ⟨p, _ | ⟨q, tl⟩⟩
    all_goals
      simp only at h
      split at h
      · cases h
      · rename_i piece hr
        split at h
        · cases h
        · rename_i bar hb
          simp only [Except.ok.injEq] at h
          subst h
          exact ⟨_, _, piece, rfl, hr, hb, by simp⟩

/-- shape of a per-track run: one flag and one bar per round, each bar built by `mkBar` with the
    round's signature and key -/
theorem trackRun_shape (ppqn : Int) (values : List Int) (requant : Bool) : ∀ (gs : List Sg) (t : List Msg)
    (tw : List Bool) (t' : List Msg) (nb : List Bar), trackRun ppqn values requant gs t = .ok (tw, t', nb) →
    tw.length = gs.length ∧ nb.length = gs.length ∧
      ∀ (k : Nat) (g : Sg) (b : Bar), gs[k]? = some g → nb[k]? = some b →
        ∃ piece, mkBar ppqn piece g.1 g.2.1 g.2.2 = .ok b := by
  intro gs
  induction gs with
  | nil =>
    intro t tw t' nb h
    simp only [trackRun, Except.ok.injEq, Prod.mk.injEq] at h
    obtain ⟨rfl, _, rfl⟩ := h
    simp
  | cons g gs ih =>
    intro t tw t' nb h
    obtain ⟨o, r, h1, h2, h3⟩ := trackRun_cons_inv h
    simp only [Prod.mk.injEq] at h3
    obtain ⟨rfl, rfl, rfl⟩ := h3
    obtain ⟨i1, i2, i3⟩ := ih _ _ _ _ h2
    refine ⟨by simp [i1], by simp [i2], ?_⟩
    intro k g' b hg hb
    cases k with
    | zero =>
      simp only [List.getElem?_cons_zero, Option.some.injEq] at hg hb
      subst hg hb
      obtain ⟨_, _, piece, _, _, hmk, _⟩ := trackStep_spec h1
      exact ⟨piece, hmk⟩
    | succ k =>
      simp only [List.getElem?_cons_succ] at hg hb
      exact i3 k g' b hg hb

theorem ctl_length (ppqn : Int) : ∀ (r : Nat) (now num den key : Int) (tsQ ksQ : List Msg),
    (ctl ppqn r now num den key tsQ ksQ).length = r := by
  intro r
  induction r with
  | zero => intros; rfl
  | succ r ih => intros; simp [ctl, ih]

theorem sched_length (ppqn : Int) (metaTrack : List Msg) (r : Nat) : (sched ppqn metaTrack r).length = r :=
  ctl_length ppqn r _ _ _ _ _ _

theorem getElem?_some_of_lt {α} {l : List α} {i : Nat} (h : i < l.length) : l[i]? = some l[i] :=
  List.getElem?_eq_getElem h

theorem lt_of_getElem?_some {α} {l : List α} {i : Nat} {a : α} (h : l[i]? = some a) : i < l.length := by
  rcases Nat.lt_or_ge i l.length with h1 | h1
  · exact h1
  · rw [List.getElem?_eq_none h1] at h; cases h

/-- every bar of the result was built by `mkBar` with the signature / key of its round -/
theorem splitBars_bars (ppqn : Int) (values : List Int) (tracks : List (List Msg)) (metaIdx : Nat) (requant : Bool)
    (tb : List (List Bar)) (h : splitBars ppqn values tracks metaIdx requant = .ok tb) :
    ∃ metaTrack r, tracks[metaIdx]? = some metaTrack ∧ tb.length = tracks.length ∧
      ∀ (i : Nat) (bs : List Bar), tb[i]? = some bs → bs.length = r + 1 ∧
        ∀ (k : Nat) (b : Bar), bs[k]? = some b →
          ∃ g piece, (sched ppqn metaTrack (r + 1))[k]? = some g ∧ mkBar ppqn piece g.1 g.2.1 g.2.2 = .ok b := by
  obtain ⟨metaTrack, r, hm, hl, hall, _⟩ := splitBars_run ppqn values tracks metaIdx requant tb h
  refine ⟨metaTrack, r, hm, hl, ?_⟩
  intro i bs hbs
  have hi : i < tracks.length := by rw [← hl]; exact lt_of_getElem?_some hbs
  obtain ⟨tw, t', nb, hrun, htb, _⟩ := hall i _ (getElem?_some_of_lt hi)
  rw [hbs] at htb
  cases htb
  obtain ⟨_, h2, h3⟩ := trackRun_shape ppqn values requant _ _ _ _ _ hrun
  rw [sched_length] at h2
  refine ⟨h2, ?_⟩
  intro k b hb
  have hk : k < (sched ppqn metaTrack (r + 1)).length := by
    rw [sched_length, ← h2]; exact lt_of_getElem?_some hb
  obtain ⟨piece, hp⟩ := h3 k _ b (getElem?_some_of_lt hk) hb
  exact ⟨_, piece, getElem?_some_of_lt hk, hp⟩

/-! ### splitting off one capacity -/

theorem splitInner_len (c : Int) (hc : 0 < c) (fuel : Nat) (s s' : SplitSt) (hcur : s.cur = [])
    (hq : s.queue = []) (hw : NonNegWaits s.wm) (h : splitInner fuel c s = .ok s') :
    (s'.wm = [] ∧ totalWait s.wm ≤ c) ∨ (s'.wm ≠ [] ∧ c < totalWait s.wm) := by
  refine splitInner_invB c
    (fun _ s0 => totalWait (s0.cur.reverse ++ (s0.queue.reverse ++ s0.wm)) = totalWait s.wm)
    (fun s' => (s'.wm = [] ∧ totalWait s.wm ≤ c) ∨ (s'.wm ≠ [] ∧ c < totalWait s.wm))
    ?_ ?_ ?_ ?_ ?_ ?_ fuel c s s' (base_init c hc s hcur hq hw) (by simp [hcur, hq]) h
  · intro rem cur queue opens pieces hB hT
    left
    refine ⟨rfl, ?_⟩
    simp only [List.append_nil] at hT
    have hqw := totalWait_nowait queue.reverse (by simpa using hB.q_nowait)
    have htc := hB.tw_cur
    have := hB.rem_nonneg
    simp only at htc
    rw [totalWait_append, hqw, totalWait_reverse] at hT
    omega
  · intro rem m wm cur opens pieces hB hT _ _ _
    simpa using hT
  · intro m wm cur queue opens pieces hB hT _ _
    simpa using hT
  · intro rem m wm cur queue opens pieces hB hT hm
    simp only [List.reverse_cons, List.append_assoc, List.singleton_append] at hT ⊢
    rw [totalWait_append] at hT ⊢
    rw [totalWait_move]; exact hT
  · intro rem m wm cur queue opens pieces hB hT hm _ _ h0
    simp only [List.reverse_cons, List.append_assoc, List.singleton_append] at hT ⊢
    rw [totalWait_append] at hT ⊢
    rw [totalWait_move]; exact hT
  · intro rem m wm cur queue opens pieces hB hT hm hr
    right
    refine ⟨by unfold carried; simp, ?_⟩
    simp only at hT
    have hqw := totalWait_nowait queue.reverse (by simpa using hB.q_nowait)
    have htc := hB.tw_cur
    simp only at htc
    have hT' : totalWait cur + (m.time + totalWait wm) = totalWait s.wm := by
      rw [totalWait_append, totalWait_append, hqw, totalWait_reverse] at hT
      simpa [totalWait, hm] using hT
    have := totalWait_nonneg wm (nonNegWaits_tail hB.nnw)
    omega

theorem splitOuter_one {c : Int} {s s' : SplitSt} (h : splitOuter [c] s = .ok s') :
    splitInner (s.wm.length + 2) c { s with queue := [] } = .ok s' := by
  simp only [splitOuter, bind, Except.bind] at h
  split at h
  · cases h
  · rename_i s1 h1
    simp only [Except.ok.injEq] at h
    subst h
    exact h1

/-- `split r [c]` with `0 < c`: either the input fits (at most one piece, no remainder) or it is longer than `c`
    and is cut into a piece of exactly `c` ticks and a remainder -/
theorem split_one (r : List Msg) (c : Int) (pieces : List (List Msg)) (h : split r [c] = .ok pieces)
    (hc : 0 < c) (hw : NonNegWaits r) :
    (durRel r ≤ c ∧ (pieces = [] ∨ ∃ p, pieces = [p]) ∧ durRel pieces.flatten = durRel r) ∨
    (c < durRel r ∧ ∃ p q, pieces = [p, q] ∧ durRel p = c ∧ durRel q = durRel r - c ∧ NonNegWaits q) := by
  obtain ⟨s, hs, rfl⟩ := split_eq r [c] pieces h
  have h1 := splitOuter_one hs
  obtain ⟨hc1, _, hw1, np, hp1, hl1, ht1, _, hd1⟩ := splitInner_timing c 0 hc _ _ s rfl rfl hw h1
  simp only [List.append_nil] at hp1 ht1 hd1
  rw [hc1, hp1]
  simp only [List.reverse_nil, List.nil_append]
  unfold durRel
  rcases splitInner_len c hc _ _ s rfl rfl hw h1 with ⟨hwm, hle⟩ | ⟨hwm, hlt⟩
  · left
    simp only [hwm, if_true, List.append_nil] at ht1 ⊢
    refine ⟨hle, ?_, ?_⟩
    · rcases np with _ | ⟨p, _ | ⟨q, tl⟩⟩
      · left; rfl
      · right; exact ⟨p, rfl⟩
      · simp at hl1
    · rw [reverse_short np hl1]; exact ht1
  · right
    rcases hd1 with ⟨p, rfl, hpc, _⟩ | ⟨hwm', _⟩
    · refine ⟨hlt, p, s.wm, by simp [hwm], hpc, ?_, hw1⟩
      simp only [List.flatten_cons, List.flatten_nil, List.append_nil, totalWait_append] at ht1
      omega
    · exact absurd hwm' hwm

/-! ### durations through one round -/

theorem trackStep_dur {ppqn : Int} {values : List Int} {requant : Bool} {g : Sg} {t : List Msg}
    {o : Bool × List Msg × Bar} (h : trackStep ppqn values requant g t = .ok o) (hc : 0 < sgLen ppqn g)
    (hw : NonNegWaits t) :
    NonNegWaits o.2.1 ∧
      ((o.1 = false ∧ o.2.1 = [] ∧ durRel t ≤ sgLen ppqn g) ∨
       (o.1 = true ∧ sgLen ppqn g < durRel t ∧ durRel o.2.1 = durRel t - sgLen ppqn g)) := by
  obtain ⟨pieces, first, piece, hs, _, _, hcase⟩ := trackStep_spec h
  rcases split_one t _ pieces hs hc hw with ⟨hle, hp, _⟩ | ⟨hlt, p, q, hp, _, hq, hwq⟩
  · rcases hcase with ⟨_, _, h1, h2⟩ | ⟨_, h1, h2⟩ | ⟨tl, h3, _⟩
    · exact ⟨by rw [h2]; simp [NonNegWaits], Or.inl ⟨h1, h2, hle⟩⟩
    · exact ⟨by rw [h2]; simp [NonNegWaits], Or.inl ⟨h1, h2, hle⟩⟩
    · rcases hp with hp | ⟨p, hp⟩ <;> simp [hp] at h3
  · rcases hcase with ⟨h3, _⟩ | ⟨h3, _⟩ | ⟨tl, h3, h1⟩
    · simp [hp] at h3
    · simp [hp] at h3
    · rw [hp] at h3
      simp only [List.cons.injEq] at h3
      obtain ⟨_, hq', _⟩ := h3
      rw [← hq']
      exact ⟨hwq, Or.inr ⟨h1, hlt, hq⟩⟩

theorem trackStep_error {ppqn : Int} {values : List Int} {requant : Bool} {g : Sg} {t : List Msg} {e : Err}
    (h : trackStep ppqn values requant g t = .error e) : e = .barError := by
  unfold trackStep at h
  simp only [bind, Except.bind] at h
  obtain ⟨pieces, hs⟩ := C08.split_total t [sgLen ppqn g]
  simp only [hs] at h
  have hrq : ∀ first, ∃ piece, requantPiece values ppqn requant first = .ok piece := by
    intro first
    unfold requantPiece
    cases requant with
    | false => exact ⟨first, rfl⟩
    | true =>
      obtain ⟨out, hout⟩ := C06.total values ppqn true (toAbs first)
      exact ⟨toRel out, by simp [hout, bind, Except.bind]⟩
  rcases pieces with _ | ⟨p, _ | ⟨q, tl⟩⟩
  all_goals
    simp only at h
    split at h
    · rename_i e' he
      obtain ⟨piece, hp⟩ := hrq _
      rw [hp] at he
      cases he
    · rename_i piece _
      split at h
      · rename_i e' he
        cases h
        rcases mkBar_cases ppqn piece g.1 g.2.1 g.2.2 with ⟨b, hb⟩ | hb
        · rw [hb] at he; cases he
        · rw [hb] at he; cases he; rfl
      · cases h

theorem fold_error (ppqn : Int) (values : List Int) (requant : Bool) (g : Sg)
    (zs : List (List Msg × List Bar)) : ∀ (acc : Bool × List (List Msg) × List (List Bar)) (e : Err),
    foldlM' (foldBody ppqn values requant g) acc zs = .error e → e = .barError := by
  induction zs with
  | nil => intro acc e h; simp [foldlM'] at h
  | cons z zs ih =>
    intro acc e h
    simp only [foldlM'] at h
    rw [foldBody_eq] at h
    cases hts : trackStep ppqn values requant g z.1 with
    | error e' =>
      simp only [hts, Except.bind, Except.error.injEq] at h
      subst h
      exact trackStep_error hts
    | ok o =>
      simp only [hts, Except.bind] at h
      exact ih _ _ h

theorem nextSig_pos (ppqn now num den : Int) (tsQ : List Msg) (h0 : 0 < barCapacity ppqn num den)
    (hq : ∀ m ∈ tsQ, 0 < barCapacity ppqn m.num m.den) :
    0 < barCapacity ppqn (nextSig now num den tsQ).1 (nextSig now num den tsQ).2.1 ∧
      ∀ m ∈ (nextSig now num den tsQ).2.2, 0 < barCapacity ppqn m.num m.den := by
  unfold nextSig
  cases tsQ with
  | nil => exact ⟨h0, hq⟩
  | cons m rest =>
    simp only
    split
    · exact ⟨hq m List.mem_cons_self, fun x hx => hq x (List.mem_cons_of_mem _ hx)⟩
    · exact ⟨h0, hq⟩

/-- **termination**: with positive bar lengths, `fuel` rounds suffice when every track is shorter than `fuel` ticks -/
theorem splitBarsGo_fuel (ppqn : Int) (values : List Int) (requant : Bool) : ∀ (fuel : Nat) (s : SBSt),
    s.tracks.length = s.bars.length → (∀ t ∈ s.tracks, NonNegWaits t) → 0 < fuel →
    (∀ t ∈ s.tracks, durRel t < (fuel : Int)) → 0 < barCapacity ppqn s.num s.den →
    (∀ m ∈ s.tsQ, 0 < barCapacity ppqn m.num m.den) →
    splitBarsGo ppqn values requant fuel s ≠ .error .fuel := by
  intro fuel
  induction fuel with
  | zero => intro s _ _ h; omega
  | succ fuel ih =>
    intro s hlen hw _ hM h0 hq
    rw [splitBarsGo_succ]
    simp only
    obtain ⟨hp1, hp2⟩ := nextSig_pos ppqn s.now s.num s.den s.tsQ h0 hq
    generalize hg : ((nextSig s.now s.num s.den s.tsQ).1, (nextSig s.now s.num s.den s.tsQ).2.1,
      (nextKey s.now s.key s.ksQ).1) = g
    have hgl : 0 < sgLen ppqn g := by rw [← hg]; exact hp1
    cases hf : foldlM' (foldBody ppqn values requant g) (true, [], []) (s.tracks.zip s.bars) with
    | error e =>
      have := fold_error ppqn values requant g _ _ _ hf
      subst this
      simp [Except.bind]
    | ok step =>
      simp only [Except.bind]
      obtain ⟨outs, hl, hst, h1, h2, h3⟩ := fold_ok ppqn values requant g _ _ _ hf
      simp only [List.nil_append, Bool.true_and] at h1 h2 h3
      split
      · simp
      · rename_i hsync
        have hzl : (s.tracks.zip s.bars).length = s.tracks.length := by simp [hlen]
        -- every out comes from a track
        have hout : ∀ o ∈ outs, ∃ t ∈ s.tracks, trackStep ppqn values requant g t = .ok o := by
          intro o ho
          obtain ⟨i, hi, hio⟩ := List.getElem_of_mem ho
          have hiz : i < (s.tracks.zip s.bars).length := by omega
          have hz := getElem?_some_of_lt hiz
          have hmem := (List.getElem?_zip_eq_some.1 hz).1
          exact ⟨_, List.mem_of_getElem? hmem, hst i _ o hz (by rw [getElem?_some_of_lt hi, hio])⟩
        have hfalse : outs.all (fun o => !o.1) = false := by
          rw [← h1]; simpa using hsync
        rw [List.all_eq_false] at hfalse
        obtain ⟨o1, ho1, ho1t⟩ := hfalse
        obtain ⟨t1, ht1, hts1⟩ := hout o1 ho1
        have hbig : 2 ≤ fuel := by
          have := trackStep_dur hts1 hgl (hw t1 ht1)
          have := hM t1 ht1
          simp only [Bool.not_eq_true', Bool.not_eq_false] at ho1t
          rcases ‹_ ∧ _›.2 with ⟨hf', _⟩ | ⟨_, hlt, _⟩
          · rw [ho1t] at hf'; cases hf'
          · omega
        apply ih
        · simp only
          rw [h2, h3, List.length_map, List.length_zipWith, hl]; simp
        · simp only
          intro rt hrt
          rw [h2, List.mem_map] at hrt
          obtain ⟨o, ho, rfl⟩ := hrt
          obtain ⟨t, ht, hts⟩ := hout o ho
          exact (trackStep_dur hts hgl (hw t ht)).1
        · omega
        · simp only
          intro rt hrt
          rw [h2, List.mem_map] at hrt
          obtain ⟨o, ho, rfl⟩ := hrt
          obtain ⟨t, ht, hts⟩ := hout o ho
          have := hM t ht
          rcases (trackStep_dur hts hgl (hw t ht)).2 with ⟨_, he, _⟩ | ⟨_, hlt, hd⟩
          · rw [he]; simp [durRel, totalWait]; omega
          · omega
        · exact hp1
        · exact hp2

theorem le_foldl_max (l : List Nat) : ∀ a : Nat, a ≤ l.foldl max a ∧ ∀ x ∈ l, x ≤ l.foldl max a := by
  induction l with
  | nil => intro a; simp
  | cons y ys ih =>
    intro a
    obtain ⟨h1, h2⟩ := ih (max a y)
    simp only [List.foldl_cons, List.mem_cons]
    refine ⟨by omega, ?_⟩
    rintro x (rfl | hx)
    · omega
    · exact h2 x hx

theorem mem_eventsRelGo (r : List Msg) : ∀ (c : Int) (e : Msg), e ∈ eventsRelGo c r →
    ∃ m ∈ r, ∃ c', e = { m with time := c' } := by
  induction r with
  | nil => intro c e he; simp [eventsRelGo] at he
  | cons m ms ih =>
    intro c e he
    simp only [eventsRelGo] at he
    split at he
    · obtain ⟨m', hm', c', hc'⟩ := ih _ e he
      exact ⟨m', List.mem_cons_of_mem _ hm', c', hc'⟩
    · rcases List.mem_cons.1 he with rfl | he
      · exact ⟨m, List.mem_cons_self, c, rfl⟩
      · obtain ⟨m', hm', c', hc'⟩ := ih _ e he
        exact ⟨m', List.mem_cons_of_mem _ hm', c', hc'⟩

/-- a message of the absolute view is the internal cap or a message of the relative list, re-timed -/
theorem mem_toAbs (r : List Msg) (e : Msg) (he : e ∈ toAbs r) :
    e.ty = .internal ∨ (e ∈ eventsRel r ∧ ∃ m ∈ r, ∃ c', e = { m with time := c' }) := by
  rw [toAbs_eq] at he
  split at he
  · rw [mem_sortAbs] at he
    exact Or.inr ⟨he, mem_eventsRelGo r 0 e he⟩
  · have := (insort_perm _ _).mem_iff.1 he
    rcases List.mem_cons.1 this with rfl | h
    · left; rfl
    · rw [mem_sortAbs] at h
      exact Or.inr ⟨h, mem_eventsRelGo r 0 e h⟩

theorem initTs_pos (ppqn : Int) (metaTrack : List Msg) (h4 : 0 < barCapacity ppqn 4 4)
    (h : ∀ m ∈ metaTrack, m.ty = .timeSignature → 0 < barCapacity ppqn m.num m.den) :
    ∀ m ∈ initTs metaTrack, 0 < barCapacity ppqn m.num m.den := by
  intro m hm
  unfold initTs at hm
  split at hm
  · simp only [List.mem_singleton] at hm
    subst hm
    exact h4
  · simp only [timesOfType, List.mem_filter, beq_iff_eq] at hm
    rcases mem_toAbs metaTrack m hm.1 with hi | ⟨_, m', hm', c', rfl⟩
    · rw [hm.2] at hi; cases hi
    · exact h m' hm' hm.2

theorem durRel_lt_fuelOf (tracks : List (List Msg)) (t : List Msg) (ht : t ∈ tracks) :
    durRel t < (fuelOf tracks : Int) := by
  have h := (le_foldl_max (tracks.map (fun t => (totalWait t).toNat)) 0).2 (totalWait t).toNat
    (List.mem_map.2 ⟨t, ht, rfl⟩)
  unfold fuelOf durRel
  omega

/-! ### bar starts along a schedule -/

/-- start of round `k`: the sum of the lengths of the rounds before it -/
def psum (ppqn : Int) (gs : List Sg) (k : Nat) : Int := ((gs.take k).map (sgLen ppqn)).foldl (· + ·) 0

theorem foldl_add_init (l : List Int) : ∀ a : Int, l.foldl (· + ·) a = a + l.foldl (· + ·) 0 := by
  induction l with
  | nil => intro a; simp
  | cons x xs ih =>
    intro a
    simp only [List.foldl_cons]
    rw [ih (a + x), ih (0 + x)]
    omega

theorem psum_zero (ppqn : Int) (gs : List Sg) : psum ppqn gs 0 = 0 := by simp [psum]

theorem psum_nil (ppqn : Int) (k : Nat) : psum ppqn [] k = 0 := by simp [psum]

theorem psum_cons_succ (ppqn : Int) (g : Sg) (gs : List Sg) (k : Nat) :
    psum ppqn (g :: gs) (k + 1) = sgLen ppqn g + psum ppqn gs k := by
  simp only [psum, List.take_succ_cons, List.map_cons, List.foldl_cons]
  rw [foldl_add_init]
  omega

theorem psum_succ (ppqn : Int) : ∀ (gs : List Sg) (k : Nat) (g : Sg), gs[k]? = some g →
    psum ppqn gs (k + 1) = psum ppqn gs k + sgLen ppqn g := by
  intro gs
  induction gs with
  | nil => intro k g h; simp at h
  | cons x xs ih =>
    intro k g h
    cases k with
    | zero =>
      simp only [List.getElem?_cons_zero, Option.some.injEq] at h
      subst h
      rw [psum_cons_succ, psum_zero, psum_zero]; omega
    | succ k =>
      simp only [List.getElem?_cons_succ] at h
      rw [psum_cons_succ, psum_cons_succ, ih k g h]; omega

theorem psum_nonneg (ppqn : Int) : ∀ (gs : List Sg) (k : Nat), (∀ g ∈ gs, 0 ≤ sgLen ppqn g) → 0 ≤ psum ppqn gs k := by
  intro gs
  induction gs with
  | nil => intro k _; rw [psum_nil]; omega
  | cons x xs ih =>
    intro k h
    cases k with
    | zero => rw [psum_zero]; omega
    | succ k =>
      rw [psum_cons_succ]
      have := ih k (fun g hg => h g (List.mem_cons_of_mem _ hg))
      have := h x List.mem_cons_self
      omega

theorem psum_mono (ppqn : Int) : ∀ (gs : List Sg) (j k : Nat), (∀ g ∈ gs, 0 ≤ sgLen ppqn g) → j ≤ k →
    psum ppqn gs j ≤ psum ppqn gs k := by
  intro gs
  induction gs with
  | nil => intro j k _ _; rw [psum_nil, psum_nil]; omega
  | cons x xs ih =>
    intro j k h hjk
    have h' : ∀ g ∈ xs, 0 ≤ sgLen ppqn g := fun g hg => h g (List.mem_cons_of_mem _ hg)
    cases j with
    | zero => rw [psum_zero]; exact psum_nonneg ppqn _ _ h
    | succ j =>
      cases k with
      | zero => omega
      | succ k =>
        rw [psum_cons_succ, psum_cons_succ]
        have := ih j k h' (by omega)
        omega

/-- the flags of a per-track run say whether the track is longer than the rounds so far -/
theorem trackRun_flags (ppqn : Int) (values : List Int) (requant : Bool) : ∀ (gs : List Sg) (t : List Msg)
    (tw : List Bool) (t' : List Msg) (nb : List Bar), trackRun ppqn values requant gs t = .ok (tw, t', nb) →
    (∀ g ∈ gs, 0 < sgLen ppqn g) → NonNegWaits t →
    ∀ (j : Nat) (b : Bool), tw[j]? = some b → (b = true ↔ psum ppqn gs (j + 1) < durRel t) := by
  intro gs
  induction gs with
  | nil =>
    intro t tw t' nb h _ _ j b hj
    simp only [trackRun, Except.ok.injEq, Prod.mk.injEq] at h
    obtain ⟨rfl, _, _⟩ := h
    simp at hj
  | cons g gs ih =>
    intro t tw t' nb h hpos hw j b hj
    obtain ⟨o, r, h1, h2, h3⟩ := trackRun_cons_inv h
    simp only [Prod.mk.injEq] at h3
    obtain ⟨rfl, rfl, rfl⟩ := h3
    have hpos' : ∀ g ∈ gs, 0 < sgLen ppqn g := fun x hx => hpos x (List.mem_cons_of_mem _ hx)
    obtain ⟨hwo, hd⟩ := trackStep_dur h1 (hpos g List.mem_cons_self) hw
    rw [psum_cons_succ]
    cases j with
    | zero =>
      simp only [List.getElem?_cons_zero, Option.some.injEq] at hj
      subst hj
      rw [psum_zero]
      rcases hd with ⟨hf, _, hle⟩ | ⟨ht, hlt, _⟩
      · rw [hf]; constructor
        · intro hh; cases hh
        · intro hh; omega
      · rw [ht]; constructor
        · intro _; omega
        · intro _; rfl
    | succ j =>
      simp only [List.getElem?_cons_succ] at hj
      have hih := ih _ _ _ _ h2 hpos' hwo j b hj
      have hnn := psum_nonneg ppqn gs (j + 1) (fun g hg => Int.le_of_lt (hpos' g hg))
      rcases hd with ⟨_, he, hle⟩ | ⟨_, hlt, hq⟩
      · rw [he] at hih
        simp only [durRel, totalWait] at hih hle ⊢
        rw [hih]
        constructor <;> intro hh <;> omega
      · rw [hih, hq]
        constructor <;> intro hh <;> omega

/-- the bars of a per-track run carry the schedule -/
theorem trackRun_sigs (ppqn : Int) (values : List Int) (requant : Bool) (gs : List Sg) (t : List Msg)
    (tw : List Bool) (t' : List Msg) (nb : List Bar) (h : trackRun ppqn values requant gs t = .ok (tw, t', nb)) :
    nb.map (fun b => ((b.num, b.den, b.key) : Sg)) = gs := by
  obtain ⟨_, h2, h3⟩ := trackRun_shape ppqn values requant gs t tw t' nb h
  apply List.ext_getElem?
  intro k
  rw [List.getElem?_map]
  by_cases hk : k < gs.length
  · have hk' : k < nb.length := by omega
    obtain ⟨piece, hp⟩ := h3 k _ _ (getElem?_some_of_lt hk) (getElem?_some_of_lt hk')
    obtain ⟨_, _, e1, e2, e3⟩ := C10.bar_leading_sig ppqn piece _ _ _ _ hp
    rw [getElem?_some_of_lt hk', getElem?_some_of_lt hk]
    simp only [Option.map_some, e1, e2, e3]
  · rw [List.getElem?_eq_none (by omega), List.getElem?_eq_none (by omega)]
    rfl

/-! ### the queue discipline -/

/-- one lookup in a queue of timed change events: the head is consumed iff it is due -/
def nextQ {α} (val : Msg → α) (now : Int) (cur : α) (q : List Msg) : α × List Msg :=
  match q with
  | m :: rest => if m.time <= now then (val m, rest) else (cur, q)
  | [] => (cur, q)

/-- the values in force round by round, for given round lengths -/
def qrun {α} (val : Msg → α) : List Int → Int → α → List Msg → List α
  | [], _, _, _ => []
  | len :: lens, now, cur, q =>
    (nextQ val now cur q).1 :: qrun val lens (now + len) (nextQ val now cur q).1 (nextQ val now cur q).2

def isum (lens : List Int) (k : Nat) : Int := (lens.take k).foldl (· + ·) 0

theorem psum_eq_isum (ppqn : Int) (gs : List Sg) (k : Nat) : psum ppqn gs k = isum (gs.map (sgLen ppqn)) k := by
  simp only [psum, isum, List.map_take]

theorem isum_zero (lens : List Int) : isum lens 0 = 0 := by simp [isum]

theorem isum_cons_succ (l : Int) (lens : List Int) (k : Nat) : isum (l :: lens) (k + 1) = l + isum lens k := by
  simp only [isum, List.take_succ_cons, List.foldl_cons]
  rw [foldl_add_init]
  omega

theorem isum_nonneg : ∀ (lens : List Int) (k : Nat), (∀ l ∈ lens, 0 ≤ l) → 0 ≤ isum lens k := by
  intro lens
  induction lens with
  | nil => intro k _; simp [isum]
  | cons x xs ih =>
    intro k h
    cases k with
    | zero => rw [isum_zero]; omega
    | succ k =>
      rw [isum_cons_succ]
      have := ih k (fun g hg => h g (List.mem_cons_of_mem _ hg))
      have := h x List.mem_cons_self
      omega

theorem nextSig_eq (now num den : Int) (q : List Msg) :
    nextSig now num den q = ((nextQ (fun m => (m.num, m.den)) now (num, den) q).1.1,
      (nextQ (fun m => (m.num, m.den)) now (num, den) q).1.2, (nextQ (fun m => (m.num, m.den)) now (num, den) q).2) := by
  unfold nextSig nextQ
  cases q with
  | nil => rfl
  | cons m rest =>
    simp only
    split <;> rfl

theorem nextKey_eq (now key : Int) (q : List Msg) : nextKey now key q = nextQ (fun m => m.key) now key q := by
  unfold nextKey nextQ
  cases q with
  | nil => rfl
  | cons m rest => rfl

theorem ctl_sigs (ppqn : Int) : ∀ (r : Nat) (now num den key : Int) (tsQ ksQ : List Msg),
    (ctl ppqn r now num den key tsQ ksQ).map (fun g => (g.1, g.2.1))
      = qrun (fun m => (m.num, m.den)) ((ctl ppqn r now num den key tsQ ksQ).map (sgLen ppqn)) now (num, den) tsQ := by
  intro r
  induction r with
  | zero => intros; rfl
  | succ r ih =>
    intro now num den key tsQ ksQ
    simp only [ctl, List.map_cons, qrun]
    rw [ih]
    simp only [nextSig_eq]

theorem ctl_keys (ppqn : Int) : ∀ (r : Nat) (now num den key : Int) (tsQ ksQ : List Msg),
    (ctl ppqn r now num den key tsQ ksQ).map (fun g => g.2.2)
      = qrun (fun m => m.key) ((ctl ppqn r now num den key tsQ ksQ).map (sgLen ppqn)) now key ksQ := by
  intro r
  induction r with
  | zero => intros; rfl
  | succ r ih =>
    intro now num den key tsQ ksQ
    simp only [ctl, List.map_cons, qrun]
    rw [ih]
    simp only [nextKey_eq]

/-- **queue discipline**: if every pending event sits on a round start (of the rounds to come), the events are
    strictly time-ordered and no round has negative length, then the value of round `k` is the one of the
    last event at or before its start (the current value if there is none) -/
theorem qrun_inForce {α} (val : Msg → α) : ∀ (lens : List Int) (now : Int) (cur : α) (q : List Msg),
    (∀ l ∈ lens, 0 ≤ l) →
    (∀ m ∈ q, ∃ j, j < lens.length ∧ m.time = now + isum lens j) →
    q.Pairwise (fun a b => a.time < b.time) →
    ∀ (k : Nat) (v : α), (qrun val lens now cur q)[k]? = some v →
      v = match (q.filter (fun m => decide (m.time ≤ now + isum lens k))).getLast? with
          | some m => val m
          | Option.none => cur := by
  intro lens
  induction lens with
  | nil => intro now cur q _ _ _ k v h; simp [qrun] at h
  | cons len lens ih =>
    intro now cur q hnn hal hs k v hk
    have hlen : 0 ≤ len := hnn len List.mem_cons_self
    have hnn' : ∀ l ∈ lens, 0 ≤ l := fun l hl => hnn l (List.mem_cons_of_mem _ hl)
    -- events later than `now` sit on a later round start
    have hshift : ∀ x ∈ q, now < x.time → ∃ j, j < lens.length ∧ x.time = now + len + isum lens j := by
      intro x hx hlt
      obtain ⟨j, hj, hxt⟩ := hal x hx
      cases j with
      | zero => rw [isum_zero] at hxt; omega
      | succ j =>
        rw [isum_cons_succ] at hxt
        exact ⟨j, by simpa using hj, by omega⟩
    cases q with
    | nil =>
      simp only [qrun, nextQ] at hk
      cases k with
      | zero =>
        simp only [List.getElem?_cons_zero, Option.some.injEq] at hk
        simp [hk]
      | succ k =>
        simp only [List.getElem?_cons_succ] at hk
        have := ih (now + len) cur [] hnn' (by simp) (by simp) k v hk
        simpa using this
    | cons m rest =>
      have hm0 : now ≤ m.time := by
        obtain ⟨j, _, hj⟩ := hal m List.mem_cons_self
        have := isum_nonneg (len :: lens) j hnn
        omega
      have hrest : ∀ x ∈ rest, m.time < x.time := (List.pairwise_cons.1 hs).1
      have hs' : rest.Pairwise (fun a b => a.time < b.time) := (List.pairwise_cons.1 hs).2
      by_cases hdue : m.time ≤ now
      · have hq : nextQ val now cur (m :: rest) = (val m, rest) := by simp [nextQ, hdue]
        simp only [qrun, hq] at hk
        cases k with
        | zero =>
          simp only [List.getElem?_cons_zero, Option.some.injEq] at hk
          have hf : rest.filter (fun x => decide (x.time ≤ now + isum (len :: lens) 0)) = [] := by
            rw [List.filter_eq_nil_iff]
            intro x hx
            have := hrest x hx
            rw [isum_zero]
            simp only [decide_eq_true_eq]
            omega
          rw [List.filter_cons, if_pos (by rw [isum_zero]; simp only [decide_eq_true_eq]; omega), hf]
          simp [hk]
        | succ k =>
          simp only [List.getElem?_cons_succ] at hk
          have hal' : ∀ x ∈ rest, ∃ j, j < lens.length ∧ x.time = now + len + isum lens j := by
            intro x hx
            have := hrest x hx
            exact hshift x (List.mem_cons_of_mem _ hx) (by omega)
          have := ih (now + len) (val m) rest hnn' hal' hs' k v hk
          have hk0 := isum_nonneg lens k hnn'
          rw [List.filter_cons, if_pos (by rw [isum_cons_succ]; simp only [decide_eq_true_eq]; omega),
            List.getLast?_cons, isum_cons_succ, ← Int.add_assoc]
          rw [this]
          cases (rest.filter (fun x => decide (x.time ≤ now + len + isum lens k))).getLast? <;> rfl
      · have hq : nextQ val now cur (m :: rest) = (cur, m :: rest) := by simp [nextQ, hdue]
        simp only [qrun, hq] at hk
        cases k with
        | zero =>
          simp only [List.getElem?_cons_zero, Option.some.injEq] at hk
          have hf : (m :: rest).filter (fun x => decide (x.time ≤ now + isum (len :: lens) 0)) = [] := by
            rw [List.filter_eq_nil_iff]
            intro x hx
            rw [isum_zero]
            simp only [decide_eq_true_eq]
            rcases List.mem_cons.1 hx with rfl | hx
            · omega
            · have := hrest x hx; omega
          rw [hf]
          simp [hk]
        | succ k =>
          simp only [List.getElem?_cons_succ] at hk
          have hal' : ∀ x ∈ m :: rest, ∃ j, j < lens.length ∧ x.time = now + len + isum lens j := by
            intro x hx
            refine hshift x hx ?_
            rcases List.mem_cons.1 hx with rfl | hx
            · omega
            · have := hrest x hx; omega
          have := ih (now + len) cur (m :: rest) hnn' hal' hs k v hk
          rw [isum_cons_succ, ← Int.add_assoc]
          exact this

/-! ### sounding along concatenations -/

theorem Dp_late (k : Int × Int) (t a : Int) (l : List Msg) (d : Nat) (hl : NonNegWaits l) (h : t < a) :
    Dp k t a l d = d := by
  have : (eventsRelGo a l).filter (fun m => decide (m.time ≤ t)) = [] := by
    rw [List.filter_eq_nil_iff]
    intro x hx
    have := (eventsRelGo_bounds l a hl x hx).1
    simp only [decide_eq_true_eq]; omega
  simp only [Dp, this, depth]

theorem Dp_cons_nowait (k : Int × Int) (t a : Int) (m : Msg) (l : List Msg) (d : Nat) (hm : m.ty ≠ .wait) :
    Dp k t a (m :: l) d = Dp k t a l (Dp k t a [m] d) := by
  have e : m :: l = [m] ++ l := rfl
  have h0 : totalWait [m] = 0 := by simp [totalWait, hm]
  rw [e, Dp_append, h0, Int.add_zero]

theorem Dp_single_early (k : Int × Int) (t a : Int) (m : Msg) (d : Nat) (hm : m.ty ≠ .wait) (h : a ≤ t) :
    Dp k t a [m] d = depth k [m] d :=
  Dp_nowait_early k t a [m] d (by simpa using hm) h

theorem Dp_single_late (k : Int × Int) (t a : Int) (m : Msg) (d : Nat) (hm : m.ty ≠ .wait) (h : t < a) :
    Dp k t a [m] d = d :=
  Dp_nowait_late k t a [m] d (by simpa using hm) h

theorem Dp_shift (k : Int × Int) (t c : Int) (l : List Msg) : ∀ (a : Int) (d : Nat),
    Dp k t (a + c) l d = Dp k (t - c) a l d := by
  induction l with
  | nil => intro a d; rfl
  | cons m ms ih =>
    intro a d
    by_cases hw : m.ty = .wait
    · rw [Dp_cons_wait k t _ m ms d hw, Dp_cons_wait k _ a m ms d hw,
        show a + c + m.time = a + m.time + c by omega]
      exact ih _ _
    · rw [Dp_cons_nowait k t _ m ms d hw, Dp_cons_nowait k _ a m ms d hw, ih]
      congr 1
      by_cases h : a + c ≤ t
      · rw [Dp_single_early k t _ m d hw h, Dp_single_early k _ a m d hw (by omega)]
      · rw [Dp_single_late k t _ m d hw (by omega), Dp_single_late k _ a m d hw (by omega)]

/-- along a list on which key `k` alternates, the depth counter never saturates: it is additive -/
theorem Dp_add (k : Int × Int) (t : Int) (l : List Msg) : ∀ (a : Int) (b b' : Bool), altRun k b l = some b' →
    NonNegWaits l → ∃ b'' : Bool, ∀ d : Nat, Dp k t a l (d + b.toNat) = d + b''.toNat := by
  induction l with
  | nil => intro a b b' _ _; exact ⟨b, fun d => rfl⟩
  | cons m ms ih =>
    intro a b b' h hl
    have hl' : NonNegWaits ms := nonNegWaits_tail hl
    by_cases hw : m.ty = .wait
    · have hnk : ¬ Kev k m := by rintro ⟨_, c | c⟩ <;> simp [hw] at c
      rw [altRun_cons_skip k b m ms hnk] at h
      obtain ⟨b'', hb⟩ := ih (a + m.time) b b' h hl'
      exact ⟨b'', fun d => by rw [Dp_cons_wait k t a m ms _ hw]; exact hb d⟩
    · by_cases hlate : t < a
      · exact ⟨b, fun d => Dp_late k t a _ _ hl hlate⟩
      · have hearly : a ≤ t := by omega
        by_cases hon : m.nkey = k ∧ m.ty = .noteOn
        · rw [altRun_cons_on k b m ms hon] at h
          cases b with
          | true => simp at h
          | false =>
            simp only [Bool.false_eq_true, if_false] at h
            obtain ⟨b'', hb⟩ := ih a true b' h hl'
            refine ⟨b'', fun d => ?_⟩
            rw [Dp_cons_nowait k t a m ms _ hw, Dp_single_early k t a m _ hw hearly, depth_cons_on k m [] _ hon]
            exact hb d
        · by_cases hoff : m.nkey = k ∧ m.ty = .noteOff
          · rw [altRun_cons_off k b m ms hoff] at h
            cases b with
            | false => simp at h
            | true =>
              simp only [if_true] at h
              obtain ⟨b'', hb⟩ := ih a false b' h hl'
              refine ⟨b'', fun d => ?_⟩
              rw [Dp_cons_nowait k t a m ms _ hw, Dp_single_early k t a m _ hw hearly, depth_cons_off k m [] _ hoff]
              exact hb d
          · have hnk : ¬ Kev k m := not_kev_of hon hoff
            rw [altRun_cons_skip k b m ms hnk] at h
            obtain ⟨b'', hb⟩ := ih a b b' h hl'
            refine ⟨b'', fun d => ?_⟩
            rw [Dp_cons_nowait k t a m ms _ hw, Dp_single_early k t a m _ hw hearly, depth_cons_skip k m [] _ hnk]
            exact hb d

theorem Dp_wf_add (k : Int × Int) (t a : Int) (l : List Msg) (hwf : WF l) (hl : NonNegWaits l) (d : Nat) :
    Dp k t a l d = d + Dp k t a l 0 := by
  obtain ⟨b'', hb⟩ := Dp_add k t l a false false ((wf_iff l).1 hwf k) hl
  have h1 := hb d
  have h2 := hb 0
  simp only [Bool.toNat_false, Nat.add_zero, Nat.zero_add] at h1 h2
  rw [h1, h2]

/-- key `k` sounds at tick `t` in the relative list `l` started at clock `a` -/
def Snd (k : Int × Int) (t a : Int) (l : List Msg) : Prop := 0 < Dp k t a l 0

theorem snd_iff_sounding (k : Int × Int) (t : Int) (l : List Msg) :
    Snd k t 0 l ↔ SoundingAt (eventsRel l) k t := Iff.rfl

theorem snd_shift (k : Int × Int) (t a : Int) (l : List Msg) :
    Snd k t a l ↔ SoundingAt (eventsRel l) k (t - a) := by
  unfold Snd
  have := Dp_shift k t a l 0 0
  rw [Int.zero_add] at this
  rw [this]
  exact Iff.rfl

theorem snd_append (k : Int × Int) (t a : Int) (x y : List Msg) (hwf : WF y) (hy : NonNegWaits y) :
    Snd k t a (x ++ y) ↔ Snd k t a x ∨ Snd k t (a + totalWait x) y := by
  unfold Snd
  rw [Dp_append, Dp_wf_add k t _ y hwf hy]
  omega

theorem snd_nil (k : Int × Int) (t a : Int) : ¬ Snd k t a [] := by
  simp [Snd, Dp_nil]

theorem wf_append {x y : List Msg} (hx : WF x) (hy : WF y) : WF (x ++ y) := by
  rw [wf_iff] at *
  intro k
  rw [altRun_append, hx k]
  exact hy k

theorem wf_nil : WF [] := by
  rw [wf_iff]; intro k; rfl

theorem paired_of_wf (l : List Msg) (h : WF l) : C07.Paired l := by
  intro k
  have key : ∀ (l : List Msg) (b : Bool), altFrom k b l → C07.balancedFrom k b.toNat l := by
    intro l
    induction l with
    | nil => intro b h; simp only [altFrom] at h; subst h; rfl
    | cons m ms ih =>
      intro b h
      simp only [altFrom] at h
      simp only [C07.balancedFrom]
      split
      · rename_i hon
        rw [if_pos hon] at h
        obtain ⟨rfl, h2⟩ := h
        exact ih true h2
      · rename_i hon
        rw [if_neg hon] at h
        split
        · rename_i hoff
          rw [if_pos hoff] at h
          obtain ⟨rfl, h2⟩ := h
          exact ⟨by simp, ih false h2⟩
        · rename_i hoff
          rw [if_neg hoff] at h
          exact ih b h
  exact key l false (h k)

/-! ### no zero-length notes in the closed pieces -/

/-- executable form of `zl`: the `fresh` flag after `l`, `none` if a note of `k` has zero length -/
def zlRun (k : Int × Int) : Bool → List Msg → Option Bool
  | f, [] => some f
  | f, m :: ms =>
    if m.ty = .wait then zlRun k (f && decide (m.time ≤ 0)) ms
    else if m.nkey = k ∧ m.ty = .noteOn then zlRun k true ms
    else if m.nkey = k ∧ m.ty = .noteOff then (if f then none else zlRun k false ms)
    else zlRun k f ms

theorem zl_iff_zlRun (k : Int × Int) (l : List Msg) : ∀ f, zl k f l ↔ (zlRun k f l).isSome = true := by
  induction l with
  | nil => intro f; simp [zl, zlRun]
  | cons m ms ih =>
    intro f
    simp only [zl, zlRun]
    split
    · exact ih _
    · split
      · exact ih _
      · split
        · cases f <;> simp [ih]
        · exact ih _

theorem zlRun_append (k : Int × Int) (u w : List Msg) : ∀ f,
    zlRun k f (u ++ w) = (zlRun k f u).bind (fun f' => zlRun k f' w) := by
  induction u with
  | nil => intro f; simp [zlRun]
  | cons m ms ih =>
    intro f
    simp only [List.cons_append, zlRun]
    split
    · exact ih _
    · split
      · exact ih _
      · split
        · cases f <;> simp [ih]
        · exact ih _

theorem zlRun_offs (k : Int × Int) (opens : Assoc (Int × Int) Msg) :
    zlRun k false (opens.map offOf) = some false := by
  induction opens with
  | nil => rfl
  | cons x rest ih =>
    simp only [List.map_cons, zlRun, offOf_ty]
    simp [ih]

theorem zlRun_single_skip (k : Int × Int) (f : Bool) (m : Msg) (hw : m.ty ≠ .wait) (hk : ¬ Kev k m) :
    zlRun k f [m] = some f := by
  have h1 : ¬ (m.nkey = k ∧ m.ty = .noteOn) := fun ⟨a, c⟩ => hk ⟨a, Or.inl c⟩
  have h2 : ¬ (m.nkey = k ∧ m.ty = .noteOff) := fun ⟨a, c⟩ => hk ⟨a, Or.inr c⟩
  simp [zlRun, hw, h1, h2]

theorem splitInner_nozero (c : Int) (hc : 0 < c) (fuel : Nat) (s s' : SplitSt) (hcur : s.cur = [])
    (hq : s.queue = []) (hw : NonNegWaits s.wm) (hA : AltO s) (h : splitInner fuel c s = .ok s') :
    ∀ p ∈ s'.pieces, p ∈ s.pieces ∨ NoZeroNotes p := by
  refine splitInner_invBA c
    (fun rem s0 => s0.pieces = s.pieces ∧
      ∀ k, ∃ f, zlRun k false s0.cur.reverse = some f ∧ (f = true → 0 < rem ∧ zl k true s0.wm))
    (fun s' => ∀ p ∈ s'.pieces, p ∈ s.pieces ∨ NoZeroNotes p)
    ?_ ?_ ?_ ?_ ?_ ?_ fuel c s s' (base_init c hc s hcur hq hw)
    ⟨hA.ok, fun k => KeyInv.init hc hcur hq (hA.key k)⟩
    ⟨rfl, fun k => ⟨false, by simp [hcur, zlRun], by simp⟩⟩ h
  · -- end of input
    intro rem cur queue opens pieces hB hAP ⟨hP, hZ⟩ p hp
    simp only at hP hZ hp
    split at hp
    · left; rw [← hP]; exact hp
    · rcases List.mem_cons.1 hp with rfl | hp
      · right
        intro k
        obtain ⟨f, hf, _⟩ := hZ k
        rw [zl_iff_zlRun, hf]; rfl
      · left; rw [← hP]; exact hp
  · -- push
    intro rem m wm cur opens pieces hB hAP ⟨hP, hZ⟩ hoff hwt hrem
    refine ⟨hP, ?_⟩
    intro k
    obtain ⟨f, hf, hff⟩ := hZ k
    simp only [List.reverse_cons] at hf ⊢
    rw [zlRun_append, hf]
    simp only [Option.bind_some]
    by_cases hon : m.nkey = k ∧ m.ty = .noteOn
    · refine ⟨true, by simp [zlRun, hon], fun _ => ⟨hrem, ?_⟩⟩
      have := (hAP.key k).1
      simp only [List.reverse_nil, List.nil_append] at this
      exact (zl_cons_on k _ m wm hon).1 this
    · have hk : ¬ Kev k m := not_kev_of hon (fun h => hoff h.2)
      refine ⟨f, zlRun_single_skip k f m hwt hk, ?_⟩
      intro hft
      obtain ⟨h1, h2⟩ := hff hft
      exact ⟨h1, (zl_cons_skip k _ m wm hwt hk).1 h2⟩
  · -- defer
    intro m wm cur queue opens pieces hB hAP ⟨hP, hZ⟩ _ _
    refine ⟨hP, ?_⟩
    intro k
    obtain ⟨f, hf, hff⟩ := hZ k
    refine ⟨f, hf, ?_⟩
    intro hft
    have := (hff hft).1
    omega
  · -- note-off
    intro rem m wm cur queue opens pieces hB hAP ⟨hP, hZ⟩ hm
    refine ⟨hP, ?_⟩
    intro k
    obtain ⟨f, hf, hff⟩ := hZ k
    have hmw : m.ty ≠ .wait := by rw [hm]; simp
    simp only [List.reverse_cons] at hf ⊢
    rw [zlRun_append, hf]
    simp only [Option.bind_some]
    by_cases hk : m.nkey = k
    · have hoff : m.nkey = k ∧ m.ty = .noteOff := ⟨hk, hm⟩
      have hff' : f = false := by
        cases f with
        | false => rfl
        | true =>
          have := (hff rfl).2
          rw [zl_cons_off k _ m wm hoff] at this
          exact absurd this.1 (by simp)
      subst hff'
      have hon : ¬ (m.nkey = k ∧ m.ty = .noteOn) := by rw [hm]; simp
      exact ⟨false, by simp [zlRun, hoff], by simp⟩
    · have hnk : ¬ Kev k m := fun h => hk h.1
      refine ⟨f, zlRun_single_skip k f m hmw hnk, ?_⟩
      intro hft
      obtain ⟨h1, h2⟩ := hff hft
      exact ⟨h1, (zl_cons_skip k _ m wm hmw hnk).1 h2⟩
  · -- wait that fits
    intro rem m wm cur queue opens pieces hB hAP ⟨hP, hZ⟩ hm hle hnn _
    refine ⟨hP, ?_⟩
    intro k
    obtain ⟨f, hf, hff⟩ := hZ k
    simp only [List.reverse_cons] at hf ⊢
    rw [zlRun_append, hf]
    simp only [Option.bind_some]
    refine ⟨f && decide (m.time ≤ 0), by simp [zlRun, hm], ?_⟩
    intro hft
    simp only [Bool.and_eq_true, decide_eq_true_eq] at hft
    obtain ⟨h1, h2⟩ := hff hft.1
    refine ⟨by omega, ?_⟩
    rw [zl_cons_wait k _ m wm hm] at h2
    simpa [hft.2] using h2
  · -- wait that does not fit
    intro rem m wm cur queue opens pieces hB hAP ⟨hP, hZ⟩ hm hr p hp
    simp only at hP hZ hp
    split at hp
    · left; rw [← hP]; exact hp
    · rcases List.mem_cons.1 hp with rfl | hp
      · right
        intro k
        obtain ⟨f, hf, hff⟩ := hZ k
        rw [zl_iff_zlRun]
        unfold closedPiece
        rw [zlRun_append, hf]
        simp only [Option.bind_some]
        rw [zlRun_append]
        have h1 : zlRun k f (if 0 < rem then [Msg.mkWait m.ch rem] else []) = some false := by
          split
          · rename_i hpos
            have : ¬ rem ≤ 0 := by omega
            simp [zlRun, Msg.mkWait, this]
          · rename_i hpos
            cases f with
            | false => rfl
            | true => exact absurd (hff rfl).1 hpos
        rw [h1]
        simp only [Option.bind_some]
        rw [zlRun_offs]; rfl
      · left; rw [← hP]; exact hp

/-! ### notes through one capacity -/

theorem splitInner_nnw (c : Int) (hc : 0 < c) (fuel : Nat) (s s' : SplitSt) (hcur : s.cur = [])
    (hq : s.queue = []) (hw : NonNegWaits s.wm) (h : splitInner fuel c s = .ok s') :
    ∀ p ∈ s'.pieces, p ∈ s.pieces ∨ NonNegWaits p := by
  refine splitInner_invB c (fun _ s0 => s0.pieces = s.pieces)
    (fun s' => ∀ p ∈ s'.pieces, p ∈ s.pieces ∨ NonNegWaits p)
    ?_ ?_ ?_ ?_ ?_ ?_ fuel c s s' (base_init c hc s hcur hq hw) rfl h
  · intro rem cur queue opens pieces hB hP p hp
    simp only at hP hp
    split at hp
    · left; rw [← hP]; exact hp
    · rcases List.mem_cons.1 hp with rfl | hp
      · right
        intro x hx
        exact hB.nnc x (by simpa using hx)
      · left; rw [← hP]; exact hp
  · intro rem m wm cur opens pieces hB hP _ _ _; exact hP
  · intro m wm cur queue opens pieces hB hP _ _; exact hP
  · intro rem m wm cur queue opens pieces hB hP _; exact hP
  · intro rem m wm cur queue opens pieces hB hP _ _ _ _; exact hP
  · intro rem m wm cur queue opens pieces hB hP hm hr p hp
    simp only at hP hp
    split at hp
    · left; rw [← hP]; exact hp
    · rcases List.mem_cons.1 hp with rfl | hp
      · right
        unfold closedPiece
        rw [nonNegWaits_append, nonNegWaits_append]
        refine ⟨fun x hx => hB.nnc x (by simpa using hx), ?_, nonNegWaits_nowait _ (map_offOf_nowait opens)⟩
        split
        · intro x hx _
          simp only [List.mem_singleton] at hx
          subst hx
          simp only [Msg.mkWait]; omega
        · simp [NonNegWaits]
      · left; rw [← hP]; exact hp

/-- notes through `split r [c]`: the pieces are well-formed with non-negative waits, laid end to end they sound like
    the input (from any start clock), and a remainder has no zero-length notes -/
theorem split_one_notes (r : List Msg) (c : Int) (pieces : List (List Msg)) (h : split r [c] = .ok pieces)
    (hc : 0 < c) (hw : NonNegWaits r) (hwf : WF r) (hz : NoZeroNotes r) (k : Int × Int) (t a : Int) :
    (∀ p ∈ pieces, WF p ∧ NonNegWaits p ∧ NoZeroNotes p) ∧ (∀ d, Dp k t a pieces.flatten d = Dp k t a r d) := by
  obtain ⟨s, hs, rfl⟩ := split_eq r [c] pieces h
  have h1 := splitOuter_one hs
  obtain ⟨hc1, _, hw1, np, hp1, hl1, _⟩ := splitInner_timing c 0 hc _ _ s rfl rfl hw h1
  obtain ⟨hA, np', hp1', _, hwfn, hD⟩ := splitInner_notes k t c a hc _ _ s rfl rfl hw (AltO.init r hwf hz) h1
  have hnn := splitInner_nnw c hc _ _ s rfl rfl hw h1
  have hnz := splitInner_nozero c hc _ _ s rfl rfl hw (AltO.init r hwf hz) h1
  simp only [List.append_nil] at hp1 hp1' hD hnn hnz
  rw [hp1] at hp1'
  subst hp1'
  rw [hc1, hp1]
  simp only [List.reverse_nil, List.nil_append]
  have hrev : np.reverse = np := reverse_short np hl1
  have hnpn : ∀ p ∈ np, NonNegWaits p ∧ NoZeroNotes p := by
    intro p hp
    refine ⟨?_, ?_⟩
    · rcases hnn p (by rw [hp1]; exact hp) with h0 | h0
      · simp at h0
      · exact h0
    · rcases hnz p (by rw [hp1]; exact hp) with h0 | h0
      · simp at h0
      · exact h0
  by_cases hwm : s.wm = []
  · simp only [hwm, if_true, List.append_nil] at hD ⊢
    rw [hrev]
    exact ⟨fun p hp => ⟨hwfn p hp, (hnpn p hp).1, (hnpn p hp).2⟩, hD⟩
  · simp only [hwm, if_false, List.reverse_cons, hrev]
    refine ⟨?_, ?_⟩
    · intro p hp
      rcases List.mem_append.1 hp with hp | hp
      · exact ⟨hwfn p hp, (hnpn p hp).1, (hnpn p hp).2⟩
      · simp only [List.mem_singleton] at hp
        subst hp
        exact ⟨hA.wf, hw1, fun k' => (hA.key k').1⟩
    · simpa using hD

/-! ### a bar sounds like the piece it was built from -/

theorem depth_filter_keep (k : Int × Int) (p : Msg → Bool) (hp : ∀ m, Kev k m → p m = true) (l : List Msg) :
    ∀ d, depth k (l.filter p) d = depth k l d := by
  induction l with
  | nil => intro d; rfl
  | cons x xs ih =>
    intro d
    by_cases hx : p x = true
    · simp only [List.filter_cons, hx, if_true, depth, ih]
    · have hnk : ¬ Kev k x := fun hk => hx (hp x hk)
      rw [List.filter_cons, if_neg hx, depth_cons_skip k x xs d hnk]
      exact ih d

theorem sounding_bar (E : List Msg) (ts : Msg) (hts : ts.ty = .timeSignature) (k : Int × Int) (t : Int) :
    SoundingAt (ts :: E.filter (·.ty != .timeSignature)) k t ↔ SoundingAt E k t := by
  have hnk : ¬ Kev k ts := by rintro ⟨_, c | c⟩ <;> simp [hts] at c
  have hcomm : (E.filter (·.ty != .timeSignature)).filter (fun m => decide (m.time ≤ t))
      = (E.filter (fun m => decide (m.time ≤ t))).filter (·.ty != .timeSignature) := by
    rw [List.filter_filter, List.filter_filter]
    congr 1
    funext m
    exact Bool.and_comm _ _
  have hkeep : ∀ m, Kev k m → (m.ty != MType.timeSignature) = true := by
    rintro m ⟨_, c | c⟩ <;> simp [c]
  unfold SoundingAt
  rw [List.filter_cons]
  split
  · rw [depth_cons_skip k ts _ 0 hnk, hcomm, depth_filter_keep k _ hkeep]
  · rw [hcomm, depth_filter_keep k _ hkeep]

theorem bar_snd (ppqn : Int) (rel : List Msg) (n d key : Int) (b : Bar) (h : mkBar ppqn rel n d key = .ok b)
    (hw : NonNegWaits rel) (hwf : WF rel) (k : Int × Int) (t a : Int) :
    Snd k t a b.seq ↔ Snd k t a rel := by
  obtain ⟨_, _, _, hb⟩ := mkBar_ok h
  subst hb
  rw [snd_shift, snd_shift]
  show SoundingAt (eventsRel (barSeq ppqn rel n d)) k (t - a) ↔ _
  rw [barSeq_events, sounding_bar _ _ rfl]
  exact C07.sound_eq rel hw (paired_of_wf rel hwf) k (t - a)

theorem bar_wf_nn (ppqn : Int) (rel : List Msg) (n d key : Int) (b : Bar) (h : mkBar ppqn rel n d key = .ok b) :
    WF b.seq ∧ NonNegWaits b.seq ∧ durRel b.seq = barCapacity ppqn n d := by
  obtain ⟨h1, _, _, hb⟩ := mkBar_ok h
  subst hb
  exact ⟨barSeq_wf ppqn rel n d, barSeq_nonneg ppqn rel n d, barSeq_dur ppqn rel n d h1⟩

/-! ### sounding through a per-track run -/

theorem nnw_nil : NonNegWaits [] := by simp [NonNegWaits]

theorem noZero_nil : NoZeroNotes [] := fun _ => trivial

/-- what one round does to the sounding set of a track: the track sounds like its first piece followed by the
    remainder one bar length later -/
theorem trackStep_notes {ppqn : Int} {values : List Int} {requant : Bool} {g : Sg} {t : List Msg}
    {o : Bool × List Msg × Bar} (h : trackStep ppqn values requant g t = .ok o) (hc : 0 < sgLen ppqn g)
    (hw : NonNegWaits t) (hwf : WF t) (hz : NoZeroNotes t) (k : Int × Int) (tick : Int) :
    ∃ first piece, requantPiece values ppqn requant first = .ok piece ∧
      mkBar ppqn piece g.1 g.2.1 g.2.2 = .ok o.2.2 ∧ WF first ∧ NonNegWaits first ∧ NoZeroNotes first ∧
      WF o.2.1 ∧ NonNegWaits o.2.1 ∧ NoZeroNotes o.2.1 ∧
      ∀ a, Snd k tick a t ↔ Snd k tick a first ∨ Snd k tick (a + sgLen ppqn g) o.2.1 := by
  obtain ⟨pieces, first, piece, hs, hrq, hmk, hcase⟩ := trackStep_spec h
  refine ⟨first, piece, hrq, hmk, ?_⟩
  have hN := fun a => split_one_notes t _ pieces hs hc hw hwf hz k tick a
  obtain ⟨hP, _⟩ := hN 0
  have hD : ∀ a, Snd k tick a t ↔ Snd k tick a pieces.flatten := by
    intro a
    unfold Snd
    rw [(hN a).2 0]
  rcases hcase with ⟨hp, hf, _, hr⟩ | ⟨hp, _, hr⟩ | ⟨tl, hp, _⟩
  · subst hp hf
    rw [hr]
    refine ⟨wf_nil, nnw_nil, noZero_nil, wf_nil, nnw_nil, noZero_nil, ?_⟩
    intro a
    rw [hD a]
    simp [snd_nil]
  · subst hp
    rw [hr]
    obtain ⟨h1, h2, h2z⟩ := hP first (by simp)
    refine ⟨h1, h2, h2z, wf_nil, nnw_nil, noZero_nil, ?_⟩
    intro a
    rw [hD a]
    simp [snd_nil]
  · rcases split_one t _ pieces hs hc hw with ⟨_, hp', _⟩ | ⟨_, p, q, hp', hdp, _, _⟩
    · rcases hp' with hp' | ⟨p, hp'⟩ <;> simp [hp'] at hp
    · rw [hp'] at hp
      simp only [List.cons.injEq] at hp
      obtain ⟨rfl, rfl, _⟩ := hp
      obtain ⟨h1, h2, h2z⟩ := hP p (by simp [hp'])
      obtain ⟨h3, h4, h4z⟩ := hP o.2.1 (by simp [hp'])
      refine ⟨h1, h2, h2z, h3, h4, h4z, ?_⟩
      intro a
      rw [hD a, hp']
      simp only [List.flatten_cons, List.flatten_nil, List.append_nil]
      rw [snd_append k tick a p o.2.1 h3 h4]
      unfold durRel at hdp
      rw [hdp]

/-- **sounding through a run**: the bars laid end to end, followed by what is left of the track, sound like the
    track — given that every bar sounds like (at most like) the piece it was built from -/
theorem trackRun_snd (ppqn : Int) (values : List Int) (requant : Bool) (k : Int × Int) (tick : Int)
    (hfwd : ∀ (first piece : List Msg) (g : Sg) (bar : Bar) (a : Int), WF first → NonNegWaits first →
      NoZeroNotes first → requantPiece values ppqn requant first = .ok piece → mkBar ppqn piece g.1 g.2.1 g.2.2 = .ok bar →
      Snd k tick a bar.seq → Snd k tick a first) :
    ∀ (gs : List Sg) (t : List Msg) (tw : List Bool) (t' : List Msg) (nb : List Bar),
    trackRun ppqn values requant gs t = .ok (tw, t', nb) → (∀ g ∈ gs, 0 < sgLen ppqn g) →
    NonNegWaits t → WF t → NoZeroNotes t →
    WF (barsToSeq nb ++ t') ∧ NonNegWaits (barsToSeq nb ++ t') ∧
      ∀ a, (Snd k tick a (barsToSeq nb ++ t') → Snd k tick a t) ∧
        ((∀ (first piece : List Msg) (g : Sg) (bar : Bar) (a : Int), WF first → NonNegWaits first →
            NoZeroNotes first → requantPiece values ppqn requant first = .ok piece → mkBar ppqn piece g.1 g.2.1 g.2.2 = .ok bar →
            Snd k tick a first → Snd k tick a bar.seq) →
          Snd k tick a t → Snd k tick a (barsToSeq nb ++ t')) := by
  intro gs
  induction gs with
  | nil =>
    intro t tw t' nb h _ hw hwf _
    simp only [trackRun, Except.ok.injEq, Prod.mk.injEq] at h
    obtain ⟨_, rfl, rfl⟩ := h
    simp only [barsToSeq, List.map_nil, List.flatten_nil, List.nil_append]
    exact ⟨hwf, hw, fun a => ⟨id, fun _ => id⟩⟩
  | cons g gs ih =>
    intro t tw t' nb h hpos hw hwf hz
    obtain ⟨o, r, h1, h2, h3⟩ := trackRun_cons_inv h
    simp only [Prod.mk.injEq] at h3
    obtain ⟨rfl, rfl, rfl⟩ := h3
    have hc := hpos g List.mem_cons_self
    obtain ⟨first, piece, hrq, hmk, hfw, hfn, hfz, hrw, hrn, hrz, hT⟩ := trackStep_notes h1 hc hw hwf hz k tick
    obtain ⟨hYw, hYn, hY⟩ := ih _ _ _ _ h2 (fun x hx => hpos x (List.mem_cons_of_mem _ hx)) hrn hrw hrz
    obtain ⟨hbw, hbn, hbd⟩ := bar_wf_nn ppqn piece _ _ _ _ hmk
    have hcat : barsToSeq (o.2.2 :: r.2.2) ++ r.2.1 = o.2.2.seq ++ (barsToSeq r.2.2 ++ r.2.1) := by
      simp [barsToSeq]
    rw [hcat]
    refine ⟨wf_append hbw hYw, nonNegWaits_append.2 ⟨hbn, hYn⟩, ?_⟩
    intro a
    rw [snd_append k tick a _ _ hYw hYn, hT a]
    have hbd' : totalWait o.2.2.seq = sgLen ppqn g := hbd
    rw [hbd']
    constructor
    · rintro (hb | hy)
      · exact Or.inl (hfwd first piece g _ a hfw hfn hfz hrq hmk hb)
      · exact Or.inr ((hY _).1 hy)
    · intro hrev
      rintro (hb | hy)
      · exact Or.inl (hrev first piece g _ a hfw hfn hfz hrq hmk hb)
      · exact Or.inr ((hY _).2 hrev hy)

theorem trackStep_rest_nil {ppqn : Int} {values : List Int} {requant : Bool} {g : Sg} {t : List Msg}
    {o : Bool × List Msg × Bar} (h : trackStep ppqn values requant g t = .ok o) (hf : o.1 = false) : o.2.1 = [] := by
  obtain ⟨_, _, _, _, _, _, hcase⟩ := trackStep_spec h
  rcases hcase with ⟨_, _, _, hr⟩ | ⟨_, _, hr⟩ | ⟨_, _, ht⟩
  · exact hr
  · exact hr
  · rw [hf] at ht; cases ht

/-- a track whose last round yields a single piece is used up -/
theorem trackRun_rest_nil (ppqn : Int) (values : List Int) (requant : Bool) : ∀ (gs : List Sg) (t : List Msg)
    (tw : List Bool) (t' : List Msg) (nb : List Bar), trackRun ppqn values requant gs t = .ok (tw, t', nb) →
    ∀ j, tw[j]? = some false → j + 1 = gs.length → t' = [] := by
  intro gs
  induction gs with
  | nil => intro t tw t' nb _ j _ hj; simp at hj
  | cons g gs ih =>
    intro t tw t' nb h j hj hlen
    obtain ⟨o, r, h1, h2, h3⟩ := trackRun_cons_inv h
    simp only [Prod.mk.injEq] at h3
    obtain ⟨rfl, rfl, rfl⟩ := h3
    cases j with
    | zero =>
      simp only [List.getElem?_cons_zero, Option.some.injEq] at hj
      have hgs : gs = [] := by
        cases gs with
        | nil => rfl
        | cons _ _ => simp at hlen
      subst hgs
      simp only [trackRun, Except.ok.injEq] at h2
      rw [← h2]
      exact trackStep_rest_nil h1 hj
    | succ j =>
      simp only [List.getElem?_cons_succ] at hj
      exact ih _ _ _ _ h2 j hj (by simpa using hlen)

theorem requantPiece_false (values : List Int) (ppqn : Int) (first piece : List Msg)
    (h : requantPiece values ppqn false first = .ok piece) : piece = first := by
  simp only [requantPiece, Bool.false_eq_true, if_false, Except.ok.injEq] at h
  exact h.symm

end SCoda.SB
