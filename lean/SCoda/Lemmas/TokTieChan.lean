/-
  Helper lemma for Props/TokTie.lean: `get_interleaved_message_pairings` (Model/Pairing.lean `interleaved`, and therefore
  `extract`) files every pairing under the channel of its first message — the "Channel mismatch" check of `tokenise`
  (notelike_tokenisation.py:158) never fires on the output of the hand model.  Core Lean only.
-/
import SCoda.Model.Extract
namespace SCoda.TokTieL
open SCoda

/-- every pairing filed under a channel starts with a message of that channel -/
def HeadCh (ch : Int) (p : Pairing) : Prop := ∀ m, p.head? = some m → m.ch = ch

def PInv (ps : Assoc Int (List Pairing)) : Prop := ∀ kv ∈ ps, ∀ p ∈ kv.2, HeadCh kv.1 p

theorem mem_set {κ ν} [DecidableEq κ] (d : Assoc κ ν) (k : κ) (v : ν) (kv : κ × ν) (h : kv ∈ Assoc.set d k v) :
    kv = (k, v) ∨ kv ∈ d := by
  induction d with
  | nil => simp [Assoc.set] at h; exact Or.inl h
  | cons e rest ih =>
    obtain ⟨k', w⟩ := e
    simp only [Assoc.set] at h
    split at h
    · rename_i hk
      simp only [List.mem_cons] at h
      rcases h with h | h
      · subst hk; exact Or.inl h
      · exact Or.inr (by simp [h])
    · simp only [List.mem_cons] at h
      rcases h with h | h
      · exact Or.inr (by simp [h])
      · rcases ih h with h | h
        · exact Or.inl h
        · exact Or.inr (by simp [h])

theorem get?_mem {κ ν} [DecidableEq κ] (d : Assoc κ ν) (k : κ) (v : ν) (h : Assoc.get? d k = some v) : (k, v) ∈ d := by
  induction d with
  | nil => simp [Assoc.get?] at h
  | cons e rest ih =>
    obtain ⟨k', w⟩ := e
    simp only [Assoc.get?] at h
    split at h
    · rename_i hk; cases h; subst hk; simp
    · simp [ih h]

theorem getD_inv (ps : Assoc Int (List Pairing)) (h : PInv ps) (ch : Int) : ∀ p ∈ (Assoc.get? ps ch).getD [], HeadCh ch p := by
  cases hg : Assoc.get? ps ch with
  | none => intro p hp; simp at hp
  | some l => intro p hp; exact h (ch, l) (get?_mem ps ch l hg) p hp

theorem pinv_set (ps : Assoc Int (List Pairing)) (h : PInv ps) (ch : Int) (l : List Pairing) (hl : ∀ p ∈ l, HeadCh ch p) :
    PInv (Assoc.set ps ch l) := by
  intro kv hkv
  rcases mem_set ps ch l kv hkv with rfl | hm
  · exact hl
  · exact h kv hm

theorem mem_modifyAt {α} (f : α → α) (x : α) : ∀ (i : Nat) (l : List α), x ∈ modifyAt f i l → x ∈ l ∨ ∃ y ∈ l, x = f y
  | _, [], h => by simp [modifyAt] at h
  | 0, a :: as, h => by
    simp only [modifyAt, List.mem_cons] at h
    rcases h with h | h
    · exact Or.inr ⟨a, by simp, h⟩
    · exact Or.inl (by simp [h])
  | i + 1, a :: as, h => by
    simp only [modifyAt, List.mem_cons] at h
    rcases h with h | h
    · exact Or.inl (by simp [h])
    · rcases mem_modifyAt f x i as h with h | ⟨y, hy, rfl⟩
      · exact Or.inl (by simp [h])
      · exact Or.inr ⟨y, by simp [hy], rfl⟩

theorem headCh_append (ch : Int) (p : Pairing) (x : Msg) (hp : HeadCh ch p) (hx : x.ch = ch) : HeadCh ch (p ++ [x]) := by
  intro m hm
  cases p with
  | nil => simp at hm; subst hm; exact hx
  | cons a as => exact hp m (by simpa using hm)

theorem pinv_append (s : PairSt) (h : PInv s.pairs) (ch : Int) (p : Pairing) (hp : HeadCh ch p) : PInv (s.append ch p).pairs := by
  unfold PairSt.append
  apply pinv_set _ h
  intro q hq
  simp only [List.mem_append, List.mem_singleton] at hq
  rcases hq with hq | rfl
  · exact getD_inv _ h ch q hq
  · exact hp

theorem pinv_appendAt (s : PairSt) (h : PInv s.pairs) (ch : Int) (i : Nat) (x : Msg) (hx : x.ch = ch) :
    PInv (s.appendAt ch i x).pairs := by
  unfold PairSt.appendAt
  apply pinv_set _ h
  intro q hq
  rcases mem_modifyAt _ q i _ hq with hq | ⟨y, hy, rfl⟩
  · exact getD_inv _ h ch q hq
  · exact headCh_append ch y x (getD_inv _ h ch y hy) hx

theorem pinv_pairStep (types : List MType) (impute : Bool) (s : PairSt) (m : Msg) (h : PInv s.pairs) :
    PInv (pairStep types impute s m).pairs := by
  unfold pairStep
  split
  · exact h
  · have h1 : PInv (if s.pairs.contains m.ch then s else { s with pairs := s.pairs.set m.ch [] }).pairs := by
      split
      · exact h
      · exact pinv_set _ h _ _ (by simp)
    generalize (if s.pairs.contains m.ch then s else { s with pairs := s.pairs.set m.ch [] }) = s1 at h1
    have hm : HeadCh m.ch [m] := by intro x hx; simp at hx; subst hx; rfl
    cases hty : m.ty <;> simp only []
    case noteOn =>
      have h2 : PInv (match s1.opens.get? m.nkey with
          | some i => if impute then { (s1.appendAt m.ch i (Msg.mkOff m.ch m.note m.time)) with opens := s1.opens.erase m.nkey } else s1
          | none => s1).pairs := by
        split
        · split
          · exact pinv_appendAt s1 h1 m.ch _ _ rfl
          · exact h1
        · exact h1
      exact pinv_append _ h2 m.ch [m] hm
    case noteOff =>
      split
      · exact h1
      · exact pinv_appendAt s1 h1 m.ch _ m rfl
    all_goals exact pinv_append _ h1 m.ch [m] hm

theorem pinv_fold (types : List MType) (impute : Bool) : ∀ (a : List Msg) (s : PairSt), PInv s.pairs →
    PInv (a.foldl (pairStep types impute) s).pairs
  | [], s, h => h
  | m :: ms, s, h => pinv_fold types impute ms _ (pinv_pairStep types impute s m h)

theorem headCh_close (ch stdLen : Int) (impute : Bool) (p : Pairing) (h : HeadCh ch p) : HeadCh ch (closeUnclosed stdLen impute p) := by
  unfold closeUnclosed
  split
  · rename_i m
    split
    · intro x hx; simp only [List.head?_cons, Option.some.injEq] at hx; exact hx ▸ h m rfl
    · exact h
  · exact h

theorem pinv_pairings (types : List MType) (stdLen : Int) (impute : Bool) (a : List Msg) :
    PInv (pairings types stdLen impute a) := by
  unfold pairings pairingsSorted
  intro kv hkv
  simp only [List.mem_map] at hkv
  obtain ⟨kv0, h0, rfl⟩ := hkv
  intro p hp
  simp only [List.mem_map] at hp
  obtain ⟨q, hq, rfl⟩ := hp
  exact headCh_close _ _ _ _ (pinv_fold types impute _ {} (by intro kv h; simp at h) kv0 h0 q hq)

theorem interleaveGo_ch : ∀ (fuel : Nat) (chans : List (Int × List Pairing)) (acc : List (Int × Pairing)),
    PInv chans → (∀ ev ∈ acc, HeadCh ev.1 ev.2) → ∀ ev ∈ interleaveGo fuel chans acc, HeadCh ev.1 ev.2
  | 0, chans, acc, _, hacc => by
    intro ev hev; simp only [interleaveGo, List.mem_reverse] at hev; exact hacc ev hev
  | fuel + 1, chans, acc, hch, hacc => by
    intro ev hev
    simp only [interleaveGo] at hev
    split at hev
    · simp only [List.mem_reverse] at hev; exact hacc ev hev
    · rename_i i _ hmin
      split at hev
      · rename_i ch p rest hget
        have hmem : (ch, p :: rest) ∈ chans := List.mem_of_getElem? hget
        refine interleaveGo_ch fuel _ _ ?_ ?_ ev hev
        · intro kv hkv q hq
          rcases mem_modifyAt _ kv i chans hkv with h | ⟨y, hy, rfl⟩
          · exact hch kv h q hq
          · exact hch y hy q (List.mem_of_mem_drop hq)
        · intro e he
          simp only [List.mem_cons] at he
          rcases he with rfl | he
          · exact hch _ hmem p (by simp)
          · exact hacc e he
      · simp only [List.mem_reverse] at hev; exact hacc ev hev

/-- the channel under which `get_interleaved_message_pairings` files a pairing is the channel of its first message -/
theorem interleaved_ch (types : List MType) (stdLen : Int) (impute : Bool) (a : List Msg) :
    ∀ ev ∈ interleaved types stdLen impute a, ∀ m, ev.2.head? = some m → ev.1 = m.ch := by
  intro ev hev m hm
  unfold interleaved at hev
  exact (interleaveGo_ch _ _ [] (pinv_pairings types stdLen impute a) (by intro e he; simp at he) ev hev m hm).symm

theorem extract_ch (ppqn : Int) (tracks : List (List Msg)) :
    ∀ ev ∈ extract ppqn tracks, ∀ m, ev.2.head? = some m → ev.1 = m.ch :=
  interleaved_ch _ _ _ _
end SCoda.TokTieL
