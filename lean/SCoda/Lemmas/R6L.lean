/-
  Helper lemmas for Props/StaticTie2.lean (audit round 3, item R6): what `Sequence.sequences_split_bars` needs of the
  wrapper state of the meta sequence is only that the *signature events* of its fresh absolute view are those of `toAbs` of
  its relative view, in the same order — not the literal list equality `AbsCoherent` of Lemmas/StaticTieL.lean.
-/
import SCoda.Lemmas.StaticTieL
namespace SCoda.R6L
open SCoda SCoda.WrapTie SCoda.StaticTieL SCoda.SB SCoda.ElemTie

/-- what `sequences_split_bars` reads of a signature message: its time, numerator, denominator and key -/
def sigView (m : Msg) : Int × Int × Int × Int := (m.time, m.num, m.den, m.key)

/-- the signature events of kind `ty` of an absolute view, in the order of the list -/
def sigsOf (ty : MType) (a : List Msg) : List (Int × Int × Int × Int) := (timesOfType ty a).map sigView

/-- **the hypothesis the function really needs**: where the absolute view of the (meta) sequence is fresh, its time-signature
    events and its key-signature events are — as lists of `(time, numerator, denominator, key)`, in list order — those of
    `toAbs` of the relative view.  Nothing is asked of any other message, of channels, or of the order of a signature
    relative to a non-signature message.  Decidable, about the state only. -/
def AbsCoherentSigs (s : Seq) : Prop :=
  s.absStale = false → ∀ p, s.readRel = .ok p →
    sigsOf .timeSignature s.abs = sigsOf .timeSignature (toAbs p.2) ∧
    sigsOf .keySignature s.abs = sigsOf .keySignature (toAbs p.2)

instance (s : Seq) : Decidable (AbsCoherentSigs s) := by
  unfold AbsCoherentSigs
  cases h : s.readRel with
  | error x => exact isTrue (fun _ p hp => by cases hp)
  | ok q =>
    by_cases hs : s.absStale = false
    · by_cases hc : sigsOf .timeSignature s.abs = sigsOf .timeSignature (toAbs q.2) ∧
          sigsOf .keySignature s.abs = sigsOf .keySignature (toAbs q.2)
      · exact isTrue (fun _ p hp => by injection hp with hp; subst hp; exact hc)
      · exact isFalse (fun hh => hc (hh hs q rfl))
    · exact isTrue (fun h' => absurd h' hs)

/-- the old hypothesis implies the new one -/
theorem AbsCoherentSigs_of_AbsCoherent (s : Seq) (h : AbsCoherent s) : AbsCoherentSigs s := by
  intro hs p hp
  rw [h hs p hp]
  exact ⟨rfl, rfl⟩

/-- a sequence whose absolute view is stale (built from a relative view, or last changed through it) needs nothing -/
theorem AbsCoherentSigs_of_absStale (s : Seq) (h : s.absStale = true) : AbsCoherentSigs s := by
  intro hs; rw [h] at hs; cases hs

theorem QRel_of_sigs (ty : MType) (a b : List Msg) (h : sigsOf ty a = sigsOf ty b) :
    QRel (qOf (timesOfType ty a)) (timesOfType ty b) := by
  have h1 := QRel_qOf (timesOfType ty a)
  unfold QRel at h1 ⊢
  rw [h1]
  exact h

theorem TimeAsc_of_sigs (ty : MType) (a b : List Msg) (h : sigsOf ty a = sigsOf ty b) (hb : TimeAsc (timesOfType ty b)) :
    TimeAsc (timesOfType ty a) := by
  have h1 : (timesOfType ty a).map (·.time) = (timesOfType ty b).map (·.time) := by
    have := congrArg (List.map (·.1)) h
    simpa [sigsOf, sigView, List.map_map, Function.comp_def] using this
  unfold TimeAsc at hb ⊢
  have hb' : ((timesOfType ty b).map (·.time)).Pairwise (· ≤ ·) := by rw [List.pairwise_map]; exact hb
  rw [← h1, List.pairwise_map] at hb'
  exact hb'

theorem length_of_sigs (ty : MType) (a b : List Msg) (h : sigsOf ty a = sigsOf ty b) :
    (timesOfType ty a).length = (timesOfType ty b).length := by
  have := congrArg List.length h
  simpa [sigsOf] using this

/-- the copy of the meta track under the weak hypothesis: reading its absolute view gives some list `a` whose signature
    events are those of `toAbs` of the relative view; the relative view stays readable with the same content, and a second
    read returns the same `a` -/
theorem copy_readAbs_sigs (s : Seq) (h : Readable s) (hc : AbsCoherentSigs s) (p : Seq × List Msg) (hp : s.readRel = .ok p) :
    ∃ c' a, s.copy.readAbs = .ok (c', a) ∧ c'.readAbs = .ok (c', a) ∧ (·.2) <$> c'.readRel = .ok p.2 ∧
      sigsOf .timeSignature a = sigsOf .timeSignature (toAbs p.2) ∧ sigsOf .keySignature a = sigsOf .keySignature (toAbs p.2) := by
  obtain ⟨a, r, sa, sr⟩ := s
  cases sa <;> cases sr <;> simp [Readable] at h
  · have := hc rfl _ hp
    simp [Seq.readRel] at hp
    subst hp
    exact ⟨_, a, rfl, rfl, rfl, this⟩
  · have := hc rfl _ hp
    simp [Seq.readRel] at hp
    subst hp
    exact ⟨Seq.ofAbs a, a, rfl, rfl, rfl, this⟩
  · simp [Seq.readRel] at hp
    subst hp
    exact ⟨_, _, rfl, rfl, rfl, rfl, rfl⟩

end SCoda.R6L
