/-
  Facts about the link `TokLib.linkVelocityBinsFn` (Model/TokLib3.lean; audit round 4, item C2): the translated
  `get_velocity_bins` read as ints.

  * `linkVelocityBinsFn_eq`    : for every `n ≠ 0` it SUCCEEDS and returns `velocityBinsInt n` — the hand transcription
                                 `getVelocityBinsPy Gen.velocityMax n` (Model/PyNumSites.lean, the object of the C11 theorems) read as
                                 ints; `n.toNat` bins (none for `n < 0`);
  * `linkVelocityBinsFn_zero`  : `n = 0` raises ZeroDivisionError (as the source, util.py:31);
  * `linkVelocityBinsFn_table` : on 1..64 it is the former table link `linkVelocityBins` (so every earlier statement about the table
                                 link carries over).
-/
import SCoda.Model.TokLib3
import SCoda.Props.UtilTie
namespace SCoda.TokLib3L
open SCoda SCoda.TokLib SCoda.PyNum

/-- the value of `int(x)` as an `Int` -/
def pyintVal : PyNum → Int
  | .int i => i
  | .float q => if 0 ≤ q then q.floor else -((-q).floor)

theorem pyint_eq (x : PyNum) : PyNum.pyint x = .int (pyintVal x) := by cases x <;> rfl

/-- `get_velocity_bins(velocity_max, n)` as ints: `int(min(vmax, (i + 1) * bin_size + bin_size / 2))`, `i = 0 … n-1`,
    `bin_size = round(vmax / n)` — the expression of `getVelocityBinsPy` under `pyintVal` instead of `pyint` -/
def velocityBinsIntOf (vmax : Int) (n : Nat) : List Int :=
  let binSize := pyround (truediv (.int vmax) (.int (n : Int)))
  (List.range n).map fun (i : Nat) =>
    pyintVal (pymin (.int vmax) (add (mul (add (.int (i : Int)) (.int 1)) binSize) (truediv binSize (.int 2))))

/-- `get_velocity_bins(velocity_bins=n)` as ints -/
def velocityBinsInt (n : Int) : List Int := velocityBinsIntOf Gen.velocityMax n.toNat

theorem getVelocityBinsPy_int (vmax : Int) (n : Nat) : getVelocityBinsPy vmax n = (velocityBinsIntOf vmax n).map PyNum.int := by
  unfold getVelocityBinsPy velocityBinsIntOf
  simp only [List.map_map]
  apply List.map_congr_left
  intro i _
  exact pyint_eq _

theorem mapM_pyNumInt (l : List Int) : (l.map PyNum.int).mapM pyNumInt? = some l := by
  induction l with
  | nil => rfl
  | cons a l ih => simp [List.mapM_cons, pyNumInt?, ih]

theorem velocityBinsInt_length (n : Int) : (velocityBinsInt n).length = n.toNat := by
  simp [velocityBinsInt, velocityBinsIntOf]

/-- **every `n ≠ 0`**: the link succeeds with the bins of the hand transcription -/
theorem linkVelocityBinsFn_eq (n : Int) (hn : n ≠ 0) : linkVelocityBinsFn n = .ok (velocityBinsInt n) := by
  have h : Gen.Util.getVelocityBins none (some (.int n)) = .ok (getVelocityBinsPy Gen.velocityMax n.toNat) :=
    UtilTie.getVelocityBins_int Gen.velocityMax n hn
  unfold linkVelocityBinsFn
  rw [h]
  simp only [getVelocityBinsPy_int, mapM_pyNumInt]
  rfl

/-- `velocity_bins = 0`: ZeroDivisionError, as in the source (replayed on /repo: `Tokeniser(velocity_bins=0)` →
    `ZeroDivisionError: division by zero`) -/
theorem linkVelocityBinsFn_zero : linkVelocityBinsFn 0 = .error .zeroDivisionError := rfl

/-- a negative count gives no bins (`range(0, n)` is empty; replayed on /repo: `get_velocity_bins(velocity_bins=-3) == []`) -/
theorem linkVelocityBinsFn_neg (n : Int) (hn : n < 0) : linkVelocityBinsFn n = .ok [] := by
  rw [linkVelocityBinsFn_eq n (by omega)]
  have : n.toNat = 0 := by omega
  simp [velocityBinsInt, velocityBinsIntOf, this]

def exceptBEq : Except PyErr (List Int) → Except PyErr (List Int) → Bool
  | .ok a, .ok b => a == b
  | .error e, .error f => e == f
  | _, _ => false

theorem eq_of_exceptBEq {a b : Except PyErr (List Int)} (h : exceptBEq a b = true) : a = b := by
  cases a <;> cases b <;> simp [exceptBEq] at h <;> simp [h]

theorem table_check : (List.range 64).all (fun i => exceptBEq (linkVelocityBinsFn ((i : Int) + 1)) (linkVelocityBins ((i : Int) + 1))) = true := by
  decide +kernel

/-- **on 1..64 the new link is the former table link** -/
theorem linkVelocityBinsFn_table (n : Int) (h1 : 1 ≤ n) (h64 : n ≤ 64) : linkVelocityBinsFn n = linkVelocityBins n := by
  have h := List.all_eq_true.1 table_check (n.toNat - 1) (List.mem_range.2 (by omega))
  have e : ((n.toNat - 1 : Nat) : Int) + 1 = n := by omega
  rw [e] at h
  exact eq_of_exceptBEq h

/-- outside 1..64 the table link was undefined; the new one is not: the counts the audit names (`c_Scratch_tokinit.lean`) -/
example : linkVelocityBins 65 = .error .outOfSubset ∧ linkVelocityBins 100 = .error .outOfSubset ∧ linkVelocityBins (-1) = .error .outOfSubset
    ∧ (linkVelocityBinsFn 65).map List.length = .ok 65 ∧ (linkVelocityBinsFn 100).map List.length = .ok 100
    ∧ (linkVelocityBinsFn 128).map List.length = .ok 128 ∧ linkVelocityBinsFn (-1) = .ok [] := by decide +kernel

end SCoda.TokLib3L
