/-
  Helper lemmas for `Props/C04b.lean`: the bisection of `insort`, and membership facts used to show
  that each public operation keeps its view legal.
-/
import SCoda.Lemmas.Sort
import SCoda.Lemmas.Split
import SCoda.Model.Pairing
namespace SCoda.Ops
open SCoda

theorem getD_toArray (l : List Msg) (i : Nat) (h : i < l.length) :
    (l.toArray.getD i default) = l[i] := by
  simp [Array.getD, h]

theorem sorted_getElem {l : List Msg} (hs : l.Pairwise (fun a b => a.time ≤ b.time))
    (i j : Nat) (hi : i < l.length) (hj : j < l.length) (hij : i ≤ j) : l[i].time ≤ l[j].time := by
  by_cases e : i = j
  · subst e; omega
  · exact (List.pairwise_iff_getElem.1 hs) i j hi hj (by omega)

/-- bisection invariant -/
theorem insortGo_inv (t : Int) (l : List Msg) (hs : l.Pairwise (fun a b => a.time ≤ b.time)) :
    ∀ fuel lo hi, lo ≤ hi → hi ≤ l.length → hi - lo < fuel →
      (∀ i (h : i < l.length), i < lo → l[i].time ≤ t) →
      (∀ i (h : i < l.length), hi ≤ i → t < l[i].time) →
      insortGo t l.toArray fuel lo hi ≤ l.length ∧
        (∀ i (h : i < l.length), i < insortGo t l.toArray fuel lo hi → l[i].time ≤ t) ∧
        (∀ i (h : i < l.length), insortGo t l.toArray fuel lo hi ≤ i → t < l[i].time) := by
  intro fuel
  induction fuel with
  | zero => intro lo hi _ _ h3; omega
  | succ fuel ih =>
    intro lo hi h1 h2 h3 hL hR
    unfold insortGo
    by_cases hlt : lo < hi
    · have hmid : (lo + hi) / 2 < l.length := by omega
      simp only [hlt, if_true, getD_toArray l _ hmid]
      by_cases hc : t < l[(lo + hi) / 2].time
      · simp only [hc, if_true]
        refine ih lo _ (by omega) (by omega) (by omega) hL ?_
        intro i h hi'
        have := sorted_getElem hs _ i hmid h hi'
        omega
      · simp only [hc, if_false]
        refine ih _ hi (by omega) (by omega) (by omega) ?_ hR
        intro i h hi'
        have := sorted_getElem hs i _ h hmid (by omega)
        omega
    · simp only [hlt, if_false]
      exact ⟨by omega, hL, fun i h hi' => hR i h (by omega)⟩

theorem insortGo_pos (t : Int) (l : List Msg) (hs : l.Pairwise (fun a b => a.time ≤ b.time)) :
    insortGo t l.toArray (l.length + 1) 0 l.length ≤ l.length ∧
      (∀ m ∈ l.take (insortGo t l.toArray (l.length + 1) 0 l.length), m.time ≤ t) ∧
      (∀ m ∈ l.drop (insortGo t l.toArray (l.length + 1) 0 l.length), t < m.time) := by
  obtain ⟨h1, h2, h3⟩ := insortGo_inv t l hs (l.length + 1) 0 l.length (by omega) (by omega) (by omega)
    (fun i h hi => by omega) (fun i h hi => by omega)
  refine ⟨h1, ?_, ?_⟩
  · intro m hm
    obtain ⟨i, hi, rfl⟩ := List.getElem_of_mem hm
    simp only [List.length_take] at hi
    rw [List.getElem_take]
    exact h2 i (by omega) (by omega)
  · intro m hm
    obtain ⟨i, hi, rfl⟩ := List.getElem_of_mem hm
    simp only [List.length_drop] at hi
    rw [List.getElem_drop]
    exact h3 _ (by omega) (by omega)

/-- `takeWhile`/`dropWhile` at a position where the predicate switches -/
theorem takeWhile_eq_take {α} (p : α → Bool) (l : List α) (n : Nat)
    (h1 : ∀ x ∈ l.take n, p x = true) (h2 : ∀ x ∈ l.drop n, p x = false) :
    l.takeWhile p = l.take n ∧ l.dropWhile p = l.drop n := by
  induction l generalizing n with
  | nil => simp
  | cons a l ih =>
    cases n with
    | zero =>
      have := h2 a (by simp)
      simp [List.takeWhile, List.dropWhile, this]
    | succ n =>
      have := h1 a (by simp)
      have ih' := ih n (fun x hx => h1 x (by simp [hx])) (fun x hx => h2 x (by simpa using hx))
      simp [List.takeWhile, List.dropWhile, this, ih'.1, ih'.2]

/-! ### `insort` on a sorted list -/

theorem insort_pairwise (l : List Msg) (m : Msg) (hs : l.Pairwise (fun a b => a.time ≤ b.time)) :
    (insort l m).Pairwise (fun a b => a.time ≤ b.time) := by
  obtain ⟨_, h2, h3⟩ := insortGo_pos m.time l hs
  simp only [insort]
  rw [List.pairwise_append]
  refine ⟨hs.sublist (List.take_sublist _ _), ?_, ?_⟩
  · rw [List.pairwise_cons]
    exact ⟨fun x hx => Int.le_of_lt (h3 x hx), hs.sublist (List.drop_sublist _ _)⟩
  · intro a ha b hb
    have h1 := h2 a ha
    rcases List.mem_cons.1 hb with rfl | hb
    · exact h1
    · have := h3 b hb
      omega

theorem okAbs_iff (l : List Msg) :
    OkAbs l ↔ l.Pairwise (fun a b => a.time ≤ b.time) ∧ (∀ m ∈ l, 0 ≤ m.time) ∧ ∀ m ∈ l, m.ty ≠ .wait := by
  unfold OkAbs NonNegTimes
  rw [timeSorted_iff_pairwise]

/-! ### association lists -/

theorem assoc_get?_mem {κ ν : Type} [DecidableEq κ] {d : Assoc κ ν} {q : κ} {v : ν}
    (h : Assoc.get? d q = some v) : (q, v) ∈ d := by
  induction d with
  | nil => simp [Assoc.get?] at h
  | cons kv rest ih =>
    obtain ⟨k, w⟩ := kv
    simp only [Assoc.get?] at h
    split at h
    · rename_i e; cases h; subst e; simp
    · exact List.mem_cons_of_mem _ (ih h)

theorem assoc_mem_set {κ ν : Type} [DecidableEq κ] {d : Assoc κ ν} {q : κ} {v : ν} {x : κ × ν}
    (h : x ∈ Assoc.set d q v) : x ∈ d ∨ x = (q, v) := by
  induction d with
  | nil => simp [Assoc.set] at h; exact Or.inr h
  | cons kv rest ih =>
    obtain ⟨k, w⟩ := kv
    simp only [Assoc.set] at h
    split at h
    · rename_i e
      rcases List.mem_cons.1 h with h | h
      · right; rw [h, e]
      · left; exact List.mem_cons_of_mem _ h
    · rcases List.mem_cons.1 h with h | h
      · left; rw [h]; simp
      · rcases ih h with h | h
        · left; exact List.mem_cons_of_mem _ h
        · right; exact h

theorem assoc_mem_erase {κ ν : Type} [DecidableEq κ] {d : Assoc κ ν} {q : κ} {x : κ × ν}
    (h : x ∈ Assoc.erase d q) : x ∈ d := by
  induction d with
  | nil => simp [Assoc.erase] at h
  | cons kv rest ih =>
    obtain ⟨k, w⟩ := kv
    simp only [Assoc.erase] at h
    split at h
    · exact List.mem_cons_of_mem _ h
    · rcases List.mem_cons.1 h with h | h
      · rw [h]; simp
      · exact List.mem_cons_of_mem _ (ih h)

/-! ### `cutoff` keeps times non-negative and invents no type -/

theorem cutoffGo_nonneg (mx r : Int) (hr : 0 ≤ r) (l : List Msg) (opens : Assoc (Int × Int) Int)
    (hl : ∀ x ∈ l, 0 ≤ x.time) (ho : ∀ kv ∈ opens, 0 ≤ kv.2) :
    ∀ x ∈ cutoffGo mx r l opens, 0 ≤ x.time := by
  induction l generalizing opens with
  | nil => simp [cutoffGo]
  | cons m ms ih =>
    have hm := hl m (by simp)
    have hms : ∀ x ∈ ms, 0 ≤ x.time := fun x hx => hl x (by simp [hx])
    rw [cutoffGo]
    split
    · intro x hx
      rcases List.mem_cons.1 hx with rfl | hx
      · exact hm
      · refine ih _ hms ?_ x hx
        intro kv hkv
        rcases assoc_mem_set hkv with h | h
        · exact ho kv h
        · rw [h]; exact hm
    · split
      · rename_i t hg
        have ht := ho _ (assoc_get?_mem hg)
        intro x hx
        rcases List.mem_cons.1 hx with rfl | hx
        · split
          · simp only; omega
          · exact hm
        · exact ih _ hms (fun kv hkv => ho kv (assoc_mem_erase hkv)) x hx
      · intro x hx
        rcases List.mem_cons.1 hx with rfl | hx
        · exact hm
        · exact ih _ hms ho x hx
    · intro x hx
      rcases List.mem_cons.1 hx with rfl | hx
      · exact hm
      · exact ih _ hms ho x hx

theorem cutoffGo_ty (mx r : Int) (l : List Msg) (opens : Assoc (Int × Int) Int) :
    ∀ x ∈ cutoffGo mx r l opens, ∃ y ∈ l, x.ty = y.ty := by
  induction l generalizing opens with
  | nil => simp [cutoffGo]
  | cons m ms ih =>
    have step : ∀ opens' x, x ∈ cutoffGo mx r ms opens' → ∃ y ∈ m :: ms, x.ty = y.ty := by
      intro opens' x hx
      obtain ⟨y, hy, e⟩ := ih opens' x hx
      exact ⟨y, List.mem_cons_of_mem _ hy, e⟩
    rw [cutoffGo]
    split
    · intro x hx
      rcases List.mem_cons.1 hx with rfl | hx
      · exact ⟨x, by simp, rfl⟩
      · exact step _ x hx
    · split
      · intro x hx
        rcases List.mem_cons.1 hx with rfl | hx
        · refine ⟨m, by simp, ?_⟩
          split <;> rfl
        · exact step _ x hx
      · intro x hx
        rcases List.mem_cons.1 hx with rfl | hx
        · exact ⟨x, by simp, rfl⟩
        · exact step _ x hx
    · intro x hx
      rcases List.mem_cons.1 hx with rfl | hx
      · exact ⟨x, by simp, rfl⟩
      · exact step _ x hx

/-! ### `split` only produces legal relative messages -/

/-- a message that may occur in a legal relative view -/
def Good (m : Msg) : Prop := m.ty ≠ .internal ∧ (m.ty = .wait → 0 ≤ m.time)

def AllGood (l : List Msg) : Prop := ∀ m ∈ l, Good m

theorem okRel_iff (l : List Msg) : OkRel l ↔ AllGood l := by
  unfold OkRel NonNegWaits AllGood Good
  exact ⟨fun h m hm => ⟨h.2 m hm, h.1 m hm⟩, fun h => ⟨fun m hm => (h m hm).2, fun m hm => (h m hm).1⟩⟩

theorem allGood_nil : AllGood [] := fun _ h => by cases h

theorem allGood_cons {m : Msg} {l : List Msg} : AllGood (m :: l) ↔ Good m ∧ AllGood l := by
  simp [AllGood]

theorem allGood_append {a b : List Msg} : AllGood (a ++ b) ↔ AllGood a ∧ AllGood b := by
  simp only [AllGood, List.mem_append]
  exact ⟨fun h => ⟨fun m hm => h m (Or.inl hm), fun m hm => h m (Or.inr hm)⟩,
    fun h m hm => hm.elim (h.1 m) (h.2 m)⟩

theorem allGood_reverse {a : List Msg} : AllGood a.reverse ↔ AllGood a := by
  simp [AllGood]

theorem allGood_offs (opens : Assoc (Int × Int) Msg) : AllGood (opens.map SplitL.offOf) := by
  intro m hm
  obtain ⟨kv, _, rfl⟩ := List.mem_map.1 hm
  simp [Good, SplitL.offOf]

theorem allGood_ons (opens : Assoc (Int × Int) Msg) : AllGood (opens.map SplitL.onOf) := by
  intro m hm
  obtain ⟨kv, _, rfl⟩ := List.mem_map.1 hm
  simp [Good, SplitL.onOf]

theorem good_mkWait (c t : Int) (h : 0 ≤ t) : Good (Msg.mkWait c t) := by
  simp [Good, Msg.mkWait, h]

def SplitGood (s : SplitSt) : Prop :=
  AllGood s.wm ∧ AllGood s.cur ∧ AllGood s.queue ∧ ∀ p ∈ s.pieces, AllGood p

theorem splitInner_good (fuel : Nat) (rem : Int) (s s' : SplitSt) (hg : SplitGood s)
    (h : splitInner fuel rem s = .ok s') : SplitGood s' := by
  refine SplitL.splitInner_inv (fun _ s0 => SplitGood s0) SplitGood ?_ ?_ ?_ ?_ ?_ ?_ fuel rem s s' hg h
  · intro rem cur queue opens pieces hP
    obtain ⟨h1, h2, h3, h4⟩ := hP
    refine ⟨allGood_nil, allGood_nil, allGood_nil, ?_⟩
    split
    · exact h4
    · intro p hp
      rcases List.mem_cons.1 hp with rfl | hp
      · exact allGood_reverse.2 h2
      · exact h4 p hp
  · intro rem m wm cur queue opens pieces hP _ _ _
    obtain ⟨h1, h2, h3, h4⟩ := hP
    rw [allGood_cons] at h1
    exact ⟨h1.2, allGood_cons.2 ⟨h1.1, h2⟩, h3, h4⟩
  · intro rem m wm cur queue opens pieces hP _ _ _
    obtain ⟨h1, h2, h3, h4⟩ := hP
    rw [allGood_cons] at h1
    exact ⟨h1.2, h2, allGood_cons.2 ⟨h1.1, h3⟩, h4⟩
  · intro rem m wm cur queue opens pieces hP _
    obtain ⟨h1, h2, h3, h4⟩ := hP
    rw [allGood_cons] at h1
    exact ⟨h1.2, allGood_cons.2 ⟨h1.1, h2⟩, h3, h4⟩
  · intro rem m wm cur queue opens pieces hP _ _
    obtain ⟨h1, h2, h3, h4⟩ := hP
    rw [allGood_cons] at h1
    exact ⟨h1.2, allGood_cons.2 ⟨h1.1, h2⟩, h3, h4⟩
  · intro rem m wm cur queue opens pieces hP hty hlt
    obtain ⟨h1, h2, h3, h4⟩ := hP
    rw [allGood_cons] at h1
    have hm0 : 0 ≤ m.time := h1.1.2 hty
    refine ⟨?_, allGood_nil, allGood_nil, ?_⟩
    · unfold SplitL.carried
      refine allGood_append.2 ⟨allGood_reverse.2 h3, allGood_append.2 ⟨allGood_ons _, ?_⟩⟩
      exact allGood_cons.2 ⟨good_mkWait _ _ (by omega), h1.2⟩
    · have hc : AllGood (SplitL.closedPiece rem m cur opens) := by
        unfold SplitL.closedPiece
        refine allGood_append.2 ⟨allGood_reverse.2 h2, allGood_append.2 ⟨?_, allGood_offs _⟩⟩
        split
        · exact allGood_cons.2 ⟨good_mkWait _ _ (by omega), allGood_nil⟩
        · exact allGood_nil
      split
      · exact h4
      · intro p hp
        rcases List.mem_cons.1 hp with rfl | hp
        · exact hc
        · exact h4 p hp

theorem splitOuter_good : ∀ caps (s s' : SplitSt), SplitGood s → splitOuter caps s = .ok s' → SplitGood s' := by
  intro caps
  induction caps with
  | nil =>
    intro s s' hg h
    simp only [splitOuter, Except.ok.injEq] at h
    subst h; exact hg
  | cons c cs ih =>
    intro s s' hg h
    simp only [splitOuter, bind, Except.bind] at h
    split at h
    · simp at h
    · rename_i s1 h1
      refine ih s1 s' (splitInner_good _ _ _ _ ?_ h1) h
      exact ⟨hg.1, hg.2.1, allGood_nil, hg.2.2.2⟩

theorem split_good (r : List Msg) (caps : List Int) (pieces : List (List Msg)) (hr : AllGood r)
    (h : split r caps = .ok pieces) : ∀ p ∈ pieces, AllGood p := by
  obtain ⟨s, hs, rfl⟩ := SplitL.split_eq r caps pieces h
  obtain ⟨h1, h2, _, h4⟩ := splitOuter_good caps _ s ⟨hr, allGood_nil, allGood_nil, fun _ hp => by cases hp⟩ hs
  intro p hp
  rw [List.mem_reverse] at hp
  split at hp
  · exact h4 p hp
  · rcases List.mem_cons.1 hp with rfl | hp
    · exact allGood_append.2 ⟨allGood_reverse.2 h2, h1⟩
    · exact h4 p hp

end SCoda.Ops
