/-
  Helper lemmas for Props/ViewTie.lean (generated view functions = hand models).
  * `forIn_spec`: a `for` loop over a list in `Except ε` computes `spec` if `spec` satisfies the loop's
    one-step unfolding (the loop body is found by unification, it never has to be written down);
  * list facts for the prelude of Gen/ViewFns.lean (`pyInsert`, `pyGet`);
  * fuel independence of the `while` loops of `transpose`.
-/
import SCoda.Gen.ViewFns
import SCoda.Model.Normalise
import SCoda.Model.Wrapper
import SCoda.Model.Midi
namespace SCoda.ViewTieL
open SCoda SCoda.Gen.View

instance {ε α : Type} [DecidableEq ε] [DecidableEq α] : DecidableEq (Except ε α)
  | .ok a, .ok b => if h : a = b then isTrue (h ▸ rfl) else isFalse (fun h' => h (by cases h'; rfl))
  | .error a, .error b => if h : a = b then isTrue (h ▸ rfl) else isFalse (fun h' => h (by cases h'; rfl))
  | .ok _, .error _ => isFalse (by intro h; cases h)
  | .error _, .ok _ => isFalse (by intro h; cases h)

/-- Loop rule: `forIn l b f = spec l b` provided `spec [] b = pure b` and `spec (a :: as) b` is one run of the
    body followed by `spec as` (on `yield`) or by stopping (on `done`, i.e. `break` / `return`).
    `P` is an invariant of the *elements* (input-level side condition such as "channel is not None"). -/
theorem forIn_spec {α β ε : Type} (P : α → Prop) (f : α → β → Except ε (ForInStep β))
    (spec : List α → β → Except ε β)
    (hnil : ∀ b, spec [] b = pure b)
    (hstep : ∀ a as b, P a →
      (f a b >>= fun s => match s with | .yield b' => spec as b' | .done b' => pure b') = spec (a :: as) b) :
    ∀ (l : List α) (b : β), (∀ a ∈ l, P a) → forIn l b f = spec l b := by
  intro l
  induction l with
  | nil => intro b _; simp [hnil]
  | cons a as ih =>
    intro b hP
    rw [List.forIn_cons, ← hstep a as b (hP a (by simp))]
    congr 1
    funext s
    cases s with
    | done b' => rfl
    | yield b' => exact ih b' (fun x hx => hP x (by simp [hx]))

/-- `forIn_spec` without an element invariant -/
theorem forIn_spec' {α β ε : Type} (f : α → β → Except ε (ForInStep β))
    (spec : List α → β → Except ε β)
    (hnil : ∀ b, spec [] b = pure b)
    (hstep : ∀ a as b,
      (f a b >>= fun s => match s with | .yield b' => spec as b' | .done b' => pure b') = spec (a :: as) b)
    (l : List α) (b : β) : forIn l b f = spec l b :=
  forIn_spec (fun _ => True) f spec hnil (fun a as b _ => hstep a as b) l b (fun _ _ => trivial)

theorem ok_bind {α β ε : Type} (x : α) (f : α → Except ε β) : (Except.ok x >>= f) = f x := rfl
theorem error_bind {α β ε : Type} (e : ε) (f : α → Except ε β) : (Except.error e >>= f) = Except.error e := rfl
theorem map_ok {α β ε : Type} (f : α → β) (x : α) : f <$> (Except.ok x : Except ε α) = Except.ok (f x) := rfl
theorem pure_eq_ok {α ε : Type} (x : α) : (pure x : Except ε α) = Except.ok x := rfl

/-- loop rule with an invariant `I` of the loop state (no iteration raises while `I` holds) -/
theorem forIn_spec_inv {α β ε : Type} (I : β → Prop) (f : α → β → Except ε (ForInStep β))
    (spec : List α → β → β)
    (hnil : ∀ b, I b → spec [] b = b)
    (hstep : ∀ a as b, I b → ∃ s, f a b = .ok s ∧
      (match s with | .yield b' => I b' ∧ spec (a :: as) b = spec as b' | .done b' => spec (a :: as) b = b')) :
    ∀ (l : List α) (b : β), I b → forIn l b f = .ok (spec l b) := by
  intro l
  induction l with
  | nil => intro b hI; simp [hnil b hI]; rfl
  | cons a as ih =>
    intro b hI
    obtain ⟨s, hs, h⟩ := hstep a as b hI
    rw [List.forIn_cons, hs]
    cases s with
    | done b' => simp only at h; rw [h]; rfl
    | yield b' => simp only at h; rw [h.2]; exact ih b' h.1

/-! ### the prelude's list operations -/

theorem pyGet_neg_one {α : Type} (l : List α) :
    pyGet l (-1) = match l.getLast? with | some x => .ok x | none => .error .indexError := by
  unfold pyGet
  cases h : l.getLast? with
  | none =>
    have : l = [] := by simpa using h
    subst this; simp; rfl
  | some x =>
    have hne : l ≠ [] := by intro h0; subst h0; simp at h
    have hlen : 0 < l.length := List.length_pos_iff.mpr hne
    have h1 : ((-1 : Int) + (l.length : Int)).toNat = l.length - 1 := by omega
    have h2 : ¬ ((-1 : Int) + (l.length : Int) < 0) := by omega
    simp only [show ((-1 : Int) < 0) from by decide, if_true, h2, if_false, h1]
    rw [List.getLast?_eq_getElem?] at h
    rw [h]; rfl

theorem pyGet_zero {α : Type} (l : List α) :
    pyGet l 0 = match l.head? with | some x => .ok x | none => .error .indexError := by
  unfold pyGet
  cases l <;> simp <;> rfl

theorem pyInsert_nonneg {α : Type} (x : α) : ∀ (n : Nat) (l : List α), pyInsert l (n : Int) x = Seq.insertAt x n l := by
  intro n
  induction n with
  | zero => intro l; simp [pyInsert, Seq.insertAt]
  | succ n ih =>
    intro l
    cases l with
    | nil => simp [pyInsert, Seq.insertAt]
    | cons y ys =>
      have := ih ys
      simp only [pyInsert] at this ⊢
      have h0 : ¬ ((n : Int) < 0) := by omega
      have h1 : ¬ (((n + 1 : Nat) : Int) < 0) := by omega
      simp only [h0, h1, if_false, Int.toNat_natCast] at this ⊢
      simp only [Seq.insertAt, List.length_cons, Nat.add_min_add_right, List.take_succ_cons, List.drop_succ_cons,
        List.cons_append, this]

theorem pyGet_nat {α : Type} (l : List α) (i : Nat) (h : i < l.length) : pyGet l (i : Int) = .ok l[i] := by
  unfold pyGet
  have h0 : ¬ ((i : Int) < 0) := by omega
  simp [h0, h]; rfl

theorem take_min_length {α : Type} (l : List α) (k : Nat) : l.take (min k l.length) = l.take k := by
  by_cases h : k ≤ l.length
  · rw [Nat.min_eq_left h]
  · rw [Nat.min_eq_right (by omega), List.take_of_length_le (Nat.le_refl _), List.take_of_length_le (by omega)]

theorem drop_min_length {α : Type} (l : List α) (k : Nat) : l.drop (min k l.length) = l.drop k := by
  by_cases h : k ≤ l.length
  · rw [Nat.min_eq_left h]
  · rw [Nat.min_eq_right (by omega), List.drop_of_length_le (Nat.le_refl _), List.drop_of_length_le (by omega)]

theorem pyInsert_nat {α : Type} (l : List α) (k : Nat) (x : α) : pyInsert l (k : Int) x = l.take k ++ x :: l.drop k := by
  unfold pyInsert
  have h0 : ¬ ((k : Int) < 0) := by omega
  simp only [h0, if_false, Int.toNat_natCast, take_min_length, drop_min_length]

/-! ### `binary_insort`: the generated bisection loop, on `Nat` positions -/

/-- the loop of the generated `binaryInsort` after `f` iterations, from the state `(lo, hi)` -/
def bisect (t : Int) (l : List Msg) : Nat → Nat × Nat → Nat × Nat
  | 0, s => s
  | f + 1, (lo, hi) =>
    if lo < hi then
      let mid := (lo + hi) / 2
      if t < (l.toArray.getD mid default).time then bisect t l f (lo, mid) else bisect t l f (mid + 1, hi)
    else (lo, hi)

theorem bisect_fst (t : Int) (l : List Msg) : ∀ (f lo hi : Nat),
    (bisect t l f (lo, hi)).1 = insortGo t l.toArray f lo hi := by
  intro f
  induction f with
  | zero => intro lo hi; rfl
  | succ f ih =>
    intro lo hi
    unfold bisect insortGo
    by_cases h : lo < hi
    · simp only [h, if_true]
      split <;> exact ih _ _
    · simp [h]

theorem bisect_done (t : Int) (l : List Msg) : ∀ (f lo hi : Nat), hi - lo < f →
    ¬ ((bisect t l f (lo, hi)).1 < (bisect t l f (lo, hi)).2) := by
  intro f
  induction f with
  | zero => intro lo hi h; omega
  | succ f ih =>
    intro lo hi hf
    unfold bisect
    by_cases h : lo < hi
    · simp only [h, if_true]
      split
      · exact ih _ _ (by omega)
      · exact ih _ _ (by omega)
    · simp [h]

theorem bisect_le (t : Int) (l : List Msg) : ∀ (f lo hi : Nat), lo ≤ hi → hi ≤ l.length →
    (bisect t l f (lo, hi)).2 ≤ l.length := by
  intro f
  induction f with
  | zero => intro lo hi _ h; exact h
  | succ f ih =>
    intro lo hi hl hh
    unfold bisect
    by_cases h : lo < hi
    · simp only [h, if_true]
      split
      · exact ih _ _ (by omega) (by omega)
      · exact ih _ _ (by omega) hh
    · simpa [h] using hh

/-! ### the two `while` loops of `transpose`: the result does not depend on the fuel once it suffices -/

theorem wrapUp_fuel (lo : Int) : ∀ (f f' : Nat) (p : Int), lo - p < 12 * (f : Int) → lo - p < 12 * (f' : Int) →
    wrapUp lo f p = wrapUp lo f' p := by
  intro f
  induction f with
  | zero =>
    intro f' p h _
    cases f' with
    | zero => rfl
    | succ f' =>
      have : ¬ p < lo := by omega
      simp [wrapUp, this]
  | succ f ih =>
    intro f' p h h'
    cases f' with
    | zero =>
      have : ¬ p < lo := by omega
      simp [wrapUp, this]
    | succ f' =>
      unfold wrapUp
      by_cases hp : p < lo
      · simp only [hp, if_true]
        rw [ih f' (p + 12) (by omega) (by omega)]
      · simp [hp]

theorem wrapUp_ge (lo : Int) : ∀ (f : Nat) (p : Int), lo - p < 12 * (f : Int) → lo ≤ (wrapUp lo f p).1 := by
  intro f
  induction f with
  | zero => intro p h; simp [wrapUp]; omega
  | succ f ih =>
    intro p h
    unfold wrapUp
    by_cases hp : p < lo
    · simp only [hp, if_true]
      exact ih (p + 12) (by omega)
    · simp [hp]; omega

theorem wrapDown_fuel (hi : Int) : ∀ (f f' : Nat) (p : Int), p - hi < 12 * (f : Int) → p - hi < 12 * (f' : Int) →
    wrapDown hi f p = wrapDown hi f' p := by
  intro f
  induction f with
  | zero =>
    intro f' p h _
    cases f' with
    | zero => rfl
    | succ f' =>
      have : ¬ p > hi := by omega
      simp [wrapDown, this]
  | succ f ih =>
    intro f' p h h'
    cases f' with
    | zero =>
      have : ¬ p > hi := by omega
      simp [wrapDown, this]
    | succ f' =>
      unfold wrapDown
      by_cases hp : p > hi
      · simp only [hp, if_true]
        rw [ih f' (p - 12) (by omega) (by omega)]
      · simp [hp]

theorem wrapDown_le (hi : Int) : ∀ (f : Nat) (p : Int), p - hi < 12 * (f : Int) → (wrapDown hi f p).1 ≤ hi := by
  intro f
  induction f with
  | zero => intro p h; simp [wrapDown]; omega
  | succ f ih =>
    intro p h
    unfold wrapDown
    by_cases hp : p > hi
    · simp only [hp, if_true]
      exact ih (p - 12) (by omega)
    · simp [hp]; omega

/-- `wrapPitch` with the fuels of the generated loops (distance + 1) -/
theorem wrapPitch_fuel (lo hi p : Int) :
    wrapPitch lo hi p =
      ((wrapDown hi (Int.toNat ((wrapUp lo (Int.toNat (lo - p) + 1) p).1 - hi) + 1) (wrapUp lo (Int.toNat (lo - p) + 1) p).1).1,
       (wrapUp lo (Int.toNat (lo - p) + 1) p).2 ||
       (wrapDown hi (Int.toNat ((wrapUp lo (Int.toNat (lo - p) + 1) p).1 - hi) + 1) (wrapUp lo (Int.toNat (lo - p) + 1) p).1).2) := by
  have h1 : wrapUp lo (Int.toNat (lo - p) / 12 + 2) p = wrapUp lo (Int.toNat (lo - p) + 1) p :=
    wrapUp_fuel lo _ _ p (by omega) (by omega)
  unfold wrapPitch
  rw [h1]
  generalize (wrapUp lo (Int.toNat (lo - p) + 1) p) = u
  have h2 : wrapDown hi (Int.toNat (u.1 - hi) / 12 + 2) u.1 = wrapDown hi (Int.toNat (u.1 - hi) + 1) u.1 :=
    wrapDown_fuel hi _ _ u.1 (by omega) (by omega)
  obtain ⟨u1, u2⟩ := u
  simp only at h2 ⊢
  rw [h2]

/-! ### loop states of the generated functions ↔ states of the hand models -/

/-- loop state of the generated `toAbsoluteSequence` ↦ state of the hand model's fold -/
def toAbsOf (st : List Msg × Int × Option Int × Bool) : ToAbsSt :=
  { cur := st.2.1, defCh := st.2.2.1, cap := st.2.2.2, out := st.1.reverse }
def toAbsTo (s : ToAbsSt) : List Msg × Int × Option Int × Bool := (s.out.reverse, s.cur, s.defCh, s.cap)

/-- `current_point_in_time` after the loop of `to_relative_sequence` -/
def toRelCur (cur : Int) (l : List Msg) : Int := l.foldl (fun c m => if m.time > c then m.time else c) cur

/-- `Key.transpose_key` on key indices as a total function, from the generated translation
    (`-2` where the Python function raises; the same convention as `tkFn` of Driver.lean) -/
def tkGen (by_ : Int) (k : Int) : Int :=
  match Gen.transposeKey k by_ with
  | some v => if v == -1000000 then pyNone else v
  | none => -2

theorem linkTheory_tkGen (by_ k : Int) (h : (Gen.transposeKey k by_).isSome) :
    linkTheory (Gen.transposeKey k by_) = .ok (tkGen by_ k) := by
  unfold linkTheory tkGen
  cases hk : Gen.transposeKey k by_ with
  | none => simp [hk] at h
  | some v => rfl

/-! ### `to_mido_track` -/

/-- what a mido message carries of a `MidiEv`: the fields its constructor was given (the hand model `toMidoGo` keeps
    the other fields of the internal message, the harness and the translation do not) -/
def midoView (m : Msg) : Msg :=
  match m.ty with
  | .noteOn | .noteOff => { ty := m.ty, ch := m.ch, time := m.time, note := m.note, vel := m.vel }
  | .timeSignature => { ty := m.ty, ch := m.ch, time := m.time, num := m.num, den := m.den }
  | .keySignature => { ty := m.ty, ch := m.ch, time := m.time, key := m.key }
  | .controlChange => { ty := m.ty, ch := m.ch, time := m.time, vel := m.vel, ctl := m.ctl }
  | _ => m

/-- `time_buffer` after the loop of `to_mido_track` -/
def toMidoBuf (buf : Int) : List Msg → Int
  | [] => buf
  | m :: ms =>
    let buf := if m.time != pyNone then buf + m.time else buf
    match m.ty with
    | .noteOn | .noteOff | .timeSignature | .keySignature | .controlChange => toMidoBuf 0 ms
    | _ => toMidoBuf buf ms

end SCoda.ViewTieL
