/-
  Note bookkeeping of the `split` model: alternation of note-ons/note-offs per key, the sounding
  relation, and the extra hypothesis (no zero-length notes) under which `split` keeps them.
-/
import SCoda.Lemmas.Split
namespace SCoda.SplitL
open SCoda

/-! ### alternation as a function -/

/-- executable form of `altFrom`: the open/closed state of key `k` after `l`, `none` if the
    note-ons and note-offs of `k` do not alternate -/
def altRun (k : Int × Int) : Bool → List Msg → Option Bool
  | b, [] => some b
  | b, m :: ms =>
    if m.nkey = k ∧ m.ty = .noteOn then (if b then none else altRun k true ms)
    else if m.nkey = k ∧ m.ty = .noteOff then (if b then altRun k false ms else none)
    else altRun k b ms

theorem altFrom_iff (k : Int × Int) (b : Bool) (l : List Msg) : altFrom k b l ↔ altRun k b l = some false := by
  induction l generalizing b with
  | nil => simp [altFrom, altRun]
  | cons m ms ih =>
    simp only [altFrom, altRun]
    split
    · cases b <;> simp [ih]
    · split
      · cases b <;> simp [ih]
      · exact ih b

theorem altRun_append (k : Int × Int) (b : Bool) (u y : List Msg) :
    altRun k b (u ++ y) = (altRun k b u).bind (fun b' => altRun k b' y) := by
  induction u generalizing b with
  | nil => simp [altRun]
  | cons m ms ih =>
    simp only [List.cons_append, altRun]
    split
    · cases b <;> simp [ih]
    · split
      · cases b <;> simp [ih]
      · exact ih b

/-- `m` is a note event of key `k` -/
def Kev (k : Int × Int) (m : Msg) : Prop := m.nkey = k ∧ (m.ty = .noteOn ∨ m.ty = .noteOff)

theorem altRun_cons_skip (k : Int × Int) (b : Bool) (m : Msg) (l : List Msg) (h : ¬ Kev k m) :
    altRun k b (m :: l) = altRun k b l := by
  have h1 : ¬ (m.nkey = k ∧ m.ty = .noteOn) := fun ⟨a, c⟩ => h ⟨a, Or.inl c⟩
  have h2 : ¬ (m.nkey = k ∧ m.ty = .noteOff) := fun ⟨a, c⟩ => h ⟨a, Or.inr c⟩
  simp [altRun, h1, h2]

theorem altRun_skip (k : Int × Int) (b : Bool) (u : List Msg) (h : ∀ x ∈ u, ¬ Kev k x) :
    altRun k b u = some b := by
  induction u with
  | nil => rfl
  | cons m ms ih =>
    rw [altRun_cons_skip k b m ms (h m List.mem_cons_self)]
    exact ih (fun x hx => h x (List.mem_cons_of_mem _ hx))

theorem altRun_skip_append (k : Int × Int) (b : Bool) (u y : List Msg) (h : ∀ x ∈ u, ¬ Kev k x) :
    altRun k b (u ++ y) = altRun k b y := by
  rw [altRun_append, altRun_skip k b u h]; rfl

theorem altRun_remove (k : Int × Int) (b : Bool) (u w : List Msg) (x : Msg) (h : ¬ Kev k x) :
    altRun k b (u ++ x :: w) = altRun k b (u ++ w) := by
  rw [altRun_append, altRun_append]
  congr 1; funext b'
  exact altRun_cons_skip k b' x w h

theorem altRun_cons_on (k : Int × Int) (b : Bool) (m : Msg) (l : List Msg) (h : m.nkey = k ∧ m.ty = .noteOn) :
    altRun k b (m :: l) = if b then none else altRun k true l := by
  simp [altRun, h]

theorem altRun_cons_off (k : Int × Int) (b : Bool) (m : Msg) (l : List Msg) (h : m.nkey = k ∧ m.ty = .noteOff) :
    altRun k b (m :: l) = if b then altRun k false l else none := by
  have h1 : ¬ (m.nkey = k ∧ m.ty = .noteOn) := by rw [h.2]; simp
  simp [altRun, h]

/-- a list without note-offs that ends closed contains no note-on of `k` -/
theorem altRun_nooff_closed (k : Int × Int) (b : Bool) (u : List Msg) (hu : ∀ x ∈ u, x.ty ≠ .noteOff)
    (h : altRun k b u = some false) : b = false ∧ ∀ x ∈ u, ¬ Kev k x := by
  induction u generalizing b with
  | nil => simp [altRun] at h; exact ⟨h, by simp⟩
  | cons m ms ih =>
    have hu' : ∀ x ∈ ms, x.ty ≠ .noteOff := fun x hx => hu x (List.mem_cons_of_mem _ hx)
    by_cases hon : m.nkey = k ∧ m.ty = .noteOn
    · rw [altRun_cons_on k b m ms hon] at h
      cases b with
      | true => simp at h
      | false =>
        have := (ih true hu' (by simpa using h)).1
        simp at this
    · have hk : ¬ Kev k m := by
        rintro ⟨a, c | c⟩
        · exact hon ⟨a, c⟩
        · exact hu m List.mem_cons_self c
      rw [altRun_cons_skip k b m ms hk] at h
      obtain ⟨h1, h2⟩ := ih b hu' h
      refine ⟨h1, ?_⟩
      intro x hx
      rcases List.mem_cons.1 hx with rfl | hx
      · exact hk
      · exact h2 x hx

/-- while `k` is open, a prefix without note-offs contains no note event of `k` -/
theorem altRun_true_prefix (k : Int × Int) (u w : List Msg) (hu : ∀ x ∈ u, x.ty ≠ .noteOff) (b' : Bool)
    (h : altRun k true (u ++ w) = some b') : ∀ x ∈ u, ¬ Kev k x := by
  induction u with
  | nil => simp
  | cons m ms ih =>
    have hu' : ∀ x ∈ ms, x.ty ≠ .noteOff := fun x hx => hu x (List.mem_cons_of_mem _ hx)
    by_cases hon : m.nkey = k ∧ m.ty = .noteOn
    · rw [List.cons_append, altRun_cons_on k true m _ hon] at h
      simp at h
    · have hk : ¬ Kev k m := by
        rintro ⟨a, c | c⟩
        · exact hon ⟨a, c⟩
        · exact hu m List.mem_cons_self c
      rw [List.cons_append, altRun_cons_skip k true m _ hk] at h
      intro x hx
      rcases List.mem_cons.1 hx with rfl | hx
      · exact hk
      · exact ih hu' h x hx

/-! ### no zero-length notes -/

/-- no note of key `k` has zero length: after a note-on of `k` (`fresh = true`) a positive wait
    comes before the next note-off of `k` -/
def zl (k : Int × Int) : Bool → List Msg → Prop
  | _, [] => True
  | fresh, m :: ms =>
    if m.ty = .wait then zl k (fresh && decide (m.time ≤ 0)) ms
    else if m.nkey = k ∧ m.ty = .noteOn then zl k true ms
    else if m.nkey = k ∧ m.ty = .noteOff then fresh = false ∧ zl k false ms
    else zl k fresh ms

/-- no note has zero length -/
def NoZeroNotes (r : List Msg) : Prop := ∀ k, zl k false r

theorem zl_cons_wait (k : Int × Int) (f : Bool) (m : Msg) (l : List Msg) (h : m.ty = .wait) :
    zl k f (m :: l) ↔ zl k (f && decide (m.time ≤ 0)) l := by
  simp [zl, h]

theorem zl_cons_on (k : Int × Int) (f : Bool) (m : Msg) (l : List Msg) (h : m.nkey = k ∧ m.ty = .noteOn) :
    zl k f (m :: l) ↔ zl k true l := by
  simp [zl, h]

theorem zl_cons_off (k : Int × Int) (f : Bool) (m : Msg) (l : List Msg) (h : m.nkey = k ∧ m.ty = .noteOff) :
    zl k f (m :: l) ↔ f = false ∧ zl k false l := by
  simp [zl, h]

theorem zl_cons_skip (k : Int × Int) (f : Bool) (m : Msg) (l : List Msg) (hw : m.ty ≠ .wait) (h : ¬ Kev k m) :
    zl k f (m :: l) ↔ zl k f l := by
  have h1 : ¬ (m.nkey = k ∧ m.ty = .noteOn) := fun ⟨a, c⟩ => h ⟨a, Or.inl c⟩
  have h2 : ¬ (m.nkey = k ∧ m.ty = .noteOff) := fun ⟨a, c⟩ => h ⟨a, Or.inr c⟩
  simp [zl, hw, h1, h2]

theorem zl_mono (k : Int × Int) (f : Bool) (l : List Msg) (h : zl k f l) : zl k false l := by
  induction l generalizing f with
  | nil => trivial
  | cons m ms ih =>
    by_cases hw : m.ty = .wait
    · rw [zl_cons_wait k _ m ms hw] at h ⊢
      simpa using ih _ h
    · by_cases hon : m.nkey = k ∧ m.ty = .noteOn
      · rw [zl_cons_on k _ m ms hon] at h ⊢; exact h
      · by_cases hoff : m.nkey = k ∧ m.ty = .noteOff
        · rw [zl_cons_off k _ m ms hoff] at h ⊢; exact ⟨rfl, h.2⟩
        · have hk : ¬ Kev k m := by
            rintro ⟨a, c | c⟩
            · exact hon ⟨a, c⟩
            · exact hoff ⟨a, c⟩
          rw [zl_cons_skip k _ m ms hw hk] at h ⊢
          exact ih _ h

/-- removing a message that is neither a wait nor a note-on of `k` keeps `zl` -/
theorem zl_remove (k : Int × Int) (f : Bool) (u w : List Msg) (x : Msg) (hw : x.ty ≠ .wait)
    (hon : ¬ (x.nkey = k ∧ x.ty = .noteOn)) (h : zl k f (u ++ x :: w)) : zl k f (u ++ w) := by
  induction u generalizing f with
  | nil =>
    simp only [List.nil_append] at h ⊢
    by_cases hoff : x.nkey = k ∧ x.ty = .noteOff
    · rw [zl_cons_off k _ x w hoff] at h
      rw [h.1]; exact h.2
    · have hk : ¬ Kev k x := by
        rintro ⟨a, c | c⟩
        · exact hon ⟨a, c⟩
        · exact hoff ⟨a, c⟩
      rwa [zl_cons_skip k _ x w hw hk] at h
  | cons m ms ih =>
    simp only [List.cons_append] at h ⊢
    by_cases hmw : m.ty = .wait
    · rw [zl_cons_wait k _ m _ hmw] at h ⊢
      exact ih _ h
    · by_cases hmon : m.nkey = k ∧ m.ty = .noteOn
      · rw [zl_cons_on k _ m _ hmon] at h ⊢; exact ih _ h
      · by_cases hmoff : m.nkey = k ∧ m.ty = .noteOff
        · rw [zl_cons_off k _ m _ hmoff] at h ⊢; exact ⟨h.1, ih _ h.2⟩
        · have hk : ¬ Kev k m := by
            rintro ⟨a, c | c⟩
            · exact hmon ⟨a, c⟩
            · exact hmoff ⟨a, c⟩
          rw [zl_cons_skip k _ m _ hmw hk] at h ⊢
          exact ih _ h

/-- removing a zero wait keeps `zl` -/
theorem zl_remove_wait0 (k : Int × Int) (f : Bool) (u w : List Msg) (x : Msg) (hw : x.ty = .wait)
    (h0 : x.time ≤ 0) (h : zl k f (u ++ x :: w)) : zl k f (u ++ w) := by
  induction u generalizing f with
  | nil =>
    simp only [List.nil_append] at h ⊢
    rw [zl_cons_wait k _ x w hw] at h
    simpa [h0] using h
  | cons m ms ih =>
    simp only [List.cons_append] at h ⊢
    by_cases hmw : m.ty = .wait
    · rw [zl_cons_wait k _ m _ hmw] at h ⊢
      exact ih _ h
    · by_cases hmon : m.nkey = k ∧ m.ty = .noteOn
      · rw [zl_cons_on k _ m _ hmon] at h ⊢; exact ih _ h
      · by_cases hmoff : m.nkey = k ∧ m.ty = .noteOff
        · rw [zl_cons_off k _ m _ hmoff] at h ⊢; exact ⟨h.1, ih _ h.2⟩
        · have hk : ¬ Kev k m := by
            rintro ⟨a, c | c⟩
            · exact hmon ⟨a, c⟩
            · exact hmoff ⟨a, c⟩
          rw [zl_cons_skip k _ m _ hmw hk] at h ⊢
          exact ih _ h

/-- after a wait-free, note-off-free prefix and a positive wait, freshness is gone -/
theorem zl_prefix_poswait (k : Int × Int) (f : Bool) (u w : List Msg) (x : Msg)
    (hu : ∀ y ∈ u, y.ty ≠ .wait ∧ y.ty ≠ .noteOff) (hx : x.ty = .wait) (hpos : 0 < x.time) :
    zl k f (u ++ x :: w) ↔ zl k false w := by
  induction u generalizing f with
  | nil =>
    simp only [List.nil_append]
    rw [zl_cons_wait k _ x w hx]
    have : ¬ x.time ≤ 0 := by omega
    simp [this]
  | cons m ms ih =>
    have hu' : ∀ y ∈ ms, y.ty ≠ .wait ∧ y.ty ≠ .noteOff := fun y hy => hu y (List.mem_cons_of_mem _ hy)
    have hm := hu m List.mem_cons_self
    simp only [List.cons_append]
    by_cases hmon : m.nkey = k ∧ m.ty = .noteOn
    · rw [zl_cons_on k _ m _ hmon]; exact ih _ hu'
    · have hk : ¬ Kev k m := by
        rintro ⟨a, c | c⟩
        · exact hmon ⟨a, c⟩
        · exact hm.2 c
      rw [zl_cons_skip k _ m _ hm.1 hk]; exact ih _ hu'

/-- a fresh note-on cannot be closed before a wait -/
theorem zl_true_off_false (k : Int × Int) (u w : List Msg) (x : Msg) (hu : ∀ y ∈ u, y.ty ≠ .wait)
    (hx : x.nkey = k ∧ x.ty = .noteOff) (h : zl k true (u ++ x :: w)) : False := by
  induction u with
  | nil =>
    simp only [List.nil_append] at h
    rw [zl_cons_off k _ x w hx] at h
    simp at h
  | cons m ms ih =>
    have hu' : ∀ y ∈ ms, y.ty ≠ .wait := fun y hy => hu y (List.mem_cons_of_mem _ hy)
    have hm := hu m List.mem_cons_self
    simp only [List.cons_append] at h
    by_cases hmon : m.nkey = k ∧ m.ty = .noteOn
    · rw [zl_cons_on k _ m _ hmon] at h; exact ih hu' h
    · by_cases hmoff : m.nkey = k ∧ m.ty = .noteOff
      · rw [zl_cons_off k _ m _ hmoff] at h; simp at h
      · have hk : ¬ Kev k m := by
          rintro ⟨a, c | c⟩
          · exact hmon ⟨a, c⟩
          · exact hmoff ⟨a, c⟩
        rw [zl_cons_skip k _ m _ hm hk] at h; exact ih hu' h

/-- a note-off of `k` right after the (wait-free) queue: the queue holds no note-on of `k` -/
theorem zl_queue_noon (k : Int × Int) (f : Bool) (u w : List Msg) (x : Msg) (hu : ∀ y ∈ u, y.ty ≠ .wait)
    (hx : x.nkey = k ∧ x.ty = .noteOff) (h : zl k f (u ++ x :: w)) :
    ∀ y ∈ u, ¬ (y.nkey = k ∧ y.ty = .noteOn) := by
  induction u generalizing f with
  | nil => simp
  | cons m ms ih =>
    have hu' : ∀ y ∈ ms, y.ty ≠ .wait := fun y hy => hu y (List.mem_cons_of_mem _ hy)
    have hm := hu m List.mem_cons_self
    simp only [List.cons_append] at h
    by_cases hmon : m.nkey = k ∧ m.ty = .noteOn
    · rw [zl_cons_on k _ m _ hmon] at h
      exact absurd h (zl_true_off_false k ms w x hu' hx)
    · intro y hy
      rcases List.mem_cons.1 hy with rfl | hy
      · exact hmon
      · by_cases hmoff : m.nkey = k ∧ m.ty = .noteOff
        · rw [zl_cons_off k _ m _ hmoff] at h; exact ih _ hu' h.2 y hy
        · have hk : ¬ Kev k m := by
            rintro ⟨a, c | c⟩
            · exact hmon ⟨a, c⟩
            · exact hmoff ⟨a, c⟩
          rw [zl_cons_skip k _ m _ hm hk] at h; exact ih _ hu' h y hy

/-! ### the dictionary of open notes -/

def keys (d : Assoc (Int × Int) Msg) : List (Int × Int) := d.map Prod.fst

theorem keys_set (d : Assoc (Int × Int) Msg) (k : Int × Int) (v : Msg) :
    keys (d.set k v) = if k ∈ keys d then keys d else keys d ++ [k] := by
  induction d with
  | nil => simp [Assoc.set, keys]
  | cons x rest ih =>
    obtain ⟨k', w⟩ := x
    simp only [Assoc.set]
    by_cases hk : k' = k
    · subst hk; simp [keys]
    · have hk' : ¬ k = k' := fun h => hk h.symm
      simp only [keys, List.map_cons, List.mem_cons, hk, hk', if_false, false_or] at ih ⊢
      rw [ih]
      split
      · rename_i h; simp [h]
      · rename_i h; simp [h]

theorem keys_erase (d : Assoc (Int × Int) Msg) (k : Int × Int) :
    keys (d.erase k) = (keys d).erase k := by
  induction d with
  | nil => simp [Assoc.erase, keys]
  | cons x rest ih =>
    obtain ⟨k', w⟩ := x
    simp only [Assoc.erase]
    by_cases hk : k' = k
    · subst hk; simp [keys]
    · simp only [keys, List.map_cons, hk, if_false] at ih ⊢
      rw [ih, List.erase_cons_tail (by simpa using hk)]

/-- the dictionary has distinct keys and every entry is filed under the key of its message -/
structure OpensOK (opens : Assoc (Int × Int) Msg) : Prop where
  nodup : (keys opens).Nodup
  cons : ∀ kv ∈ opens, kv.2.nkey = kv.1

theorem OpensOK.set {opens : Assoc (Int × Int) Msg} (h : OpensOK opens) (m : Msg) :
    OpensOK (opens.set m.nkey m) := by
  refine ⟨?_, ?_⟩
  · rw [keys_set]
    split
    · exact h.nodup
    · rename_i hk
      rw [List.nodup_append]
      refine ⟨h.nodup, by simp, ?_⟩
      intro a ha b hb
      simp at hb; subst hb
      intro hab; subst hab; exact hk ha
  · intro kv hkv
    rcases mem_assoc_set _ _ _ kv hkv with hkv | hkv
    · exact h.cons kv hkv
    · subst hkv; rfl

theorem OpensOK.erase {opens : Assoc (Int × Int) Msg} (h : OpensOK opens) (k : Int × Int) :
    OpensOK (opens.erase k) := by
  refine ⟨?_, ?_⟩
  · rw [keys_erase]; exact h.nodup.erase _
  · intro kv hkv
    exact h.cons kv (mem_assoc_erase _ _ kv hkv)

theorem mem_keys_set (d : Assoc (Int × Int) Msg) (k q : Int × Int) (v : Msg) :
    q ∈ keys (d.set k v) ↔ q ∈ keys d ∨ q = k := by
  rw [keys_set]
  split
  · rename_i hk
    constructor
    · exact Or.inl
    · rintro (h | h)
      · exact h
      · subst h; exact hk
  · simp

theorem mem_keys_erase (d : Assoc (Int × Int) Msg) (hd : (keys d).Nodup) (k q : Int × Int) :
    q ∈ keys (d.erase k) ↔ q ∈ keys d ∧ q ≠ k := by
  rw [keys_erase, hd.mem_erase_iff]
  exact And.comm

/-! ### stale entries: open notes whose re-striking note-on is still ahead in the working memory -/

/-- the next note event of `k` is a note-on, it comes before any wait, and from there on `k` alternates -/
def staleOK (k : Int × Int) : List Msg → Prop
  | [] => False
  | m :: ms =>
    if m.ty = .wait then False
    else if m.nkey = k ∧ m.ty = .noteOn then altRun k true ms = some false
    else if m.nkey = k ∧ m.ty = .noteOff then False
    else staleOK k ms

theorem staleOK_cons_on (k : Int × Int) (m : Msg) (l : List Msg) (h : m.nkey = k ∧ m.ty = .noteOn) :
    staleOK k (m :: l) ↔ altRun k true l = some false := by
  simp [staleOK, h]

theorem staleOK_cons_skip (k : Int × Int) (m : Msg) (l : List Msg) (hw : m.ty ≠ .wait) (h : ¬ Kev k m) :
    staleOK k (m :: l) ↔ staleOK k l := by
  have h1 : ¬ (m.nkey = k ∧ m.ty = .noteOn) := fun ⟨a, c⟩ => h ⟨a, Or.inl c⟩
  have h2 : ¬ (m.nkey = k ∧ m.ty = .noteOff) := fun ⟨a, c⟩ => h ⟨a, Or.inr c⟩
  simp [staleOK, hw, h1, h2]

theorem staleOK_wait (k : Int × Int) (m : Msg) (l : List Msg) (hw : m.ty = .wait) : ¬ staleOK k (m :: l) := by
  simp [staleOK, hw]

theorem staleOK_off (k : Int × Int) (m : Msg) (l : List Msg) (h : m.nkey = k ∧ m.ty = .noteOff) :
    ¬ staleOK k (m :: l) := by
  simp [staleOK, h]

theorem staleOK_alt (k : Int × Int) (l : List Msg) (h : staleOK k l) : altRun k false l = some false := by
  induction l with
  | nil => simp [staleOK] at h
  | cons m ms ih =>
    by_cases hw : m.ty = .wait
    · exact absurd h (staleOK_wait k m ms hw)
    · by_cases hon : m.nkey = k ∧ m.ty = .noteOn
      · rw [staleOK_cons_on k m ms hon] at h
        rw [altRun_cons_on k _ m ms hon]; simpa using h
      · by_cases hoff : m.nkey = k ∧ m.ty = .noteOff
        · exact absurd h (staleOK_off k m ms hoff)
        · have hk : ¬ Kev k m := by
            rintro ⟨a, c | c⟩
            · exact hon ⟨a, c⟩
            · exact hoff ⟨a, c⟩
          rw [staleOK_cons_skip k m ms hw hk] at h
          rw [altRun_cons_skip k _ m ms hk]; exact ih h

theorem staleOK_skip_append (k : Int × Int) (u w : List Msg) (hu : ∀ x ∈ u, x.ty ≠ .wait ∧ ¬ Kev k x) :
    staleOK k (u ++ w) ↔ staleOK k w := by
  induction u with
  | nil => simp
  | cons m ms ih =>
    have hm := hu m List.mem_cons_self
    rw [List.cons_append, staleOK_cons_skip k m _ hm.1 hm.2]
    exact ih (fun x hx => hu x (List.mem_cons_of_mem _ hx))

theorem onOf_nkey (opens : Assoc (Int × Int) Msg) (h : OpensOK opens) : ∀ kv ∈ opens, (onOf kv).nkey = kv.1 := by
  intro kv hkv; have := h.cons kv hkv; simpa [onOf, Msg.nkey] using this

theorem offOf_nkey (opens : Assoc (Int × Int) Msg) (h : OpensOK opens) : ∀ kv ∈ opens, (offOf kv).nkey = kv.1 := by
  intro kv hkv; have := h.cons kv hkv; simpa [offOf, Msg.nkey] using this

theorem OpensOK.tail {x} {rest : Assoc (Int × Int) Msg} (h : OpensOK (x :: rest)) : OpensOK rest := by
  refine ⟨?_, fun kv hkv => h.cons kv (List.mem_cons_of_mem _ hkv)⟩
  have := h.nodup
  simp only [keys, List.map_cons, List.nodup_cons] at this
  exact this.2

theorem ons_not_kev (k : Int × Int) (opens : Assoc (Int × Int) Msg) (h : OpensOK opens) (hk : k ∉ keys opens) :
    ∀ x ∈ opens.map onOf, ¬ Kev k x := by
  intro x hx
  simp only [List.mem_map] at hx
  obtain ⟨kv, hkv, rfl⟩ := hx
  rintro ⟨a, _⟩
  rw [onOf_nkey opens h kv hkv] at a
  apply hk; rw [← a]; exact List.mem_map_of_mem hkv

theorem offs_not_kev (k : Int × Int) (opens : Assoc (Int × Int) Msg) (h : OpensOK opens) (hk : k ∉ keys opens) :
    ∀ x ∈ opens.map offOf, ¬ Kev k x := by
  intro x hx
  simp only [List.mem_map] at hx
  obtain ⟨kv, hkv, rfl⟩ := hx
  rintro ⟨a, _⟩
  rw [offOf_nkey opens h kv hkv] at a
  apply hk; rw [← a]; exact List.mem_map_of_mem hkv

/-- closing all open notes: `k` is closed if it was open (and in the dictionary), untouched otherwise -/
theorem altRun_offs (k : Int × Int) (b : Bool) (opens : Assoc (Int × Int) Msg) (h : OpensOK opens) (w : List Msg) :
    altRun k b (opens.map offOf ++ w) =
      if k ∈ keys opens then (if b then altRun k false w else none) else altRun k b w := by
  induction opens generalizing b with
  | nil => simp [keys]
  | cons x rest ih =>
    have hx := offOf_nkey _ h x List.mem_cons_self
    have hnd := h.nodup
    simp only [keys, List.map_cons, List.nodup_cons] at hnd
    simp only [List.map_cons, List.cons_append]
    by_cases hk : x.1 = k
    · have hoff : (offOf x).nkey = k ∧ (offOf x).ty = .noteOff := ⟨by rw [hx, hk], rfl⟩
      have hkr : k ∉ keys rest := by rw [← hk]; exact hnd.1
      rw [altRun_cons_off k b _ _ hoff, ih _ h.tail, if_neg hkr]
      simp [keys, hk]
    · have hnk : ¬ Kev k (offOf x) := by rintro ⟨a, _⟩; rw [hx] at a; exact hk a
      rw [altRun_cons_skip k b _ _ hnk, ih _ h.tail]
      have : (k ∈ keys (x :: rest)) ↔ k ∈ keys rest := by
        simp only [keys, List.map_cons, List.mem_cons]
        constructor
        · rintro (h | h)
          · exact absurd h.symm hk
          · exact h
        · exact Or.inr
      simp only [this]

/-- re-opening all open notes makes every dictionary key stale-but-fine -/
theorem staleOK_ons (k : Int × Int) (opens : Assoc (Int × Int) Msg) (h : OpensOK opens) (w : List Msg)
    (hk : k ∈ keys opens) (hw : altRun k true w = some false) : staleOK k (opens.map onOf ++ w) := by
  induction opens with
  | nil => simp [keys] at hk
  | cons x rest ih =>
    have hx := onOf_nkey _ h x List.mem_cons_self
    have hnd := h.nodup
    simp only [keys, List.map_cons, List.nodup_cons] at hnd
    simp only [List.map_cons, List.cons_append]
    by_cases hxk : x.1 = k
    · have hon : (onOf x).nkey = k ∧ (onOf x).ty = .noteOn := ⟨by rw [hx, hxk], rfl⟩
      have hkr : k ∉ keys rest := by rw [← hxk]; exact hnd.1
      rw [staleOK_cons_on k _ _ hon, altRun_skip_append k true _ w (ons_not_kev k rest h.tail hkr)]
      exact hw
    · have hnk : ¬ Kev k (onOf x) := by rintro ⟨a, _⟩; rw [hx] at a; exact hxk a
      rw [staleOK_cons_skip k _ _ (by simp [onOf]) hnk]
      apply ih h.tail
      simp only [keys, List.map_cons, List.mem_cons] at hk
      rcases hk with hk | hk
      · exact absurd hk.symm hxk
      · exact hk

/-! ### the per-key invariant of the inner loop -/

def KeyInv (k : Int × Int) (rem : Int) (s : SplitSt) : Prop :=
  zl k false (s.queue.reverse ++ s.wm) ∧
  ∃ ck : Bool, altRun k false s.cur.reverse = some ck ∧
    ((ck = decide (k ∈ keys s.opens) ∧ altRun k ck (s.queue.reverse ++ s.wm) = some false) ∨
     (ck = false ∧ k ∈ keys s.opens ∧ s.queue = [] ∧ 0 < rem ∧ staleOK k s.wm))

/-- the per-key invariant between two runs of the inner loop -/
def OuterKey (k : Int × Int) (s : SplitSt) : Prop :=
  zl k false s.wm ∧
    ((k ∉ keys s.opens ∧ altRun k false s.wm = some false) ∨ (k ∈ keys s.opens ∧ staleOK k s.wm))

theorem not_kev_of {k : Int × Int} {m : Msg} (h1 : ¬ (m.nkey = k ∧ m.ty = .noteOn))
    (h2 : ¬ (m.nkey = k ∧ m.ty = .noteOff)) : ¬ Kev k m := by
  rintro ⟨a, c | c⟩
  · exact h1 ⟨a, c⟩
  · exact h2 ⟨a, c⟩

theorem altRun_snoc (k : Int × Int) (b ck : Bool) (u : List Msg) (m : Msg) (h : altRun k b u = some ck) :
    altRun k b (u ++ [m]) = altRun k ck [m] := by
  rw [altRun_append, h]; rfl

theorem KeyInv.init {k : Int × Int} {c : Int} (hc : 0 < c) {s : SplitSt} (hcur : s.cur = []) (hq : s.queue = [])
    (h : OuterKey k s) : KeyInv k c s := by
  obtain ⟨hz, hd⟩ := h
  refine ⟨by simpa [hq] using hz, false, by simp [hcur, altRun], ?_⟩
  rcases hd with ⟨h1, h2⟩ | ⟨h1, h2⟩
  · left; exact ⟨by simp [h1], by simpa [hq] using h2⟩
  · right; exact ⟨rfl, h1, hq, hc, h2⟩

theorem KeyInv.push {k : Int × Int} {rem : Int} {m : Msg} {wm cur : List Msg} {opens pieces}
    (h : KeyInv k rem ⟨m :: wm, cur, [], opens, pieces⟩)
    (hoff : m.ty ≠ .noteOff) (hw : m.ty ≠ .wait) :
    KeyInv k rem ⟨wm, m :: cur, [], if m.ty = .noteOn then opens.set m.nkey m else opens, pieces⟩ := by
  simp only [KeyInv, List.reverse_nil, List.nil_append, List.reverse_cons] at h ⊢
  obtain ⟨hz, ck, hck, hd⟩ := h
  by_cases hon : m.nkey = k ∧ m.ty = .noteOn
  · rw [zl_cons_on k _ m wm hon] at hz
    have hwm : ck = false ∧ altRun k true wm = some false := by
      rcases hd with ⟨_, h2⟩ | ⟨h1, _, _, _, h2⟩
      · rw [altRun_cons_on k _ m wm hon] at h2
        cases ck with
        | true => simp at h2
        | false => exact ⟨rfl, by simpa using h2⟩
      · exact ⟨h1, (staleOK_cons_on k m wm hon).1 h2⟩
    refine ⟨zl_mono k _ _ hz, true, ?_, Or.inl ⟨?_, hwm.2⟩⟩
    · rw [altRun_snoc k _ ck _ m hck, hwm.1, altRun_cons_on k _ m _ hon]; rfl
    · simp only [hon.2, if_true]
      rw [eq_comm, decide_eq_true_iff, mem_keys_set]
      exact Or.inr hon.1.symm
  · have hk : ¬ Kev k m := not_kev_of hon (fun h => hoff h.2)
    rw [zl_cons_skip k _ m wm hw hk] at hz
    have hkeys : k ∈ keys (if m.ty = .noteOn then opens.set m.nkey m else opens) ↔ k ∈ keys opens := by
      split
      · rename_i hty
        rw [mem_keys_set]
        constructor
        · rintro (h | h)
          · exact h
          · exact absurd ⟨h.symm, hty⟩ hon
        · exact Or.inl
      · exact Iff.rfl
    refine ⟨hz, ck, ?_, ?_⟩
    · rw [altRun_snoc k _ ck _ m hck, altRun_cons_skip k _ m _ hk]; rfl
    · rcases hd with ⟨h1, h2⟩ | ⟨h1, h2, h3, h4, h5⟩
      · left
        rw [altRun_cons_skip k _ m _ hk] at h2
        refine ⟨?_, h2⟩
        rw [h1]; exact decide_eq_decide.2 hkeys.symm
      · right
        exact ⟨h1, hkeys.2 h2, trivial, h4, (staleOK_cons_skip k m wm hw hk).1 h5⟩

theorem KeyInv.defer {k : Int × Int} {m : Msg} {wm cur queue : List Msg} {opens pieces}
    (h : KeyInv k 0 ⟨m :: wm, cur, queue, opens, pieces⟩) :
    KeyInv k 0 ⟨wm, cur, m :: queue, opens, pieces⟩ := by
  simp only [KeyInv, List.reverse_cons, List.append_assoc, List.singleton_append] at h ⊢
  obtain ⟨hz, ck, hck, hd⟩ := h
  refine ⟨hz, ck, hck, ?_⟩
  rcases hd with hd | ⟨_, _, _, h4, _⟩
  · left; exact hd
  · omega

theorem KeyInv.off {k : Int × Int} {rem : Int} {m : Msg} {wm cur queue : List Msg} {opens pieces}
    (h : KeyInv k rem ⟨m :: wm, cur, queue, opens, pieces⟩) (hm : m.ty = .noteOff) (hok : OpensOK opens)
    (hqw : ∀ q ∈ queue, q.ty ≠ .wait) (hqo : ∀ q ∈ queue, q.ty ≠ .noteOff) :
    KeyInv k rem ⟨wm, m :: cur, queue, opens.erase m.nkey, pieces⟩ := by
  simp only [KeyInv, List.reverse_cons] at h ⊢
  obtain ⟨hz, ck, hck, hd⟩ := h
  have hqw' : ∀ q ∈ queue.reverse, q.ty ≠ .wait := by simpa using hqw
  have hmw : m.ty ≠ .wait := by rw [hm]; simp
  have hmon : ¬ (m.nkey = k ∧ m.ty = .noteOn) := by rw [hm]; simp
  have hz' : zl k false (queue.reverse ++ wm) := zl_remove k _ _ _ m hmw hmon hz
  by_cases hk : m.nkey = k
  · have hoff : m.nkey = k ∧ m.ty = .noteOff := ⟨hk, hm⟩
    have hnoon := zl_queue_noon k _ _ _ m hqw' hoff hz
    have hqk : ∀ x ∈ queue.reverse, ¬ Kev k x := by
      intro x hx
      exact not_kev_of (hnoon x hx) (fun h => hqo x (by simpa using hx) h.2)
    rcases hd with ⟨h1, h2⟩ | ⟨_, _, h3, _, h5⟩
    · rw [altRun_skip_append k _ _ _ hqk, altRun_cons_off k _ m wm hoff] at h2
      have hct : ck = true := by
        cases ck with
        | true => rfl
        | false => simp at h2
      subst hct
      refine ⟨hz', false, ?_, Or.inl ⟨?_, ?_⟩⟩
      · rw [altRun_snoc k _ true _ m hck, altRun_cons_off k _ m _ hoff]; rfl
      · rw [eq_comm, decide_eq_false_iff_not, mem_keys_erase _ hok.nodup]
        intro h; exact h.2 hk.symm
      · rw [altRun_skip_append k _ _ _ hqk]
        simpa using h2
    · exact absurd h5 (staleOK_off k m wm hoff)
  · have hnk : ¬ Kev k m := fun h => hk h.1
    have hkeys : k ∈ keys (opens.erase m.nkey) ↔ k ∈ keys opens := by
      rw [mem_keys_erase _ hok.nodup]
      constructor
      · exact fun h => h.1
      · exact fun h => ⟨h, fun h' => hk h'.symm⟩
    refine ⟨hz', ck, ?_, ?_⟩
    · rw [altRun_snoc k _ ck _ m hck, altRun_cons_skip k _ m _ hnk]; rfl
    · rcases hd with ⟨h1, h2⟩ | ⟨h1, h2, h3, h4, h5⟩
      · left
        rw [altRun_remove k _ _ _ m hnk] at h2
        refine ⟨?_, h2⟩
        rw [h1]; exact decide_eq_decide.2 hkeys.symm
      · right
        exact ⟨h1, hkeys.2 h2, h3, h4, (staleOK_cons_skip k m wm hmw hnk).1 h5⟩

theorem KeyInv.fit {k : Int × Int} {rem : Int} {m : Msg} {wm cur queue : List Msg} {opens pieces}
    (h : KeyInv k rem ⟨m :: wm, cur, queue, opens, pieces⟩) (hm : m.ty = .wait)
    (h0 : queue ≠ [] → m.time = 0) :
    KeyInv k (rem - m.time) ⟨wm, m :: cur, queue, opens, pieces⟩ := by
  simp only [KeyInv, List.reverse_cons] at h ⊢
  obtain ⟨hz, ck, hck, hd⟩ := h
  have hnk : ¬ Kev k m := by rintro ⟨_, c | c⟩ <;> simp [hm] at c
  have hz' : zl k false (queue.reverse ++ wm) := by
    by_cases hq : queue = []
    · subst hq
      simp only [List.reverse_nil, List.nil_append] at hz ⊢
      rw [zl_cons_wait k _ m wm hm] at hz
      simpa using hz
    · exact zl_remove_wait0 k _ _ _ m hm (by rw [h0 hq]; exact Int.le_refl 0) hz
  refine ⟨hz', ck, ?_, ?_⟩
  · rw [altRun_snoc k _ ck _ m hck, altRun_cons_skip k _ m _ hnk]; rfl
  · rcases hd with ⟨h1, h2⟩ | ⟨_, _, _, _, h5⟩
    · left
      rw [altRun_remove k _ _ _ m hnk] at h2
      exact ⟨h1, h2⟩
    · exact absurd h5 (staleOK_wait k m wm hm)

/-- what the per-key invariant gives when the input ends -/
theorem KeyInv.nil_exit {k : Int × Int} {rem : Int} {cur queue : List Msg} {opens pieces}
    (h : KeyInv k rem ⟨[], cur, queue, opens, pieces⟩) (hqo : ∀ q ∈ queue, q.ty ≠ .noteOff) :
    altRun k false cur.reverse = some false ∧ (∀ x ∈ queue, ¬ Kev k x) ∧ k ∉ keys opens := by
  simp only [KeyInv, List.append_nil] at h
  obtain ⟨hz, ck, hck, hd⟩ := h
  rcases hd with ⟨h1, h2⟩ | ⟨_, _, _, _, h5⟩
  · obtain ⟨hc, hq⟩ := altRun_nooff_closed k ck queue.reverse (by simpa using hqo) h2
    subst hc
    refine ⟨hck, by simpa using hq, ?_⟩
    simpa using h1
  · simp [staleOK] at h5

/-- what the per-key invariant gives when a wait does not fit -/
theorem KeyInv.split_exit {k : Int × Int} {rem : Int} {m : Msg} {wm cur queue : List Msg} {opens pieces}
    (h : KeyInv k rem ⟨m :: wm, cur, queue, opens, pieces⟩) (hm : m.ty = .wait) (hr : rem < m.time)
    (hr0 : 0 ≤ rem) (hok : OpensOK opens)
    (hqw : ∀ q ∈ queue, q.ty ≠ .wait) (hqo : ∀ q ∈ queue, q.ty ≠ .noteOff) (pieces' : List (List Msg)) :
    altRun k false (closedPiece rem m cur opens) = some false
    ∧ OuterKey k ⟨carried rem m wm queue opens, [], [], opens, pieces'⟩
    ∧ (k ∈ keys opens → ∀ x ∈ queue, ¬ Kev k x)
    ∧ altRun k false cur.reverse = some (decide (k ∈ keys opens)) := by
  simp only [KeyInv] at h
  obtain ⟨hz, ck, hck, hd⟩ := h
  have hnk : ¬ Kev k m := by rintro ⟨_, c | c⟩ <;> simp [hm] at c
  have hqw' : ∀ q ∈ queue.reverse, q.ty ≠ .wait := by simpa using hqw
  have hqo' : ∀ q ∈ queue.reverse, q.ty ≠ .noteOff := by simpa using hqo
  have hfresh : ck = decide (k ∈ keys opens) ∧ altRun k ck (queue.reverse ++ m :: wm) = some false := by
    rcases hd with hd | ⟨_, _, _, _, h5⟩
    · exact hd
    · exact absurd h5 (staleOK_wait k m wm hm)
  obtain ⟨h1, h2⟩ := hfresh
  subst h1
  -- `zl` after the carry wait
  have hzwm : zl k false wm :=
    (zl_prefix_poswait k _ _ _ m (fun y hy => ⟨hqw' y hy, hqo' y hy⟩) hm (by omega)).1 hz
  have hzc : zl k false (carried rem m wm queue opens) := by
    unfold carried
    rw [← List.append_assoc]
    refine (zl_prefix_poswait k _ _ _ _ ?_ rfl (by simp [Msg.mkWait]; omega)).2 hzwm
    intro y hy
    rcases List.mem_append.1 hy with hy | hy
    · exact ⟨hqw' y hy, hqo' y hy⟩
    · simp only [List.mem_map] at hy
      obtain ⟨kv, _, rfl⟩ := hy
      simp [onOf]
  have hcarry : ∀ b, altRun k b (Msg.mkWait m.ch (m.time - rem) :: wm) = altRun k b wm := by
    intro b
    exact altRun_cons_skip k b _ _ (by rintro ⟨_, c | c⟩ <;> simp [Msg.mkWait] at c)
  refine ⟨?_, ⟨hzc, ?_⟩, ?_, hck⟩
  · -- the closed piece alternates
    unfold closedPiece
    rw [altRun_append, hck]
    simp only [Option.bind_some]
    have hopt : altRun k (decide (k ∈ keys opens)) ((if 0 < rem then [Msg.mkWait m.ch rem] else []) ++ opens.map offOf)
        = altRun k (decide (k ∈ keys opens)) (opens.map offOf ++ []) := by
      split
      · rw [List.singleton_append, altRun_cons_skip k _ _ _ (by rintro ⟨_, c | c⟩ <;> simp [Msg.mkWait] at c)]
        simp
      · simp
    rw [hopt, altRun_offs k _ opens hok]
    by_cases hk : k ∈ keys opens <;> simp [hk, altRun]
  · -- the invariant between runs
    by_cases hk : k ∈ keys opens
    · right
      refine ⟨hk, ?_⟩
      simp only [hk, decide_true] at h2
      have hqk := altRun_true_prefix k _ _ hqo' _ h2
      rw [altRun_skip_append k _ _ _ hqk, altRun_cons_skip k _ m _ hnk] at h2
      unfold carried
      rw [staleOK_skip_append k _ _ (fun x hx => ⟨hqw' x hx, hqk x hx⟩)]
      exact staleOK_ons k opens hok _ hk (by rw [hcarry]; exact h2)
    · left
      refine ⟨hk, ?_⟩
      simp only [hk, decide_false] at h2
      rw [altRun_remove k _ _ _ m hnk] at h2
      unfold carried
      rw [altRun_append] at h2 ⊢
      rw [← h2]
      congr 1; funext b'
      rw [altRun_skip_append k _ _ _ (ons_not_kev k opens hok hk), hcarry]
  · intro hk
    simp only [hk, decide_true] at h2
    have hqk := altRun_true_prefix k _ _ hqo' _ h2
    simpa using hqk

/-! ### depth: the sounding relation along a relative list -/

theorem depth_append (k : Int × Int) (x y : List Msg) (d : Nat) : depth k (x ++ y) d = depth k y (depth k x d) := by
  induction x generalizing d with
  | nil => rfl
  | cons m ms ih =>
    simp only [List.cons_append, depth]
    split
    · split
      · exact ih _
      · split <;> exact ih _
    · exact ih _

theorem depth_cons_skip (k : Int × Int) (m : Msg) (l : List Msg) (d : Nat) (h : ¬ Kev k m) :
    depth k (m :: l) d = depth k l d := by
  simp only [depth]
  split
  · rename_i hk
    have h1 : ¬ m.ty = .noteOn := fun c => h ⟨hk, Or.inl c⟩
    have h2 : ¬ m.ty = .noteOff := fun c => h ⟨hk, Or.inr c⟩
    simp [h1, h2]
  · rfl

theorem depth_cons_on (k : Int × Int) (m : Msg) (l : List Msg) (d : Nat) (h : m.nkey = k ∧ m.ty = .noteOn) :
    depth k (m :: l) d = depth k l (d + 1) := by
  simp [depth, h.1, h.2]

theorem depth_cons_off (k : Int × Int) (m : Msg) (l : List Msg) (d : Nat) (h : m.nkey = k ∧ m.ty = .noteOff) :
    depth k (m :: l) d = depth k l (d - 1) := by
  simp [depth, h.1, h.2]

theorem depth_skip (k : Int × Int) (u : List Msg) (d : Nat) (h : ∀ x ∈ u, ¬ Kev k x) : depth k u d = d := by
  induction u with
  | nil => rfl
  | cons m ms ih =>
    rw [depth_cons_skip k m ms d (h m List.mem_cons_self)]
    exact ih (fun x hx => h x (List.mem_cons_of_mem _ hx))

/-- `depth` does not look at the time stamps -/
theorem depth_map_time (k : Int × Int) (a : Int) (u : List Msg) (d : Nat) :
    depth k (u.map (fun m => { m with time := a })) d = depth k u d := by
  induction u generalizing d with
  | nil => rfl
  | cons m ms ih =>
    simp only [List.map_cons, depth, Msg.nkey]
    by_cases h1 : (m.ch, m.note) = k
    · by_cases h2 : m.ty = .noteOn
      · simp [h1, h2, ih]
      · by_cases h3 : m.ty = .noteOff
        · simp [h1, h3, ih]
        · simp [h1, h2, h3, ih]
    · simp [h1, ih]

/-- depth of key `k` at tick `t` after the relative list `l` started at clock `a` with depth `d` -/
def Dp (k : Int × Int) (t : Int) (a : Int) (l : List Msg) (d : Nat) : Nat :=
  depth k ((eventsRelGo a l).filter (fun m => decide (m.time ≤ t))) d

theorem Dp_nil (k : Int × Int) (t a : Int) (d : Nat) : Dp k t a [] d = d := rfl

theorem Dp_append (k : Int × Int) (t a : Int) (u y : List Msg) (d : Nat) :
    Dp k t a (u ++ y) d = Dp k t (a + totalWait u) y (Dp k t a u d) := by
  simp only [Dp, eventsRelGo_append, List.filter_append, depth_append]

theorem Dp_cons_wait (k : Int × Int) (t a : Int) (m : Msg) (l : List Msg) (d : Nat) (h : m.ty = .wait) :
    Dp k t a (m :: l) d = Dp k t (a + m.time) l d := by
  simp only [Dp, eventsRelGo_cons_wait a m l h]

theorem Dp_mkWait (k : Int × Int) (t a c w : Int) (l : List Msg) (d : Nat) :
    Dp k t a (Msg.mkWait c w :: l) d = Dp k t (a + w) l d :=
  Dp_cons_wait k t a _ l d rfl

theorem Dp_nowait_late (k : Int × Int) (t a : Int) (u : List Msg) (d : Nat) (hu : ∀ x ∈ u, x.ty ≠ .wait)
    (h : t < a) : Dp k t a u d = d := by
  have : (eventsRelGo a u).filter (fun m => decide (m.time ≤ t)) = [] := by
    rw [eventsRelGo_nowait a u hu, List.filter_eq_nil_iff]
    intro x hx
    simp only [List.mem_map] at hx
    obtain ⟨y, _, rfl⟩ := hx
    simp only [decide_eq_true_eq]; omega
  simp only [Dp, this, depth]

theorem Dp_nowait_early (k : Int × Int) (t a : Int) (u : List Msg) (d : Nat) (hu : ∀ x ∈ u, x.ty ≠ .wait)
    (h : a ≤ t) : Dp k t a u d = depth k u d := by
  have : (eventsRelGo a u).filter (fun m => decide (m.time ≤ t)) = u.map (fun m => { m with time := a }) := by
    rw [eventsRelGo_nowait a u hu, List.filter_eq_self]
    intro x hx
    simp only [List.mem_map] at hx
    obtain ⟨y, _, rfl⟩ := hx
    simp only [decide_eq_true_eq]; omega
  simp only [Dp, this, depth_map_time]

theorem Dp_nowait_skip (k : Int × Int) (t a : Int) (u : List Msg) (d : Nat) (hu : ∀ x ∈ u, x.ty ≠ .wait)
    (hk : ∀ x ∈ u, ¬ Kev k x) : Dp k t a u d = d := by
  by_cases h : a ≤ t
  · rw [Dp_nowait_early k t a u d hu h, depth_skip k u d hk]
  · exact Dp_nowait_late k t a u d hu (by omega)

/-- without truncation when the whole list ends at or before `t` -/
theorem Dp_eq_depth (k : Int × Int) (t a : Int) (l : List Msg) (d : Nat) (hl : NonNegWaits l)
    (h : a + totalWait l ≤ t) : Dp k t a l d = depth k (eventsRelGo a l) d := by
  have : (eventsRelGo a l).filter (fun m => decide (m.time ≤ t)) = eventsRelGo a l := by
    rw [List.filter_eq_self]
    intro x hx
    have := (eventsRelGo_bounds l a hl x hx).2
    simp only [decide_eq_true_eq]; omega
  simp only [Dp, this]

/-- an alternating list moves the depth as it moves the open flag -/
theorem depth_alt (k : Int × Int) (a : Int) (l : List Msg) (b b' : Bool) (d : Nat)
    (h : altRun k b l = some b') : depth k (eventsRelGo a l) (d + b.toNat) = d + b'.toNat := by
  induction l generalizing a b d with
  | nil => simp [altRun] at h; subst h; rfl
  | cons m ms ih =>
    by_cases hw : m.ty = .wait
    · have hnk : ¬ Kev k m := by rintro ⟨_, c | c⟩ <;> simp [hw] at c
      rw [altRun_cons_skip k b m ms hnk] at h
      rw [eventsRelGo_cons_wait a m ms hw]
      exact ih _ _ _ h
    · rw [eventsRelGo_cons_nowait a m ms hw]
      by_cases hon : m.nkey = k ∧ m.ty = .noteOn
      · rw [altRun_cons_on k b m ms hon] at h
        cases b with
        | true => simp at h
        | false =>
          simp only [Bool.false_eq_true, if_false] at h
          rw [depth_cons_on k _ _ _ (by exact hon)]
          exact ih a true d h
      · by_cases hoff : m.nkey = k ∧ m.ty = .noteOff
        · rw [altRun_cons_off k b m ms hoff] at h
          cases b with
          | false => simp at h
          | true =>
            simp only [if_true] at h
            rw [depth_cons_off k _ _ _ (by exact hoff)]
            exact ih a false d h
        · have hnk : ¬ Kev k m := not_kev_of hon hoff
          rw [altRun_cons_skip k b m ms hnk] at h
          rw [depth_cons_skip k _ _ _ (by exact hnk)]
          exact ih a b d h

theorem depth_offs (k : Int × Int) (opens : Assoc (Int × Int) Msg) (h : OpensOK opens) (d : Nat) :
    depth k (opens.map offOf) d = if k ∈ keys opens then d - 1 else d := by
  induction opens generalizing d with
  | nil => simp [keys, depth]
  | cons x rest ih =>
    have hx := offOf_nkey _ h x List.mem_cons_self
    have hnd := h.nodup
    simp only [keys, List.map_cons, List.nodup_cons] at hnd
    simp only [List.map_cons]
    by_cases hk : x.1 = k
    · have hoff : (offOf x).nkey = k ∧ (offOf x).ty = .noteOff := ⟨by rw [hx, hk], rfl⟩
      have hkr : k ∉ keys rest := by rw [← hk]; exact hnd.1
      rw [depth_cons_off k _ _ _ hoff, ih h.tail, if_neg hkr]
      simp [keys, hk]
    · have hnk : ¬ Kev k (offOf x) := by rintro ⟨a, _⟩; rw [hx] at a; exact hk a
      rw [depth_cons_skip k _ _ _ hnk, ih h.tail]
      have : (k ∈ keys (x :: rest)) ↔ k ∈ keys rest := by
        simp only [keys, List.map_cons, List.mem_cons]
        constructor
        · rintro (h | h)
          · exact absurd h.symm hk
          · exact h
        · exact Or.inr
      simp only [this]

theorem depth_ons (k : Int × Int) (opens : Assoc (Int × Int) Msg) (h : OpensOK opens) (d : Nat) :
    depth k (opens.map onOf) d = if k ∈ keys opens then d + 1 else d := by
  induction opens generalizing d with
  | nil => simp [keys, depth]
  | cons x rest ih =>
    have hx := onOf_nkey _ h x List.mem_cons_self
    have hnd := h.nodup
    simp only [keys, List.map_cons, List.nodup_cons] at hnd
    simp only [List.map_cons]
    by_cases hk : x.1 = k
    · have hon : (onOf x).nkey = k ∧ (onOf x).ty = .noteOn := ⟨by rw [hx, hk], rfl⟩
      have hkr : k ∉ keys rest := by rw [← hk]; exact hnd.1
      rw [depth_cons_on k _ _ _ hon, ih h.tail, if_neg hkr]
      simp [keys, hk]
    · have hnk : ¬ Kev k (onOf x) := by rintro ⟨a, _⟩; rw [hx] at a; exact hk a
      rw [depth_cons_skip k _ _ _ hnk, ih h.tail]
      have : (k ∈ keys (x :: rest)) ↔ k ∈ keys rest := by
        simp only [keys, List.map_cons, List.mem_cons]
        constructor
        · rintro (h | h)
          · exact absurd h.symm hk
          · exact h
        · exact Or.inr
      simp only [this]

/-! ### the note invariant of the inner loop, and an induction principle carrying it -/

structure AltP (rem : Int) (s : SplitSt) : Prop where
  ok : OpensOK s.opens
  key : ∀ k, KeyInv k rem s

structure AltO (s : SplitSt) : Prop where
  ok : OpensOK s.opens
  key : ∀ k, OuterKey k s

theorem splitInner_invBA (c : Int) (P : Int → SplitSt → Prop) (Q : SplitSt → Prop)
    (h_nil : ∀ rem cur queue opens pieces, Base c rem ⟨[], cur, queue, opens, pieces⟩ →
      AltP rem ⟨[], cur, queue, opens, pieces⟩ →
      P rem ⟨[], cur, queue, opens, pieces⟩ →
      Q ⟨[], [], [], opens, if cur = [] then pieces else cur.reverse :: pieces⟩)
    (h_push : ∀ rem m wm cur opens pieces, Base c rem ⟨m :: wm, cur, [], opens, pieces⟩ →
      AltP rem ⟨m :: wm, cur, [], opens, pieces⟩ →
      P rem ⟨m :: wm, cur, [], opens, pieces⟩ →
      m.ty ≠ .noteOff → m.ty ≠ .wait → 0 < rem →
      P rem ⟨wm, m :: cur, [], if m.ty = .noteOn then opens.set m.nkey m else opens, pieces⟩)
    (h_defer : ∀ m wm cur queue opens pieces, Base c 0 ⟨m :: wm, cur, queue, opens, pieces⟩ →
      AltP 0 ⟨m :: wm, cur, queue, opens, pieces⟩ →
      P 0 ⟨m :: wm, cur, queue, opens, pieces⟩ →
      m.ty ≠ .noteOff → m.ty ≠ .wait →
      P 0 ⟨wm, cur, m :: queue, opens, pieces⟩)
    (h_off : ∀ rem m wm cur queue opens pieces, Base c rem ⟨m :: wm, cur, queue, opens, pieces⟩ →
      AltP rem ⟨m :: wm, cur, queue, opens, pieces⟩ →
      P rem ⟨m :: wm, cur, queue, opens, pieces⟩ →
      m.ty = .noteOff →
      P rem ⟨wm, m :: cur, queue, opens.erase m.nkey, pieces⟩)
    (h_fit : ∀ rem m wm cur queue opens pieces, Base c rem ⟨m :: wm, cur, queue, opens, pieces⟩ →
      AltP rem ⟨m :: wm, cur, queue, opens, pieces⟩ →
      P rem ⟨m :: wm, cur, queue, opens, pieces⟩ →
      m.ty = .wait → m.time ≤ rem → 0 ≤ m.time → (queue ≠ [] → m.time = 0) →
      P (rem - m.time) ⟨wm, m :: cur, queue, opens, pieces⟩)
    (h_split : ∀ rem m wm cur queue opens pieces, Base c rem ⟨m :: wm, cur, queue, opens, pieces⟩ →
      AltP rem ⟨m :: wm, cur, queue, opens, pieces⟩ →
      P rem ⟨m :: wm, cur, queue, opens, pieces⟩ →
      m.ty = .wait → rem < m.time →
      Q ⟨carried rem m wm queue opens, [], [], opens,
         if closedPiece rem m cur opens = [] then pieces else closedPiece rem m cur opens :: pieces⟩) :
    ∀ fuel rem s s', Base c rem s → AltP rem s → P rem s → splitInner fuel rem s = .ok s' → Q s' := by
  intro fuel rem s s' hB hA hP h
  refine splitInner_invB c (fun rem s => AltP rem s ∧ P rem s) Q ?_ ?_ ?_ ?_ ?_ ?_ fuel rem s s' hB ⟨hA, hP⟩ h
  · intro rem cur queue opens pieces hB ⟨hA, hP⟩
    exact h_nil _ _ _ _ _ hB hA hP
  · intro rem m wm cur opens pieces hB ⟨hA, hP⟩ h1 h2 h3
    refine ⟨⟨?_, fun k => (hA.key k).push h1 h2⟩, h_push _ _ _ _ _ _ hB hA hP h1 h2 h3⟩
    simp only
    split
    · exact hA.ok.set m
    · exact hA.ok
  · intro m wm cur queue opens pieces hB ⟨hA, hP⟩ h1 h2
    exact ⟨⟨hA.ok, fun k => (hA.key k).defer⟩, h_defer _ _ _ _ _ _ hB hA hP h1 h2⟩
  · intro rem m wm cur queue opens pieces hB ⟨hA, hP⟩ h1
    exact ⟨⟨hA.ok.erase _, fun k => (hA.key k).off h1 hA.ok hB.q_nowait hB.q_nooff⟩,
      h_off _ _ _ _ _ _ _ hB hA hP h1⟩
  · intro rem m wm cur queue opens pieces hB ⟨hA, hP⟩ h1 h2 h3 h4
    exact ⟨⟨hA.ok, fun k => (hA.key k).fit h1 h4⟩, h_fit _ _ _ _ _ _ _ hB hA hP h1 h2 h3 h4⟩
  · intro rem m wm cur queue opens pieces hB ⟨hA, hP⟩ h1 h2
    exact h_split _ _ _ _ _ _ _ hB hA hP h1 h2

theorem wf_iff (l : List Msg) : WF l ↔ ∀ k, altRun k false l = some false := by
  simp only [WF, altFrom_iff]

theorem AltO.wf {s : SplitSt} (h : AltO s) : WF s.wm := by
  rw [wf_iff]
  intro k
  rcases (h.key k).2 with ⟨_, h2⟩ | ⟨_, h2⟩
  · exact h2
  · exact staleOK_alt k _ h2

/-! ### notes through one run of the inner loop -/

theorem Dp_move_off (k : Int × Int) (t b : Int) (q w : List Msg) (m : Msg) (d : Nat)
    (hq : ∀ x ∈ q, x.ty ≠ .wait) (hm : m.ty ≠ .wait) (hk : m.nkey = k → ∀ x ∈ q, ¬ Kev k x) :
    Dp k t b (m :: (q ++ w)) d = Dp k t b (q ++ m :: w) d := by
  have e1 : m :: (q ++ w) = [m] ++ (q ++ w) := rfl
  have e2 : m :: w = [m] ++ w := rfl
  have hm1 : ∀ x ∈ [m], x.ty ≠ .wait := by simpa using hm
  rw [e1, Dp_append, Dp_append, Dp_append, e2, Dp_append, totalWait_nowait q hq, totalWait_nowait [m] hm1]
  simp only [Int.add_zero]
  congr 1
  by_cases hmk : Kev k m
  · have := hk hmk.1
    rw [Dp_nowait_skip k t b q _ hq this, Dp_nowait_skip k t b q _ hq this]
  · have hs : ∀ x ∈ [m], ¬ Kev k x := by simpa using hmk
    rw [Dp_nowait_skip k t b [m] _ hm1 hs, Dp_nowait_skip k t b [m] _ hm1 hs]

theorem Dp_move_wait (k : Int × Int) (t b : Int) (q w : List Msg) (m : Msg) (d : Nat)
    (hq : ∀ x ∈ q, x.ty ≠ .wait) (hm : m.ty = .wait) (h0 : q ≠ [] → m.time = 0) :
    Dp k t b (m :: (q ++ w)) d = Dp k t b (q ++ m :: w) d := by
  rw [Dp_cons_wait k t b m _ d hm, Dp_append, Dp_append, totalWait_nowait q hq, Dp_cons_wait k t _ m _ _ hm]
  by_cases hqe : q = []
  · subst hqe; simp [Dp_nil]
  · rw [h0 hqe]; simp

def NotesQ (k : Int × Int) (t A : Int) (wm0 : List Msg) (pieces0 : List (List Msg)) (s' : SplitSt) : Prop :=
  AltO s' ∧ ∃ np : List (List Msg), s'.pieces = np ++ pieces0 ∧ np.length ≤ 1 ∧ (∀ p ∈ np, WF p) ∧
    ∀ d, Dp k t A (np.flatten ++ s'.wm) d = Dp k t A wm0 d

theorem splitInner_notes (k : Int × Int) (t c A : Int) (hc : 0 < c) (fuel : Nat) (s s' : SplitSt)
    (hcur : s.cur = []) (hq : s.queue = []) (hw : NonNegWaits s.wm) (hA : AltO s)
    (h : splitInner fuel c s = .ok s') : NotesQ k t A s.wm s.pieces s' := by
  refine splitInner_invBA c
    (fun _ s0 => s0.pieces = s.pieces
      ∧ ∀ d, Dp k t A (s0.cur.reverse ++ (s0.queue.reverse ++ s0.wm)) d = Dp k t A s.wm d)
    (NotesQ k t A s.wm s.pieces) ?_ ?_ ?_ ?_ ?_ ?_ fuel c s s' (base_init c hc s hcur hq hw)
    ⟨hA.ok, fun k => KeyInv.init hc hcur hq (hA.key k)⟩
    ⟨rfl, by simp [hcur, hq]⟩ h
  · -- end of input
    intro rem cur queue opens pieces hB hA ⟨hp, hD⟩
    simp only [List.append_nil] at hp hD
    have hfl : (if cur = [] then [] else [cur.reverse]).flatten = cur.reverse := by
      split
      · rename_i h0; simp [h0]
      · simp
    have hex := fun k => (hA.key k).nil_exit hB.q_nooff
    refine ⟨⟨hA.ok, ?_⟩, (if cur = [] then [] else [cur.reverse]), ?_, ?_, ?_, ?_⟩
    · intro k'
      exact ⟨trivial, Or.inl ⟨(hex k').2.2, rfl⟩⟩
    · simp only [hp]; split <;> simp
    · split <;> simp
    · intro p hp
      split at hp
      · simp at hp
      · simp only [List.mem_singleton] at hp
        subst hp
        rw [wf_iff]; exact fun k' => (hex k').1
    · intro d
      rw [hfl, ← hD d, List.append_nil, Dp_append k t A cur.reverse queue.reverse,
        Dp_nowait_skip k t _ queue.reverse _ (by simpa using hB.q_nowait) (by simpa using (hex k).2.1)]
  · -- push
    intro rem m wm cur opens pieces hB hA ⟨hp, hD⟩ _ _ _
    exact ⟨hp, by simpa using hD⟩
  · -- defer
    intro m wm cur queue opens pieces hB hA ⟨hp, hD⟩ _ _
    exact ⟨hp, by simpa using hD⟩
  · -- note-off
    intro rem m wm cur queue opens pieces hB hA ⟨hp, hD⟩ hm
    refine ⟨hp, ?_⟩
    intro d
    rw [← hD d]
    simp only [List.reverse_cons, List.append_assoc, List.singleton_append]
    rw [Dp_append, Dp_append k t A cur.reverse]
    apply Dp_move_off k t _ _ _ m _ (by simpa using hB.q_nowait) (by simp [hm])
    intro hk x hx
    have hz := (hA.key k).1
    simp only at hz
    have := zl_queue_noon k _ _ _ m (by simpa using hB.q_nowait) ⟨hk, hm⟩ hz x hx
    exact not_kev_of this (fun h => hB.q_nooff x (by simpa using hx) h.2)
  · -- wait that fits
    intro rem m wm cur queue opens pieces hB hA ⟨hp, hD⟩ hm _ _ h0
    refine ⟨hp, ?_⟩
    intro d
    rw [← hD d]
    simp only [List.reverse_cons, List.append_assoc, List.singleton_append]
    rw [Dp_append, Dp_append k t A cur.reverse]
    exact Dp_move_wait k t _ _ _ m _ (by simpa using hB.q_nowait) hm (by simpa using h0)
  · -- wait that does not fit
    intro rem m wm cur queue opens pieces hB hA ⟨hp, hD⟩ hm hr
    simp only at hp hD
    have hqnw : ∀ x ∈ queue.reverse, x.ty ≠ .wait := by simpa using hB.q_nowait
    have hqw := totalWait_nowait queue.reverse hqnw
    have hoff := totalWait_nowait _ (map_offOf_nowait opens)
    have hon := totalWait_nowait _ (map_onOf_nowait opens)
    have htc := hB.tw_cur
    have hr0 := hB.rem_nonneg
    simp only at htc
    have hcp : totalWait (closedPiece rem m cur opens) = c := by
      unfold closedPiece
      rw [totalWait_append, totalWait_append, hoff, totalWait_reverse]
      split
      · simp [totalWait_mkWait, totalWait_nil]; omega
      · simp [totalWait_nil]; omega
    have hne : closedPiece rem m cur opens ≠ [] := by
      intro h0; rw [h0] at hcp; simp [totalWait] at hcp; omega
    have hex := fun k => (hA.key k).split_exit hm hr hr0 hA.ok hB.q_nowait hB.q_nooff
      (if closedPiece rem m cur opens = [] then pieces else closedPiece rem m cur opens :: pieces)
    refine ⟨⟨hA.ok, fun k' => (hex k').2.1⟩, [closedPiece rem m cur opens], by simp [hne, hp], by simp, ?_, ?_⟩
    · intro p hp
      simp only [List.mem_singleton] at hp
      subst hp
      rw [wf_iff]; exact fun k' => (hex k').1
    · intro d
      rw [← hD d]
      simp only [List.flatten_cons, List.flatten_nil, List.append_nil]
      unfold closedPiece carried
      simp only [List.append_assoc]
      rw [Dp_append, Dp_append k t A cur.reverse]
      generalize hd1 : Dp k t A cur.reverse d = d1
      -- the clock after the inserted wait
      have hclock : ∀ l x, Dp k t (A + totalWait cur.reverse)
            ((if 0 < rem then [Msg.mkWait m.ch rem] else []) ++ l) x
          = Dp k t (A + totalWait cur.reverse + rem) l x := by
        intro l x
        split
        · simp [Dp_mkWait]
        · simp only [List.nil_append]; congr 1; omega
      rw [hclock, Dp_append, hoff, Dp_append, hqw, Dp_append, hon, Dp_mkWait,
        Dp_append k t _ queue.reverse, hqw, Dp_cons_wait k t _ m wm _ hm]
      simp only [Int.add_zero]
      rw [show A + totalWait cur.reverse + rem + (m.time - rem) = A + totalWait cur.reverse + m.time by omega]
      congr 1
      -- the queue sits on the boundary tick
      have hQ : ∀ x, Dp k t (A + totalWait cur.reverse) queue.reverse x
          = Dp k t (A + totalWait cur.reverse + rem) queue.reverse x := by
        intro x
        by_cases hqe : queue = []
        · subst hqe; simp [Dp_nil]
        · rw [hB.q_rem hqe]; simp
      rw [hQ]
      by_cases hlate : t < A + totalWait cur.reverse + rem
      · rw [Dp_nowait_late k t _ _ _ (map_onOf_nowait opens) hlate,
          Dp_nowait_late k t _ _ _ (map_offOf_nowait opens) hlate]
      · have hearly : A + totalWait cur.reverse + rem ≤ t := by omega
        rw [Dp_nowait_early k t _ _ _ (map_onOf_nowait opens) hearly,
          Dp_nowait_early k t _ _ _ (map_offOf_nowait opens) hearly,
          depth_ons k opens hA.ok, depth_offs k opens hA.ok]
        by_cases hk : k ∈ keys opens
        · simp only [hk, if_true]
          have hqk : ∀ x ∈ queue.reverse, ¬ Kev k x := by simpa using (hex k).2.2.1 hk
          rw [Dp_nowait_skip k t _ _ _ hqnw hqk, Dp_nowait_skip k t _ _ _ hqnw hqk]
          have hck := (hex k).2.2.2
          simp only [hk, decide_true] at hck
          have hnn : NonNegWaits cur.reverse := by
            intro x hx; exact hB.nnc x (by simpa using hx)
          rw [Dp_eq_depth k t A cur.reverse d hnn (by omega)] at hd1
          have := depth_alt k A cur.reverse false true d hck
          simp only [Bool.toNat_false, Bool.toNat_true, Nat.add_zero] at this
          omega
        · simp only [hk, if_false]

/-! ### notes through the outer loop -/

theorem splitOuter_notes (k : Int × Int) (t : Int) : ∀ caps A (s s' : SplitSt), (∀ c ∈ caps, 0 < c) →
    s.cur = [] → NonNegWaits s.wm → AltO s → splitOuter caps s = .ok s' →
    s'.cur = [] ∧ AltO s' ∧ ∃ new : List (List Msg), s'.pieces = new.reverse ++ s.pieces ∧ (∀ p ∈ new, WF p) ∧
      ∀ d, Dp k t A (new.flatten ++ s'.wm) d = Dp k t A s.wm d := by
  intro caps
  induction caps with
  | nil =>
    intro A s s' _ hc _ hA h
    simp only [splitOuter, Except.ok.injEq] at h
    subst h
    exact ⟨hc, hA, [], by simp, by simp, by simp⟩
  | cons c cs ih =>
    intro A s s' hpos hc hw hA h
    simp only [splitOuter, bind, Except.bind] at h
    split at h
    · simp at h
    · rename_i s1 h1
      have hcp : 0 < c := hpos c List.mem_cons_self
      obtain ⟨hc1, hq1, hw1, _⟩ := splitInner_timing c A hcp _ { s with queue := [] } s1 hc rfl hw h1
      obtain ⟨hA1, np, hp1, hl1, hwf1, hD1⟩ :=
        splitInner_notes k t c A hcp _ { s with queue := [] } s1 hc rfl hw ⟨hA.ok, hA.key⟩ h1
      simp only at hp1 hD1
      obtain ⟨hc2, hA2, new, hp2, hwf2, hD2⟩ := ih (A + totalWait np.flatten) s1 s'
        (fun x hx => hpos x (List.mem_cons_of_mem _ hx)) hc1 hw1 hA1 h
      refine ⟨hc2, hA2, np ++ new, ?_, ?_, ?_⟩
      · rw [hp2, hp1, List.reverse_append, reverse_short np hl1]; simp
      · intro p hp
        rcases List.mem_append.1 hp with hp | hp
        · exact hwf1 p hp
        · exact hwf2 p hp
      · intro d
        simp only [List.flatten_append, List.append_assoc]
        rw [Dp_append, hD2, ← Dp_append, hD1]

theorem AltO.init (r : List Msg) (hwf : WF r) (hz : NoZeroNotes r) : AltO { wm := r } := by
  refine ⟨⟨by simp [keys], by simp⟩, ?_⟩
  intro k
  exact ⟨hz k, Or.inl ⟨by simp [keys], (wf_iff r).1 hwf k⟩⟩

/-! ### deciding `WF` and `NoZeroNotes` on concrete lists -/

theorem zl_skip (k : Int × Int) (f : Bool) (l : List Msg) (h : ∀ x ∈ l, ¬ Kev k x) : zl k f l := by
  induction l generalizing f with
  | nil => trivial
  | cons m ms ih =>
    have h' : ∀ x ∈ ms, ¬ Kev k x := fun x hx => h x (List.mem_cons_of_mem _ hx)
    by_cases hw : m.ty = .wait
    · rw [zl_cons_wait k _ m ms hw]; exact ih _ h'
    · rw [zl_cons_skip k _ m ms hw (h m List.mem_cons_self)]; exact ih _ h'

theorem not_kev_of_not_mem (k : Int × Int) (l : List Msg) (h : k ∉ l.map Msg.nkey) : ∀ x ∈ l, ¬ Kev k x := by
  intro x hx hk
  apply h
  rw [← hk.1]
  exact List.mem_map_of_mem hx

/-- only the keys that occur matter -/
theorem wf_of_keys (l : List Msg) (h : ∀ k ∈ l.map Msg.nkey, altRun k false l = some false) : WF l := by
  rw [wf_iff]
  intro k
  by_cases hk : k ∈ l.map Msg.nkey
  · exact h k hk
  · exact altRun_skip k false l (not_kev_of_not_mem k l hk)

theorem noZero_of_keys (l : List Msg) (h : ∀ k ∈ l.map Msg.nkey, zl k false l) : NoZeroNotes l := by
  intro k
  by_cases hk : k ∈ l.map Msg.nkey
  · exact h k hk
  · exact zl_skip k false l (not_kev_of_not_mem k l hk)

instance zlDec (k : Int × Int) : ∀ (f : Bool) (l : List Msg), Decidable (zl k f l)
  | _, [] => isTrue trivial
  | f, m :: ms =>
    if hw : m.ty = .wait then
      @decidable_of_iff _ _ (zl_cons_wait k f m ms hw).symm (zlDec k _ ms)
    else if hon : m.nkey = k ∧ m.ty = .noteOn then
      @decidable_of_iff _ _ (zl_cons_on k f m ms hon).symm (zlDec k _ ms)
    else if hoff : m.nkey = k ∧ m.ty = .noteOff then
      @decidable_of_iff _ _ (zl_cons_off k f m ms hoff).symm (@instDecidableAnd _ _ _ (zlDec k _ ms))
    else
      @decidable_of_iff _ _ (zl_cons_skip k f m ms hw (not_kev_of hon hoff)).symm (zlDec k _ ms)

end SCoda.SplitL
