/-
  Facts about the Python built-ins of Model/TokLib2.lean (`set(l)` ↦ `pySetInt`, `sorted(s)` ↦ `pySortedInt`) and of
  `list.sort()` ↦ `pySortInt` (Model/TokLib.lean), used by Props/TokTie.lean (`tokInit_nodup`): the specification of
  `sorted(set(l))` on ints, written independently of the two functions:

      the result is strictly ascending (so duplicate free), and it has exactly the elements of `l`.

  Core Lean only.
-/
import SCoda.Model.TokLib2
namespace SCoda.TokLib2L
open SCoda SCoda.TokLib

/-! ### `set(l)` -/

theorem mem_pySetInt (l : List Int) (a : Int) : a ∈ pySetInt l ↔ a ∈ l := by
  induction l with
  | nil => simp [pySetInt]
  | cons x xs ih =>
    unfold pySetInt
    by_cases h : (pySetInt xs).contains x = true
    · rw [if_pos h]
      have hx : x ∈ pySetInt xs := List.contains_iff_mem.1 h
      constructor
      · intro ha; exact List.mem_cons_of_mem _ (ih.1 ha)
      · intro ha
        rcases List.mem_cons.1 ha with rfl | ha
        · exact hx
        · exact ih.2 ha
    · rw [if_neg h]
      simp only [List.mem_cons, ih]

/-- a set holds every element once -/
theorem pySetInt_nodup (l : List Int) : (pySetInt l).Nodup := by
  induction l with
  | nil => simp [pySetInt]
  | cons x xs ih =>
    unfold pySetInt
    by_cases h : (pySetInt xs).contains x = true
    · rw [if_pos h]; exact ih
    · rw [if_neg h]
      exact List.nodup_cons.2 ⟨fun hm => h (List.contains_iff_mem.2 hm), ih⟩

/-- on a duplicate-free list `set` keeps everything, in order (the representation; a Python set has no order) -/
theorem pySetInt_of_nodup (l : List Int) (h : l.Nodup) : pySetInt l = l := by
  induction l with
  | nil => rfl
  | cons x xs ih =>
    have hx := List.nodup_cons.1 h
    unfold pySetInt
    rw [ih hx.2, if_neg (fun hc => hx.1 (List.contains_iff_mem.1 hc))]

/-! ### `list.sort()` / `sorted(s)`: the insertion sort -/

theorem insertInt_perm (x : Int) (l : List Int) : (insertInt x l).Perm (x :: l) := by
  induction l with
  | nil => exact List.Perm.refl _
  | cons y ys ih =>
    unfold insertInt
    by_cases h : x < y
    · rw [if_pos h]
    · rw [if_neg h]
      exact (List.Perm.cons y ih).trans (List.Perm.swap x y ys)

theorem foldl_insertInt_perm (l acc : List Int) :
    (l.foldl (fun acc x => insertInt x acc) acc).Perm (l ++ acc) := by
  induction l generalizing acc with
  | nil => exact List.Perm.refl _
  | cons x xs ih =>
    rw [List.foldl_cons]
    refine (ih (insertInt x acc)).trans ?_
    refine (List.Perm.append_left xs (insertInt_perm x acc)).trans ?_
    exact List.perm_middle

/-- sorting rearranges: same elements, same multiplicities -/
theorem pySortInt_perm (l : List Int) : (pySortInt l).Perm l := by
  have := foldl_insertInt_perm l []
  rwa [List.append_nil] at this

theorem mem_insertInt (x a : Int) (l : List Int) : a ∈ insertInt x l ↔ a = x ∨ a ∈ l := by
  rw [(insertInt_perm x l).mem_iff, List.mem_cons]

theorem insertInt_sorted (x : Int) (l : List Int) (h : l.Pairwise (· ≤ ·)) : (insertInt x l).Pairwise (· ≤ ·) := by
  induction l with
  | nil => simp [insertInt]
  | cons y ys ih =>
    have hy := List.pairwise_cons.1 h
    unfold insertInt
    by_cases hxy : x < y
    · rw [if_pos hxy]
      refine List.pairwise_cons.2 ⟨?_, h⟩
      intro a ha
      rcases List.mem_cons.1 ha with rfl | ha
      · omega
      · have := hy.1 a ha; omega
    · rw [if_neg hxy]
      refine List.pairwise_cons.2 ⟨?_, ih hy.2⟩
      intro a ha
      rcases (mem_insertInt x a ys).1 ha with rfl | ha
      · omega
      · exact hy.1 a ha

theorem foldl_insertInt_sorted (l acc : List Int) (h : acc.Pairwise (· ≤ ·)) :
    (l.foldl (fun acc x => insertInt x acc) acc).Pairwise (· ≤ ·) := by
  induction l generalizing acc with
  | nil => exact h
  | cons x xs ih => exact ih _ (insertInt_sorted x acc h)

/-- the result of a sort is ascending -/
theorem pySortInt_sorted (l : List Int) : (pySortInt l).Pairwise (· ≤ ·) :=
  foldl_insertInt_sorted l [] List.Pairwise.nil

theorem pySortInt_nodup (l : List Int) (h : l.Nodup) : (pySortInt l).Nodup :=
  (pySortInt_perm l).nodup_iff.2 h

theorem pairwise_lt_of_le_nodup (l : List Int) (hs : l.Pairwise (· ≤ ·)) (hn : l.Nodup) : l.Pairwise (· < ·) := by
  induction l with
  | nil => exact List.Pairwise.nil
  | cons x xs ih =>
    have h1 := List.pairwise_cons.1 hs
    have h2 := List.nodup_cons.1 hn
    refine List.pairwise_cons.2 ⟨?_, ih h1.2 h2.2⟩
    intro a ha
    have hle := h1.1 a ha
    have hne : x ≠ a := fun e => h2.1 (e ▸ ha)
    omega

/-! ### `sorted(set(l))` -/

/-- `sorted(set(l))` has exactly the elements of `l` -/
theorem mem_sorted_set (l : List Int) (a : Int) : a ∈ pySortedInt (pySetInt l) ↔ a ∈ l := by
  unfold pySortedInt
  rw [(pySortInt_perm _).mem_iff, mem_pySetInt]

/-- `sorted(set(l))` is strictly ascending -/
theorem sorted_set_strict (l : List Int) : (pySortedInt (pySetInt l)).Pairwise (· < ·) :=
  pairwise_lt_of_le_nodup _ (pySortInt_sorted _) (pySortInt_nodup _ (pySetInt_nodup l))

/-- `sorted(set(l))` holds every element once -/
theorem sorted_set_nodup (l : List Int) : (pySortedInt (pySetInt l)).Nodup :=
  pySortInt_nodup _ (pySetInt_nodup l)

/-- two strictly ascending lists with the same elements are equal: the two facts above determine `sorted(set(l))`, and in
    particular the result does not depend on the order in which the set hands its elements to `sorted` -/
theorem strict_ext (l₁ l₂ : List Int) (h₁ : l₁.Pairwise (· < ·)) (h₂ : l₂.Pairwise (· < ·))
    (hm : ∀ a, a ∈ l₁ ↔ a ∈ l₂) : l₁ = l₂ := by
  induction l₁ generalizing l₂ with
  | nil =>
    cases l₂ with
    | nil => rfl
    | cons y ys => exact absurd ((hm y).2 (List.mem_cons_self ..)) (by simp)
  | cons x xs ih =>
    cases l₂ with
    | nil => exact absurd ((hm x).1 (List.mem_cons_self ..)) (by simp)
    | cons y ys =>
      have p1 := List.pairwise_cons.1 h₁
      have p2 := List.pairwise_cons.1 h₂
      have hxy : x = y := by
        have hx := (hm x).1 (List.mem_cons_self ..)
        have hy := (hm y).2 (List.mem_cons_self ..)
        rcases List.mem_cons.1 hx with e | hx'
        · exact e
        · rcases List.mem_cons.1 hy with e | hy'
          · exact e.symm
          · have := p2.1 x hx'; have := p1.1 y hy'; omega
      subst hxy
      congr 1
      refine ih ys p1.2 p2.2 ?_
      intro a
      constructor
      · intro ha
        rcases List.mem_cons.1 ((hm a).1 (List.mem_cons_of_mem _ ha)) with e | h
        · have := p1.1 a ha; omega
        · exact h
      · intro ha
        rcases List.mem_cons.1 ((hm a).2 (List.mem_cons_of_mem _ ha)) with e | h
        · have := p2.1 a ha; omega
        · exact h

/-- the order of the set's elements is irrelevant to `sorted`: any arrangement of the same distinct elements sorts to the same list -/
theorem pySortedInt_perm (s₁ s₂ : List Int) (h : s₁.Perm s₂) (hn : s₁.Nodup) : pySortedInt s₁ = pySortedInt s₂ := by
  unfold pySortedInt
  refine strict_ext _ _ (pairwise_lt_of_le_nodup _ (pySortInt_sorted _) (pySortInt_nodup _ hn))
    (pairwise_lt_of_le_nodup _ (pySortInt_sorted _) (pySortInt_nodup _ (h.nodup_iff.1 hn))) ?_
  intro a
  rw [(pySortInt_perm _).mem_iff, (pySortInt_perm _).mem_iff, h.mem_iff]

/-- on input that is already duplicate free the repaired constructor stores what the old one (`l.sort()`) stored -/
theorem sorted_set_of_nodup (l : List Int) (h : l.Nodup) : pySortedInt (pySetInt l) = pySortInt l := by
  rw [pySetInt_of_nodup l h]; rfl

end SCoda.TokLib2L
