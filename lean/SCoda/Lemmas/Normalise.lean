/-
  Fold invariants of `normalise` (the model of `normalise_relative`).
-/
import SCoda.Lemmas.Conv
import SCoda.Model.Normalise
set_option linter.unusedSimpArgs false
namespace SCoda

/-! ### association lists -/
namespace Assoc
variable {κ ν : Type} [DecidableEq κ]

theorem get?_set (d : Assoc κ ν) (k q : κ) (v : ν) :
    get? (set d k v) q = if k = q then some v else get? d q := by
  induction d with
  | nil => simp [set, get?]
  | cons a d ih =>
    obtain ⟨a, w⟩ := a
    simp only [set]
    by_cases h : a = k
    · subst h
      by_cases hq : a = q <;> simp [get?, hq]
    · by_cases hq : a = q
      · subst hq
        simp [get?, h]
        intro h'; exact absurd h'.symm h
      · simp [get?, h, hq, ih]

theorem keys_set (d : Assoc κ ν) (k : κ) (v : ν) :
    (set d k v).map Prod.fst = if get? d k = none then d.map Prod.fst ++ [k] else d.map Prod.fst := by
  induction d with
  | nil => simp [set, get?]
  | cons a d ih =>
    obtain ⟨a, w⟩ := a
    by_cases h : a = k
    · simp [set, get?, h]
    · simp only [set, h, if_false, List.map_cons, ih, get?]
      split <;> simp

theorem get?_eq_none_iff (d : Assoc κ ν) (k : κ) : get? d k = none ↔ k ∉ d.map Prod.fst := by
  induction d with
  | nil => simp [get?]
  | cons a d ih =>
    obtain ⟨a, w⟩ := a
    by_cases h : a = k
    · simp [get?, h]
    · simp only [get?, h, if_false, ih, List.map_cons, List.mem_cons, not_or]
      constructor
      · intro h'; exact ⟨fun e => h e.symm, h'⟩
      · intro h'; exact h'.2

theorem nodup_set (d : Assoc κ ν) (k : κ) (v : ν) (h : (d.map Prod.fst).Nodup) :
    ((set d k v).map Prod.fst).Nodup := by
  rw [keys_set]
  split
  · rename_i hn
    rw [get?_eq_none_iff] at hn
    rw [List.nodup_append]
    refine ⟨h, by simp, ?_⟩
    intro a ha b hb
    simp at hb; subst hb
    intro hab; subst hab; exact hn ha
  · exact h

theorem get?_of_mem (d : Assoc κ ν) (h : (d.map Prod.fst).Nodup) (k : κ) (v : ν)
    (hm : (k, v) ∈ d) : get? d k = some v := by
  induction d with
  | nil => simp at hm
  | cons a d ih =>
    obtain ⟨a, w⟩ := a
    simp only [List.map_cons, List.nodup_cons] at h
    rcases List.mem_cons.1 hm with heq | hm
    · cases heq; simp [get?]
    · by_cases hak : a = k
      · subst hak
        exact absurd (List.mem_map.2 ⟨(a, v), hm, rfl⟩) h.1
      · simp [get?, hak, ih h.2 hm]

theorem mem_of_get? (d : Assoc κ ν) (k : κ) (v : ν) (h : get? d k = some v) : (k, v) ∈ d := by
  induction d with
  | nil => simp [get?] at h
  | cons a d ih =>
    obtain ⟨a, w⟩ := a
    by_cases hak : a = k
    · subst hak; simp [get?] at h; simp [h]
    · simp [get?, hak] at h; simp [ih h]

end Assoc

/-! ### one step of the fold, field by field -/

/-- the stack of open note-on indices of key `k` -/
def NormSt.stk (s : NormSt) (k : Int × Int) : List Nat := (s.opens.get? k).getD []
/-- the output so far, in order -/
def NormSt.O (s : NormSt) : List (Option Nat × Msg) := s.out.reverse

/-- is the message kept by this step? -/
def keep (s : NormSt) (m : Msg) : Bool :=
  match m.ty with
  | .wait => false
  | .noteOn => (s.stk m.nkey).length == 0
  | .noteOff => (s.stk m.nkey).length == 1
  | .timeSignature => m.num != s.tsNum || m.den != s.tsDen
  | .keySignature => m.key != s.key
  | _ => true

def flushL (s : NormSt) (c : Int) : List (Option Nat × Msg) :=
  if s.wbuf > 0 then [(none, Msg.mkWait c s.wbuf)] else []

theorem dropLast_length_zero (l : List Nat) : (l.dropLast.length = 0) ↔ (l.length = 0 ∨ l.length = 1) := by
  rw [List.length_dropLast]; omega

/-- `normStep` in field-by-field form -/
def normStep' (s : NormSt) (m : Msg) : NormSt :=
  { idx := s.idx + 1
    opens := match m.ty with
      | .noteOn => s.opens.set m.nkey (s.stk m.nkey ++ [s.idx])
      | .noteOff => if (s.stk m.nkey).length = 0 then s.opens else s.opens.set m.nkey (s.stk m.nkey).dropLast
      | _ => s.opens
    wbuf := if m.ty = .wait then s.wbuf + m.time else if keep s m = true ∧ s.wbuf > 0 then 0 else s.wbuf
    tsNum := if m.ty = .timeSignature then m.num else s.tsNum
    tsDen := if m.ty = .timeSignature then m.den else s.tsDen
    key := if m.ty = .keySignature then m.key else s.key
    defCh := match s.defCh with | some c => some c | none => some m.ch
    out := if keep s m = true then
        (some s.idx, m) :: (if s.wbuf > 0 then (none, Msg.mkWait m.ch s.wbuf) :: s.out else s.out)
      else s.out }

theorem normStep_eq (s : NormSt) (m : Msg) : normStep s m = normStep' s m := by
  unfold normStep normStep'
  cases h : m.ty <;> simp [NormSt.emit, keep, h, NormSt.stk]
  all_goals (try rfl)
  all_goals (generalize (s.opens.get? m.nkey).getD [] = L)
  all_goals (try (split <;> simp_all))
  all_goals (try rfl)
  rcases L with _ | ⟨a, _ | ⟨b, l⟩⟩ <;> simp <;> rfl

theorem step_idx (s : NormSt) (m : Msg) : (normStep s m).idx = s.idx + 1 := by
  rw [normStep_eq]; rfl

theorem step_O (s : NormSt) (m : Msg) :
    (normStep s m).O = s.O ++ (if keep s m = true then flushL s m.ch ++ [(some s.idx, m)] else []) := by
  rw [normStep_eq]
  simp only [normStep', NormSt.O, flushL]
  split
  · split <;> simp
  · simp

theorem step_wbuf (s : NormSt) (m : Msg) :
    (normStep s m).wbuf =
      if m.ty = .wait then s.wbuf + m.time else if keep s m = true ∧ s.wbuf > 0 then 0 else s.wbuf := by
  rw [normStep_eq]; rfl

theorem step_ts (s : NormSt) (m : Msg) :
    ((normStep s m).tsNum, (normStep s m).tsDen) =
      if m.ty = .timeSignature then (m.num, m.den) else (s.tsNum, s.tsDen) := by
  rw [normStep_eq]; simp only [normStep']; split <;> rfl

theorem step_key (s : NormSt) (m : Msg) :
    (normStep s m).key = if m.ty = .keySignature then m.key else s.key := by
  rw [normStep_eq]; rfl

theorem step_stk (s : NormSt) (m : Msg) (k : Int × Int) :
    (normStep s m).stk k =
      if m.nkey = k then
        (if m.ty = .noteOn then s.stk k ++ [s.idx]
         else if m.ty = .noteOff then (s.stk k).dropLast else s.stk k)
      else s.stk k := by
  rw [normStep_eq]
  simp only [normStep', NormSt.stk]
  cases h : m.ty <;> simp [Assoc.get?_set]
  · split
    · by_cases hk : m.nkey = k
      · subst hk; simp_all
      · simp [hk]
    · by_cases hk : m.nkey = k <;> simp [hk, Assoc.get?_set]
  · by_cases hk : m.nkey = k <;> simp [hk]

theorem step_nodup (s : NormSt) (m : Msg) (h : (s.opens.map Prod.fst).Nodup) :
    ((normStep s m).opens.map Prod.fst).Nodup := by
  rw [normStep_eq]
  simp only [normStep']
  cases hm : m.ty <;> simp only [] <;> (try split) <;> first | exact h | exact Assoc.nodup_set _ _ _ h

theorem keep_not_wait (s : NormSt) (m : Msg) (h : keep s m = true) : m.ty ≠ .wait := by
  intro hw; simp [keep, hw] at h

/-! ### the generic fold-invariant principle -/

theorem fold_inv (Inv : List Msg → List Msg → NormSt → Prop)
    (hstep : ∀ pre m post s, Inv pre (m :: post) s → Inv (pre ++ [m]) post (normStep s m)) :
    ∀ post pre s, Inv pre post s → Inv (pre ++ post) [] (post.foldl normStep s) := by
  intro post
  induction post with
  | nil => intro pre s h; simpa using h
  | cons m post ih =>
    intro pre s h
    have := ih (pre ++ [m]) (normStep s m) (hstep pre m post s h)
    simpa using this

theorem init_O : ({} : NormSt).O = [] := rfl
theorem init_stk (k : Int × Int) : ({} : NormSt).stk k = [] := rfl

/-! ### basic invariant: shape of the entries, index bookkeeping -/

structure InvA (pre : List Msg) (s : NormSt) : Prop where
  ent : ∀ e ∈ s.O, (e.1 = none ∧ e.2.ty = .wait ∧ 0 < e.2.time) ∨
      (∃ i, e.1 = some i ∧ i < s.idx ∧ e.2.ty ≠ .wait ∧ e.2 ∈ pre)
  nd : (s.opens.map Prod.fst).Nodup
  lt : ∀ k, ∀ i ∈ s.stk k, i < s.idx
  own : ∀ e ∈ s.O, ∀ i k, e.1 = some i → i ∈ s.stk k →
      e.2.nkey = k ∧ e.2.ty = .noteOn ∧ (s.stk k).head? = some i

theorem invA_init : InvA [] {} := by
  refine ⟨?_, ?_, ?_, ?_⟩
  · intro e he; simp [init_O] at he
  · simp
  · intro k i hi; simp [init_stk] at hi
  · intro e he; simp [init_O] at he

theorem mem_dropLast {α} (l : List α) (x : α) (h : x ∈ l.dropLast) : x ∈ l :=
  List.dropLast_subset l h

theorem head?_dropLast {α} (l : List α) (h : l.dropLast ≠ []) : l.dropLast.head? = l.head? := by
  rcases l with _ | ⟨a, _ | ⟨b, l⟩⟩ <;> simp_all

theorem stk_cases (s : NormSt) (m : Msg) (k : Int × Int) :
    (m.nkey = k ∧ m.ty = .noteOn ∧ (normStep s m).stk k = s.stk k ++ [s.idx]) ∨
    (m.nkey = k ∧ m.ty = .noteOff ∧ (normStep s m).stk k = (s.stk k).dropLast) ∨
    (¬ (m.nkey = k ∧ (m.ty = .noteOn ∨ m.ty = .noteOff)) ∧ (normStep s m).stk k = s.stk k) := by
  rw [step_stk]
  by_cases hk : m.nkey = k
  · by_cases hon : m.ty = .noteOn
    · simp [hk, hon]
    · by_cases hoff : m.ty = .noteOff
      · simp [hk, hoff]
      · simp [hk, hon, hoff]
  · simp [hk]

theorem flushL_fst (s : NormSt) (c : Int) (e : Option Nat × Msg) (h : e ∈ flushL s c) : e.1 = none := by
  simp only [flushL] at h
  split at h
  · simp at h; subst h; rfl
  · simp at h

theorem old_lt {pre : List Msg} {s : NormSt}
    (ent : ∀ e ∈ s.O, (e.1 = none ∧ e.2.ty = .wait ∧ 0 < e.2.time) ∨
      (∃ i, e.1 = some i ∧ i < s.idx ∧ e.2.ty ≠ .wait ∧ e.2 ∈ pre))
    (e : Option Nat × Msg) (he : e ∈ s.O) (i : Nat) (hi : e.1 = some i) : i < s.idx := by
  rcases ent e he with h1 | ⟨j, h1, h2, _⟩
  · rw [h1.1] at hi; cases hi
  · rw [h1] at hi; cases hi; exact h2

theorem invA_step (pre : List Msg) (s : NormSt) (m : Msg) (h : InvA pre s) :
    InvA (pre ++ [m]) (normStep s m) := by
  obtain ⟨ent, nd, lt, own⟩ := h
  have lt' : ∀ k, ∀ i ∈ (normStep s m).stk k, i < s.idx + 1 := by
    intro k i hi
    rw [step_stk] at hi
    split at hi
    · split at hi
      · simp at hi; rcases hi with hi | hi
        · have := lt k i hi; omega
        · omega
      · split at hi
        · have := lt k i (mem_dropLast _ _ hi); omega
        · have := lt k i hi; omega
    · have := lt k i hi; omega
  refine ⟨?_, step_nodup s m nd, ?_, ?_⟩
  · intro e he
    rw [step_O] at he
    rw [step_idx]
    rcases List.mem_append.1 he with he | he
    · rcases ent e he with h1 | ⟨i, h1, h2, h3, h4⟩
      · exact Or.inl h1
      · exact Or.inr ⟨i, h1, by omega, h3, by simp [h4]⟩
    · split at he
      · rename_i hk
        rcases List.mem_append.1 he with he | he
        · simp only [flushL] at he
          split at he
          · simp at he; subst he; left; simp [Msg.mkWait]; omega
          · simp at he
        · simp at he; subst he
          right
          exact ⟨s.idx, rfl, by omega, keep_not_wait s m hk, by simp⟩
      · simp at he
  · rw [step_idx]; exact lt'
  · intro e he i k hi hik
    rw [step_O] at he
    rcases stk_cases s m k with ⟨hmk, hon, hst⟩ | ⟨hmk, hoff, hst⟩ | ⟨_, hst⟩
    all_goals rw [hst] at hik ⊢
    all_goals rcases List.mem_append.1 he with he | he
    · -- old entry, push
      have hlt : i < s.idx := old_lt ent e he i hi
      simp at hik
      rcases hik with hik | hik
      · have := own e he i k hi hik
        refine ⟨this.1, this.2.1, ?_⟩
        rw [List.head?_append, this.2.2]; rfl
      · omega
    · -- new entry, push
      split at he
      · rename_i hk
        rcases List.mem_append.1 he with he | he
        · exact absurd hi (by rw [flushL_fst s _ e he]; simp)
        · simp at he; subst he
          cases hi
          simp [keep, hon, hmk] at hk
          simp [hk]
          exact ⟨hmk, hon⟩
      · simp at he
    · -- old entry, pop
      have := own e he i k hi (mem_dropLast _ _ hik)
      refine ⟨this.1, this.2.1, ?_⟩
      rw [head?_dropLast _ (List.ne_nil_of_mem hik)]
      exact this.2.2
    · split at he
      · rcases List.mem_append.1 he with he | he
        · exact absurd hi (by rw [flushL_fst s _ e he]; simp)
        · simp at he; subst he
          cases hi
          have := lt k _ (mem_dropLast _ _ hik); omega
      · simp at he
    · exact own e he i k hi hik
    · split at he
      · rcases List.mem_append.1 he with he | he
        · exact absurd hi (by rw [flushL_fst s _ e he]; simp)
        · simp at he; subst he
          cases hi
          have := lt k _ hik; omega
      · simp at he

/-! ### the final clean-up in closed form -/

def msgs (L : List (Option Nat × Msg)) : List Msg := L.map Prod.snd

@[simp] theorem msgs_append (a b : List (Option Nat × Msg)) : msgs (a ++ b) = msgs a ++ msgs b := by
  simp [msgs]
@[simp] theorem msgs_nil : msgs [] = [] := rfl
@[simp] theorem msgs_cons (a : Option Nat × Msg) (b : List (Option Nat × Msg)) :
    msgs (a :: b) = a.2 :: msgs b := rfl

def unclosed (s : NormSt) : List Nat := s.opens.flatMap (fun kv => kv.2)

def Q (s : NormSt) (e : Option Nat × Msg) : Bool :=
  match e.1 with | some i => !(unclosed s).contains i | none => true

def flushEnd (s : NormSt) : List (Option Nat × Msg) :=
  if s.wbuf > 0 then [(none, Msg.mkWait (s.defCh.getD 0) s.wbuf)] else []

theorem normalise_eq (r : List Msg) :
    normalise r = msgs (((r.foldl normStep {}).O ++ flushEnd (r.foldl normStep {})).filter
      (Q (r.foldl normStep {}))) := by
  have h : ∀ s : NormSt, (((if s.wbuf > 0 then (none, Msg.mkWait (s.defCh.getD 0) s.wbuf) :: s.out else s.out).reverse.filter
      (fun e => match e.1 with | some i => !(s.opens.flatMap (fun kv => kv.2)).contains i | none => true)).map (·.2))
      = msgs ((s.O ++ flushEnd s).filter (Q s)) := by
    intro s
    have hQ : (fun e : Option Nat × Msg => match e.1 with | some i => !(s.opens.flatMap (fun kv => kv.2)).contains i | none => true) = Q s := by
      funext e; simp only [Q, unclosed]
    rw [hQ]
    simp only [msgs, NormSt.O, flushEnd]
    split <;> simp
  exact h _

theorem mem_unclosed (s : NormSt) (nd : (s.opens.map Prod.fst).Nodup) (i : Nat) :
    i ∈ unclosed s ↔ ∃ k, i ∈ s.stk k := by
  simp only [unclosed, List.mem_flatMap, NormSt.stk]
  constructor
  · rintro ⟨⟨k, v⟩, hkv, hi⟩
    exact ⟨k, by rw [Assoc.get?_of_mem _ nd k v hkv]; exact hi⟩
  · rintro ⟨k, hi⟩
    cases hg : s.opens.get? k with
    | none => simp [hg] at hi
    | some v =>
      rw [hg] at hi
      exact ⟨(k, v), Assoc.mem_of_get? _ _ _ hg, hi⟩

theorem Q_false {pre : List Msg} {s : NormSt} (h : InvA pre s) (e : Option Nat × Msg)
    (he : e ∈ s.O ++ flushEnd s) (hq : Q s e = false) :
    e ∈ s.O ∧ e.2.ty = .noteOn ∧ ∃ i, e.1 = some i ∧ (s.stk e.2.nkey).head? = some i := by
  cases h1 : e.1 with
  | none => simp [Q, h1] at hq
  | some i =>
    simp [Q, h1] at hq
    obtain ⟨k, hk⟩ := (mem_unclosed s h.nd i).1 hq
    rcases List.mem_append.1 he with he | he
    · have := h.own e he i k h1 hk
      refine ⟨he, this.2.1, i, rfl, ?_⟩
      rw [this.1]; exact this.2.2
    · simp only [flushEnd] at he
      split at he
      · simp at he; subst he; simp at h1
      · simp at he

theorem Q_true_of_empty {pre : List Msg} {s : NormSt} (h : InvA pre s) (hs : ∀ k, s.stk k = [])
    (e : Option Nat × Msg) : Q s e = true := by
  cases h1 : e.1 with
  | none => simp [Q, h1]
  | some i =>
    simp only [Q, h1]
    have : i ∉ unclosed s := by
      rw [mem_unclosed s h.nd]
      rintro ⟨k, hk⟩
      simp [hs k] at hk
    simp [this]

theorem Q_of_stk {pre : List Msg} {s : NormSt} (h : InvA pre s) (e : Option Nat × Msg)
    (i : Nat) (k : Int × Int) (hi : e.1 = some i) (hk : i ∈ s.stk k) : Q s e = false := by
  simp only [Q, hi]
  have : i ∈ unclosed s := (mem_unclosed s h.nd i).2 ⟨k, hk⟩
  simp [this]

/-! ### list facts about the `Roll` semantics -/

theorem eventsRelGo_append (a b : List Msg) : ∀ c : Int,
    eventsRelGo c (a ++ b) = eventsRelGo c a ++ eventsRelGo (c + totalWait a) b := by
  induction a with
  | nil => intro c; simp [eventsRelGo, totalWait]
  | cons x xs ih =>
    intro c
    by_cases hw : x.ty = .wait
    · simp [eventsRelGo, totalWait, hw, ih, Int.add_assoc]
    · simp [eventsRelGo, totalWait, hw, ih]

theorem totalWait_nonneg (l : List Msg) (h : NonNegWaits l) : 0 ≤ totalWait l := by
  induction l with
  | nil => simp [totalWait]
  | cons y ys ih =>
    have := ih (fun x hx => h x (List.mem_cons_of_mem _ hx))
    simp only [totalWait]
    split
    · rename_i hyw
      have := h y (by simp) (by simpa using hyw)
      omega
    · omega

theorem nonNegWaits_append {a b : List Msg} : NonNegWaits (a ++ b) ↔ NonNegWaits a ∧ NonNegWaits b := by
  simp only [NonNegWaits, List.mem_append]
  constructor
  · intro h; exact ⟨fun m hm => h m (Or.inl hm), fun m hm => h m (Or.inr hm)⟩
  · rintro ⟨h1, h2⟩ m (hm | hm)
    · exact h1 m hm
    · exact h2 m hm

/-- a predicate on messages that does not look at the time stamp -/
def StampInv (g : Msg → Bool) : Prop := ∀ (m : Msg) (t : Int), g { m with time := t } = g m

theorem totalWait_filter (P : Option Nat × Msg → Bool) (L : List (Option Nat × Msg))
    (hP : ∀ e ∈ L, P e = false → e.2.ty ≠ .wait) :
    totalWait (msgs (L.filter P)) = totalWait (msgs L) := by
  induction L with
  | nil => rfl
  | cons e L ih =>
    have ih' := ih (fun x hx => hP x (List.mem_cons_of_mem _ hx))
    by_cases hpe : P e = true
    · simp [List.filter_cons, hpe, totalWait, ih']
    · have := hP e (by simp) (by simpa using hpe)
      simp [List.filter_cons, hpe, totalWait, ih', this]

theorem eventsRelGo_filter_sublist (P : Option Nat × Msg → Bool) (L : List (Option Nat × Msg))
    (hP : ∀ e ∈ L, P e = false → e.2.ty ≠ .wait) : ∀ c : Int,
    (eventsRelGo c (msgs (L.filter P))).Sublist (eventsRelGo c (msgs L)) := by
  induction L with
  | nil => intro c; simp
  | cons e L ih =>
    intro c
    have ih' := ih (fun x hx => hP x (List.mem_cons_of_mem _ hx))
    by_cases hpe : P e = true
    · by_cases hw : e.2.ty = .wait
      · simp [List.filter_cons, hpe, eventsRelGo, hw, ih']
      · simp [List.filter_cons, hpe, eventsRelGo, hw, ih']
    · have := hP e (by simp) (by simpa using hpe)
      simp only [List.filter_cons, hpe, msgs_cons, eventsRelGo, this]
      simp only [Bool.false_eq_true, if_false, beq_iff_eq, this]
      exact List.Sublist.cons _ (ih' c)

theorem eventsRelGo_filter_filter (g : Msg → Bool) (hg : StampInv g)
    (P : Option Nat × Msg → Bool) (L : List (Option Nat × Msg))
    (hP : ∀ e ∈ L, P e = false → e.2.ty ≠ .wait ∧ g e.2 = false) : ∀ c : Int,
    (eventsRelGo c (msgs (L.filter P))).filter g = (eventsRelGo c (msgs L)).filter g := by
  induction L with
  | nil => intro c; simp
  | cons e L ih =>
    intro c
    have ih' := ih (fun x hx => hP x (List.mem_cons_of_mem _ hx))
    by_cases hpe : P e = true
    · by_cases hw : e.2.ty = .wait
      · simp [List.filter_cons, hpe, eventsRelGo, hw, ih']
      · simp [List.filter_cons, hpe, eventsRelGo, hw, ih', hg e.2 c]
    · have := hP e (by simp) (by simpa using hpe)
      simp [List.filter_cons, hpe, eventsRelGo, this.1, ih', hg e.2 c, this.2]

/-! ### clock invariant -/

structure InvT (pre : List Msg) (s : NormSt) : Prop where
  nn : 0 ≤ s.wbuf
  clk : totalWait (msgs s.O) + s.wbuf = totalWait pre

theorem invT_init : InvT [] {} := ⟨by decide, by simp [init_O, totalWait]⟩

theorem totalWait_flushL (s : NormSt) (c : Int) (h : 0 ≤ s.wbuf) :
    totalWait (msgs (flushL s c)) = s.wbuf := by
  simp only [flushL]
  split
  · simp [totalWait, Msg.mkWait]
  · simp [totalWait]; omega

theorem invT_step (pre : List Msg) (s : NormSt) (m : Msg) (hm : m.ty = .wait → 0 ≤ m.time)
    (h : InvT pre s) : InvT (pre ++ [m]) (normStep s m) := by
  obtain ⟨nn, clk⟩ := h
  have hfl := totalWait_flushL s m.ch nn
  constructor
  · rw [step_wbuf]
    split
    · rename_i hw; have := hm hw; omega
    · split <;> omega
  · rw [step_wbuf, step_O, totalWait_append, msgs_append, totalWait_append]
    by_cases hw : m.ty = .wait
    · have hk : keep s m = false := by simp [keep, hw]
      simp [hw, hk, totalWait]; omega
    · by_cases hk : keep s m = true
      · simp only [hk, if_true, msgs_append, totalWait_append, hfl, hw, if_false, true_and]
        simp only [msgs_cons, msgs_nil, totalWait, beq_iff_eq, hw, if_false]
        split <;> omega
      · simp [hw, hk, totalWait]; omega

def stamp (m : Msg) (t : Int) : Msg := { m with time := t }

theorem events_snoc (pre : List Msg) (m : Msg) (c : Int) :
    eventsRelGo c (pre ++ [m]) =
      eventsRelGo c pre ++ (if m.ty = .wait then [] else [stamp m (c + totalWait pre)]) := by
  rw [eventsRelGo_append]
  by_cases hw : m.ty = .wait <;> simp [eventsRelGo, hw, stamp]

theorem step_events (pre : List Msg) (s : NormSt) (m : Msg) (h : InvT pre s) :
    eventsRelGo 0 (msgs (normStep s m).O) =
      eventsRelGo 0 (msgs s.O) ++ (if keep s m = true then [stamp m (totalWait pre)] else []) := by
  obtain ⟨nn, clk⟩ := h
  have hfl := totalWait_flushL s m.ch nn
  rw [step_O, msgs_append, eventsRelGo_append]
  by_cases hk : keep s m = true
  · have hw := keep_not_wait s m hk
    simp only [hk, if_true, msgs_append, eventsRelGo_append, hfl]
    have h1 : eventsRelGo (0 + totalWait (msgs s.O)) (msgs (flushL s m.ch)) = [] := by
      simp only [flushL]; split <;> simp [eventsRelGo, Msg.mkWait]
    rw [h1]
    simp [eventsRelGo, hw, stamp]
    omega
  · simp [hk, eventsRelGo]

/-! ### depth and fusing -/

def isKN (k : Int × Int) (m : Msg) : Bool := decide (m.nkey = k ∧ (m.ty = .noteOn ∨ m.ty = .noteOff))

def isOther (m : Msg) : Bool :=
  m.ty != .noteOn && m.ty != .noteOff && m.ty != .timeSignature && m.ty != .keySignature

/-- what the depth counter lets through: a note-on at depth 0, a note-off at depth 1 -/
def fuseK (k : Int × Int) : Nat → List Msg → List Msg
  | _, [] => []
  | d, m :: ms =>
    if m.nkey = k then
      if m.ty = .noteOn then (if d = 0 then m :: fuseK k 1 ms else fuseK k (d + 1) ms)
      else if m.ty = .noteOff then (if d = 1 then m :: fuseK k 0 ms else fuseK k (d - 1) ms)
      else fuseK k d ms
    else fuseK k d ms

theorem depth_append (k : Int × Int) (a b : List Msg) : ∀ d, depth k (a ++ b) d = depth k b (depth k a d) := by
  induction a with
  | nil => intro d; rfl
  | cons x xs ih =>
    intro d
    simp only [List.cons_append, depth]
    split
    · split
      · exact ih _
      · split
        · exact ih _
        · exact ih _
    · exact ih _

theorem fuseK_append (k : Int × Int) (a b : List Msg) : ∀ d,
    fuseK k d (a ++ b) = fuseK k d a ++ fuseK k (depth k a d) b := by
  induction a with
  | nil => intro d; rfl
  | cons x xs ih =>
    intro d
    simp only [List.cons_append, fuseK, depth, beq_iff_eq]
    split
    · split
      · split <;> simp_all [ih]
      · split
        · split <;> simp_all [ih]
        · exact ih _
    · exact ih _

theorem depth_events (k : Int × Int) (l : List Msg) : ∀ (c : Int) (d : Nat),
    depth k (eventsRelGo c l) d = depth k l d := by
  induction l with
  | nil => intro c d; rfl
  | cons x xs ih =>
    intro c d
    by_cases hw : x.ty = .wait
    · simp [eventsRelGo, hw, depth, ih]
    · simp only [eventsRelGo, beq_iff_eq, hw, if_false, depth, Msg.nkey, ih]

theorem fuseK_sublist (k : Int × Int) (l : List Msg) : ∀ d, (fuseK k d l).Sublist l := by
  induction l with
  | nil => intro d; simp [fuseK]
  | cons x xs ih =>
    intro d
    simp only [fuseK]
    repeat' split
    all_goals first | exact (ih _).cons_cons _ | exact (ih _).cons _

/-- the fused list is sounding exactly when the original is -/
theorem depth_fuseK (k : Int × Int) (l : List Msg) : ∀ d,
    depth k (fuseK k d l) (min d 1) = min (depth k l d) 1 := by
  induction l with
  | nil => intro d; rfl
  | cons x xs ih =>
    intro d
    simp only [fuseK, depth, beq_iff_eq]
    split
    · rename_i hk
      split
      · rename_i hon
        split
        · rename_i hd; subst hd
          simp only [depth, hk, hon, beq_self_eq_true, if_true]
          exact ih 1
        · have := ih (d + 1)
          rw [show min (d + 1) 1 = min d 1 by omega] at this
          exact this
      · rename_i hon
        split
        · rename_i hoff
          split
          · rename_i hd; subst hd
            simp only [depth, hk, hoff, beq_iff_eq, if_true]
            simp only [reduceCtorEq, if_false]
            exact ih 0
          · rename_i hd
            have := ih (d - 1)
            rw [show min (d - 1) 1 = min d 1 by omega] at this
            exact this
        · exact ih d
    · exact ih d

/-! ### event invariant -/

structure InvE (pre : List Msg) (s : NormSt) : Prop where
  sub : (eventsRelGo 0 (msgs s.O)).Sublist (eventsRelGo 0 pre)
  oth : (eventsRelGo 0 (msgs s.O)).filter isOther = (eventsRelGo 0 pre).filter isOther
  dep : ∀ k, (s.stk k).length = depth k pre 0
  fus : ∀ k, (eventsRelGo 0 (msgs s.O)).filter (isKN k) = fuseK k 0 (eventsRelGo 0 pre)

theorem invE_init : InvE [] {} := by
  refine ⟨?_, ?_, ?_, ?_⟩ <;> simp [init_O, eventsRelGo, init_stk, depth, fuseK]

theorem keep_other (s : NormSt) (m : Msg) (h : isOther m = true) (hw : m.ty ≠ .wait) : keep s m = true := by
  simp only [keep]
  cases hm : m.ty <;> simp_all [isOther]

theorem invE_step (pre : List Msg) (s : NormSt) (m : Msg) (hT : InvT pre s) (h : InvE pre s) :
    InvE (pre ++ [m]) (normStep s m) := by
  obtain ⟨sub, oth, dep, fus⟩ := h
  have hev := step_events pre s m hT
  have hsn := events_snoc pre m 0
  simp only [Int.zero_add] at hsn
  refine ⟨?_, ?_, ?_, ?_⟩
  · rw [hev, hsn]
    by_cases hk : keep s m = true
    · simp only [hk, if_true, keep_not_wait s m hk, if_false]
      exact List.Sublist.append sub (List.Sublist.refl _)
    · have hk' : keep s m = false := by simpa using hk
      simp only [hk', Bool.false_eq_true, if_false, List.append_nil]
      exact (List.sublist_append_of_sublist_left sub)
  · rw [hev, hsn, List.filter_append, List.filter_append, oth]
    congr 1
    by_cases hw : m.ty = .wait
    · have hk : keep s m = false := by simp [keep, hw]
      simp [hw, hk]
    · by_cases ho : isOther m = true
      · simp [keep_other s m ho hw, hw]
      · have : isOther (stamp m (totalWait pre)) = false := by simpa [isOther, stamp] using ho
        simp only [hw, if_false]
        split <;> simp [List.filter_cons, this]
  · intro k
    rw [depth_append, ← dep k]
    rcases stk_cases s m k with ⟨hmk, hon, hst⟩ | ⟨hmk, hoff, hst⟩ | ⟨hno, hst⟩
    · simp [hst, depth, hmk, hon]
    · simp [hst, depth, hmk, hoff]
    · rw [hst]
      simp only [depth, beq_iff_eq]
      split
      · rename_i hmk
        simp only [hmk, true_and, not_or] at hno
        simp [hno.1, hno.2]
      · rfl
  · intro k
    rw [hev, hsn, List.filter_append, fuseK_append, fus k, depth_events, ← dep k]
    congr 1
    by_cases hw : m.ty = .wait
    · have hk : keep s m = false := by simp [keep, hw]
      simp [hw, hk, fuseK]
    · simp only [hw, if_false]
      by_cases hmk : m.nkey = k
      · by_cases hon : m.ty = .noteOn
        · have h1 : isKN k (stamp m (totalWait pre)) = true := by simp [isKN, stamp, Msg.nkey, hon]; exact hmk
          have h2 : (stamp m (totalWait pre)).nkey = k := hmk
          have h3 : (stamp m (totalWait pre)).ty = .noteOn := hon
          simp only [fuseK, h2, h3, if_true, keep, hon, hmk, beq_iff_eq]
          split <;> simp [h1]
        · by_cases hoff : m.ty = .noteOff
          · have h1 : isKN k (stamp m (totalWait pre)) = true := by simp [isKN, stamp, Msg.nkey, hoff]; exact hmk
            have h2 : (stamp m (totalWait pre)).nkey = k := hmk
            have h3 : (stamp m (totalWait pre)).ty = .noteOff := hoff
            simp only [fuseK, h2, h3, if_true, keep, hoff, hmk, beq_iff_eq, reduceCtorEq, if_false]
            split <;> simp [h1]
          · have h1 : isKN k (stamp m (totalWait pre)) = false := by simp [isKN, stamp, hon, hoff]
            have h2 : (stamp m (totalWait pre)).nkey = k := hmk
            have h3 : ¬ (stamp m (totalWait pre)).ty = .noteOn := hon
            have h4 : ¬ (stamp m (totalWait pre)).ty = .noteOff := hoff
            simp only [fuseK, h2, h3, h4, if_true, if_false]
            split <;> simp [h1]
      · have h1 : isKN k (stamp m (totalWait pre)) = false := by
          have : ¬ (m.ch, m.note) = k := hmk
          simp [isKN, stamp, Msg.nkey, this]
        have h2 : ¬ (stamp m (totalWait pre)).nkey = k := hmk
        simp only [fuseK, h2, if_false]
        split <;> simp [h1]

/-! ### signatures -/

def tsVals (l : List Msg) : List (Int × Int) :=
  (l.filter (·.ty == .timeSignature)).map (fun m => (m.num, m.den))
def ksVals (l : List Msg) : List Int := (l.filter (·.ty == .keySignature)).map (fun m => m.key)

def lastD {β} : β → List β → β
  | d, [] => d
  | _, x :: xs => lastD x xs

def dedupD {β} [DecidableEq β] : β → List β → List β
  | _, [] => []
  | p, x :: xs => if p = x then dedupD p xs else x :: dedupD x xs

def ChainNe {β} : β → List β → Prop
  | _, [] => True
  | p, x :: xs => p ≠ x ∧ ChainNe x xs

theorem lastD_snoc {β} (l : List β) (x : β) : ∀ d, lastD d (l ++ [x]) = x := by
  induction l with
  | nil => intro d; rfl
  | cons y ys ih => intro d; exact ih y

theorem dedupD_snoc {β} [DecidableEq β] (l : List β) (x : β) : ∀ p,
    dedupD p (l ++ [x]) = dedupD p l ++ (if lastD p l = x then [] else [x]) := by
  induction l with
  | nil => intro p; by_cases h : p = x <;> simp [dedupD, lastD, h]
  | cons y ys ih =>
    intro p
    simp only [List.cons_append, dedupD, lastD]
    split
    · rename_i h; subst h; exact ih p
    · rw [ih y]; rfl

theorem chainNe_dedupD {β} [DecidableEq β] (l : List β) : ∀ p, ChainNe p (dedupD p l) := by
  induction l with
  | nil => intro p; trivial
  | cons y ys ih =>
    intro p
    simp only [dedupD]
    split
    · exact ih p
    · exact ⟨by assumption, ih y⟩

theorem dedupD_of_chainNe {β} [DecidableEq β] (l : List β) : ∀ p, ChainNe p l → dedupD p l = l := by
  induction l with
  | nil => intro p _; rfl
  | cons y ys ih =>
    intro p h
    simp only [dedupD, h.1, if_false, ih y h.2]

theorem tsVals_append (a b : List Msg) : tsVals (a ++ b) = tsVals a ++ tsVals b := by simp [tsVals]
theorem ksVals_append (a b : List Msg) : ksVals (a ++ b) = ksVals a ++ ksVals b := by simp [ksVals]

theorem tsVals_flushL (s : NormSt) (c : Int) : tsVals (msgs (flushL s c)) = [] := by
  simp only [flushL]; split <;> simp [tsVals, Msg.mkWait]
theorem ksVals_flushL (s : NormSt) (c : Int) : ksVals (msgs (flushL s c)) = [] := by
  simp only [flushL]; split <;> simp [ksVals, Msg.mkWait]

structure InvS (pre : List Msg) (s : NormSt) : Prop where
  ts : (s.tsNum, s.tsDen) = lastD (pyNone, pyNone) (tsVals pre)
  tso : tsVals (msgs s.O) = dedupD (pyNone, pyNone) (tsVals pre)
  ks : s.key = lastD pyNone (ksVals pre)
  kso : ksVals (msgs s.O) = dedupD pyNone (ksVals pre)

theorem invS_init : InvS [] {} := ⟨rfl, rfl, rfl, rfl⟩

theorem invS_step (pre : List Msg) (s : NormSt) (m : Msg) (h : InvS pre s) :
    InvS (pre ++ [m]) (normStep s m) := by
  obtain ⟨ts, tso, ks, kso⟩ := h
  refine ⟨?_, ?_, ?_, ?_⟩
  · rw [step_ts, tsVals_append]
    by_cases hm : m.ty = .timeSignature
    · simp [hm, tsVals, lastD_snoc]
    · have h1 : tsVals [m] = [] := by simp [tsVals, hm]
      rw [h1, List.append_nil]; simp only [hm, if_false]; exact ts
  · rw [step_O, msgs_append, tsVals_append, tsVals_append, tso]
    by_cases hm : m.ty = .timeSignature
    · have h1 : tsVals [m] = [(m.num, m.den)] := by simp [tsVals, hm]
      rw [h1, dedupD_snoc, ← ts]
      congr 1
      have hk : keep s m = (m.num != s.tsNum || m.den != s.tsDen) := by simp [keep, hm]
      by_cases hk' : keep s m = true
      · have : ¬ (s.tsNum, s.tsDen) = (m.num, m.den) := by
          intro he; rw [Prod.mk.injEq] at he; simp [hk, he.1, he.2] at hk'
        simp [hk', msgs_append, tsVals_append, tsVals_flushL, this, h1]
      · have : (s.tsNum, s.tsDen) = (m.num, m.den) := by
          rw [hk] at hk'; simp at hk'; rw [hk'.1, hk'.2]
        simp [hk', this, tsVals]
    · have h1 : tsVals [m] = [] := by simp [tsVals, hm]
      have h2 : tsVals (msgs (if keep s m = true then flushL s m.ch ++ [(some s.idx, m)] else [])) = [] := by
        split
        · rw [msgs_append, tsVals_append, tsVals_flushL]; exact h1
        · rfl
      rw [h1, h2, List.append_nil, List.append_nil]
  · rw [step_key, ksVals_append]
    by_cases hm : m.ty = .keySignature
    · simp [hm, ksVals, lastD_snoc]
    · have h1 : ksVals [m] = [] := by simp [ksVals, hm]
      rw [h1, List.append_nil]; simp only [hm, if_false]; exact ks
  · rw [step_O, msgs_append, ksVals_append, ksVals_append, kso]
    by_cases hm : m.ty = .keySignature
    · have h1 : ksVals [m] = [m.key] := by simp [ksVals, hm]
      rw [h1, dedupD_snoc, ← ks]
      congr 1
      have hk : keep s m = (m.key != s.key) := by simp [keep, hm]
      by_cases hk' : keep s m = true
      · have : ¬ s.key = m.key := by
          intro he; simp [hk, he] at hk'
        simp [hk', msgs_append, ksVals_append, ksVals_flushL, this, h1]
      · have : s.key = m.key := by
          rw [hk] at hk'; simp at hk'; rw [hk']
        simp [hk', this, ksVals]
    · have h1 : ksVals [m] = [] := by simp [ksVals, hm]
      have h2 : ksVals (msgs (if keep s m = true then flushL s m.ch ++ [(some s.idx, m)] else [])) = [] := by
        split
        · rw [msgs_append, ksVals_append, ksVals_flushL]; exact h1
        · rfl
      rw [h1, h2, List.append_nil, List.append_nil]

/-! ### alternation invariant -/

def kn (k : Int × Int) (L : List (Option Nat × Msg)) : List (Option Nat × Msg) :=
  L.filter (fun e => isKN k e.2)

theorem msgs_kn (k : Int × Int) (L : List (Option Nat × Msg)) : msgs (kn k L) = (msgs L).filter (isKN k) := by
  simp only [msgs, kn, List.filter_map]; rfl

theorem altFrom_filter_kn (k : Int × Int) (l : List Msg) : ∀ b,
    altFrom k b (l.filter (isKN k)) ↔ altFrom k b l := by
  induction l with
  | nil => intro b; simp
  | cons x xs ih =>
    intro b
    by_cases hx : isKN k x = true
    · simp only [List.filter_cons, hx, if_true, altFrom, ih]
    · simp only [List.filter_cons, hx, if_false, altFrom, ih]
      have : ¬ (x.nkey = k ∧ x.ty = .noteOn) ∧ ¬ (x.nkey = k ∧ x.ty = .noteOff) := by
        simp only [isKN, decide_eq_true_eq] at hx
        exact ⟨fun h => hx ⟨h.1, Or.inl h.2⟩, fun h => hx ⟨h.1, Or.inr h.2⟩⟩
      simp only [this.1, this.2, if_false, Bool.false_eq_true]
      exact ih b

theorem altFrom_snoc2 (k : Int × Int) (m m' : Msg) (hm : m.nkey = k ∧ m.ty = .noteOn)
    (hm' : m'.nkey = k ∧ m'.ty = .noteOff) (l : List Msg) : ∀ b,
    altFrom k b l → altFrom k b (l ++ [m, m']) := by
  induction l with
  | nil =>
    intro b h
    simp only [altFrom] at h
    subst h
    have h1 : ¬ (m'.nkey = k ∧ m'.ty = .noteOn) := by rw [hm'.2]; simp
    simp [altFrom, hm, hm', h1]
  | cons x xs ih =>
    intro b h
    simp only [List.cons_append, altFrom] at h ⊢
    split
    · rename_i h1; rw [if_pos h1] at h; exact ⟨h.1, ih _ h.2⟩
    · rename_i h1; rw [if_neg h1] at h
      split
      · rename_i h2; rw [if_pos h2] at h; exact ⟨h.1, ih _ h.2⟩
      · rename_i h2; rw [if_neg h2] at h; exact ih _ h

def InvW (k : Int × Int) (s : NormSt) : Prop :=
  (s.stk k = [] → altFrom k false (msgs (kn k s.O))) ∧
  (∀ i0 rest, s.stk k = i0 :: rest → ∃ L m, kn k s.O = L ++ [(some i0, m)] ∧ m.nkey = k ∧
      m.ty = .noteOn ∧ altFrom k false (msgs L) ∧ ∀ e ∈ L, e.1 ≠ some i0)

theorem invW_init (k : Int × Int) : InvW k {} := by
  constructor
  · intro _; simp [init_O, kn, altFrom]
  · intro i0 rest h; simp [init_stk] at h

theorem kn_flushL (k : Int × Int) (s : NormSt) (c : Int) : kn k (flushL s c) = [] := by
  simp only [flushL]; split <;> simp [kn, isKN, Msg.mkWait]

theorem kn_step (k : Int × Int) (s : NormSt) (m : Msg) :
    kn k (normStep s m).O = kn k s.O ++ (if keep s m = true ∧ isKN k m = true then [(some s.idx, m)] else []) := by
  rw [step_O]
  simp only [kn, List.filter_append]
  congr 1
  by_cases hk : keep s m = true
  · simp only [hk, if_true, List.filter_append, true_and]
    have := kn_flushL k s m.ch
    simp only [kn] at this
    rw [this]
    by_cases hi : isKN k m = true <;> simp [hi]
  · simp [hk]

theorem invW_step (pre : List Msg) (k : Int × Int) (s : NormSt) (m : Msg) (hA : InvA pre s)
    (h : InvW k s) : InvW k (normStep s m) := by
  obtain ⟨h1, h2⟩ := h
  have hkn := kn_step k s m
  rcases stk_cases s m k with ⟨hmk, hon, hst⟩ | ⟨hmk, hoff, hst⟩ | ⟨hno, hst⟩
  · -- note-on of this key
    have hi : isKN k m = true := by simp [isKN, hmk, hon]
    have hkeep : keep s m = ((s.stk k).length == 0) := by
      simp [keep, hon, hmk]
    cases hs : s.stk k with
    | nil =>
      rw [hs] at hkeep hst
      simp [hkeep, hi] at hkn
      constructor
      · intro h; rw [hst] at h; simp at h
      · intro i0 rest h
        rw [hst] at h; simp at h
        obtain ⟨rfl, rfl⟩ := h
        refine ⟨kn k s.O, m, hkn, hmk, hon, h1 hs, ?_⟩
        intro e he hei
        have he' : e ∈ s.O := (List.mem_filter.1 he).1
        have := old_lt hA.ent e he' _ hei
        omega
    | cons i0 rest =>
      rw [hs] at hkeep hst
      simp [hkeep] at hkn
      constructor
      · intro h; rw [hst] at h; simp at h
      · intro j0 rest' h
        rw [hst] at h; simp at h
        obtain ⟨L, m0, hL⟩ := h2 i0 rest hs
        rw [← h.1]
        exact ⟨L, m0, by rw [hkn]; exact hL.1, hL.2⟩
  · -- note-off of this key
    have hi : isKN k m = true := by simp [isKN, hmk, hoff]
    have hkeep : keep s m = ((s.stk k).length == 1) := by
      simp [keep, hoff, hmk]
    rcases hs : s.stk k with _ | ⟨i0, _ | ⟨i1, rest⟩⟩
    · rw [hs] at hkeep hst
      simp [hkeep] at hkn
      constructor
      · intro _; rw [hkn]; exact h1 hs
      · intro j0 rest' h; rw [hst] at h; simp at h
    · rw [hs] at hkeep hst
      simp [hkeep, hi] at hkn
      constructor
      · intro _
        obtain ⟨L, m0, hL, hk0, hon0, halt, _⟩ := h2 i0 [] hs
        rw [hkn, hL, List.append_assoc, msgs_append]
        exact altFrom_snoc2 k m0 m ⟨hk0, hon0⟩ ⟨hmk, hoff⟩ _ _ halt
      · intro j0 rest' h; rw [hst] at h; simp at h
    · rw [hs] at hkeep hst
      simp [hkeep] at hkn
      constructor
      · intro h; rw [hst] at h; simp at h
      · intro j0 rest' h
        rw [hst] at h; simp at h
        obtain ⟨L, m0, hL⟩ := h2 i0 (i1 :: rest) hs
        rw [← h.1]
        exact ⟨L, m0, by rw [hkn]; exact hL.1, hL.2⟩
  · have hi : isKN k m = false := by
      simp only [isKN, decide_eq_false_iff_not]; exact hno
    simp [hi] at hkn
    rw [InvW, hkn, hst]
    exact ⟨h1, h2⟩

/-! ### the invariants hold at the end of the fold -/

theorem inv_basic (r : List Msg) :
    InvA r (r.foldl normStep {}) ∧ InvS r (r.foldl normStep {}) ∧ ∀ k, InvW k (r.foldl normStep {}) := by
  have := fold_inv (fun pre _ s => InvA pre s ∧ InvS pre s ∧ ∀ k, InvW k s)
    (fun pre m post s h => ⟨invA_step pre s m h.1, invS_step pre s m h.2.1,
      fun k => invW_step pre k s m h.1 (h.2.2 k)⟩) r [] {} ⟨invA_init, invS_init, invW_init⟩
  simpa using this

theorem inv_nn (r : List Msg) (hr : NonNegWaits r) :
    InvT r (r.foldl normStep {}) ∧ InvE r (r.foldl normStep {}) := by
  have := fold_inv (fun pre post s => NonNegWaits (pre ++ post) → InvT pre s ∧ InvE pre s)
    (fun pre m post s h hnn => by
      have hnn' : NonNegWaits (pre ++ m :: post) := by simpa using hnn
      have ⟨hT, hE⟩ := h hnn'
      have hm : m.ty = .wait → 0 ≤ m.time := hnn' m (by simp)
      exact ⟨invT_step pre s m hm hT, invE_step pre s m hT hE⟩) r [] {}
      (fun _ => ⟨invT_init, invE_init⟩)
  simp only [List.nil_append, List.append_nil] at this
  exact this hr

theorem not_wait_of_Q_false {pre : List Msg} {s : NormSt} (h : InvA pre s) :
    ∀ e ∈ s.O ++ flushEnd s, Q s e = false → e.2.ty ≠ .wait := by
  intro e he hq
  have := (Q_false h e he hq).2.1
  rw [this]; simp

theorem totalWait_flushEnd (s : NormSt) (h : 0 ≤ s.wbuf) : totalWait (msgs (flushEnd s)) = s.wbuf := by
  simp only [flushEnd]
  split
  · simp [totalWait, Msg.mkWait]
  · simp [totalWait]; omega

theorem eventsRelGo_flushEnd (s : NormSt) (c : Int) : eventsRelGo c (msgs (flushEnd s)) = [] := by
  simp only [flushEnd]; split <;> simp [eventsRelGo, Msg.mkWait]

theorem normalise_totalWait (r : List Msg) (hr : NonNegWaits r) : totalWait (normalise r) = totalWait r := by
  have ⟨hA, _, _⟩ := inv_basic r
  have ⟨hT, _⟩ := inv_nn r hr
  rw [normalise_eq, totalWait_filter _ _ (not_wait_of_Q_false hA), msgs_append, totalWait_append,
    totalWait_flushEnd _ hT.nn]
  exact hT.clk

theorem events_full (s : NormSt) : eventsRelGo 0 (msgs (s.O ++ flushEnd s)) = eventsRelGo 0 (msgs s.O) := by
  rw [msgs_append, eventsRelGo_append, eventsRelGo_flushEnd, List.append_nil]

theorem normalise_events_sublist (r : List Msg) (hr : NonNegWaits r) :
    (eventsRel (normalise r)).Sublist (eventsRel r) := by
  have ⟨hA, _, _⟩ := inv_basic r
  have ⟨hT, hE⟩ := inv_nn r hr
  rw [normalise_eq]
  refine List.Sublist.trans (eventsRelGo_filter_sublist _ _ (not_wait_of_Q_false hA) 0) ?_
  rw [events_full]
  exact hE.sub

theorem isOther_stampInv : StampInv isOther := fun _ _ => rfl
theorem isKN_stampInv (k : Int × Int) : StampInv (isKN k) := fun _ _ => rfl

theorem normalise_others (r : List Msg) (hr : NonNegWaits r) :
    (eventsRel (normalise r)).filter isOther = (eventsRel r).filter isOther := by
  have ⟨hA, _, _⟩ := inv_basic r
  have ⟨hT, hE⟩ := inv_nn r hr
  rw [normalise_eq]
  simp only [eventsRel]
  rw [eventsRelGo_filter_filter isOther isOther_stampInv, events_full]
  · exact hE.oth
  · intro e he hq
    have := (Q_false hA e he hq).2.1
    simp [isOther, this]

theorem normalise_entries (r : List Msg) :
    ∀ m ∈ normalise r, (m.ty = .wait ∧ 0 < m.time) ∨ (m.ty ≠ .wait ∧ m ∈ r) := by
  have ⟨hA, _, _⟩ := inv_basic r
  intro m hm
  rw [normalise_eq] at hm
  simp only [msgs, List.mem_map, List.mem_filter] at hm
  obtain ⟨e, ⟨he, _⟩, rfl⟩ := hm
  rcases List.mem_append.1 he with he | he
  · rcases hA.ent e he with h1 | ⟨i, _, _, h3, h4⟩
    · exact Or.inl h1.2
    · exact Or.inr ⟨h3, h4⟩
  · simp only [flushEnd] at he
    split at he
    · simp at he; subst he; left; simp [Msg.mkWait]; omega
    · simp at he

theorem msgs_filter_filter (g : Msg → Bool) (P : Option Nat × Msg → Bool) (L : List (Option Nat × Msg))
    (hP : ∀ e ∈ L, P e = false → g e.2 = false) :
    (msgs (L.filter P)).filter g = (msgs L).filter g := by
  induction L with
  | nil => rfl
  | cons e L ih =>
    have ih' := ih (fun x hx => hP x (List.mem_cons_of_mem _ hx))
    by_cases hpe : P e = true
    · simp only [List.filter_cons, hpe, if_true, msgs_cons, ih']
    · have := hP e (by simp) (by simpa using hpe)
      simp only [List.filter_cons, hpe, msgs_cons, this, ih']
      simp [ih']

theorem normalise_tsVals (r : List Msg) : tsVals (normalise r) = dedupD (pyNone, pyNone) (tsVals r) := by
  have ⟨hA, hS, _⟩ := inv_basic r
  rw [normalise_eq]
  simp only [tsVals]
  rw [msgs_filter_filter]
  · have := hS.tso
    simp only [tsVals] at this
    rw [← this, msgs_append, List.filter_append]
    simp only [flushEnd]
    split <;> simp [Msg.mkWait]
  · intro e he hq
    have := (Q_false hA e he hq).2.1
    simp [this]

theorem normalise_ksVals (r : List Msg) : ksVals (normalise r) = dedupD pyNone (ksVals r) := by
  have ⟨hA, hS, _⟩ := inv_basic r
  rw [normalise_eq]
  simp only [ksVals]
  rw [msgs_filter_filter]
  · have := hS.kso
    simp only [ksVals] at this
    rw [← this, msgs_append, List.filter_append]
    simp only [flushEnd]
    split <;> simp [Msg.mkWait]
  · intro e he hq
    have := (Q_false hA e he hq).2.1
    simp [this]

theorem kn_flushEnd (k : Int × Int) (s : NormSt) : kn k (flushEnd s) = [] := by
  simp only [flushEnd]; split <;> simp [kn, isKN, Msg.mkWait]

theorem normalise_wf (r : List Msg) : WF (normalise r) := by
  have ⟨hA, _, hW⟩ := inv_basic r
  intro k
  obtain ⟨h1, h2⟩ := hW k
  rw [normalise_eq, ← altFrom_filter_kn, ← msgs_kn]
  generalize r.foldl normStep {} = s at *
  have hcomm : kn k ((s.O ++ flushEnd s).filter (Q s)) = (kn k s.O).filter (Q s) := by
    have h0 : kn k (s.O ++ flushEnd s) = kn k s.O := by
      simp only [kn, List.filter_append]
      have := kn_flushEnd k s
      simp only [kn] at this
      rw [this, List.append_nil]
    rw [← h0]
    simp only [kn, List.filter_filter]
    congr 1
    funext e
    exact Bool.and_comm _ _
  rw [hcomm]
  have hmemO : ∀ e ∈ kn k s.O, e ∈ s.O ++ flushEnd s ∧ e.2.nkey = k := by
    intro e he
    have := List.mem_filter.1 he
    refine ⟨List.mem_append_left _ this.1, ?_⟩
    have := this.2
    simp only [isKN, decide_eq_true_eq] at this
    exact this.1
  cases hs : s.stk k with
  | nil =>
    have : (kn k s.O).filter (Q s) = kn k s.O := by
      rw [List.filter_eq_self]
      intro e he
      cases hq' : Q s e with
      | true => rfl
      | false =>
      exfalso
      obtain ⟨heO, hek⟩ := hmemO e he
      obtain ⟨_, _, i, _, hh⟩ := Q_false hA e heO hq'
      rw [hek, hs] at hh
      simp at hh
    rw [this]
    exact h1 hs
  | cons i0 rest =>
    obtain ⟨L, m0, hL, hk0, hon0, halt, hne⟩ := h2 i0 rest hs
    have hq0 : Q s (some i0, m0) = false := Q_of_stk hA _ i0 k rfl (by rw [hs]; simp)
    have : (kn k s.O).filter (Q s) = L := by
      rw [hL, List.filter_append]
      simp only [List.filter_cons, hq0, List.filter_nil, Bool.false_eq_true, if_false, List.append_nil]
      rw [List.filter_eq_self]
      intro e he
      cases hq' : Q s e with
      | true => rfl
      | false =>
      exfalso
      obtain ⟨heO, hek⟩ := hmemO e (by rw [hL]; exact List.mem_append_left _ he)
      obtain ⟨_, _, i, hi, hh⟩ := Q_false hA e heO hq'
      rw [hek, hs] at hh
      simp at hh
      subst hh
      exact hne e he hi
    rw [this]
    exact halt

/-! ### sound -/

theorem normalise_fuse (r : List Msg) (hr : NonNegWaits r) (hd : ∀ k, depth k r 0 = 0) (k : Int × Int) :
    (eventsRel (normalise r)).filter (isKN k) = fuseK k 0 (eventsRel r) := by
  have ⟨hA, _, _⟩ := inv_basic r
  have ⟨hT, hE⟩ := inv_nn r hr
  have hemp : ∀ k, (r.foldl normStep {}).stk k = [] := by
    intro k
    have := hE.dep k
    rw [hd k] at this
    exact List.eq_nil_of_length_eq_zero this
  rw [normalise_eq, List.filter_eq_self.2 (fun e _ => Q_true_of_empty hA hemp e)]
  simp only [eventsRel]
  rw [events_full]
  exact hE.fus k

theorem events_sorted (r : List Msg) : ∀ (c : Int), NonNegWaits r →
    (eventsRelGo c r).Pairwise (fun a b => a.time ≤ b.time) := by
  induction r with
  | nil => intro c _; simp [eventsRelGo]
  | cons m ms ih =>
    intro c h
    have h' : NonNegWaits ms := fun x hx => h x (List.mem_cons_of_mem _ hx)
    by_cases hw : m.ty = .wait
    · simp only [eventsRelGo, hw, beq_self_eq_true, if_true]
      exact ih _ h'
    · simp only [eventsRelGo, beq_iff_eq, hw, if_false, List.pairwise_cons]
      refine ⟨?_, ih _ h'⟩
      intro e he
      exact (eventsRelGo_bounds ms c h' e he).1

theorem split_sorted (l : List Msg) (t : Int) (hs : l.Pairwise (fun a b => a.time ≤ b.time)) :
    ∃ A1 A2, l = A1 ++ A2 ∧ (∀ a ∈ A1, a.time ≤ t) ∧ (∀ a ∈ A2, t < a.time) := by
  induction l with
  | nil => exact ⟨[], [], rfl, by simp, by simp⟩
  | cons x xs ih =>
    rw [List.pairwise_cons] at hs
    by_cases hx : x.time ≤ t
    · obtain ⟨A1, A2, h1, h2, h3⟩ := ih hs.2
      refine ⟨x :: A1, A2, by simp [h1], ?_, h3⟩
      intro a ha
      rcases List.mem_cons.1 ha with rfl | ha
      · exact hx
      · exact h2 a ha
    · refine ⟨[], x :: xs, rfl, by simp, ?_⟩
      intro a ha
      rcases List.mem_cons.1 ha with rfl | ha
      · omega
      · have := hs.1 a ha; omega

theorem depth_filter_kn (k : Int × Int) (l : List Msg) : ∀ d, depth k (l.filter (isKN k)) d = depth k l d := by
  induction l with
  | nil => intro d; rfl
  | cons x xs ih =>
    intro d
    by_cases hx : isKN k x = true
    · simp only [List.filter_cons, hx, if_true, depth, ih]
    · simp only [List.filter_cons, hx, if_false, depth, ih, Bool.false_eq_true, beq_iff_eq]
      simp only [isKN, decide_eq_true_eq, not_and, not_or] at hx
      split
      · rename_i hk
        have := hx hk
        simp [this.1, this.2]
      · rfl

theorem sounding_fuse (Ein Eout : List Msg) (k : Int × Int) (t : Int)
    (hs : Ein.Pairwise (fun a b => a.time ≤ b.time))
    (hf : Eout.filter (isKN k) = fuseK k 0 Ein) : SoundingAt Eout k t ↔ SoundingAt Ein k t := by
  obtain ⟨A1, A2, h1, h2, h3⟩ := split_sorted Ein t hs
  simp only [SoundingAt]
  have hin : Ein.filter (fun m => decide (m.time ≤ t)) = A1 := by
    rw [h1, List.filter_append, List.filter_eq_self.2 (by simpa using h2),
      List.filter_eq_nil_iff.2 (by intro a ha; have := h3 a ha; simp; omega), List.append_nil]
  have hout : (Eout.filter (fun m => decide (m.time ≤ t))).filter (isKN k) = fuseK k 0 A1 := by
    rw [List.filter_filter]
    have : (fun a => isKN k a && decide (a.time ≤ t)) = (fun a => decide (a.time ≤ t) && isKN k a) := by
      funext a; exact Bool.and_comm _ _
    rw [this, ← List.filter_filter, hf, h1, fuseK_append, List.filter_append]
    have s1 := fuseK_sublist k A1 0
    have s2 := fuseK_sublist k A2 (depth k A1 0)
    rw [List.filter_eq_self.2 (by intro a ha; simpa using h2 a (s1.subset ha)),
      List.filter_eq_nil_iff.2 (by intro a ha; have := h3 a (s2.subset ha); simp; omega), List.append_nil]
  rw [hin, ← depth_filter_kn, hout]
  have := depth_fuseK k A1 0
  simp only [Nat.zero_min] at this
  rw [this]
  omega

/-! ### a second pass keeps everything -/

structure Inv2 (pre post : List Msg) (s : NormSt) : Prop where
  alt : ∀ k, (s.stk k).length ≤ 1 ∧ altFrom k (decide (s.stk k ≠ [])) post
  ts : ChainNe (s.tsNum, s.tsDen) (tsVals post)
  ks : ChainNe s.key (ksVals post)
  ev : eventsRelGo 0 (msgs s.O) = eventsRelGo 0 pre

theorem tsVals_cons (m : Msg) (l : List Msg) :
    tsVals (m :: l) = if m.ty = .timeSignature then (m.num, m.den) :: tsVals l else tsVals l := by
  by_cases h : m.ty = .timeSignature <;> simp [tsVals, h]

theorem ksVals_cons (m : Msg) (l : List Msg) :
    ksVals (m :: l) = if m.ty = .keySignature then m.key :: ksVals l else ksVals l := by
  by_cases h : m.ty = .keySignature <;> simp [ksVals, h]

theorem inv2_keep (pre post : List Msg) (s : NormSt) (m : Msg) (h : Inv2 pre (m :: post) s)
    (hw : m.ty ≠ .wait) : keep s m = true := by
  obtain ⟨alt, ts, ks, _⟩ := h
  simp only [keep]
  cases hm : m.ty with
  | wait => exact absurd hm hw
  | noteOn =>
    have := (alt m.nkey).2
    simp only [altFrom, hm, and_self, if_true] at this
    have := this.1
    simp only [decide_eq_false_iff_not, Decidable.not_not] at this
    simp [this]
  | noteOff =>
    have h1 := (alt m.nkey).1
    have := (alt m.nkey).2
    simp only [altFrom, hm, reduceCtorEq, and_false, if_false, and_self, if_true] at this
    have := this.1
    simp only [decide_eq_true_eq] at this
    have : (s.stk m.nkey).length ≠ 0 := fun h0 => this (List.eq_nil_of_length_eq_zero h0)
    simp; omega
  | timeSignature =>
    rw [tsVals_cons, if_pos hm] at ts
    have := ts.1
    simp only [bne_iff_ne, Bool.or_eq_true, ne_eq]
    by_cases h1 : m.num = s.tsNum
    · by_cases h2 : m.den = s.tsDen
      · exact absurd (by rw [h1, h2]) this
      · exact Or.inr h2
    · exact Or.inl h1
  | keySignature =>
    rw [ksVals_cons, if_pos hm] at ks
    have := ks.1
    simp only [bne_iff_ne, ne_eq]
    exact fun h => this h.symm
  | _ => rfl

theorem inv2_step (pre post : List Msg) (s : NormSt) (m : Msg) (hT : InvT pre s)
    (h : Inv2 pre (m :: post) s) : Inv2 (pre ++ [m]) post (normStep s m) := by
  have hkeep := inv2_keep pre post s m h
  obtain ⟨alt, ts, ks, ev⟩ := h
  refine ⟨?_, ?_, ?_, ?_⟩
  · intro k
    obtain ⟨hlen, halt⟩ := alt k
    rcases stk_cases s m k with ⟨hmk, hon, hst⟩ | ⟨hmk, hoff, hst⟩ | ⟨hno, hst⟩
    · simp only [altFrom, hmk, hon, and_self, if_true] at halt
      have := halt.1
      simp only [decide_eq_false_iff_not, Decidable.not_not] at this
      rw [hst, this]
      simp
      exact halt.2
    · simp only [altFrom, hmk, hoff, reduceCtorEq, and_false, if_false, and_self, if_true] at halt
      have := halt.1
      simp only [decide_eq_true_eq] at this
      rw [hst]
      rcases hs : s.stk k with _ | ⟨i0, _ | ⟨i1, rest⟩⟩
      · exact absurd hs this
      · simp
        exact halt.2
      · rw [hs] at hlen; simp at hlen
    · rw [hst]
      refine ⟨hlen, ?_⟩
      simp only [altFrom] at halt
      have h1 : ¬ (m.nkey = k ∧ m.ty = .noteOn) := fun hh => hno ⟨hh.1, Or.inl hh.2⟩
      have h2 : ¬ (m.nkey = k ∧ m.ty = .noteOff) := fun hh => hno ⟨hh.1, Or.inr hh.2⟩
      rw [if_neg h1, if_neg h2] at halt
      exact halt
  · rw [step_ts]
    rw [tsVals_cons] at ts
    split
    · rename_i hm; rw [if_pos hm] at ts; exact ts.2
    · rename_i hm; rw [if_neg hm] at ts; exact ts
  · rw [step_key]
    rw [ksVals_cons] at ks
    split
    · rename_i hm; rw [if_pos hm] at ks; exact ks.2
    · rename_i hm; rw [if_neg hm] at ks; exact ks
  · have hsn := events_snoc pre m 0
    simp only [Int.zero_add] at hsn
    rw [step_events pre s m hT, hsn, ev]
    congr 1
    by_cases hw : m.ty = .wait
    · have : keep s m = false := by simp [keep, hw]
      simp [hw, this]
    · simp [hw, hkeep hw]

theorem normalise_events_id (l : List Msg) (hnn : NonNegWaits l) (hwf : WF l)
    (hts : ChainNe (pyNone, pyNone) (tsVals l)) (hks : ChainNe pyNone (ksVals l)) :
    eventsRel (normalise l) = eventsRel l := by
  have ⟨hA, _, _⟩ := inv_basic l
  have := fold_inv (fun pre post s => NonNegWaits (pre ++ post) → InvT pre s ∧ Inv2 pre post s)
    (fun pre m post s h hnn => by
      have hnn' : NonNegWaits (pre ++ m :: post) := by simpa using hnn
      have ⟨hT, h2⟩ := h hnn'
      have hm : m.ty = .wait → 0 ≤ m.time := hnn' m (by simp)
      exact ⟨invT_step pre s m hm hT, inv2_step pre post s m hT h2⟩) l [] {}
      (fun _ => ⟨invT_init, ⟨fun k => ⟨by simp [init_stk], by simpa [init_stk] using hwf k⟩, hts, hks, rfl⟩⟩)
  simp only [List.nil_append, List.append_nil] at this
  obtain ⟨_, h2⟩ := this hnn
  have hemp : ∀ k, (l.foldl normStep {}).stk k = [] := by
    intro k
    have := (h2.alt k).2
    simp only [altFrom, decide_eq_false_iff_not, Decidable.not_not] at this
    exact this
  rw [normalise_eq, List.filter_eq_self.2 (fun e _ => Q_true_of_empty hA hemp e)]
  simp only [eventsRel]
  rw [events_full]
  exact h2.ev

end SCoda
