/-
  Helper lemmas for Props/TokTie2.lean (audit round 4, item C6, first bullet).

  `tokenise` (notelike_tokenisation.py:149) calls `sequence_bar.get_interleaved_message_pairings([...])` WITHOUT a
  `standard_length`, so the length of an imputed note-off is the module constant `PPQN` (= `Gen.ppqn` = 24), while the bar
  capacities use the object's `self.ppqn`.  The property theorems are about `extract c.ppqn tracks`.  This file shows that the
  `standard_length` argument is NOT OBSERVABLE on tracks with non-negative waits: `Sequence.merge` sorts and normalises first,
  after which every note-on of the list the pairings are read from is followed by its note-off, so `closeUnclosed` never fires.

  * `final_wf_any`   : the sorted list the pairings are read from is well-formed (`Roll.WF`), for ANY tracks that satisfy
                       `OkRel` (non-negative waits, no INTERNAL message) — overlapping, unclosed, unopened, zero-length notes
                       included (the existing `ExtractL.final_wf` needs every track well-formed with notes of positive length);
  * `pairingsSorted_std` : on a well-formed list `get_message_pairings` does not depend on `standard_length`;
  * `extract_ppqn_irrel` : `extract p tracks = extract q tracks`.
-/
import SCoda.Lemmas.ExtractL
import SCoda.Lemmas.GlueL8
namespace SCoda.TokPpqnL
open SCoda SCoda.ExtractL SCoda.E2E SCoda.MergeL SCoda.EQ SCoda.GlueAux

/-- the note events of the normalised merge, in list order, are sorted by the key `sortAbs` sorts by: they are a sub-list
    of the merged (sorted) absolute list -/
theorem events_mergeRel_sorted (as : List (List Msg)) (h : ∀ a ∈ as, OkAbs a) :
    (eventsRel (C15.mergeRel as)).Pairwise KLe := by
  have hU := okAbs_sort as h
  have hev : eventsRel (toRel (sortAbs as.flatten)) = eventsAbs (sortAbs as.flatten) := C04.toRel_events _ hU
  have hnn : NonNegWaits (toRel (sortAbs as.flatten)) := (C04.toRel_ok _ hU).1
  have hsub : (eventsRel (C15.mergeRel as)).Sublist (eventsAbs (sortAbs as.flatten)) := by
    rw [← hev]; exact normalise_events_sublist _ hnn
  have hs : (eventsAbs (sortAbs as.flatten)).Pairwise KLe :=
    (sortAbs_sorted as.flatten).sublist List.filter_sublist
  exact hs.sublist hsub

/-- **the sorted list the pairings are read from is well-formed, for any `OkRel` tracks** -/
theorem final_wf_any (tracks : List (List Msg)) (hok : ∀ t ∈ tracks, OkRel t) : WF (sortAbs (final tracks)) := by
  intro k
  rw [← altFrom_filter_kn]
  have hsorted := events_mergeRel_sorted (abss tracks) (abss_ok tracks hok)
  have hP : (P k (eventsRel (C15.mergeRel (abss tracks)))).Pairwise KLe := hsorted.sublist List.filter_sublist
  have e : (sortAbs (final tracks)).filter (isKN k) = P k (eventsRel (C15.mergeRel (abss tracks))) := by
    show P k (sortAbs (final tracks)) = _
    rw [P_sortAbs, final_eq, eventsAbs_toAbs_P, sortAbs_idem]
    exact isort_of_pairwise keyLe _ hP
  rw [e]
  show altFrom k false ((eventsRel (C15.mergeRel (abss tracks))).filter (isKN k))
  rw [altFrom_filter_kn]
  exact (GlueL.altFrom_events k _ 0 false).2 (normalise_wf _ k)

/-- on a well-formed list `get_message_pairings` never closes a note itself: the result is the plain fold, whatever
    `standard_length` is -/
theorem pairingsSorted_std (T : List MType) (hon : T.contains .noteOn = true) (hoff : T.contains .noteOff = true)
    (std : Int) (l : List Msg) (hwf : WF l) :
    pairingsSorted T std true l = (l.foldl (pairStep T true) {}).pairs := by
  obtain ⟨os', g1, g2, _, _⟩ :=
    NotesL.fold_sim T hon hoff l l {} [] (NotesL.J_init l) (fun k => hwf k) (fun _ h => h)
  have hcl : ∀ c ∈ (l.foldl (pairStep T true) {}).pairs, ∀ p ∈ c.2, NotesL.Closed l c.1 p := by
    intro c hc p hp
    have hget := NL.get?_of_mem _ c g1.knp hc
    obtain ⟨j, hj⟩ := List.getElem?_of_mem hp
    rcases g1.A c.1 c.2 hget j p hj with ⟨on, _, _, _, _, h5⟩ | h | h
    · rw [g2] at h5; cases h5
    · exact Or.inl h
    · exact Or.inr h
  unfold pairingsSorted
  conv => rhs; rw [← List.map_id (l.foldl (pairStep T true) {}).pairs]
  apply List.map_congr_left
  intro c hc
  obtain ⟨k, ps⟩ := c
  simp only [id, Prod.mk.injEq, true_and]
  conv => rhs; rw [← List.map_id ps]
  apply List.map_congr_left
  intro p hp
  exact NotesL.closeUnclosed_closed std (hcl _ hc p hp)

/-- **`standard_length` is not observable through `tokenise`'s glue**: on tracks with non-negative waits (and no INTERNAL
    message) the interleaved pairings do not depend on the length used for unclosed notes — there are none left after the
    merge has normalised the piece. -/
theorem extract_ppqn_irrel (p q : Int) (tracks : List (List Msg)) (hok : ∀ t ∈ tracks, OkRel t) :
    extract p tracks = extract q tracks := by
  have hwf := final_wf_any tracks hok
  have e : ∀ s, pairings extractTypes s true (final tracks)
      = ((sortAbs (final tracks)).foldl (pairStep extractTypes true) {}).pairs :=
    fun s => pairingsSorted_std extractTypes rfl rfl s _ hwf
  rw [extract_eq, extract_eq]
  unfold interleaved
  simp only [e]

end SCoda.TokPpqnL
