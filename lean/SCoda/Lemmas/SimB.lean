/-
  Helper lemmas for C01b that only mention the model: `largestLe` on an ascending list is the largest
  step below the bound, multiples of the grid step, and success of the greedy rest decomposition
  `applyRest` on the grid.
-/
import SCoda.Lemmas.Sim
namespace SCoda.SimB
open SCoda

/-! ### arithmetic of multiples -/

theorem sub_mod {a b g : Int} (ha : a % g = 0) (hb : b % g = 0) : (a - b) % g = 0 :=
  Int.emod_eq_zero_of_dvd (Int.dvd_sub (Int.dvd_of_emod_eq_zero ha) (Int.dvd_of_emod_eq_zero hb))

theorem add_mod {a b g : Int} (ha : a % g = 0) (hb : b % g = 0) : (a + b) % g = 0 :=
  Int.emod_eq_zero_of_dvd (Int.dvd_add (Int.dvd_of_emod_eq_zero ha) (Int.dvd_of_emod_eq_zero hb))

theorem le_of_pos_mod {n g : Int} (hn : 0 < n) (hng : n % g = 0) : g ≤ n :=
  Int.le_of_dvd hn (Int.dvd_of_emod_eq_zero hng)

/-- the next multiple of `g` above a non-multiple `v` is still below any multiple of `g` above `v` -/
theorem next_multiple (g v n : Int) (hg : 0 < g) (hv : v % g ≠ 0) (hn : n % g = 0) (hvn : v ≤ n) :
    v < (v / g + 1) * g ∧ (v / g + 1) * g ≤ n := by
  have h1 : g * (v / g) + v % g = v := Int.mul_ediv_add_emod v g
  have h2 : 0 ≤ v % g := Int.emod_nonneg _ (by omega)
  have h3 : v % g < g := Int.emod_lt_of_pos _ hg
  have h4 : g * (n / g) = n := Int.mul_ediv_cancel' (Int.dvd_of_emod_eq_zero hn)
  have h5 : (v / g + 1) * g = g * (v / g) + g := by
    rw [Int.add_mul, Int.one_mul, Int.mul_comm]
  rw [h5]
  refine ⟨by omega, ?_⟩
  have h6 : v / g + 1 ≤ n / g := by
    refine Decidable.byContradiction fun hneg => ?_
    have : n / g ≤ v / g := by omega
    have := Int.mul_le_mul_of_nonneg_left this (Int.le_of_lt hg)
    omega
  have h7 := Int.mul_le_mul_of_nonneg_left h6 (Int.le_of_lt hg)
  rw [Int.mul_add, Int.mul_one] at h7
  omega

/-! ### `largestLe` on an ascending list -/

theorem largestLe_go_max (n : Int) (steps : List Int) (best : Option Int)
    (hsort : steps.Pairwise (· < ·))
    (hbest : ∀ b, best = some b → b ≤ n ∧ ∀ s ∈ steps, b < s)
    (hex : best.isSome = true ∨ ∃ s ∈ steps, s ≤ n) :
    ∃ v, steps.foldl (fun best s => if n >= s then some s else best) best = some v ∧ v ≤ n
      ∧ (best = some v ∨ v ∈ steps) ∧ (∀ s ∈ steps, s ≤ n → s ≤ v) ∧ (∀ b, best = some b → b ≤ v) := by
  induction steps generalizing best with
  | nil =>
    rcases hex with h | ⟨s, hs, _⟩
    · obtain ⟨b, hb⟩ := Option.isSome_iff_exists.1 h
      subst hb
      exact ⟨b, rfl, (hbest b rfl).1, Or.inl rfl, by simp, fun b' hb' => by cases hb'; exact Int.le_refl _⟩
    · simp at hs
  | cons s ss ih =>
    rw [List.pairwise_cons] at hsort
    simp only [List.foldl_cons]
    by_cases hns : n ≥ s
    · rw [if_pos hns]
      obtain ⟨v, e1, e2, e3, e4, e5⟩ := ih (some s) hsort.2
        (fun b hb => by cases hb; exact ⟨hns, fun t ht => hsort.1 t ht⟩) (Or.inl rfl)
      have hsv : s ≤ v := e5 s rfl
      refine ⟨v, e1, e2, ?_, ?_, ?_⟩
      · rcases e3 with h | h
        · cases h; exact Or.inr (by simp)
        · exact Or.inr (by simp [h])
      · intro t ht htn
        rcases List.mem_cons.1 ht with rfl | ht
        · exact hsv
        · exact e4 t ht htn
      · intro b hb
        have := (hbest b hb).2 s (by simp)
        omega
    · rw [if_neg hns]
      obtain ⟨v, e1, e2, e3, e4, e5⟩ := ih best hsort.2
        (fun b hb => ⟨(hbest b hb).1, fun t ht => (hbest b hb).2 t (by simp [ht])⟩)
        (by
          rcases hex with h | ⟨t, ht, htn⟩
          · exact Or.inl h
          · rcases List.mem_cons.1 ht with rfl | ht
            · omega
            · exact Or.inr ⟨t, ht, htn⟩)
      refine ⟨v, e1, e2, ?_, ?_, e5⟩
      · rcases e3 with h | h
        · exact Or.inl h
        · exact Or.inr (by simp [h])
      · intro t ht htn
        rcases List.mem_cons.1 ht with rfl | ht
        · omega
        · exact e4 t ht htn

/-- on an ascending list with some step `≤ n`, `largestLe` finds the largest such step -/
theorem largestLe_max (steps : List Int) (n : Int) (hsort : steps.Pairwise (· < ·)) (hex : ∃ s ∈ steps, s ≤ n) :
    ∃ v, largestLe steps n = some v ∧ v ∈ steps ∧ v ≤ n ∧ ∀ s ∈ steps, s ≤ n → s ≤ v := by
  obtain ⟨v, e1, e2, e3, e4, _⟩ := largestLe_go_max n steps none hsort (by simp) (Or.inr hex)
  refine ⟨v, e1, ?_, e2, e4⟩
  rcases e3 with h | h
  · cases h
  · exact h

theorem getLast_max (steps : List Int) (last : Int) (hsort : steps.Pairwise (· < ·))
    (hl : steps.getLast? = some last) : ∀ s ∈ steps, s ≤ last := by
  induction steps with
  | nil => simp
  | cons a as ih =>
    rw [List.pairwise_cons] at hsort
    cases as with
    | nil =>
      simp at hl; subst hl; simp
    | cons b bs =>
      rw [List.getLast?_cons_cons] at hl
      have := ih hsort.2 hl
      intro s hs
      rcases List.mem_cons.1 hs with rfl | hs
      · have h1 := hsort.1 last (List.mem_of_getLast? hl)
        omega
      · exact this s hs

/-! ### one successful iteration of `applyRest` on the grid -/

/-- the grid condition, unbundled (bundled as `GridOk` in Props/C01b) -/
structure Grid (steps : List Int) (g : Int) : Prop where
  pos : 0 < g
  mem : g ∈ steps
  least : ∀ s ∈ steps, g ≤ s
  dominated : ∀ s ∈ steps, s % g = 0 ∨ (s / g + 1) * g ∈ steps
  sorted : steps.Pairwise (· < ·)

theorem applyRest_succ (c : Cfg) (g : Int) (hg : Grid c.steps g) (cap : Int) (fuel : Nat) (buf cur bar rem : Int)
    (acc : List Tok) (hb : 0 < buf) (hbg : buf % g = 0) (hrem : 0 < rem) (hremg : rem % g = 0) :
    ∃ v, 0 < v ∧ v ≤ buf ∧ v ≤ rem ∧ v % g = 0 ∧
      applyRest c cap (fuel + 1) buf (cur, bar, rem) acc =
        if rem - v = 0 then applyRest c cap fuel (buf - v) (cur + v, 0, cap) (Tok.bar :: Tok.rest v :: acc)
        else applyRest c cap fuel (buf - v) (cur + v, bar + v, rem - v) (Tok.rest v :: acc) := by
  have hnxt0 : 0 < min buf rem := by omega
  have hnxtg : (min buf rem) % g = 0 := by
    rcases Int.le_total buf rem with h | h
    · rw [Int.min_eq_left h]; exact hbg
    · rw [Int.min_eq_right h]; exact hremg
  have hgn : g ≤ min buf rem := le_of_pos_mod hnxt0 hnxtg
  obtain ⟨last, hlast⟩ : ∃ last, c.steps.getLast? = some last := by
    cases h : c.steps.getLast? with
    | none =>
      rw [List.getLast?_eq_none_iff] at h
      have := hg.mem; rw [h] at this; simp at this
    | some l => exact ⟨l, rfl⟩
  have hany : c.steps.any (fun s => decide (min buf rem ≥ s)) = true := by
    rw [List.any_eq_true]
    exact ⟨g, hg.mem, by simpa using hgn⟩
  -- the chosen step
  have hv : ∃ v, (if min buf rem > last then some last else largestLe c.steps (min buf rem)) = some v
      ∧ v ∈ c.steps ∧ v ≤ min buf rem ∧ v % g = 0 := by
    by_cases hgt : min buf rem > last
    · rw [if_pos hgt]
      have hlm := List.mem_of_getLast? hlast
      refine ⟨last, rfl, hlm, by omega, ?_⟩
      rcases hg.dominated last hlm with h | h
      · exact h
      · refine Decidable.byContradiction fun hne => ?_
        have := (next_multiple g last (min buf rem) hg.pos hne hnxtg (by omega)).1
        have := getLast_max c.steps last hg.sorted hlast _ h
        omega
    · rw [if_neg hgt]
      obtain ⟨v, e1, e2, e3, e4⟩ := largestLe_max c.steps (min buf rem) hg.sorted ⟨g, hg.mem, hgn⟩
      refine ⟨v, e1, e2, e3, ?_⟩
      rcases hg.dominated v e2 with h | h
      · exact h
      · refine Decidable.byContradiction fun hne => ?_
        obtain ⟨n1, n2⟩ := next_multiple g v (min buf rem) hg.pos hne hnxtg e3
        have := e4 _ h n2
        omega
  obtain ⟨v, hv1, hv2, hv3, hv4⟩ := hv
  have hvpos : 0 < v := by have := hg.least v hv2; have := hg.pos; omega
  refine ⟨v, hvpos, by omega, by omega, hv4, ?_⟩
  simp only [applyRest]
  rw [if_pos hb]
  simp only [hlast, hany, Bool.or_true, Bool.not_true, Bool.false_eq_true, if_false, hv1]
  by_cases hz : rem - v = 0
  · rw [if_pos hz, if_pos (by simp [hz])]
  · rw [if_neg hz, if_neg (by simp [hz])]

/-- the greedy rest decomposition succeeds on the grid; the new clock stays on the grid -/
theorem applyRest_grid (c : Cfg) (g : Int) (hg : Grid c.steps g) (cap : Int) (hcap : 0 < cap) (hcg : cap % g = 0)
    (fuel : Nat) (buf cur bar rem : Int) (acc : List Tok) (hf : buf.toNat < fuel ∨ buf ≤ 0)
    (hbg : buf % g = 0) (hrem : 0 < rem) (hremg : rem % g = 0) :
    ∃ bar' rem' acc', applyRest c cap fuel buf (cur, bar, rem) acc = .ok ((cur + max buf 0, bar', rem'), acc')
      ∧ 0 < rem' ∧ rem' % g = 0 := by
  induction fuel generalizing buf cur bar rem acc with
  | zero =>
    have : buf ≤ 0 := by omega
    rw [Sim.applyRest_nonpos _ _ _ _ _ _ this]
    exact ⟨bar, rem, acc, by rw [Int.max_eq_right this, Int.add_zero], hrem, hremg⟩
  | succ fuel ih =>
    by_cases hb : buf ≤ 0
    · rw [Sim.applyRest_nonpos _ _ _ _ _ _ hb]
      exact ⟨bar, rem, acc, by rw [Int.max_eq_right hb, Int.add_zero], hrem, hremg⟩
    · obtain ⟨v, v1, v2, v3, v4, v5⟩ := applyRest_succ c g hg cap fuel buf cur bar rem acc (by omega) hbg hrem hremg
      rw [v5]
      by_cases hz : rem - v = 0
      · rw [if_pos hz]
        obtain ⟨bar', rem', acc', e1, e2, e3⟩ := ih (buf - v) (cur + v) 0 cap (Tok.bar :: Tok.rest v :: acc)
          (by omega) (sub_mod hbg v4) hcap hcg
        refine ⟨bar', rem', acc', ?_, e2, e3⟩
        rw [e1]
        have : cur + v + max (buf - v) 0 = cur + max buf 0 := by omega
        rw [this]
      · rw [if_neg hz]
        obtain ⟨bar', rem', acc', e1, e2, e3⟩ := ih (buf - v) (cur + v) (bar + v) (rem - v) (Tok.rest v :: acc)
          (by omega) (sub_mod hbg v4) (by omega) (sub_mod hremg v4)
        refine ⟨bar', rem', acc', ?_, e2, e3⟩
        rw [e1]
        have : cur + v + max (buf - v) 0 = cur + max buf 0 := by omega
        rw [this]

end SCoda.SimB
