/-
  Helper lemmas for `Props/Strong589B.lean` (audit item A6(b), property C09), file 2 of 2: track side of
  `sequences_split_bars`.
  * time-signature events through `split t [c]`; one round on one track succeeds (re-quantisation off and on);
    the loop along the input-level bar grid never raises (`splitBars_ok`);
  * the zero-length-bar branch: `split t [0]`, stuck tracks, `splitBars_zero_first`, `splitBars_zero_at`.
-/
import SCoda.Lemmas.Strong589LB
namespace SCoda.Strong589LB
open SCoda SCoda.SplitL SCoda.SB SCoda.BarL

/-! ### non-note events of the pieces of `split t [c]` -/

/-- every non-note event of a piece closed by `splitInner` happens strictly before the cut -/
theorem splitInner_early (c A : Int) (hc : 0 < c) (fuel : Nat) (s s' : SplitSt) (hcur : s.cur = [])
    (hq : s.queue = []) (hw : NonNegWaits s.wm) (h : splitInner fuel c s = .ok s') :
    ∀ p ∈ s'.pieces, p ∈ s.pieces ∨ ∀ e ∈ N A p, e.time < A + c := by
  refine splitInner_invB c
    (fun _ s0 => s0.pieces = s.pieces ∧ ∀ e ∈ N A s0.cur.reverse, e.time < A + c)
    (fun s' => ∀ p ∈ s'.pieces, p ∈ s.pieces ∨ ∀ e ∈ N A p, e.time < A + c)
    ?_ ?_ ?_ ?_ ?_ ?_ fuel c s s' (base_init c hc s hcur hq hw) ⟨rfl, by simp [hcur, N_nil]⟩ h
  · intro rem cur queue opens pieces hB ⟨hP, hE⟩ p hp
    simp only at hP hE hp
    split at hp
    · left; rw [← hP]; exact hp
    · rcases List.mem_cons.1 hp with rfl | hp
      · right; exact hE
      · left; rw [← hP]; exact hp
  · intro rem m wm cur opens pieces hB ⟨hP, hE⟩ _ hwt hrem
    refine ⟨hP, ?_⟩
    simp only [List.reverse_cons] at hE ⊢
    intro e he
    rw [N_append] at he
    rcases List.mem_append.1 he with he | he
    · exact hE e he
    · have ht := N_time_nowait _ [m] (by simpa using hwt) e he
      have htc := hB.tw_cur
      simp only at htc
      rw [totalWait_reverse] at ht
      omega
  · intro m wm cur queue opens pieces hB hP _ _
    exact hP
  · intro rem m wm cur queue opens pieces hB ⟨hP, hE⟩ hm
    refine ⟨hP, ?_⟩
    simp only [List.reverse_cons] at hE ⊢
    intro e he
    rw [N_append, N_cons_note _ _ _ (Or.inr hm), N_nil, List.append_nil] at he
    exact hE e he
  · intro rem m wm cur queue opens pieces hB ⟨hP, hE⟩ hm _ _ _
    refine ⟨hP, ?_⟩
    simp only [List.reverse_cons] at hE ⊢
    intro e he
    rw [N_append, N_cons_wait _ _ _ hm, N_nil, List.append_nil] at he
    exact hE e he
  · intro rem m wm cur queue opens pieces hB ⟨hP, hE⟩ hm hr p hp
    simp only at hP hE hp
    split at hp
    · left; rw [← hP]; exact hp
    · rcases List.mem_cons.1 hp with rfl | hp
      · right
        intro e he
        unfold closedPiece at he
        rw [N_append] at he
        rcases List.mem_append.1 he with he | he
        · exact hE e he
        · exfalso
          rw [N_append, N_offs, List.append_nil] at he
          split at he
          · rw [N_mkWait, N_nil] at he; cases he
          · rw [N_nil] at he; cases he
      · left; rw [← hP]; exact hp

/-- **non-note events through `split r [c]`** (`0 < c`, clock `A` at the start of `r`): at most two pieces; the
    first lasts at most `c` and holds only events strictly before `A + c`, the events of the pieces are events of
    `r` at the same ticks -/
theorem split_one_sig (r : List Msg) (c A : Int) (pieces : List (List Msg)) (h : split r [c] = .ok pieces)
    (hc : 0 < c) (hw : NonNegWaits r) :
    pieces = [] ∨
    (∃ p, pieces = [p] ∧ NonNegWaits p ∧ durRel p ≤ c ∧ (∀ e ∈ N A p, e ∈ N A r ∧ e.time < A + c)) ∨
    (∃ p q, pieces = [p, q] ∧ NonNegWaits p ∧ durRel p = c ∧ NonNegWaits q ∧
      (∀ e ∈ N A p, e ∈ N A r ∧ e.time < A + c) ∧ (∀ e ∈ N (A + c) q, e ∈ N A r)) := by
  have hdur := split_one r c pieces h hc hw
  obtain ⟨s, hs, rfl⟩ := split_eq r [c] pieces h
  have h1 := splitOuter_one hs
  obtain ⟨hc1, _, hw1, np, hp1, hl1, ht1, hsub, hd1⟩ := splitInner_timing c A hc _ _ s rfl rfl hw h1
  have hnn := splitInner_nnw c hc _ _ s rfl rfl hw h1
  have hearly := splitInner_early c A hc _ _ s rfl rfl hw h1
  simp only [List.append_nil] at hp1 ht1 hsub hd1 hnn hearly
  have hnp : ∀ p ∈ np, NonNegWaits p ∧ ∀ e ∈ N A p, e.time < A + c := by
    intro p hp
    refine ⟨?_, ?_⟩
    · rcases hnn p (by rw [hp1]; exact hp) with h0 | h0
      · simp at h0
      · exact h0
    · rcases hearly p (by rw [hp1]; exact hp) with h0 | h0
      · simp at h0
      · exact h0
  have hrev : np.reverse = np := reverse_short np hl1
  rw [hc1, hp1] at hdur ⊢
  simp only [List.reverse_nil, List.nil_append] at hdur ⊢
  by_cases hwm : s.wm = []
  · simp only [hwm, if_true, List.append_nil] at hdur hsub ⊢
    rw [hrev] at hdur ⊢
    rcases np with _ | ⟨p, _ | ⟨q, tl⟩⟩
    · left; rfl
    · right; left
      obtain ⟨hpn, hpe⟩ := hnp p (by simp)
      refine ⟨p, rfl, hpn, ?_, ?_⟩
      · rcases hdur with ⟨hle, _, hfl⟩ | ⟨_, p', q', hpq, _⟩
        · simp only [List.flatten_cons, List.flatten_nil, List.append_nil] at hfl
          omega
        · simp at hpq
      · intro e he
        simp only [List.flatten_cons, List.flatten_nil, List.append_nil] at hsub
        exact ⟨hsub.subset he, hpe e he⟩
    · simp at hl1
  · simp only [hwm, if_false, List.reverse_cons, hrev] at hdur ⊢
    right; right
    rcases hd1 with ⟨p, rfl, hpc, hN⟩ | ⟨hwm', _⟩
    · obtain ⟨hpn, hpe⟩ := hnp p (by simp)
      rw [N_append, hpc] at hN
      refine ⟨p, s.wm, by simp, hpn, hpc, hw1, ?_, ?_⟩
      · intro e he
        exact ⟨by rw [← hN]; exact List.mem_append_left _ he, hpe e he⟩
      · intro e he
        rw [← hN]; exact List.mem_append_right _ he
    · exact absurd hwm' hwm

/-! ### time-signature messages of a list and its timed events -/

theorem N_cons_other (a : Int) (m : Msg) (l : List Msg) (hw : m.ty ≠ .wait) (hon : m.ty ≠ .noteOn)
    (hoff : m.ty ≠ .noteOff) : N a (m :: l) = { m with time := a } :: N a l := by
  simp [N, eventsRelGo, hw, nonNotes, hon, hoff]

theorem N_cons_subset (a : Int) (m : Msg) (l : List Msg) (hw : m.ty ≠ .wait) : ∀ e ∈ N a l, e ∈ N a (m :: l) := by
  intro e he
  simp only [N, nonNotes, eventsRelGo_cons_nowait a m l hw, List.filter_cons] at he ⊢
  split
  · exact List.mem_cons_of_mem _ he
  · exact he

/-- a time-signature message of a relative list shows up among its timed non-note events, with its values -/
theorem mem_N_of_mem (l : List Msg) : ∀ (A : Int) (m : Msg), m ∈ l → m.ty = .timeSignature →
    ∃ e ∈ N A l, e.ty = .timeSignature ∧ e.num = m.num ∧ e.den = m.den := by
  induction l with
  | nil => intro A m hm; cases hm
  | cons x xs ih =>
    intro A m hm hts
    by_cases hw : x.ty = .wait
    · rcases List.mem_cons.1 hm with rfl | hm
      · rw [hts] at hw; cases hw
      · rw [N_cons_wait A x xs hw]
        exact ih _ m hm hts
    · rcases List.mem_cons.1 hm with rfl | hm
      · rw [N_cons_other A m xs hw (by rw [hts]; simp) (by rw [hts]; simp)]
        exact ⟨_, List.mem_cons_self, hts, rfl, rfl⟩
      · obtain ⟨e, he, h1, h2, h3⟩ := ih A m hm hts
        exact ⟨e, N_cons_subset A x xs hw e he, h1, h2, h3⟩

theorem dedupD_subset {β} [DecidableEq β] (l : List β) : ∀ (p x : β), x ∈ dedupD p l → x ∈ l := by
  induction l with
  | nil => intro p x h; simp [dedupD] at h
  | cons y ys ih =>
    intro p x h
    simp only [dedupD] at h
    split at h
    · exact List.mem_cons_of_mem _ (ih p x h)
    · rcases List.mem_cons.1 h with rfl | h
      · exact List.mem_cons_self
      · exact List.mem_cons_of_mem _ (ih y x h)

/-- `Bar(...)` accepts a piece that is not longer than the bar and whose time signatures all equal the bar's -/
theorem mkBar_accepts (ppqn : Int) (first : List Msg) (n d key : Int) (hw : NonNegWaits first)
    (hdur : durRel first ≤ barCapacity ppqn n d)
    (hsig : ∀ m ∈ first, m.ty = .timeSignature → (m.num, m.den) = (n, d)) :
    ∃ b, mkBar ppqn first n d key = .ok b := by
  have hvals : ∀ x ∈ tsVals first, x = (n, d) := by
    intro x hx
    simp only [tsVals, List.mem_map, List.mem_filter, beq_iff_eq] at hx
    obtain ⟨m, ⟨hm, hty⟩, rfl⟩ := hx
    exact hsig m hm hty
  have hmap := barSigs_vals ppqn first n d
  refine ⟨_, mkBar_ok_of key ?_ ?_ ?_⟩
  · rw [normalise_totalWait first hw]; exact hdur
  · have := dedupD_const_length (n, d) (tsVals first) hvals (pyNone, pyNone)
    rw [← hmap, List.length_map] at this
    exact this
  · intro m hm
    have hmem : (m.num, m.den) ∈ dedupD (pyNone, pyNone) (tsVals first) := by
      rw [← hmap]; exact List.mem_map.2 ⟨m, hm, rfl⟩
    have := hvals _ (dedupD_subset _ _ _ hmem)
    simp only [Prod.mk.injEq] at this
    exact this

/-! ### one round on one track -/

theorem trackStep_of {ppqn : Int} {values : List Int} {requant : Bool} {g : Sg} {t : List Msg}
    {pieces : List (List Msg)} (hs : split t [sgLen ppqn g] = .ok pieces) (first rest piece : List Msg) (two : Bool)
    (bar : Bar)
    (hshape : (pieces = [] ∧ first = [] ∧ rest = [] ∧ two = false) ∨ (pieces = [first] ∧ rest = [] ∧ two = false) ∨
      (∃ tl, pieces = first :: rest :: tl ∧ two = true))
    (hrq : requantPiece values ppqn requant first = .ok piece) (hmk : mkBar ppqn piece g.1 g.2.1 g.2.2 = .ok bar) :
    trackStep ppqn values requant g t = .ok (two, rest, bar) := by
  unfold trackStep
  simp only [bind, Except.bind, hs]
  rcases hshape with ⟨rfl, rfl, rfl, rfl⟩ | ⟨rfl, rfl, rfl⟩ | ⟨tl, rfl, rfl⟩
  all_goals simp only [hrq, hmk]

/-- **one round on one track succeeds** (re-quantisation off): positive bar length, non-negative waits, and every
    time signature of the track that falls inside the bar equals the bar's.  The remainder keeps the later events. -/
theorem trackStep_ok_false (ppqn : Int) (values : List Int) (g : Sg) (t : List Msg) (A : Int)
    (hc : 0 < sgLen ppqn g) (hw : NonNegWaits t)
    (hsig : ∀ e ∈ N A t, e.ty = .timeSignature → e.time < A + sgLen ppqn g → (e.num, e.den) = (g.1, g.2.1)) :
    ∃ o, trackStep ppqn values false g t = .ok o ∧ ∀ e ∈ N (A + sgLen ppqn g) o.2.1, e ∈ N A t := by
  obtain ⟨pieces, hs⟩ := C08.split_total t [sgLen ppqn g]
  have hfirst : ∀ first : List Msg, NonNegWaits first → durRel first ≤ sgLen ppqn g →
      (∀ e ∈ N A first, e ∈ N A t ∧ e.time < A + sgLen ppqn g) →
      ∃ b, mkBar ppqn first g.1 g.2.1 g.2.2 = .ok b := by
    intro first hfw hfd hfe
    apply mkBar_accepts ppqn first g.1 g.2.1 g.2.2 hfw hfd
    intro m hm hts
    obtain ⟨e, he, h1, h2, h3⟩ := mem_N_of_mem first A m hm hts
    obtain ⟨h4, h5⟩ := hfe e he
    rw [← h2, ← h3]
    exact hsig e h4 h1 h5
  rcases split_one_sig t _ A pieces hs hc hw with rfl | ⟨p, rfl, hpn, hpd, hpe⟩ | ⟨p, q, rfl, hpn, hpd, hqn, hpe, hqe⟩
  · obtain ⟨b, hb⟩ := hfirst [] (by simp [NonNegWaits]) (by simp [durRel, totalWait]; omega) (by simp [N_nil])
    exact ⟨(false, [], b), trackStep_of hs [] [] [] false b (Or.inl ⟨rfl, rfl, rfl, rfl⟩) rfl hb, by simp [N_nil]⟩
  · obtain ⟨b, hb⟩ := hfirst p hpn hpd hpe
    exact ⟨(false, [], b), trackStep_of hs p [] p false b (Or.inr (Or.inl ⟨rfl, rfl, rfl⟩)) rfl hb, by simp [N_nil]⟩
  · obtain ⟨b, hb⟩ := hfirst p hpn (by omega) hpe
    exact ⟨(true, q, b), trackStep_of hs p q p true b (Or.inr (Or.inr ⟨[], rfl, rfl⟩)) rfl hb, hqe⟩

/-- the fold over the tracks succeeds if every track's round does -/
theorem fold_total (ppqn : Int) (values : List Int) (requant : Bool) (g : Sg) (zs : List (List Msg × List Bar))
    (h : ∀ z ∈ zs, ∃ o, trackStep ppqn values requant g z.1 = .ok o) :
    ∀ acc, ∃ acc', foldlM' (foldBody ppqn values requant g) acc zs = .ok acc' := by
  induction zs with
  | nil => intro acc; exact ⟨acc, rfl⟩
  | cons z zs ih =>
    intro acc
    obtain ⟨o, ho⟩ := h z List.mem_cons_self
    simp only [foldlM']
    rw [foldBody_eq, ho]
    simp only [Except.bind]
    exact ih (fun z' hz' => h z' (List.mem_cons_of_mem _ hz')) _

/-! ### the signature in force is constant inside a bar of the grid -/

theorem sigInForce_in_bar (ppqn : Int) (sigs : List Msg) (hnn : NonNegBars ppqn sigs)
    (hal : ∀ m ∈ sigs, OnGrid ppqn sigs m.time) (k : Nat) (t : Int)
    (h1 : gridStart ppqn sigs k ≤ t) (h2 : t < gridStart ppqn sigs (k + 1)) :
    C09.sigInForce sigs t = C09.sigInForce sigs (gridStart ppqn sigs k) := by
  unfold C09.sigInForce
  have : sigs.filter (fun m => decide (m.time ≤ t)) = sigs.filter (fun m => decide (m.time ≤ gridStart ppqn sigs k)) := by
    apply List.filter_congr
    intro m hm
    obtain ⟨j, hj⟩ := hal m hm
    by_cases hle : m.time ≤ gridStart ppqn sigs k
    · have : m.time ≤ t := by omega
      simp [hle, this]
    · have hlt : gridStart ppqn sigs k < gridStart ppqn sigs j := by rw [← hj]; omega
      have := grid_next (gridStart ppqn sigs) (gridStart_step_le ppqn sigs hnn) k j hlt
      have : ¬ m.time ≤ t := by omega
      simp [hle, this]
  rw [this]

/-! ### the loop along the grid never raises -/

/-- generic form: `TI` is a per-track invariant under which one round on one track succeeds and which the
    remainder inherits -/
theorem splitBarsGo_ok (ppqn : Int) (values : List Int) (requant : Bool) (TI : List Msg → Prop)
    (hTI : ∀ (g : Sg) (t : List Msg) (A : Int), 0 < sgLen ppqn g → NonNegWaits t → TI t →
      (∀ e ∈ N A t, e.ty = .timeSignature → e.time < A + sgLen ppqn g → (e.num, e.den) = (g.1, g.2.1)) →
      ∃ o, trackStep ppqn values requant g t = .ok o ∧ TI o.2.1 ∧ ∀ e ∈ N (A + sgLen ppqn g) o.2.1, e ∈ N A t)
    (sigs : List Msg) (hpos : PosBars ppqn sigs)
    (hd : DistinctTicks sigs) (hal : ∀ m ∈ sigs, OnGrid ppqn sigs m.time) : ∀ (fuel k : Nat) (s : SBSt),
    s.now = gridStart ppqn sigs k →
    QInv (fun m : Msg => (m.num, m.den)) (4, 4) (gridStart ppqn sigs) sigs k (s.num, s.den) s.tsQ →
    s.tracks.length = s.bars.length → (∀ t ∈ s.tracks, NonNegWaits t) → (∀ t ∈ s.tracks, TI t) → 0 < fuel →
    (∀ t ∈ s.tracks, durRel t < (fuel : Int)) →
    (∀ t ∈ s.tracks, ∀ e ∈ N s.now t, e.ty = .timeSignature → (e.num, e.den) = C09.sigInForce sigs e.time) →
    ∃ tb, splitBarsGo ppqn values requant fuel s = .ok tb := by
  have hnn := hpos.nonneg
  intro fuel
  induction fuel with
  | zero => intro k s _ _ _ _ _ h; omega
  | succ fuel ih =>
    intro k s hnow hinv hlen hw hti _ hM hS
    rw [splitBarsGo_succ]
    simp only
    obtain ⟨hv, hinv'⟩ := qstep (fun m : Msg => (m.num, m.den)) (4, 4) (gridStart ppqn sigs)
      (gridStart_step_le ppqn sigs hnn) sigs hd hal k (s.num, s.den) s.tsQ hinv
    rw [← sigInForce_eq] at hv
    rw [nextSig_eq, hnow]
    simp only
    generalize hg : ((nextQ (fun m : Msg => (m.num, m.den)) (gridStart ppqn sigs k) (s.num, s.den) s.tsQ).1.1,
      (nextQ (fun m : Msg => (m.num, m.den)) (gridStart ppqn sigs k) (s.num, s.den) s.tsQ).1.2,
      (nextKey (gridStart ppqn sigs k) s.key s.ksQ).1) = g
    have hg1 : (g.1, g.2.1) = C09.sigInForce sigs (gridStart ppqn sigs k) := by rw [← hg]; exact hv
    have hlen_g : sgLen ppqn g = barCapacity ppqn (C09.sigInForce sigs (gridStart ppqn sigs k)).1
        (C09.sigInForce sigs (gridStart ppqn sigs k)).2 := by rw [← hg1]; rfl
    have hgl : 0 < sgLen ppqn g := by rw [hlen_g]; exact sigInForce_cap_pos ppqn sigs hpos _
    have hnext : gridStart ppqn sigs k + sgLen ppqn g = gridStart ppqn sigs (k + 1) := by
      rw [gridStart_succ, hlen_g]
    -- every track's round succeeds
    have hstep : ∀ t ∈ s.tracks, ∃ o, trackStep ppqn values requant g t = .ok o ∧ TI o.2.1 ∧
        ∀ e ∈ N (gridStart ppqn sigs (k + 1)) o.2.1, e ∈ N (gridStart ppqn sigs k) t := by
      intro t ht
      rw [← hnext]
      apply hTI g t (gridStart ppqn sigs k) hgl (hw t ht) (hti t ht)
      intro e he hts hlt
      have hS' := hS t ht e (by rw [hnow]; exact he) hts
      have hlo := (eventsRelGo_bounds t _ (hw t ht) e (N_mem_eventsRelGo _ _ e he).1).1
      rw [hS', hg1]
      exact sigInForce_in_bar ppqn sigs hnn hal k e.time hlo (by rw [← hnext]; exact hlt)
    obtain ⟨step, hf⟩ := fold_total ppqn values requant g (s.tracks.zip s.bars)
      (fun z hz => by
        obtain ⟨o, ho, _⟩ := hstep z.1 (List.of_mem_zip hz).1
        exact ⟨o, ho⟩) (true, [], [])
    rw [hf]
    simp only [Except.bind]
    obtain ⟨outs, hl, hst, h1, h2, h3⟩ := fold_ok ppqn values requant g _ _ _ hf
    simp only [List.nil_append, Bool.true_and] at h1 h2 h3
    split
    · exact ⟨_, rfl⟩
    · rename_i hsync
      have hzl : (s.tracks.zip s.bars).length = s.tracks.length := by simp [hlen]
      have hout : ∀ o ∈ outs, ∃ t ∈ s.tracks, trackStep ppqn values requant g t = .ok o := by
        intro o ho
        obtain ⟨i, hi, hio⟩ := List.getElem_of_mem ho
        have hiz : i < (s.tracks.zip s.bars).length := by omega
        have hz := getElem?_some_of_lt hiz
        have hmem := (List.getElem?_zip_eq_some.1 hz).1
        exact ⟨_, List.mem_of_getElem? hmem, hst i _ o hz (by rw [getElem?_some_of_lt hi, hio])⟩
      have hfalse : outs.all (fun o => !o.1) = false := by
        rw [← h1]; simpa using hsync
      rw [List.all_eq_false] at hfalse
      obtain ⟨o1, ho1, ho1t⟩ := hfalse
      obtain ⟨t1, ht1, hts1⟩ := hout o1 ho1
      have hbig : 2 ≤ fuel := by
        have := trackStep_dur hts1 hgl (hw t1 ht1)
        have := hM t1 ht1
        simp only [Bool.not_eq_true', Bool.not_eq_false] at ho1t
        rcases ‹_ ∧ _›.2 with ⟨hf', _⟩ | ⟨_, hlt, _⟩
        · rw [ho1t] at hf'; cases hf'
        · omega
      apply ih (k + 1)
      · simp only; exact hnext
      · simp only; exact hinv'
      · simp only
        rw [h2, h3, List.length_map, List.length_zipWith, hl]; simp
      · simp only
        intro rt hrt
        rw [h2, List.mem_map] at hrt
        obtain ⟨o, ho, rfl⟩ := hrt
        obtain ⟨t, ht, hts⟩ := hout o ho
        exact (trackStep_dur hts hgl (hw t ht)).1
      · simp only
        intro rt hrt
        rw [h2, List.mem_map] at hrt
        obtain ⟨o, ho, rfl⟩ := hrt
        obtain ⟨t, ht, hts'⟩ := hout o ho
        obtain ⟨o', ho', hti', _⟩ := hstep t ht
        rw [hts'] at ho'
        cases ho'
        exact hti'
      · omega
      · simp only
        intro rt hrt
        rw [h2, List.mem_map] at hrt
        obtain ⟨o, ho, rfl⟩ := hrt
        obtain ⟨t, ht, hts⟩ := hout o ho
        have := hM t ht
        rcases (trackStep_dur hts hgl (hw t ht)).2 with ⟨_, he, _⟩ | ⟨_, hlt, hd⟩
        · rw [he]; simp [durRel, totalWait]; omega
        · omega
      · simp only
        intro rt hrt e he hts
        rw [h2, List.mem_map] at hrt
        obtain ⟨o, ho, rfl⟩ := hrt
        obtain ⟨t, ht, hts'⟩ := hout o ho
        obtain ⟨o', ho', _, hsub⟩ := hstep t ht
        rw [hts'] at ho'
        cases ho'
        rw [hnext] at he
        exact hS t ht e (by rw [hnow]; exact hsub e he) hts

/-! ### the top-level call -/

/-- an event of a distinct-tick change list is the one in force at its own tick -/
theorem sigInForce_self (q : List Msg) (hd : DistinctTicks q) (e : Msg) (he : e ∈ q) :
    C09.sigInForce q e.time = (e.num, e.den) := by
  obtain ⟨pre, post, rfl⟩ := List.append_of_mem he
  have h1 := List.pairwise_append.1 hd
  have hpre : ∀ a ∈ pre, a.time ≤ e.time := fun a ha => Int.le_of_lt (h1.2.2 a ha e List.mem_cons_self)
  have hpost : ∀ b ∈ post, e.time < b.time := (List.pairwise_cons.1 h1.2.1).1
  unfold C09.sigInForce
  rw [List.filter_append, List.filter_cons, filter_le_eq_self pre e.time hpre, filter_le_eq_nil post e.time hpost]
  simp

theorem mem_toAbs_of_eventsRel (r : List Msg) (e : Msg) (he : e ∈ eventsRel r) : e ∈ toAbs r := by
  rw [toAbs_eq]
  split
  · exact (mem_sortAbs _ e).2 he
  · exact (insort_perm _ _).mem_iff.2 (List.mem_cons_of_mem _ ((mem_sortAbs _ e).2 he))

/-- **agreement**: every time-signature event of the track carries the signature that `sigs` puts in force at its
    tick (so a side track may repeat the meta track's signatures, anywhere inside the bars they govern) -/
def SigsAgree (sigs : List Msg) (t : List Msg) : Prop :=
  ∀ e ∈ eventsRel t, e.ty = .timeSignature → (e.num, e.den) = C09.sigInForce sigs e.time

instance (sigs t : List Msg) : Decidable (SigsAgree sigs t) := by unfold SigsAgree; infer_instance

/-- with pairwise distinct ticks the meta track agrees with its own signatures -/
theorem meta_agrees (metaTrack : List Msg) (hd : DistinctTicks (sigsOf metaTrack)) :
    SigsAgree (sigsOf metaTrack) metaTrack := by
  intro e he hts
  have : e ∈ sigsOf metaTrack := by
    simp only [timesOfType, List.mem_filter, beq_iff_eq]
    exact ⟨mem_toAbs_of_eventsRel metaTrack e he, hts⟩
  exact (sigInForce_self _ hd e this).symm

theorem initTs_pos_hyps (ppqn : Int) (metaTrack : List Msg) (hpos : PosBars ppqn (sigsOf metaTrack)) :
    PosBars ppqn (initTs metaTrack) := by
  unfold initTs
  split
  · refine ⟨hpos.1, ?_⟩
    intro m hm
    simp only [List.mem_singleton] at hm
    subst hm
    exact hpos.1
  · exact hpos

/-- **the top-level call never raises** under the input-level conditions, for any per-track invariant `TI` under
    which one round on one track succeeds -/
theorem splitBars_ok (ppqn : Int) (values : List Int) (requant : Bool) (TI : List Msg → Prop)
    (hTI : ∀ (g : Sg) (t : List Msg) (A : Int), 0 < sgLen ppqn g → NonNegWaits t → TI t →
      (∀ e ∈ N A t, e.ty = .timeSignature → e.time < A + sgLen ppqn g → (e.num, e.den) = (g.1, g.2.1)) →
      ∃ o, trackStep ppqn values requant g t = .ok o ∧ TI o.2.1 ∧ ∀ e ∈ N (A + sgLen ppqn g) o.2.1, e ∈ N A t)
    (tracks : List (List Msg)) (metaIdx : Nat) (metaTrack : List Msg) (hm : tracks[metaIdx]? = some metaTrack)
    (hw : ∀ t ∈ tracks, NonNegWaits t) (hti : ∀ t ∈ tracks, TI t)
    (hpos : PosBars ppqn (sigsOf metaTrack))
    (hal : ∀ m ∈ sigsOf metaTrack, OnGrid ppqn (sigsOf metaTrack) m.time)
    (hd : DistinctTicks (sigsOf metaTrack))
    (hag : ∀ (i : Nat) (t : List Msg), tracks[i]? = some t → i ≠ metaIdx → SigsAgree (sigsOf metaTrack) t) :
    ∃ tb, splitBars ppqn values tracks metaIdx requant = .ok tb := by
  rw [splitBars_eq ppqn values tracks metaIdx requant metaTrack hm]
  obtain ⟨h1, h2, h3⟩ := initTs_hyps ppqn metaTrack hpos.nonneg hd hal
  have hG := gridStart_step_le ppqn _ h1
  apply splitBarsGo_ok ppqn values requant TI hTI (initTs metaTrack) (initTs_pos_hyps ppqn metaTrack hpos) h2 h3 _ 0
  · rfl
  · exact qinv_init (fun m : Msg => (m.num, m.den)) (4, 4) (gridStart ppqn (initTs metaTrack)) hG (initTs metaTrack) h2 h3
  · simp
  · exact hw
  · exact hti
  · unfold fuelOf; omega
  · exact durRel_lt_fuelOf tracks
  · intro t ht e he hts
    have he' : e ∈ eventsRel t := (N_mem_eventsRelGo _ _ e he).1
    rw [sigInForce_initTs]
    obtain ⟨i, hi, rfl⟩ := List.getElem_of_mem ht
    by_cases him : i = metaIdx
    · subst him
      have : tracks[i] = metaTrack := by
        rw [List.getElem?_eq_getElem hi] at hm
        exact Option.some.inj hm
      rw [this] at he'
      exact meta_agrees metaTrack hd e he' hts
    · exact hag i _ (List.getElem?_eq_getElem hi) him e he' hts


/-! ## Helper lemmas for `Props/Strong589B.lean`, part 3: one round on one track succeeds with note-length
    re-quantisation on (audit item A6(b), the `quantise_note_lengths=True` case).
    The re-quantised piece is not longer than the piece, and carries the same time-signature values.
-/

theorem toAbs_time_le (r : List Msg) (hw : NonNegWaits r) : ∀ e ∈ toAbs r, e.time ≤ totalWait r := by
  have hb : ∀ e ∈ sortAbs (eventsRel r), e.time ≤ totalWait r := by
    intro e he
    rw [mem_sortAbs] at he
    have := (eventsRelGo_bounds r 0 hw e he).2
    omega
  intro e he
  rw [toAbs_eq] at he
  split at he
  · exact hb e he
  · rcases List.mem_cons.1 ((insort_perm _ _).mem_iff.1 he) with rfl | he
    · simp [Msg.mkInternal]
    · exact hb e he

theorem lastTimeD_le (l : List Msg) : ∀ (cur T : Int), cur ≤ T → (∀ m ∈ l, m.time ≤ T) → lastTimeD cur l ≤ T := by
  induction l with
  | nil => intro cur T h _; simpa [lastTimeD] using h
  | cons m ms ih =>
    intro cur T _ h
    simp only [lastTimeD]
    exact ih m.time T (h m List.mem_cons_self) (fun x hx => h x (List.mem_cons_of_mem _ hx))

theorem mem_toRelGo (l : List Msg) : ∀ (cur : Int) (x : Msg), x ∈ toRelGo cur l →
    x.ty = .wait ∨ ∃ m ∈ l, x = { m with time := pyNone } := by
  induction l with
  | nil => intro cur x hx; simp [toRelGo] at hx
  | cons m ms ih =>
    intro cur x hx
    simp only [toRelGo, List.mem_append] at hx
    rcases hx with (hx | hx) | hx
    · split at hx
      · simp only [List.mem_singleton] at hx
        subst hx; left; rfl
      · simp at hx
    · split at hx
      · simp only [List.mem_singleton] at hx
        exact Or.inr ⟨m, List.mem_cons_self, hx⟩
      · simp at hx
    · rcases ih _ x hx with h | ⟨m', hm', h⟩
      · exact Or.inl h
      · exact Or.inr ⟨m', List.mem_cons_of_mem _ hm', h⟩

theorem mem_flat_inv {x : Msg} {ps : List (Msg × Msg)} (h : x ∈ flat ps) : ∃ p ∈ ps, x = p.1 ∨ x = p.2 := by
  unfold flat at h
  obtain ⟨p, hp, hx⟩ := List.mem_flatMap.1 h
  refine ⟨p, hp, ?_⟩
  simpa using hx

/-- **the re-quantised piece** (shorten only): non-negative waits, not longer than the piece, and every
    time-signature message of it is one of the piece (same values) -/
theorem requant_facts (values : List Int) (ppqn : Int) (first piece : List Msg) (hv : ∀ v ∈ values, 0 < v)
    (hw : NonNegWaits first) (hwf : WF first) (hz : NoZeroNotes first)
    (h : requantPiece values ppqn true first = .ok piece) :
    NonNegWaits piece ∧ durRel piece ≤ durRel first ∧
      ∀ m ∈ piece, m.ty = .timeSignature → ∃ m0 ∈ first, m0.ty = .timeSignature ∧ m0.num = m.num ∧ m0.den = m.den := by
  obtain ⟨out, hq⟩ := C06.total values ppqn true (toAbs first)
  simp only [requantPiece, if_true, hq, bind, Except.bind, Except.ok.injEq] at h
  subst h
  have hA := toAbs_mem_facts first hw
  have hT := toAbs_time_le first hw
  have hmem : ∀ m ∈ out, 0 ≤ m.time ∧ m.ty ≠ .wait := by
    intro m hm
    by_cases hon : m.ty = .noteOn
    · exact ⟨(hA m (C06.onsets_kept values ppqn true _ out hq m hm hon)).1, by rw [hon]; simp⟩
    · by_cases hoff : m.ty = .noteOff
      · obtain ⟨on, hon', hty, _, hd⟩ := C06.durations values ppqn true _ out hq m hm hoff
        have h1 := (hA on (C06.onsets_kept values ppqn true _ out hq on hon' hty)).1
        have h2 := hv _ hd
        exact ⟨by omega, by rw [hoff]; simp⟩
      · have : m ∈ nonNotes out := by
          simp only [nonNotes, List.mem_filter, Bool.and_eq_true, bne_iff_ne, ne_eq]
          exact ⟨hm, hon, hoff⟩
        have := (C06.others_same values ppqn true _ out hq).mem_iff.1 this
        exact hA m (List.mem_filter.1 this).1
  have hsorted : out.Pairwise (fun a b => a.time ≤ b.time) :=
    (timeSorted_iff_pairwise out).1 (C06.sorted_out values ppqn true _ out hq)
  -- no message of the result is later than the end of the piece
  have hnoteT : ∀ m ∈ out, (m.ty = .noteOn ∨ m.ty = .noteOff) → m.time ≤ totalWait first := by
    intro m hm hty
    obtain ⟨ps, hn, hf⟩ := nice_of_first m.nkey first hw hwf hz
    have hsorted2 : (sortAbs (toAbs first)).filter (isKN m.nkey) = flat ps := by
      rw [filter_sortAbs, toAbs_kview, filter_sortAbs, hf,
        sortAbs_of_ksorted _ (nice_ksorted m.nkey ps 0 hn), sortAbs_of_ksorted _ (nice_ksorted m.nkey ps 0 hn)]
    obtain ⟨ps', hs', hfl'⟩ := qnl_kview values ppqn (toAbs first) m.nkey ps 0 hv hn hsorted2 out hq
    have hmk : m ∈ out.filter (isKN m.nkey) := List.mem_filter.2 ⟨hm, (isKN_iff _ _).2 ⟨rfl, hty⟩⟩
    rw [hfl'] at hmk
    obtain ⟨p', hp', hx⟩ := mem_flat_inv hmk
    obtain ⟨p, hp, e1, e2⟩ := shrunk_mem hs' p' hp'
    have hb : ∀ x ∈ flat ps, x.time ≤ totalWait first := by
      intro x hx
      rw [← hf] at hx
      have := (eventsRelGo_bounds first 0 hw x (List.mem_filter.1 hx).1).2
      omega
    rcases hx with rfl | rfl
    · rw [← e1]; exact hb _ (mem_flat hp).1
    · have := hb _ (mem_flat hp).2; omega
  have hallT : ∀ m ∈ out, m.time ≤ totalWait first := by
    intro m hm
    by_cases hty : m.ty = .noteOn ∨ m.ty = .noteOff
    · exact hnoteT m hm hty
    · have : m ∈ nonNotes out := by
        simp only [nonNotes, List.mem_filter, Bool.and_eq_true, bne_iff_ne, ne_eq]
        exact ⟨hm, fun h => hty (Or.inl h), fun h => hty (Or.inr h)⟩
      have := (C06.others_same values ppqn true _ out hq).mem_iff.1 this
      exact hT m (List.mem_filter.1 this).1
  refine ⟨fun m hm => (toRelGo_ok out 0 (fun m hm => (hmem m hm).2) m hm).1, ?_, ?_⟩
  · have h1 := totalWait_toRelGo out 0 hsorted (fun m hm => (hmem m hm).1) (fun m hm => (hmem m hm).2)
    have h2 := lastTimeD_le out 0 (totalWait first) (totalWait_nonneg first hw) hallT
    unfold durRel toRel
    omega
  · intro m hm hts
    rcases mem_toRelGo out 0 m hm with hwt | ⟨m1, hm1, rfl⟩
    · rw [hts] at hwt; cases hwt
    · have hts1 : m1.ty = .timeSignature := hts
      have : m1 ∈ nonNotes out := by
        simp only [nonNotes, List.mem_filter, Bool.and_eq_true, bne_iff_ne, ne_eq]
        exact ⟨hm1, by rw [hts1]; simp, by rw [hts1]; simp⟩
      have := (C06.others_same values ppqn true _ out hq).mem_iff.1 this
      rcases mem_toAbs first m1 (List.mem_filter.1 this).1 with hi | ⟨_, m0, hm0, c', rfl⟩
      · rw [hts1] at hi; cases hi
      · exact ⟨m0, hm0, hts1, rfl, rfl⟩

/-- **one round on one track succeeds** (re-quantisation on): as `trackStep_ok_false`, for well-formed tracks without
    zero-length notes and positive allowed note values; the remainder inherits both properties -/
theorem trackStep_ok_true (ppqn : Int) (values : List Int) (hv : ∀ v ∈ values, 0 < v) (g : Sg) (t : List Msg) (A : Int)
    (hc : 0 < sgLen ppqn g) (hw : NonNegWaits t) (hti : WF t ∧ NoZeroNotes t)
    (hsig : ∀ e ∈ N A t, e.ty = .timeSignature → e.time < A + sgLen ppqn g → (e.num, e.den) = (g.1, g.2.1)) :
    ∃ o, trackStep ppqn values true g t = .ok o ∧ (WF o.2.1 ∧ NoZeroNotes o.2.1) ∧
      ∀ e ∈ N (A + sgLen ppqn g) o.2.1, e ∈ N A t := by
  obtain ⟨pieces, hs⟩ := C08.split_total t [sgLen ppqn g]
  have hnotes := (split_one_notes t _ pieces hs hc hw hti.1 hti.2 (0, 0) 0 0).1
  have hfirst : ∀ first : List Msg, NonNegWaits first → WF first → NoZeroNotes first → durRel first ≤ sgLen ppqn g →
      (∀ e ∈ N A first, e ∈ N A t ∧ e.time < A + sgLen ppqn g) →
      ∃ piece b, requantPiece values ppqn true first = .ok piece ∧ mkBar ppqn piece g.1 g.2.1 g.2.2 = .ok b := by
    intro first hfw hfwf hfz hfd hfe
    obtain ⟨out, hout⟩ := C06.total values ppqn true (toAbs first)
    have hrq : requantPiece values ppqn true first = .ok (toRel out) := by
      simp [requantPiece, hout, bind, Except.bind]
    obtain ⟨hpn, hpd, hpts⟩ := requant_facts values ppqn first _ hv hfw hfwf hfz hrq
    obtain ⟨b, hb⟩ := mkBar_accepts ppqn (toRel out) g.1 g.2.1 g.2.2 hpn (by unfold sgLen at hfd; omega) (by
      intro m hm hts
      obtain ⟨m0, hm0, hts0, hn0, hd0⟩ := hpts m hm hts
      obtain ⟨e, he, h1, h2, h3⟩ := mem_N_of_mem first A m0 hm0 hts0
      obtain ⟨h4, h5⟩ := hfe e he
      rw [← hn0, ← hd0, ← h2, ← h3]
      exact hsig e h4 h1 h5)
    exact ⟨_, b, hrq, hb⟩
  rcases split_one_sig t _ A pieces hs hc hw with rfl | ⟨p, rfl, hpn, hpd, hpe⟩ | ⟨p, q, rfl, hpn, hpd, hqn, hpe, hqe⟩
  · obtain ⟨piece, b, hrq, hb⟩ := hfirst [] nnw_nil wf_nil noZero_nil (by simp [durRel, totalWait]; omega) (by simp [N_nil])
    exact ⟨(false, [], b), trackStep_of hs [] [] piece false b (Or.inl ⟨rfl, rfl, rfl, rfl⟩) hrq hb,
      ⟨wf_nil, noZero_nil⟩, by simp [N_nil]⟩
  · obtain ⟨hpw, _, hpz⟩ := hnotes p (by simp)
    obtain ⟨piece, b, hrq, hb⟩ := hfirst p hpn hpw hpz hpd hpe
    exact ⟨(false, [], b), trackStep_of hs p [] piece false b (Or.inr (Or.inl ⟨rfl, rfl, rfl⟩)) hrq hb,
      ⟨wf_nil, noZero_nil⟩, by simp [N_nil]⟩
  · obtain ⟨hpw, _, hpz⟩ := hnotes p (by simp)
    obtain ⟨hqw, _, hqz⟩ := hnotes q (by simp)
    obtain ⟨piece, b, hrq, hb⟩ := hfirst p hpn hpw hpz (by omega) hpe
    exact ⟨(true, q, b), trackStep_of hs p q piece true b (Or.inr (Or.inr ⟨[], rfl, rfl⟩)) hrq hb, ⟨hqw, hqz⟩, hqe⟩


/-! ## Helper lemmas for `Props/Strong589B.lean`, part 4: the zero-length-bar branch of `sequences_split_bars`
    (audit item A6(b), DESIGN §4 C09 `split_bars_zero_len`).
    With a bar length of 0 the loop cannot make progress: a track that still has material either fails at once
    (`Bar capacity exceeded`) or is left *stuck* (`Stuck`: nothing but deferrable events before a positive wait),
    and a stuck track fails in the next round.
-/

/-- only deferrable events (no wait, no note-off) before a positive wait: with capacity 0, `split` moves nothing
    into the current piece -/
def Stuck : List Msg → Prop
  | [] => False
  | m :: ms => if m.ty = .wait then 0 < m.time else m.ty ≠ .noteOff ∧ Stuck ms

theorem stuck_append (pre : List Msg) (w : Msg) (post : List Msg) (hpre : ∀ x ∈ pre, x.ty ≠ .wait ∧ x.ty ≠ .noteOff)
    (hw : w.ty = .wait) (hpos : 0 < w.time) : Stuck (pre ++ w :: post) := by
  induction pre with
  | nil => simp [Stuck, hw, hpos]
  | cons x xs ih =>
    have hx := hpre x List.mem_cons_self
    simp only [List.cons_append, Stuck, hx.1, if_false]
    exact ⟨hx.2, ih (fun y hy => hpre y (List.mem_cons_of_mem _ hy))⟩

theorem base_zero (s : SplitSt) (hcur : s.cur = []) (hq : s.queue = []) (hw : NonNegWaits s.wm) : Base 0 0 s :=
  ⟨by omega, by simp [hcur, totalWait], hw, by simp [hcur, NonNegWaits], by simp [hq], by simp [hq], by simp [hq]⟩

theorem base_zero_rem {rem : Int} {s : SplitSt} (h : Base 0 rem s) : rem = 0 := by
  have h1 := h.rem_nonneg
  have h2 := h.tw_cur
  have h3 := totalWait_nonneg s.cur h.nnc
  omega

/-- `splitInner` with capacity 0 on input of positive duration: it stops at the first positive wait, leaving a
    stuck working memory of the same duration and at most one closed piece -/
theorem splitInner_zero (fuel : Nat) (s s' : SplitSt) (hcur : s.cur = []) (hq : s.queue = []) (hp : s.pieces = [])
    (hw : NonNegWaits s.wm) (hpos : 0 < totalWait s.wm) (h : splitInner fuel 0 s = .ok s') :
    s'.cur = [] ∧ Stuck s'.wm ∧ NonNegWaits s'.wm ∧ totalWait s'.wm = totalWait s.wm ∧ s'.pieces.length ≤ 1 := by
  refine splitInner_invB 0
    (fun _ s0 => s0.pieces = [] ∧ totalWait s0.cur + totalWait s0.wm = totalWait s.wm)
    (fun s' => s'.cur = [] ∧ Stuck s'.wm ∧ NonNegWaits s'.wm ∧ totalWait s'.wm = totalWait s.wm ∧ s'.pieces.length ≤ 1)
    ?_ ?_ ?_ ?_ ?_ ?_ fuel 0 s s' (base_zero s hcur hq hw) ⟨hp, by simp [hcur, totalWait]⟩ h
  · intro rem cur queue opens pieces hB ⟨_, hT⟩
    exfalso
    have h2 := hB.tw_cur
    have h1 := hB.rem_nonneg
    have h3 := totalWait_nonneg cur hB.nnc
    simp only [totalWait] at hT h2
    omega
  · intro rem m wm cur opens pieces hB _ _ _ hrem
    exfalso
    have := base_zero_rem hB
    omega
  · intro m wm cur queue opens pieces hB ⟨hP, hT⟩ _ hwt
    refine ⟨hP, ?_⟩
    have e1 : totalWait (m :: wm) = totalWait wm := by simp [totalWait, hwt]
    simp only at hT ⊢
    omega
  · intro rem m wm cur queue opens pieces hB ⟨hP, hT⟩ hm
    refine ⟨hP, ?_⟩
    have e1 : totalWait (m :: wm) = totalWait wm := by simp [totalWait, hm]
    have e2 : totalWait (m :: cur) = totalWait cur := by simp [totalWait, hm]
    simp only at hT ⊢
    omega
  · intro rem m wm cur queue opens pieces hB ⟨hP, hT⟩ hm _ _ _
    refine ⟨hP, ?_⟩
    have e1 : totalWait (m :: wm) = m.time + totalWait wm := by simp [totalWait, hm]
    have e2 : totalWait (m :: cur) = m.time + totalWait cur := by simp [totalWait, hm]
    simp only at hT ⊢
    omega
  · intro rem m wm cur queue opens pieces hB ⟨hP, hT⟩ hm hr
    have hr0 := base_zero_rem hB
    subst hr0
    simp only at hP hT
    have hc0 : totalWait cur = 0 := by
      have h2 := hB.tw_cur
      simp only at h2
      omega
    have hqw := totalWait_nowait queue.reverse (by simpa using hB.q_nowait)
    have hon := totalWait_nowait _ (map_onOf_nowait opens)
    refine ⟨rfl, ?_, ?_, ?_, ?_⟩
    · unfold carried
      rw [← List.append_assoc]
      apply stuck_append _ _ _ _ rfl (by simp [Msg.mkWait]; omega)
      intro x hx
      rcases List.mem_append.1 hx with hx | hx
      · have hx' : x ∈ queue := by simpa using hx
        exact ⟨hB.q_nowait x hx', hB.q_nooff x hx'⟩
      · simp only [List.mem_map] at hx
        obtain ⟨kv, _, rfl⟩ := hx
        simp [onOf]
    · unfold carried
      rw [nonNegWaits_append, nonNegWaits_append]
      refine ⟨nonNegWaits_nowait _ (by simpa using hB.q_nowait), nonNegWaits_nowait _ (map_onOf_nowait opens), ?_⟩
      intro x hx hxw
      rcases List.mem_cons.1 hx with rfl | hx
      · simp [Msg.mkWait]; omega
      · exact hB.nnw x (List.mem_cons_of_mem _ hx) hxw
    · unfold carried
      rw [totalWait_append, totalWait_append, hqw, hon, totalWait_mkWait]
      have e1 : totalWait (m :: wm) = m.time + totalWait wm := by simp [totalWait, hm]
      omega
    · simp only [hP]
      split <;> simp

/-- a stuck input stays whole: no piece is closed -/
theorem splitInner_stuck (fuel : Nat) (s s' : SplitSt) (hcur : s.cur = []) (hq : s.queue = []) (hp : s.pieces = [])
    (ho : s.opens = []) (hw : NonNegWaits s.wm) (hst : Stuck s.wm) (h : splitInner fuel 0 s = .ok s') :
    s'.pieces = [] := by
  refine splitInner_invB 0
    (fun _ s0 => s0.pieces = [] ∧ s0.cur = [] ∧ s0.opens = [] ∧ Stuck s0.wm)
    (fun s' => s'.pieces = [])
    ?_ ?_ ?_ ?_ ?_ ?_ fuel 0 s s' (base_zero s hcur hq hw) ⟨hp, hcur, ho, hst⟩ h
  · intro rem cur queue opens pieces hB ⟨_, _, _, hS⟩
    simp [Stuck] at hS
  · intro rem m wm cur opens pieces hB _ _ _ hrem
    exfalso
    have := base_zero_rem hB
    omega
  · intro m wm cur queue opens pieces hB ⟨hP, hC, hO, hS⟩ _ hwt
    simp only [Stuck, hwt, if_false] at hS
    exact ⟨hP, hC, hO, hS.2⟩
  · intro rem m wm cur queue opens pieces hB ⟨_, _, _, hS⟩ hm
    exfalso
    simp only [Stuck, hm] at hS
    simp at hS
  · intro rem m wm cur queue opens pieces hB ⟨_, _, _, hS⟩ hm hle _ _
    exfalso
    have := base_zero_rem hB
    simp only [Stuck, hm, if_true] at hS
    omega
  · intro rem m wm cur queue opens pieces hB ⟨hP, hC, hO, hS⟩ hm hr
    have hr0 := base_zero_rem hB
    subst hr0
    simp only at hP hC hO
    subst hC hO
    simp [closedPiece, hP]

/-- `split r [0]` on input of positive duration: the last piece is stuck and carries the whole duration -/
theorem split_zero (r : List Msg) (pieces : List (List Msg)) (h : split r [0] = .ok pieces) (hw : NonNegWaits r)
    (hpos : 0 < durRel r) :
    ∃ q, NonNegWaits q ∧ durRel q = durRel r ∧ Stuck q ∧ (pieces = [q] ∨ ∃ p, pieces = [p, q]) := by
  obtain ⟨s, hs, rfl⟩ := split_eq r [0] pieces h
  have h1 := splitOuter_one hs
  obtain ⟨hc, hst, hnn, htw, hpl⟩ := splitInner_zero _ _ s rfl rfl rfl hw (show 0 < totalWait r from hpos) h1
  simp only at htw
  have hne : s.wm ≠ [] := by
    intro h0; rw [h0] at htw; simp [totalWait] at htw; unfold durRel at hpos; omega
  refine ⟨s.wm, hnn, htw, hst, ?_⟩
  rw [hc]
  simp only [List.reverse_nil, List.nil_append, hne, if_false]
  rcases hsp : s.pieces with _ | ⟨p, _ | ⟨p2, tl⟩⟩
  · left; rfl
  · right; exact ⟨p, rfl⟩
  · rw [hsp] at hpl; simp at hpl

/-- `split q [0]` on a stuck input: one piece, the input itself up to its duration -/
theorem split_stuck (r : List Msg) (pieces : List (List Msg)) (h : split r [0] = .ok pieces) (hw : NonNegWaits r)
    (hpos : 0 < durRel r) (hst : Stuck r) : ∃ q, pieces = [q] ∧ NonNegWaits q ∧ durRel q = durRel r := by
  obtain ⟨s, hs, rfl⟩ := split_eq r [0] pieces h
  have h1 := splitOuter_one hs
  obtain ⟨hc, _, hnn, htw, _⟩ := splitInner_zero _ _ s rfl rfl rfl hw (show 0 < totalWait r from hpos) h1
  have hp := splitInner_stuck _ _ s rfl rfl rfl rfl hw hst h1
  simp only at htw
  have hne : s.wm ≠ [] := by
    intro h0; rw [h0] at htw; simp [totalWait] at htw; unfold durRel at hpos; omega
  refine ⟨s.wm, ?_, hnn, htw⟩
  rw [hc, hp]
  simp [hne]

/-! ### one round with bar length 0 -/

theorem mkBar_too_long_false {ppqn : Int} {q : List Msg} {n d key : Int} {b : Bar} (hw : NonNegWaits q)
    (hcap : barCapacity ppqn n d = 0) (hpos : 0 < durRel q) (h : mkBar ppqn q n d key = .ok b) : False := by
  have := (mkBar_ok h).1
  rw [normalise_totalWait q hw, hcap] at this
  unfold durRel at hpos
  omega

/-- a track with material left, in a round of length 0 (re-quantisation off): the round raises, or the track yields
    two pieces and its remainder is stuck -/
theorem trackStep_zero (ppqn : Int) (values : List Int) (g : Sg) (t : List Msg) (o : Bool × List Msg × Bar)
    (hlen : sgLen ppqn g = 0) (hw : NonNegWaits t) (hpos : 0 < durRel t)
    (h : trackStep ppqn values false g t = .ok o) :
    o.1 = true ∧ Stuck o.2.1 ∧ NonNegWaits o.2.1 ∧ durRel o.2.1 = durRel t := by
  obtain ⟨pieces, first, piece, hs, hrq, hmk, hcase⟩ := trackStep_spec h
  rw [hlen] at hs
  have hpf := requantPiece_false values ppqn first piece hrq
  subst hpf
  obtain ⟨q, hqn, hqd, hqs, hq⟩ := split_zero t pieces hs hw hpos
  rcases hq with rfl | ⟨p, rfl⟩
  · rcases hcase with ⟨h0, _⟩ | ⟨h0, _⟩ | ⟨tl, h0, _⟩
    · simp at h0
    · simp only [List.cons.injEq, and_true] at h0
      subst h0
      exact (mkBar_too_long_false hqn hlen (by omega) hmk).elim
    · simp at h0
  · rcases hcase with ⟨h0, _⟩ | ⟨h0, _⟩ | ⟨tl, h0, h1⟩
    · simp at h0
    · simp at h0
    · simp only [List.cons.injEq] at h0
      obtain ⟨_, h2, _⟩ := h0
      rw [← h2]
      exact ⟨h1, hqs, hqn, hqd⟩

/-- a stuck track in a round of length 0 raises -/
theorem trackStep_stuck (ppqn : Int) (values : List Int) (g : Sg) (t : List Msg)
    (hlen : sgLen ppqn g = 0) (hw : NonNegWaits t) (hpos : 0 < durRel t) (hst : Stuck t) :
    trackStep ppqn values false g t = .error .barError := by
  cases h : trackStep ppqn values false g t with
  | error e => rw [trackStep_error h]
  | ok o =>
    exfalso
    obtain ⟨pieces, first, piece, hs, hrq, hmk, hcase⟩ := trackStep_spec h
    rw [hlen] at hs
    have hpf := requantPiece_false values ppqn first piece hrq
    subst hpf
    obtain ⟨q, rfl, hqn, hqd⟩ := split_stuck t pieces hs hw hpos hst
    rcases hcase with ⟨h0, _⟩ | ⟨h0, _⟩ | ⟨tl, h0, _⟩
    · simp at h0
    · simp only [List.cons.injEq, and_true] at h0
      subst h0
      exact mkBar_too_long_false hqn hlen (by omega) hmk
    · simp at h0

/-! ### the loop -/

/-- the fold over the tracks raises `BarException` as soon as one track's round does -/
theorem fold_raises (ppqn : Int) (values : List Int) (requant : Bool) (g : Sg) (zs : List (List Msg × List Bar))
    (acc : Bool × List (List Msg) × List (List Bar)) (z : List Msg × List Bar) (hz : z ∈ zs)
    (herr : ∀ o, trackStep ppqn values requant g z.1 ≠ .ok o) :
    foldlM' (foldBody ppqn values requant g) acc zs = .error .barError := by
  cases hf : foldlM' (foldBody ppqn values requant g) acc zs with
  | error e => rw [fold_error ppqn values requant g zs acc e hf]
  | ok acc' =>
    exfalso
    obtain ⟨outs, hl, hst, _⟩ := fold_ok ppqn values requant g zs acc acc' hf
    obtain ⟨i, hi, hiz⟩ := List.getElem_of_mem hz
    have hz' : zs[i]? = some z := by rw [List.getElem?_eq_getElem hi, hiz]
    obtain ⟨o, ho⟩ := getElem?_of_length_eq hl hz'
    exact herr o (hst i z o hz' ho)

theorem mem_zip_of_mem_left {α β} (l : List α) (l' : List β) (h : l.length = l'.length) (a : α) (ha : a ∈ l) :
    ∃ b, (a, b) ∈ l.zip l' := by
  obtain ⟨i, hi, rfl⟩ := List.getElem_of_mem ha
  refine ⟨l'[i]'(by omega), ?_⟩
  have : (l.zip l')[i]? = some (l[i], l'[i]'(by omega)) :=
    List.getElem?_zip_eq_some.2 ⟨List.getElem?_eq_getElem hi, List.getElem?_eq_getElem (by omega)⟩
  exact List.mem_of_getElem? this

/-- a round of length 0 with a stuck track raises -/
theorem splitBarsGo_stuck (ppqn : Int) (values : List Int) (fuel : Nat) (s : SBSt)
    (hlen : s.tracks.length = s.bars.length) (t : List Msg) (ht : t ∈ s.tracks) (hw : NonNegWaits t)
    (hpos : 0 < durRel t) (hst : Stuck t)
    (h0 : barCapacity ppqn (nextSig s.now s.num s.den s.tsQ).1 (nextSig s.now s.num s.den s.tsQ).2.1 = 0) :
    splitBarsGo ppqn values false (fuel + 1) s = .error .barError := by
  rw [splitBarsGo_succ]
  simp only
  obtain ⟨bs, hz⟩ := mem_zip_of_mem_left s.tracks s.bars hlen t ht
  rw [fold_raises ppqn values false _ _ _ (t, bs) hz (by
    intro o ho
    rw [trackStep_stuck ppqn values ((nextSig s.now s.num s.den s.tsQ).1, (nextSig s.now s.num s.den s.tsQ).2.1,
      (nextKey s.now s.key s.ksQ).1) t h0 hw hpos hst] at ho
    cases ho)]
  rfl

/-- **two rounds of length 0 with material left raise**: the first may still close a (zero-length) bar, the second
    cannot -/
theorem splitBarsGo_zero (ppqn : Int) (values : List Int) (fuel : Nat) (s : SBSt)
    (hlen : s.tracks.length = s.bars.length) (t : List Msg) (ht : t ∈ s.tracks) (hw : NonNegWaits t)
    (hpos : 0 < durRel t)
    (h1 : barCapacity ppqn (nextSig s.now s.num s.den s.tsQ).1 (nextSig s.now s.num s.den s.tsQ).2.1 = 0)
    (h2 : barCapacity ppqn
        (nextSig s.now (nextSig s.now s.num s.den s.tsQ).1 (nextSig s.now s.num s.den s.tsQ).2.1
          (nextSig s.now s.num s.den s.tsQ).2.2).1
        (nextSig s.now (nextSig s.now s.num s.den s.tsQ).1 (nextSig s.now s.num s.den s.tsQ).2.1
          (nextSig s.now s.num s.den s.tsQ).2.2).2.1 = 0) :
    splitBarsGo ppqn values false (fuel + 2) s = .error .barError := by
  rw [splitBarsGo_succ]
  simp only
  generalize hg : ((nextSig s.now s.num s.den s.tsQ).1, (nextSig s.now s.num s.den s.tsQ).2.1,
    (nextKey s.now s.key s.ksQ).1) = g
  have hgl : sgLen ppqn g = 0 := by rw [← hg]; exact h1
  cases hf : foldlM' (foldBody ppqn values false g) (true, [], []) (s.tracks.zip s.bars) with
  | error e =>
    rw [fold_error ppqn values false g _ _ e hf]
    rfl
  | ok step =>
    simp only [Except.bind]
    obtain ⟨outs, hl, hst, e1, e2, e3⟩ := fold_ok ppqn values false g _ _ _ hf
    simp only [List.nil_append, Bool.true_and] at e1 e2 e3
    obtain ⟨i, hi, hit⟩ := List.getElem_of_mem ht
    have hzl : (s.tracks.zip s.bars).length = s.tracks.length := by simp [hlen]
    have hz : (s.tracks.zip s.bars)[i]? = some (t, s.bars[i]'(by omega)) :=
      List.getElem?_zip_eq_some.2 ⟨by rw [List.getElem?_eq_getElem hi, hit], List.getElem?_eq_getElem (by omega)⟩
    obtain ⟨o, ho⟩ := getElem?_of_length_eq hl hz
    have hts := hst i _ o hz ho
    obtain ⟨ho1, hos, hon, hod⟩ := trackStep_zero ppqn values g t o hgl hw hpos hts
    have hsync : step.1 = false := by
      rw [e1, List.all_eq_false]
      exact ⟨o, List.mem_of_getElem? ho, by simp [ho1]⟩
    rw [if_neg (by rw [hsync]; simp)]
    apply splitBarsGo_stuck ppqn values fuel _ _ o.2.1
    · simp only
      rw [e2]
      exact List.mem_map.2 ⟨o, List.mem_of_getElem? ho, rfl⟩
    · exact hon
    · omega
    · exact hos
    · simp only
      rw [hgl, Int.add_zero]
      exact h2
    · simp only
      rw [e2, e3, List.length_map, List.length_zipWith, hl]; simp

/-! ### the first two look-ups (no alignment needed) -/

/-- with pairwise distinct, non-negative ticks the first look-up yields the signature in force at tick 0 and a second
    look-up at the same tick changes nothing -/
theorem first_two_lookups (q : List Msg) (hd : DistinctTicks q) (hnn : ∀ m ∈ q, 0 ≤ m.time) :
    ((nextSig 0 4 4 q).1, (nextSig 0 4 4 q).2.1) = C09.sigInForce q 0 ∧
    (nextSig 0 (nextSig 0 4 4 q).1 (nextSig 0 4 4 q).2.1 (nextSig 0 4 4 q).2.2).1 = (nextSig 0 4 4 q).1 ∧
    (nextSig 0 (nextSig 0 4 4 q).1 (nextSig 0 4 4 q).2.1 (nextSig 0 4 4 q).2.2).2.1 = (nextSig 0 4 4 q).2.1 := by
  cases q with
  | nil => exact ⟨rfl, rfl, rfl⟩
  | cons m rest =>
    have hrest : ∀ x ∈ rest, m.time < x.time := (List.pairwise_cons.1 hd).1
    have hm0 := hnn m List.mem_cons_self
    by_cases hdue : m.time ≤ 0
    · have hq : nextSig 0 4 4 (m :: rest) = (m.num, m.den, rest) := by simp [nextSig, hdue]
      rw [hq]
      refine ⟨?_, ?_, ?_⟩
      · unfold C09.sigInForce
        rw [List.filter_cons, filter_le_eq_nil rest 0 (fun x hx => by have := hrest x hx; omega)]
        simp [hdue]
      all_goals
        cases rest with
        | nil => rfl
        | cons r rt =>
          have := hrest r List.mem_cons_self
          have hnd : ¬ r.time ≤ 0 := by omega
          simp [nextSig, hnd]
    · have hq : nextSig 0 4 4 (m :: rest) = (4, 4, m :: rest) := by simp [nextSig, hdue]
      rw [hq]
      refine ⟨?_, ?_, ?_⟩
      · unfold C09.sigInForce
        rw [filter_le_eq_nil (m :: rest) 0 (by
          intro x hx
          rcases List.mem_cons.1 hx with rfl | hx
          · omega
          · have := hrest x hx; omega)]
        rfl
      all_goals simp [nextSig, hdue]

theorem initTs_distinct_nonneg (metaTrack : List Msg) (hw : NonNegWaits metaTrack) (hd : DistinctTicks (sigsOf metaTrack)) :
    DistinctTicks (initTs metaTrack) ∧ ∀ m ∈ initTs metaTrack, 0 ≤ m.time := by
  unfold initTs
  split
  · refine ⟨by simp [DistinctTicks], ?_⟩
    intro m hm
    simp only [List.mem_singleton] at hm
    subst hm
    simp [Msg.mkTimeSig]
  · refine ⟨hd, ?_⟩
    intro m hm
    simp only [timesOfType, List.mem_filter] at hm
    exact (toAbs_mem_facts metaTrack hw m hm.1).1

/-- **zero-length first bar, loop level** -/
theorem splitBars_zero_first (ppqn : Int) (values : List Int) (tracks : List (List Msg)) (metaIdx : Nat)
    (metaTrack : List Msg) (hm : tracks[metaIdx]? = some metaTrack) (hwm : NonNegWaits metaTrack)
    (hd : DistinctTicks (sigsOf metaTrack))
    (hz : barCapacity ppqn (C09.sigInForce (sigsOf metaTrack) 0).1 (C09.sigInForce (sigsOf metaTrack) 0).2 = 0)
    (t : List Msg) (ht : t ∈ tracks) (hw : NonNegWaits t) (hpos : 0 < durRel t) :
    splitBars ppqn values tracks metaIdx false = .error .barError := by
  rw [splitBars_eq ppqn values tracks metaIdx false metaTrack hm]
  obtain ⟨hd', hnn'⟩ := initTs_distinct_nonneg metaTrack hwm hd
  obtain ⟨e1, e2, e3⟩ := first_two_lookups (initTs metaTrack) hd' hnn'
  rw [sigInForce_initTs] at e1
  have hz1 : barCapacity ppqn (nextSig 0 4 4 (initTs metaTrack)).1 (nextSig 0 4 4 (initTs metaTrack)).2.1 = 0 := by
    have : (nextSig 0 4 4 (initTs metaTrack)).1 = (C09.sigInForce (sigsOf metaTrack) 0).1 := congrArg Prod.fst e1
    have h2 : (nextSig 0 4 4 (initTs metaTrack)).2.1 = (C09.sigInForce (sigsOf metaTrack) 0).2 := congrArg Prod.snd e1
    rw [this, h2]; exact hz
  show splitBarsGo ppqn values false (((tracks.map (fun t => (totalWait t).toNat)).foldl max 0) + tracks.length + 2) _ = _
  apply splitBarsGo_zero ppqn values _ _ (by simp) t ht hw hpos
  · exact hz1
  · show barCapacity ppqn
        (nextSig 0 (nextSig 0 4 4 (initTs metaTrack)).1 (nextSig 0 4 4 (initTs metaTrack)).2.1
          (nextSig 0 4 4 (initTs metaTrack)).2.2).1
        (nextSig 0 (nextSig 0 4 4 (initTs metaTrack)).1 (nextSig 0 4 4 (initTs metaTrack)).2.1
          (nextSig 0 4 4 (initTs metaTrack)).2.2).2.1 = 0
    rw [e2, e3]; exact hz1

/-! ### a zero-length bar anywhere on the grid -/

theorem exists_least (P : Nat → Prop) : ∀ k, P k → ∃ k', k' ≤ k ∧ P k' ∧ ∀ j, j < k' → ¬ P j := by
  intro k
  induction k using Nat.strongRecOn with
  | ind k ih =>
    intro h
    by_cases hex : ∃ j, j < k ∧ P j
    · obtain ⟨j, hj, hp⟩ := hex
      obtain ⟨k', h1, h2, h3⟩ := ih j hj hp
      exact ⟨k', by omega, h2, h3⟩
    · exact ⟨k, Nat.le_refl _, h, fun j hj hp => hex ⟨j, hj, hp⟩⟩

/-- the loop runs along the grid through positive bars up to bar `k` of length 0, where it raises (or it raised
    before): the track `t` of the state still has `T - gridStart j` ticks, more than what is left up to bar `k` -/
theorem splitBarsGo_zero_at (ppqn : Int) (values : List Int) (sigs : List Msg) (hnn : NonNegBars ppqn sigs)
    (hd : DistinctTicks sigs) (hal : ∀ m ∈ sigs, OnGrid ppqn sigs m.time) (k : Nat)
    (hk0 : barCapacity ppqn (C09.sigInForce sigs (gridStart ppqn sigs k)).1
      (C09.sigInForce sigs (gridStart ppqn sigs k)).2 = 0)
    (hkpos : ∀ j, j < k → 0 < barCapacity ppqn (C09.sigInForce sigs (gridStart ppqn sigs j)).1
      (C09.sigInForce sigs (gridStart ppqn sigs j)).2)
    (T : Int) (hT : gridStart ppqn sigs k < T) :
    ∀ (n fuel j : Nat) (s : SBSt), j + n = k → s.now = gridStart ppqn sigs j →
    QInv (fun m : Msg => (m.num, m.den)) (4, 4) (gridStart ppqn sigs) sigs j (s.num, s.den) s.tsQ →
    s.tracks.length = s.bars.length →
    (∃ t ∈ s.tracks, NonNegWaits t ∧ durRel t = T - gridStart ppqn sigs j ∧ durRel t < (fuel : Int)) →
    splitBarsGo ppqn values false fuel s = .error .barError := by
  have hG := gridStart_step_le ppqn sigs hnn
  intro n
  induction n with
  | zero =>
    intro fuel j s hj hnow hinv hlen ⟨t, ht, hw, hdur, hfuel⟩
    have hjk : j = k := by omega
    subst hjk
    obtain ⟨fuel', rfl⟩ : ∃ f, fuel = f + 2 := ⟨fuel - 2, by omega⟩
    obtain ⟨hv, hinv'⟩ := qstep (fun m : Msg => (m.num, m.den)) (4, 4) (gridStart ppqn sigs) hG sigs hd hal j
      (s.num, s.den) s.tsQ hinv
    rw [← sigInForce_eq] at hv
    have hGk : gridStart ppqn sigs (j + 1) = gridStart ppqn sigs j := by rw [gridStart_succ, hk0]; omega
    obtain ⟨hv2, _⟩ := qstep (fun m : Msg => (m.num, m.den)) (4, 4) (gridStart ppqn sigs) hG sigs hd hal (j + 1)
      _ _ hinv'
    rw [← sigInForce_eq, hGk] at hv2
    apply splitBarsGo_zero ppqn values fuel' s hlen t ht hw (by omega)
    · rw [nextSig_eq, hnow]
      simp only
      have e1 := congrArg Prod.fst hv
      have e2 := congrArg Prod.snd hv
      rw [e1, e2]; exact hk0
    · rw [nextSig_eq, nextSig_eq, hnow]
      simp only
      have e1 := congrArg Prod.fst hv2
      have e2 := congrArg Prod.snd hv2
      rw [e1, e2]; exact hk0
  | succ n ih =>
    intro fuel j s hj hnow hinv hlen ⟨t, ht, hw, hdur, hfuel⟩
    have hjk : j < k := by omega
    have hmono := gridStart_mono ppqn sigs hnn (j + 1) k (by omega)
    have hdpos : 0 < durRel t := by
      have := hG j
      omega
    obtain ⟨fuel', rfl⟩ : ∃ f, fuel = f + 1 := ⟨fuel - 1, by omega⟩
    rw [splitBarsGo_succ]
    simp only
    obtain ⟨hv, hinv'⟩ := qstep (fun m : Msg => (m.num, m.den)) (4, 4) (gridStart ppqn sigs) hG sigs hd hal j
      (s.num, s.den) s.tsQ hinv
    rw [← sigInForce_eq] at hv
    rw [nextSig_eq, hnow]
    simp only
    generalize hg : ((nextQ (fun m : Msg => (m.num, m.den)) (gridStart ppqn sigs j) (s.num, s.den) s.tsQ).1.1,
      (nextQ (fun m : Msg => (m.num, m.den)) (gridStart ppqn sigs j) (s.num, s.den) s.tsQ).1.2,
      (nextKey (gridStart ppqn sigs j) s.key s.ksQ).1) = g
    have hg1 : (g.1, g.2.1) = C09.sigInForce sigs (gridStart ppqn sigs j) := by rw [← hg]; exact hv
    have hlen_g : sgLen ppqn g = barCapacity ppqn (C09.sigInForce sigs (gridStart ppqn sigs j)).1
        (C09.sigInForce sigs (gridStart ppqn sigs j)).2 := by rw [← hg1]; rfl
    have hgl : 0 < sgLen ppqn g := by rw [hlen_g]; exact hkpos j hjk
    have hnext : gridStart ppqn sigs j + sgLen ppqn g = gridStart ppqn sigs (j + 1) := by
      rw [gridStart_succ, hlen_g]
    cases hf : foldlM' (foldBody ppqn values false g) (true, [], []) (s.tracks.zip s.bars) with
    | error e =>
      rw [fold_error ppqn values false g _ _ e hf]
      rfl
    | ok step =>
      simp only [Except.bind]
      obtain ⟨outs, hl, hst, e1, e2, e3⟩ := fold_ok ppqn values false g _ _ _ hf
      simp only [List.nil_append, Bool.true_and] at e1 e2 e3
      obtain ⟨i, hi, hit⟩ := List.getElem_of_mem ht
      have hz : (s.tracks.zip s.bars)[i]? = some (t, s.bars[i]'(by omega)) :=
        List.getElem?_zip_eq_some.2 ⟨by rw [List.getElem?_eq_getElem hi, hit], List.getElem?_eq_getElem (by omega)⟩
      obtain ⟨o, ho⟩ := getElem?_of_length_eq hl hz
      have hts : trackStep ppqn values false g t = .ok o := hst i _ o hz ho
      obtain ⟨hon, hcase⟩ := trackStep_dur hts hgl hw
      have hlong : sgLen ppqn g < durRel t := by omega
      rcases hcase with ⟨_, _, hle⟩ | ⟨ho1, _, hod⟩
      · omega
      · have hsync : step.1 = false := by
          rw [e1, List.all_eq_false]
          exact ⟨o, List.mem_of_getElem? ho, by simp [ho1]⟩
        rw [if_neg (by rw [hsync]; simp)]
        apply ih fuel' (j + 1) _ (by omega)
        · simp only; exact hnext
        · simp only; exact hinv'
        · simp only
          rw [e2, e3, List.length_map, List.length_zipWith, hl]; simp
        · refine ⟨o.2.1, ?_, hon, by omega, by omega⟩
          simp only
          rw [e2]
          exact List.mem_map.2 ⟨o, List.mem_of_getElem? ho, rfl⟩

/-- **a zero-length bar anywhere on the grid, top level**: if bar `k` of the grid has length 0 and some track is
    longer than its start, the call raises `BarException` -/
theorem splitBars_zero_at (ppqn : Int) (values : List Int) (tracks : List (List Msg)) (metaIdx : Nat)
    (metaTrack : List Msg) (hm : tracks[metaIdx]? = some metaTrack)
    (hnn : NonNegBars ppqn (sigsOf metaTrack))
    (hal : ∀ m ∈ sigsOf metaTrack, OnGrid ppqn (sigsOf metaTrack) m.time)
    (hd : DistinctTicks (sigsOf metaTrack)) (k : Nat)
    (hk0 : barCapacity ppqn (C09.sigInForce (sigsOf metaTrack) (gridStart ppqn (sigsOf metaTrack) k)).1
      (C09.sigInForce (sigsOf metaTrack) (gridStart ppqn (sigsOf metaTrack) k)).2 = 0)
    (t : List Msg) (ht : t ∈ tracks) (hw : NonNegWaits t) (hlt : gridStart ppqn (sigsOf metaTrack) k < durRel t) :
    splitBars ppqn values tracks metaIdx false = .error .barError := by
  -- the first bar of length 0
  obtain ⟨k', hk'le, hk'0, hk'min⟩ := exists_least
    (fun j => barCapacity ppqn (C09.sigInForce (sigsOf metaTrack) (gridStart ppqn (sigsOf metaTrack) j)).1
      (C09.sigInForce (sigsOf metaTrack) (gridStart ppqn (sigsOf metaTrack) j)).2 = 0) k hk0
  have hlt' : gridStart ppqn (sigsOf metaTrack) k' < durRel t := by
    have := gridStart_mono ppqn _ hnn k' k hk'le
    omega
  have hpos' : ∀ j, j < k' → 0 < barCapacity ppqn (C09.sigInForce (sigsOf metaTrack) (gridStart ppqn (sigsOf metaTrack) j)).1
      (C09.sigInForce (sigsOf metaTrack) (gridStart ppqn (sigsOf metaTrack) j)).2 := by
    intro j hj
    have h1 := sigInForce_cap_nonneg ppqn _ hnn (gridStart ppqn (sigsOf metaTrack) j)
    have h2 := hk'min j hj
    omega
  rw [splitBars_eq ppqn values tracks metaIdx false metaTrack hm]
  obtain ⟨h1, h2, h3⟩ := initTs_hyps ppqn metaTrack hnn hd hal
  have hG := gridStart_step_le ppqn _ h1
  have hinv := qinv_init (fun m : Msg => (m.num, m.den)) (4, 4) (gridStart ppqn (initTs metaTrack)) hG
    (initTs metaTrack) h2 h3
  apply splitBarsGo_zero_at ppqn values (initTs metaTrack) h1 h2 h3 k'
    (by rw [sigInForce_initTs, gridStart_initTs]; exact hk'0)
    (by intro j hj; rw [sigInForce_initTs, gridStart_initTs]; exact hpos' j hj)
    (durRel t) (by rw [gridStart_initTs]; exact hlt') k' (fuelOf tracks) 0 _ (by omega) rfl hinv (by simp)
  exact ⟨t, ht, hw, by simp [gridStart], durRel_lt_fuelOf tracks t ht⟩

end SCoda.Strong589LB
