/-
  Helper lemmas for `Props/C06b` (the notes of the result of note-length quantisation).
-/
import SCoda.Props.C06
import SCoda.Props.Notes
namespace SCoda.NLB
open SCoda SCoda.Notes

/-! ### small list facts -/

theorem pairwise_tri {α} {R : α → α → Prop} {l : List α} (h : l.Pairwise R) {a b : α} (ha : a ∈ l) (hb : b ∈ l) :
    a = b ∨ R a b ∨ R b a := by
  induction l with
  | nil => cases ha
  | cons x xs ih =>
    rw [List.pairwise_cons] at h
    rcases List.mem_cons.1 ha with ha' | ha'
    · rcases List.mem_cons.1 hb with hb' | hb'
      · exact Or.inl (ha'.trans hb'.symm)
      · exact Or.inr (Or.inl (ha' ▸ h.1 b hb'))
    · rcases List.mem_cons.1 hb with hb' | hb'
      · exact Or.inr (Or.inr (hb' ▸ h.1 a ha'))
      · exact ih h.2 ha' hb'

theorem filterMap_congr' {α β} {f g : α → Option β} {l : List α} (h : ∀ x ∈ l, f x = g x) :
    l.filterMap f = l.filterMap g := by
  induction l with
  | nil => rfl
  | cons x xs ih =>
    simp only [List.filterMap_cons, h x List.mem_cons_self, ih (fun y hy => h y (List.mem_cons_of_mem _ hy))]

theorem flatten_flatMap' {α β} (f : α → List (List β)) (l : List α) :
    (l.flatMap f).flatten = l.flatMap (fun a => (f a).flatten) := by
  induction l with
  | nil => rfl
  | cons x xs ih => simp only [List.flatMap_cons, List.flatten_append, ih]

/-- the minimum of a list of integers is a lower bound -/
theorem min?_le (l : List Int) (y : Int) (hy : y ∈ l) : ∃ z, l.min? = some z ∧ z ≤ y := by
  cases h : l.min? with
  | none => rw [List.min?_eq_none_iff] at h; subst h; cases hy
  | some z => exact ⟨z, rfl, (List.min?_eq_some_iff.1 h).2 y hy⟩

/-! ### the notes of one key in a sorted well-formed list -/

theorem notesGo_on_mem : ∀ (l os : List Msg), ∀ n ∈ notesGo l os, ∃ o, (o ∈ l ∨ o ∈ os) ∧ n.on = o.time := by
  intro l
  induction l with
  | nil => intro os n hn; simp [notesGo] at hn
  | cons x xs ih =>
    intro os n hn
    simp only [notesGo] at hn
    split at hn
    · obtain ⟨o, ho, h⟩ := ih _ n hn
      refine ⟨o, ?_, h⟩
      rcases ho with ho | ho
      · exact Or.inl (List.mem_cons_of_mem _ ho)
      · rcases List.mem_cons.1 ho with rfl | ho
        · exact Or.inl List.mem_cons_self
        · exact Or.inr (List.mem_filter.1 ho).1
    · split at hn
      · split at hn
        · rename_i o hf
          rcases List.mem_cons.1 hn with rfl | hn
          · exact ⟨o, Or.inr (List.mem_of_find?_eq_some hf), rfl⟩
          · obtain ⟨o', ho, h⟩ := ih _ n hn
            refine ⟨o', ?_, h⟩
            rcases ho with ho | ho
            · exact Or.inl (List.mem_cons_of_mem _ ho)
            · exact Or.inr (List.mem_filter.1 ho).1
        · obtain ⟨o', ho, h⟩ := ih _ n hn
          refine ⟨o', ?_, h⟩
          rcases ho with ho | ho
          · exact Or.inl (List.mem_cons_of_mem _ ho)
          · exact Or.inr ho
      · obtain ⟨o', ho, h⟩ := ih _ n hn
        refine ⟨o', ?_, h⟩
        rcases ho with ho | ho
        · exact Or.inl (List.mem_cons_of_mem _ ho)
        · exact Or.inr ho

/-- the events of one key, in key order and alternating: consecutive notes do not overlap -/
theorem key_chain (k : Int × Int) : ∀ lk : List Msg,
    (∀ x ∈ lk, isKN k x = true) → altFrom k false lk → lk.Pairwise EQ.KLe →
    (notesGo lk []).Pairwise (fun n m => n.off ≤ m.on) := by
  apply NotesL.pair_induction
  · intro _ _ _
    simp [notesGo]
  · intro x hk halt _
    exfalso
    obtain ⟨hx, hty⟩ := (NotesL.isKN_iff k x).1 (hk x (by simp))
    rcases hty with hty | hty
    · have := NotesL.altFrom_on halt hty
      rw [if_pos hx] at this
      simp [altFrom] at this
    · have := NotesL.altFrom_off halt hty
      rw [if_pos hx] at this
      simp at this
  · intro x y l ih hk halt hs
    obtain ⟨hx, htx⟩ := (NotesL.isKN_iff k x).1 (hk x (by simp))
    obtain ⟨hy, hty⟩ := (NotesL.isKN_iff k y).1 (hk y (by simp))
    have hxon : x.ty = .noteOn := by
      rcases htx with h | h
      · exact h
      · have := NotesL.altFrom_off halt h
        rw [if_pos hx] at this
        simp at this
    have halt1 : altFrom k true (y :: l) := by
      have := NotesL.altFrom_on halt hxon
      rw [if_pos hx] at this
      exact this.2
    have hyoff : y.ty = .noteOff := by
      rcases hty with h | h
      · have := NotesL.altFrom_on halt1 h
        rw [if_pos hy] at this
        simp at this
      · exact h
    have halt2 : altFrom k false l := by
      have := NotesL.altFrom_off halt1 hyoff
      rw [if_pos hy] at this
      exact this.2
    have hnotes : notesGo (x :: y :: l) [] =
        { ch := x.ch, pitch := x.note, on := x.time, off := y.time, vel := x.vel } :: notesGo l [] := by
      have h1 : (y.ty == .noteOn) = false := by rw [hyoff]; rfl
      have h2 : (x.nkey == y.nkey) = true := by simpa using hx.trans hy.symm
      have h3 : List.filter (fun z : Msg => z.nkey != y.nkey) [x] = [] := by
        simp [hx.trans hy.symm]
      simp [notesGo, hxon, hyoff, h2, h3]
    rw [List.pairwise_cons, List.pairwise_cons] at hs
    rw [hnotes, List.pairwise_cons]
    refine ⟨?_, ih (fun z hz => hk z (by simp [hz])) halt2 hs.2.2⟩
    intro m hm
    obtain ⟨o, ho, he⟩ := notesGo_on_mem l [] m hm
    rcases ho with ho | ho
    · have := keyLe_time (hs.2.1 o ho)
      simp only
      omega
    · cases ho

/-- the notes of one key of a sorted well-formed list, in list order, do not overlap -/
theorem in_chain (l : List Msg) (hs : l.Pairwise EQ.KLe) (hwf : WF l) (k : Int × Int) :
    ((notesOf l).filter (fun n => decide ((n.ch, n.pitch) = k))).Pairwise (fun n m => n.off ≤ m.on) := by
  have := NotesL.notesGo_proj k l []
  simp only [List.filter_nil] at this
  rw [notesOf, this]
  refine key_chain k (l.filter (isKN k)) ?_ ?_ (hs.filter _)
  · intro x hx; exact (List.mem_filter.1 hx).2
  · exact (altFrom_filter_kn k l false).2 (hwf k)

theorem in_tri (l : List Msg) (hs : l.Pairwise EQ.KLe) (hwf : WF l) (n m : Note)
    (hn : n ∈ notesOf l) (hm : m ∈ notesOf l) (hc : n.ch = m.ch) (hp : n.pitch = m.pitch) :
    n = m ∨ n.off ≤ m.on ∨ m.off ≤ n.on := by
  have h := in_chain l hs hwf (n.ch, n.pitch)
  exact pairwise_tri h (List.mem_filter.2 ⟨hn, by simp⟩) (List.mem_filter.2 ⟨hm, by simp [hc, hp]⟩)

theorem in_nodup (l : List Msg) (hs : l.Pairwise EQ.KLe) (hwf : WF l) (hpd : ∀ n ∈ notesOf l, n.on < n.off) :
    (notesOf l).Nodup := by
  rw [List.nodup_iff_count]
  intro n
  have h := in_chain l hs hwf (n.ch, n.pitch)
  have hnd : ((notesOf l).filter (fun m => decide ((m.ch, m.pitch) = (n.ch, n.pitch)))).Nodup := by
    refine List.Pairwise.imp_of_mem ?_ h
    intro a b ha _ hab he
    subst he
    have := hpd a (List.mem_filter.1 ha).1
    omega
  have := List.nodup_iff_count.1 hnd n
  rwa [List.count_filter (by simp)] at this

/-! ### the channels of a sorted well-formed list -/

/-- the note pairings per channel -/
abbrev CP (stdLen : Int) (l : List Msg) : Assoc Int (List Pairing) := pairingsSorted notePairTypes stdLen true l

def mk2 (on off : Msg) : Note := { ch := on.ch, pitch := on.note, on := on.time, off := off.time, vel := on.vel }

theorem toNote_nil : toNote [] = none := rfl

theorem toNote_two (on off : Msg) : toNote [on, off] = some (mk2 on off) := rfl

theorem toNote_some {p : Pairing} {n : Note} (h : toNote p = some n) : ∃ on off, p = [on, off] ∧ n = mk2 on off := by
  unfold toNote at h
  split at h
  · rename_i on off
    exact ⟨on, off, rfl, (Option.some.inj h).symm⟩
  · cases h

theorem cp_shape (stdLen : Int) (l : List Msg) (hwf : WF l) : ∀ c ∈ CP stdLen l, ∀ p ∈ c.2,
    ∃ on off, p = [on, off] ∧ on.ty = .noteOn ∧ off.ty = .noteOff ∧ off.nkey = on.nkey ∧ on.ch = c.1 := by
  intro c hc p hp
  obtain ⟨_, _, h3⟩ := NotesL.pairingsSorted_sim notePairTypes rfl rfl stdLen l hwf
  rcases h3 c hc p hp with ⟨on, off, rfl, g1, g2, g3, g4, _, _⟩ | ⟨m, rfl, _⟩
  · exact ⟨on, off, rfl, g1, g2, g3, g4⟩
  · obtain ⟨on, off, h, _⟩ := NL.pairings_good stdLen l c hc [m] hp
    simp at h

theorem cp_kn (stdLen : Int) (l : List Msg) : NL.KN (CP stdLen l) := by
  have hg := NL.fold_good l l {} (NL.good_init l) (fun _ h => h)
  have := hg.knp
  unfold CP pairingsSorted NL.KN at *
  rw [List.pairwise_map]
  exact this

theorem cp_unique (stdLen : Int) (l : List Msg) (c c' : Int × List Pairing) (hc : c ∈ CP stdLen l)
    (hc' : c' ∈ CP stdLen l) (h : c.1 = c'.1) : c = c' := by
  have h1 := NL.get?_of_mem _ c (cp_kn stdLen l) hc
  have h2 := NL.get?_of_mem _ c' (cp_kn stdLen l) hc'
  rw [h, h2] at h1
  obtain ⟨a, b⟩ := c
  obtain ⟨a', b'⟩ := c'
  simp only at h h1
  simp only [Option.some.injEq] at h1
  rw [h, h1]

theorem cp_notes (stdLen : Int) (l : List Msg) (hwf : WF l) :
    ((NotesL.allP (CP stdLen l)).filterMap toNote).Perm (notesOf l) := by
  obtain ⟨h1, _, _⟩ := NotesL.pairingsSorted_sim notePairTypes rfl rfl stdLen l hwf
  have e1 : (NotesL.allP (CP stdLen l)).filterMap toNote
      = ((NotesL.allP (CP stdLen l)).filterMap NotesL.toPair).map NotesL.mkNote := by
    rw [List.map_filterMap]
    have : toNote = fun p => (NotesL.toPair p).map NotesL.mkNote := funext toNote_eq
    rw [this]
  rw [e1, notesOf, NotesL.notesGo_eq]
  exact h1.map _

theorem chan_mem (stdLen : Int) (l : List Msg) (hwf : WF l) (c : Int × List Pairing) (hc : c ∈ CP stdLen l)
    (p : Pairing) (hp : p ∈ c.2) (n : Note) (hn : toNote p = some n) : n ∈ notesOf l ∧ n.ch = c.1 := by
  constructor
  · refine (cp_notes stdLen l hwf).mem_iff.1 ?_
    rw [List.mem_filterMap]
    exact ⟨p, List.mem_flatMap.2 ⟨c, hc, hp⟩, hn⟩
  · obtain ⟨on, off, rfl, _, _, _, h⟩ := cp_shape stdLen l hwf c hc p hp
    rw [toNote_two] at hn
    rw [← Option.some.inj hn]
    exact h

theorem chan_of_note (stdLen : Int) (l : List Msg) (hwf : WF l) (c : Int × List Pairing) (hc : c ∈ CP stdLen l)
    (m : Note) (hm : m ∈ notesOf l) (hch : m.ch = c.1) : ∃ q ∈ c.2, toNote q = some m := by
  have := (cp_notes stdLen l hwf).mem_iff.2 hm
  rw [List.mem_filterMap] at this
  obtain ⟨q, hq, hqm⟩ := this
  obtain ⟨c', hc', hqc⟩ := List.mem_flatMap.1 hq
  have := (chan_mem stdLen l hwf c' hc' q hqc m hqm).2
  have hcc : c' = c := cp_unique stdLen l c' c hc' hc (this.symm.trans hch)
  subst hcc
  exact ⟨q, hqc, hqm⟩

/-- within a channel, the pairings of one pitch come in strictly increasing order of onset -/
theorem chan_strict (stdLen : Int) (l : List Msg) (hs : l.Pairwise EQ.KLe) (hwf : WF l)
    (hpd : ∀ n ∈ notesOf l, n.on < n.off) (c : Int × List Pairing) (hc : c ∈ CP stdLen l) :
    c.2.Pairwise (fun p q => ∀ n m, toNote p = some n → toNote q = some m → n.pitch = m.pitch → n.on < m.on) := by
  have hle := (GluePair.pairingsSorted_spec notePairTypes stdLen l (hs.imp (fun h => keyLe_time h)) c hc).2
  have hnd : (c.2.filterMap toNote).Nodup := by
    have h1 : ((NotesL.allP (CP stdLen l)).filterMap toNote).Nodup :=
      (cp_notes stdLen l hwf).nodup_iff.2 (in_nodup l hs hwf hpd)
    refine List.Nodup.sublist ?_ h1
    apply List.Sublist.filterMap
    exact List.sublist_flatten_of_mem (List.mem_map.2 ⟨c, hc, rfl⟩)
  unfold List.Nodup at hnd
  rw [List.pairwise_filterMap] at hnd
  refine List.Pairwise.imp_of_mem ?_ (hle.and hnd)
  intro p q hp hq hpq n m hn hm hpitch
  obtain ⟨h1, h2⟩ := hpq
  obtain ⟨on, off, rfl, rfl⟩ := toNote_some hn
  obtain ⟨on', off', rfl, rfl⟩ := toNote_some hm
  have hne := h2 _ hn _ hm
  have hle' : on.time ≤ on'.time := h1 on (by simp) on' (by simp)
  obtain ⟨hn1, hn2⟩ := chan_mem stdLen l hwf c hc _ hp _ hn
  obtain ⟨hm1, hm2⟩ := chan_mem stdLen l hwf c hc _ hq _ hm
  have := hpd _ hn1
  have := hpd _ hm1
  rcases in_tri l hs hwf _ _ hn1 hm1 (hn2.trans hm2.symm) hpitch with h | h | h
  · exact absurd h hne
  · simp only [mk2] at *; omega
  · simp only [mk2] at *; omega

/-! ### the next onset -/

/-- same as `C06.nextKeyOnset` -/
def nko (notes : List Note) (n : Note) : Option Int :=
  ((notes.filter (fun m => m.ch == n.ch && m.pitch == n.pitch && decide (n.on < m.on))).map (·.on)).min?

theorem find?_none_idx {α} (P : α → Bool) (l : List α) (h : l.find? P = none) :
    ∀ (j : Nat) (q : α), l[j]? = some q → P q = false := by
  intro j q hq
  have := List.find?_eq_none.1 h q (List.mem_of_getElem? hq)
  simpa using this

theorem find?_some_idx {α} (P : α → Bool) (l : List α) (q : α) (h : l.find? P = some q) :
    P q = true ∧ ∃ j0 : Nat, l[j0]? = some q ∧ ∀ (j' : Nat) (q' : α), j' < j0 → l[j']? = some q' → P q' = false := by
  obtain ⟨h1, j0, hj0, h2, h3⟩ := List.find?_eq_some_iff_getElem.1 h
  refine ⟨h1, j0, ?_, ?_⟩
  · rw [List.getElem?_eq_getElem hj0, h2]
  · intro j' q' hj' hq'
    have hlt : j' < l.length := (List.getElem?_eq_some_iff.1 hq').1
    have := h3 j' hj'
    rw [List.getElem?_eq_getElem hlt] at hq'
    rw [Option.some.inj hq'] at this
    simpa using this

theorem pairwise_idx {α} {R : α → α → Prop} {l : List α} (h : l.Pairwise R) (i j : Nat) (p q : α) (hij : i < j)
    (hp : l[i]? = some p) (hq : l[j]? = some q) : R p q := by
  obtain ⟨hi, rfl⟩ := List.getElem?_eq_some_iff.1 hp
  obtain ⟨hj, rfl⟩ := List.getElem?_eq_some_iff.1 hq
  exact List.pairwise_iff_getElem.1 h i j hi hj hij

theorem mk2_on (on off : Msg) : (mk2 on off).on = on.time := rfl
theorem mk2_pitch (on off : Msg) : (mk2 on off).pitch = on.note := rfl
theorem mk2_ch (on off : Msg) : (mk2 on off).ch = on.ch := rfl

/-- the next pairing of the same pitch in the channel list starts at the next onset of the key -/
theorem next_eq (stdLen : Int) (l : List Msg) (hs : l.Pairwise EQ.KLe) (hwf : WF l)
    (hpd : ∀ n ∈ notesOf l, n.on < n.off) (c : Int × List Pairing) (hc : c ∈ CP stdLen l)
    (i : Nat) (on off : Msg) (hi : c.2[i]? = some [on, off]) :
    nextOnset c.2 i on.note = nko (notesOf l) (mk2 on off) := by
  have hS := chan_strict stdLen l hs hwf hpd c hc
  have hpm : [on, off] ∈ c.2 := List.mem_of_getElem? hi
  obtain ⟨hn1, hn2⟩ := chan_mem stdLen l hwf c hc _ hpm _ (toNote_two on off)
  -- a later note of the key sits at a later position
  have later : ∀ m ∈ notesOf l, m.ch = on.ch → m.pitch = on.note → on.time < m.on →
      ∃ j on' off', i < j ∧ c.2[j]? = some [on', off'] ∧ m = mk2 on' off' := by
    intro m hm h1 h2 h3
    obtain ⟨q, hq, hqm⟩ := chan_of_note stdLen l hwf c hc m hm (h1.trans hn2)
    obtain ⟨on', off', rfl, rfl⟩ := toNote_some hqm
    obtain ⟨j, hj⟩ := List.getElem?_of_mem hq
    refine ⟨j, on', off', ?_, hj, rfl⟩
    rcases Nat.lt_trichotomy j i with hlt | heq | hgt
    · have := pairwise_idx hS j i _ _ hlt hj hi _ _ (toNote_two _ _) (toNote_two _ _) h2
      simp only [mk2_on] at this h3
      omega
    · subst heq
      rw [hi] at hj
      simp only [Option.some.injEq, List.cons.injEq, and_true] at hj
      rw [hj.1] at h3
      simp only [mk2_on] at h3
      omega
    · exact hgt
  unfold nextOnset
  cases hfind : (c.2.drop (i + 1)).find? (fun p => match p with | m :: _ => m.note == on.note | [] => false) with
  | none =>
    have hnone := find?_none_idx _ _ hfind
    simp only
    symm
    unfold nko
    rw [List.min?_eq_none_iff, List.map_eq_nil_iff, List.filter_eq_nil_iff]
    intro m hm hQ
    simp only [Bool.and_eq_true, beq_iff_eq, mk2_on, mk2_pitch, mk2_ch] at hQ
    obtain ⟨j, on', off', hij, hj, rfl⟩ := later m hm hQ.1.1 hQ.1.2 (of_decide_eq_true hQ.2)
    have := hnone (j - (i + 1)) [on', off'] (by rw [List.getElem?_drop]; rw [← hj]; congr 1; omega)
    simp only [beq_eq_false_iff_ne, ne_eq] at this
    exact this hQ.1.2
  | some q =>
    obtain ⟨hP, j0, hj0, hfirst⟩ := find?_some_idx _ _ _ hfind
    rw [List.getElem?_drop] at hj0
    obtain ⟨onq, offq, rfl, _⟩ := cp_shape stdLen l hwf c hc q (List.mem_of_getElem? hj0)
    simp only [beq_iff_eq] at hP
    simp only
    symm
    unfold nko
    rw [List.min?_eq_some_iff]
    have hq1 := chan_mem stdLen l hwf c hc _ (List.mem_of_getElem? hj0) _ (toNote_two onq offq)
    have hlt : on.time < onq.time :=
      pairwise_idx hS i (i + 1 + j0) _ _ (by omega) hi hj0 _ _ (toNote_two _ _) (toNote_two _ _) hP.symm
    constructor
    · rw [List.mem_map]
      refine ⟨mk2 onq offq, ?_, rfl⟩
      rw [List.mem_filter]
      refine ⟨hq1.1, ?_⟩
      simp only [Bool.and_eq_true, beq_iff_eq, mk2_on, mk2_pitch, mk2_ch]
      exact ⟨⟨hq1.2.trans hn2.symm, hP⟩, decide_eq_true hlt⟩
    · intro b hb
      rw [List.mem_map] at hb
      obtain ⟨m, hm, rfl⟩ := hb
      rw [List.mem_filter] at hm
      obtain ⟨hm, hQ⟩ := hm
      simp only [Bool.and_eq_true, beq_iff_eq, mk2_on, mk2_pitch, mk2_ch] at hQ
      obtain ⟨j, on', off', hij, hj, rfl⟩ := later m hm hQ.1.1 hQ.1.2 (of_decide_eq_true hQ.2)
      rcases Nat.lt_trichotomy (j - (i + 1)) j0 with h | h | h
      · have := hfirst (j - (i + 1)) [on', off'] h (by rw [List.getElem?_drop]; rw [← hj]; congr 1; omega)
        simp only [beq_eq_false_iff_ne, ne_eq] at this
        exact absurd hQ.1.2 this
      · have e : i + 1 + j0 = j := by omega
        rw [e, hj] at hj0
        simp only [Option.some.injEq, List.cons.injEq, and_true] at hj0
        rw [hj0.1]
        exact Int.le_refl _
      · have := pairwise_idx hS (i + 1 + j0) j _ _ (by omega) hj0 hj _ _ (toNote_two _ _) (toNote_two _ _)
          (hP.trans hQ.1.2.symm)
        simp only [mk2_on] at this ⊢
        omega

/-! ### the local choice -/

/-- the new duration of a note from `onT` to `offT` whose key's next note starts at `nx` -/
def chosenAt (values : List Int) (dne : Bool) (nx : Option Int) (onT offT : Int) : Option Int :=
  let valid := validDurations values dne onT offT nx
  if valid.length == 0 then none
  else match nearest (offT - onT) valid with
    | .ok b => some b
    | .error _ => none

theorem chosenAt_spec (values : List Int) (dne : Bool) (nx : Option Int) (onT offT : Int) :
    (chosenAt values dne nx onT offT = none ↔ ∀ x, ¬ (x ∈ values ∧ C06.fits dne onT offT nx x)) ∧
    ∀ x, chosenAt values dne nx onT offT = some x →
      (x ∈ values ∧ C06.fits dne onT offT nx x) ∧
      ∀ y, (y ∈ values ∧ C06.fits dne onT offT nx y) → (x - (offT - onT)).natAbs ≤ (y - (offT - onT)).natAbs := by
  by_cases hv : validDurations values dne onT offT nx = []
  · have e : chosenAt values dne nx onT offT = none := by simp [chosenAt, hv]
    rw [e]
    refine ⟨⟨fun _ x hx => ?_, fun _ => rfl⟩, fun x h => (by cases h)⟩
    have := (C06.validDurations_spec values dne onT offT nx x).2 hx
    rw [hv] at this
    cases this
  · obtain ⟨v, h1, h2, h3⟩ := C06.nearest_spec (offT - onT) _ hv
    have e : chosenAt values dne nx onT offT = some v := by
      have : ((validDurations values dne onT offT nx).length == 0) = false := by
        simpa using hv
      simp only [chosenAt, this, h1]
      rfl
    rw [e]
    refine ⟨⟨fun h => (by cases h), fun h => ?_⟩, fun x hx => ?_⟩
    · exact absurd ((C06.validDurations_spec values dne onT offT nx v).1 h2) (h v)
    · have : v = x := Option.some.inj hx
      subst this
      exact ⟨(C06.validDurations_spec values dne onT offT nx v).1 h2,
        fun y hy => h3 y ((C06.validDurations_spec values dne onT offT nx y).2 hy)⟩

theorem stepOne_eq (values : List Int) (dne : Bool) (ps : List Pairing) (i : Nat) (on off : Msg) :
    NL.stepOne values dne ps ([on, off], i) =
      match chosenAt values dne (nextOnset ps i on.note) on.time off.time with
      | none => []
      | some x => [on, { off with time := on.time + x }] := by
  simp only [NL.stepOne, chosenAt]
  split
  · rfl
  · cases nearest (off.time - on.time) (validDurations values dne on.time off.time (nextOnset ps i on.note)) with
    | error e => rfl
    | ok b =>
      simp only
      have : off.time + (b - (off.time - on.time)) = on.time + b := by omega
      rw [this]

/-! ### the output of one channel -/

theorem nko_le (notes : List Note) (n m : Note) (hm : m ∈ notes) (hc : m.ch = n.ch) (hp : m.pitch = n.pitch)
    (hlt : n.on < m.on) : ∃ z, nko notes n = some z ∧ z ≤ m.on := by
  apply min?_le
  rw [List.mem_map]
  refine ⟨m, ?_, rfl⟩
  rw [List.mem_filter]
  refine ⟨hm, ?_⟩
  simp only [Bool.and_eq_true, beq_iff_eq]
  exact ⟨⟨hc, hp⟩, decide_eq_true hlt⟩

/-- a kept note ends before the next pairing of its pitch begins -/
theorem chan_gap (values : List Int) (dne : Bool) (stdLen : Int) (l : List Msg) (hs : l.Pairwise EQ.KLe) (hwf : WF l)
    (hpd : ∀ n ∈ notesOf l, n.on < n.off) (c : Int × List Pairing) (hc : c ∈ CP stdLen l)
    (i j : Nat) (hij : i < j) (on off on' off' : Msg) (hi : c.2[i]? = some [on, off]) (hj : c.2[j]? = some [on', off'])
    (hnote : on.note = on'.note) (x : Int)
    (hx : chosenAt values dne (nextOnset c.2 i on.note) on.time off.time = some x) :
    on.time < on'.time ∧ on.time + x ≤ on'.time := by
  have hS := chan_strict stdLen l hs hwf hpd c hc
  have hlt : on.time < on'.time :=
    pairwise_idx hS i j _ _ hij hi hj _ _ (toNote_two _ _) (toNote_two _ _) hnote
  refine ⟨hlt, ?_⟩
  rw [next_eq stdLen l hs hwf hpd c hc i on off hi] at hx
  obtain ⟨h1, h2⟩ := chan_mem stdLen l hwf c hc _ (List.mem_of_getElem? hi) _ (toNote_two on off)
  obtain ⟨h3, h4⟩ := chan_mem stdLen l hwf c hc _ (List.mem_of_getElem? hj) _ (toNote_two on' off')
  obtain ⟨z, hz, hzle⟩ := nko_le (notesOf l) (mk2 on off) (mk2 on' off') h3 (h4.trans h2.symm) hnote.symm hlt
  have := ((chosenAt_spec values dne _ on.time off.time).2 x hx).1.2.1 z (by rw [hz]; rfl)
  simp only [mk2_on] at hzle
  omega

/-- the pairings one channel contributes -/
def outP (values : List Int) (dne : Bool) (c : Int × List Pairing) : List Pairing :=
  c.2.zipIdx.map (NL.stepOne values dne c.2)

theorem mem_outP (values : List Int) (dne : Bool) (stdLen : Int) (l : List Msg) (hwf : WF l)
    (c : Int × List Pairing) (hc : c ∈ CP stdLen l) (i : Nat) (q : Pairing) (hq : (outP values dne c)[i]? = some q) :
    ∃ on off, c.2[i]? = some [on, off] ∧ on.ty = .noteOn ∧ off.ty = .noteOff ∧ off.nkey = on.nkey ∧ on.ch = c.1 ∧
      q = match chosenAt values dne (nextOnset c.2 i on.note) on.time off.time with
        | none => []
        | some x => [on, { off with time := on.time + x }] := by
  simp only [outP, List.getElem?_map, List.getElem?_zipIdx, Option.map_map, Option.map_eq_some_iff] at hq
  obtain ⟨p, hp, rfl⟩ := hq
  obtain ⟨on, off, rfl, h1, h2, h3, h4⟩ := cp_shape stdLen l hwf c hc p (List.mem_of_getElem? hp)
  refine ⟨on, off, hp, h1, h2, h3, h4, ?_⟩
  simp only [Function.comp, Nat.zero_add]
  exact stepOne_eq values dne c.2 i on off

theorem kle_of (a b : Msg) (h : a.time < b.time ∨ (a.time = b.time ∧ a.ch = b.ch ∧ a.ty = .noteOff ∧ b.ty = .noteOn)) :
    EQ.KLe a b := by
  show keyLe a b = true
  rw [EQ.keyLe_iff]
  rcases h with h | ⟨h1, h2, h3, h4⟩
  · exact Or.inl h
  · refine Or.inr ⟨h1, Or.inr ⟨h2, Or.inl ?_⟩⟩
    rw [h3, h4]; decide

/-- messages of the same key are in key order -/
def KR (x y : Msg) : Prop := x.nkey = y.nkey → EQ.KLe x y

theorem outP_sorted (values : List Int) (hv : ∀ v ∈ values, 0 < v) (dne : Bool) (stdLen : Int) (l : List Msg)
    (hs : l.Pairwise EQ.KLe) (hwf : WF l) (hpd : ∀ n ∈ notesOf l, n.on < n.off)
    (c : Int × List Pairing) (hc : c ∈ CP stdLen l) : (outP values dne c).flatten.Pairwise KR := by
  rw [List.pairwise_flatten]
  constructor
  · intro q hq
    obtain ⟨i, hi⟩ := List.getElem?_of_mem hq
    obtain ⟨on, off, h0, h1, h2, h3, h4, rfl⟩ := mem_outP values dne stdLen l hwf c hc i q hi
    cases hx : chosenAt values dne (nextOnset c.2 i on.note) on.time off.time with
    | none => simp
    | some x =>
      have := hv x ((chosenAt_spec values dne _ on.time off.time).2 x hx).1.1
      simp only [List.pairwise_cons, List.mem_singleton, forall_eq, List.not_mem_nil, false_imp_iff, implies_true,
        List.Pairwise.nil, and_true]
      intro _
      apply kle_of
      left
      simp only
      omega
  · rw [List.pairwise_iff_getElem]
    intro i j hi hj hij x hxm y hym hk
    have hi' : (outP values dne c)[i]? = some (outP values dne c)[i] := List.getElem?_eq_getElem hi
    have hj' : (outP values dne c)[j]? = some (outP values dne c)[j] := List.getElem?_eq_getElem hj
    obtain ⟨on, off, a0, a1, a2, a3, a4, ea⟩ := mem_outP values dne stdLen l hwf c hc i _ hi'
    obtain ⟨on', off', b0, b1, b2, b3, b4, eb⟩ := mem_outP values dne stdLen l hwf c hc j _ hj'
    rw [ea] at hxm
    rw [eb] at hym
    cases hx : chosenAt values dne (nextOnset c.2 i on.note) on.time off.time with
    | none => rw [hx] at hxm; simp at hxm
    | some xi =>
      cases hy : chosenAt values dne (nextOnset c.2 j on'.note) on'.time off'.time with
      | none => rw [hy] at hym; simp at hym
      | some xj =>
        rw [hx] at hxm
        rw [hy] at hym
        simp only [List.mem_cons, List.not_mem_nil, or_false] at hxm hym
        have pi := hv xi ((chosenAt_spec values dne _ on.time off.time).2 xi hx).1.1
        have pj := hv xj ((chosenAt_spec values dne _ on'.time off'.time).2 xj hy).1.1
        have hkk : on.nkey = on'.nkey := by
          rcases hxm with e1 | e1 <;> rcases hym with e2 | e2 <;> rw [e1, e2] at hk
          · exact hk
          · exact hk.trans b3
          · exact a3.symm.trans hk
          · exact a3.symm.trans (hk.trans b3)
        have hnote : on.note = on'.note := congrArg Prod.snd hkk
        have hch : on.ch = on'.ch := congrArg Prod.fst hkk
        have hoffch : off.ch = on.ch := congrArg Prod.fst a3
        obtain ⟨g1, g2⟩ := chan_gap values dne stdLen l hs hwf hpd c hc i j hij on off on' off' a0 b0 hnote xi hx
        apply kle_of
        rcases hxm with e1 | e1 <;> rcases hym with e2 | e2 <;> rw [e1, e2]
        · exact Or.inl g1
        · left; simp only; omega
        · simp only
          by_cases he : on.time + xi = on'.time
          · exact Or.inr ⟨he, hoffch.trans hch, a2, b1⟩
          · left; omega
        · left; simp only; omega

theorem mem_outP_flatten (values : List Int) (dne : Bool) (stdLen : Int) (l : List Msg) (hwf : WF l)
    (c : Int × List Pairing) (hc : c ∈ CP stdLen l) (x : Msg) (hx : x ∈ (outP values dne c).flatten) :
    x.ch = c.1 ∧ (x.ty = .noteOn ∨ x.ty = .noteOff) := by
  obtain ⟨q, hq, hxq⟩ := List.mem_flatten.1 hx
  obtain ⟨i, hi⟩ := List.getElem?_of_mem hq
  obtain ⟨on, off, h0, h1, h2, h3, h4, rfl⟩ := mem_outP values dne stdLen l hwf c hc i q hi
  cases hx : chosenAt values dne (nextOnset c.2 i on.note) on.time off.time with
  | none => rw [hx] at hxq; simp at hxq
  | some xi =>
    rw [hx] at hxq
    simp only [List.mem_cons, List.not_mem_nil, or_false] at hxq
    rcases hxq with rfl | rfl
    · exact ⟨h4, Or.inl h1⟩
    · exact ⟨(congrArg Prod.fst h3).trans h4, Or.inr h2⟩

/-- all note messages of the result before the final sort -/
def allOut (values : List Int) (dne : Bool) (stdLen : Int) (l : List Msg) : List Msg :=
  (CP stdLen l).flatMap (fun c => (outP values dne c).flatten)

theorem allOut_eq (values : List Int) (dne : Bool) (stdLen : Int) (l : List Msg) :
    allOut values dne stdLen l = (CP stdLen l).flatMap (NL.chanOut values dne) := rfl

theorem allOut_sorted (values : List Int) (hv : ∀ v ∈ values, 0 < v) (dne : Bool) (stdLen : Int) (l : List Msg)
    (hs : l.Pairwise EQ.KLe) (hwf : WF l) (hpd : ∀ n ∈ notesOf l, n.on < n.off) :
    (allOut values dne stdLen l).Pairwise KR := by
  unfold allOut
  rw [List.pairwise_flatMap]
  refine ⟨fun c hc => outP_sorted values hv dne stdLen l hs hwf hpd c hc, ?_⟩
  refine List.Pairwise.imp_of_mem ?_ (cp_kn stdLen l)
  intro c c' hc hc' hne x hx y hy hk
  have h1 := (mem_outP_flatten values dne stdLen l hwf c hc x hx).1
  have h2 := (mem_outP_flatten values dne stdLen l hwf c' hc' y hy).1
  exact absurd (h1.symm.trans ((congrArg Prod.fst hk).trans h2)) hne

/-- the note events of one key are in key order before the final sort -/
theorem key_sorted (values : List Int) (hv : ∀ v ∈ values, 0 < v) (dne : Bool) (stdLen : Int) (l : List Msg)
    (hs : l.Pairwise EQ.KLe) (hwf : WF l) (hpd : ∀ n ∈ notesOf l, n.on < n.off) (k : Int × Int) :
    ((allOut values dne stdLen l ++ l.filter (fun m => m.ty != .noteOn && m.ty != .noteOff)).filter (isKN k)).Pairwise EQ.KLe
    ∧ (allOut values dne stdLen l ++ l.filter (fun m => m.ty != .noteOn && m.ty != .noteOff)).filter (isKN k)
        = (allOut values dne stdLen l).filter (isKN k) := by
  have h0 : (l.filter (fun m => m.ty != .noteOn && m.ty != .noteOff)).filter (isKN k) = [] := by
    rw [List.filter_filter, List.filter_eq_nil_iff]
    intro m _
    cases hty : m.ty <;> simp [isKN, hty]
  rw [List.filter_append, h0, List.append_nil]
  refine ⟨?_, rfl⟩
  rw [List.pairwise_filter]
  refine (allOut_sorted values hv dne stdLen l hs hwf hpd).imp ?_
  intro x y hxy h1 h2
  apply hxy
  simp only [isKN, decide_eq_true_eq] at h1 h2
  exact h1.1.trans h2.1.symm

/-! ### the notes of the result -/

/-- shape of an output pairing -/
def OutShape (p : Pairing) : Prop :=
  p = [] ∨ ∃ on off, p = [on, off] ∧ on.ty = .noteOn ∧ off.ty = .noteOff ∧ off.nkey = on.nkey

theorem notesGo_others : ∀ (l os : List Msg), (∀ m ∈ l, m.ty ≠ .noteOn ∧ m.ty ≠ .noteOff) → notesGo l os = [] := by
  intro l
  induction l with
  | nil => intro os _; rfl
  | cons x xs ih =>
    intro os h
    obtain ⟨h1, h2⟩ := h x List.mem_cons_self
    have e1 : (x.ty == .noteOn) = false := by simpa using h1
    have e2 : (x.ty == .noteOff) = false := by simpa using h2
    simp only [notesGo, e1, e2, Bool.false_eq_true, if_false]
    exact ih os (fun m hm => h m (List.mem_cons_of_mem _ hm))

theorem notesGo_pairs : ∀ (P : List Pairing), (∀ p ∈ P, OutShape p) → ∀ rest : List Msg,
    notesGo (P.flatten ++ rest) [] = P.filterMap toNote ++ notesGo rest [] := by
  intro P
  induction P with
  | nil => intro _ rest; simp
  | cons p P ih =>
    intro h rest
    have ih' := ih (fun q hq => h q (List.mem_cons_of_mem _ hq)) rest
    rcases h p List.mem_cons_self with rfl | ⟨on, off, rfl, h1, h2, h3⟩
    · rw [List.flatten_cons, List.nil_append, List.filterMap_cons, toNote_nil]
      exact ih'
    · have e1 : (off.ty == .noteOn) = false := by rw [h2]; rfl
      have e2 : (on.nkey == off.nkey) = true := by simpa using h3.symm
      have e3 : List.filter (fun z : Msg => z.nkey != off.nkey) [on] = [] := by
        simp [h3]
      simp only [List.flatten_cons, List.cons_append, List.nil_append, List.filterMap_cons, toNote_two]
      simp only [notesGo, h1, h2, beq_self_eq_true, if_true, List.filter_nil, List.find?_cons, e2, e3]
      rw [ih']
      rfl

theorem outP_shape (values : List Int) (dne : Bool) (stdLen : Int) (l : List Msg) (hwf : WF l)
    (c : Int × List Pairing) (hc : c ∈ CP stdLen l) : ∀ q ∈ outP values dne c, OutShape q := by
  intro q hq
  obtain ⟨i, hi⟩ := List.getElem?_of_mem hq
  obtain ⟨on, off, h0, h1, h2, h3, h4, rfl⟩ := mem_outP values dne stdLen l hwf c hc i q hi
  cases chosenAt values dne (nextOnset c.2 i on.note) on.time off.time with
  | none => exact Or.inl rfl
  | some x => exact Or.inr ⟨on, _, rfl, h1, h2, h3⟩

/-- what happens to a note -/
def newNote (values : List Int) (dne : Bool) (notes : List Note) (n : Note) : Option Note :=
  (chosenAt values dne (nko notes n) n.on n.off).map (fun x => { n with off := n.on + x })

theorem outP_notes (values : List Int) (dne : Bool) (stdLen : Int) (l : List Msg)
    (hs : l.Pairwise EQ.KLe) (hwf : WF l) (hpd : ∀ n ∈ notesOf l, n.on < n.off)
    (c : Int × List Pairing) (hc : c ∈ CP stdLen l) :
    (outP values dne c).filterMap toNote = (c.2.filterMap toNote).filterMap (newNote values dne (notesOf l)) := by
  unfold outP
  rw [List.filterMap_map, List.filterMap_filterMap]
  conv => rhs; rw [← List.zipIdx_map_fst 0 c.2, List.filterMap_map]
  apply filterMap_congr'
  intro pi hpi
  obtain ⟨p, i⟩ := pi
  have hm := List.mem_zipIdx hpi
  have hi : c.2[i]? = some p := by
    have h1 : i < c.2.length := by omega
    rw [List.getElem?_eq_getElem h1, hm.2.2]
    rfl
  obtain ⟨on, off, rfl, _⟩ := cp_shape stdLen l hwf c hc p (List.mem_of_getElem? hi)
  simp only [Function.comp, toNote_two, Option.bind_some]
  rw [stepOne_eq, next_eq stdLen l hs hwf hpd c hc i on off hi]
  simp only [newNote]
  show _ = Option.map _ (chosenAt values dne (nko (notesOf l) (mk2 on off)) on.time off.time)
  cases chosenAt values dne (nko (notesOf l) (mk2 on off)) on.time off.time with
  | none => rfl
  | some x => rfl

theorem notes_allOut (values : List Int) (dne : Bool) (stdLen : Int) (l : List Msg)
    (hs : l.Pairwise EQ.KLe) (hwf : WF l) (hpd : ∀ n ∈ notesOf l, n.on < n.off) :
    (notesOf (allOut values dne stdLen l ++ l.filter (fun m => m.ty != .noteOn && m.ty != .noteOff))).Perm
      ((notesOf l).filterMap (newNote values dne (notesOf l))) := by
  have e : allOut values dne stdLen l = ((CP stdLen l).flatMap (outP values dne)).flatten := by
    rw [flatten_flatMap']; rfl
  rw [e, notesOf, notesGo_pairs]
  · rw [notesGo_others _ _ (by
      intro m hm
      have := (List.mem_filter.1 hm).2
      simpa using this), List.append_nil]
    refine List.Perm.trans (List.Perm.of_eq ?_) ((cp_notes stdLen l hwf).filterMap _)
    unfold NotesL.allP
    generalize hcp : CP stdLen l = cp
    have hsub : ∀ c ∈ cp, c ∈ CP stdLen l := by rw [hcp]; exact fun _ h => h
    clear hcp
    induction cp with
    | nil => rfl
    | cons c cs ih =>
      simp only [List.flatMap_cons, List.filterMap_append]
      rw [ih (fun c' hc' => hsub c' (List.mem_cons_of_mem _ hc')),
        outP_notes values dne stdLen l hs hwf hpd c (hsub c List.mem_cons_self)]
  · intro q hq
    obtain ⟨c, hc, hqc⟩ := List.mem_flatMap.1 hq
    exact outP_shape values dne stdLen l hwf c hc q hqc

/-- **the notes of the result** for a sorted list -/
theorem notes_out (values : List Int) (hv : ∀ v ∈ values, 0 < v) (dne : Bool) (stdLen : Int) (l : List Msg)
    (hs : l.Pairwise EQ.KLe) (hwf : WF l) (hpd : ∀ n ∈ notesOf l, n.on < n.off) :
    (notesOf (sortAbs (allOut values dne stdLen l ++ l.filter (fun m => m.ty != .noteOn && m.ty != .noteOff)))).Perm
      ((notesOf l).filterMap (newNote values dne (notesOf l))) :=
  (NotesL.notesOf_sort_perm _ (fun k => (key_sorted values hv dne stdLen l hs hwf hpd k).1)).trans
    (notes_allOut values dne stdLen l hs hwf hpd)

/-! ### the result is well-formed -/

theorem altFrom_pairs (k : Int × Int) : ∀ (P : List Pairing), (∀ p ∈ P, OutShape p) → altFrom k false P.flatten := by
  intro P
  induction P with
  | nil => intro _; simp [altFrom]
  | cons p P ih =>
    intro h
    have ih' := ih (fun q hq => h q (List.mem_cons_of_mem _ hq))
    rcases h p List.mem_cons_self with rfl | ⟨on, off, rfl, h1, h2, h3⟩
    · simpa using ih'
    · simp only [List.flatten_cons, List.cons_append, List.nil_append]
      by_cases hk : on.nkey = k
      · have hk' : off.nkey = k := h3.trans hk
        simp [altFrom, hk, hk', h1, h2, ih']
      · have hk' : ¬ off.nkey = k := fun h => hk (h3.symm.trans h)
        simp [altFrom, hk, hk', ih']

theorem wf_out (values : List Int) (hv : ∀ v ∈ values, 0 < v) (dne : Bool) (stdLen : Int) (l : List Msg)
    (hs : l.Pairwise EQ.KLe) (hwf : WF l) (hpd : ∀ n ∈ notesOf l, n.on < n.off) :
    WF (sortAbs (allOut values dne stdLen l ++ l.filter (fun m => m.ty != .noteOn && m.ty != .noteOff))) := by
  intro k
  obtain ⟨h1, h2⟩ := key_sorted values hv dne stdLen l hs hwf hpd k
  rw [← altFrom_filter_kn, EQ.filter_sortAbs, sortAbs, EQ.isort_of_pairwise _ _ h1, h2, altFrom_filter_kn]
  have e : allOut values dne stdLen l = ((CP stdLen l).flatMap (outP values dne)).flatten := by
    rw [flatten_flatMap']; rfl
  rw [e]
  apply altFrom_pairs
  intro q hq
  obtain ⟨c, hc, hqc⟩ := List.mem_flatMap.1 hq
  exact outP_shape values dne stdLen l hwf c hc q hqc

end SCoda.NLB
