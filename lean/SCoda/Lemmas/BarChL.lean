/-
  Helper lemmas for the channel-parametrised bar constructor `mkBarCh` (Model/BarCh.lean): the instance 0 is `mkBar`,
  every instance is `mkBar` with the leading event moved to the channel, and the facts of Lemmas/Bar.lean about the
  accepted sequence (`barSeq`) for the sequence with the leading event on an arbitrary channel (`barSeqCh`).
-/
import SCoda.Model.BarCh
import SCoda.Lemmas.Bar
namespace SCoda.BarChL
open SCoda SCoda.BarL

/-- the instance 0 is the hand model `mkBar` -/
theorem mkBarCh_zero (ppqn : Int) (rel : List Msg) (n d key : Int) : mkBarCh ppqn rel n d key 0 = mkBar ppqn rel n d key := rfl

theorem copyCh_zero (ppqn : Int) (b : Bar) : b.copyCh ppqn 0 = b.copy ppqn := rfl

theorem chanOf_zero : chanOf 0 = 0 := by decide

/-- for every channel: `mkBar`'s exception, or `mkBar`'s bar with the leading event moved to the channel -/
theorem mkBarCh_eq_map (ppqn : Int) (rel : List Msg) (n d key ch : Int) :
    mkBarCh ppqn rel n d key ch = (fun b => b.withSigCh ch) <$> mkBar ppqn rel n d key := by
  unfold mkBarCh mkBar
  simp only [bind, Except.bind, throw, throwThe, MonadExcept.throw]
  repeat' split
  all_goals rfl

/-- the sequence of an accepted bar whose leading event is on channel `ch` -/
def barSeqCh (ch ppqn : Int) (rel : List Msg) (n d : Int) : List Msg :=
  Msg.mkTimeSig ch n d pyNone :: (barBody ppqn rel n d).filter (·.ty != .timeSignature)

theorem barSeqCh_zero (ppqn : Int) (rel : List Msg) (n d : Int) : barSeqCh 0 ppqn rel n d = barSeq ppqn rel n d := rfl

theorem setHeadCh_barSeq (ch ppqn : Int) (rel : List Msg) (n d : Int) :
    setHeadCh ch (barSeq ppqn rel n d) = barSeqCh ch ppqn rel n d := rfl

theorem mkBarCh_ok {ppqn : Int} {rel : List Msg} {n d key ch : Int} {b : Bar}
    (h : mkBarCh ppqn rel n d key ch = .ok b) :
    totalWait (normalise rel) ≤ barCapacity ppqn n d ∧ (barSigs ppqn rel n d).length ≤ 1
      ∧ (∀ m ∈ barSigs ppqn rel n d, m.num = n ∧ m.den = d)
      ∧ b = { seq := barSeqCh ch ppqn rel n d, num := n, den := d, key := key } := by
  rw [mkBarCh_eq_map] at h
  cases h0 : mkBar ppqn rel n d key with
  | error x => rw [h0] at h; cases h
  | ok b0 =>
    rw [h0] at h
    obtain ⟨h1, h2, h3, hb⟩ := mkBar_ok h0
    subst hb
    injection h with h
    exact ⟨h1, h2, h3, h.symm⟩

theorem mkBarCh_ok_of {ppqn : Int} {rel : List Msg} {n d : Int} (key ch : Int)
    (h1 : totalWait (normalise rel) ≤ barCapacity ppqn n d) (h2 : (barSigs ppqn rel n d).length ≤ 1)
    (h3 : ∀ m ∈ barSigs ppqn rel n d, m.num = n ∧ m.den = d) :
    mkBarCh ppqn rel n d key ch = .ok { seq := barSeqCh ch ppqn rel n d, num := n, den := d, key := key } := by
  rw [mkBarCh_eq_map, mkBar_ok_of key h1 h2 h3]
  rfl

/-! ### the accepted sequence, leading event on channel `ch` (as Lemmas/Bar.lean `barSeq_*`) -/

theorem barSeqCh_nonneg (ch ppqn : Int) (rel : List Msg) (n d : Int) : NonNegWaits (barSeqCh ch ppqn rel n d) := by
  intro m hm hw
  unfold barSeqCh at hm
  rcases List.mem_cons.1 hm with e | e
  · subst e; cases hw
  · exact barBody_nonneg ppqn rel n d m (List.mem_filter.1 e).1 hw

theorem barSeqCh_dur (ch ppqn : Int) (rel : List Msg) (n d : Int)
    (h : totalWait (normalise rel) ≤ barCapacity ppqn n d) :
    totalWait (barSeqCh ch ppqn rel n d) = barCapacity ppqn n d := by
  unfold barSeqCh
  rw [totalWait, BarL.totalWait_filter _ notTS_wait, barBody_dur ppqn rel n d h]
  simp [Msg.mkTimeSig]

theorem barSeqCh_events (ch ppqn : Int) (rel : List Msg) (n d : Int) :
    eventsRel (barSeqCh ch ppqn rel n d) =
      Msg.mkTimeSig ch n d 0 :: (eventsRel (normalise rel)).filter (·.ty != .timeSignature) := by
  unfold barSeqCh eventsRel
  have h0 : ∀ X : List Msg, eventsRelGo 0 (Msg.mkTimeSig ch n d pyNone :: X)
      = Msg.mkTimeSig ch n d 0 :: eventsRelGo 0 X := fun _ => rfl
  rw [h0, BarL.eventsRelGo_filter _ notTS_wait notTS_stampInv]
  have := barBody_events ppqn rel n d
  unfold eventsRel at this
  rw [this]

theorem barSeqCh_wf (ch ppqn : Int) (rel : List Msg) (n d : Int) : WF (barSeqCh ch ppqn rel n d) := by
  intro k
  unfold barSeqCh
  have h1 : ¬ ((Msg.mkTimeSig ch n d pyNone).nkey = k ∧ (Msg.mkTimeSig ch n d pyNone).ty = .noteOn) := by
    simp [Msg.mkTimeSig]
  have h2 : ¬ ((Msg.mkTimeSig ch n d pyNone).nkey = k ∧ (Msg.mkTimeSig ch n d pyNone).ty = .noteOff) := by
    simp [Msg.mkTimeSig]
  rw [altFrom, if_neg h1, if_neg h2, BarL.altFrom_filter _ (fun m hm => by rcases hm with e | e <;> simp [e])]
  exact barBody_wf ppqn rel n d k

theorem barSeqCh_tsVals (ch ppqn : Int) (rel : List Msg) (n d : Int) :
    tsVals (barSeqCh ch ppqn rel n d) = [(n, d)] := by
  unfold barSeqCh
  rw [tsVals_cons]
  have : tsVals ((barBody ppqn rel n d).filter (·.ty != .timeSignature)) = [] := by
    unfold tsVals
    rw [List.filter_filter]
    simp
  rw [this]
  simp [Msg.mkTimeSig]

theorem barSeqCh_ksVals (ch ppqn : Int) (rel : List Msg) (n d : Int) :
    ksVals (barSeqCh ch ppqn rel n d) = ksVals (normalise rel) := by
  unfold barSeqCh
  rw [ksVals_cons, if_neg (by simp [Msg.mkTimeSig])]
  unfold ksVals
  rw [List.filter_filter]
  have e : (fun a : Msg => (a.ty == MType.keySignature && a.ty != MType.timeSignature))
      = (fun a : Msg => a.ty == MType.keySignature) := by
    funext a
    cases h : a.ty <;> simp
  rw [e, barBody_filter ppqn rel n d _ (fun m hm => by simp [hm])]

end SCoda.BarChL
