/-
  Helper lemmas for the channel-parametrised bar constructor `mkBarCh` (Model/BarCh.lean): the instance 0 is `mkBar`,
  every instance is `mkBar` with the leading event moved to the channel, and the facts of Lemmas/Bar.lean about the
  accepted sequence (`barSeq`) for the sequence with the leading event on an arbitrary channel (`barSeqCh`).
-/
import SCoda.Model.BarCh
import SCoda.Lemmas.Bar
namespace SCoda.BarChL
open SCoda SCoda.BarL

/-- the instance 0 is the hand model `mkBar` -/
theorem mkBarCh_zero (ppqn : Int) (rel : List Msg) (n d key : Int) : mkBarCh ppqn rel n d key 0 = mkBar ppqn rel n d key := rfl

theorem copyCh_zero (ppqn : Int) (b : Bar) : b.copyCh ppqn 0 = b.copy ppqn := rfl

theorem chanOf_zero : chanOf 0 = 0 := by decide

/-- for every channel: `mkBar`'s exception, or `mkBar`'s bar with the leading event moved to the channel -/
theorem mkBarCh_eq_map (ppqn : Int) (rel : List Msg) (n d key ch : Int) :
    mkBarCh ppqn rel n d key ch = (fun b => b.withSigCh ch) <$> mkBar ppqn rel n d key := by
  unfold mkBarCh mkBar
  simp only [bind, Except.bind, throw, throwThe, MonadExcept.throw]
  repeat' split
  all_goals rfl

/-- the sequence of an accepted bar whose leading event is on channel `ch` -/
def barSeqCh (ch ppqn : Int) (rel : List Msg) (n d : Int) : List Msg :=
  Msg.mkTimeSig ch n d pyNone :: (barBody ppqn rel n d).filter (·.ty != .timeSignature)

theorem barSeqCh_zero (ppqn : Int) (rel : List Msg) (n d : Int) : barSeqCh 0 ppqn rel n d = barSeq ppqn rel n d := rfl

theorem setHeadCh_barSeq (ch ppqn : Int) (rel : List Msg) (n d : Int) :
    setHeadCh ch (barSeq ppqn rel n d) = barSeqCh ch ppqn rel n d := rfl

theorem mkBarCh_ok {ppqn : Int} {rel : List Msg} {n d key ch : Int} {b : Bar}
    (h : mkBarCh ppqn rel n d key ch = .ok b) :
    totalWait (normalise rel) ≤ barCapacity ppqn n d ∧ (barSigs ppqn rel n d).length ≤ 1
      ∧ (∀ m ∈ barSigs ppqn rel n d, m.num = n ∧ m.den = d)
      ∧ b = { seq := barSeqCh ch ppqn rel n d, num := n, den := d, key := key } := by
  rw [mkBarCh_eq_map] at h
  cases h0 : mkBar ppqn rel n d key with
  | error x => rw [h0] at h; cases h
  | ok b0 =>
    rw [h0] at h
    obtain ⟨h1, h2, h3, hb⟩ := mkBar_ok h0
    subst hb
    injection h with h
    exact ⟨h1, h2, h3, h.symm⟩

theorem mkBarCh_ok_of {ppqn : Int} {rel : List Msg} {n d : Int} (key ch : Int)
    (h1 : totalWait (normalise rel) ≤ barCapacity ppqn n d) (h2 : (barSigs ppqn rel n d).length ≤ 1)
    (h3 : ∀ m ∈ barSigs ppqn rel n d, m.num = n ∧ m.den = d) :
    mkBarCh ppqn rel n d key ch = .ok { seq := barSeqCh ch ppqn rel n d, num := n, den := d, key := key } := by
  rw [mkBarCh_eq_map, mkBar_ok_of key h1 h2 h3]
  rfl

/-! ### the accepted sequence, leading event on channel `ch` (as Lemmas/Bar.lean `barSeq_*`) -/

theorem barSeqCh_nonneg (ch ppqn : Int) (rel : List Msg) (n d : Int) : NonNegWaits (barSeqCh ch ppqn rel n d) := by
  intro m hm hw
  unfold barSeqCh at hm
  rcases List.mem_cons.1 hm with e | e
  · subst e; cases hw
  · exact barBody_nonneg ppqn rel n d m (List.mem_filter.1 e).1 hw

theorem barSeqCh_dur (ch ppqn : Int) (rel : List Msg) (n d : Int)
    (h : totalWait (normalise rel) ≤ barCapacity ppqn n d) :
    totalWait (barSeqCh ch ppqn rel n d) = barCapacity ppqn n d := by
  unfold barSeqCh
  rw [totalWait, BarL.totalWait_filter _ notTS_wait, barBody_dur ppqn rel n d h]
  simp [Msg.mkTimeSig]

theorem barSeqCh_events (ch ppqn : Int) (rel : List Msg) (n d : Int) :
    eventsRel (barSeqCh ch ppqn rel n d) =
      Msg.mkTimeSig ch n d 0 :: (eventsRel (normalise rel)).filter (·.ty != .timeSignature) := by
  unfold barSeqCh eventsRel
  have h0 : ∀ X : List Msg, eventsRelGo 0 (Msg.mkTimeSig ch n d pyNone :: X)
      = Msg.mkTimeSig ch n d 0 :: eventsRelGo 0 X := fun _ => rfl
  rw [h0, BarL.eventsRelGo_filter _ notTS_wait notTS_stampInv]
  have := barBody_events ppqn rel n d
  unfold eventsRel at this
  rw [this]

theorem barSeqCh_wf (ch ppqn : Int) (rel : List Msg) (n d : Int) : WF (barSeqCh ch ppqn rel n d) := by
  intro k
  unfold barSeqCh
  have h1 : ¬ ((Msg.mkTimeSig ch n d pyNone).nkey = k ∧ (Msg.mkTimeSig ch n d pyNone).ty = .noteOn) := by
    simp [Msg.mkTimeSig]
  have h2 : ¬ ((Msg.mkTimeSig ch n d pyNone).nkey = k ∧ (Msg.mkTimeSig ch n d pyNone).ty = .noteOff) := by
    simp [Msg.mkTimeSig]
  rw [altFrom, if_neg h1, if_neg h2, BarL.altFrom_filter _ (fun m hm => by rcases hm with e | e <;> simp [e])]
  exact barBody_wf ppqn rel n d k

theorem barSeqCh_tsVals (ch ppqn : Int) (rel : List Msg) (n d : Int) :
    tsVals (barSeqCh ch ppqn rel n d) = [(n, d)] := by
  unfold barSeqCh
  rw [tsVals_cons]
  have : tsVals ((barBody ppqn rel n d).filter (·.ty != .timeSignature)) = [] := by
    unfold tsVals
    rw [List.filter_filter]
    simp
  rw [this]
  simp [Msg.mkTimeSig]

theorem barSeqCh_ksVals (ch ppqn : Int) (rel : List Msg) (n d : Int) :
    ksVals (barSeqCh ch ppqn rel n d) = ksVals (normalise rel) := by
  unfold barSeqCh
  rw [ksVals_cons, if_neg (by simp [Msg.mkTimeSig])]
  unfold ksVals
  rw [List.filter_filter]
  have e : (fun a : Msg => (a.ty == MType.keySignature && a.ty != MType.timeSignature))
      = (fun a : Msg => a.ty == MType.keySignature) := by
    funext a
    cases h : a.ty <;> simp
  rw [e, barBody_filter ppqn rel n d _ (fun m hm => by simp [hm])]

/-! ### a relative view "in bar shape", and the copy of a bar on the channel of its own signature event -/

theorem chanOf_of_ne {c : Int} (h : c ≠ pyNone) : chanOf c = c := by simp [chanOf, h]

/-- `Message.__init__` never leaves a `None` channel -/
theorem chanOf_ne_none (c : Int) : chanOf c ≠ pyNone := by
  unfold chanOf
  split
  · decide
  · assumption

theorem sigChan_cons_ts (c n d t : Int) (body : List Msg) : sigChan (Msg.mkTimeSig c n d t :: body) = c := by
  simp [sigChan, Msg.mkTimeSig]

/-- **the relative view of a bar is in bar shape** for the signature `n/d` (at `ppqn`): it starts with the bar's
    time-signature message (on some channel, all other attributes `None`) and holds no other; waits are non-negative and
    add up to the bar's capacity; per (channel, pitch) note-ons and note-offs alternate, nothing left open (`WF`); no two
    consecutive key signatures are equal and the first is not `None`.  This is what `Bar.__init__` establishes
    (`mkBarCh_shape`) — the fixed points of the constructor's `normalise` / `pad` / signature handling. -/
structure BarShape (ppqn : Int) (r : List Msg) (n d : Int) : Prop where
  sig : (n, d) ≠ (pyNone, pyNone)
  head : ∃ c body, c ≠ pyNone ∧ r = Msg.mkTimeSig c n d pyNone :: body ∧ ∀ m ∈ body, m.ty ≠ .timeSignature
  nonneg : NonNegWaits r
  wf : WF r
  keys : ChainNe pyNone (ksVals r)
  dur : totalWait r = barCapacity ppqn n d

/-- the sequence of every accepted bar is in bar shape -/
theorem barSeqCh_shape (ch ppqn : Int) (rel : List Msg) (n d : Int) (hn : (n, d) ≠ (pyNone, pyNone)) (hc : ch ≠ pyNone)
    (h : totalWait (normalise rel) ≤ barCapacity ppqn n d) : BarShape ppqn (barSeqCh ch ppqn rel n d) n d where
  sig := hn
  head := ⟨ch, _, hc, rfl, fun m hm => by simpa using (List.mem_filter.1 hm).2⟩
  nonneg := barSeqCh_nonneg ch ppqn rel n d
  wf := barSeqCh_wf ch ppqn rel n d
  keys := by
    rw [barSeqCh_ksVals, normalise_ksVals]
    exact chainNe_dedupD _ _
  dur := barSeqCh_dur ch ppqn rel n d h

/-- **what the constructor guarantees**: the relative view of an accepted bar is in bar shape -/
theorem mkBarCh_shape {ppqn : Int} {rel : List Msg} {n d key ch : Int} {b : Bar} (hn : (n, d) ≠ (pyNone, pyNone))
    (hc : ch ≠ pyNone) (h : mkBarCh ppqn rel n d key ch = .ok b) : BarShape ppqn b.seq n d := by
  obtain ⟨h1, _, _, hb⟩ := mkBarCh_ok h
  subst hb
  exact barSeqCh_shape ch ppqn rel n d hn hc h1

theorem eventsRelGo_filter_self (p : Msg → Bool) (hw : ∀ m : Msg, m.ty = .wait → p m = true) (hs : StampInv p)
    (l : List Msg) (h : ∀ m ∈ l, p m = true) (cur : Int) : (eventsRelGo cur l).filter p = eventsRelGo cur l := by
  rw [← BarL.eventsRelGo_filter p hw hs, List.filter_eq_self.2 h]

/-- a relative view in bar shape is accepted again, on the channel of its own signature event, and the new bar's
    sequence has the same timed events and duration -/
theorem shape_rebuild {ppqn : Int} {r : List Msg} {n d : Int} (key : Int) (hs : BarShape ppqn r n d) :
    ∃ c, c ≠ pyNone ∧ sigChan r = c ∧ r.head? = some (Msg.mkTimeSig c n d pyNone) ∧
      mkBarCh ppqn r n d key (chanOf (sigChan r)) = .ok { seq := barSeqCh c ppqn r n d, num := n, den := d, key := key } ∧
      eventsRel (barSeqCh c ppqn r n d) = eventsRel r ∧ totalWait (barSeqCh c ppqn r n d) = totalWait r ∧
      BarShape ppqn (barSeqCh c ppqn r n d) n d := by
  obtain ⟨c, body, hc, hr, hbody⟩ := hs.head
  have hsc : sigChan r = c := by rw [hr]; exact sigChan_cons_ts c n d pyNone body
  have htsb : tsVals body = [] := by
    unfold tsVals
    rw [List.filter_eq_nil_iff.2 (fun m hm => by simpa using hbody m hm)]
    rfl
  have hts : tsVals r = [(n, d)] := by
    rw [hr, tsVals_cons, htsb]
    simp [Msg.mkTimeSig]
  have hchain : ChainNe (pyNone, pyNone) (tsVals r) := by
    rw [hts]; exact ⟨fun e => hs.sig e.symm, trivial⟩
  have hdur : totalWait (normalise r) ≤ barCapacity ppqn n d := by
    rw [normalise_totalWait _ hs.nonneg, hs.dur]; exact Int.le_refl _
  have hvals := barSigs_vals ppqn r n d
  have hdd : dedupD (pyNone, pyNone) [(n, d)] = [(n, d)] := dedupD_of_chainNe _ _ ⟨fun e => hs.sig e.symm, trivial⟩
  rw [hts, hdd] at hvals
  have hev : eventsRel (normalise r) = eventsRel r := normalise_events_id r hs.nonneg hs.wf hchain hs.keys
  refine ⟨c, hc, hsc, by rw [hr]; rfl, ?_, ?_, ?_, barSeqCh_shape c ppqn r n d hs.sig hc hdur⟩
  · rw [hsc, chanOf_of_ne hc]
    refine mkBarCh_ok_of key c hdur ?_ ?_
    · have := congrArg List.length hvals
      rw [List.length_map] at this
      rw [this]; simp
    · intro m hm
      have : (m.num, m.den) ∈ (barSigs ppqn r n d).map (fun m => (m.num, m.den)) := List.mem_map.2 ⟨m, hm, rfl⟩
      rw [hvals] at this
      simpa using this
  · rw [barSeqCh_events, hev, hr]
    have h0 : eventsRel (Msg.mkTimeSig c n d pyNone :: body) = Msg.mkTimeSig c n d 0 :: eventsRelGo 0 body := rfl
    rw [h0, List.filter_cons, if_neg (by simp [Msg.mkTimeSig]),
      eventsRelGo_filter_self _ notTS_wait notTS_stampInv body (fun m hm => by simpa using hbody m hm)]
  · rw [barSeqCh_dur c ppqn r n d hdur, hs.dur]

/-! ### which in-place edits keep a relative view in bar shape -/

theorem totalWait_map (f : Msg → Msg) (hty : ∀ m, (f m).ty = m.ty) (htm : ∀ m, (f m).time = m.time) (l : List Msg) :
    totalWait (l.map f) = totalWait l := by
  induction l with
  | nil => rfl
  | cons m ms ih => simp only [List.map_cons, totalWait, hty, htm, ih]

theorem nonNegWaits_map (f : Msg → Msg) (hty : ∀ m, (f m).ty = m.ty) (htm : ∀ m, (f m).time = m.time) {l : List Msg}
    (h : NonNegWaits l) : NonNegWaits (l.map f) := by
  intro m hm hw
  obtain ⟨m0, hm0, rfl⟩ := List.mem_map.1 hm
  rw [htm]
  exact h m0 hm0 (by rw [← hty]; exact hw)

/-- an edit of the messages in place that keeps every message's type and time and turns the leading signature message into
    the signature message on channel `c'` keeps a view in bar shape — PROVIDED the edited view still pairs its note-ons and
    note-offs per (channel, pitch) and still has no repeated key signature (the two things such an edit can break, by
    mapping two notes to one (channel, pitch) or two keys to one). -/
theorem shape_map {ppqn : Int} {r : List Msg} {n d : Int} (f : Msg → Msg)
    (hty : ∀ m, (f m).ty = m.ty) (htm : ∀ m, (f m).time = m.time)
    (hsig : ∀ c, c ≠ pyNone → ∃ c', c' ≠ pyNone ∧ f (Msg.mkTimeSig c n d pyNone) = Msg.mkTimeSig c' n d pyNone)
    (hs : BarShape ppqn r n d) (hwf : WF (r.map f)) (hks : ChainNe pyNone (ksVals (r.map f))) :
    BarShape ppqn (r.map f) n d where
  sig := hs.sig
  head := by
    obtain ⟨c, body, hc, hr, hbody⟩ := hs.head
    obtain ⟨c', hc', hf⟩ := hsig c hc
    refine ⟨c', body.map f, hc', by rw [hr, List.map_cons, hf], ?_⟩
    intro m hm
    obtain ⟨m0, hm0, rfl⟩ := List.mem_map.1 hm
    rw [hty]; exact hbody m0 hm0
  nonneg := nonNegWaits_map f hty htm hs.nonneg
  wf := hwf
  keys := hks
  dur := by rw [totalWait_map f hty htm, hs.dur]

theorem ksVals_setChannel (c : Int) (l : List Msg) : ksVals (setChannel c l) = ksVals l := by
  induction l with
  | nil => rfl
  | cons m ms ih =>
    have : setChannel c (m :: ms) = { m with ch := c } :: setChannel c ms := rfl
    rw [this, ksVals_cons, ksVals_cons, ih]

/-- **`set_channel(c)` keeps a bar in bar shape** (and moves the signature event to channel `c`) as long as the notes of the
    bar still pair up per (channel, pitch) afterwards — it fails to when two channels hold overlapping notes of one pitch,
    which `set_channel` merges (`C10Ch.merged_channels_copy_differs`). -/
theorem shape_setChannel {ppqn : Int} {r : List Msg} {n d : Int} (c : Int) (hc : c ≠ pyNone) (hs : BarShape ppqn r n d)
    (hwf : WF (setChannel c r)) : BarShape ppqn (setChannel c r) n d :=
  shape_map (fun m => { m with ch := c }) (fun _ => rfl) (fun _ => rfl) (fun _ _ => ⟨c, hc, rfl⟩) hs hwf
    (by have := ksVals_setChannel c r; unfold setChannel at this; rw [this]; exact hs.keys)

/-- **`transpose(by)` without an octave wrap keeps a bar in bar shape** as long as the transposed notes still pair up and the
    transposed key signatures do not repeat (always so for the real `Key.transpose_key`, a bijection on keys; `tk` is a
    parameter here).  With an octave wrap `Sequence.transpose` normalises and re-quantises the sequence (sequence.py:281-283). -/
theorem shape_transposeRel {ppqn : Int} {r : List Msg} {n d : Int} (lo hi : Int) (tk : Int → Int) (by_ : Int)
    (hs : BarShape ppqn r n d) (hwf : WF (transposeRel lo hi tk by_ r).1)
    (hks : ChainNe pyNone (ksVals (transposeRel lo hi tk by_ r).1)) : BarShape ppqn (transposeRel lo hi tk by_ r).1 n d := by
  have hty : ∀ m, (transposeMsg lo hi tk by_ m).1.ty = m.ty := by
    intro m; unfold transposeMsg; split
    · rfl
    · split <;> rfl
  have htm : ∀ m, (transposeMsg lo hi tk by_ m).1.time = m.time := by
    intro m; unfold transposeMsg; split
    · rfl
    · split <;> rfl
  exact shape_map (fun m => (transposeMsg lo hi tk by_ m).1) hty htm (fun c hc => ⟨c, hc, rfl⟩) hs hwf hks

end SCoda.BarChL
