/-
  Helper lemmas for C19b:
  * `lbe`: the last bar end of an emission log as a left fold, and the in-bar clock invariant of `dfold`;
  * `Mono`: a per-token invariant of the detokeniser replay (the clock never goes back), proved for the
    token streams `tokeniseCore` produces;
  * the bar ends of the specification log (`specLog`) are strictly increasing.
-/
import SCoda.Props.C19
import SCoda.Props.C01
import SCoda.Props.C01b
namespace SCoda.InBar
open SCoda SCoda.C01 SCoda.C19

/-! ## the last bar end as a left fold -/

/-- last bar end of `log`, or `L` if there is none -/
def lbe (L : Int) (log : List Emit) : Int :=
  log.foldl (fun acc e => match e with | .barEnd t => t | _ => acc) L

theorem lbe_nil (L : Int) : lbe L [] = L := rfl

theorem lbe_append (L : Int) (a b : List Emit) : lbe L (a ++ b) = lbe (lbe L a) b := by
  simp [lbe, List.foldl_append]

theorem lbe_cons_barEnd (L t : Int) (l : List Emit) : lbe L (Emit.barEnd t :: l) = lbe t l := rfl

theorem lbe_noBar (L : Int) (l : List Emit) (h : ∀ e ∈ l, ∀ u, e ≠ Emit.barEnd u) : lbe L l = L := by
  induction l generalizing L with
  | nil => rfl
  | cons e es ih =>
    have he := h e (by simp)
    have := fun L => ih L (fun e' he' => h e' (by simp [he']))
    cases e with
    | barEnd t => exact absurd rfl (he t)
    | note _ _ _ _ _ => exact this L
    | tsig _ _ _ => exact this L

/-! ## in-bar clock, one part / one token / a stream -/

theorem dpart_inbar (c : Cfg) (d d1 : DetokSt) (p : Part) (L : Int) (h : dpart c d p = .ok d1)
    (hL : d.curTimeBar = d.curTime - L) :
    d1.curTimeBar = d1.curTime - lbe L (emitOfPart c d p) := by
  cases p with
  | pad | sta | sto | trk _ | val _ | vel _ =>
    simp only [dpart] at h; cases h; exact hL
  | bar =>
    simp only [dpart] at h; cases h
    simp only [emitOfPart, lbe, List.foldl]
    omega
  | rest v =>
    simp only [dpart] at h; cases h
    simp only [emitOfPart, lbe, List.foldl]
    omega
  | pit p =>
    simp only [dpart] at h
    split at h
    · cases h
    · cases h
      simp only [emitOfPart, lbe, List.foldl]
      exact hL
  | tsig a b =>
    have hl : lbe L (emitOfPart c d (.tsig a b)) = L := by
      apply lbe_noBar
      intro e he u
      simp only [emitOfPart] at he
      split at he
      · simp at he
      · split at he
        · simp only [List.mem_singleton] at he; subst he; simp
        · simp at he
    rw [hl]
    simp only [dpart] at h
    split at h
    · cases h; exact hL
    · split at h
      · cases h
      · cases h; exact hL

theorem dstepLog_inbar (c : Cfg) (ps : List Part) (d d1 : DetokSt) (log : List Emit) (L : Int)
    (h : dfold.dstepLog c d ps = .ok (d1, log)) (hL : d.curTimeBar = d.curTime - L) :
    d1.curTimeBar = d1.curTime - lbe L log := by
  induction ps generalizing d log L with
  | nil => simp only [dfold.dstepLog] at h; cases h; exact hL
  | cons p ps ih =>
    simp only [dfold.dstepLog] at h
    split at h
    · cases h
    · rename_i d2 h2
      split at h
      · cases h
      · rename_i d3 log3 h3
        cases h
        rw [lbe_append]
        exact ih d2 log3 _ h3 (dpart_inbar c d d2 p L h2 hL)

theorem dfold_inbar (c : Cfg) (toks : List Tok) (d d1 : DetokSt) (log : List Emit) (L : Int)
    (h : dfold c d toks = .ok (d1, log)) (hL : d.curTimeBar = d.curTime - L) :
    d1.curTimeBar = d1.curTime - lbe L log := by
  induction toks generalizing d log L with
  | nil => simp only [dfold] at h; cases h; exact hL
  | cons t ts ih =>
    simp only [dfold] at h
    split at h
    · cases h
    · rename_i d2 log2 h2
      split at h
      · cases h
      · rename_i d3 log3 h3
        cases h
        rw [lbe_append]
        exact ih d2 log3 _ h3 (dstepLog_inbar c t.parts d d2 log2 L h2 hL)

/-! ## the bar ends of a log -/

/-- the bar ends of a log, in order -/
def bes (log : List Emit) : List Int :=
  log.filterMap (fun e => match e with | .barEnd t => some t | _ => Option.none)

theorem bes_append (a b : List Emit) : bes (a ++ b) = bes a ++ bes b := by
  simp [bes, List.filterMap_append]

theorem bes_map_barEnd (xs : List Int) : bes (xs.map Emit.barEnd) = xs := by
  induction xs with
  | nil => rfl
  | cons x xs ih =>
    have : bes (Emit.barEnd x :: xs.map Emit.barEnd) = x :: bes (xs.map Emit.barEnd) := rfl
    rw [List.map_cons, this, ih]

theorem mem_bes (t : Int) (l : List Emit) : t ∈ bes l ↔ Emit.barEnd t ∈ l := by
  induction l with
  | nil => simp [bes]
  | cons e es ih =>
    cases e with
    | barEnd u =>
      have : bes (Emit.barEnd u :: es) = u :: bes es := rfl
      rw [this, List.mem_cons, List.mem_cons, ih]
      simp
    | note a b c d e =>
      have : bes (Emit.note a b c d e :: es) = bes es := rfl
      rw [this, ih]; simp
    | tsig a b c =>
      have : bes (Emit.tsig a b c :: es) = bes es := rfl
      rw [this, ih]; simp

theorem bes_nil_of_noBar (l : List Emit) (h : ∀ t, Emit.barEnd t ∉ l) : bes l = [] := by
  rw [List.eq_nil_iff_forall_not_mem]
  intro t ht
  exact h t ((mem_bes t l).1 ht)

theorem bes_filter (l : List Emit) : bes (l.filter notTsig) = bes l := by
  induction l with
  | nil => rfl
  | cons e es ih =>
    cases e with
    | barEnd u =>
      have h1 : (Emit.barEnd u :: es).filter notTsig = Emit.barEnd u :: es.filter notTsig := rfl
      have h2 : ∀ l, bes (Emit.barEnd u :: l) = u :: bes l := fun _ => rfl
      rw [h1, h2, h2, ih]
    | note a b c d e =>
      have h1 : (Emit.note a b c d e :: es).filter notTsig = Emit.note a b c d e :: es.filter notTsig := rfl
      have h2 : ∀ l, bes (Emit.note a b c d e :: l) = bes l := fun _ => rfl
      rw [h1, h2, h2, ih]
    | tsig a b c =>
      have h1 : (Emit.tsig a b c :: es).filter notTsig = es.filter notTsig := rfl
      have h2 : ∀ l, bes (Emit.tsig a b c :: l) = bes l := fun _ => rfl
      rw [h1, h2, ih]

/-! ## the specification log: bar ends strictly increase -/

theorem adv_pairwise (f : Nat) (rest : Int) (k : Clock) (hs : Sane k) (hf : rest.toNat ≤ f) :
    List.Pairwise (· < ·) (advance f rest k).2 := by
  induction f generalizing rest k with
  | zero => rw [adv_nonpos _ _ _ (by omega)]; exact List.Pairwise.nil
  | succ f ih =>
    by_cases hr : rest ≤ 0
    · rw [adv_nonpos _ _ _ hr]; exact List.Pairwise.nil
    · obtain ⟨h1, h2, h3⟩ := hs
      simp only [advance]
      rw [if_neg hr]
      by_cases hlt : rest < k.capRem
      · rw [if_pos hlt]; exact List.Pairwise.nil
      · rw [if_neg hlt]
        have hs' : Sane { k with cur := k.cur + k.capRem, bar := 0, capRem := k.capTotal } :=
          ⟨h3, Int.le_refl 0, h3⟩
        obtain ⟨_, _, _, a4, _⟩ := adv_inv f (rest - k.capRem) _ hs' (by omega)
        simp only
        rw [List.pairwise_cons]
        exact ⟨fun e he => (a4 e he).1, ih _ _ hs' (by omega)⟩

theorem specEvent_pw (c : Cfg) (start shift : Int) (kl : Clock × List Emit) (ev : Int × Pairing)
    (hI : FoldInv start kl) (hp : List.Pairwise (· < ·) (bes kl.2)) :
    List.Pairwise (· < ·) (bes (specEvent c shift kl ev).2) := by
  obtain ⟨e1, e2⟩ := ev
  cases e2 with
  | nil => simpa [specEvent] using hp
  | cons m restP =>
    rw [specEvent_cons]
    obtain ⟨_, _, _, a4, _⟩ := adv_inv ((m.time + shift - kl.1.cur).toNat + 1) (m.time + shift - kl.1.cur) kl.1
      hI.sane (by omega)
    have hpw := adv_pairwise ((m.time + shift - kl.1.cur).toNat + 1) (m.time + shift - kl.1.cur) kl.1
      hI.sane (by omega)
    generalize advance ((m.time + shift - kl.1.cur).toNat + 1) (m.time + shift - kl.1.cur) kl.1 = r at *
    obtain ⟨_, _, _, t4⟩ := specTail_props c m restP r.1
    simp only [bes_append, bes_map_barEnd, bes_nil_of_noBar _ t4, List.append_nil]
    rw [List.pairwise_append]
    refine ⟨hp, hpw, fun a ha b hb => ?_⟩
    have h1 := (hI.ends a ((mem_bes a _).1 ha)).2
    have h2 := (a4 b hb).1
    omega

theorem fold_pw (c : Cfg) (start shift : Int) (evs : List (Int × Pairing)) (kl : Clock × List Emit)
    (hI : FoldInv start kl) (hp : List.Pairwise (· < ·) (bes kl.2))
    (hcapEv : ∀ ev ∈ evs, ∀ m ∈ ev.2.head?, m.ty = .timeSignature → 0 < c.capacity m.num m.den) :
    FoldInv start (evs.foldl (specEvent c shift) kl)
      ∧ List.Pairwise (· < ·) (bes (evs.foldl (specEvent c shift) kl).2) := by
  induction evs generalizing kl with
  | nil => exact ⟨hI, hp⟩
  | cons ev evs ih =>
    rw [List.foldl_cons]
    exact ih _ (specEvent_inv c start shift kl ev hI (hcapEv ev (by simp))) (specEvent_pw c start shift kl ev hI hp)
      (fun e he => hcapEv e (by simp [he]))

theorem closeBar_pw (start : Int) (kl : Clock × List Emit) (hI : FoldInv start kl)
    (hp : List.Pairwise (· < ·) (bes kl.2)) : List.Pairwise (· < ·) (bes (closeBar kl).2) := by
  obtain ⟨k, L⟩ := kl
  obtain ⟨⟨s1, s2, s3⟩, hm, he, hl⟩ := hI
  simp only at s1 s2 s3 hm he hl hp
  by_cases hf : k.bar > 0
  · rw [closeBar_fire k L hf s1]
    simp only [bes_append]
    rw [List.pairwise_append]
    refine ⟨hp, by simp [bes], fun a ha b hb => ?_⟩
    have h1 := (he a ((mem_bes a _).1 ha)).2
    have : b = k.cur + k.capRem := by simpa [bes] using hb
    omega
  · have : closeBar (k, L) = (k, L) := by unfold closeBar; simp only; rw [if_neg (by omega)]
    rw [this]; exact hp

theorem specLog_pw (c : Cfg) (st : TokSt) (evs : List (Int × Pairing))
    (hrem : 0 < st.capRem) (hbar : 0 ≤ st.curTimeBar) (hcap : 0 < c.capacity st.tsNum st.tsDen)
    (hcapEv : ∀ ev ∈ evs, ∀ m ∈ ev.2.head?, m.ty = .timeSignature → 0 < c.capacity m.num m.den) :
    List.Pairwise (· < ·) (bes (specLog c st evs).2) := by
  rw [specLog_eq]
  have h0 : FoldInv st.curTime (clockOf st (c.capacity st.tsNum st.tsDen), ([] : List Emit)) :=
    ⟨⟨hrem, hbar, hcap⟩, Int.le_refl _, by simp, fun _ => Or.inl rfl⟩
  obtain ⟨h1, h2⟩ := fold_pw c st.curTime st.curTime evs _ h0 List.Pairwise.nil hcapEv
  exact closeBar_pw st.curTime _ h1 h2

/-! ## per-token monotonicity of the detokeniser clock -/

/-- running the tokens one at a time from `d`, no token moves the clock backwards -/
def Mono (c : Cfg) : DetokSt → List Tok → Prop
  | _, [] => True
  | d, t :: ts => ∀ d1 log1, dfold.dstepLog c d t.parts = .ok (d1, log1) → d.curTime ≤ d1.curTime ∧ Mono c d1 ts

theorem Mono_append {c : Cfg} {a b : List Tok} {d : DetokSt} (ha : Mono c d a)
    (hb : ∀ d1 log, dfold c d a = .ok (d1, log) → Mono c d1 b) : Mono c d (a ++ b) := by
  induction a generalizing d with
  | nil => exact hb d [] rfl
  | cons t ts ih =>
    intro d1 log1 h1
    obtain ⟨hle, hm⟩ := ha d1 log1 h1
    exact ⟨hle, ih hm (fun d2 log2 h2 => hb d2 (log1 ++ log2) (dfold_cons_ok h1 h2))⟩

def partStill : Part → Prop
  | .bar => False
  | .rest _ => False
  | _ => True

def tokStill : Tok → Prop
  | .bar => False
  | .rest _ => False
  | _ => True

theorem dpart_still (c : Cfg) (d d1 : DetokSt) (p : Part) (hp : partStill p) (h : dpart c d p = .ok d1) :
    d1.curTime = d.curTime := by
  cases p with
  | bar => exact absurd hp id
  | rest v => exact absurd hp id
  | pad | sta | sto | trk _ | val _ | vel _ => simp only [dpart] at h; cases h; rfl
  | pit p =>
    simp only [dpart] at h
    split at h
    · cases h
    · cases h; rfl
  | tsig a b =>
    simp only [dpart] at h
    split at h
    · cases h; rfl
    · split at h
      · cases h
      · cases h; rfl

theorem dstepLog_still (c : Cfg) (ps : List Part) (d d1 : DetokSt) (log : List Emit)
    (hp : ∀ p ∈ ps, partStill p) (h : dfold.dstepLog c d ps = .ok (d1, log)) : d1.curTime = d.curTime := by
  induction ps generalizing d log with
  | nil => simp only [dfold.dstepLog] at h; cases h; rfl
  | cons p ps ih =>
    simp only [dfold.dstepLog] at h
    split at h
    · cases h
    · rename_i d2 h2
      split at h
      · cases h
      · rename_i d3 log3 h3
        cases h
        rw [ih d2 log3 (fun q hq => hp q (by simp [hq])) h3, dpart_still c d d2 p (hp p (by simp)) h2]

theorem parts_still (t : Tok) (ht : tokStill t) : ∀ p ∈ t.parts, partStill p := by
  cases t with
  | bar => exact absurd ht id
  | rest v => exact absurd ht id
  | note tr p v w =>
    cases tr <;> cases v <;> cases w <;> simp [Tok.parts, partStill]
  | pad | sta | sto | trk _ | val _ | vel _ | tsig _ _ =>
    intro q hq
    simp [Tok.parts] at hq
    subst hq; trivial

theorem Mono_still (c : Cfg) (ts : List Tok) (d : DetokSt) (h : ∀ t ∈ ts, tokStill t) : Mono c d ts := by
  induction ts generalizing d with
  | nil => trivial
  | cons t ts ih =>
    intro d1 log1 h1
    have := dstepLog_still c t.parts d d1 log1 (parts_still t (h t (by simp))) h1
    exact ⟨by omega, ih d1 (fun t' ht' => h t' (by simp [ht']))⟩

/-- the tokens of one `applyRest` call: every `rest v` has `v > 0`, and a `bar` token comes exactly when
    the bar is full (`capRem = 0`) -/
theorem rest_mono (c : Cfg) (hc : CfgOk c) (capTotal : Int) (fuel : Nat) (rest cur bar rem : Int)
    (acc : List Tok) (res : (Int × Int × Int) × List Tok)
    (h : applyRest c capTotal fuel rest (cur, bar, rem) acc = .ok res) :
    ∃ new, res.2 = new.reverse ++ acc ∧ ∀ d : DetokSt, d.capRem = rem → d.capTotal = capTotal → Mono c d new := by
  induction fuel generalizing rest cur bar rem acc with
  | zero =>
    by_cases hr : rest ≤ 0
    · rw [Sim.applyRest_nonpos _ _ _ _ _ _ hr] at h
      cases h
      exact ⟨[], rfl, fun _ _ _ => trivial⟩
    · simp only [applyRest] at h
      rw [if_pos (by omega)] at h; cases h
  | succ fuel ih =>
    by_cases hr : rest ≤ 0
    · rw [Sim.applyRest_nonpos _ _ _ _ _ _ hr] at h
      cases h
      exact ⟨[], rfl, fun _ _ _ => trivial⟩
    · obtain ⟨v, hvs, hv0, hvr, hvc, h4⟩ := Sim.applyRest_step c hc.steps_pos _ _ _ _ _ _ _ _ (by omega) h
      by_cases hz : rem - v = 0
      · rw [if_pos hz] at h4
        obtain ⟨new', e1, e2⟩ := ih _ _ _ _ _ h4
        refine ⟨Tok.rest v :: Tok.bar :: new', by simp [e1], ?_⟩
        intro d hd hT d1 log1 h1
        rw [dstepLog_rest] at h1
        cases h1
        refine ⟨by simp only; omega, ?_⟩
        intro d2 log2 h2
        rw [dstepLog_bar] at h2
        cases h2
        exact ⟨by simp only; omega, e2 _ hT hT⟩
      · rw [if_neg hz] at h4
        obtain ⟨new', e1, e2⟩ := ih _ _ _ _ _ h4
        refine ⟨Tok.rest v :: new', by simp [e1], ?_⟩
        intro d hd hT d1 log1 h1
        rw [dstepLog_rest] at h1
        cases h1
        exact ⟨by simp only; omega, e2 _ (by simp only; omega) hT⟩

/-- `X` extends the reversed accumulator `toks0` by tokens that do not move the clock -/
def Ext (toks0 X : List Tok) : Prop := ∃ new : List Tok, X = new.reverse ++ toks0 ∧ ∀ t ∈ new, tokStill t

theorem Ext_refl (toks0 : List Tok) : Ext toks0 toks0 := ⟨[], rfl, by simp⟩

theorem Ext_cons {toks0 X : List Tok} (t : Tok) (ht : tokStill t) (h : Ext toks0 X) : Ext toks0 (t :: X) := by
  obtain ⟨new, e1, e2⟩ := h
  refine ⟨new ++ [t], by simp [e1], ?_⟩
  intro t' ht'
  simp only [List.mem_append, List.mem_singleton] at ht'
  rcases ht' with ht' | rfl
  · exact e2 t' ht'
  · exact ht

theorem Ext_opt {toks0 X : List Tok} (p : Prop) [Decidable p] (t : Tok) (ht : tokStill t) (h : Ext toks0 X) :
    Ext toks0 ((if p then [t] else []).reverse ++ X) := by
  by_cases hp : p
  · rw [if_pos hp]; exact Ext_cons t ht h
  · rw [if_neg hp]; exact h

theorem tail_still (c : Cfg) (l l' : TkLoop) (m : Msg) (restP : List Msg) (a b r : Int) (toks0 : List Tok)
    (h : Tokenise.tail c l m restP a b r toks0 = .ok l') : Ext toks0 l'.toks := by
  unfold Tokenise.tail at h
  simp only at h
  split at h
  · split at h
    · cases h
    · split at h
      · cases h
      · split at h
        · cases h
        · split at h
          · cases h
          · cases h
            simp only [List.append_assoc]
            exact Ext_cons _ trivial (Ext_opt _ _ trivial (Ext_opt _ _ trivial (Ext_opt _ _ trivial (Ext_refl _))))
  · split at h
    · cases h; exact Ext_refl _
    · split at h
      · cases h
      · split at h
        · cases h
        · cases h; exact Ext_cons _ trivial (Ext_refl _)
  · cases h; exact Ext_refl _

theorem rev_cancel {new new' acc : List Tok} (h : new.reverse ++ acc = new'.reverse ++ acc) : new = new' :=
  List.reverse_inj.1 (List.append_cancel_right h)

/-- the tokens of one event -/
theorem event_mono (c : Cfg) (hc : CfgOk c) (shift : Int) (l l' : TkLoop) (ev : Int × Pairing)
    (h : tokEvent c shift l ev = .ok l') (new : List Tok) (hnew : l'.toks = new.reverse ++ l.toks)
    (d : DetokSt) (hr : d.capRem = l.st.capRem) (hT : d.capTotal = l.capTotal) : Mono c d new := by
  obtain ⟨e1, e2⟩ := ev
  cases e2 with
  | nil => rw [Tokenise.tokEvent_eq] at h; cases h
  | cons m restP =>
    obtain ⟨v, hv, ht⟩ := tokEvent_inv c shift l l' e1 m restP h
    obtain ⟨new1, s1, s2⟩ := rest_mono c hc _ _ _ _ _ _ _ _ hv
    obtain ⟨new2, t1, t2⟩ := tail_still c l l' m restP _ _ _ _ ht
    have : new = new1 ++ new2 := by
      apply rev_cancel (acc := l.toks)
      rw [← hnew, t1, s1]; simp
    subst this
    exact Mono_append (s2 d hr hT) (fun d1 _ _ => Mono_still c new2 d1 t2)

theorem fold_mono (c : Cfg) (hc : CfgOk c) (shift : Int) (evs : List (Int × Pairing)) (l l' : TkLoop) (hI : Inv c l)
    (hch : ∀ ev ∈ evs, ∀ m ∈ ev.2.head?, 0 ≤ m.ch ∧ m.ch < (c.numTracks : Int))
    (hord : List.Pairwise (fun a b => ∀ x ∈ a.2.head?, ∀ y ∈ b.2.head?, x.time ≤ y.time) evs)
    (htime : ∀ ev ∈ evs, ∀ m ∈ ev.2.head?, l.st.curTime ≤ m.time + shift)
    (hden : ∀ ev ∈ evs, ∀ m ∈ ev.2.head?, m.ty = .timeSignature → 0 < m.den ∧ 0 < m.num)
    (h : tokeniseCore.foldlM'' (tokEvent c shift) l evs = .ok l')
    (new : List Tok) (hnew : l'.toks = new.reverse ++ l.toks) (d : DetokSt) (hd : RelD c l.st d) :
    Mono c d new := by
  induction evs generalizing l new d with
  | nil =>
    simp only [tokeniseCore.foldlM''] at h; cases h
    have : new = [] := rev_cancel (acc := l'.toks) (by simpa using hnew.symm)
    subst this; trivial
  | cons ev evs ih =>
    simp only [tokeniseCore.foldlM''] at h
    split at h
    · rename_i l1 h1
      obtain ⟨new1, E1, a1, a2, a3, a4, a5, a6⟩ := event_sim c hc shift l l1 ev hI (hch ev (by simp))
        (htime ev (by simp)) (hden ev (by simp)) h1
      have hne : ∃ m restP, ev.2 = m :: restP := by
        rcases hev2 : ev.2 with _ | ⟨m, restP⟩
        · rw [Tokenise.tokEvent_eq, hev2] at h1; cases h1
        · exact ⟨m, restP, rfl⟩
      obtain ⟨m, restP, hev2⟩ := hne
      have hcur : l1.st.curTime = m.time + shift := a3 m (by simp [hev2])
      rw [List.pairwise_cons] at hord
      have hch' : ∀ e ∈ evs, ∀ m ∈ e.2.head?, 0 ≤ m.ch ∧ m.ch < (c.numTracks : Int) :=
        fun e he => hch e (by simp [he])
      have htime' : ∀ e ∈ evs, ∀ m' ∈ e.2.head?, l1.st.curTime ≤ m'.time + shift := fun e he m' hm' => by
        have := hord.1 e he m (by simp [hev2]) m' hm'
        omega
      have hden' : ∀ e ∈ evs, ∀ m ∈ e.2.head?, m.ty = .timeSignature → 0 < m.den ∧ 0 < m.num :=
        fun e he => hden e (by simp [he])
      obtain ⟨new2, E2, b1, _⟩ := fold_sim c hc shift evs l1 l' a2 hch' hord.2 htime' hden' h
      have : new = new1 ++ new2 := by
        apply rev_cancel (acc := l.toks)
        rw [← hnew, b1, a1]; simp
      subst this
      refine Mono_append (event_mono c hc shift l l1 ev h1 new1 a1 d hd.rem (hd.tot.trans hI.cap.symm)) ?_
      intro d1 log hdf
      obtain ⟨d', log', f1, f2, _⟩ := a6 d hd
      rw [f1] at hdf
      cases hdf
      exact ih l1 a2 hch' hord.2 htime' hden' h new2 b1 d1 f2
    · cases h

/-- the whole call -/
theorem core_mono (c : Cfg) (hc : CfgOk c) (st st' : TokSt) (evs : List (Int × Pairing)) (toks : List Tok)
    (hb : 0 ≤ st.curTimeBar)
    (hw : 0 < st.capRem ∨ (st.curTimeBar = 0 ∧ st.capRem = c.capacity st.tsNum st.tsDen))
    (hev : EvsOk c st.curTime st.curTime evs) (hok : tokeniseCore c st evs = .ok (toks, st'))
    (d : DetokSt) (hd : RelD c st d) : Mono c d toks := by
  unfold tokeniseCore at hok
  simp only [bind, Except.bind] at hok
  split at hok
  · cases hok
  · rename_i l hl
    have hI0 : Inv c { st := st, capTotal := c.capacity st.tsNum st.tsDen } := ⟨rfl, hb, hw⟩
    obtain ⟨new, E, a1, a2, a3, a4, a5⟩ := fold_sim c hc st.curTime evs
      { st := st, capTotal := c.capacity st.tsNum st.tsDen } l hI0 hev.chans hev.ordered hev.notBefore
      hev.denPos hl
    have hm := fold_mono c hc st.curTime evs { st := st, capTotal := c.capacity st.tsNum st.tsDen } l hI0
      hev.chans hev.ordered hev.notBefore hev.denPos hl new a1 d hd
    simp only [List.append_nil] at a1
    split at hok
    · split at hok
      · cases hok
      · rename_i v hv
        simp only [Except.ok.injEq, Prod.mk.injEq] at hok
        obtain ⟨hok1, -⟩ := hok
        obtain ⟨new2, s1, s2⟩ := rest_mono c hc _ _ _ _ _ _ _ _ hv
        have : toks = new ++ new2 := by
          rw [← hok1, s1, a1]; simp
        subst this
        refine Mono_append hm ?_
        intro d1 log hdf
        obtain ⟨d', log', f1, f2, _⟩ := a5 d hd
        rw [f1] at hdf
        cases hdf
        exact s2 d1 f2.rem (f2.tot.trans a2.cap.symm)
    · simp only [Except.ok.injEq, Prod.mk.injEq] at hok
      obtain ⟨hok1, -⟩ := hok
      have : toks = new := by rw [← hok1, a1]; simp
      subst this
      exact hm

/-! ## from per-token monotonicity to the annotation rows -/

/-- the clock `get_info` writes before each token -/
def times (c : Cfg) (cof : Int → Int) (imp : Bool) : InfoSt → List Tok → List Int
  | _, [] => []
  | s, t :: ts => s.curTime :: times c cof imp (infoStep c cof imp s t) ts

theorem out_times (c : Cfg) (cof : Int → Int) (imp : Bool) (toks : List Tok) (s : InfoSt) :
    ((toks.foldl (infoStep c cof imp) s).out.reverse).map (·.2.1)
      = (s.out.reverse).map (·.2.1) ++ times c cof imp s toks := by
  induction toks generalizing s with
  | nil => simp [times]
  | cons t ts ih =>
    obtain ⟨p, q, hq⟩ := infoStep_out c cof imp s t
    rw [List.foldl_cons, ih, hq]
    simp [times]

theorem times_pairwise (c : Cfg) (cof : Int → Int) (imp : Bool) (toks : List Tok) (s : InfoSt) (d d' : DetokSt)
    (log : List Emit) (hc : Clk s d) (hm : Mono c d toks) (h : dfold c d toks = .ok (d', log)) :
    List.Pairwise (· ≤ ·) (times c cof imp s toks) ∧ ∀ x ∈ times c cof imp s toks, s.curTime ≤ x := by
  induction toks generalizing s d log with
  | nil => simp [times]
  | cons t ts ih =>
    simp only [dfold] at h
    split at h
    · cases h
    · rename_i d1 log1 h1
      split at h
      · cases h
      · rename_i d2 log2 h2
        cases h
        obtain ⟨hle, hm1⟩ := hm d1 log1 h1
        have hstep : dstep c d t = .ok d1 := (dstepLog_fold c t.parts d d1 log1 h1).1
        have hc1 := step_clk cof imp hc hstep
        obtain ⟨i1, i2⟩ := ih _ d1 log2 hc1 hm1 h2
        have hs : s.curTime ≤ (infoStep c cof imp s t).curTime := by rw [hc.1, hc1.1]; exact hle
        simp only [times, List.pairwise_cons, List.mem_cons]
        refine ⟨⟨fun x hx => ?_, i1⟩, fun x hx => ?_⟩
        · have := i2 x hx; omega
        · rcases hx with rfl | hx
          · exact Int.le_refl _
          · have := i2 x hx; omega

end SCoda.InBar
