/-
  Helper lemmas for Props/C03e, part 2: a *run of bars* (per track a list of bar sequences, each headed by its
  signature and exactly one bar long) concatenated per track, as `Bar.to_sequence` does, and handed to `extract`.
  * notes of an appended timed event list (`pairsGo_append`, `opensAfter_wf`, `pairsGo_shift`);
  * `SegOk` / `RunOk`: the input-level shape of a run; the concatenated tracks are good tracks (`run_good`), all
    of the run's length (`run_dur`), their signature events sit on the bar lines of the grid (`run_sigAt`,
    `run_line`, `run_strict`).
-/
import SCoda.Lemmas.GlueL
import SCoda.Lemmas.ExtractL
namespace SCoda.GlueL
open SCoda SCoda.C01 SCoda.ChunksL SCoda.ExtractL SCoda.E2E SCoda.MergeL SCoda.NotesL

/-! ## notes of appended and shifted timed event lists -/

def shM (a : Int) (m : Msg) : Msg := { m with time := m.time + a }
def shP (a : Int) (p : Msg × Msg) : Msg × Msg := (shM a p.1, shM a p.2)

/-- the note-ons still waiting for their note-off after the events `l` (the `opens` of `pairsGo` / `notesGo`) -/
def opensAfter : List Msg → List Msg → List Msg
  | [], os => os
  | m :: ms, os =>
    if m.ty == .noteOn then opensAfter ms (m :: os.filter (fun o => o.nkey != m.nkey))
    else if m.ty == .noteOff then
      match os.find? (fun o => o.nkey == m.nkey) with
      | some _ => opensAfter ms (os.filter (fun x => x.nkey != m.nkey))
      | Option.none => opensAfter ms os
    else opensAfter ms os

theorem pairsGo_append (x y : List Msg) : ∀ os, pairsGo (x ++ y) os = pairsGo x os ++ pairsGo y (opensAfter x os) := by
  induction x with
  | nil => intro os; rfl
  | cons m ms ih =>
    intro os
    simp only [List.cons_append, pairsGo, opensAfter]
    split
    · exact ih _
    · split
      · cases hf : List.find? (fun o => o.nkey == m.nkey) os with
        | none => exact ih _
        | some o => simp only [List.cons_append, ih]
      · exact ih _

theorem any_filter_ne (os : List Msg) (k k' : Int × Int) (h : k ≠ k') :
    (os.filter (fun o => o.nkey != k')).any (fun o => o.nkey == k) = os.any (fun o => o.nkey == k) := by
  induction os with
  | nil => rfl
  | cons o os ih =>
    by_cases h1 : o.nkey = k'
    · have h2 : ¬ o.nkey = k := fun e => h (e.symm.trans h1)
      have h3 : ¬ k' = k := fun e => h e.symm
      simp [List.filter_cons, h1, h2, h3, ih]
    · simp [List.filter_cons, h1, ih]

theorem any_filter_self (os : List Msg) (k : Int × Int) :
    (os.filter (fun o => o.nkey != k)).any (fun o => o.nkey == k) = false := by
  induction os with
  | nil => rfl
  | cons o os ih =>
    by_cases h1 : o.nkey = k
    · simp [List.filter_cons, h1, ih]
    · simp [List.filter_cons, h1, ih]

theorem find_none_iff_any (os : List Msg) (k : Int × Int) :
    os.find? (fun o => o.nkey == k) = Option.none ↔ os.any (fun o => o.nkey == k) = false := by
  simp [List.find?_eq_none]

/-- after a well-formed list no note is waiting -/
theorem opensAfter_wf (x : List Msg) : ∀ os, (∀ k, altFrom k (os.any (fun o => o.nkey == k)) x) → opensAfter x os = [] := by
  induction x with
  | nil =>
    intro os h
    cases os with
    | nil => rfl
    | cons o os =>
      have := h o.nkey
      simp [altFrom] at this
  | cons m ms ih =>
    intro os h
    by_cases hon : m.ty = .noteOn
    · simp only [opensAfter, hon, beq_self_eq_true, if_true]
      apply ih
      intro k
      have hk := altFrom_on (h k) hon
      by_cases e : m.nkey = k
      · rw [if_pos e] at hk
        have : (m :: os.filter (fun o => o.nkey != m.nkey)).any (fun o => o.nkey == k) = true := by simp [e]
        rw [this]; exact hk.2
      · rw [if_neg e] at hk
        have : (m :: os.filter (fun o => o.nkey != m.nkey)).any (fun o => o.nkey == k)
            = os.any (fun o => o.nkey == k) := by
          rw [List.any_cons, any_filter_ne os k m.nkey (fun h => e h.symm)]
          simp [e]
        rw [this]; exact hk
    · by_cases hoff : m.ty = .noteOff
      · have hne : ¬ (m.ty == MType.noteOn) = true := by simp [hoff]
        simp only [opensAfter, hne, hoff, beq_self_eq_true, if_true, if_false]
        have hk0 := altFrom_off (h m.nkey) hoff
        rw [if_pos rfl] at hk0
        cases hf : List.find? (fun o => o.nkey == m.nkey) os with
        | none =>
          have := (find_none_iff_any os m.nkey).1 hf
          rw [this] at hk0
          exact absurd hk0.1 (by simp)
        | some o =>
          simp only
          apply ih
          intro k
          by_cases e : m.nkey = k
          · rw [← e, any_filter_self]; exact hk0.2
          · have hk := altFrom_off (h k) hoff
            rw [if_neg e] at hk
            rw [any_filter_ne os k m.nkey (fun h => e h.symm)]; exact hk
      · have h1 : ¬ (m.ty == MType.noteOn) = true := by simpa using hon
        have h2 : ¬ (m.ty == MType.noteOff) = true := by simpa using hoff
        simp only [opensAfter, h1, h2, if_false]
        apply ih
        intro k
        exact altFrom_other (h k) hon hoff

theorem pairsGo_append_wf (x y : List Msg) (hx : WF x) : pairsGo (x ++ y) [] = pairsGo x [] ++ pairsGo y [] := by
  rw [pairsGo_append, opensAfter_wf x [] (fun k => by simpa using hx k)]

theorem pairsGo_shift (a : Int) (l : List Msg) : ∀ os,
    pairsGo (l.map (shM a)) (os.map (shM a)) = (pairsGo l os).map (shP a) := by
  induction l with
  | nil => intro os; rfl
  | cons m ms ih =>
    intro os
    have hf : ∀ (k : Int × Int) (os : List Msg), (os.map (shM a)).filter (fun o => o.nkey != k)
        = (os.filter (fun o => o.nkey != k)).map (shM a) := by
      intro k os
      rw [List.filter_map]; rfl
    simp only [List.map_cons, pairsGo]
    have e1 : (shM a m).ty = m.ty := rfl
    have e2 : (shM a m).nkey = m.nkey := rfl
    rw [e1, e2]
    split
    · rw [hf, ← List.map_cons, ih]
    · split
      · have : List.find? (fun o => o.nkey == m.nkey) (os.map (shM a))
            = (List.find? (fun o => o.nkey == m.nkey) os).map (shM a) := by
          rw [List.find?_map]; rfl
        rw [this]
        cases hfd : List.find? (fun o => o.nkey == m.nkey) os with
        | none => simp only [Option.map_none]; exact ih _
        | some o =>
          simp only [Option.map_some, List.map_cons]
          rw [hf, ih]
          rfl
      · exact ih _

theorem altFrom_append (k : Int × Int) (x y : List Msg) (hy : altFrom k false y) : ∀ b, altFrom k b x → altFrom k b (x ++ y) := by
  induction x with
  | nil =>
    intro b h
    simp only [altFrom] at h
    subst h
    simpa using hy
  | cons m ms ih =>
    intro b h
    simp only [List.cons_append, altFrom] at h ⊢
    split
    · rename_i h1; rw [if_pos h1] at h; exact ⟨h.1, ih _ h.2⟩
    · rename_i h1
      rw [if_neg h1] at h
      split
      · rename_i h2; rw [if_pos h2] at h; exact ⟨h.1, ih _ h.2⟩
      · rename_i h2; rw [if_neg h2] at h; exact ih _ h

theorem altFrom_shift (k : Int × Int) (a : Int) (l : List Msg) : ∀ b, altFrom k b (l.map (shM a)) ↔ altFrom k b l := by
  induction l with
  | nil => intro b; rfl
  | cons m ms ih =>
    intro b
    simp only [List.map_cons, altFrom]
    have e1 : (shM a m).ty = m.ty := rfl
    have e2 : (shM a m).nkey = m.nkey := rfl
    rw [e1, e2, ih, ih, ih]

theorem wf_append_shift (a : Int) (x y : List Msg) (hx : WF x) (hy : WF y) : WF (x ++ y.map (shM a)) :=
  fun k => altFrom_append k x _ ((altFrom_shift k a y false).2 (hy k)) false (hx k)

/-! ## timed events of an appended relative list -/

theorem eventsRelGo_shM (l : List Msg) : ∀ (a c : Int), eventsRelGo (a + c) l = (eventsRelGo a l).map (shM c) := by
  induction l with
  | nil => intro a c; rfl
  | cons m ms ih =>
    intro a c
    by_cases hw : m.ty = .wait
    · simp only [eventsRelGo, hw, beq_self_eq_true, if_true]
      rw [show a + c + m.time = a + m.time + c by omega, ih]
    · simp only [eventsRelGo, hw, beq_iff_eq, if_false, List.map_cons]
      rw [ih]
      rfl

theorem trackEvents_append (i : Nat) (x y : List Msg) :
    trackEvents i (x ++ y) = trackEvents i x ++ (trackEvents i y).map (shM (totalWait x)) := by
  simp only [trackEvents, eventsRel]
  rw [SCoda.eventsRelGo_append, eventsRelGo_shM, List.map_append, List.map_map, List.map_map]
  rfl

/-- the notes of a track with both messages kept -/
def trackPairs (i : Nat) (r : List Msg) : List (Msg × Msg) := pairsGo (trackEvents i r) []

theorem trackNotes_eq (i : Nat) (r : List Msg) : trackNotes i r = (trackPairs i r).map mkNote := by
  simp only [trackNotes, notesOf, trackPairs, notesGo_eq]

theorem trackPairs_append (i : Nat) (x y : List Msg) (hx : WF (trackEvents i x)) :
    trackPairs i (x ++ y) = trackPairs i x ++ (trackPairs i y).map (shP (totalWait x)) := by
  simp only [trackPairs]
  rw [trackEvents_append, pairsGo_append_wf _ _ hx]
  congr 1
  exact pairsGo_shift _ _ []

theorem okRel_append {x y : List Msg} (hx : OkRel x) (hy : OkRel y) : OkRel (x ++ y) := by
  constructor
  · intro m hm
    rcases List.mem_append.1 hm with h | h
    · exact hx.1 m h
    · exact hy.1 m h
  · intro m hm
    rcases List.mem_append.1 hm with h | h
    · exact hx.2 m h
    · exact hy.2 m h

theorem trackGood_append (i : Nat) (x y : List Msg) (hx : TrackGood i x) (hy : TrackGood i y) : TrackGood i (x ++ y) := by
  refine ⟨okRel_append hx.1 hy.1, ?_, ?_⟩
  · rw [trackEvents_append]
    exact wf_append_shift _ _ _ hx.2.1 hy.2.1
  · intro n hn
    rw [trackNotes_eq, trackPairs_append i x y hx.2.1, List.map_append, List.mem_append] at hn
    rcases hn with hn | hn
    · rw [← trackNotes_eq] at hn
      exact hx.2.2 n hn
    · rw [List.map_map, List.mem_map] at hn
      obtain ⟨p, hp, rfl⟩ := hn
      have := hy.2.2 (mkNote p) (by rw [trackNotes_eq]; exact List.mem_map_of_mem hp)
      simp only [Function.comp, mkNote, shP, shM] at this ⊢
      omega

theorem trackGood_nil (i : Nat) : TrackGood i [] := by
  refine ⟨⟨by intro m hm; simp at hm, by intro m hm; simp at hm⟩, ?_, ?_⟩
  · intro k; simp [trackEvents, eventsRel, eventsRelGo, altFrom]
  · intro n hn; simp [trackNotes, trackEvents, eventsRel, eventsRelGo, notesOf, notesGo] at hn

/-! ## a run of bars -/

/-- a bar sequence of track `i` as `mkBar` builds it for the signature `g`: headed by the signature message, no other
    signature, a good track on its own, and exactly one bar long -/
structure SegOk (c : Cfg) (i : Nat) (g : Int × Int) (s : List Msg) : Prop where
  head : ∃ tl, s = Msg.mkTimeSig 0 g.1 g.2 pyNone :: tl ∧ ∀ m ∈ tl, m.ty ≠ .timeSignature
  good : TrackGood i s
  dur : totalWait s = c.capacity g.1 g.2

/-- the bar sequences of one track along the signatures `sigs` -/
inductive Run (c : Cfg) (i : Nat) : List (Int × Int) → List (List Msg) → Prop
  | nil : Run c i [] []
  | cons {g : Int × Int} {s : List Msg} {sigs : List (Int × Int)} {t : List (List Msg)} :
      SegOk c i g s → Run c i sigs t → Run c i (g :: sigs) (s :: t)

/-- a run of bars: one list of bar sequences per configured track (at least one), along the signatures `sigs`
    (at least one bar), all of positive length -/
structure RunOk (c : Cfg) (sigs : List (Int × Int)) (segs : List (List (List Msg))) : Prop where
  ntr : segs.length = c.numTracks
  tr : 0 < segs.length
  bars : sigs ≠ []
  pos : ∀ g ∈ sigs, 0 < g.1 ∧ 0 < g.2 ∧ 0 < c.capacity g.1 g.2
  segs : ∀ i t, segs[i]? = some t → Run c i sigs t

theorem run_good (c : Cfg) (i : Nat) (sigs : List (Int × Int)) (t : List (List Msg))
    (h : Run c i sigs t) : TrackGood i t.flatten := by
  induction h with
  | nil => exact trackGood_nil i
  | cons h1 _ ih =>
    rw [List.flatten_cons]
    exact trackGood_append i _ _ h1.good ih

theorem run_dur (c : Cfg) (i : Nat) (sigs : List (Int × Int)) (t : List (List Msg))
    (h : Run c i sigs t) : totalWait t.flatten = total c sigs := by
  induction h with
  | nil => rfl
  | cons h1 _ ih =>
    rw [List.flatten_cons, totalWait_append, h1.dur, ih]
    rfl

theorem seg_ts_events (c : Cfg) (i : Nat) (g : Int × Int) (s : List Msg) (h : SegOk c i g s) (A : Int) :
    (eventsRelGo A s).filter isTs = [{ Msg.mkTimeSig 0 g.1 g.2 pyNone with time := A }] := by
  obtain ⟨tl, rfl, htl⟩ := h.head
  have : (eventsRelGo A tl).filter isTs = [] := by
    rw [List.filter_eq_nil_iff]
    intro e he
    obtain ⟨_, m, hm, hty⟩ := eventsRelGo_ty tl A e he
    simp only [isTs, beq_iff_eq]
    rw [hty]
    exact htl m hm
  simp only [eventsRelGo, Msg.mkTimeSig]
  simp [isTs, this]

/-- the signature events of a run's track: one per bar, on its line, with its signature -/
theorem run_ts_events (c : Cfg) (i : Nat) (sigs : List (Int × Int)) (t : List (List Msg))
    (h : Run c i sigs t) : ∀ A, ∀ e ∈ (eventsRelGo A t.flatten).filter isTs, SigAt c A sigs e := by
  induction h with
  | nil => intro A e he; simp [eventsRelGo] at he
  | cons h1 _ ih =>
    intro A e he
    rw [List.flatten_cons, SCoda.eventsRelGo_append, List.filter_append, List.mem_append] at he
    rcases he with he | he
    · rw [seg_ts_events c i _ _ h1 A, List.mem_singleton] at he
      subst he
      exact Or.inl ⟨rfl, rfl, rfl⟩
    · right
      rw [h1.dur] at he
      exact ih _ e he

/-- property `P` holds on every bar line of the grid `sigs` laid from `A` -/
def Lines (c : Cfg) (P : Int → Prop) : Int → List (Int × Int) → Prop
  | _, [] => True
  | A, s :: rest => P A ∧ Lines c P (A + c.capacity s.1 s.2) rest

theorem lines_mono (c : Cfg) (P P' : Int → Prop) : ∀ (sigs : List (Int × Int)) (A : Int),
    (∀ s ∈ sigs, 0 < s.1 ∧ 0 < s.2 ∧ 0 < c.capacity s.1 s.2) → (∀ t, A ≤ t → P t → P' t) →
    Lines c P A sigs → Lines c P' A sigs := by
  intro sigs
  induction sigs with
  | nil => intro _ _ _ _; trivial
  | cons s rest ih =>
    intro A hp hsub h
    have hc := (hp s List.mem_cons_self).2.2
    exact ⟨hsub A (Int.le_refl _) h.1,
      ih _ (fun x hx => hp x (List.mem_cons_of_mem _ hx)) (fun t ht => hsub t (by omega)) h.2⟩

/-- every bar line of the run carries a signature event of the track -/
theorem run_lines (c : Cfg) (i : Nat) (sigs : List (Int × Int)) (t : List (List Msg))
    (h : Run c i sigs t) (hp : ∀ s ∈ sigs, 0 < s.1 ∧ 0 < s.2 ∧ 0 < c.capacity s.1 s.2) :
    ∀ A, Lines c (fun τ => ∃ e ∈ (eventsRelGo A t.flatten).filter isTs, e.time = τ) A sigs := by
  induction h with
  | nil => intro A; trivial
  | @cons g s sigs' t' h1 _ ih =>
    intro A
    have hsplit : (eventsRelGo A (s :: t').flatten).filter isTs
        = [{ Msg.mkTimeSig 0 g.1 g.2 pyNone with time := A }]
          ++ (eventsRelGo (A + c.capacity g.1 g.2) t'.flatten).filter isTs := by
      rw [List.flatten_cons, SCoda.eventsRelGo_append, List.filter_append, seg_ts_events c i _ _ h1 A, h1.dur]
    refine ⟨⟨{ Msg.mkTimeSig 0 g.1 g.2 pyNone with time := A }, by rw [hsplit]; exact List.mem_append_left _ List.mem_cons_self, rfl⟩, ?_⟩
    refine lines_mono c _ _ sigs' _ (fun x hx => hp x (List.mem_cons_of_mem _ hx)) ?_
      (ih (fun x hx => hp x (List.mem_cons_of_mem _ hx)) (A + c.capacity g.1 g.2))
    rintro τ _ ⟨e, he, rfl⟩
    exact ⟨e, by rw [hsplit]; exact List.mem_append_right _ he, rfl⟩

theorem sigAt_congr (c : Cfg) (m m' : Msg) (h1 : m.time = m'.time) (h2 : m.num = m'.num) (h3 : m.den = m'.den) :
    ∀ (sigs : List (Int × Int)) (A : Int), SigAt c A sigs m → SigAt c A sigs m' := by
  intro sigs
  induction sigs with
  | nil => intro A h; exact h
  | cons s rest ih =>
    intro A h
    rcases h with h | h
    · exact Or.inl (by rw [← h1, ← h2, ← h3]; exact h)
    · exact Or.inr (ih _ h)

/-- on the grid the tick determines the signature -/
theorem sigAt_fun (c : Cfg) (a b : Msg) : ∀ (sigs : List (Int × Int)) (A : Int),
    (∀ s ∈ sigs, 0 < s.1 ∧ 0 < s.2 ∧ 0 < c.capacity s.1 s.2) → SigAt c A sigs a → SigAt c A sigs b →
    a.time = b.time → tsv a = tsv b := by
  intro sigs
  induction sigs with
  | nil => intro A _ h; exact absurd h (fun h => h)
  | cons s rest ih =>
    intro A hp ha hb hab
    have hc := (hp s List.mem_cons_self).2.2
    have hp' : ∀ x ∈ rest, 0 < x.1 ∧ 0 < x.2 ∧ 0 < c.capacity x.1 x.2 := fun x hx => hp x (List.mem_cons_of_mem _ hx)
    rcases ha with ha | ha <;> rcases hb with hb | hb
    · simp only [tsv]; rw [ha.2.1, ha.2.2, hb.2.1, hb.2.2]
    · have := sigAt_ge c rest _ b hp' hb; omega
    · have := sigAt_ge c rest _ a hp' ha; omega
    · exact ih _ hp' ha hb hab

/-- in one track of a run no two signatures share a tick -/
theorem run_strict (c : Cfg) (i : Nat) (sigs : List (Int × Int)) (t : List (List Msg))
    (h : Run c i sigs t) (hp : ∀ s ∈ sigs, 0 < s.1 ∧ 0 < s.2 ∧ 0 < c.capacity s.1 s.2) :
    ∀ A, ((eventsRelGo A t.flatten).filter isTs).Pairwise (fun a b => a.time < b.time) := by
  induction h with
  | nil => intro A; simp [eventsRelGo]
  | @cons g s sigs' t' h1 h2 ih =>
    intro A
    have hp' : ∀ x ∈ sigs', 0 < x.1 ∧ 0 < x.2 ∧ 0 < c.capacity x.1 x.2 := fun x hx => hp x (List.mem_cons_of_mem _ hx)
    rw [List.flatten_cons, SCoda.eventsRelGo_append, List.filter_append, seg_ts_events c i _ _ h1 A, h1.dur,
      List.singleton_append, List.pairwise_cons]
    refine ⟨?_, ih hp' _⟩
    intro e he
    have := sigAt_ge c sigs' _ e hp' (run_ts_events c i sigs' t' h2 _ e he)
    have := (hp g List.mem_cons_self).2.2
    simp only
    omega

/-! ## the signature changes of a sorted list of on-grid signatures -/

def early (B : Int) (m : Msg) : Bool := decide (m.time < B)

theorem dropWhile_early (B : Int) : ∀ (X : List Msg), Sorted X → ∀ x ∈ X.dropWhile (early B), B ≤ x.time := by
  intro X
  induction X with
  | nil => intro _ x h; simp at h
  | cons e es ih =>
    intro hs x hx
    have hs' := List.pairwise_cons.1 hs
    by_cases hb : early B e = true
    · rw [List.dropWhile_cons_of_pos hb] at hx
      exact ih hs'.2 x hx
    · rw [List.dropWhile_cons_of_neg hb] at hx
      have h0 : B ≤ e.time := by simpa [early] using hb
      rcases List.mem_cons.1 hx with rfl | hx
      · exact h0
      · have := hs'.1 x hx; omega

theorem mem_takeWhile_early (B : Int) (X : List Msg) (hs : Sorted X) (x : Msg) (hx : x ∈ X) (hlt : x.time < B) :
    x ∈ X.takeWhile (early B) := by
  rw [← List.takeWhile_append_dropWhile (p := early B) (l := X)] at hx
  rcases List.mem_append.1 hx with h | h
  · exact h
  · have := dropWhile_early B X hs x h; omega

theorem lastD_const {β} (s : β) : ∀ (l : List β) (p : β), l ≠ [] → (∀ v ∈ l, v = s) → lastD p l = s := by
  intro l
  induction l with
  | nil => intro p h; exact absurd rfl h
  | cons a l ih =>
    intro p _ h
    cases l with
    | nil => simp only [lastD]; exact h a List.mem_cons_self
    | cons b l => simp only [lastD]; exact ih a (by simp) (fun v hv => h v (List.mem_cons_of_mem _ hv))

/-- **where the bar length changes, the signature change survives the removal of repeats**: `X` a tick-sorted
    list of signature events on the grid `sigs`, at least one on every bar line; after dropping every signature that
    repeats the one in force (`p` before the first), every bar whose length differs from the running one still has
    a signature on its line -/
theorem dedup_announced (c : Cfg) : ∀ (sigs : List (Int × Int)) (A C : Int) (p : Int × Int) (X : List Msg), Sorted X →
    (∀ x ∈ X, SigAt c A sigs x) → Lines c (fun τ => ∃ x ∈ X, x.time = τ) A sigs →
    (∀ s ∈ sigs, 0 < s.1 ∧ 0 < s.2 ∧ 0 < c.capacity s.1 s.2) →
    (∀ s rest, sigs = s :: rest → p = s → c.capacity s.1 s.2 = C) →
    AnnP c (fun τ => ∃ y ∈ dedupBy tsv p X, y.time = τ) A C sigs := by
  intro sigs
  induction sigs with
  | nil => intro _ _ _ _ _ _ _ _ _; trivial
  | cons s rest ih =>
    intro A C p X hs hsig hlines hpos hp
    have hc := (hpos s List.mem_cons_self).2.2
    have hpos' : ∀ x ∈ rest, 0 < x.1 ∧ 0 < x.2 ∧ 0 < c.capacity x.1 x.2 := fun x hx => hpos x (List.mem_cons_of_mem _ hx)
    have hX1 : ∀ x ∈ X.takeWhile (early (A + c.capacity s.1 s.2)), x.time = A ∧ tsv x = s := by
      intro x hx
      have hxX : x ∈ X := (List.takeWhile_sublist _).subset hx
      have hlt : x.time < A + c.capacity s.1 s.2 := by simpa [early] using takeWhile_holds _ _ _ hx
      rcases hsig x hxX with ⟨h1, h2, h3⟩ | h
      · exact ⟨h1, by simp only [tsv]; rw [h2, h3]⟩
      · have := sigAt_ge c rest _ x hpos' h; omega
    obtain ⟨x0, hx0, hx0t⟩ := hlines.1
    have hx0' := mem_takeWhile_early (A + c.capacity s.1 s.2) X hs x0 hx0 (by omega)
    have hX2 : ∀ x ∈ X.dropWhile (early (A + c.capacity s.1 s.2)), x ∈ X ∧ A + c.capacity s.1 s.2 ≤ x.time :=
      fun x hx => ⟨(List.dropWhile_sublist _).subset hx, dropWhile_early _ X hs x hx⟩
    have hsplit := List.takeWhile_append_dropWhile (p := early (A + c.capacity s.1 s.2)) (l := X)
    have hlast : lastD p ((X.takeWhile (early (A + c.capacity s.1 s.2))).map tsv) = s := by
      apply lastD_const
      · intro h
        rw [List.map_eq_nil_iff] at h
        rw [h] at hx0'; simp at hx0'
      · intro v hv
        obtain ⟨x, hx, rfl⟩ := List.mem_map.1 hv
        exact (hX1 x hx).2
    have hded : dedupBy tsv p X = dedupBy tsv p (X.takeWhile (early (A + c.capacity s.1 s.2)))
        ++ dedupBy tsv s (X.dropWhile (early (A + c.capacity s.1 s.2))) := by
      conv => lhs; rw [← hsplit]
      rw [dedupBy_append, hlast]
    refine ⟨?_, ?_⟩
    · by_cases hps : p = s
      · exact Or.inl (hp s rest rfl hps)
      · right
        cases hT : X.takeWhile (early (A + c.capacity s.1 s.2)) with
        | nil => rw [hT] at hx0'; simp at hx0'
        | cons x1 X1' =>
          have h1 := hX1 x1 (by rw [hT]; exact List.mem_cons_self)
          refine ⟨x1, ?_, h1.1⟩
          rw [hded, hT]
          apply List.mem_append_left
          simp only [dedupBy]
          rw [if_neg (by rw [h1.2]; exact hps)]
          exact List.mem_cons_self
    · have hI := ih (A + c.capacity s.1 s.2) (c.capacity s.1 s.2) s (X.dropWhile (early (A + c.capacity s.1 s.2)))
        (hs.sublist (List.dropWhile_sublist _))
        (by
          intro x hx
          obtain ⟨hxX, hge⟩ := hX2 x hx
          rcases hsig x hxX with ⟨h1, _⟩ | h
          · omega
          · exact h)
        (by
          refine lines_mono c _ _ rest _ hpos' ?_ hlines.2
          rintro τ hτ ⟨x, hx, rfl⟩
          refine ⟨x, ?_, rfl⟩
          rw [← hsplit] at hx
          rcases List.mem_append.1 hx with h | h
          · have := (hX1 x h).1; omega
          · exact h)
        hpos'
        (by
          intro s' rest' _ hss
          rw [hss])
      refine annP_mono c _ _ rest _ _ hpos' ?_ hI
      rintro τ _ ⟨y, hy, rfl⟩
      exact ⟨y, by rw [hded]; exact List.mem_append_right _ hy, rfl⟩

end SCoda.GlueL
