/-
  Lemmas for C15 (merge = union of the inputs' music): per-key counting of note-ons / note-offs,
  the saturating depth as a difference of counts, the "every note-off comes after its note-on"
  reading of `WF` + `PosDur`, and the stage facts about `sortAbs` / `toRel` used by the merge.
-/
import SCoda.Model.Roll
import SCoda.Lemmas.Sort
import SCoda.Lemmas.Conv
import SCoda.Lemmas.Normalise
namespace SCoda.MergeL
open SCoda

/-! ### counting the note events of one key -/

def isOnK (k : Int × Int) (m : Msg) : Bool := decide (m.nkey = k ∧ m.ty = .noteOn)
def isOffK (k : Int × Int) (m : Msg) : Bool := decide (m.nkey = k ∧ m.ty = .noteOff)

/-- number of note-ons of key `k` -/
def ons (k : Int × Int) (l : List Msg) : Nat := l.countP (isOnK k)
/-- number of note-offs of key `k` -/
def offs (k : Int × Int) (l : List Msg) : Nat := l.countP (isOffK k)

/-- the filters of `SoundingAt` (`≤ t`) and its strict companion -/
def upTo (t : Int) (l : List Msg) : List Msg := l.filter (fun m => decide (m.time ≤ t))
def before (t : Int) (l : List Msg) : List Msg := l.filter (fun m => decide (m.time < t))

theorem cases3 (k : Int × Int) (m : Msg) :
    (m.nkey = k ∧ m.ty = .noteOn) ∨ (m.nkey = k ∧ m.ty = .noteOff)
      ∨ (¬(m.nkey = k ∧ m.ty = .noteOn) ∧ ¬(m.nkey = k ∧ m.ty = .noteOff)) := by
  by_cases h1 : m.nkey = k ∧ m.ty = .noteOn
  · exact Or.inl h1
  · by_cases h2 : m.nkey = k ∧ m.ty = .noteOff
    · exact Or.inr (Or.inl h2)
    · exact Or.inr (Or.inr ⟨h1, h2⟩)

theorem ons_nil (k : Int × Int) : ons k [] = 0 := rfl
theorem offs_nil (k : Int × Int) : offs k [] = 0 := rfl

theorem ons_cons_on {k : Int × Int} {m : Msg} (h : m.nkey = k ∧ m.ty = .noteOn) (l : List Msg) :
    ons k (m :: l) = ons k l + 1 := by
  simp [ons, isOnK, h]

theorem offs_cons_on {k : Int × Int} {m : Msg} (h : m.nkey = k ∧ m.ty = .noteOn) (l : List Msg) :
    offs k (m :: l) = offs k l := by
  simp [offs, isOffK, h]

theorem ons_cons_off {k : Int × Int} {m : Msg} (h : m.nkey = k ∧ m.ty = .noteOff) (l : List Msg) :
    ons k (m :: l) = ons k l := by
  simp [ons, isOnK, h]

theorem offs_cons_off {k : Int × Int} {m : Msg} (h : m.nkey = k ∧ m.ty = .noteOff) (l : List Msg) :
    offs k (m :: l) = offs k l + 1 := by
  simp [offs, isOffK, h]

theorem ons_cons_other {k : Int × Int} {m : Msg} (h : ¬(m.nkey = k ∧ m.ty = .noteOn)) (l : List Msg) :
    ons k (m :: l) = ons k l := by
  simp [ons, isOnK, h]

theorem offs_cons_other {k : Int × Int} {m : Msg} (h : ¬(m.nkey = k ∧ m.ty = .noteOff)) (l : List Msg) :
    offs k (m :: l) = offs k l := by
  simp [offs, isOffK, h]

theorem ons_append (k : Int × Int) (a b : List Msg) : ons k (a ++ b) = ons k a + ons k b := by
  simp [ons, List.countP_append]

theorem offs_append (k : Int × Int) (a b : List Msg) : offs k (a ++ b) = offs k a + offs k b := by
  simp [offs, List.countP_append]

theorem ons_perm (k : Int × Int) {a b : List Msg} (h : a.Perm b) : ons k a = ons k b :=
  h.countP_eq _

theorem offs_perm (k : Int × Int) {a b : List Msg} (h : a.Perm b) : offs k a = offs k b :=
  h.countP_eq _

theorem ons_sublist (k : Int × Int) {a b : List Msg} (h : a.Sublist b) : ons k a ≤ ons k b :=
  h.countP_le

theorem offs_sublist (k : Int × Int) {a b : List Msg} (h : a.Sublist b) : offs k a ≤ offs k b :=
  h.countP_le

/-! ### depth -/

theorem depth_cons_on {k : Int × Int} {m : Msg} (h : m.nkey = k ∧ m.ty = .noteOn) (l : List Msg) (d : Nat) :
    depth k (m :: l) d = depth k l (d + 1) := by
  simp [depth, h.1, h.2]

theorem depth_cons_off {k : Int × Int} {m : Msg} (h : m.nkey = k ∧ m.ty = .noteOff) (l : List Msg) (d : Nat) :
    depth k (m :: l) d = depth k l (d - 1) := by
  simp [depth, h.1, h.2]

theorem depth_cons_other {k : Int × Int} {m : Msg} (h1 : ¬(m.nkey = k ∧ m.ty = .noteOn))
    (h2 : ¬(m.nkey = k ∧ m.ty = .noteOff)) (l : List Msg) (d : Nat) :
    depth k (m :: l) d = depth k l d := by
  by_cases hk : m.nkey = k
  · have h1' : ¬ m.ty = .noteOn := fun h => h1 ⟨hk, h⟩
    have h2' : ¬ m.ty = .noteOff := fun h => h2 ⟨hk, h⟩
    simp [depth, hk, h1', h2']
  · simp [depth, hk]

/-- the saturating counter never falls below the plain difference -/
theorem depth_ge (k : Int × Int) (l : List Msg) : ∀ d, d + ons k l ≤ depth k l d + offs k l := by
  induction l with
  | nil => intro d; simp [depth, ons, offs]
  | cons m ms ih =>
    intro d
    rcases cases3 k m with h | h | ⟨h1, h2⟩
    · rw [depth_cons_on h, ons_cons_on h, offs_cons_on h]
      have := ih (d + 1); omega
    · rw [depth_cons_off h, ons_cons_off h, offs_cons_off h]
      have := ih (d - 1); omega
    · rw [depth_cons_other h1 h2, ons_cons_other h1, offs_cons_other h2]
      exact ih d

/-- without underflow (no prefix has more note-offs than `d` + note-ons) it *is* the difference -/
theorem depth_exact (k : Int × Int) (l : List Msg) : ∀ d,
    (∀ p, p <+: l → offs k p ≤ d + ons k p) → depth k l d + offs k l = d + ons k l := by
  induction l with
  | nil => intro d _; simp [depth, ons, offs]
  | cons m ms ih =>
    intro d hp
    rcases cases3 k m with h | h | ⟨h1, h2⟩
    · rw [depth_cons_on h, ons_cons_on h, offs_cons_on h]
      have := ih (d + 1) (by
        intro p hpp
        have := hp (m :: p) ((List.prefix_cons_inj m).2 hpp)
        rw [ons_cons_on h, offs_cons_on h] at this
        omega)
      omega
    · rw [depth_cons_off h, ons_cons_off h, offs_cons_off h]
      have h0 := hp [m] (by simp)
      rw [ons_cons_off h, offs_cons_off h] at h0
      simp only [ons_nil, offs_nil] at h0
      have := ih (d - 1) (by
        intro p hpp
        have := hp (m :: p) ((List.prefix_cons_inj m).2 hpp)
        rw [ons_cons_off h, offs_cons_off h] at this
        omega)
      omega
    · rw [depth_cons_other h1 h2, ons_cons_other h1, offs_cons_other h2]
      exact ih d (by
        intro p hpp
        have := hp (m :: p) ((List.prefix_cons_inj m).2 hpp)
        rw [ons_cons_other h1, offs_cons_other h2] at this
        exact this)

/-! ### `WF` + positive durations, per key -/

/-- per key: note-ons and note-offs alternate (starting and ending closed) and every note-off is
    strictly later than the note-on it closes; the state is the tick of the open note-on -/
def goodFrom (k : Int × Int) : Option Int → List Msg → Prop
  | o, [] => o = none
  | o, m :: ms =>
    if m.nkey = k ∧ m.ty = .noteOn then o = none ∧ goodFrom k (some m.time) ms
    else if m.nkey = k ∧ m.ty = .noteOff then (∃ t0, o = some t0 ∧ t0 < m.time) ∧ goodFrom k none ms
    else goodFrom k o ms

theorem find_filter_ne (k k' : Int × Int) (h : k ≠ k') (l : List Msg) :
    (l.filter (fun o => o.nkey != k')).find? (fun o => o.nkey == k) = l.find? (fun o => o.nkey == k) := by
  rw [List.find?_filter]
  congr 1
  funext o
  by_cases ho : o.nkey = k
  · have : ¬ k = k' := h
    simp [ho, this]
  · simp [ho]

theorem find_filter_self (k : Int × Int) (l : List Msg) :
    (l.filter (fun o => o.nkey != k)).find? (fun o => o.nkey == k) = none := by
  simp [List.find?_eq_none]

theorem notesGo_on {m : Msg} (h : m.ty = .noteOn) (ms opens : List Msg) :
    notesGo (m :: ms) opens = notesGo ms (m :: opens.filter (fun o => o.nkey != m.nkey)) := by
  simp [notesGo, h]

theorem notesGo_off_some {m o : Msg} (h : m.ty = .noteOff) (ms opens : List Msg)
    (hf : opens.find? (fun o => o.nkey == m.nkey) = some o) :
    notesGo (m :: ms) opens = { ch := o.ch, pitch := o.note, on := o.time, off := m.time, vel := o.vel }
      :: notesGo ms (opens.filter (fun x => x.nkey != m.nkey)) := by
  simp [notesGo, h, hf]

theorem notesGo_off_none {m : Msg} (h : m.ty = .noteOff) (ms opens : List Msg)
    (hf : opens.find? (fun o => o.nkey == m.nkey) = none) :
    notesGo (m :: ms) opens = notesGo ms opens := by
  simp only [notesGo, h, hf]
  simp

theorem notesGo_other {m : Msg} (h1 : m.ty ≠ .noteOn) (h2 : m.ty ≠ .noteOff) (ms opens : List Msg) :
    notesGo (m :: ms) opens = notesGo ms opens := by
  simp [notesGo, h1, h2]

theorem good_of_alt (k : Int × Int) (l : List Msg) : ∀ (b : Bool) (opens : List Msg),
    altFrom k b l → (∀ n ∈ notesGo l opens, n.on < n.off) →
    b = (opens.find? (fun o => o.nkey == k)).isSome →
    goodFrom k ((opens.find? (fun o => o.nkey == k)).map (·.time)) l := by
  induction l with
  | nil =>
    intro b opens ha _ hb
    simp only [altFrom] at ha
    subst ha
    simp only [goodFrom]
    cases hf : opens.find? (fun o => o.nkey == k) with
    | none => rfl
    | some x => rw [hf] at hb; simp at hb
  | cons m ms ih =>
    intro b opens ha hn hb
    rcases cases3 k m with h | h | ⟨h1, h2⟩
    · -- note-on of key k
      simp only [altFrom, h, and_self, if_true] at ha
      rw [notesGo_on h.2] at hn
      simp only [goodFrom, h, and_self, if_true]
      obtain ⟨hb0, ha⟩ := ha
      subst hb0
      refine ⟨?_, ?_⟩
      · cases hf : opens.find? (fun o => o.nkey == k) with
        | none => rfl
        | some x => rw [hf] at hb; simp at hb
      · have := ih true _ ha hn (by simp [h.1])
        simpa [List.find?_cons, h.1] using this
    · -- note-off of key k
      simp only [altFrom, h, and_self, if_true] at ha
      simp only [goodFrom, h, and_self, if_true]
      obtain ⟨hb1, ha⟩ := ha
      subst hb1
      cases hf : opens.find? (fun o => o.nkey == k) with
      | none => rw [hf] at hb; simp at hb
      | some x =>
        rw [notesGo_off_some h.2 ms opens (by rw [h.1]; exact hf)] at hn
        simp only [List.mem_cons, forall_eq_or_imp, h.1] at hn
        refine ⟨⟨x.time, rfl, hn.1⟩, ?_⟩
        have := ih false _ ha hn.2 (by rw [find_filter_self]; rfl)
        rw [find_filter_self] at this
        exact this
    · -- anything else
      simp only [altFrom, h1, h2, if_false] at ha
      simp only [goodFrom, h1, h2, if_false]
      by_cases hon : m.ty = .noteOn
      · have hk : k ≠ m.nkey := fun e => h1 ⟨e.symm, hon⟩
        have hk' : ¬ m.nkey = k := fun e => hk e.symm
        rw [notesGo_on hon] at hn
        have := ih b _ ha hn (by simp [hk', find_filter_ne k _ hk, hb])
        simpa [List.find?_cons, hk', find_filter_ne k _ hk] using this
      · by_cases hoff : m.ty = .noteOff
        · have hk : k ≠ m.nkey := fun e => h2 ⟨e.symm, hoff⟩
          cases hf : opens.find? (fun o => o.nkey == m.nkey) with
          | none =>
            rw [notesGo_off_none hoff ms opens hf] at hn
            exact ih b _ ha hn hb
          | some x =>
            rw [notesGo_off_some hoff ms opens hf] at hn
            simp only [List.mem_cons, forall_eq_or_imp] at hn
            have := ih b _ ha hn.2 (by simp [find_filter_ne k _ hk, hb])
            simpa [find_filter_ne k _ hk] using this
        · rw [notesGo_other hon hoff] at hn
          exact ih b _ ha hn hb

/-- `WF` and `PosDur` give the per-key invariant -/
theorem good_of_wf (a : List Msg) (hwf : WF a) (hpos : ∀ n ∈ notesOf a, n.on < n.off) (k : Int × Int) :
    goodFrom k none a :=
  good_of_alt k a false [] (hwf k) hpos rfl

def openN : Option Int → Nat
  | some _ => 1
  | none => 0

def openBefore (s : Int) : Option Int → Nat
  | some t0 => if t0 < s then 1 else 0
  | none => 0

theorem upTo_cons (s : Int) (m : Msg) (ms : List Msg) :
    upTo s (m :: ms) = if m.time ≤ s then m :: upTo s ms else upTo s ms := by
  simp [upTo, List.filter_cons]

theorem before_cons (s : Int) (m : Msg) (ms : List Msg) :
    before s (m :: ms) = if m.time < s then m :: before s ms else before s ms := by
  simp [before, List.filter_cons]

/-- every note-off up to tick `s` closes a note-on strictly before `s` -/
theorem good_count (k : Int × Int) (s : Int) (l : List Msg) : ∀ o, goodFrom k o l →
    offs k (upTo s l) ≤ ons k (before s l) + openBefore s o := by
  induction l with
  | nil => intro o _; simp [upTo, before, ons, offs]
  | cons m ms ih =>
    intro o hg
    rw [upTo_cons, before_cons]
    rcases cases3 k m with h | h | ⟨h1, h2⟩
    · simp only [goodFrom, h, and_self, if_true] at hg
      obtain ⟨ho, hg⟩ := hg
      subst ho
      have := ih _ hg
      simp only [openBefore] at this ⊢
      by_cases c1 : m.time ≤ s <;> by_cases c2 : m.time < s <;>
        simp only [c1, c2, if_true, if_false, ons_cons_on h, offs_cons_on h] at this ⊢ <;> omega
    · simp only [goodFrom, h, and_self, if_true] at hg
      obtain ⟨⟨t0, ho, hlt⟩, hg⟩ := hg
      subst ho
      have := ih _ hg
      simp only [openBefore] at this ⊢
      by_cases c1 : m.time ≤ s <;> by_cases c2 : m.time < s <;> by_cases c3 : t0 < s <;>
        simp only [c1, c2, c3, if_true, if_false, ons_cons_off h, offs_cons_off h] at this ⊢ <;> omega
    · simp only [goodFrom, h1, h2, if_false] at hg
      have := ih _ hg
      by_cases c1 : m.time ≤ s <;> by_cases c2 : m.time < s <;>
        simp only [c1, c2, if_true, if_false, ons_cons_other h1, offs_cons_other h2] at this ⊢ <;> omega

/-- on a prefix of a good list the depth is the plain difference (0 or 1) -/
theorem good_prefix (k : Int × Int) (p r : List Msg) : ∀ o, goodFrom k o (p ++ r) →
    depth k p (openN o) + offs k p = openN o + ons k p := by
  induction p with
  | nil => intro o _; simp [depth, ons, offs]
  | cons m ms ih =>
    intro o hg
    rw [List.cons_append] at hg
    rcases cases3 k m with h | h | ⟨h1, h2⟩
    · simp only [goodFrom, h, and_self, if_true] at hg
      obtain ⟨ho, hg⟩ := hg
      subst ho
      have := ih _ hg
      simp only [openN] at this ⊢
      rw [depth_cons_on h, ons_cons_on h, offs_cons_on h, Nat.zero_add]
      omega
    · simp only [goodFrom, h, and_self, if_true] at hg
      obtain ⟨⟨t0, ho, hlt⟩, hg⟩ := hg
      subst ho
      have := ih _ hg
      simp only [openN] at this ⊢
      rw [depth_cons_off h, ons_cons_off h, offs_cons_off h]
      simp only [Nat.sub_self]
      omega
    · simp only [goodFrom, h1, h2, if_false] at hg
      rw [depth_cons_other h1 h2, ons_cons_other h1, offs_cons_other h2]
      exact ih _ hg

/-- a good list is balanced -/
theorem good_total (k : Int × Int) (l : List Msg) : ∀ o, goodFrom k o l →
    openN o + ons k l = offs k l := by
  induction l with
  | nil => intro o h; simp only [goodFrom] at h; subst h; rfl
  | cons m ms ih =>
    intro o hg
    rcases cases3 k m with h | h | ⟨h1, h2⟩
    · simp only [goodFrom, h, and_self, if_true] at hg
      obtain ⟨ho, hg⟩ := hg
      subst ho
      have := ih _ hg
      simp only [openN] at this ⊢
      rw [ons_cons_on h, offs_cons_on h]
      omega
    · simp only [goodFrom, h, and_self, if_true] at hg
      obtain ⟨⟨t0, ho, hlt⟩, hg⟩ := hg
      subst ho
      have := ih _ hg
      simp only [openN] at this ⊢
      rw [ons_cons_off h, offs_cons_off h]
      omega
    · simp only [goodFrom, h1, h2, if_false] at hg
      rw [ons_cons_other h1, offs_cons_other h2]
      exact ih _ hg

/-! ### time-sorted lists: `upTo` is a prefix, prefixes sit between `before` and `upTo` -/

abbrev Sorted (l : List Msg) : Prop := l.Pairwise (fun a b => a.time ≤ b.time)

theorem upTo_append (t : Int) (a b : List Msg) : upTo t (a ++ b) = upTo t a ++ upTo t b := by
  simp [upTo]

theorem before_append (t : Int) (a b : List Msg) : before t (a ++ b) = before t a ++ before t b := by
  simp [before]

theorem upTo_split (t : Int) (l : List Msg) (hs : Sorted l) : ∃ A2, l = upTo t l ++ A2 := by
  obtain ⟨A1, A2, h1, h2, h3⟩ := split_sorted l t hs
  refine ⟨A2, ?_⟩
  have : upTo t l = A1 := by
    rw [h1, upTo_append, upTo, upTo, List.filter_eq_self.2 (by simpa using h2),
      List.filter_eq_nil_iff.2 (by intro a ha; have := h3 a ha; simp; omega), List.append_nil]
  rw [this]; exact h1

/-- a non-empty prefix `q' ++ [x]` of a sorted list contains everything strictly before `x.time`
    and only things up to `x.time` -/
theorem prefix_between (k : Int × Int) (q' r : List Msg) (x : Msg) (hs : Sorted ((q' ++ [x]) ++ r)) :
    offs k (q' ++ [x]) ≤ offs k (upTo x.time ((q' ++ [x]) ++ r))
    ∧ ons k (before x.time ((q' ++ [x]) ++ r)) ≤ ons k (q' ++ [x]) := by
  obtain ⟨hq, _, hqr⟩ := List.pairwise_append.1 hs
  obtain ⟨_, _, hqx⟩ := List.pairwise_append.1 hq
  have hle : ∀ a ∈ q' ++ [x], a.time ≤ x.time := by
    intro a ha
    rcases List.mem_append.1 ha with ha | ha
    · exact hqx a ha x (by simp)
    · simp at ha; subst ha; exact Int.le_refl _
  constructor
  · have : upTo x.time (q' ++ [x]) = q' ++ [x] := by
      rw [upTo, List.filter_eq_self]; simpa using hle
    rw [upTo_append, this, offs_append k (q' ++ [x])]; omega
  · rw [before_append]
    have : before x.time r = [] := by
      rw [before, List.filter_eq_nil_iff]
      intro a ha
      have := hqr x (by simp) a ha
      simp; omega
    rw [this, List.append_nil]
    exact ons_sublist k List.filter_sublist

/-! ### the sorted union of good lists -/

theorem flatten_count (k : Int × Int) (s : Int) (as : List (List Msg))
    (h : ∀ a ∈ as, goodFrom k none a) :
    offs k (upTo s as.flatten) ≤ ons k (before s as.flatten) := by
  induction as with
  | nil => simp [upTo, before, ons, offs]
  | cons a as ih =>
    rw [List.flatten_cons, upTo_append, before_append, ons_append, offs_append]
    have h1 := good_count k s a none (h a (by simp))
    have h2 := ih (fun b hb => h b (List.mem_cons_of_mem _ hb))
    simp only [openBefore] at h1
    omega

/-- **no underflow** in a sorted permutation of the concatenation of good lists -/
theorem no_underflow (k : Int × Int) (as : List (List Msg)) (U : List Msg)
    (hperm : U.Perm as.flatten) (hs : Sorted U) (h : ∀ a ∈ as, goodFrom k none a) :
    ∀ q, q <+: U → offs k q ≤ 0 + ons k q := by
  intro q hq
  obtain ⟨r, hr⟩ := hq
  rcases List.eq_nil_or_concat q with hnil | ⟨q', x, hx⟩
  · subst hnil; simp [ons, offs]
  · rw [List.concat_eq_append] at hx
    subst hx
    subst hr
    obtain ⟨h1, h2⟩ := prefix_between k q' r x hs
    have h3 := flatten_count k x.time as h
    have e1 : offs k (upTo x.time ((q' ++ [x]) ++ r)) = offs k (upTo x.time as.flatten) :=
      offs_perm k (hperm.filter _)
    have e2 : ons k (before x.time ((q' ++ [x]) ++ r)) = ons k (before x.time as.flatten) :=
      ons_perm k (hperm.filter _)
    omega

theorem flatten_total (k : Int × Int) (as : List (List Msg)) (h : ∀ a ∈ as, goodFrom k none a) :
    ons k as.flatten = offs k as.flatten := by
  induction as with
  | nil => rfl
  | cons a as ih =>
    rw [List.flatten_cons, ons_append, offs_append]
    have h1 := good_total k a none (h a (by simp))
    have h2 := ih (fun b hb => h b (List.mem_cons_of_mem _ hb))
    simp only [openN] at h1
    omega

/-- the whole sorted union is balanced: its depth ends at 0 -/
theorem depth_union_zero (k : Int × Int) (as : List (List Msg)) (U : List Msg)
    (hperm : U.Perm as.flatten) (hs : Sorted U) (h : ∀ a ∈ as, goodFrom k none a) :
    depth k U 0 = 0 := by
  have h1 := depth_exact k U 0 (no_underflow k as U hperm hs h)
  have h2 := flatten_total k as h
  rw [← ons_perm k hperm, ← offs_perm k hperm] at h2
  omega

/-- the depths of the inputs add up (as a statement about positivity) -/
theorem flatten_depth (k : Int × Int) (t : Int) (as : List (List Msg))
    (h : ∀ a ∈ as, goodFrom k none a) (hsa : ∀ a ∈ as, Sorted a) :
    ∃ S, S + offs k (upTo t as.flatten) = ons k (upTo t as.flatten)
      ∧ (0 < S ↔ ∃ a ∈ as, 0 < depth k (upTo t a) 0) := by
  induction as with
  | nil => exact ⟨0, rfl, by simp⟩
  | cons a as ih =>
    obtain ⟨S, hS, hiff⟩ := ih (fun b hb => h b (List.mem_cons_of_mem _ hb))
      (fun b hb => hsa b (List.mem_cons_of_mem _ hb))
    obtain ⟨A2, hA⟩ := upTo_split t a (hsa a (by simp))
    have hg := h a (by simp)
    rw [hA] at hg
    have hd := good_prefix k _ _ none hg
    simp only [openN] at hd
    refine ⟨depth k (upTo t a) 0 + S, ?_, ?_⟩
    · rw [List.flatten_cons, upTo_append, ons_append, offs_append]
      omega
    · constructor
      · intro hpos
        by_cases h0 : 0 < depth k (upTo t a) 0
        · exact ⟨a, by simp, h0⟩
        · obtain ⟨b, hb, hb0⟩ := hiff.1 (by omega)
          exact ⟨b, List.mem_cons_of_mem _ hb, hb0⟩
      · rintro ⟨b, hb, hb0⟩
        rcases List.mem_cons.1 hb with rfl | hb
        · omega
        · have := hiff.2 ⟨b, hb, hb0⟩
          omega

/-- **union**, on plain lists: key `k` has positive depth at tick `t` in the sorted union iff it
    has in one of the inputs -/
theorem depth_union (k : Int × Int) (t : Int) (as : List (List Msg)) (U : List Msg)
    (hperm : U.Perm as.flatten) (hs : Sorted U) (h : ∀ a ∈ as, goodFrom k none a)
    (hsa : ∀ a ∈ as, Sorted a) :
    0 < depth k (upTo t U) 0 ↔ ∃ a ∈ as, 0 < depth k (upTo t a) 0 := by
  obtain ⟨A2, hA⟩ := upTo_split t U hs
  have hpre : upTo t U <+: U := ⟨A2, hA.symm⟩
  have h1 := depth_exact k (upTo t U) 0
    (fun q hq => no_underflow k as U hperm hs h q (hq.trans hpre))
  obtain ⟨S, hS, hiff⟩ := flatten_depth k t as h hsa
  have e1 : offs k (upTo t U) = offs k (upTo t as.flatten) := offs_perm k (hperm.filter _)
  have e2 : ons k (upTo t U) = ons k (upTo t as.flatten) := ons_perm k (hperm.filter _)
  rw [← hiff]
  omega

/-! ### glue to the `Roll` vocabulary -/

theorem depth_filter_notes (k : Int × Int) (q : Msg → Bool)
    (hq : ∀ m : Msg, m.ty = .noteOn ∨ m.ty = .noteOff → q m = true) (l : List Msg) :
    ∀ d, depth k (l.filter q) d = depth k l d := by
  induction l with
  | nil => intro d; rfl
  | cons m ms ih =>
    intro d
    by_cases hm : q m = true
    · rw [List.filter_cons_of_pos hm]
      rcases cases3 k m with h | h | ⟨h1, h2⟩
      · rw [depth_cons_on h, depth_cons_on h, ih]
      · rw [depth_cons_off h, depth_cons_off h, ih]
      · rw [depth_cons_other h1 h2, depth_cons_other h1 h2, ih]
    · rw [List.filter_cons_of_neg hm]
      have h1 : ¬(m.nkey = k ∧ m.ty = .noteOn) := fun h => hm (hq m (Or.inl h.2))
      have h2 : ¬(m.nkey = k ∧ m.ty = .noteOff) := fun h => hm (hq m (Or.inr h.2))
      rw [depth_cons_other h1 h2, ih]

theorem depth_eventsAbs (k : Int × Int) (l : List Msg) (d : Nat) :
    depth k (eventsAbs l) d = depth k l d :=
  depth_filter_notes k _ (by intro m hm; rcases hm with h | h <;> simp [h]) l d

theorem sounding_abs (a : List Msg) (k : Int × Int) (t : Int) :
    SoundingAt (eventsAbs a) k t ↔ 0 < depth k (upTo t a) 0 := by
  have : (eventsAbs a).filter (fun m => decide (m.time ≤ t)) = eventsAbs (upTo t a) := by
    simp only [eventsAbs, upTo, List.filter_filter]
    congr 1
    funext m
    exact Bool.and_comm _ _
  rw [SoundingAt, this, depth_eventsAbs]

/-! ### the stages of the merge -/

theorem okAbs_sort (as : List (List Msg)) (h : ∀ a ∈ as, OkAbs a) : OkAbs (sortAbs as.flatten) := by
  refine ⟨sortAbs_timeSorted _, ?_, ?_⟩
  · intro m hm
    obtain ⟨a, ha, hma⟩ := List.mem_flatten.1 ((mem_sortAbs _ _).1 hm)
    exact (h a ha).2.1 m hma
  · intro m hm
    obtain ⟨a, ha, hma⟩ := List.mem_flatten.1 ((mem_sortAbs _ _).1 hm)
    exact (h a ha).2.2 m hma

/-- the last message of a sorted non-negative list carries its maximum tick -/
theorem durAbs_spec (a : List Msg) (hs : Sorted a) (hn : NonNegTimes a) :
    0 ≤ durAbs a ∧ (∀ e ∈ a, e.time ≤ durAbs a) ∧ (durAbs a = 0 ∨ ∃ e ∈ a, e.time = durAbs a) := by
  rcases List.eq_nil_or_concat a with hnil | ⟨q, x, hx⟩
  · subst hnil
    exact ⟨by simp [durAbs], by simp, Or.inl (by simp [durAbs])⟩
  · rw [List.concat_eq_append] at hx
    subst hx
    have hd : durAbs (q ++ [x]) = x.time := by simp [durAbs]
    rw [hd]
    obtain ⟨_, _, hqx⟩ := List.pairwise_append.1 hs
    refine ⟨hn x (by simp), ?_, Or.inr ⟨x, by simp, rfl⟩⟩
    intro e he
    rcases List.mem_append.1 he with he | he
    · exact hqx e he x (by simp)
    · simp at he; subst he; exact Int.le_refl _

/-- the duration of a sorted non-negative list is determined by an upper bound that is attained
    (or is 0) -/
theorem durAbs_eq (U : List Msg) (T : Int) (hs : Sorted U) (hn : NonNegTimes U)
    (hle : ∀ e ∈ U, e.time ≤ T) (hex : T = 0 ∨ ∃ e ∈ U, e.time = T) : durAbs U = T := by
  obtain ⟨h0, h1, h2⟩ := durAbs_spec U hs hn
  rcases hex with hT | ⟨e, he, heT⟩
  · rcases h2 with h2 | ⟨e, he, heq⟩
    · omega
    · have := hle e he; omega
  · have := h1 e he
    rcases h2 with h2 | ⟨e', he', heq⟩
    · have := hn e he; omega
    · have := hle e' he'; omega

/-- `toRel` copies every time signature (only waits are inserted, only `INTERNAL`s dropped) -/
theorem toRelGo_timeSigs (l : List Msg) : ∀ cur : Int,
    ((toRelGo cur l).filter (·.ty == .timeSignature)).map (fun m => (m.num, m.den))
      = (l.filter (·.ty == .timeSignature)).map (fun m => (m.num, m.den)) := by
  induction l with
  | nil => intro cur; rfl
  | cons m ms ih =>
    intro cur
    simp only [toRelGo, List.filter_append, List.map_append, ih]
    by_cases hts : m.ty = .timeSignature
    · by_cases hgt : m.time > cur <;> simp [hts, hgt, Msg.mkWait]
    · by_cases hgt : m.time > cur <;> by_cases hint : m.ty = .internal <;>
        simp [hts, hgt, hint, Msg.mkWait]

end SCoda.MergeL
