/-
  Lemmas for `Props/C05b` (survival / removal of an isolated note under `quantise`).

  The input is cut into `pre ++ on :: mid ++ off :: post`; the fold is followed through the five
  segments with the state invariants of `Lemmas/Quantise` (`SInv`, `InAlt`) plus time bounds for the
  key of the note, then `collapsedGo` / `removeIndices` are followed through the produced list.
-/
import SCoda.Props.C05
namespace SCoda.QB
open SCoda SCoda.Q SCoda.C05

/-! ### lists -/

theorem first_occ {α : Type} {x : α} {l : List α} (h : x ∈ l) : ∃ s t, l = s ++ x :: t ∧ x ∉ s := by
  induction l with
  | nil => cases h
  | cons y ys ih =>
    by_cases hxy : x = y
    · subst hxy; exact ⟨[], ys, rfl, by simp⟩
    · rcases List.mem_cons.1 h with h | h
      · exact absurd h hxy
      · obtain ⟨s, t, rfl, hs⟩ := ih h
        exact ⟨y :: s, t, rfl, by simp [hxy, hs]⟩

theorem sorted_split {l1 l2 : List Msg} {x : Msg} (h : TimeSorted (l1 ++ x :: l2)) :
    (∀ y ∈ l1, y.time ≤ x.time) ∧ (∀ y ∈ l2, x.time ≤ y.time) := by
  rw [timeSorted_iff_pairwise, List.pairwise_append] at h
  obtain ⟨_, h2, h3⟩ := h
  rw [List.pairwise_cons] at h2
  exact ⟨fun y hy => h3 y hy x (by simp), h2.1⟩

theorem getElem?_parts {α : Type} (l1 l2 l3 : List α) (x y m : α) (p : Nat)
    (h : (l1 ++ x :: (l2 ++ y :: l3))[p]? = some m) (h1 : p ≠ l1.length)
    (h2 : p ≠ l1.length + 1 + l2.length) : m ∈ l1 ∨ m ∈ l2 ∨ m ∈ l3 := by
  rcases Nat.lt_or_ge p l1.length with hlt | hge
  · rw [List.getElem?_append_left hlt] at h
    exact Or.inl (List.mem_of_getElem? h)
  · rw [List.getElem?_append_right hge] at h
    obtain ⟨n, hn⟩ : ∃ n, p - l1.length = n + 1 := ⟨p - l1.length - 1, by omega⟩
    rw [hn, List.getElem?_cons_succ] at h
    rcases Nat.lt_or_ge n l2.length with hlt | hge2
    · rw [List.getElem?_append_left hlt] at h
      exact Or.inr (Or.inl (List.mem_of_getElem? h))
    · rw [List.getElem?_append_right hge2] at h
      obtain ⟨n', hn'⟩ : ∃ n', n - l2.length = n' + 1 := ⟨n - l2.length - 1, by omega⟩
      rw [hn', List.getElem?_cons_succ] at h
      exact Or.inr (Or.inr (List.mem_of_getElem? h))

theorem getElem?_first {α : Type} (l1 rest : List α) (x : α) : (l1 ++ x :: rest)[l1.length]? = some x := by
  simp

theorem getElem?_second {α : Type} (l1 l2 l3 : List α) (x y : α) :
    (l1 ++ x :: (l2 ++ y :: l3))[l1.length + 1 + l2.length]? = some y := by
  rw [List.getElem?_append_right (by omega)]
  have : l1.length + 1 + l2.length - l1.length = l2.length + 1 := by omega
  rw [this, List.getElem?_cons_succ, List.getElem?_append_right (Nat.le_refl _)]
  simp

/-! ### `foldlM'` -/

theorem foldlM'_cons_ok {α β} {f : β → α → Except Err β} {b b1 : β} {x : α} (xs : List α)
    (h : f b x = .ok b1) : foldlM' f b (x :: xs) = foldlM' f b1 xs := by
  simp only [foldlM', h]

theorem foldlM'_append_ok {α β} {f : β → α → Except Err β} (l1 l2 : List α) : ∀ {b b1 : β},
    foldlM' f b l1 = .ok b1 → foldlM' f b (l1 ++ l2) = foldlM' f b1 l2 := by
  induction l1 with
  | nil => intro b b1 h; simp only [foldlM'] at h; cases h; rfl
  | cons x xs ih =>
    intro b b1 h
    simp only [foldlM'] at h
    split at h
    · rename_i b2 hb2
      rw [List.cons_append, foldlM'_cons_ok _ hb2]
      exact ih h
    · cases h

/-! ### bounds on the candidate positions -/

theorem maxStep_pos {steps : List Int} (hs : StepsOk steps) : 0 < maxStep steps := by
  obtain ⟨hne, hpos⟩ := hs
  cases steps with
  | nil => exact absurd rfl hne
  | cons s ss =>
    have h1 := hpos s (by simp)
    have h2 := le_maxStep (steps := s :: ss) (s := s) (by simp)
    omega

theorem cand_bd {steps : List Int} (hs : StepsOk steps) {t p : Int} (hp : p ∈ possiblePositions steps t) :
    p ≤ t + maxStep steps ∧ t ≤ p + maxStep steps := by
  have h1 := (candidates_spec steps hs t p hp).2
  have h2 := maxStep_pos hs
  omega

/-! ### one step on well-formed input, all cases spelled out -/

def StepInfo (steps : List Int) (s : QSt) (m : Msg) (s' : QSt) : Prop :=
  (m.ty = .noteOn ∧ s.opens.get? m.nkey = Option.none ∧
      ∃ t, nearest m.time (possiblePositions steps m.time) = .ok t ∧
      ((s' = pushOn s m t ∧ (s.timings.get? m.nkey = Option.none ∨
          ∃ t0 t1, s.timings.get? m.nkey = some [t0, t1] ∧ t1 ≤ t)) ∨
       (s' = s ∧ ∃ t0 t1, s.timings.get? m.nkey = some [t0, t1] ∧ t < t1))) ∨
  (m.ty = .noteOff ∧ ((∃ openT t, s.opens.get? m.nkey = some openT ∧
        nearest m.time (validOf steps m openT) = .ok t ∧ s' = pushOff s m t) ∨
      (s.opens.get? m.nkey = Option.none ∧ s' = s))) ∨
  (m.ty ≠ .noteOn ∧ m.ty ≠ .noteOff ∧ ∃ t, nearest m.time (possiblePositions steps m.time) = .ok t ∧
      s' = { s with out := { m with time := t } :: s.out })

theorem step_info {steps : List Int} {s : QSt} {m : Msg} {l : List Msg} {s' : QSt}
    (hs : SInv s) (hin : InAlt s (m :: l)) (hq : qStep steps s m = .ok s') : StepInfo steps s m s' := by
  by_cases hon : m.ty = .noteOn
  · refine Or.inl ⟨hon, ?_⟩
    obtain ⟨b, hb, hbo⟩ := hin m.nkey
    rw [altFrom, if_pos ⟨rfl, hon⟩] at hb
    obtain ⟨hbf, _⟩ := hb
    have hc : s.opens.contains m.nkey = false := by
      cases h : s.opens.contains m.nkey
      · rfl
      · have := hbo h; rw [hbf] at this; cases this
    have hnone := contains_false hc
    refine ⟨hnone, ?_⟩
    rcases qStep_cases hq with ⟨_, t, ht, _⟩ | ⟨hty, _⟩ | ⟨h1, _⟩
    · refine ⟨t, ht, ?_⟩
      have hpre : preOn s m t = s := by simp [preOn, hc]
      have hq' := qStep_on (s := s) hon ht
      rw [hpre, hq] at hq'
      cases htm : s.timings.get? m.nkey with
      | none =>
        rw [htm] at hq'
        cases hq'
        exact Or.inl ⟨rfl, Or.inl rfl⟩
      | some tm =>
        obtain ⟨t0, t1, rfl⟩ := hs.cls _ _ hnone htm
        rw [htm] at hq'
        simp only [List.getElem?_cons_succ, List.getElem?_cons_zero] at hq'
        by_cases hlt : t < t1
        · simp only [hlt, decide_true, Bool.not_true, Bool.false_eq_true, if_false] at hq'
          cases hq'
          exact Or.inr ⟨rfl, t0, t1, rfl, hlt⟩
        · simp only [hlt, decide_false, Bool.not_false, if_true] at hq'
          cases hq'
          exact Or.inl ⟨rfl, Or.inr ⟨t0, t1, rfl, by omega⟩⟩
    · rw [hon] at hty; cases hty
    · exact absurd hon h1
  · by_cases hoff : m.ty = .noteOff
    · refine Or.inr (Or.inl ⟨hoff, ?_⟩)
      cases hopen : s.opens.get? m.nkey with
      | none =>
        rw [qStep_off_closed hoff hopen] at hq
        cases hq
        exact Or.inr ⟨rfl, rfl⟩
      | some openT =>
        obtain ⟨t, ht, _, _⟩ := nearest_ok m.time _ (validOf_ne_nil steps m openT)
        rw [qStep_off_open hoff hopen ht] at hq
        cases hq
        exact Or.inl ⟨openT, t, rfl, ht, rfl⟩
    · refine Or.inr (Or.inr ⟨hon, hoff, ?_⟩)
      rcases qStep_cases hq with ⟨hty, _⟩ | ⟨hty, _⟩ | ⟨_, _, t, ht, rfl⟩
      · exact absurd hty hon
      · exact absurd hty hoff
      · exact ⟨t, ht, rfl⟩

theorem out_shape {steps : List Int} {s : QSt} {m : Msg} {s' : QSt} (h : StepInfo steps s m s') :
    s'.out = s.out ∨ ∃ t, s'.out = { m with time := t } :: s.out := by
  rcases h with ⟨_, _, t, _, ⟨rfl, _⟩ | ⟨rfl, _⟩⟩ | ⟨_, ⟨_, t, _, _, rfl⟩ | ⟨_, rfl⟩⟩ | ⟨_, _, t, _, rfl⟩
  · exact Or.inr ⟨t, rfl⟩
  · exact Or.inl rfl
  · exact Or.inr ⟨t, rfl⟩
  · exact Or.inl rfl
  · exact Or.inr ⟨t, rfl⟩

theorem pushOn_opens (s : QSt) (m : Msg) (t : Int) (k : Int × Int) :
    (pushOn s m t).opens.get? k = if m.nkey = k then some t else s.opens.get? k := get?_set _ _ _ _

theorem pushOn_timings (s : QSt) (m : Msg) (t : Int) (k : Int × Int) :
    (pushOn s m t).timings.get? k = if m.nkey = k then some [t] else s.timings.get? k := get?_set _ _ _ _

theorem pushOff_opens {s : QSt} (h : SInv s) (m : Msg) (t : Int) (k : Int × Int) :
    (pushOff s m t).opens.get? k = if m.nkey = k then Option.none else s.opens.get? k :=
  get?_erase h.nodup _ _

theorem pushOff_timings (s : QSt) (m : Msg) (t : Int) (k : Int × Int) :
    (pushOff s m t).timings.get? k =
      if m.nkey = k then some ((s.timings.get? m.nkey).getD [] ++ [t]) else s.timings.get? k := get?_set _ _ _ _

/-- a message that is not a note event of key `k` leaves `opens[k]` alone -/
theorem opens_other {steps : List Int} {s : QSt} {m : Msg} {s' : QSt} {k : Int × Int} (hs : SInv s)
    (h : StepInfo steps s m s') (hm : ¬ (m.nkey = k ∧ IsNoteTy m)) : s'.opens.get? k = s.opens.get? k := by
  rcases h with ⟨hty, _, t, _, ⟨rfl, _⟩ | ⟨rfl, _⟩⟩ | ⟨hty, ⟨_, t, _, _, rfl⟩ | ⟨_, rfl⟩⟩ | ⟨_, _, t, _, rfl⟩
  · rw [pushOn_opens, if_neg (fun e => hm ⟨e, Or.inl hty⟩)]
  · rfl
  · rw [pushOff_opens hs, if_neg (fun e => hm ⟨e, Or.inr hty⟩)]
  · rfl
  · rfl

/-! ### following the fold along a prefix of the remaining input -/

theorem fold_seg {steps : List Int} (hne : steps ≠ []) (J : QSt → Prop) (l1 l2 : List Msg)
    (hstep : ∀ s m l s', m ∈ l1 → SInv s → InAlt s (m :: l) → J s → qStep steps s m = .ok s' → J s') :
    ∀ s, SInv s → InAlt s (l1 ++ l2) → J s →
      ∃ s1, foldlM' (qStep steps) s l1 = .ok s1 ∧ SInv s1 ∧ InAlt s1 l2 ∧ J s1 := by
  induction l1 with
  | nil => intro s hs hin hJ; exact ⟨s, rfl, hs, hin, hJ⟩
  | cons m ms ih =>
    intro s hs hin hJ
    obtain ⟨s1, x, hq, _, hs1, hin1, _, _⟩ := qStep_wf hne (a := [m]) hs hin (by simp)
    have hJ1 := hstep s m _ s1 List.mem_cons_self hs hin hJ hq
    obtain ⟨s2, hf, h2⟩ := ih (fun s m l s' hm => hstep s m l s' (List.mem_cons_of_mem _ hm)) s1 hs1 hin1 hJ1
    exact ⟨s2, by rw [foldlM'_cons_ok _ hq]; exact hf, h2⟩

/-! ### the invariants of the three segments -/

/-- before the note: every stored or produced time of key `k` is at least `S` before `T` -/
def BInv (k : Int × Int) (T S : Int) (s : QSt) : Prop :=
  (∀ t, s.opens.get? k = some t → t + S ≤ T) ∧
  (∀ tm, s.timings.get? k = some tm → ∀ t ∈ tm, t + S ≤ T) ∧
  (∀ y ∈ s.out, y.nkey = k → IsNoteTy y → y.time + S ≤ T)

theorem binv_init (k : Int × Int) (T S : Int) : BInv k T S {} := by
  refine ⟨?_, ?_, ?_⟩
  · intro t h; simp [Assoc.get?] at h
  · intro tm h; simp [Assoc.get?] at h
  · intro y hy; cases hy

theorem binv_step {steps : List Int} (hs : StepsOk steps) {k : Int × Int} {T : Int} {s : QSt} {m : Msg} {s' : QSt}
    (hm : m.nkey = k → IsNoteTy m → m.time + 2 * maxStep steps ≤ T) (hsi : SInv s)
    (hinfo : StepInfo steps s m s') (hb : BInv k T (maxStep steps) s) : BInv k T (maxStep steps) s' := by
  obtain ⟨hb1, hb2, hb3⟩ := hb
  have hS := maxStep_pos hs
  rcases hinfo with ⟨hty, hnone, t, ht, ⟨rfl, _⟩ | ⟨rfl, _⟩⟩ | ⟨hty, ⟨openT, t, hopen, ht, rfl⟩ | ⟨_, rfl⟩⟩ |
    ⟨h1, h2, t, ht, rfl⟩
  · have hcb := cand_bd hs (nearest_mem ht)
    refine ⟨?_, ?_, ?_⟩
    · intro t' ht'
      rw [pushOn_opens] at ht'
      split at ht'
      · rename_i hk; cases ht'; have := hm hk (Or.inl hty); omega
      · exact hb1 _ ht'
    · intro tm htm x hx
      rw [pushOn_timings] at htm
      split at htm
      · rename_i hk; cases htm
        have hx' : x = t := by simpa using hx
        subst hx'
        have := hm hk (Or.inl hty); omega
      · exact hb2 _ htm x hx
    · intro y hy hyk hyn
      rcases List.mem_cons.1 hy with rfl | hy
      · have := hm hyk (Or.inl hty)
        show t + _ ≤ T
        omega
      · exact hb3 y hy hyk hyn
  · exact ⟨hb1, hb2, hb3⟩
  · have htb : m.nkey = k → t + maxStep steps ≤ T := by
      intro hk
      rcases mem_validOf (nearest_mem ht) with ⟨rfl, _⟩ | ⟨hp, _⟩
      · exact hb1 _ (hk ▸ hopen)
      · have hcb := cand_bd hs hp
        have := hm hk (Or.inr hty); omega
    refine ⟨?_, ?_, ?_⟩
    · intro t' ht'
      rw [pushOff_opens hsi] at ht'
      split at ht'
      · cases ht'
      · exact hb1 _ ht'
    · intro tm htm x hx
      rw [pushOff_timings] at htm
      split at htm
      · rename_i hk; cases htm
        rcases List.mem_append.1 hx with hx | hx
        · cases hold : s.timings.get? m.nkey with
          | none => rw [hold] at hx; simp at hx
          | some old =>
            rw [hold] at hx
            exact hb2 old (hk ▸ hold) x (by simpa using hx)
        · have hx' : x = t := by simpa using hx
          subst hx'
          exact htb hk
      · exact hb2 _ htm x hx
    · intro y hy hyk hyn
      rcases List.mem_cons.1 hy with rfl | hy
      · exact htb hyk
      · exact hb3 y hy hyk hyn
  · exact ⟨hb1, hb2, hb3⟩
  · refine ⟨hb1, hb2, ?_⟩
    intro y hy hyk hyn
    rcases List.mem_cons.1 hy with rfl | hy
    · rcases hyn with hyn | hyn
      · exact absurd hyn h1
      · exact absurd hyn h2
    · exact hb3 y hy hyk hyn

/-- inside the note: `opens[k]` stays, nothing of key `k` is produced -/
def MInv (k : Int × Int) (q : Int) (base : List Msg) (s : QSt) : Prop :=
  s.opens.get? k = some q ∧ ∃ nw, s.out = nw ++ base ∧ ∀ y ∈ nw, ¬ (y.nkey = k ∧ IsNoteTy y)

theorem minv_step {steps : List Int} {k : Int × Int} {q : Int} {base : List Msg} {s : QSt} {m : Msg} {s' : QSt}
    (hm : ¬ (m.nkey = k ∧ IsNoteTy m)) (hsi : SInv s)
    (hinfo : StepInfo steps s m s') (hb : MInv k q base s) : MInv k q base s' := by
  obtain ⟨h1, nw, h2, h3⟩ := hb
  refine ⟨by rw [opens_other hsi hinfo hm]; exact h1, ?_⟩
  rcases out_shape hinfo with ho | ⟨t, ho⟩
  · exact ⟨nw, by rw [ho, h2], h3⟩
  · refine ⟨{ m with time := t } :: nw, by rw [ho, h2]; rfl, ?_⟩
    intro y hy
    rcases List.mem_cons.1 hy with rfl | hy
    · exact hm
    · exact h3 y hy

/-- after the note: every produced time of key `k` is at least `S` after `T` -/
def AInv (k : Int × Int) (T S : Int) (base : List Msg) (s : QSt) : Prop :=
  (∀ t, s.opens.get? k = some t → T + S ≤ t) ∧
  ∃ nw, s.out = nw ++ base ∧ ∀ y ∈ nw, y.nkey = k → IsNoteTy y → T + S ≤ y.time

theorem ainv_step {steps : List Int} (hs : StepsOk steps) {k : Int × Int} {T : Int} {base : List Msg}
    {s : QSt} {m : Msg} {s' : QSt}
    (hm : m.nkey = k → IsNoteTy m → T + 2 * maxStep steps ≤ m.time) (hsi : SInv s)
    (hinfo : StepInfo steps s m s') (hb : AInv k T (maxStep steps) base s) :
    AInv k T (maxStep steps) base s' := by
  obtain ⟨hb1, nw, hb2, hb3⟩ := hb
  have hS := maxStep_pos hs
  rcases hinfo with ⟨hty, hnone, t, ht, ⟨rfl, _⟩ | ⟨rfl, _⟩⟩ | ⟨hty, ⟨openT, t, hopen, ht, rfl⟩ | ⟨_, rfl⟩⟩ |
    ⟨h1, h2, t, ht, rfl⟩
  · have hcb := cand_bd hs (nearest_mem ht)
    refine ⟨?_, { m with time := t } :: nw, by show _ :: s.out = _; rw [hb2]; rfl, ?_⟩
    · intro t' ht'
      rw [pushOn_opens] at ht'
      split at ht'
      · rename_i hk; cases ht'; have := hm hk (Or.inl hty); omega
      · exact hb1 _ ht'
    · intro y hy hyk hyn
      rcases List.mem_cons.1 hy with rfl | hy
      · have := hm hyk (Or.inl hty)
        show T + _ ≤ t
        omega
      · exact hb3 y hy hyk hyn
  · exact ⟨hb1, nw, hb2, hb3⟩
  · have htb : m.nkey = k → T + maxStep steps ≤ t := by
      intro hk
      rcases mem_validOf (nearest_mem ht) with ⟨rfl, _⟩ | ⟨hp, _⟩
      · exact hb1 _ (hk ▸ hopen)
      · have hcb := cand_bd hs hp
        have := hm hk (Or.inr hty); omega
    refine ⟨?_, { m with time := t } :: nw, by show _ :: s.out = _; rw [hb2]; rfl, ?_⟩
    · intro t' ht'
      rw [pushOff_opens hsi] at ht'
      split at ht'
      · cases ht'
      · exact hb1 _ ht'
    · intro y hy hyk hyn
      rcases List.mem_cons.1 hy with rfl | hy
      · exact htb hyk
      · exact hb3 y hy hyk hyn
  · exact ⟨hb1, nw, hb2, hb3⟩
  · refine ⟨hb1, { m with time := t } :: nw, by show _ :: s.out = _; rw [hb2]; rfl, ?_⟩
    intro y hy hyk hyn
    rcases List.mem_cons.1 hy with rfl | hy
    · rcases hyn with hyn | hyn
      · exact absurd hyn h1
      · exact absurd hyn h2
    · exact hb3 y hy hyk hyn

/-- the produced list only grows -/
def OInv (base : List Msg) (s : QSt) : Prop := ∃ nw, s.out = nw ++ base

theorem oinv_step {steps : List Int} {base : List Msg} {s : QSt} {m : Msg} {s' : QSt}
    (hinfo : StepInfo steps s m s') (hb : OInv base s) : OInv base s' := by
  obtain ⟨nw, h2⟩ := hb
  rcases out_shape hinfo with ho | ⟨t, ho⟩
  · exact ⟨nw, by rw [ho, h2]⟩
  · exact ⟨{ m with time := t } :: nw, by rw [ho, h2]; rfl⟩

/-! ### the two steps at the note itself -/

theorem step_on {steps : List Int} (hs : StepsOk steps) {s1 : QSt} {on : Msg} {l : List Msg} {q : Int}
    (hsi : SInv s1) (hin : InAlt s1 (on :: l)) (hon : on.ty = .noteOn)
    (hb : BInv on.nkey on.time (maxStep steps) s1)
    (hq : nearest on.time (possiblePositions steps on.time) = .ok q) :
    qStep steps s1 on = .ok (pushOn s1 on q) ∧ SInv (pushOn s1 on q) ∧ InAlt (pushOn s1 on q) l := by
  obtain ⟨s2, x, hq2, _, hsi2, hin2, _, _⟩ := qStep_wf hs.1 (a := [on]) hsi hin (by simp)
  have hcb := cand_bd hs (nearest_mem hq)
  rcases step_info hsi hin hq2 with ⟨_, _, t, ht, ⟨rfl, _⟩ | ⟨rfl, t0, t1, htm, hlt⟩⟩ | ⟨hty, _⟩ | ⟨h1, _⟩
  · rw [hq] at ht; cases ht
    exact ⟨hq2, hsi2, hin2⟩
  · rw [hq] at ht; cases ht
    have := hb.2.1 _ htm t1 (by simp)
    omega
  · rw [hon] at hty; cases hty
  · exact absurd hon h1

theorem step_off {steps : List Int} (hs : StepsOk steps) {s3 : QSt} {off : Msg} {l : List Msg} {q : Int}
    (hsi : SInv s3) (hin : InAlt s3 (off :: l)) (hoff : off.ty = .noteOff)
    (hopen : s3.opens.get? off.nkey = some q) :
    ∃ t, nearest off.time (validOf steps off q) = .ok t ∧ qStep steps s3 off = .ok (pushOff s3 off t) ∧
      SInv (pushOff s3 off t) ∧ InAlt (pushOff s3 off t) l := by
  obtain ⟨s4, x, hq4, _, hsi4, hin4, _, _⟩ := qStep_wf hs.1 (a := [off]) hsi hin (by simp)
  obtain ⟨t, ht, _, _⟩ := nearest_ok off.time _ (validOf_ne_nil steps off q)
  have := qStep_off_open hoff hopen ht
  rw [hq4] at this
  cases this
  exact ⟨t, ht, hq4, hsi4, hin4⟩

/-- the fold up to and including the note-off -/
theorem fold_core {steps : List Int} (hs : StepsOk steps) {pre mid post : List Msg} {on off : Msg} {s : QSt}
    {q : Int} (hwf : WF (pre ++ on :: (mid ++ off :: post)))
    (hon : on.ty = .noteOn) (hoff : off.ty = .noteOff) (hkey : off.nkey = on.nkey)
    (hpre : ∀ m ∈ pre, m.nkey = on.nkey → IsNoteTy m → m.time + 2 * maxStep steps ≤ on.time)
    (hmid : ∀ m ∈ mid, ¬ (m.nkey = on.nkey ∧ IsNoteTy m))
    (hq : nearest on.time (possiblePositions steps on.time) = .ok q)
    (hf : foldlM' (qStep steps) {} (pre ++ on :: (mid ++ off :: post)) = .ok s) :
    ∃ (s1 : QSt) (nw2 : List Msg) (t : Int) (s4 : QSt), (∀ y ∈ s1.out, y.nkey = on.nkey → IsNoteTy y → y.time + maxStep steps ≤ on.time) ∧
      (∀ y ∈ nw2, ¬ (y.nkey = on.nkey ∧ IsNoteTy y)) ∧
      nearest off.time (validOf steps off q) = .ok t ∧
      s4.out = { off with time := t } :: (nw2 ++ { on with time := q } :: s1.out) ∧
      SInv s4 ∧ InAlt s4 post ∧ s4.opens.get? on.nkey = Option.none ∧
      foldlM' (qStep steps) s4 post = .ok s := by
  obtain ⟨s1, hf1, hsi1, hin1, hb1⟩ := fold_seg hs.1 (BInv on.nkey on.time (maxStep steps)) pre
    (on :: (mid ++ off :: post))
    (fun s m l s' hm hsi hin hJ hq => binv_step hs (hpre m hm) hsi (step_info hsi hin hq) hJ)
    {} sInv_init (inAlt_init hwf) (binv_init _ _ _)
  rw [foldlM'_append_ok _ _ hf1] at hf
  obtain ⟨hq2, hsi2, hin2⟩ := step_on hs hsi1 hin1 hon hb1 hq
  rw [foldlM'_cons_ok _ hq2] at hf
  obtain ⟨s3, hf3, hsi3, hin3, hopen3, nw2, hout3, hnw2⟩ := fold_seg hs.1
    (MInv on.nkey q (pushOn s1 on q).out) mid (off :: post)
    (fun s m l s' hm hsi hin hJ hq => minv_step (hmid m hm) hsi (step_info hsi hin hq) hJ)
    _ hsi2 hin2 ⟨by rw [pushOn_opens, if_pos rfl], [], rfl, by simp⟩
  rw [foldlM'_append_ok _ _ hf3] at hf
  obtain ⟨t, ht, hq4, hsi4, hin4⟩ := step_off hs hsi3 hin3 hoff (by rw [hkey]; exact hopen3)
  rw [foldlM'_cons_ok _ hq4] at hf
  refine ⟨s1, nw2, t, pushOff s3 off t, hb1.2.2, hnw2, ht, ?_, hsi4, hin4, ?_, hf⟩
  · show _ :: s3.out = _
    rw [hout3]; rfl
  · rw [pushOff_opens hsi3, if_pos hkey]

/-! ### `collapsedGo` along a prefix -/

theorem cg_prefix (k : Int × Int) (l1 l2 : List Msg) : ∀ (i : Nat) (tbl : Assoc (Int × Int) (Nat × Int))
    (acc idx : List Nat), TInv i tbl acc → collapsedGo (l1 ++ l2) i tbl acc = .ok idx →
    ∃ tbl' acc', TInv (i + l1.length) tbl' acc' ∧ collapsedGo l2 (i + l1.length) tbl' acc' = .ok idx ∧
      ((∀ y ∈ l1, ¬ (y.nkey = k ∧ IsNoteTy y)) → tbl'.get? k = tbl.get? k) := by
  induction l1 with
  | nil => intro i tbl acc idx hinv hgo; exact ⟨tbl, acc, hinv, hgo, fun _ => rfl⟩
  | cons m ms ih =>
    intro i tbl acc idx hinv hgo
    have hlen : i + (m :: ms).length = i + 1 + ms.length := by simp; omega
    rw [hlen]
    rw [List.cons_append] at hgo
    by_cases hon : m.ty = .noteOn
    · simp only [collapsedGo, hon] at hgo
      obtain ⟨tbl', acc', h1, h2, h3⟩ := ih _ _ _ _ (tInv_on hinv m.nkey m.time) hgo
      refine ⟨tbl', acc', h1, h2, ?_⟩
      intro hno
      rw [h3 (fun y hy => hno y (List.mem_cons_of_mem _ hy)), get?_set,
        if_neg (fun e => hno m List.mem_cons_self ⟨e, Or.inl hon⟩)]
    · by_cases hoff : m.ty = .noteOff
      · simp only [collapsedGo, hoff] at hgo
        cases hget : tbl.get? m.nkey with
        | none => rw [hget] at hgo; cases hgo
        | some jt =>
          obtain ⟨j, t⟩ := jt
          rw [hget] at hgo
          simp only [] at hgo
          obtain ⟨tbl', acc', h1, h2, h3⟩ := ih _ _ _ _ (tInv_off hinv hget (m.time - t ≤ 0)) hgo
          refine ⟨tbl', acc', h1, h2, ?_⟩
          intro hno
          rw [h3 (fun y hy => hno y (List.mem_cons_of_mem _ hy)), get?_erase hinv.nodup,
            if_neg (fun e => hno m List.mem_cons_self ⟨e, Or.inr hoff⟩)]
      · have hgo' : collapsedGo (ms ++ l2) (i + 1) tbl acc = .ok idx := by
          simpa only [collapsedGo] using hgo
        have hinv' : TInv (i + 1) tbl acc :=
          ⟨hinv.nodup, fun x hx => Nat.lt_succ_of_lt (hinv.accLt x hx),
            fun kv hkv => ⟨Nat.lt_succ_of_lt (hinv.tblLt kv hkv).1, (hinv.tblLt kv hkv).2⟩, hinv.inj⟩
        obtain ⟨tbl', acc', h1, h2, h3⟩ := ih _ _ _ _ hinv' hgo'
        exact ⟨tbl', acc', h1, h2, fun hno => h3 (fun y hy => hno y (List.mem_cons_of_mem _ hy))⟩

/-- a note-on and the next note-off of its key are removed together, exactly when the length is not positive -/
theorem cg_pair {q1 q2 q3 : List Msg} {xon xoff : Msg} {idx : List Nat}
    (hon : xon.ty = .noteOn) (hoff : xoff.ty = .noteOff) (hkey : xoff.nkey = xon.nkey)
    (hq2 : ∀ y ∈ q2, ¬ (y.nkey = xon.nkey ∧ IsNoteTy y))
    (hgo : collapsedGo (q1 ++ xon :: (q2 ++ xoff :: q3)) 0 [] [] = .ok idx) :
    (q1.length ∈ idx ↔ xoff.time - xon.time ≤ 0) ∧
    (q1.length + 1 + q2.length ∈ idx ↔ xoff.time - xon.time ≤ 0) := by
  obtain ⟨tbl1, acc1, hinv1, hgo1, _⟩ := cg_prefix xon.nkey q1 _ 0 [] [] idx tInv_init hgo
  rw [Nat.zero_add] at hinv1 hgo1
  simp only [collapsedGo, hon] at hgo1
  have hinv2 := tInv_on hinv1 xon.nkey xon.time
  obtain ⟨tbl3, acc3, hinv3, hgo3, hget3⟩ := cg_prefix xon.nkey q2 _ _ _ _ idx hinv2 hgo1
  have hget := hget3 hq2
  rw [get?_set, if_pos rfl] at hget
  simp only [collapsedGo, hoff, hkey, hget] at hgo3
  obtain ⟨h1, h2⟩ := idx_off hinv3 hget (xoff.time - xon.time ≤ 0) hgo3
  exact ⟨h2, h1⟩

theorem mem_removeIndices_iff (l : List Msg) (idx : List Nat) (x : Msg) :
    x ∈ removeIndices l idx ↔ ∃ p, l[p]? = some x ∧ p ∉ idx := by
  simp only [removeIndices, List.mem_map, List.mem_filter]
  constructor
  · rintro ⟨⟨y, p⟩, ⟨hm, hp⟩, rfl⟩
    exact ⟨p, List.mem_zipIdx_iff_getElem?.1 hm, by simpa using hp⟩
  · rintro ⟨p, hp, hn⟩
    exact ⟨(x, p), ⟨List.mem_zipIdx_iff_getElem?.2 hp, by simpa using hn⟩, rfl⟩

/-! ### the two results -/

theorem core_survives {steps : List Int} (hs : StepsOk steps) {pre mid post out : List Msg} {on off : Msg}
    {q : Int} (hwf : WF (pre ++ on :: (mid ++ off :: post)))
    (hon : on.ty = .noteOn) (hoff : off.ty = .noteOff) (hkey : off.nkey = on.nkey)
    (hpre : ∀ m ∈ pre, m.nkey = on.nkey → IsNoteTy m → m.time + 2 * maxStep steps ≤ on.time)
    (hmid : ∀ m ∈ mid, ¬ (m.nkey = on.nkey ∧ IsNoteTy m))
    (hq : nearest on.time (possiblePositions steps on.time) = .ok q)
    (hroom : ∃ p ∈ possiblePositions steps off.time, q < p)
    (h : quantise steps (pre ++ on :: (mid ++ off :: post)) = .ok out) :
    { on with time := q } ∈ out ∧ ∃ t, q < t ∧ { off with time := t } ∈ out := by
  obtain ⟨s, idx, hf, hidx, rfl⟩ := quantise_ok h
  obtain ⟨s1, nw2, t, s4, _, hnw2, ht, hout4, hsi4, hin4, _, hf4⟩ :=
    fold_core hs hwf hon hoff hkey hpre hmid hq hf
  obtain ⟨s', hf', _, _, nw3, hout⟩ := fold_seg hs.1 (OInv s4.out) post []
    (fun s m l s' _ hsi hin hJ hq => oinv_step (step_info hsi hin hq) hJ) s4 hsi4
    (by simpa using hin4) ⟨[], rfl⟩
  rw [hf4] at hf'
  cases hf'
  have hqt : q < t := by
    rcases mem_validOf (nearest_mem ht) with ⟨_, hno⟩ | ⟨_, hlt⟩
    · exact absurd hroom hno
    · exact hlt
  have hrev : s.out.reverse = s1.out.reverse ++ { on with time := q } ::
      (nw2.reverse ++ { off with time := t } :: nw3.reverse) := by
    rw [hout, hout4]; simp
  rw [hrev] at hidx
  obtain ⟨h1, h2⟩ := cg_pair (xon := { on with time := q }) (xoff := { off with time := t }) hon hoff hkey
    (fun y hy => hnw2 y (List.mem_reverse.1 hy)) hidx
  have hc : ¬ (t - q ≤ 0) := by omega
  rw [hrev]
  refine ⟨?_, t, hqt, ?_⟩
  · rw [mem_sortAbs, mem_removeIndices_iff]
    exact ⟨_, getElem?_first _ _ _, fun hi => hc (h1.1 hi)⟩
  · rw [mem_sortAbs, mem_removeIndices_iff]
    exact ⟨_, getElem?_second _ _ _ _ _, fun hi => hc (h2.1 hi)⟩

theorem core_dropped {steps : List Int} (hs : StepsOk steps) {pre mid post out : List Msg} {on off : Msg}
    {q : Int} (hwf : WF (pre ++ on :: (mid ++ off :: post)))
    (hon : on.ty = .noteOn) (hoff : off.ty = .noteOff) (hkey : off.nkey = on.nkey)
    (hpre : ∀ m ∈ pre, m.nkey = on.nkey → IsNoteTy m → m.time + 2 * maxStep steps ≤ on.time)
    (hmid : ∀ m ∈ mid, ¬ (m.nkey = on.nkey ∧ IsNoteTy m))
    (hpost : ∀ m ∈ post, m.nkey = on.nkey → IsNoteTy m → off.time + 2 * maxStep steps ≤ m.time)
    (hq : nearest on.time (possiblePositions steps on.time) = .ok q)
    (hnoroom : ∀ p ∈ possiblePositions steps off.time, p ≤ q)
    (h : quantise steps (pre ++ on :: (mid ++ off :: post)) = .ok out) :
    ∀ m ∈ out, m.nkey = on.nkey → IsNoteTy m →
      m.time + maxStep steps ≤ on.time ∨ off.time + maxStep steps ≤ m.time := by
  obtain ⟨s, idx, hf, hidx, rfl⟩ := quantise_ok h
  obtain ⟨s1, nw2, t, s4, hq1, hnw2, ht, hout4, hsi4, hin4, hopen4, hf4⟩ :=
    fold_core hs hwf hon hoff hkey hpre hmid hq hf
  obtain ⟨s', hf', _, _, _, nw3, hout, hnw3⟩ := fold_seg hs.1
    (AInv on.nkey off.time (maxStep steps) s4.out) post []
    (fun s m l s' hm hsi hin hJ hq => ainv_step hs (hpost m hm) hsi (step_info hsi hin hq) hJ) s4 hsi4
    (by simpa using hin4) ⟨fun t' ht' => (by rw [hopen4] at ht'; cases ht'), [], rfl, by simp⟩
  rw [hf4] at hf'
  cases hf'
  have hqt : t = q := by
    rcases mem_validOf (nearest_mem ht) with ⟨h, _⟩ | ⟨hp, hlt⟩
    · exact h
    · have := hnoroom t hp; omega
  subst hqt
  have hrev : s.out.reverse = s1.out.reverse ++ { on with time := t } ::
      (nw2.reverse ++ { off with time := t } :: nw3.reverse) := by
    rw [hout, hout4]; simp
  rw [hrev] at hidx
  obtain ⟨h1, h2⟩ := cg_pair (xon := { on with time := t }) (xoff := { off with time := t }) hon hoff hkey
    (fun y hy => hnw2 y (List.mem_reverse.1 hy)) hidx
  have hc : t - t ≤ 0 := by omega
  intro m hm hmk hmn
  rw [hrev, mem_sortAbs, mem_removeIndices_iff] at hm
  obtain ⟨p, hp, hpi⟩ := hm
  rcases getElem?_parts _ _ _ _ _ _ _ hp (fun e => hpi (e ▸ h1.2 hc)) (fun e => hpi (e ▸ h2.2 hc)) with
    hm | hm | hm
  · exact Or.inl (hq1 m (List.mem_reverse.1 hm) hmk hmn)
  · exact absurd ⟨hmk, hmn⟩ (hnw2 m (List.mem_reverse.1 hm))
  · exact Or.inr (hnw3 m (List.mem_reverse.1 hm) hmk hmn)

/-! ### cutting a well-formed sorted input at an isolated note -/

theorem altFrom_drop (k : Int × Int) (l1 l2 : List Msg) : ∀ b, altFrom k b (l1 ++ l2) → ∃ b', altFrom k b' l2 := by
  induction l1 with
  | nil => intro b h; exact ⟨b, h⟩
  | cons m ms ih =>
    intro b h
    rw [List.cons_append] at h
    by_cases hon : m.nkey = k ∧ m.ty = .noteOn
    · rw [altFrom, if_pos hon] at h; exact ih _ h.2
    · by_cases hoff : m.nkey = k ∧ m.ty = .noteOff
      · rw [altFrom, if_neg hon, if_pos hoff] at h; exact ih _ h.2
      · rw [altFrom_skip hon hoff] at h; exact ih _ h

/-- while a note of key `k` is open, a stretch whose events of key `k` are all note-ons has none at all -/
theorem alt_no_on (k : Int × Int) (l1 l2 : List Msg) : altFrom k true (l1 ++ l2) →
    (∀ m ∈ l1, m.nkey = k → IsNoteTy m → m.ty = .noteOn) → ∀ m ∈ l1, ¬ (m.nkey = k ∧ IsNoteTy m) := by
  induction l1 with
  | nil => intro _ _ m hm; cases hm
  | cons x xs ih =>
    intro h hall m hm
    rw [List.cons_append] at h
    by_cases hon : x.nkey = k ∧ x.ty = .noteOn
    · rw [altFrom, if_pos hon] at h; cases h.1
    · by_cases hoff : x.nkey = k ∧ x.ty = .noteOff
      · have := hall x List.mem_cons_self hoff.1 (Or.inr hoff.2)
        rw [hoff.2] at this; cases this
      · rw [altFrom_skip hon hoff] at h
        rcases List.mem_cons.1 hm with rfl | hm
        · rintro ⟨h1, h2 | h2⟩
          · exact hon ⟨h1, h2⟩
          · exact hoff ⟨h1, h2⟩
        · exact ih h (fun y hy => hall y (List.mem_cons_of_mem _ hy)) m hm

theorem split_note {S : Int} (hS : 0 < S) {pre post' : List Msg} {on off : Msg}
    (hsorted : TimeSorted (pre ++ on :: post')) (hwf : WF (pre ++ on :: post'))
    (hon : on.ty = .noteOn) (horder : on.time ≤ off.time)
    (far : ∀ m ∈ pre ++ on :: post', m ≠ on → m ≠ off → m.nkey = on.nkey →
      (m.ty = .noteOn ∨ m.ty = .noteOff) → m.time + 2 * S ≤ on.time ∨ off.time + 2 * S ≤ m.time)
    (h1 : on ∉ pre) (h2 : off ∉ pre) (h3 : off ∈ post') :
    ∃ mid post, post' = mid ++ off :: post ∧ off ∉ mid ∧
      (∀ m ∈ pre, m.nkey = on.nkey → IsNoteTy m → m.time + 2 * S ≤ on.time) ∧
      (∀ m ∈ mid, ¬ (m.nkey = on.nkey ∧ IsNoteTy m)) ∧
      (∀ m ∈ post, m ≠ on → m ≠ off → m.nkey = on.nkey → IsNoteTy m → off.time + 2 * S ≤ m.time) := by
  obtain ⟨mid, post, rfl, hmid⟩ := first_occ h3
  refine ⟨mid, post, rfl, hmid, ?_, ?_, ?_⟩
  all_goals
    have hs1 := sorted_split hsorted
    have hs2 : TimeSorted ((pre ++ on :: mid) ++ off :: post) := by
      rw [List.append_assoc, List.cons_append]; exact hsorted
    have hs2' := sorted_split hs2
  · intro m hm hk hn
    have hne1 : m ≠ on := fun e => h1 (e ▸ hm)
    have hne2 : m ≠ off := fun e => h2 (e ▸ hm)
    rcases far m (List.mem_append_left _ hm) hne1 hne2 hk hn with h | h
    · exact h
    · have := hs1.1 m hm; omega
  · obtain ⟨b, hb⟩ := altFrom_drop on.nkey pre _ false (hwf on.nkey)
    rw [altFrom, if_pos ⟨rfl, hon⟩] at hb
    apply alt_no_on on.nkey mid (off :: post) hb.2
    intro m hm hk hn
    by_cases e : m = on
    · subst e; exact hon
    · have hne2 : m ≠ off := fun e => hmid (e ▸ hm)
      rcases far m (by simp [hm]) e hne2 hk hn with h | h
      · have := hs1.2 m (by simp [hm]); omega
      · have := hs2'.1 m (by simp [hm]); omega
  · intro m hm e1 e2 hk hn
    rcases far m (by simp [hm]) e1 e2 hk hn with h | h
    · have := hs2'.2 m hm; omega
    · exact h

end SCoda.QB
