/-
  Helper lemmas for `Props/C09n.lean` (audit round 2, item F5 / section D row C09: `NoZeroOnGrid` also excludes a
  zero-length note at tick 0, which is a bar start but no cut point).
-/
import SCoda.Props.C08
namespace SCoda.C09NarrowL
open SCoda

/-- the cumulative sums of positive capacities, started at a non-negative tick, are positive: a bar LINE (the end of a
    bar) is never tick 0 -/
theorem cumSums_pos : ∀ (caps : List Int) (acc : Int), 0 ≤ acc → (∀ c ∈ caps, 0 < c) →
    ∀ x ∈ C08.cumSums acc caps, 0 < x := by
  intro caps
  induction caps with
  | nil => intro acc _ _ x hx; simp [C08.cumSums] at hx
  | cons c cs ih =>
    intro acc hacc hpos x hx
    have hc := hpos c List.mem_cons_self
    simp only [C08.cumSums, List.mem_cons] at hx
    rcases hx with rfl | hx
    · omega
    · exact ih (acc + c) (by omega) (fun d hd => hpos d (List.mem_cons_of_mem _ hd)) x hx

end SCoda.C09NarrowL
